#!/usr/bin/env python3
"""anchors_check.py -- are the byte vectors of coq/theories/Anchors.v still the crate's own golden vectors?

Anchors.v ties the Impl model and the Spec layer to the byte arrays that the unit tests of /repo/src contain.  Every such
vector is a definition

    (* ANCHOR test=<file.rs>::<test_fn> [mode=exact|slice] *)
    Definition gold_<name> : list N := [ ... ].

followed by `Example anchor_... : ... gold_<name> ... Proof. vm_compute. reflexivity. Qed.` statements that mention it.
This script re-reads the test function <test_fn> from the CURRENT working tree of the crate (default /repo/src, override
with --repo DIR or the environment variable ANCHORS_REPO_SRC), extracts every byte-array literal of its body
([a, b, ...], vec![a, b, ...], &[..], b"...", *b"..."; elements may be decimal / hex / binary / octal literals with type
suffixes and `_` separators, b'c' characters, or constant expressions such as `(1 << 6) | (66 & 0xf)` and
`(4099 >> 4) as u8`) and checks that the anchored vector is one of them:

    mode=exact (default)  the vector equals one literal of the test, element for element;
    mode=slice            the vector is a contiguous subsequence of one literal (for a test that concatenates objects).

It also checks the shape of Anchors.v itself: every `Example anchor_*` mentions at least one gold_ definition, every gold_
definition mentioned or defined carries an ANCHOR comment and is used by at least one Example, no Admitted / admit / Axiom /
Parameter occurs.  One line per anchored vector (`ok` / `MISSING`); exit status 1 if anything is missing or malformed.
No dependencies beyond the Python 3 standard library.
"""
import os
import re
import sys

HERE = os.path.dirname(os.path.abspath(__file__))
DEFAULT_ANCHORS = os.path.join(HERE, "..", "coq", "theories", "Anchors.v")
DEFAULT_REPO = os.environ.get("ANCHORS_REPO_SRC", "/repo/src")


# ----------------------------------------------------------------------------------------------- a small Rust lexer
def _skip_block_comment(s, i):
    """s[i:i+2] == '/*'; Rust block comments nest.  Returns the index after the matching '*/'."""
    depth = 0
    n = len(s)
    while i < n:
        if s.startswith("/*", i):
            depth += 1
            i += 2
        elif s.startswith("*/", i):
            depth -= 1
            i += 2
            if depth == 0:
                return i
        else:
            i += 1
    return n


def _skip_string(s, i):
    """s[i] == '"' (ordinary or byte string, the b prefix already consumed).  Returns (index after, raw contents)."""
    j = i + 1
    n = len(s)
    while j < n:
        if s[j] == "\\":
            j += 2
        elif s[j] == '"':
            return j + 1, s[i + 1:j]
        else:
            j += 1
    return n, s[i + 1:]


def _skip_raw_string(s, i):
    """s[i] == 'r' starting r"..." / r#"..."#.  Returns (index after, contents) or None if this is not a raw string."""
    j = i + 1
    hashes = 0
    while j < len(s) and s[j] == "#":
        hashes += 1
        j += 1
    if j >= len(s) or s[j] != '"':
        return None
    end = s.find('"' + "#" * hashes, j + 1)
    if end < 0:
        return len(s), s[j + 1:]
    return end + 1 + hashes, s[j + 1:end]


def _char_literal_end(s, i):
    """s[i] == "'".  Index after the character literal, or None when this quote starts a lifetime."""
    if i + 1 < len(s) and s[i + 1] == "\\":
        j = s.find("'", i + 2)
        # '\'' : the quote right after the backslash is the escaped character
        if j == i + 2:
            j = s.find("'", i + 3)
        return None if j < 0 else j + 1
    if i + 2 < len(s) and s[i + 2] == "'":
        return i + 3
    return None


def _unescape(raw):
    """bytes of the contents of a b"..." literal"""
    out = []
    i = 0
    simple = {"n": 10, "r": 13, "t": 9, "\\": 92, "0": 0, '"': 34, "'": 39}
    while i < len(raw):
        c = raw[i]
        if c == "\\" and i + 1 < len(raw):
            e = raw[i + 1]
            if e == "x":
                out.append(int(raw[i + 2:i + 4], 16))
                i += 4
            elif e in simple:
                out.append(simple[e])
                i += 2
            elif e == "\n":               # line continuation
                i += 2
                while i < len(raw) and raw[i] in " \t\r\n":
                    i += 1
            else:
                out.append(ord(e))
                i += 2
        else:
            out.extend(c.encode("utf-8"))
            i += 1
    return out


def strip_comments(s):
    """comments replaced by blanks; strings and character literals kept"""
    out = []
    i = 0
    n = len(s)
    while i < n:
        if s.startswith("//", i):
            j = s.find("\n", i)
            j = n if j < 0 else j
            out.append(" ")
            i = j
        elif s.startswith("/*", i):
            j = _skip_block_comment(s, i)
            out.append(" ")
            i = j
        elif s[i] == '"':
            j, _ = _skip_string(s, i)
            out.append(s[i:j])
            i = j
        elif s[i] == "r" and (i == 0 or not (s[i - 1].isalnum() or s[i - 1] == "_")) and _skip_raw_string(s, i):
            j, _ = _skip_raw_string(s, i)
            out.append(s[i:j])
            i = j
        elif s[i] == "'":
            j = _char_literal_end(s, i)
            if j is None:
                out.append("'")
                i += 1
            else:
                out.append(s[i:j])
                i = j
        else:
            out.append(s[i])
            i += 1
    return "".join(out)


def function_body(src, name):
    """the text between the braces of `fn <name>(...)`, comments removed; None if there is no such function"""
    clean = strip_comments(src)
    m = re.search(r"\bfn\s+" + re.escape(name) + r"\s*(?:<[^>]*>)?\s*\(", clean)
    if not m:
        return None
    i = clean.find("{", m.end())
    if i < 0:
        return None
    depth = 0
    j = i
    n = len(clean)
    while j < n:
        c = clean[j]
        if c == '"':
            j, _ = _skip_string(clean, j)
            continue
        if c == "'":
            k = _char_literal_end(clean, j)
            j = j + 1 if k is None else k
            continue
        if c == "{":
            depth += 1
        elif c == "}":
            depth -= 1
            if depth == 0:
                return clean[i + 1:j]
        j += 1
    return None


# ----------------------------------------------------------------------------------------------- constant expressions
_TOK = re.compile(
    r"""\s*(?:
        (?P<hex>0x[0-9a-fA-F_]+?)(?P<hsuf>(?:[ui](?:8|16|32|64|128|size)))?(?![0-9a-zA-Z_])
      | (?P<bin>0b[01_]+)(?P<bsuf>(?:[ui](?:8|16|32|64|128|size)))?(?![0-9a-zA-Z_])
      | (?P<oct>0o[0-7_]+)(?P<osuf>(?:[ui](?:8|16|32|64|128|size)))?(?![0-9a-zA-Z_])
      | (?P<dec>[0-9][0-9_]*)(?P<dsuf>(?:[ui](?:8|16|32|64|128|size)))?(?![0-9a-zA-Z_.])
      | b?'(?P<chr>\\x[0-9a-fA-F]{2}|\\.|[^\\'])'
      | (?P<as>as\s+(?P<ty>[ui](?:8|16|32|64|128|size)))\b
      | (?P<op><<|>>|[()|&^+\-*/%])
    )""",
    re.X,
)

_WIDTH = {"8": 8, "16": 16, "32": 32, "64": 64, "128": 128, "size": 64}
_PREC = {"|": 1, "^": 2, "&": 3, "<<": 4, ">>": 4, "+": 5, "-": 5, "*": 6, "/": 6, "%": 6}


class NotConstant(Exception):
    pass


def _tokens(text):
    pos = 0
    out = []
    text = text.strip()
    while pos < len(text):
        m = _TOK.match(text, pos)
        if not m or m.end() == pos:
            raise NotConstant(text)
        pos = m.end()
        if m.group("hex"):
            out.append(("num", int(m.group("hex").replace("_", ""), 16)))
        elif m.group("bin"):
            out.append(("num", int(m.group("bin").replace("_", ""), 2)))
        elif m.group("oct"):
            out.append(("num", int(m.group("oct").replace("_", ""), 8)))
        elif m.group("dec"):
            out.append(("num", int(m.group("dec").replace("_", ""))))
        elif m.group("chr") is not None:
            c = m.group("chr")
            if c.startswith("\\x"):
                v = int(c[2:], 16)
            elif c.startswith("\\"):
                v = {"n": 10, "r": 13, "t": 9, "0": 0}.get(c[1], ord(c[1]))
            else:
                v = ord(c)
            out.append(("num", v))
        elif m.group("as"):
            out.append(("as", m.group("ty")))
        else:
            out.append(("op", m.group("op")))
    return out


def const_eval(text):
    """value of a Rust constant integer expression (precedence as in Rust: `as` binds tighter than every binary operator)"""
    toks = _tokens(text)
    pos = [0]

    def peek():
        return toks[pos[0]] if pos[0] < len(toks) else (None, None)

    def primary():
        k, v = peek()
        if k == "num":
            pos[0] += 1
            r = v
        elif k == "op" and v == "(":
            pos[0] += 1
            r = expr(0)
            if peek() != ("op", ")"):
                raise NotConstant(text)
            pos[0] += 1
        elif k == "op" and v == "-":
            pos[0] += 1
            r = -primary()
        else:
            raise NotConstant(text)
        while peek()[0] == "as":
            ty = peek()[1]
            pos[0] += 1
            r &= (1 << _WIDTH[ty[1:]]) - 1
        return r

    def expr(minp):
        left = primary()
        while True:
            k, v = peek()
            if k != "op" or v not in _PREC or _PREC[v] < minp:
                return left
            pos[0] += 1
            right = expr(_PREC[v] + 1)
            if v == "|":
                left |= right
            elif v == "^":
                left ^= right
            elif v == "&":
                left &= right
            elif v == "<<":
                left <<= right
            elif v == ">>":
                left >>= right
            elif v == "+":
                left += right
            elif v == "-":
                left -= right
            elif v == "*":
                left *= right
            elif v == "/":
                if right == 0:
                    raise NotConstant(text)
                left //= right
            else:
                if right == 0:
                    raise NotConstant(text)
                left %= right

    r = expr(0)
    if pos[0] != len(toks):
        raise NotConstant(text)
    return r


def _split_top(content):
    """split at commas that are outside parentheses / brackets / quotes"""
    parts = []
    depth = 0
    cur = []
    i = 0
    while i < len(content):
        c = content[i]
        if c == '"':
            j, _ = _skip_string(content, i)
            cur.append(content[i:j])
            i = j
            continue
        if c == "'":
            j = _char_literal_end(content, i)
            if j is not None:
                cur.append(content[i:j])
                i = j
                continue
        if c in "([{":
            depth += 1
        elif c in ")]}":
            depth -= 1
        if c == "," and depth == 0:
            parts.append("".join(cur))
            cur = []
        else:
            cur.append(c)
        i += 1
    parts.append("".join(cur))
    if parts and parts[-1].strip() == "":
        parts.pop()                        # trailing comma
    return parts


def byte_literals(body, texts=None):
    """every byte-array literal of a (comment-free) function body, in order of appearance: list of lists of ints
    (texts, if given, receives the source text of the elements of each literal)"""
    found = []
    i = 0
    n = len(body)
    while i < n:
        c = body[i]
        if c == "b" and i + 1 < n and body[i + 1] == '"' and (i == 0 or not (body[i - 1].isalnum() or body[i - 1] == "_")):
            j, raw = _skip_string(body, i + 1)
            found.append(_unescape(raw))
            if texts is not None:
                texts.append([str(v) for v in found[-1]])
            i = j
            continue
        if c == '"':
            i, _ = _skip_string(body, i)
            continue
        if c == "'":
            j = _char_literal_end(body, i)
            i = i + 1 if j is None else j
            continue
        if c == "[":
            # matching bracket
            depth = 0
            j = i
            while j < n:
                d = body[j]
                if d == '"':
                    j, _ = _skip_string(body, j)
                    continue
                if d == "'":
                    k = _char_literal_end(body, j)
                    j = j + 1 if k is None else k
                    continue
                if d == "[":
                    depth += 1
                elif d == "]":
                    depth -= 1
                    if depth == 0:
                        break
                j += 1
            content = body[i + 1:j]
            # an index expression (x[..], f()[..], a[0][1]) is not an array literal
            k = i - 1
            while k >= 0 and body[k] in " \t\r\n":
                k -= 1
            indexing = k >= 0 and (body[k].isalnum() or body[k] in "_)]")
            if not indexing and content.strip():
                try:
                    parts = _split_top(content)
                    vals = [const_eval(p) for p in parts]
                    if vals and all(0 <= v <= 255 for v in vals):
                        found.append(vals)
                        if texts is not None:
                            texts.append([p.strip() for p in parts])
                        i = j + 1
                        continue
                except NotConstant:
                    pass
            i += 1                          # look for literals nested inside
            continue
        i += 1
    return found


# ----------------------------------------------------------------------------------------------- Anchors.v
_ANCHOR = re.compile(
    r"\(\*\s*ANCHOR\s+test=(?P<file>[\w./-]+\.rs)::(?P<fn>\w+)(?:\s+mode=(?P<mode>exact|slice))?\s*\*\)\s*"
    r"Definition\s+(?P<gold>gold_\w+)\s*:\s*list\s+N\s*:=\s*\[(?P<body>[^\]]*)\]\s*\.",
    re.S,
)
_GOLD_DEF = re.compile(r"Definition\s+(gold_\w+)\b")
_EXAMPLE = re.compile(r"\bExample\s+(anchor_\w+)\s*:(.*?)\bProof\.", re.S)


def coq_numbers(body):
    vals = []
    for tok in body.split(";"):
        tok = tok.strip()
        if not tok:
            continue
        if re.fullmatch(r"0[xX][0-9a-fA-F]+", tok):
            vals.append(int(tok, 16))
        elif re.fullmatch(r"[0-9]+", tok):
            vals.append(int(tok))
        else:
            raise ValueError("not a numeral: %r" % tok)
    return vals


def strip_coq_comments_keep_anchor(text):
    """removes (* ... *) comments (nested) except the ANCHOR markers"""
    out = []
    i = 0
    n = len(text)
    while i < n:
        if text.startswith("(*", i):
            depth = 0
            j = i
            while j < n:
                if text.startswith("(*", j):
                    depth += 1
                    j += 2
                elif text.startswith("*)", j):
                    depth -= 1
                    j += 2
                    if depth == 0:
                        break
                elif text[j] == '"':
                    k = text.find('"', j + 1)
                    j = n if k < 0 else k + 1
                else:
                    j += 1
            comment = text[i:j]
            out.append(comment if re.match(r"\(\*\s*ANCHOR\s", comment) else " ")
            i = j
        elif text[i] == '"':
            k = text.find('"', i + 1)
            k = n if k < 0 else k + 1
            out.append(text[i:k])
            i = k
        else:
            out.append(text[i])
            i += 1
    return "".join(out)


def is_subsequence(needle, hay):
    n = len(needle)
    return n > 0 and any(hay[k:k + n] == needle for k in range(len(hay) - n + 1))


def main(argv):
    anchors_v = DEFAULT_ANCHORS
    repo = DEFAULT_REPO
    quiet = False
    args = list(argv[1:])
    while args:
        a = args.pop(0)
        if a == "--repo":
            repo = args.pop(0)
        elif a == "--anchors":
            anchors_v = args.pop(0)
        elif a in ("-q", "--quiet"):
            quiet = True
        elif a in ("-h", "--help"):
            print(__doc__)
            return 0
        else:
            print("usage: anchors_check.py [--repo /repo/src] [--anchors coq/theories/Anchors.v] [-q]", file=sys.stderr)
            return 2

    with open(anchors_v, encoding="utf-8") as f:
        raw = f.read()
    text = strip_coq_comments_keep_anchor(raw)
    problems = []

    for word in ("Admitted", "admit", "Axiom", "Parameter", "Hypothesis", "Variable", "Conjecture"):
        if re.search(r"\b" + word + r"\b", text):
            problems.append("Anchors.v contains '%s'" % word)

    anchors = {}
    order = []
    for m in _ANCHOR.finditer(text):
        g = m.group("gold")
        if g in anchors:
            problems.append("%s defined twice" % g)
            continue
        try:
            vals = coq_numbers(m.group("body"))
        except ValueError as e:
            problems.append("%s: %s" % (g, e))
            continue
        anchors[g] = dict(file=m.group("file"), fn=m.group("fn"), mode=m.group("mode") or "exact", vals=vals, uses=[])
        order.append(g)

    for g in _GOLD_DEF.findall(text):
        if g not in anchors:
            problems.append("%s has no well-formed ANCHOR comment right above it" % g)

    n_examples = 0
    for m in _EXAMPLE.finditer(text):
        n_examples += 1
        name, stmt = m.group(1), m.group(2)
        golds = set(re.findall(r"\bgold_\w+", stmt))
        if not golds:
            problems.append("Example %s mentions no gold_ vector" % name)
        for g in golds:
            if g in anchors:
                anchors[g]["uses"].append(name)
            else:
                problems.append("Example %s mentions %s, which is not an anchored definition" % (name, g))
        tail = text[m.end():m.end() + 200]
        if not re.match(r"\s*vm_compute\.\s*reflexivity\.\s*Qed\.", tail):
            problems.append("Example %s is not closed by `vm_compute. reflexivity. Qed.`" % name)

    sources = {}
    missing = 0
    for g in order:
        a = anchors[g]
        key = (a["file"], a["fn"])
        if key not in sources:
            path = os.path.join(repo, a["file"])
            try:
                with open(path, encoding="utf-8") as f:
                    body = function_body(f.read(), a["fn"])
            except OSError:
                body = None
            sources[key] = None if body is None else byte_literals(body)
        lits = sources[key]
        where = "%s::%s" % (a["file"], a["fn"])
        if lits is None:
            status, why = "MISSING", "test function not found in %s" % os.path.join(repo, a["file"])
        elif a["mode"] == "exact" and a["vals"] in lits:
            status, why = "ok", "literal #%d of the test" % lits.index(a["vals"])
        elif a["mode"] == "slice" and any(is_subsequence(a["vals"], l) for l in lits):
            status, why = "ok", "slice of a literal of the test"
        else:
            status, why = "MISSING", "no %s among the %d byte literals of the test" % (
                "equal literal" if a["mode"] == "exact" else "literal containing it", len(lits))
        if not a["uses"]:
            problems.append("%s is used by no Example" % g)
        if status != "ok":
            missing += 1
        if status != "ok" or not quiet:
            print("%-8s %-28s %-44s %4d bytes  %2d examples  (%s)" % (status, g, where, len(a["vals"]), len(a["uses"]), why))

    for p in problems:
        print("PROBLEM  " + p)
    tests = sorted({"%s::%s" % (a["file"], a["fn"]) for a in anchors.values()})
    print("%d anchored vectors, %d examples, %d tests, %d missing, %d problems"
          % (len(order), n_examples, len(tests), missing, len(problems)))
    return 1 if (missing or problems or not order) else 0


if __name__ == "__main__":
    sys.exit(main(sys.argv))
