#!/usr/bin/env python3
"""tools/mutate.py [--n 300] [--workers 4] [--seed 1] [--out /verif/seeded/mutation] [--files a.rs,b.rs] [--list]

Mechanical mutation campaign against the checks (a gap finder, not a registered check).

Enumerates first-order mutants of /repo/src/*.rs outside the `#[cfg(test)]` modules (integer literal +-1, arithmetic /
relational / bitwise operator swaps, checksum add<->sub / append<->delete, statement deletion, true<->false), samples N of
them, and for each one, in a scratch worktree of /repo under /tmp:

  1. applies it and runs the repository's own test suite; a mutant that does not compile or fails one of the 88 tests is
     discarded (`nocompile` / `killed_by_tests`): the tests already see it;
  2. otherwise runs the quick tier of the checks relevant to the mutated file, from a private copy of /verif whose harness
     depends on the scratch worktree (VERIF_REPO), until one reports a VIOLATION (`killed_by:<prop>`, with or without a
     failing input) -- or none does (`SURVIVED`).

Survivors are either equivalent mutants or gaps in generators / oracles; they are triaged by hand (seeded/mutation/TRIAGE.md).
/repo itself is never modified; every scratch directory is removed at the end.
"""
import sys, os, re, json, random, subprocess, shutil, time, multiprocessing

ROOT = os.path.dirname(os.path.dirname(os.path.abspath(__file__)))
REPO = "/repo"
SCR = os.environ.get("MUT_SCR", "/tmp/mut")

TABLE_PROPS = ["C04", "C01", "C02", "C03", "C11", "C18", "C14"]
PROPS_FOR = {
    "aml.rs": ["C06", "C10", "C07", "C08", "C09", "C15", "C16", "C18", "C14"],
    "lib.rs": ["C17", "C01", "C14", "C04", "C13"],
    "sdt.rs": ["C13", "C01", "C02", "C14"],
    "gas.rs": ["C04", "C10", "C14"],
    "slit.rs": ["C12", "C04", "C01", "C02", "C18"],
    "hmat.rs": ["C04", "C12", "C01", "C02", "C03", "C11", "C18"],
    "pptt.rs": ["C04", "C05", "C01", "C02", "C03", "C11", "C18"],
    "rhct.rs": ["C04", "C05", "C01", "C02", "C03", "C18"],
    "rimt.rs": ["C04", "C05", "C01", "C02", "C03", "C11", "C18"],
    "viot.rs": ["C04", "C05", "C01", "C02", "C03", "C18"],
}

def sh(cmd, cwd=None, env=None, timeout=None):
    e = dict(os.environ); e["CARGO_NET_OFFLINE"] = "true"
    if env: e.update(env)
    try:
        r = subprocess.run(cmd, shell=True, cwd=cwd, env=e, text=True, capture_output=True, timeout=timeout)
        return r.returncode, r.stdout + r.stderr
    except subprocess.TimeoutExpired as ex:
        return 124, "timeout"

# ------------------------------------------------------------------ enumeration
def code_lines(path):
    """(lineno, text) of lines outside the test module, comments and attributes"""
    out = []
    lines = open(path).read().split("\n")
    in_block = False
    for i, l in enumerate(lines):
        if re.match(r"\s*#\[cfg\(test\)\]", l): break
        s = l.strip()
        if in_block:
            if "*/" in s: in_block = False
            continue
        if s.startswith("/*"):
            if "*/" not in s: in_block = True
            continue
        if not s or s.startswith("//") or s.startswith("#[") or s.startswith("use ") or s.startswith("pub use "): continue
        if s.startswith("#![") or s.startswith("macro_rules") or s.startswith("extern crate"): continue
        out.append((i, l))
    return lines, out

def string_spans(l):
    spans = []
    for m in re.finditer(r'"(?:[^"\\]|\\.)*"|\'(?:[^\'\\]|\\.)\'', l):
        spans.append((m.start(), m.end()))
    c = l.find("//")
    if c >= 0 and not any(a <= c < b for a, b in spans): spans.append((c, len(l)))
    return spans

SWAPS = [(" + ", " - "), (" - ", " + "), (" * ", " + "), (" += ", " -= "), (" -= ", " += "),
         (" < ", " <= "), (" <= ", " < "), (" > ", " >= "), (" >= ", " > "), (" == ", " != "), (" != ", " == "),
         (" | ", " & "), (" & ", " | "), (" |= ", " &= "), (" << ", " >> "), (" >> ", " << "),
         (".add(", ".sub("), (".sub(", ".add("), (".append(", ".delete("), (".delete(", ".append("),
         ("wrapping_add", "wrapping_sub"), ("wrapping_sub", "wrapping_add"), ("true", "false"), ("false", "true"),
         (" && ", " || "), (" || ", " && "), (" / ", " * "), (" % ", " / ")]

def enumerate_mutants(files=None):
    muts = []
    for f in sorted(os.listdir(os.path.join(REPO, "src"))):
        if not f.endswith(".rs"): continue
        if files and f not in files: continue
        path = os.path.join(REPO, "src", f)
        lines, code = code_lines(path)
        for i, l in code:
            spans = string_spans(l)
            inside = lambda a: any(x <= a < y for x, y in spans)
            for m in re.finditer(r"(?<![\w.])(0x[0-9a-fA-F_]+|\d[\d_]*)(?![\w.]*[a-zA-Z_]*\w*::)", l):
                if inside(m.start()): continue
                tok = m.group(1)
                tail = l[m.end():m.end() + 5]
                if re.match(r"[a-zA-Z_]", tail) and not re.match(r"(u8|u16|u32|u64|usize)\b", tail): continue
                try: v = int(tok.replace("_", ""), 0)
                except ValueError: continue
                for nv in ([v + 1] + ([v - 1] if v >= 1 else [])):
                    new = hex(nv) if tok.startswith("0x") else str(nv)
                    muts.append({"file": f, "line": i, "col": m.start(), "old": tok, "new": new, "op": "INT"})
            for old, new in SWAPS:
                st = 0
                while True:
                    k = l.find(old, st)
                    if k < 0: break
                    st = k + 1
                    if inside(k): continue
                    if old in ("true", "false") and (re.match(r"\w", l[k - 1:k] or " ") or re.match(r"\w", l[k + len(old):k + len(old) + 1] or " ")): continue
                    muts.append({"file": f, "line": i, "col": k, "old": old, "new": new, "op": "SWAP"})
            if re.match(r"^\s*[a-z_][\w.]*(\.[a-z_]\w*)*\([^=]*\);\s*$", l) and "assert" not in l and "panic" not in l:
                muts.append({"file": f, "line": i, "col": 0, "old": l, "new": "", "op": "DEL"})
    return muts

def apply_mutant(wt, m):
    path = os.path.join(wt, "src", m["file"])
    lines = open(path).read().split("\n")
    l = lines[m["line"]]
    if m["op"] == "DEL":
        assert l == m["old"]; lines[m["line"]] = ""
    else:
        assert l[m["col"]:m["col"] + len(m["old"])] == m["old"], (l, m)
        lines[m["line"]] = l[:m["col"]] + m["new"] + l[m["col"] + len(m["old"]):]
    open(path, "w").write("\n".join(lines))

# ------------------------------------------------------------------ worker
def setup_worker(w):
    base = os.path.join(SCR, "w%d" % w)
    wt = os.path.join(base, "repo"); vf = os.path.join(base, "verif")
    if os.path.exists(base):
        sh("git -C %s worktree remove --force %s" % (REPO, wt)); shutil.rmtree(base, ignore_errors=True)
    os.makedirs(base)
    rc, out = sh("git -C %s worktree add -q --detach %s HEAD" % (REPO, wt))
    assert rc == 0, out
    os.makedirs(vf)
    for d in ("bin", "coq", "ocaml", "harness", "KNOWN_FINDINGS.json", "properties.jsonl"):
        sh("cp -a %s %s/" % (os.path.join(ROOT, d), vf))
    ct = os.path.join(vf, "harness", "Cargo.toml")
    s = open(ct).read().replace('path = "/repo"', 'path = "%s"' % wt)
    open(ct, "w").write(s)
    return wt, vf

def run_one(args):
    w, m = args
    base = os.path.join(SCR, "w%d" % w)
    wt = os.path.join(base, "repo"); vf = os.path.join(base, "verif")
    t0 = time.time()
    sh("git checkout -q -- .", cwd=wt)
    try:
        apply_mutant(wt, m)
    except AssertionError as ex:
        return dict(m, status="apply-failed")
    diff = sh("git diff -- src", cwd=wt)[1]
    rc, out = sh("cargo test --offline --lib 2>&1 | tail -40", cwd=wt, timeout=900)
    res = dict(m, diff=diff)
    mm = re.search(r"test result: (\w+)\. (\d+) passed; (\d+) failed", out)
    if not mm:
        res["status"] = "nocompile" if "error" in out else "test-run-failed"
    elif mm.group(1) != "ok" or mm.group(2) != "88":
        res["status"] = "killed_by_tests"
    else:
        res["status"] = "SURVIVED"; res["checks"] = {}
        for p in PROPS_FOR.get(m["file"], TABLE_PROPS):
            rc, out = sh("%s/bin/check %s --tier quick" % (vf, p), cwd=vf, timeout=2400,
                         env={"VERIF_NPROC": str(NP), "VERIF_REPO": wt})
            lines = [x for x in out.split("\n") if re.match(r"^(VIOLATION|OK|KNOWN-FINDING)", x)]
            res["checks"][p] = lines
            v = [x for x in lines if x.startswith("VIOLATION")]
            if v:
                res["status"] = "killed_by:" + p + (":no-input" if all("no-failing-input-found" in x for x in v) else "")
                break
            if rc != 0 and not v:
                res["checks"][p] = ["ERROR rc=%d %s" % (rc, out[-300:])]
    sh("git checkout -q -- .", cwd=wt)
    res["wall_s"] = round(time.time() - t0, 1)
    return res

def run_patch(args):
    """seeded mode: apply seeded/<id>/patch.diff in the worker's worktree and run the listed checks from the worker's copy"""
    w, job = args
    base = os.path.join(SCR, "w%d" % w)
    wt = os.path.join(base, "repo"); vf = os.path.join(base, "verif")
    t0 = time.time()
    sh("git checkout -q -- .", cwd=wt)
    rc, out = sh("git apply %s" % job["patch"], cwd=wt)
    res = {"id": job["id"], "checks": {}, "patch_applies": rc == 0}
    if rc == 0:
        for p in job["props"]:
            rc, out = sh("%s/bin/check %s --tier quick" % (vf, p), cwd=vf, timeout=2400,
                         env={"VERIF_NPROC": str(NP), "VERIF_REPO": wt})
            lines = [x for x in out.split("\n") if re.match(r"^(VIOLATION|OK|KNOWN-FINDING)", x)]
            v = [x for x in lines if x.startswith("VIOLATION")]
            res["checks"][p] = {"exit": rc, "lines": lines, "detected": bool(v) and rc == 1,
                                "with_failing_input": bool(v) and not all("no-failing-input-found" in x for x in v)}
    sh("git checkout -q -- .", cwd=wt)
    res["wall_s"] = round(time.time() - t0, 1)
    return res

NP = 4
def worker(w, q, outq):
    global NP
    setup_worker(w)
    while True:
        m = q.get()
        if m is None: break
        outq.put(run_patch((w, m)) if "patch" in m else run_one((w, m)))
    base = os.path.join(SCR, "w%d" % w)
    sh("git -C %s worktree remove --force %s" % (REPO, os.path.join(base, "repo")))
    shutil.rmtree(base, ignore_errors=True)
    outq.put(None)

def main():
    global NP
    a = sys.argv[1:]
    opt = lambda k, d: (a[a.index(k) + 1] if k in a else d)
    n = int(opt("--n", "300")); workers = int(opt("--workers", "4")); seed = int(opt("--seed", "1"))
    out = opt("--out", os.path.join(ROOT, "seeded", "mutation"))
    files = opt("--files", None); files = files.split(",") if files else None
    NP = max(1, 16 // workers)
    if "--seeded" in a:
        # re-run every seeded change (property-breaking: its target property; harmless: the properties its meta lists)
        sd = os.path.join(ROOT, "seeded"); jobs = []
        only = opt("--only", None)
        for d in sorted(os.listdir(sd)):
            if re.match(r"C\d\d-\d+$", d) and (not only or re.match(only, d)):
                jobs.append({"id": d, "patch": os.path.join(sd, d, "patch.diff"), "props": [d.split("-")[0]]})
        hd = os.path.join(sd, "harmless")
        for d in sorted(os.listdir(hd)) if os.path.isdir(hd) else []:
            mp = os.path.join(hd, d, "meta.json")
            if os.path.exists(mp) and (not only or re.match(only, "harmless/" + d)):
                jobs.append({"id": "harmless/" + d, "patch": os.path.join(hd, d, "patch.diff"),
                             "props": sorted(json.load(open(mp)).get("checks_stay_quiet", {}))})
        NP = max(1, 16 // workers)
        q = multiprocessing.Queue(); outq = multiprocessing.Queue()
        for j in jobs: q.put(j)
        for _ in range(workers): q.put(None)
        ps = [multiprocessing.Process(target=worker, args=(w, q, outq)) for w in range(workers)]
        for p in ps: p.start()
        alive = workers; allres = {}
        while alive:
            r = outq.get()
            if r is None: alive -= 1; continue
            allres[r["id"]] = r
            summ = " ".join("%s:%s" % (k, ("DET" + ("" if v["with_failing_input"] else "(no-input)")) if v["detected"] else ("quiet" if v["exit"] == 0 else "ERR")) for k, v in r["checks"].items())
            print("%-14s %s  %.0fs" % (r["id"], summ if r["patch_applies"] else "PATCH DOES NOT APPLY", r["wall_s"]), flush=True)
        for p in ps: p.join()
        rp = os.path.join(sd, "rerun-results.json")
        if only and os.path.exists(rp):        # a partial re-run updates the stored table instead of replacing it
            old = json.load(open(rp)); old.update(allres); allres = old
        json.dump(allres, open(rp, "w"), indent=1, sort_keys=True)
        shutil.rmtree(SCR, ignore_errors=True); sh("git -C %s worktree prune" % REPO)
        return
    muts = enumerate_mutants(files)
    if "--list" in a:
        from collections import Counter
        print(len(muts), Counter(m["file"] for m in muts)); return
    rnd = random.Random(seed)
    # stratified by file: round-robin over shuffled per-file lists
    byf = {}
    for m in muts: byf.setdefault(m["file"], []).append(m)
    for v in byf.values(): rnd.shuffle(v)
    pick = []
    while len(pick) < n and any(byf.values()):
        for f in sorted(byf):
            if byf[f] and len(pick) < n: pick.append(byf[f].pop())
    os.makedirs(out, exist_ok=True)
    resf = os.path.join(out, "results-seed%d.jsonl" % seed)
    q = multiprocessing.Queue(); outq = multiprocessing.Queue()
    for m in pick: q.put(m)
    for _ in range(workers): q.put(None)
    ps = [multiprocessing.Process(target=worker, args=(w, q, outq)) for w in range(workers)]
    for p in ps: p.start()
    done = 0; alive = workers
    with open(resf, "a") as f:
        while alive:
            r = outq.get()
            if r is None: alive -= 1; continue
            done += 1
            f.write(json.dumps(r) + "\n"); f.flush()
            print("[%d/%d] %s:%d %s %r->%r  %s  %.0fs" % (done, len(pick), r["file"], r["line"] + 1, r["op"],
                  r["old"][:30].strip(), r["new"][:30], r["status"], r.get("wall_s", 0)), flush=True)
    for p in ps: p.join()
    shutil.rmtree(SCR, ignore_errors=True)
    sh("git -C %s worktree prune" % REPO)

if __name__ == "__main__":
    main()
