#!/bin/bash
# tools/coverage.sh [tier] : which lines of /repo/src does the correspondence run execute?
# Builds the harness with -C instrument-coverage (nightly toolchain: it ships llvm-profdata / llvm-cov), runs the generators
# of every property (16 shards each), and writes the llvm-cov report and the list of never-executed lines of /repo/src to
# /verif/coverage/.  A measurement of the tie between model and code, not a registered check.
set -e
tier=${1:-quick}
ROOT=$(cd "$(dirname "$0")/.." && pwd)
W=/tmp/verif-cov; rm -rf $W; mkdir -p $W
LLVM=$(dirname $(find /root/.rustup/toolchains/nightly-x86_64-unknown-linux-gnu -name llvm-profdata | head -1))
cp /repo/Cargo.lock $ROOT/harness/Cargo.lock 2>/dev/null || true
( cd $ROOT/harness && LLVM_PROFILE_FILE=$W/build-%p.profraw CARGO_NET_OFFLINE=true CARGO_TARGET_DIR=$W/target RUSTFLAGS="-C instrument-coverage --cfg rust_vmm_acpi_tables_verif" cargo +nightly build --offline 2>&1 | tail -1 )
BIN=$W/target/debug/acpi-harness
for p in 01 02 03 04 05 06 07 08 09 10 11 12 13 14 15 16 17 18; do
  for i in $(seq 0 15); do
    LLVM_PROFILE_FILE=$W/p$p-$i-%p.profraw $BIN gen C$p $tier 1 $i 16 > /dev/null &
  done
  wait
done
$LLVM/llvm-profdata merge -sparse $W/*.profraw -o $W/all.profdata
mkdir -p $ROOT/coverage
$LLVM/llvm-cov report $BIN -instr-profile=$W/all.profdata /repo/src/*.rs > $ROOT/coverage/report-$tier.txt 2>/dev/null
$LLVM/llvm-cov show $BIN -instr-profile=$W/all.profdata /repo/src/*.rs --show-line-counts-or-regions 2>/dev/null \
  | awk '/^\/repo\/src/{f=$0} /^ +[0-9]+\| +0\|/{print f" "$0}' > $ROOT/coverage/never-executed-$tier.txt
tail -1 $ROOT/coverage/report-$tier.txt
wc -l $ROOT/coverage/never-executed-$tier.txt
rm -rf $W
