#!/usr/bin/env python3
"""ddmin.py <prop-number> <profile> <ORACLE|DISAGREE> : reads '<comp>\t<case>' on stdin, minimises the op list of a
table-style case (ctor op ...) while the driver still reports the given failure; prints the minimal case."""
import subprocess, sys
prop, profile, kind = sys.argv[1], sys.argv[2], sys.argv[3]
comp, case = sys.stdin.read().rstrip('\n').split('\t')[:2]
def split_top(s):
    s = s[1:-1]; items = []; depth = 0; cur = ''
    for ch in s:
        if ch == '(': depth += 1
        if ch == ')': depth -= 1
        if ch == ' ' and depth == 0:
            if cur: items.append(cur); cur = ''
        else: cur += ch
    if cur: items.append(cur)
    return items
items = split_top(case); ctor, ops = items[0], items[1:]
def fails(ops):
    c = "(%s %s)" % (ctor, " ".join(ops)) if ops else "(%s)" % ctor
    r = subprocess.run("/verif/.work/target/%s/acpi-harness replay | /verif/ocaml/driver %s %s" % (profile, profile, prop),
                       shell=True, input="%s\t%s\n" % (comp, c), capture_output=True, text=True)
    return kind in r.stdout
assert fails(ops), "case does not fail"
changed = True
while changed:
    changed = False
    for i in range(len(ops)):
        t = ops[:i] + ops[i+1:]
        if fails(t): ops = t; changed = True; break
print("%s\t(%s %s)" % (comp, ctor, " ".join(ops)))
