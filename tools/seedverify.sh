#!/bin/bash
# tools/seedverify.sh <patch.diff> <demo.rs> : confirm a seeded change in a scratch worktree of /repo
#   - it applies and compiles, the repository's own tests pass with it,
#   - the demonstration test fails with it and passes without it.
# DEMO_FLAGS=--release runs the demonstration in the release profile (changes that show only there).
# The worktree is removed afterwards.  Prints one line: CONFIRMED / REJECTED <why>.
set -u
patch=$(readlink -f "$1"); demo=$(readlink -f "$2")
wt=$(mktemp -d /tmp/sv_XXXXXX); rmdir "$wt"
export CARGO_NET_OFFLINE=true
git -C /repo worktree add -q --detach "$wt" HEAD || { echo "REJECTED worktree"; exit 2; }
cleanup() { git -C /repo worktree remove --force "$wt" 2>/dev/null; rm -rf "$wt"; }
trap cleanup EXIT
mkdir -p "$wt/tests"; cp "$demo" "$wt/tests/seed_demo.rs"
cd "$wt"
clean=$(cargo test --offline ${DEMO_FLAGS:-} --test seed_demo 2>&1 | grep "^test result" | tail -1)
git apply "$patch" || { echo "REJECTED patch does not apply"; exit 1; }
suite=$(cargo test --offline --lib 2>&1 | grep "^test result" | tail -1)
mut=$(cargo test --offline ${DEMO_FLAGS:-} --test seed_demo 2>&1 | grep "^test result\|error\[" | tail -1)
echo "clean: $clean"; echo "suite: $suite"; echo "mutant: $mut"
case "$clean" in *"ok."*) ;; *) echo "REJECTED demo fails on clean tree"; exit 1;; esac
case "$suite" in *"ok. 88 passed"*) ;; *) echo "REJECTED suite"; exit 1;; esac
case "$mut" in *FAILED*) echo CONFIRMED;; *) echo "REJECTED demo passes with mutant"; exit 1;; esac
