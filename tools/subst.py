#!/usr/bin/env python3
"""subst.py FILE  (reads OLD\n=====\nNEW from stdin) : exact single replacement."""
import sys
p=sys.argv[1]; data=sys.stdin.read()
old,new=data.split("\n=====\n",1)
if new.endswith("\n"): new=new[:-1]
s=open(p).read()
n=s.count(old)
if n!=1:
    sys.exit(f"pattern occurs {n} times in {p}")
open(p,"w").write(s.replace(old,new))
