#!/usr/bin/env python3
"""tools/seedrun.py <seeded-dir>... [--props C01,C05] [--tier quick]

For each seeded change: apply seeded/<id>/patch.diff to /repo's working tree, run bin/check for the property it targets
(or the given list), record what the check printed in seeded/<id>/result.json, and undo the change (git checkout -- .).
/repo must be clean when this starts; it is left clean.  Evidence files and replays written during these runs are restored /
moved into the seeded directory so that /verif/evidence keeps describing the unchanged tree."""
import json, os, re, shutil, subprocess, sys, time

ROOT = os.path.dirname(os.path.dirname(os.path.abspath(__file__)))

def sh(cmd, **kw):
    return subprocess.run(cmd, shell=True, text=True, capture_output=True, **kw)

def main():
    args = sys.argv[1:]
    props = None
    tier = "quick"
    dirs = []
    i = 0
    while i < len(args):
        if args[i] == "--props":
            props = args[i + 1].split(","); i += 2
        elif args[i] == "--tier":
            tier = args[i + 1]; i += 2
        else:
            dirs.append(args[i]); i += 1
    st = sh("git -C /repo status --porcelain --untracked-files=no").stdout.strip()
    if st:
        print("refusing: /repo is not clean:\n" + st); sys.exit(2)
    for d in dirs:
        d = os.path.abspath(d)
        name = os.path.basename(d.rstrip("/"))
        target = name.split("-")[0]
        todo = props or [target]
        r = sh(f"git -C /repo apply {d}/patch.diff")
        if r.returncode != 0:
            print(name, "patch does not apply:", r.stderr.strip()); continue
        results = {}
        try:
            for p in todo:
                ev = os.path.join(ROOT, "evidence", p + ".json")
                bak = ev + ".keep"
                if os.path.exists(ev):
                    shutil.copy(ev, bak)
                before = set(os.listdir(os.path.join(ROOT, "replays"))) if os.path.isdir(os.path.join(ROOT, "replays")) else set()
                t0 = time.time()
                c = sh(f"{ROOT}/bin/check {p} --tier {tier}", cwd=ROOT)
                wall = time.time() - t0
                lines = [l for l in c.stdout.splitlines() if re.match(r"^(VIOLATION|OK|KNOWN-FINDING|ERROR)", l)]
                viol = [l for l in lines if l.startswith("VIOLATION")]
                results[p] = {"exit": c.returncode, "lines": lines, "detected": bool(viol) and c.returncode == 1,
                              "wall_s": round(wall, 1)}
                after = set(os.listdir(os.path.join(ROOT, "replays"))) if os.path.isdir(os.path.join(ROOT, "replays")) else set()
                for f in sorted(after - before):
                    src = os.path.join(ROOT, "replays", f)
                    # keep a trimmed copy of the replay beside the seeded change
                    try:
                        j = json.load(open(src))
                        for cs in j.get("cases", []):
                            if len(cs.get("case", "")) > 4000:
                                cs["case"] = cs["case"][:4000] + "...(truncated)"
                        j["cases"] = j.get("cases", [])[:5]
                        json.dump(j, open(os.path.join(d, "replay-" + p + ".json"), "w"), indent=1)
                    except Exception:
                        pass
                    os.remove(src)
                if os.path.exists(bak):
                    shutil.move(bak, ev)
                print(name, p, "DETECTED" if results[p]["detected"] else "MISSED", f"{wall:.0f}s", "|", " ; ".join(lines)[:300], flush=True)
        finally:
            sh("git -C /repo checkout -- .")
        rp = os.path.join(d, "result.json")
        old = json.load(open(rp)) if os.path.exists(rp) else {}
        old.update(results)
        json.dump(old, open(rp, "w"), indent=1, sort_keys=True)

main()
