#!/usr/bin/env python3
"""tools/seedimport.py <wave> <Cxx>... : import the changes a sub-agent left under /tmp/seedout/<Cxx>/{a,b} as
seeded/<Cxx>-<n> (n continuing the numbering), confirm each with tools/seedverify.sh (suite passes with the change, the
demonstration fails with it and passes without), write meta.json, then run the targeted check against it (tools/seedrun.py)."""
import sys, os, json, shutil, subprocess, re
ROOT = os.path.dirname(os.path.dirname(os.path.abspath(__file__)))
wave = sys.argv[1]
head = subprocess.run("git -C /repo rev-parse --short HEAD", shell=True, text=True, capture_output=True).stdout.strip()
for prop in sys.argv[2:]:
    for sub in ("a", "b"):
        src = "%s/%s/%s" % (os.environ.get("SEEDOUT", "/tmp/seedout"), prop, sub)
        if not os.path.exists(src + "/patch.diff"): print(prop, sub, "no patch"); continue
        existing = [int(d.split("-")[1]) for d in os.listdir(ROOT + "/seeded") if re.match(prop + r"-\d+$", d)]
        # skip if already imported
        done = False
        for d in os.listdir(ROOT + "/seeded"):
            p = ROOT + "/seeded/" + d + "/patch.diff"
            if d.startswith(prop + "-") and os.path.exists(p) and open(p).read() == open(src + "/patch.diff").read(): done = True
        if done: print(prop, sub, "already imported"); continue
        n = max(existing + [0]) + 1
        dst = "%s/seeded/%s-%d" % (ROOT, prop, n)
        os.makedirs(dst)
        shutil.copy(src + "/patch.diff", dst); shutil.copy(src + "/demo.rs", dst)
        if os.path.exists(src + "/notes.md"): shutil.copy(src + "/notes.md", dst + "/NOTES.md")
        r = subprocess.run([ROOT + "/tools/seedverify.sh", dst + "/patch.diff", dst + "/demo.rs"], text=True, capture_output=True)
        out = r.stdout.strip().split("\n")
        ok = out[-1].startswith("CONFIRMED")
        print(prop, sub, "->", os.path.basename(dst), out[-1], flush=True)
        if not ok:
            print("\n".join(out)); shutil.move(dst, dst + ".rejected"); continue
        notes = open(dst + "/NOTES.md").read() if os.path.exists(dst + "/NOTES.md") else ""
        meta = {"id": os.path.basename(dst), "property": prop,
                "origin": "fresh sub-agent given only the property record and a scratch worktree (wave %s)" % wave,
                "needs_to_manifest": "see NOTES.md", "summary": notes.split("\n")[0][:300],
                "confirmed": {"applies_to": head + " (current /repo HEAD)", "existing_tests": "88 passed with the change",
                              "demo": "demo.rs fails with the change, passes without (tools/seedverify.sh): " + " | ".join(out[:3])}}
        json.dump(meta, open(dst + "/meta.json", "w"), indent=1)
        if os.environ.get("NO_RUN"):      # checks are run separately (tools/mutate.py --seeded, private worktrees)
            continue
        r = subprocess.run([ROOT + "/tools/seedrun.py", dst], text=True, capture_output=True)
        print(r.stdout.strip()[-400:], flush=True)
