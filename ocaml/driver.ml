(* Hand-written glue around the extracted model (model.ml):
   reads  "<comp>\t<case-sx>\t<impl events>"  lines, evaluates the Impl model and the Spec oracle,
   and reports disagreements.  Usage: driver <mode: debug|release> <prop number> [--show] *)
open Model

(* ---- N <-> OCaml ---- *)
let rec pos_of_int (i : int) : positive =
  if i = 1 then XH else if i land 1 = 0 then XO (pos_of_int (i lsr 1)) else XI (pos_of_int (i lsr 1))
let n_of_int (i : int) : n = if i = 0 then N0 else Npos (pos_of_int i)
let n_of_dec (s : string) : n =
  let r = ref N0 in
  String.iter (fun c ->
      if c < '0' || c > '9' then failwith ("bad number: " ^ s);
      r := dec_step !r (n_of_int (Char.code c - 48))) s;
  !r
let rec bits_of_pos (p : positive) (acc : int list) : int list =   (* least significant first *)
  match p with XH -> List.rev (1 :: acc) | XO q -> bits_of_pos q (0 :: acc) | XI q -> bits_of_pos q (1 :: acc)
let hex_of_n (x : n) : string =
  match x with
  | N0 -> "0"
  | Npos p ->
     let bits = bits_of_pos p [] in
     let rec go bits acc = match bits with
       | [] -> acc
       | _ ->
          let rec take k l v sh = if k = 0 then (v, l) else match l with [] -> (v, []) | b :: r -> take (k-1) r (v lor (b lsl sh)) (sh+1) in
          let (v, rest) = take 4 bits 0 0 in
          go rest (String.make 1 "0123456789abcdef".[v] ^ acc) in
     go bits ""
let int_of_n (x : n) : int =
  match x with N0 -> 0 | Npos p -> List.fold_right (fun b acc -> acc * 2 + b) (bits_of_pos p []) 0

let byte_tab : n array = Array.init 256 n_of_int

(* ---- sx parsing ---- *)
let hexval c = match c with
  | '0'..'9' -> Char.code c - 48 | 'a'..'f' -> Char.code c - 87 | 'A'..'F' -> Char.code c - 55
  | _ -> failwith "bad hex"
let bytes_of_hex (s : string) (start : int) (stop : int) : n list =
  let rec go i acc = if i < start then acc else go (i - 2) (byte_tab.(hexval s.[i] * 16 + hexval s.[i+1]) :: acc) in
  if (stop - start) land 1 <> 0 then failwith "odd hex";
  go (stop - 2) []

let parse_sx (s : string) : sx =
  let len = String.length s in
  let pos = ref 0 in
  let skip () = while !pos < len && s.[!pos] = ' ' do incr pos done in
  let rec item () : sx =
    skip ();
    if !pos >= len then failwith "unexpected end";
    match s.[!pos] with
    | '(' -> incr pos; SL (items [])
    | '#' ->
       let st = !pos + 1 in
       let e = ref st in
       while !e < len && s.[!e] <> ' ' && s.[!e] <> ')' do incr e done;
       pos := !e;
       SL (List.map (fun b -> SA b) (bytes_of_hex s st !e))
    | _ ->
       let st = !pos in
       while !pos < len && s.[!pos] <> ' ' && s.[!pos] <> ')' && s.[!pos] <> '(' do incr pos done;
       SA (n_of_dec (String.sub s st (!pos - st)))
  and items acc : sx list =
    skip ();
    if !pos >= len then failwith "missing )";
    if s.[!pos] = ')' then (incr pos; List.rev acc) else let it = item () in items (it :: acc)
  in
  let r = item () in
  skip ();
  if !pos <> len then failwith "trailing input";
  r

(* events: tokens separated by spaces:  b<hex>  n<dec>  p *)
let parse_events (s : string) : ev list =
  let toks = List.filter (fun t -> t <> "") (String.split_on_char ' ' s) in
  List.map (fun t ->
      match t.[0] with
      | 'b' -> EvBytes (bytes_of_hex t 1 (String.length t))
      | 'n' -> EvNum (n_of_dec (String.sub t 1 (String.length t - 1)))
      | 'p' -> EvPanic
      | _ -> failwith ("bad event " ^ t)) toks

let show_event (e : ev) : string =
  match e with
  | EvBytes l ->
     let b = Buffer.create 64 in
     Buffer.add_char b 'b';
     List.iter (fun x -> Buffer.add_string b (Printf.sprintf "%02x" (int_of_n x))) l;
     Buffer.contents b
  | EvNum x -> "n0x" ^ hex_of_n x
  | EvPanic -> "p"
let show_events (l : ev list) : string = String.concat " " (List.map show_event l)

let () =
  let mode = match Sys.argv.(1) with "debug" -> Checked | "release" -> Wrapping | _ -> failwith "mode" in
  let prop = n_of_int (int_of_string Sys.argv.(2)) in
  let show = Array.length Sys.argv > 3 && Sys.argv.(3) = "--show" in
  let total = ref 0 and disagree = ref 0 and oracle_fail = ref 0 and lineno = ref 0 and njudged = ref 0 in
  (try
     while true do
       let line = input_line stdin in
       incr lineno;
       if line <> "" && line.[0] <> '%' then begin
         match String.split_on_char '\t' line with
         | [comp; case; evs] ->
            incr total;
            let comp_n = n_of_dec comp in
            let c = parse_sx case in
            let impl = parse_events evs in
            let model = run_case mode comp_n c in
            (* K is scoped per property: compared through the projection the property's theorems speak about (Judge.project) *)
            let agree = evs_eqb (project prop comp_n model) (project prop comp_n impl) in
            let ok = oracle prop comp_n c impl in
            if judged prop comp_n c then incr njudged;
            if not agree then begin
              incr disagree;
              Printf.printf "DISAGREE\t%d\t%s\t%s\n" !lineno comp case;
              if show then Printf.printf "  model: %s\n  impl:  %s\n" (show_events model) (show_events impl)
            end;
            if not ok then begin
              incr oracle_fail;
              Printf.printf "ORACLE\t%d\t%s\t%s\n" !lineno comp case;
              if show then Printf.printf "  impl:  %s\n" (show_events impl)
            end
         | _ -> failwith ("bad line " ^ string_of_int !lineno)
       end
     done
   with End_of_file -> ());
  Printf.printf "SUMMARY\ttotal=%d\tdisagree=%d\toracle_fail=%d\tjudged=%d\n" !total !disagree !oracle_fail !njudged
