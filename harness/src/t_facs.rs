//! component 29: FACS.  Case vocabulary documented in coq/theories/Spec/FacsS.v.
use crate::sx::*;
use crate::tcommon::*;
use crate::Emit;
use acpi_tables::facs::FACS;

pub fn run(case: &Sx, out: &mut Vec<Ev>) {
    let c = case.list();
    if !c[0].list().is_empty() {
        panic!("harness: FACS::new takes no argument");
    }
    let t = FACS::new();
    for op in &c[1..] {
        if let Sx::A(_) = op {
            out.push(image(&t));
            continue;
        }
        panic!("harness: FACS has no operation");
    }
}

pub fn gen(_tier: &str, rng: &mut Rng, emit: &mut Emit) {
    // the constructor has no argument: one case, observed once and twice
    emit.case(29, history(rng, l(vec![]), vec![]));
    emit.case(29, l(vec![l(vec![]), a(1), a(1)]));
}
