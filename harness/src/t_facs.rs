//! component 29: FACS.  Case vocabulary documented in coq/theories/Spec/FacsS.v.
use crate::sx::*;
use crate::tcommon::*;
use crate::Emit;
use acpi_tables::facs::FACS;

/// width in bytes of the k-th assignable public field
const WIDTHS: [u32; 7] = [4, 4, 4, 4, 8, 1, 4];

/// `t.<k-th assignable public field> = (v as uN).into()`
fn assign(t: &mut FACS, k: u64, v: u64) {
    match k {
        0 => t.hardware_signature = (v as u32).into(),
        1 => t.waking = (v as u32).into(),
        2 => t.lock = (v as u32).into(),
        3 => t.flags = (v as u32).into(),
        4 => t.x_waking = v.into(),
        5 => t.version = v as u8,
        6 => t.ospm_flags = (v as u32).into(),
        _ => panic!("harness: bad facs field"),
    }
}

pub fn run(case: &Sx, out: &mut Vec<Ev>) {
    let c = case.list();
    if !c[0].list().is_empty() {
        panic!("harness: FACS::new takes no argument");
    }
    let mut t = FACS::new();
    for op in &c[1..] {
        if let Sx::A(_) = op {
            out.push(image(&t));
            continue;
        }
        let o = op.list();
        match o[0].num() {
            10 => assign(&mut t, o[1].num(), o[2].num()),
            _ => panic!("harness: bad facs op"),
        }
        out.push(Ev::Num(0));
    }
}

fn assign_op(k: u64, v: u64) -> Sx {
    l(vec![a(10), a(k), a(v)])
}

fn max_of(k: u64) -> u64 {
    let w = WIDTHS[k as usize];
    if w == 8 {
        u64::MAX
    } else {
        (1u64 << (8 * w)) - 1
    }
}

/// non-zero in every byte
fn dense_val(rng: &mut Rng, k: u64) -> u64 {
    let mut v = 0u64;
    for i in 0..WIDTHS[k as usize] {
        v |= rng.range(1, 255) << (8 * i);
    }
    v
}

pub fn gen(tier: &str, rng: &mut Rng, emit: &mut Emit) {
    // the constructor has no argument: one case, observed once and twice
    emit.case(29, history(rng, l(vec![]), vec![]));
    emit.case(29, l(vec![l(vec![]), a(1), a(1)]));
    // every assignable field alone: boundary values, each single byte set, high-half-only values of the 64-bit field
    for k in 0..7u64 {
        let w = WIDTHS[k as usize] as u64;
        let m = max_of(k);
        let mut vals = vec![0, 1, m, m - 1, m >> 1, (m >> 1) + 1];
        for i in 0..w {
            vals.push(0xffu64 << (8 * i));
            vals.push(0x01u64 << (8 * i));
        }
        if w == 8 {
            vals.extend([0xffff_ffff_0000_0000, 0x0000_0001_0000_0000, 0x8000_0000_0000_0000, rng.val(32) << 32, 0x0000_0000_ffff_ffff]);
        }
        for _ in 0..4 {
            vals.push(dense_val(rng, k));
        }
        for v in vals {
            emit.case(29, history(rng, l(vec![]), vec![assign_op(k, v)]));
        }
        let (v1, v2) = (dense_val(rng, k), dense_val(rng, k));
        emit.case(29, history(rng, l(vec![]), vec![assign_op(k, v1), assign_op(k, v2)]));
    }
    // all fields at once with distinct dense values: declaration order, reverse, shuffled; all at maximum
    for round in 0..(if tier == "thorough" { 300 } else { 60 }) {
        let mut ops: Vec<Sx> = (0..7u64).map(|k| assign_op(k, dense_val(rng, k))).collect();
        match round % 3 {
            0 => {}
            1 => ops.reverse(),
            _ => {
                for i in (1..ops.len()).rev() {
                    let j = rng.below(i as u64 + 1) as usize;
                    ops.swap(i, j);
                }
            }
        }
        emit.case(29, history(rng, l(vec![]), ops));
    }
    emit.case(29, history(rng, l(vec![]), (0..7u64).map(|k| assign_op(k, max_of(k))).collect()));
    // random assignments with repetitions: the last writer wins
    for _ in 0..(if tier == "thorough" { 2000 } else { 300 }) {
        let len = rng.range(1, 40);
        let ops = (0..len)
            .map(|_| {
                let k = rng.below(7);
                let v = match rng.below(6) {
                    0 => 0,
                    1 => max_of(k),
                    _ => rng.val(8 * WIDTHS[k as usize]),
                };
                assign_op(k, v)
            })
            .collect();
        emit.case(29, history(rng, l(vec![]), ops));
    }
}
