//! component 31: the generic table `Sdt` (C13).  Vocabulary: coq/theories/Impl/Sdt.v
use crate::sx::*;
use crate::tcommon::*;
use crate::Emit;
use acpi_tables::sdt::Sdt;
use acpi_tables::AmlSink;

fn guarded(t: &mut Sdt, f: impl FnOnce(&mut Sdt)) -> u64 {
    match std::panic::catch_unwind(std::panic::AssertUnwindSafe(|| f(t))) {
        Ok(()) => 0,
        Err(_) => 1,
    }
}

pub fn run(case: &Sx, out: &mut Vec<Ev>) {
    let c = case.list();
    let k = c[0].list();
    let mut t = Sdt::new(k[0].arr::<4>(), k[1].num() as u32, k[2].num() as u8, k[3].arr::<6>(), k[4].arr::<8>(), k[5].num() as u32);
    for op in &c[1..] {
        if let Sx::A(_) = op {
            // as_slice(), len() and to_aml_bytes must agree
            let s = t.as_slice().to_vec();
            if s.len() != t.len() || t.is_empty() != s.is_empty() || image(&t) != Ev::Bytes(s.clone()) {
                panic!("harness: Sdt observers disagree");
            }
            out.push(Ev::Bytes(s));
            continue;
        }
        let o = op.list();
        let n = |i: usize| o[i].num();
        let r = match n(0) {
            1 => match n(1) {
                1 => guarded(&mut t, |t| t.append(n(2) as u8)),
                2 => guarded(&mut t, |t| t.append(n(2) as u16)),
                4 => guarded(&mut t, |t| t.append(n(2) as u32)),
                8 => guarded(&mut t, |t| t.append(n(2))),
                _ => panic!("harness: bad width"),
            },
            2 => {
                let b = o[1].bytes();
                guarded(&mut t, |t| t.append_slice(&b))
            }
            3 => {
                let b = o[2].bytes();
                guarded(&mut t, |t| t.write_bytes(n(1) as usize, &b))
            }
            4 => match n(1) {
                1 => guarded(&mut t, |t| t.write_u8(n(2) as usize, n(3) as u8)),
                2 => guarded(&mut t, |t| t.write_u16(n(2) as usize, n(3) as u16)),
                4 => guarded(&mut t, |t| t.write_u32(n(2) as usize, n(3) as u32)),
                8 => guarded(&mut t, |t| t.write_u64(n(2) as usize, n(3))),
                _ => panic!("harness: bad width"),
            },
            5 => match n(1) {
                1 => guarded(&mut t, |t| AmlSink::byte(t, n(2) as u8)),
                2 => guarded(&mut t, |t| AmlSink::word(t, n(2) as u16)),
                4 => guarded(&mut t, |t| AmlSink::dword(t, n(2) as u32)),
                8 => guarded(&mut t, |t| AmlSink::qword(t, n(2))),
                _ => panic!("harness: bad width"),
            },
            6 => {
                let b = o[1].bytes();
                guarded(&mut t, |t| AmlSink::vec(t, &b))
            }
            7 => guarded(&mut t, |t| t.update_checksum()),
            _ => panic!("harness: bad sdt op"),
        };
        out.push(Ev::Num(r));
    }
}

fn ctor(rng: &mut Rng, len: u64) -> Sx {
    let h = rand_hdr(rng);
    l(vec![blist(&rng.bytes(4)), a(len), a(rng.val(8)), h[0].clone(), h[1].clone(), h[2].clone()])
}

/// the alphabet of parameterised operations for a table of `len` bytes
fn alphabet(rng: &mut Rng, len: u64) -> Vec<Sx> {
    let mut v = Vec::new();
    for w in [1u64, 2, 4, 8] {
        v.push(l(vec![a(1), a(w), a(rng.val(8 * w as u32))]));
        v.push(l(vec![a(5), a(w), a(rng.val(8 * w as u32))]));
    }
    v.push(l(vec![a(2), blist(&[])]));
    v.push(l(vec![a(2), blist(&rng.bytes(1))]));
    v.push(l(vec![a(2), blist(&rng.bytes(5))]));
    v.push(l(vec![a(6), blist(&rng.bytes(3))]));
    v.push(l(vec![a(6), blist(&[])]));
    v.push(l(vec![a(7)]));
    let offs = [0u64, 4, 8, 9, 10, 35, 36, len.saturating_sub(8), len.saturating_sub(4), len.saturating_sub(2), len.saturating_sub(1), len, len + 1, len + 1000, u64::MAX, u64::MAX - 3];
    for off in offs {
        let w = *rng.pick(&[1u64, 2, 4, 8]);
        v.push(l(vec![a(4), a(w), a(off), a(rng.val(8 * w as u32))]));
        let k = rng.below(6) as usize;
        v.push(l(vec![a(3), a(off), blist(&rng.bytes(k))]));
    }
    v
}

fn with_obs(ctor: Sx, ops: Vec<Sx>) -> Sx {
    let mut v = vec![ctor, a(1)];
    for o in ops {
        v.push(o);
        v.push(a(1));
    }
    l(v)
}

pub fn gen(tier: &str, rng: &mut Rng, emit: &mut Emit) {
    let depth = if tier == "thorough" { 3 } else { 2 };
    for len in [36u64, 37, 40, 255, 256, 300] {
        let al = alphabet(rng, len);
        // all sequences of length <= depth over the alphabet (length 3 only for two initial lengths)
        emit.case(31, with_obs(ctor(rng, len), vec![]));
        for x in &al {
            emit.case(31, with_obs(ctor(rng, len), vec![x.clone()]));
        }
        for x in &al {
            for y in &al {
                emit.case(31, with_obs(ctor(rng, len), vec![x.clone(), y.clone()]));
            }
        }
        if depth >= 3 && (len == 36 || len == 256) {
            let small: Vec<&Sx> = al.iter().step_by(2).collect();
            for x in &small {
                for y in &small {
                    for z in &small {
                        emit.case(31, with_obs(ctor(rng, len), vec![(*x).clone(), (*y).clone(), (*z).clone()]));
                    }
                }
            }
        }
    }
    // refused constructors
    for len in [0u64, 1, 35] {
        emit.case(31, l(vec![ctor(rng, len), a(1)]));
    }
    // long slices of high-valued bytes (a block-wise or lane-wise summation can only go wrong when one slice carries many
    // large bytes): appends, writes and sink pushes of 1 KiB .. 70 KiB of 0xff / >= 0x80 / random bytes into tables whose own
    // zero-filled body is short or long
    let fills: [&dyn Fn(&mut Rng, usize) -> Vec<u8>; 4] = [
        &|_r, n| vec![0xffu8; n],
        &|r, n| r.bytes(n).into_iter().map(|b| b | 0x80).collect(),
        &|r, n| r.bytes(n),
        &|r, n| (0..n).map(|i| if i % 2 == 0 { 0xff } else { (r.below(4)) as u8 }).collect(),
    ];
    let sizes: &[usize] = if tier == "thorough" {
        &[257, 1023, 1024, 1025, 1032, 1040, 1500, 2047, 2048, 2049, 2056, 3000, 4096, 8200, 16400, 65536, 70001]
    } else {
        &[257, 1024, 1032, 1500, 2048, 2056, 3000, 8200, 70001]
    };
    for (fi, f) in fills.iter().enumerate() {
        for &n in sizes {
            for len in [36u64, 44, 1100, 5000] {
                if n > 9000 && (len != 36 || fi > 1) {
                    continue;
                }
                let big = f(rng, n);
                let mut ops = vec![l(vec![a(2), blist(&big)])];
                // overwrite part of it again, then push a shorter run through the sink, then append once more
                let m = n.min(1300);
                ops.push(l(vec![a(3), a(len + (n - m) as u64), blist(&f(rng, m))]));
                ops.push(l(vec![a(6), blist(&f(rng, 40))]));
                ops.push(l(vec![a(2), blist(&f(rng, n.min(2100)))]));
                ops.push(l(vec![a(7)]));
                emit.case(31, with_obs(ctor(rng, len), ops));
            }
        }
    }
    // random sequences of length <= 200
    let n = if tier == "thorough" { 20_000 } else { 2_000 };
    for _ in 0..n {
        let len = *rng.pick(&[36u64, 37, 48, 64, 100, 255, 256, 1000]);
        let k = match rng.below(3) {
            0 => rng.range(1, 8),
            1 => rng.range(1, 40),
            _ => rng.range(40, 200),
        };
        let mut cur = len;
        let mut ops = Vec::new();
        for _ in 0..k {
            let al = alphabet(rng, cur);
            let o = rng.pick(&al).clone();
            // track the size the table will have (appends only)
            let ol = o.list();
            match ol[0].num() {
                1 | 5 => cur += ol[1].num(),
                2 | 6 => cur += ol[1].list().len() as u64,
                _ => {}
            }
            ops.push(o);
        }
        let c = ctor(rng, len);
        emit.case(31, history(rng, c, ops));
    }
}
