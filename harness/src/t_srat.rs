//! component 13: SRAT.  Case vocabulary documented in coq/theories/Spec/SratS.v.
use crate::sx::*;
use crate::tcommon::*;
use crate::Emit;
use acpi_tables::srat::*;

fn handle(h: &Sx) -> Handle {
    let h = h.list();
    let n = |i: usize| h[i].num();
    match n(0) {
        0 => Handle::new_acpi(h[1].arr::<8>(), h[2].arr::<4>()),
        1 => Handle::Pci { segment: n(1) as u16, bus: n(2) as u8, device: n(3) as u8, function: n(4) as u8 },
        2 => Handle::new_pci(n(1) as u16, n(2) as u8, n(3) as u8, n(4) as u8),
        _ => panic!("harness: bad srat handle"),
    }
}

pub fn run(case: &Sx, out: &mut Vec<Ev>) {
    let c = case.list();
    let ctor = c[0].list();
    let (oem, tbl, rev) = hdr_args(ctor);
    let mut t = SRAT::new(oem, tbl, rev);
    for op in &c[1..] {
        if let Sx::A(_) = op {
            out.push(image(&t));
            continue;
        }
        let o = op.list();
        let n = |i: usize| o[i].num();
        match n(0) {
            1 => {
                let mut m = MemoryAffinity::new(n(1) as u32, n(2), n(3));
                for b in o[4].list() {
                    m = match b.list()[0].num() {
                        1 => m.enabled(),
                        2 => m.hotpluggable(),
                        3 => m.nonvolatile(),
                        _ => panic!("harness: bad memory affinity builder"),
                    };
                }
                t.add_memory_affinity(m)
            }
            2 => {
                let mut g = GenericInitiator::new(n(1) as u32, handle(&o[2]));
                for b in o[3].list() {
                    g = match b.list()[0].num() {
                        1 => g.enabled(),
                        2 => g.architectural(),
                        _ => panic!("harness: bad generic initiator builder"),
                    };
                }
                t.add_generic_initiator(g)
            }
            3 => {
                let mut r = RintcAffinity::new(o[1].arr::<4>(), n(2) as u32);
                for b in o[3].list() {
                    let b = b.list();
                    r = match b[0].num() {
                        1 => r.enabled(),
                        2 => r.proximity_domain(b[1].num() as u32),
                        _ => panic!("harness: bad rintc affinity builder"),
                    };
                }
                t.add_rintc_affinity(raw(r))
            }
            _ => panic!("harness: bad srat op"),
        }
        out.push(Ev::Num(0));
    }
}

/// all permutations of a small slice
fn perms(v: &[u64]) -> Vec<Vec<u64>> {
    if v.len() <= 1 {
        return vec![v.to_vec()];
    }
    let mut r = Vec::new();
    for i in 0..v.len() {
        let mut rest = v.to_vec();
        let x = rest.remove(i);
        for mut p in perms(&rest) {
            p.insert(0, x);
            r.push(p);
        }
    }
    r
}

/// every subset of `ids` in every order, plus each of those with one element repeated at a random place
fn builder_programs(rng: &mut Rng, ids: &[u64]) -> Vec<Vec<u64>> {
    let mut r = Vec::new();
    for mask in 0u32..(1 << ids.len()) {
        let sub: Vec<u64> = ids.iter().enumerate().filter(|(i, _)| mask & (1 << i) != 0).map(|(_, x)| *x).collect();
        for p in perms(&sub) {
            r.push(p.clone());
            if !p.is_empty() {
                let mut q = p.clone();
                let x = *rng.pick(&p);
                let at = rng.below(q.len() as u64 + 1) as usize;
                q.insert(at, x);
                r.push(q.clone());
                q.push(*rng.pick(&p));
                r.push(q);
            }
        }
    }
    r
}

fn flag_builders(p: &[u64]) -> Sx {
    l(p.iter().map(|b| l(vec![a(*b)])).collect())
}

fn rintc_builders(rng: &mut Rng, p: &[u64]) -> Sx {
    l(p.iter().map(|b| if *b == 2 { l(vec![a(2), a(rng.val(32))]) } else { l(vec![a(1)]) }).collect())
}

fn rand_handle(rng: &mut Rng) -> Sx {
    match rng.below(10) {
        0..=2 => l(vec![a(0), blist(&rng.bytes(8)), blist(&rng.bytes(4))]),
        3..=5 => l(vec![a(2), a(rng.val(16)), a(rng.val(8)), a(rng.below(32)), a(rng.below(8))]),
        6..=8 => l(vec![a(1), a(rng.val(16)), a(rng.val(8)), a(rng.below(32)), a(rng.below(8))]),
        // struct literal with out-of-range device / function (outside the specification's domain)
        _ => l(vec![a(1), a(rng.val(16)), a(rng.val(8)), a(rng.val(8)), a(rng.val(8))]),
    }
}

fn rand_list(rng: &mut Rng, ids: &[u64], max: u64) -> Vec<u64> {
    let k = rng.below(max + 1);
    (0..k).map(|_| *rng.pick(ids)).collect()
}

pub fn rand_op(rng: &mut Rng, kind: u64) -> Sx {
    match kind {
        1 => {
            let p = rand_list(rng, &[1, 2, 3], 5);
            l(vec![a(1), a(rng.val(32)), a(rng.val(64)), a(rng.val(64)), flag_builders(&p)])
        }
        2 => {
            let p = rand_list(rng, &[1, 2], 4);
            l(vec![a(2), a(rng.val(32)), rand_handle(rng), flag_builders(&p)])
        }
        _ => {
            let p = rand_list(rng, &[1, 2], 4);
            let b = rintc_builders(rng, &p);
            l(vec![a(3), blist(&rng.bytes(4)), a(rng.val(32)), b])
        }
    }
}

pub fn gen(tier: &str, rng: &mut Rng, emit: &mut Emit) {
    let kinds = [1u64, 2, 3];
    for _ in 0..4 {
        let c = l(rand_hdr(rng));
        emit.case(13, history(rng, c, vec![]));
    }
    // each entry kind alone, all ordered pairs
    for k in kinds {
        for _ in 0..10 {
            let c = l(rand_hdr(rng));
            let op = rand_op(rng, k);
            emit.case(13, history(rng, c, vec![op]));
        }
    }
    for k1 in kinds {
        for k2 in kinds {
            for _ in 0..3 {
                let c = l(rand_hdr(rng));
                let ops = vec![rand_op(rng, k1), rand_op(rng, k2)];
                emit.case(13, history(rng, c, ops));
            }
        }
    }
    // memory affinity: every subset / order / repetition of the three flag builders; split base / length fields
    for p in builder_programs(rng, &[1, 2, 3]) {
        let c = l(rand_hdr(rng));
        let op = l(vec![a(1), a(rng.val(32)), a(rng.val(64)), a(rng.val(64)), flag_builders(&p)]);
        emit.case(13, history(rng, c, vec![op]));
    }
    for (b, n) in [
        (0u64, 0u64),
        (0xffff_ffff, 0x1_0000_0000),
        (0x1_0000_0000, 0xffff_ffff),
        (u64::MAX, u64::MAX),
        (0x0102_0304_0506_0708, 0x1112_1314_1516_1718),
        (0x8000_0000_0000_0000, 0x8000_0000),
    ] {
        let c = l(rand_hdr(rng));
        let op = l(vec![a(1), a(0x2122_2324), a(b), a(n), flag_builders(&[1])]);
        emit.case(13, history(rng, c, vec![op]));
    }
    // generic initiator: both handle kinds (PCI through the asserting constructor and through the struct literal)
    // with every subset / order / repetition of the two flag builders
    for p in builder_programs(rng, &[1, 2]) {
        for hk in 0..3u64 {
            let c = l(rand_hdr(rng));
            let h = match hk {
                0 => l(vec![a(0), blist(&rng.bytes(8)), blist(&rng.bytes(4))]),
                k => l(vec![a(k), a(rng.val(16)), a(rng.val(8)), a(rng.below(32)), a(rng.below(8))]),
            };
            let op = l(vec![a(2), a(rng.val(32)), h, flag_builders(&p)]);
            emit.case(13, history(rng, c, vec![op]));
        }
    }
    // PCI handle boundaries: device 31 / 32 / 255, function 7 / 8 / 255, through both construction paths
    for (d, f) in [(0u64, 0u64), (31, 7), (32, 0), (0, 8), (32, 8), (255, 255), (31, 8), (32, 7), (1, 0), (0, 1), (16, 4), (33, 9), (128, 0), (0, 128)] {
        for hk in [1u64, 2] {
            let c = l(rand_hdr(rng));
            let h = l(vec![a(hk), a(rng.val(16)), a(rng.val(8)), a(d), a(f)]);
            let pre = rand_op(rng, 3);
            let post = rand_op(rng, 1);
            let op = l(vec![a(2), a(rng.val(32)), h, flag_builders(&[1])]);
            emit.case(13, history(rng, c, vec![pre, op, post]));
        }
    }
    // RINTC affinity: every subset / order / repetition of enabled and proximity_domain (last writer wins)
    for p in builder_programs(rng, &[1, 2]) {
        for _ in 0..2 {
            let c = l(rand_hdr(rng));
            let b = rintc_builders(rng, &p);
            let op = l(vec![a(3), blist(&rng.bytes(4)), a(rng.val(32)), b]);
            emit.case(13, history(rng, c, vec![op]));
        }
    }
    // homogeneous runs: 300 of each kind; 3 300 x 20 bytes and 1 640 x 40 bytes cross 65535 -> 65536 bytes
    for (k, n) in [(3u64, 300usize), (2, 300), (1, 300), (3, 3300), (1, 1640)] {
        let c = l(rand_hdr(rng));
        let ops = (0..n).map(|_| rand_op(rng, k)).collect();
        emit.case(13, history(rng, c, ops));
    }
    // the table Length carries into its fourth byte at 16 MiB (419 430 memory affinity structures of 40 bytes): sum and
    // length properties only, thorough tier only (about 1.5 GB in the model's process)
    if tier == "thorough" && (emit.prop() == 1 || emit.prop() == 2) {
        let c = l(rand_hdr(rng));
        let ops = (0..419_432).map(|_| rand_op(rng, 1)).collect();
        emit.case(13, history_at(c, ops, &[419_429, 419_430, 419_431]));
    }
    let n = if tier == "thorough" { 3000 } else { 200 };
    for _ in 0..n {
        let c = l(rand_hdr(rng));
        let len = match rng.below(3) {
            0 => rng.range(1, 6),
            1 => rng.range(1, 24),
            _ => rng.range(25, 120),
        };
        let ops = (0..len)
            .map(|_| {
                let k = *rng.pick(&kinds);
                rand_op(rng, k)
            })
            .collect();
        emit.case(13, history(rng, c, ops));
    }
}
