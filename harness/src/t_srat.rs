//! STUB component for srat -- to be written
use crate::sx::*;
use crate::Emit;

pub fn run(_case: &Sx, _out: &mut Vec<Ev>) {
    panic!("harness: component srat not implemented")
}

pub fn gen(_tier: &str, _rng: &mut Rng, _emit: &mut Emit) {}
