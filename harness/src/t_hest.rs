//! component 21: HEST + the stand-alone GenericErrorStatus / GenericErrorData.
//! Case vocabulary documented in coq/theories/Spec/HestS.v (GAS arguments: coq/theories/Spec/GasS.v).
use crate::sx::*;
use crate::tcommon::*;
use crate::Emit;
use acpi_tables::gas::{AccessSize, AddressSpace, GAS};
use acpi_tables::hest::*;
use acpi_tables::Aml;

/// an opaque payload object for GenericErrorData::add_data
struct RawBytes(Vec<u8>);
impl Aml for RawBytes {
    fn to_aml_bytes(&self, sink: &mut dyn acpi_tables::AmlSink) {
        sink.vec(&self.0);
    }
}

pub fn address_space(n: u64) -> AddressSpace {
    match n {
        0 => AddressSpace::SystemMemory,
        1 => AddressSpace::SystemIo,
        2 => AddressSpace::PciConfigSpace,
        3 => AddressSpace::EmbeddedController,
        4 => AddressSpace::Smbus,
        5 => AddressSpace::SystemCmos,
        6 => AddressSpace::PciBarTarget,
        7 => AddressSpace::Ipmi,
        8 => AddressSpace::GeneralPursposeIo,
        9 => AddressSpace::GenericSerialBus,
        0xa => AddressSpace::PlatformCommunicationsChannel,
        0xb => AddressSpace::PlatformRuntimeMechanism,
        0x7f => AddressSpace::FunctionalFixedHardware,
        _ => panic!("harness: bad address space"),
    }
}

pub fn access_size(n: u64) -> AccessSize {
    match n {
        0 => AccessSize::Undefined,
        1 => AccessSize::ByteAccess,
        2 => AccessSize::WordAccess,
        3 => AccessSize::DwordAccess,
        4 => AccessSize::QwordAccess,
        _ => panic!("harness: bad access size"),
    }
}

/// a GAS-valued argument: (0 space width offset access addr) | (1 width access dev fn reg) | (2)
pub fn gas(s: &Sx) -> GAS {
    let g = s.list();
    let n = |i: usize| g[i].num();
    raw(match n(0) {
        0 => GAS::new(address_space(n(1)), n(2) as u8, n(3) as u8, access_size(n(4)), n(5)),
        1 => GAS::new_pci_config(n(1) as u8, access_size(n(2)), n(3) as u8, n(4) as u8, n(5) as u16),
        2 => GAS::default(),
        _ => panic!("harness: bad gas"),
    })
}

pub const SPACES: [u64; 13] = [0, 1, 2, 3, 4, 5, 6, 7, 8, 9, 0xa, 0xb, 0x7f];

pub fn rand_gas(rng: &mut Rng) -> Sx {
    match rng.below(8) {
        0 => l(vec![a(2)]),
        1 | 2 => l(vec![a(1), a(rng.val(8)), a(rng.below(5)), a(rng.val(8)), a(rng.val(8)), a(rng.val(16))]),
        _ => l(vec![a(0), a(*rng.pick(&SPACES)), a(rng.val(8)), a(rng.val(8)), a(rng.below(5)), a(rng.val(64))]),
    }
}

fn notification_type(n: u64) -> NotificationType {
    match n {
        0 => NotificationType::Polled,
        1 => NotificationType::ExternalIrq,
        2 => NotificationType::LocalIrq,
        3 => NotificationType::Sci,
        4 => NotificationType::Nmi,
        5 => NotificationType::Cmci,
        6 => NotificationType::Mce,
        7 => NotificationType::GpioSignal,
        8 => NotificationType::Armv8Sea,
        9 => NotificationType::Armv8Sei,
        10 => NotificationType::ExternalGsiv,
        11 => NotificationType::SoftwareException,
        12 => NotificationType::RiscvSupervisorSoftwareEvent,
        13 => NotificationType::RiscvLowPriorityRasInterrupt,
        14 => NotificationType::RiscvHighPriorityRasInterrupt,
        15 => NotificationType::RiscvHardwareErrorException,
        _ => panic!("harness: bad notification type"),
    }
}

fn severity(n: u64) -> ErrorSeverity {
    match n {
        0 => ErrorSeverity::Recoverable,
        1 => ErrorSeverity::Fatal,
        2 => ErrorSeverity::Correctable,
        3 => ErrorSeverity::None,
        _ => panic!("harness: bad severity"),
    }
}

fn enabled(n: u64) -> EnabledStatus {
    match n {
        0 => EnabledStatus::Disabled,
        1 => EnabledStatus::Enabled,
        _ => panic!("harness: bad enabled status"),
    }
}

fn firmware_first(n: u64) -> FirmwareFirst {
    match n {
        0 => FirmwareFirst::Disabled,
        1 => FirmwareFirst::Enabled,
        _ => panic!("harness: bad firmware first"),
    }
}

fn notification(ty: u64, setters: &[Sx]) -> NotificationStructure {
    let mut n = NotificationStructure::new(notification_type(ty));
    for s in setters {
        let s = s.list();
        let v = s[1].num();
        n = match s[0].num() {
            1 => n.conf_write_en(v as u16),
            2 => n.poll_interval_ms(v as u32),
            3 => n.vector(v as u32),
            4 => n.polling_threshold_value(v as u32),
            5 => n.polling_threshold_window_ms(v as u32),
            6 => n.error_threshold_value(v as u32),
            7 => n.error_threshold_window_ms(v as u32),
            _ => panic!("harness: bad notification setter"),
        };
    }
    n
}

/// Some(device) for (1 ff bus dev fn), None for (0)
fn aer_ctor(c: &Sx) -> Option<(FirmwareFirst, PciDevice)> {
    let c = c.list();
    match c[0].num() {
        0 => None,
        1 => Some((firmware_first(c[1].num()), PciDevice::new(c[2].num() as u8, c[3].num() as u8, c[4].num() as u8))),
        _ => panic!("harness: bad aer ctor"),
    }
}

fn to_vec(t: &dyn Aml) -> Vec<u8> {
    let mut v = Vec::new();
    t.to_aml_bytes(&mut v);
    v
}

pub fn run(case: &Sx, out: &mut Vec<Ev>) {
    let c = case.list();
    let ctor = c[0].list();
    let (oem, tbl, rev) = hdr_args(ctor);
    let mut t = HEST::new(oem, tbl, rev);
    // the serialisation of the stand-alone structure built by the last operation, if it was (20 ..) / (21 ..)
    let mut alone: Option<Vec<u8>> = None;
    for op in &c[1..] {
        if let Sx::A(_) = op {
            match &alone {
                Some(b) => out.push(Ev::Bytes(b.clone())),
                None => out.push(image(&t)),
            }
            continue;
        }
        let o = op.list();
        let n = |i: usize| o[i].num();
        match n(0) {
            1 => {
                let mut s = match aer_ctor(&o[1]) {
                    None => PcieAerRootPort::new_global(),
                    Some((ff, d)) => PcieAerRootPort::new_root_port(ff, d),
                };
                for st in o[2].list() {
                    let st = st.list();
                    let v = st[1].num();
                    s = match st[0].num() {
                        1 => s.num_records(v as u32),
                        2 => s.max_sections(v as u32),
                        3 => s.device_control(v as u16),
                        4 => s.uncorrectable_error_mask(v as u32),
                        5 => s.uncorrectable_error_severity(v as u32),
                        6 => s.correctable_error_mask(v as u32),
                        7 => s.aer_cap_ctrl(v as u32),
                        8 => s.root_error_command(v as u32),
                        _ => panic!("harness: bad root port setter"),
                    };
                }
                t.add_structure(raw(s));
                alone = None;
            }
            2 => {
                let mut s = match aer_ctor(&o[1]) {
                    None => PcieAerDevice::new_global(),
                    Some((ff, d)) => PcieAerDevice::new_root_port(ff, d),
                };
                for st in o[2].list() {
                    let st = st.list();
                    let v = st[1].num();
                    s = match st[0].num() {
                        1 => s.num_records(v as u32),
                        2 => s.max_sections(v as u32),
                        3 => s.device_control(v as u16),
                        4 => s.uncorrectable_error_mask(v as u32),
                        5 => s.uncorrectable_error_severity(v as u32),
                        6 => s.correctable_error_mask(v as u32),
                        7 => s.aer_cap_ctrl(v as u32),
                        _ => panic!("harness: bad aer device setter"),
                    };
                }
                t.add_structure(raw(s));
                alone = None;
            }
            3 => {
                let mut s = match aer_ctor(&o[1]) {
                    None => PcieAerBridge::new_global(),
                    Some((ff, d)) => PcieAerBridge::new_bridge(ff, d),
                };
                for st in o[2].list() {
                    let st = st.list();
                    let v = st[1].num();
                    s = match st[0].num() {
                        1 => s.num_records(v as u32),
                        2 => s.max_sections(v as u32),
                        3 => s.device_control(v as u16),
                        4 => s.uncorrectable_error_mask(v as u32),
                        5 => s.uncorrectable_error_severity(v as u32),
                        6 => s.correctable_error_mask(v as u32),
                        7 => s.aer_cap_ctrl(v as u32),
                        8 => s.secondary_uncorrectable_error_mask(v as u32),
                        9 => s.secondary_uncorrectable_error_severity(v as u32),
                        10 => s.secondary_aer_cap_ctrl(v as u32),
                        _ => panic!("harness: bad bridge setter"),
                    };
                }
                t.add_structure(raw(s));
                alone = None;
            }
            4 => {
                let mut s = GenericHardwareSource::new(n(1) as u16, enabled(n(2)));
                for st in o[3].list() {
                    let st = st.list();
                    s = match st[0].num() {
                        1 => s.num_records(st[1].num() as u32),
                        2 => s.max_sections(st[1].num() as u32),
                        3 => s.max_raw_length(st[1].num() as u32),
                        4 => s.error_status_address(gas(&st[1])),
                        5 => s.notification(notification(st[1].num(), st[2].list())),
                        6 => s.error_status_block_len(st[1].num() as u32),
                        _ => panic!("harness: bad ghes setter"),
                    };
                }
                t.add_structure(raw(s));
                alone = None;
            }
            5 => {
                let mut s = GenericHardwareSourceV2::new(n(1) as u16, enabled(n(2)));
                for st in o[3].list() {
                    let st = st.list();
                    s = match st[0].num() {
                        1 => s.num_records(st[1].num() as u32),
                        2 => s.max_sections(st[1].num() as u32),
                        3 => s.max_raw_length(st[1].num() as u32),
                        4 => s.error_status_address(gas(&st[1])),
                        5 => s.notification(notification(st[1].num(), st[2].list())),
                        6 => s.error_status_block_len(st[1].num() as u32),
                        7 => s.read_ack_register(gas(&st[1])),
                        8 => s.read_ack_preserve(st[1].num()),
                        9 => s.read_ack_write(st[1].num()),
                        _ => panic!("harness: bad ghes v2 setter"),
                    };
                }
                t.add_structure(raw(s));
                alone = None;
            }
            20 => {
                let cnt = o[1].list();
                let s = GenericErrorStatus::new(cnt[0].num() as u32, cnt[1].num() as u32, severity(n(2)));
                alone = Some(to_vec(&s));
            }
            21 => {
                let mut d = GenericErrorData::new(severity(n(1)));
                for st in o[2].list() {
                    let st = st.list();
                    match st[0].num() {
                        1 => d.section_type = st[1].num() as u16,
                        2 => d.severity = severity(st[1].num()),
                        3 => d.revision = st[1].num() as u16,
                        4 => d.validation = st[1].num() as u8,
                        5 => d.flags = st[1].num() as u8,
                        6 => d.error_data_length = st[1].num() as u32,
                        7 => d.fru_id = st[1].arr::<16>(),
                        8 => d.fru_text = st[1].arr::<20>(),
                        9 => d.timestamp = st[1].arr::<8>(),
                        10 => d.add_data(Box::new(RawBytes(st[1].bytes()))),
                        _ => panic!("harness: bad generic error data assignment"),
                    }
                }
                alone = Some(to_vec(&d));
            }
            _ => panic!("harness: bad hest op"),
        }
        out.push(Ev::Num(0));
    }
}

// ---------------------------------------------------------------------------------------------- generators

const AER_BITS: [u32; 10] = [32, 32, 16, 32, 32, 32, 32, 32, 32, 32];

fn aer_nsetters(kind: u64) -> u64 {
    match kind {
        1 => 8,
        2 => 7,
        _ => 10,
    }
}

fn ghes_nsetters(kind: u64) -> u64 {
    if kind == 4 {
        6
    } else {
        9
    }
}

fn rand_aer_ctor(rng: &mut Rng) -> Sx {
    if rng.chance(1, 3) {
        l(vec![a(0)])
    } else {
        l(vec![a(1), a(rng.below(2)), a(rng.val(8)), a(rng.val(5)), a(rng.val(3))])
    }
}

fn rand_notification(rng: &mut Rng) -> Vec<Sx> {
    let k = rng.below(9);
    let st = (0..k)
        .map(|_| {
            let id = rng.range(1, 7);
            l(vec![a(id), a(rng.val(if id == 1 { 16 } else { 32 }))])
        })
        .collect();
    vec![a(5), a(rng.below(16)), l(st)]
}

/// one setter of the given id for the source kind, with a random argument
fn setter(rng: &mut Rng, kind: u64, id: u64) -> Sx {
    match kind {
        1 | 2 | 3 => l(vec![a(id), a(rng.val(AER_BITS[(id - 1) as usize]))]),
        _ => match id {
            4 | 7 => l(vec![a(id), rand_gas(rng)]),
            5 => l(rand_notification(rng)),
            8 | 9 => l(vec![a(id), a(rng.val(64))]),
            _ => l(vec![a(id), a(rng.val(32))]),
        },
    }
}

fn source(rng: &mut Rng, kind: u64, setters: Vec<Sx>) -> Sx {
    match kind {
        1 | 2 | 3 => l(vec![a(kind), rand_aer_ctor(rng), l(setters)]),
        _ => l(vec![a(kind), a(rng.val(16)), a(rng.below(2)), l(setters)]),
    }
}

pub fn rand_op(rng: &mut Rng, kind: u64) -> Sx {
    let ns = if kind <= 3 { aer_nsetters(kind) } else { ghes_nsetters(kind) };
    let k = rng.below(ns + 4);
    let st = (0..k)
        .map(|_| {
            let id = rng.range(1, ns);
            setter(rng, kind, id)
        })
        .collect();
    source(rng, kind, st)
}

fn smallest(kind: u64) -> Sx {
    match kind {
        1 | 2 | 3 => l(vec![a(kind), l(vec![a(0)]), l(vec![])]),
        _ => l(vec![a(kind), a(0), a(0), l(vec![])]),
    }
}

fn rand_ctor(rng: &mut Rng) -> Sx {
    l(rand_hdr(rng))
}

fn rand_status(rng: &mut Rng) -> Sx {
    let cnt = |rng: &mut Rng| match rng.below(6) {
        0 => 0,
        1 => 1,
        2 => 2,
        3 => 3,
        4 => 0xffff_ffff,
        _ => rng.val(32),
    };
    let cc = cnt(rng);
    let uc = cnt(rng);
    l(vec![a(20), l(vec![a(cc), a(uc)]), a(rng.below(4))])
}

fn ged_assign(rng: &mut Rng, id: u64) -> Sx {
    match id {
        1 | 3 => l(vec![a(id), a(rng.val(16))]),
        2 => l(vec![a(2), a(rng.below(4))]),
        4 | 5 => l(vec![a(id), a(rng.val(8))]),
        6 => l(vec![a(6), a(rng.val(32))]),
        7 => l(vec![a(7), blist(&rng.bytes(16))]),
        8 => l(vec![a(8), blist(&rng.bytes(20))]),
        10 => {
            let n = rng.below(40) as usize;
            l(vec![a(10), blist(&rng.bytes(n))])
        }
        _ => l(vec![a(9), blist(&rng.bytes(8))]),
    }
}

fn rand_data(rng: &mut Rng) -> Sx {
    let k = rng.below(12);
    let st = (0..k)
        .map(|_| {
            let id = rng.range(1, 10);
            ged_assign(rng, id)
        })
        .collect();
    l(vec![a(21), a(rng.below(4)), l(st)])
}

/// the ids of `mask` in ascending order, descending order, or shuffled with one repetition
fn ordered(rng: &mut Rng, n: u64, mask: u64, order: u64) -> Vec<u64> {
    let mut ids: Vec<u64> = (1..=n).filter(|i| mask >> (i - 1) & 1 == 1).collect();
    match order {
        0 => {}
        1 => ids.reverse(),
        _ => {
            for i in (1..ids.len()).rev() {
                let j = rng.below(i as u64 + 1) as usize;
                ids.swap(i, j);
            }
            if !ids.is_empty() {
                let x = *rng.pick(&ids);
                let pos = rng.below(ids.len() as u64 + 1) as usize;
                ids.insert(pos, x);
            }
        }
    }
    ids
}

pub fn gen(tier: &str, rng: &mut Rng, emit: &mut Emit) {
    let kinds: Vec<u64> = (1..=5).collect();
    // empty history
    for _ in 0..4 {
        let c = rand_ctor(rng);
        emit.case(21, history(rng, c, vec![]));
    }
    // each source kind alone: bare, random setters, every subset of its setters in three orders
    for k in &kinds {
        let c = rand_ctor(rng);
        emit.case(21, history(rng, c, vec![smallest(*k)]));
        for _ in 0..8 {
            let c = rand_ctor(rng);
            let op = rand_op(rng, *k);
            emit.case(21, history(rng, c, vec![op]));
        }
        let ns = if *k <= 3 { aer_nsetters(*k) } else { ghes_nsetters(*k) };
        for mask in 0..(1u64 << ns) {
            for order in 0..3 {
                if order > 0 && mask.count_ones() < 2 {
                    continue;
                }
                let st = ordered(rng, ns, mask, order).into_iter().map(|id| setter(rng, *k, id)).collect();
                let c = rand_ctor(rng);
                let op = source(rng, *k, st);
                emit.case(21, history(rng, c, vec![op]));
            }
        }
    }
    // PCI device boundaries of the AER constructors (device < 32, function < 8 asserted by PciDevice::new)
    for k in 1..=3u64 {
        for (dev, func) in [(0u64, 0u64), (31, 7), (32, 0), (0, 8), (31, 8), (32, 7), (255, 255), (31, 0), (0, 7)] {
            for ff in 0..2 {
                let c = rand_ctor(rng);
                let op = l(vec![a(k), l(vec![a(1), a(ff), a(rng.val(8)), a(dev), a(func)]), l(vec![])]);
                let before = rand_op(rng, 2);
                emit.case(21, history(rng, c, vec![before, op]));
            }
        }
    }
    // all 16 notification types, every subset of the notification setters
    for k in [4u64, 5] {
        for nty in 0..16u64 {
            for mask in (0..128u64).filter(|m| nty == 0 || m % 5 == nty % 5 || *m == 127) {
                let order = rng.below(3);
                let nst: Vec<Sx> = ordered(rng, 7, mask, order)
                    .into_iter()
                    .map(|id| l(vec![a(id), a(rng.val(if id == 1 { 16 } else { 32 }))]))
                    .collect();
                let mut st = vec![l(vec![a(5), a(nty), l(nst)])];
                if rng.chance(1, 4) {
                    // an earlier notification is replaced as a whole
                    st.insert(0, l(rand_notification(rng)));
                }
                let c = rand_ctor(rng);
                let op = source(rng, k, st);
                emit.case(21, history(rng, c, vec![op]));
            }
        }
        // every address space x access size in both GAS-valued setters, PCI-config form, default form
        for sp in SPACES {
            for acc in 0..5u64 {
                let g = l(vec![a(0), a(sp), a(rng.val(8)), a(rng.val(8)), a(acc), a(rng.val(64))]);
                let id = if k == 5 && rng.chance(1, 2) { 7 } else { 4 };
                let c = rand_ctor(rng);
                let op = source(rng, k, vec![l(vec![a(id), g])]);
                emit.case(21, history(rng, c, vec![op]));
            }
        }
        for _ in 0..40 {
            let g = l(vec![a(1), a(rng.val(8)), a(rng.below(5)), a(rng.val(8)), a(rng.val(8)), a(rng.val(16))]);
            let id = if k == 5 && rng.chance(1, 2) { 7 } else { 4 };
            let c = rand_ctor(rng);
            let esbl = rng.val(32);
            let op = source(rng, k, vec![l(vec![a(id), g]), l(vec![a(6), a(esbl)])]);
            emit.case(21, history(rng, c, vec![op]));
        }
        let c = rand_ctor(rng);
        let g = rand_gas(rng);
        let op = source(rng, k, vec![l(vec![a(4), g]), l(vec![a(4), l(vec![a(2)])])]);
        emit.case(21, history(rng, c, vec![op]));
    }
    // all ordered pairs of source kinds
    for k1 in &kinds {
        for k2 in &kinds {
            let c = rand_ctor(rng);
            let ops = vec![rand_op(rng, *k1), rand_op(rng, *k2)];
            emit.case(21, history(rng, c, ops));
        }
    }
    // homogeneous runs crossing 255 -> 256 sources; a run crossing 65535 -> 65536 bytes
    for k in &kinds {
        let c = rand_ctor(rng);
        let ops = (0..300).map(|i| if i % 7 == 0 { rand_op(rng, *k) } else { smallest(*k) }).collect();
        emit.case(21, history(rng, c, ops));
    }
    {
        let c = rand_ctor(rng);
        let ops = (0..800).map(|_| rand_op(rng, 5)).collect(); // 800 * 92 bytes > 65536
        emit.case(21, history(rng, c, ops));
    }
    if tier == "thorough" && long_runs_affordable(emit) {
        let c = rand_ctor(rng);
        let ops = (0..65_540).map(|_| smallest(2)).collect();
        emit.case(21, history(rng, c, ops));
    } else if wants_long_runs(tier, emit) {
        // the 32-bit source count carries into its third byte at 65 536 sources
        let c = rand_ctor(rng);
        let ops = (0..65_538).map(|_| smallest(2)).collect();
        emit.case(21, history_at(c, ops, &[65_535, 65_536, 65_537]));
    }
    // random mixed histories
    let n = if tier == "thorough" { 3000 } else { 200 };
    for _ in 0..n {
        let c = rand_ctor(rng);
        let len = match rng.below(3) {
            0 => rng.range(1, 6),
            1 => rng.range(1, 24),
            _ => rng.range(25, 120),
        };
        let ops = (0..len)
            .map(|_| {
                let k = *rng.pick(&kinds);
                rand_op(rng, k)
            })
            .collect();
        emit.case(21, history(rng, c, ops));
    }
    // the stand-alone structures are not tables (no header, no checksum, no length field): their observations are
    // judged by the reference-encoding property only
    if emit.prop == 4 {
        for cc in [0u64, 1, 2, 3, 0xffff_ffff] {
            for uc in [0u64, 1, 2, 3, 0xffff_ffff] {
                for sev in 0..4u64 {
                    let c = rand_ctor(rng);
                    emit.case(21, history(rng, c, vec![l(vec![a(20), l(vec![a(cc), a(uc)]), a(sev)])]));
                }
            }
        }
        for _ in 0..40 {
            let c = rand_ctor(rng);
            let op = rand_status(rng);
            emit.case(21, history(rng, c, vec![op]));
        }
        // generic error data: new(severity) alone, every subset of the 9 pub-field assignments, random programs
        for sev in 0..4u64 {
            let c = rand_ctor(rng);
            emit.case(21, history(rng, c, vec![l(vec![a(21), a(sev), l(vec![])])]));
        }
        for mask in 0..512u64 {
            let order = rng.below(3);
            let st = ordered(rng, 9, mask, order).into_iter().map(|id| ged_assign(rng, id)).collect();
            let c = rand_ctor(rng);
            let sev = rng.below(4);
            emit.case(21, history(rng, c, vec![l(vec![a(21), a(sev), l(st)])]));
        }
        for _ in 0..40 {
            let c = rand_ctor(rng);
            let op = rand_data(rng);
            emit.case(21, history(rng, c, vec![op]));
        }
        // interleaved with table operations: the stand-alone structures leave the table alone
        for _ in 0..60 {
            let c = rand_ctor(rng);
            let len = rng.range(2, 12);
            let ops = (0..len)
                .map(|_| match rng.below(4) {
                    0 => rand_status(rng),
                    1 => rand_data(rng),
                    _ => {
                        let k = *rng.pick(&kinds);
                        rand_op(rng, k)
                    }
                })
                .collect();
            emit.case(21, history(rng, c, ops));
        }
    }
}
