//! component 27: BERT.  Case vocabulary documented in coq/theories/Spec/BertS.v.
use crate::sx::*;
use crate::tcommon::*;
use crate::Emit;
use acpi_tables::bert::BERT;

pub fn run(case: &Sx, out: &mut Vec<Ev>) {
    let c = case.list();
    let ctor = c[0].list();
    let (oem, tbl, rev) = hdr_args(ctor);
    let t = BERT::new(oem, tbl, rev, ctor[3].num() as u32, ctor[4].num());
    for op in &c[1..] {
        if let Sx::A(_) = op {
            out.push(image(&t));
            continue;
        }
        panic!("harness: BERT has no operation");
    }
}

pub fn gen(tier: &str, rng: &mut Rng, emit: &mut Emit) {
    for (len, base) in [(0u64, 0u64), (u32::MAX as u64, u64::MAX), (0x1020_3040, 0x5060_7080_90a0_b0c0), (1, 0), (0, 1), (0x0102_0304, 0x0506_0708_090a_0b0c)] {
        let mut c = rand_hdr(rng);
        c.push(a(len));
        c.push(a(base));
        emit.case(27, history(rng, l(c), vec![]));
    }
    let n = if tier == "thorough" { 2000 } else { 150 };
    for _ in 0..n {
        let mut c = rand_hdr(rng);
        c.push(a(rng.val(32)));
        c.push(a(rng.val(64)));
        emit.case(27, history(rng, l(c), vec![]));
    }
}
