//! component 30: RSDP.  Case vocabulary documented in coq/theories/Spec/RsdpS.v.
use crate::sx::*;
use crate::tcommon::*;
use crate::Emit;
use acpi_tables::rsdp::Rsdp;

pub fn run(case: &Sx, out: &mut Vec<Ev>) {
    let c = case.list();
    let ctor = c[0].list();
    let t = Rsdp::new(ctor[0].arr::<6>(), ctor[1].num());
    for op in &c[1..] {
        if let Sx::A(_) = op {
            out.push(image(&t));
            continue;
        }
        panic!("harness: RSDP has no operation");
    }
}

fn rand_oem(rng: &mut Rng) -> Vec<u8> {
    match rng.below(4) {
        0 => vec![0; 6],
        1 => vec![0xff; 6],
        2 => b"CHYPER".to_vec(),
        _ => rng.bytes(6),
    }
}

pub fn gen(tier: &str, rng: &mut Rng, emit: &mut Emit) {
    for x in [0u64, 1, 0xff, 0x100, 0xdead_beef, u64::MAX, u64::MAX - 1, 0x0102_0304_0506_0708] {
        for oem in [vec![0u8; 6], vec![0xff; 6], b"CHYPER".to_vec()] {
            emit.case(30, history(rng, l(vec![blist(&oem), a(x)]), vec![]));
        }
    }
    let n = if tier == "thorough" { 3000 } else { 300 };
    for _ in 0..n {
        let oem = rand_oem(rng);
        let c = l(vec![blist(&oem), a(rng.val(64))]);
        emit.case(30, history(rng, c, vec![]));
    }
}
