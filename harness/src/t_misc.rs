//! component 32: small public items outside the table / AML components.  Vocabulary: coq/theories/Impl/Misc.v.
use crate::sx::*;
use crate::Emit;
use acpi_tables::sdt::GenericAddress;
use zerocopy::IntoBytes;

pub fn run(case: &Sx, out: &mut Vec<Ev>) {
    let o = case.list();
    match o[0].num() {
        1 => {
            let a = o[2].num() as u16;
            let g = match o[1].num() {
                1 => GenericAddress::io_port_address::<u8>(a),
                2 => GenericAddress::io_port_address::<u16>(a),
                4 => GenericAddress::io_port_address::<u32>(a),
                8 => GenericAddress::io_port_address::<u64>(a),
                16 => GenericAddress::io_port_address::<u128>(a),
                3 => GenericAddress::io_port_address::<[u8; 3]>(a),
                _ => panic!("harness: no access type of that size"),
            };
            out.push(Ev::Bytes(g.as_bytes().to_vec()));
        }
        2 => {
            let a = o[2].num();
            let g = match o[1].num() {
                1 => GenericAddress::mmio_address::<u8>(a),
                2 => GenericAddress::mmio_address::<u16>(a),
                4 => GenericAddress::mmio_address::<u32>(a),
                8 => GenericAddress::mmio_address::<u64>(a),
                16 => GenericAddress::mmio_address::<u128>(a),
                3 => GenericAddress::mmio_address::<[u8; 3]>(a),
                _ => panic!("harness: no access type of that size"),
            };
            out.push(Ev::Bytes(g.as_bytes().to_vec()));
        }
        3 => out.push(Ev::Num(match o[1].num() {
            0 => acpi_tables::gas::GAS::len(),
            1 => acpi_tables::rsdp::Rsdp::len(),
            2 => acpi_tables::facs::FACS::len(),
            3 => acpi_tables::tpm2::TpmServer1_2::len(),
            _ => panic!("harness: no such size function"),
        } as u64)),
        4 => {
            let t = String::from_utf8(o[1].bytes()).expect("harness: field name must be UTF-8");
            out.push(Ev::Bytes(crate::tcommon::serialise(&acpi_tables::aml::Name::new_field_name(&t))));
        }
        5 => {
            let t: &'static str = Box::leak(String::from_utf8(o[1].bytes()).expect("harness: ISA string must be UTF-8").into_boxed_str());
            out.push(Ev::Bytes(crate::tcommon::serialise(&acpi_tables::rhct::IsaStringNode::new(t))));
        }
        _ => panic!("harness: bad misc op"),
    }
}

/// a byte string that always prints as a list (the `#hex` abbreviation parses back to the same list)
fn blist(b: &[u8]) -> Sx {
    bytes(b)
}

pub fn gen(tier: &str, rng: &mut Rng, emit: &mut Emit) {
    for w in 0..4 {
        emit.case(32, l(vec![a(3), a(w)]));
    }
    // field names: well-formed NameSegs and arbitrary ASCII text of length 0..8
    const SEG: &[u8] = b"ABCDEFGHIJKLMNOPQRSTUVWXYZ_0123456789";
    for _ in 0..(if tier == "thorough" { 5000 } else { 300 }) {
        let t: Vec<u8> = if rng.chance(2, 3) {
            (0..4).map(|i| if i == 0 { SEG[rng.below(27) as usize] } else { *rng.pick(SEG) }).collect()
        } else {
            let n = rng.below(9);
            (0..n).map(|_| rng.range(1, 127) as u8).collect()
        };
        emit.case(32, l(vec![a(4), blist(&t)]));
    }
    // stand-alone ISA string nodes: lengths 0..40 (both parities), and around the 16-bit node length
    for n in (0usize..=40).chain([255, 256, 65_524, 65_525, 65_526, 65_527, 65_528, 65_540]) {
        let t: Vec<u8> = (0..n).map(|_| *rng.pick(b"rv64imafdc_zicsr")).collect();
        emit.case(32, l(vec![a(5), blist(&t)]));
    }
    let n = if tier == "thorough" { 20_000 } else { 600 };
    for k in [1u64, 2, 4, 8, 16, 3] {
        for addr in [0u64, 1, 0xff, 0x100, 0x3f8, 0xffff] {
            emit.case(32, l(vec![a(1), a(k), a(addr)]));
            emit.case(32, l(vec![a(2), a(k), a(addr)]));
        }
        for addr in [0x1_0000u64, 0xffff_ffff, 0x1_0000_0000, u64::MAX] {
            emit.case(32, l(vec![a(2), a(k), a(addr)]));
        }
        for _ in 0..n {
            emit.case(32, l(vec![a(1), a(k), a(rng.val(16))]));
            let bits = rng.range(1, 64) as u32;
            emit.case(32, l(vec![a(2), a(k), a(rng.val(bits))]));
        }
    }
}
