//! component 22: RQSC.  Case vocabulary documented in coq/theories/Spec/RqscS.v (GAS arguments: Spec/GasS.v).
use crate::sx::*;
use crate::t_hest::{gas, rand_gas};
use crate::tcommon::*;
use crate::Emit;
use acpi_tables::rqsc::*;

fn controller_type(n: u64) -> ControllerType {
    match n {
        0 => ControllerType::Capacity,
        1 => ControllerType::Bandwidth,
        _ => panic!("harness: bad controller type"),
    }
}

fn resource_type(n: u64) -> ResourceType {
    match n {
        0 => ResourceType::Cache,
        1 => ResourceType::Memory,
        _ => panic!("harness: bad resource type"),
    }
}

fn resource_id(s: &Sx) -> ResourceID {
    let r = s.list();
    let n = |i: usize| r[i].num();
    match n(0) {
        0 => ResourceID::Cache(raw(CacheResource::new(n(1) as u32))),
        1 => ResourceID::MemoryAffinityStructure(raw(MemoryAffinityStructureResource::new(n(1) as u32, n(2)))),
        2 => ResourceID::ACPIDevice(raw(ACPIDeviceResource::new(n(1), n(2) as u32))),
        3 => ResourceID::PCIDevice(raw(PCIDeviceResource::new(n(1) as u32))),
        4 => ResourceID::VendorSpecific(n(1) as u8, r[2].bytes()),
        _ => panic!("harness: bad resource id"),
    }
}

pub fn run(case: &Sx, out: &mut Vec<Ev>) {
    let c = case.list();
    let ctor = c[0].list();
    let (oem, tbl, rev) = hdr_args(ctor);
    let mut t = RQSC::new(oem, tbl, rev);
    for op in &c[1..] {
        if let Sx::A(_) = op {
            out.push(image(&t));
            continue;
        }
        let o = op.list();
        let n = |i: usize| o[i].num();
        match n(0) {
            1 => {
                let mut q = QoSController::new(controller_type(n(1)), gas(&o[2]), n(3) as u32, n(4) as u32, n(5) as u16);
                for r in o[6].list() {
                    let r = r.list();
                    q.add_resource(ResourceStructure::new(resource_type(r[0].num()), r[1].num() as u16, resource_id(&r[2])));
                }
                t.add_controller(q);
            }
            _ => panic!("harness: bad rqsc op"),
        }
        out.push(Ev::Num(0));
    }
}

// ---------------------------------------------------------------------------------------------- generators

thread_local! {
    // set by gen18: the C18 oracle demands a refusal whenever the reference is None, so its cases must leave the reference's
    // domain only through a length or count that does not fit its field (no standard type code, no short vendor payload)
    static STRICT: std::cell::Cell<bool> = std::cell::Cell::new(false);
}

fn vendor(rng: &mut Rng, n: usize) -> Sx {
    // type codes 4..255 are vendor codes; 0..3 (the standard codes) only now and then
    let strict = STRICT.with(|s| s.get());
    let ty = if !strict && rng.chance(1, 100) { rng.below(4) } else { rng.range(4, 255) };
    l(vec![a(4), a(ty), blist(&rng.bytes(n))])
}

fn rand_resource_id(rng: &mut Rng, kind: u64) -> Sx {
    match kind {
        0 => l(vec![a(0), a(rng.val(32))]),
        1 => l(vec![a(1), a(rng.val(32)), a(rng.val(64))]),
        2 => l(vec![a(2), a(rng.val(64)), a(rng.val(32))]),
        3 => l(vec![a(3), a(rng.val(32))]),
        _ => {
            // mostly payloads that cover ID1 and ID2 (12 bytes); every length 0..40 has its own cases in gen
            let strict = STRICT.with(|s| s.get());
            let n = if !strict && rng.chance(1, 100) { rng.below(12) } else { rng.range(12, 40) } as usize;
            vendor(rng, n)
        }
    }
}

fn rand_resource(rng: &mut Rng, kind: u64) -> Sx {
    l(vec![a(rng.below(2)), a(rng.val(16)), rand_resource_id(rng, kind)])
}

fn controller(rng: &mut Rng, resources: Vec<Sx>) -> Sx {
    l(vec![a(1), a(rng.below(2)), rand_gas(rng), a(rng.val(32)), a(rng.val(32)), a(rng.val(16)), l(resources)])
}

fn rand_controller(rng: &mut Rng, nres: u64) -> Sx {
    let res = (0..nres)
        .map(|_| {
            let k = rng.below(5);
            rand_resource(rng, k)
        })
        .collect();
    controller(rng, res)
}

fn smallest(rng: &mut Rng) -> Sx {
    controller(rng, vec![])
}

fn rand_ctor(rng: &mut Rng) -> Sx {
    l(rand_hdr(rng))
}

pub fn gen(tier: &str, rng: &mut Rng, emit: &mut Emit) {
    // empty history
    for _ in 0..4 {
        let c = rand_ctor(rng);
        emit.case(22, history(rng, c, vec![]));
    }
    // one controller: no resource; one resource of each kind; vendor payloads of every length 0..40
    for _ in 0..12 {
        let c = rand_ctor(rng);
        let op = smallest(rng);
        emit.case(22, history(rng, c, vec![op]));
    }
    for kind in 0..5u64 {
        for _ in 0..8 {
            let c = rand_ctor(rng);
            let r = rand_resource(rng, kind);
            let op = controller(rng, vec![r]);
            emit.case(22, history(rng, c, vec![op]));
        }
    }
    for n in 0..=40usize {
        for rtype in 0..2u64 {
            let c = rand_ctor(rng);
            let r = l(vec![a(rtype), a(rng.val(16)), vendor(rng, n)]);
            let op = controller(rng, vec![r]);
            emit.case(22, history(rng, c, vec![op]));
        }
    }
    // all ordered pairs of resource kinds inside one controller, and in two controllers
    for k1 in 0..5u64 {
        for k2 in 0..5u64 {
            let c = rand_ctor(rng);
            let r1 = rand_resource(rng, k1);
            let r2 = rand_resource(rng, k2);
            let op = controller(rng, vec![r1, r2]);
            emit.case(22, history(rng, c, vec![op]));
            let c = rand_ctor(rng);
            let r1 = rand_resource(rng, k1);
            let r2 = rand_resource(rng, k2);
            let ops = vec![controller(rng, vec![r1]), controller(rng, vec![r2])];
            emit.case(22, history(rng, c, ops));
        }
    }
    // controllers with 0..8 resources of all kinds; 0..70 resources now and then
    for nres in 0..=8u64 {
        for _ in 0..10 {
            let c = rand_ctor(rng);
            let op = rand_controller(rng, nres);
            emit.case(22, history(rng, c, vec![op]));
        }
    }
    for nres in [9u64, 16, 31, 50, 70] {
        let c = rand_ctor(rng);
        let op = rand_controller(rng, nres);
        emit.case(22, history(rng, c, vec![op]));
    }
    // a controller with 300 of the smallest resources (resource count 255 -> 256)
    {
        let c = rand_ctor(rng);
        let res = (0..300).map(|_| rand_resource(rng, 0)).collect();
        let op = controller(rng, res);
        emit.case(22, history(rng, c, vec![op]));
    }
    // histories of 0..20 controllers
    let n = if tier == "thorough" { 3000 } else { 200 };
    for i in 0..n {
        let c = rand_ctor(rng);
        let len = if i < 21 { i as u64 } else { rng.range(1, 20) };
        let ops = (0..len)
            .map(|_| {
                let nres = rng.below(9);
                rand_controller(rng, nres)
            })
            .collect();
        emit.case(22, history(rng, c, ops));
    }
    // 300 of the smallest controllers (controller count 255 -> 256)
    {
        let c = rand_ctor(rng);
        let ops = (0..300).map(|_| smallest(rng)).collect();
        emit.case(22, history(rng, c, ops));
    }
    // a table crossing 65535 -> 65536 bytes: four controllers of about 20000 bytes each
    {
        let c = rand_ctor(rng);
        let ops = (0..4)
            .map(|_| {
                let n = rng.range(19_000, 21_000) as usize;
                let r = l(vec![a(rng.below(2)), a(rng.val(16)), vendor(rng, n)]);
                let r2 = rand_resource(rng, 1);
                controller(rng, vec![r, r2])
            })
            .collect();
        emit.case(22, history(rng, c, ops));
    }
    // the largest controller that fits: 28 + 65507 = 65535 bytes
    {
        let c = rand_ctor(rng);
        let r = l(vec![a(0), a(0), vendor(rng, 65_507 - 8)]);
        let ops = vec![smallest(rng), controller(rng, vec![r]), smallest(rng)];
        emit.case(22, history(rng, c, ops));
    }
}

/// C18: the two 16-bit Length fields (resource, controller) at field maximum, maximum + 1 and far beyond.
/// (More than 65535 resources would need at least 65536 * 20 bytes, which the controller length refuses long before.)
pub fn gen18(tier: &str, rng: &mut Rng, emit: &mut Emit) {
    STRICT.with(|s| s.set(true));
    gen18_cases(tier, rng, emit);
    STRICT.with(|s| s.set(false));
}

fn gen18_cases(_tier: &str, rng: &mut Rng, emit: &mut Emit) {
    // one vendor-specific resource of n payload bytes: resource length 8 + n; 65527 -> 65535 (the resource is accepted, no
    // controller can hold it), 65528 -> 65536, 70000
    for n in [65_499usize, 65_500, 65_526, 65_527, 65_528, 70_000, 140_000] {
        for before in 0..2 {
            let c = rand_ctor(rng);
            let r = l(vec![a(rng.below(2)), a(rng.val(16)), vendor(rng, n)]);
            let mut ops = Vec::new();
            if before == 1 {
                ops.push(rand_controller(rng, 2));
            }
            ops.push(controller(rng, vec![r]));
            ops.push(smallest(rng));
            emit.case(22, history(rng, c, ops));
        }
    }
    // a controller whose accumulated length crosses 65535: 28 + k * (8 + n)
    for (k, n) in [(2usize, 32_745usize), (2, 32_746), (3, 21_827), (3, 21_828), (64, 1000), (65, 1000), (10, 6542), (10, 6543)] {
        let c = rand_ctor(rng);
        let res = (0..k).map(|_| l(vec![a(rng.below(2)), a(rng.val(16)), vendor(rng, n)])).collect();
        let ops = vec![smallest(rng), controller(rng, res), smallest(rng)];
        emit.case(22, history(rng, c, ops));
    }
    // exactly at the maximum with the smallest resources: 28 + 3275 * 20 = 65528; one more 20-byte resource does not fit
    for k in [3275usize, 3276] {
        let c = rand_ctor(rng);
        let res = (0..k).map(|_| rand_resource(rng, 0)).collect();
        let ops = vec![controller(rng, res)];
        emit.case(22, history(rng, c, ops));
    }
}
