//! component 15: HMAT.  Case vocabulary documented in coq/theories/Spec/HmatS.v.
use crate::sx::*;
use crate::tcommon::*;
use crate::Emit;
use acpi_tables::hmat::*;

fn loc_type(n: u64) -> LocalityType {
    match n {
        0 => LocalityType::Memory,
        1 => LocalityType::FirstLevelCache,
        2 => LocalityType::SecondLevelCache,
        3 => LocalityType::ThirdLevelCache,
        _ => panic!("harness: bad LocalityType"),
    }
}

fn data_type(n: u64) -> DataType {
    match n {
        0 => DataType::AccessLatency,
        1 => DataType::ReadLatency,
        2 => DataType::WriteLatency,
        3 => DataType::AccessBandwidth,
        4 => DataType::ReadBandwidth,
        5 => DataType::WriteBandwidth,
        _ => panic!("harness: bad DataType"),
    }
}

fn min_transfer(n: u64) -> MinTransferSize {
    match n {
        0 => MinTransferSize::SizeByteAligned,
        1 => MinTransferSize::Size64b,
        2 => MinTransferSize::Size128b,
        3 => MinTransferSize::Size256b,
        4 => MinTransferSize::Size512b,
        5 => MinTransferSize::Size1k,
        6 => MinTransferSize::Size2k,
        7 => MinTransferSize::Size4k,
        8 => MinTransferSize::Size8k,
        9 => MinTransferSize::Size16k,
        10 => MinTransferSize::Size32k,
        11 => MinTransferSize::Size64k,
        _ => panic!("harness: bad MinTransferSize"),
    }
}

fn cache_level(n: u64) -> CacheLevel {
    match n {
        0 => CacheLevel::None,
        1 => CacheLevel::One,
        2 => CacheLevel::Two,
        3 => CacheLevel::Three,
        _ => panic!("harness: bad CacheLevel"),
    }
}

fn associativity(n: u64) -> Associativity {
    match n {
        0 => Associativity::None,
        1 => Associativity::DirectMapped,
        2 => Associativity::Complex,
        _ => panic!("harness: bad Associativity"),
    }
}

fn write_policy(n: u64) -> WritePolicy {
    match n {
        0 => WritePolicy::None,
        1 => WritePolicy::Writeback,
        2 => WritePolicy::Writethrough,
        _ => panic!("harness: bad WritePolicy"),
    }
}

pub fn run(case: &Sx, out: &mut Vec<Ev>) {
    let c = case.list();
    let ctor = c[0].list();
    let (oem, tbl, rev) = hdr_args(ctor);
    let mut t = HMAT::new(oem, tbl, rev);
    for op in &c[1..] {
        if let Sx::A(_) = op {
            out.push(image(&t));
            continue;
        }
        let o = op.list();
        let n = |i: usize| o[i].num();
        match n(0) {
            1 => t.add_memory_proximity(raw(MemoryProximityDomain::new(n(1) as u32, n(2) as u32))),
            2 => {
                let mut s = SystemLocality::new(loc_type(n(1)), data_type(n(2)), min_transfer(n(3)), n(4), n(5) as usize, n(6) as usize);
                for b in o[7].list() {
                    let b = b.list();
                    match b[0].num() {
                        1 => s.non_sequential_transfers(),
                        2 => s.minimum_transfer_size_required(),
                        3 => s.set_initiator_value(b[1].num() as usize, b[2].num() as u32),
                        4 => s.set_target_value(b[1].num() as usize, b[2].num() as u32),
                        5 => s.set_entry_value(b[1].num() as usize, b[2].num() as usize, b[3].num() as u16),
                        _ => panic!("harness: bad locality builder"),
                    }
                }
                t.add_system_locality(s)
            }
            3 => {
                let mut m = MemorySideCache::new(
                    n(1) as u32,
                    n(2),
                    cache_level(n(3)),
                    cache_level(n(4)),
                    associativity(n(5)),
                    write_policy(n(6)),
                    n(7) as u16,
                );
                for h in o[8].list() {
                    m.add_smbios_handle(h.num() as u16);
                }
                t.add_memory_side_cache(m)
            }
            _ => panic!("harness: bad hmat op"),
        }
        out.push(Ev::Num(0));
    }
}

fn rand_ctor(rng: &mut Rng) -> Sx {
    l(rand_hdr(rng))
}

/// (2 lt dt mts unit ni nt builders)
fn locality(rng: &mut Rng, ni: u64, nt: u64, builders: Vec<Sx>) -> Sx {
    l(vec![a(2), a(rng.below(4)), a(rng.below(6)), a(rng.below(12)), a(rng.val(64)), a(ni), a(nt), l(builders)])
}

fn rand_loc_builder(rng: &mut Rng, ni: u64, nt: u64) -> Sx {
    let mut choices: Vec<u64> = vec![1, 2];
    if ni > 0 {
        choices.push(3);
    }
    if nt > 0 {
        choices.push(4);
    }
    if ni > 0 && nt > 0 {
        choices.push(5);
        choices.push(5);
    }
    match *rng.pick(&choices) {
        3 => l(vec![a(3), a(rng.below(ni)), a(rng.val(32))]),
        4 => l(vec![a(4), a(rng.below(nt)), a(rng.val(32))]),
        5 => l(vec![a(5), a(rng.below(ni)), a(rng.below(nt)), a(rng.val(16))]),
        b => l(vec![a(b)]),
    }
}

fn side_cache(rng: &mut Rng, handles: usize) -> Sx {
    l(vec![
        a(3),
        a(rng.val(32)),
        a(rng.val(64)),
        a(rng.below(4)),
        a(rng.below(4)),
        a(rng.below(3)),
        a(rng.below(3)),
        a(rng.val(16)),
        l((0..handles).map(|_| a(rng.val(16))).collect()),
    ])
}

pub fn rand_op(rng: &mut Rng, kind: u64) -> Sx {
    match kind {
        1 => l(vec![a(1), a(rng.val(32)), a(rng.val(32))]),
        2 => {
            let ni = rng.below(6);
            let nt = rng.below(6);
            let k = rng.below(13);
            let bs = (0..k).map(|_| rand_loc_builder(rng, ni, nt)).collect();
            locality(rng, ni, nt, bs)
        }
        _ => {
            let k = rng.below(9) as usize;
            side_cache(rng, k)
        }
    }
}

/// every cell of an ni x nt matrix assigned in random order, with `extra` repeated assignments mixed in
fn all_cells(rng: &mut Rng, ni: u64, nt: u64, extra: u64) -> Vec<Sx> {
    let mut cells: Vec<(u64, u64)> = Vec::new();
    for i in 0..ni {
        for j in 0..nt {
            cells.push((i, j));
        }
    }
    for _ in 0..extra {
        if ni > 0 && nt > 0 {
            cells.push((rng.below(ni), rng.below(nt)));
        }
    }
    // Fisher-Yates
    for k in (1..cells.len()).rev() {
        let j = rng.below(k as u64 + 1) as usize;
        cells.swap(k, j);
    }
    cells.into_iter().map(|(i, j)| l(vec![a(5), a(i), a(j), a(rng.val(16))])).collect()
}

/// all sequences of length <= n over the items
fn sequences(items: &[u64], n: usize) -> Vec<Vec<u64>> {
    let mut res: Vec<Vec<u64>> = vec![vec![]];
    let mut last: Vec<Vec<u64>> = vec![vec![]];
    for _ in 0..n {
        let mut next = Vec::new();
        for s in &last {
            for it in items {
                let mut t = s.clone();
                t.push(*it);
                next.push(t);
            }
        }
        res.extend(next.iter().cloned());
        last = next;
    }
    res
}

pub fn gen(tier: &str, rng: &mut Rng, emit: &mut Emit) {
    let kinds: Vec<u64> = vec![1, 2, 3];
    let thorough = tier == "thorough";
    // empty history
    for _ in 0..4 {
        let c = rand_ctor(rng);
        emit.case(15, history(rng, c, vec![]));
    }
    // each entry kind alone, all ordered pairs
    for k in &kinds {
        for _ in 0..8 {
            let c = rand_ctor(rng);
            let op = rand_op(rng, *k);
            emit.case(15, history(rng, c, vec![op]));
        }
    }
    for k1 in &kinds {
        for k2 in &kinds {
            for _ in 0..3 {
                let c = rand_ctor(rng);
                let ops = vec![rand_op(rng, *k1), rand_op(rng, *k2)];
                emit.case(15, history(rng, c, ops));
            }
        }
    }
    // homogeneous runs of the smallest entries (255 -> 256 entries) and a run crossing 65535 -> 65536 bytes
    for k in [1u64, 2, 3] {
        let c = rand_ctor(rng);
        let ops = (0..300)
            .map(|_| match k {
                1 => rand_op(rng, 1),
                2 => locality(rng, 0, 0, vec![]),
                _ => side_cache(rng, 0),
            })
            .collect();
        emit.case(15, history(rng, c, ops));
    }
    {
        let c = rand_ctor(rng);
        let ops = (0..1645).map(|_| rand_op(rng, 1)).collect(); // 1645 * 40 bytes > 65536
        emit.case(15, history(rng, c, ops));
    }
    // locality flag builders: every sequence of length <= 4 over the two builders (subsets, orders, repetitions)
    for seq in sequences(&[1, 2], 4) {
        let c = rand_ctor(rng);
        let bs = seq.iter().map(|b| l(vec![a(*b)])).collect();
        let ni = rng.below(3);
        let nt = rng.below(3);
        let op = locality(rng, ni, nt, bs);
        emit.case(15, history(rng, c, vec![op]));
    }
    // flag builders interleaved with value setters
    for _ in 0..40 {
        let c = rand_ctor(rng);
        let (ni, nt) = (rng.range(1, 4), rng.range(1, 4));
        let k = rng.below(10);
        let bs = (0..k).map(|_| rand_loc_builder(rng, ni, nt)).collect();
        let op = locality(rng, ni, nt, bs);
        emit.case(15, history(rng, c, vec![op]));
    }
    // matrices: shapes 1..5 x 1..5 (and the degenerate 0-sized ones), every cell assigned in random order with repeats
    for ni in 0..=5u64 {
        for nt in 0..=5u64 {
            for rep in 0..3u64 {
                let c = rand_ctor(rng);
                let mut bs = all_cells(rng, ni, nt, rep * 3);
                // initiator / target proximity domains
                for i in 0..ni {
                    if rng.chance(2, 3) {
                        bs.insert(rng.below(bs.len() as u64 + 1) as usize, l(vec![a(3), a(i), a(rng.val(32))]));
                    }
                }
                for j in 0..nt {
                    if rng.chance(2, 3) {
                        bs.insert(rng.below(bs.len() as u64 + 1) as usize, l(vec![a(4), a(j), a(rng.val(32))]));
                    }
                }
                let op = locality(rng, ni, nt, bs);
                emit.case(15, history(rng, c, vec![op]));
            }
        }
    }
    // exhaustive short assignment sequences on small shapes: every sequence of <= 2 assignments over all cells
    for (ni, nt) in [(1u64, 1u64), (1, 2), (2, 1), (2, 2), (2, 3), (3, 2)] {
        let cells: Vec<u64> = (0..ni * nt).collect();
        for seq in sequences(&cells, 2) {
            let c = rand_ctor(rng);
            let bs = seq.iter().map(|k| l(vec![a(5), a(k / nt), a(k % nt), a(rng.val(16))])).collect();
            let op = locality(rng, ni, nt, bs);
            emit.case(15, history(rng, c, vec![op]));
        }
    }
    // single row / single column
    for n in [1u64, 2, 3, 7, 12, 20] {
        for (ni, nt) in [(1, n), (n, 1)] {
            let c = rand_ctor(rng);
            let bs = all_cells(rng, ni, nt, 4);
            let op = locality(rng, ni, nt, bs);
            emit.case(15, history(rng, c, vec![op]));
        }
    }
    // random shapes up to 20 x 20, partial and repeated assignments
    let nshapes = if thorough { 300 } else { 40 };
    for _ in 0..nshapes {
        let c = rand_ctor(rng);
        let (ni, nt) = (rng.range(1, 20), rng.range(1, 20));
        let bs = if rng.chance(1, 3) {
            let extra = rng.below(20);
            all_cells(rng, ni, nt, extra)
        } else {
            let k = rng.below(2 * ni * nt + 1);
            (0..k).map(|_| l(vec![a(5), a(rng.below(ni)), a(rng.below(nt)), a(rng.val(16))])).collect()
        };
        let op = locality(rng, ni, nt, bs);
        emit.case(15, history(rng, c, vec![op]));
    }
    // out-of-range indices (refused): on the boundary, transposed on non-square shapes, far beyond
    for (ni, nt) in [(0u64, 0u64), (0, 3), (3, 0), (1, 1), (2, 3), (3, 2), (4, 4), (1, 5), (5, 1)] {
        let mut bad: Vec<Sx> = vec![
            l(vec![a(3), a(ni), a(rng.val(32))]),
            l(vec![a(4), a(nt), a(rng.val(32))]),
            l(vec![a(5), a(ni), a(0), a(rng.val(16))]),
            l(vec![a(5), a(0), a(nt), a(rng.val(16))]),
            l(vec![a(5), a(ni), a(nt), a(rng.val(16))]),
            l(vec![a(5), a(nt), a(ni), a(rng.val(16))]),
            l(vec![a(5), a(1u64 << 63), a(0), a(rng.val(16))]),
            l(vec![a(5), a(0), a(u64::MAX), a(rng.val(16))]),
            l(vec![a(3), a(u64::MAX), a(1)]),
            l(vec![a(4), a(1u64 << 32), a(1)]),
        ];
        if nt > 0 {
            bad.push(l(vec![a(5), a(ni), a(nt - 1), a(7)]));
        }
        if ni > 0 {
            bad.push(l(vec![a(5), a(ni - 1), a(nt), a(7)]));
        }
        if ni > 1 && nt > 1 {
            // a transposed in-range pair of the mirrored shape
            bad.push(l(vec![a(5), a(nt - 1), a(ni - 1), a(9)]));
        }
        for b in bad {
            let c = rand_ctor(rng);
            let mut bs = all_cells(rng, ni, nt, 0);
            let pos = rng.below(bs.len() as u64 + 1) as usize;
            bs.insert(pos, b);
            let pre = rand_op(rng, 1);
            let op = locality(rng, ni, nt, bs);
            emit.case(15, history(rng, c, vec![pre, op]));
        }
    }
    // memory side caches with 0..70 SMBIOS handles; every enum value
    for k in 0..=70usize {
        let c = rand_ctor(rng);
        let op = side_cache(rng, k);
        emit.case(15, history(rng, c, vec![op]));
    }
    for tl in 0..4u64 {
        for lv in 0..4u64 {
            for asc in 0..3u64 {
                for wp in 0..3u64 {
                    let c = rand_ctor(rng);
                    let op = l(vec![a(3), a(rng.val(32)), a(rng.val(64)), a(tl), a(lv), a(asc), a(wp), a(rng.val(16)), l(vec![a(rng.val(16))])]);
                    emit.case(15, history(rng, c, vec![op]));
                }
            }
        }
    }
    for lt in 0..4u64 {
        for dt in 0..6u64 {
            for mts in 0..12u64 {
                let c = rand_ctor(rng);
                let op = l(vec![a(2), a(lt), a(dt), a(mts), a(rng.val(64)), a(1), a(1), l(vec![l(vec![a(5), a(0), a(0), a(rng.val(16))])])]);
                emit.case(15, history(rng, c, vec![op]));
            }
        }
    }
    // value relations between successive assignments to one matrix cell: back to the default 0xFFFF, equal, 0, high bit
    for (ni, nt) in [(1u64, 1u64), (2, 3), (3, 2)] {
        for first in [5u64, 0, 0xFFFF, 0x8000] {
            for second in [0xFFFFu64, 0, 5, 0x7FFF, 0xFFFE] {
                let (i, j) = (ni - 1, nt - 1);
                let bs = vec![l(vec![a(5), a(i), a(j), a(first)]), l(vec![a(5), a(0), a(0), a(rng.val(16))]), l(vec![a(5), a(i), a(j), a(second)])];
                let c = rand_ctor(rng);
                let op = locality(rng, ni, nt, bs);
                emit.case(15, history(rng, c, vec![op]));
            }
        }
    }
    // random mixed histories
    let n = if thorough { 3000 } else { 200 };
    for _ in 0..n {
        let c = rand_ctor(rng);
        let len = match rng.below(3) {
            0 => rng.range(1, 6),
            1 => rng.range(1, 24),
            _ => rng.range(25, 120),
        };
        let ops = (0..len)
            .map(|_| {
                let k = *rng.pick(&kinds);
                rand_op(rng, k)
            })
            .collect();
        emit.case(15, history(rng, c, ops));
    }
}

/// C18: the SMBIOS handle count is a u16 field (hmat.rs MemorySideCache)
#[allow(dead_code)]
pub fn gen18(_tier: &str, rng: &mut Rng, emit: &mut Emit) {
    for k in [65_534usize, 65_535, 65_536, 65_537, 70_000, 131_072] {
        let c = rand_ctor(rng);
        let pre = rand_op(rng, 1);
        let op = side_cache(rng, k);
        emit.case(15, history(rng, c, vec![pre, op]));
    }
}
