//! component 19: VIOT.  Case vocabulary documented in coq/theories/Spec/ViotS.v.
use crate::sx::*;
use crate::tcommon::*;
use crate::Emit;
use acpi_tables::viot::*;
use acpi_tables::Aml;

/// TranslationHandle is opaque: embed it in a throw-away MmioEndpoint and read the output-node field back
fn handle_value(h: &TranslationHandle) -> u64 {
    let mut v = Vec::new();
    MmioEndpoint::new(0, 0, h).to_aml_bytes(&mut v);
    u16::from_le_bytes([v[16], v[17]]) as u64
}

fn pci(x: &Sx) -> PciDevice {
    let d = x.list();
    PciDevice::new(d[0].num() as u16, d[1].num() as u8, d[2].num() as u8, d[3].num() as u8)
}

fn href<'a>(x: &Sx, handles: &'a [Option<TranslationHandle>]) -> &'a TranslationHandle {
    let r = x.list();
    if r.len() != 2 || r[0].num() != 104 {
        panic!("harness: bad handle reference");
    }
    match handles.get(r[1].num() as usize) {
        Some(Some(h)) => h,
        _ => panic!("harness: reference to an op that returned no TranslationHandle"),
    }
}

pub fn run(case: &Sx, out: &mut Vec<Ev>) {
    let c = case.list();
    let ctor = c[0].list();
    let (oem, tbl, rev) = hdr_args(ctor);
    let mut t = VIOT::new(oem, tbl, rev);
    let mut handles: Vec<Option<TranslationHandle>> = Vec::new();
    for op in &c[1..] {
        if let Sx::A(_) = op {
            out.push(image(&t));
            continue;
        }
        let o = op.list();
        let n = |i: usize| o[i].num();
        match n(0) {
            1 => {
                let node = PciRange::new(pci(&o[1]), pci(&o[2]), href(&o[3], &handles));
                t.add_pci_range(node);
                handles.push(None);
                out.push(Ev::Num(0));
            }
            2 => {
                let node = MmioEndpoint::new(n(1) as u32, n(2), href(&o[3], &handles));
                t.add_mmio_endpoint(node);
                handles.push(None);
                out.push(Ev::Num(0));
            }
            3 => {
                let h = t.add_virtio_pci_iommu(VirtIoPciIommu::new(pci(&o[1])));
                out.push(Ev::Num(handle_value(&h)));
                handles.push(Some(h));
            }
            4 => {
                let h = t.add_virtio_mmio_iommu(VirtIoMmioIommu::new(n(1)));
                out.push(Ev::Num(handle_value(&h)));
                handles.push(Some(h));
            }
            _ => panic!("harness: bad viot op"),
        }
    }
}

// ------------------------------------------------------------------ generators

/// (segment bus device function); rarely a device / function the constructor refuses
fn rand_pci_dev(rng: &mut Rng, strict: bool) -> Sx {
    let dev = if !strict && rng.chance(1, 80) { rng.range(32, 255) } else { rng.below(32) };
    let func = if !strict && rng.chance(1, 80) { rng.range(8, 255) } else { rng.below(8) };
    l(vec![a(rng.val(16)), a(rng.val(8)), a(dev), a(func)])
}

fn hr(k: usize) -> Sx {
    l(vec![a(104), a(k as u64)])
}

/// a random op of the given kind; `iommus` = indices of the earlier translation nodes (non-empty for kinds 1 and 2)
pub fn rand_op(rng: &mut Rng, kind: u64, iommus: &[usize], strict: bool) -> Sx {
    match kind {
        1 => {
            let f = rand_pci_dev(rng, strict);
            let t = rand_pci_dev(rng, strict);
            l(vec![a(1), f, t, hr(*rng.pick(iommus))])
        }
        2 => l(vec![a(2), a(rng.val(32)), a(rng.val(64)), hr(*rng.pick(iommus))]),
        3 => l(vec![a(3), rand_pci_dev(rng, strict)]),
        _ => l(vec![a(4), a(rng.val(64))]),
    }
}

/// a history of the given kinds; an endpoint kind with no earlier translation node cannot be expressed through the
/// API (it needs a &TranslationHandle) and makes the history infeasible
fn build(rng: &mut Rng, kinds: &[u64], strict: bool) -> Option<Vec<Sx>> {
    let mut iommus: Vec<usize> = Vec::new();
    let mut ops = Vec::new();
    for (i, k) in kinds.iter().enumerate() {
        if *k <= 2 && iommus.is_empty() {
            return None;
        }
        ops.push(rand_op(rng, *k, &iommus, strict));
        if *k >= 3 {
            iommus.push(i);
        }
    }
    Some(ops)
}

fn rand_ctor(rng: &mut Rng) -> Sx {
    l(rand_hdr(rng))
}

fn emit_ops(rng: &mut Rng, emit: &mut Emit, ops: Vec<Sx>) {
    let c = rand_ctor(rng);
    emit.case(19, history(rng, c, ops));
}

/// ctor, observation, ops; observations every 1000 ops, after each of the ops that bring the table within 100 bytes of
/// the 16-bit limit, and after each of the last `tail` ops
fn history_tail(rng: &mut Rng, ops: Vec<Sx>, tail: usize) -> Sx {
    let n = ops.len();
    let mut v = vec![rand_ctor(rng), a(1)];
    let mut size = 48u64;
    for (i, op) in ops.into_iter().enumerate() {
        size += if op.list()[0].num() <= 2 { 24 } else { 16 };
        v.push(op);
        if i + tail >= n || i % 1000 == 999 || (size + 100 > 65_536 && size < 65_536 + 100) {
            v.push(a(1));
        }
    }
    l(v)
}

pub fn gen(tier: &str, rng: &mut Rng, emit: &mut Emit) {
    let c05 = false; // the C05 oracle now walks each image once: no need for sparser handle ops
    // empty history
    for _ in 0..4 {
        emit_ops(rng, emit, vec![]);
    }
    // each translation node kind alone; each endpoint kind behind each translation kind
    for k in [3u64, 4] {
        for _ in 0..8 {
            let ops = build(rng, &[k], false).unwrap();
            emit_ops(rng, emit, ops);
        }
        for e in [1u64, 2] {
            for _ in 0..8 {
                let ops = build(rng, &[k, e], false).unwrap();
                emit_ops(rng, emit, ops);
            }
        }
    }
    // PCI device boundary values of the asserting constructor, in the three places a PciDevice is taken
    for (dev, func) in [(0u64, 0u64), (31, 7), (32, 0), (0, 8), (31, 8), (255, 255), (32, 7)] {
        let bad = l(vec![a(rng.val(16)), a(rng.val(8)), a(dev), a(func)]);
        let good = rand_pci_dev(rng, true);
        emit_ops(rng, emit, vec![l(vec![a(3), bad.clone()])]);
        let io = l(vec![a(4), a(rng.val(64))]);
        emit_ops(rng, emit, vec![io.clone(), l(vec![a(1), bad.clone(), good.clone(), hr(0)])]);
        emit_ops(rng, emit, vec![io, l(vec![a(1), good, bad, hr(0)])]);
    }
    // every field of the BDF at its extremes
    for (bus, dev, func) in [(0u64, 0u64, 0u64), (255, 31, 7), (255, 0, 0), (0, 31, 0), (0, 0, 7), (1, 1, 1), (128, 16, 4)] {
        let d = l(vec![a(rng.val(16)), a(bus), a(dev), a(func)]);
        let e = l(vec![a(rng.val(16)), a(255 - bus), a(31 - dev), a(7 - func)]);
        emit_ops(rng, emit, vec![l(vec![a(3), d.clone()]), l(vec![a(1), d, e, hr(0)])]);
    }
    // all interleavings of the 4 node kinds for histories of length <= 4 (those the API can express)
    for len in 1..=4u32 {
        for code in 0..4u64.pow(len) {
            let mut kinds = Vec::new();
            let mut c = code;
            for _ in 0..len {
                kinds.push(c % 4 + 1);
                c /= 4;
            }
            if let Some(ops) = build(rng, &kinds, true) {
                emit_ops(rng, emit, ops);
            }
        }
    }
    // homogeneous runs of 300 entries of each kind (count 255 -> 256); endpoints behind one translation node
    for k in 1..=4u64 {
        let mut kinds = vec![k; 300];
        if k <= 2 {
            kinds[0] = 3 + (k - 1);
        } else if c05 {
            // the C05 oracle re-walks the image for every handle returned so far: keep the handle-returning ops sparse
            for (i, x) in kinds.iter_mut().enumerate() {
                if i % 30 != 0 {
                    *x = 1 + (i as u64 % 2);
                }
            }
        }
        let ops = build(rng, &kinds, true).unwrap();
        emit_ops(rng, emit, ops);
    }
    // runs approaching and crossing the 16-bit offset limit (65535 -> 65536 bytes): the table refuses to outgrow it
    {
        let mut kinds = vec![2u64; 2740]; // 48 + 16 + 24 * 2728 = 65536 + ...
        kinds[0] = 4;
        let ops = build(rng, &kinds, true).unwrap();
        emit_ops(rng, emit, ops);
    }
    if !c05 {
        let kinds = vec![4u64; 4100]; // 48 + 16 * 4093 = 65536
        let ops = build(rng, &kinds, true).unwrap();
        emit_ops(rng, emit, ops);
    }
    // random mixed histories, endpoints referring to random earlier translation nodes
    let n = if tier == "thorough" { 3000 } else { 200 };
    for _ in 0..n {
        let len = match rng.below(3) {
            0 => rng.range(1, 6),
            1 => rng.range(1, 24),
            _ => rng.range(25, 120),
        };
        let mut kinds: Vec<u64> = (0..len).map(|_| rng.range(1, 4)).collect();
        if kinds[0] <= 2 {
            kinds[0] += 2;
        }
        let ops = build(rng, &kinds, false).unwrap();
        emit_ops(rng, emit, ops);
    }
}

/// C18: histories whose total size reaches the 16-bit offset limit (SPEC_NOTES section D, viot.rs):
/// 48 + 16 a + 24 b = 65528 (largest table below 2^16), 65536, 65544, 65552 and beyond
pub fn gen18(_tier: &str, rng: &mut Rng, emit: &mut Emit) {
    // (a translation nodes of 16 bytes, then b endpoints of 24 bytes)
    for (na, nb) in [(4091usize, 1usize), (4092, 0), (4093, 0), (4092, 1), (4094, 0), (4100, 0), (1, 2727), (1, 2728), (1, 2729), (1, 2740), (2000, 1394), (2000, 1395), (2000, 1400)] {
        let mut kinds: Vec<u64> = (0..na).map(|i| 3 + (i as u64 % 2)).collect();
        kinds.extend((0..nb).map(|i| 1 + (i as u64 % 2)));
        let ops = build(rng, &kinds, true).unwrap();
        let h = history_tail(rng, ops, 4);
        emit.case(19, h);
    }
    // mixed order, endpoints interleaved with the translation nodes they refer to
    for total in [2730usize, 3000, 3500, 4096] {
        let mut kinds: Vec<u64> = (0..total).map(|_| rng.range(1, 4)).collect();
        kinds[0] = 3;
        let ops = build(rng, &kinds, true).unwrap();
        let h = history_tail(rng, ops, 3);
        emit.case(19, h);
    }
}
