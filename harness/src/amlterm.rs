//! components 40 / 41: trees of AML constructors.  Vocabulary: coq/theories/Spec/AmlTermS.v.
use crate::sx::*;
use crate::Emit;
use acpi_tables::aml::*;
use acpi_tables::{gas, Aml, AmlSink};

/// pre-serialised bytes standing for an object (Scope::raw returns a Vec<u8>)
struct Raw(Vec<u8>);
impl Aml for Raw {
    fn to_aml_bytes(&self, sink: &mut dyn AmlSink) {
        sink.vec(&self.0);
    }
}

fn leak<T: Aml + 'static>(x: T) -> &'static dyn Aml {
    Box::leak(Box::new(x))
}

fn text(s: &Sx) -> &'static str {
    Box::leak(String::from_utf8(s.bytes()).expect("harness: text must be UTF-8").into_boxed_str())
}

fn path(s: &Sx) -> Path {
    Path::new(text(s))
}

fn kids(s: &Sx) -> Vec<&'static dyn Aml> {
    s.list().iter().map(build).collect()
}

fn gas_space(n: u64) -> gas::AddressSpace {
    use gas::AddressSpace::*;
    match n {
        0 => SystemMemory,
        1 => SystemIo,
        2 => PciConfigSpace,
        3 => EmbeddedController,
        4 => Smbus,
        5 => SystemCmos,
        6 => PciBarTarget,
        7 => Ipmi,
        8 => GeneralPursposeIo,
        9 => GenericSerialBus,
        0xa => PlatformCommunicationsChannel,
        0xb => PlatformRuntimeMechanism,
        0x7f => FunctionalFixedHardware,
        _ => panic!("harness: bad GAS space"),
    }
}

fn gas_access(n: u64) -> gas::AccessSize {
    use gas::AccessSize::*;
    match n {
        0 => Undefined,
        1 => ByteAccess,
        2 => WordAccess,
        3 => DwordAccess,
        4 => QwordAccess,
        _ => panic!("harness: bad access size"),
    }
}

fn cacheable(n: u64) -> AddressSpaceCacheable {
    match n {
        0 => AddressSpaceCacheable::NotCacheable,
        1 => AddressSpaceCacheable::Cacheable,
        2 => AddressSpaceCacheable::WriteCombining,
        3 => AddressSpaceCacheable::PreFetchable,
        _ => panic!("harness: bad cacheable"),
    }
}

macro_rules! addr_space {
    ($t:ty, $o:expr) => {{
        let o = $o;
        let tr: Option<$t> = o[7].list().first().map(|x| x.num() as $t);
        let (min, max) = (o[5].num() as $t, o[6].num() as $t);
        match o[2].num() {
            0 => leak(AddressSpace::<$t>::new_memory(cacheable(o[3].num()), o[4].num() != 0, min, max, tr)),
            1 => leak(AddressSpace::<$t>::new_io(min, max, tr)),
            2 => leak(AddressSpace::<$t>::new_bus_number(min, max)),
            _ => panic!("harness: bad address space type"),
        }
    }};
}

pub fn build(s: &Sx) -> &'static dyn Aml {
    let o = s.list();
    let n = |i: usize| o[i].num();
    match n(0) {
        1 => leak(Zero {}),
        2 => leak(One {}),
        3 => leak(Ones {}),
        4 => match n(1) {
            8 => leak(n(2) as u8),
            16 => leak(n(2) as u16),
            32 => leak(n(2) as u32),
            64 => leak(n(2)),
            0 => leak(n(2) as usize),
            _ => panic!("harness: bad int type"),
        },
        5 => leak(text(&o[1])),
        6 => leak(String::from(text(&o[1]))),
        7 => leak(path(&o[1])),
        8 => leak(Name::new_field_name(text(&o[1]))),
        9 => leak(EISAName::new(text(&o[1]))),
        10 => leak(Uuid::new(text(&o[1]))),
        11 => leak(BufferData::new(o[1].bytes())),
        12 => leak(Arg(n(1) as u8)),
        13 => leak(Local(n(1) as u8)),
        20 => leak(Memory32Fixed::new(n(1) != 0, n(2) as u32, n(3) as u32)),
        21 => match n(1) {
            16 => addr_space!(u16, o),
            32 => addr_space!(u32, o),
            64 => addr_space!(u64, o),
            _ => panic!("harness: bad address space width"),
        },
        22 => leak(IO::new(n(1) as u16, n(2) as u16, n(3) as u8, n(4) as u8)),
        23 => leak(Interrupt::new(n(1) != 0, n(2) != 0, n(3) != 0, n(4) != 0, n(5) as u32)),
        24 => leak(Register::new(crate::tcommon::raw(gas::GAS::new(gas_space(n(1)), n(2) as u8, n(3) as u8, gas_access(n(4)), n(5))))),
        30 => {
            let a = build(&o[2]);
            match n(1) {
                0 => leak(ObjectType::new(a)),
                1 => leak(SizeOf::new(a)),
                2 => leak(Return::new(a)),
                3 => leak(DeRefOf::new(a)),
                4 => leak(BufferTerm::new(a)),
                5 => leak(VarPackageTerm::new(a)),
                _ => panic!("harness: bad op1"),
            }
        }
        31 => {
            let (a, b) = (build(&o[2]), build(&o[3]));
            match n(1) {
                0 => leak(Equal::new(a, b)),
                1 => leak(LessThan::new(a, b)),
                2 => leak(GreaterThan::new(a, b)),
                3 => leak(NotEqual::new(a, b)),
                4 => leak(GreaterEqual::new(a, b)),
                5 => leak(LessEqual::new(a, b)),
                6 => leak(Store::new(a, b)),
                7 => leak(Notify::new(a, b)),
                8 => leak(ToBuffer::new(a, b)),
                9 => leak(ToInteger::new(a, b)),
                _ => panic!("harness: bad op2"),
            }
        }
        32 => {
            let (t, a, b) = (build(&o[2]), build(&o[3]), build(&o[4]));
            match n(1) {
                0 => leak(Add::new(t, a, b)),
                1 => leak(Concat::new(t, a, b)),
                2 => leak(Subtract::new(t, a, b)),
                3 => leak(Multiply::new(t, a, b)),
                4 => leak(ShiftLeft::new(t, a, b)),
                5 => leak(ShiftRight::new(t, a, b)),
                6 => leak(And::new(t, a, b)),
                7 => leak(Nand::new(t, a, b)),
                8 => leak(Or::new(t, a, b)),
                9 => leak(Nor::new(t, a, b)),
                10 => leak(Xor::new(t, a, b)),
                11 => leak(ConcatRes::new(t, a, b)),
                12 => leak(Mod::new(t, a, b)),
                13 => leak(Index::new(t, a, b)),
                14 => leak(ToString::new(t, a, b)),
                15 => leak(CreateDWordField::new(t, a, b)),
                16 => leak(CreateQWordField::new(t, a, b)),
                _ => panic!("harness: bad op3"),
            }
        }
        33 => {
            let (a, b, c, d) = (build(&o[2]), build(&o[3]), build(&o[4]), build(&o[5]));
            match n(1) {
                0 => leak(CreateField::new(a, b, c, d)),
                1 => leak(Mid::new(a, b, c, d)),
                _ => panic!("harness: bad op4"),
            }
        }
        40 => {
            let p = path(&o[1]);
            leak(Name::new(p, build(&o[2])))
        }
        41 => leak(Device::new(path(&o[1]), kids(&o[2]))),
        42 => leak(Scope::new(path(&o[1]), kids(&o[2]))),
        43 => {
            let p = path(&o[1]);
            let mut bytes = Vec::new();
            for k in kids(&o[2]) {
                k.to_aml_bytes(&mut bytes);
            }
            leak(Raw(Scope::raw(p, bytes)))
        }
        44 => leak(Method::new(path(&o[1]), n(2) as u8, n(3) != 0, kids(&o[4]))),
        45 => leak(PowerResource::new(path(&o[1]), n(2) as u8, n(3) as u16, kids(&o[4]))),
        46 => {
            let space = match n(2) {
                0 => OpRegionSpace::SystemMemory,
                1 => OpRegionSpace::SystemIO,
                2 => OpRegionSpace::PCIConfig,
                3 => OpRegionSpace::EmbeddedControl,
                4 => OpRegionSpace::SMBus,
                5 => OpRegionSpace::SystemCMOS,
                6 => OpRegionSpace::PciBarTarget,
                7 => OpRegionSpace::IPMI,
                8 => OpRegionSpace::GeneralPurposeIO,
                9 => OpRegionSpace::GenericSerialBus,
                _ => panic!("harness: bad region space"),
            };
            leak(OpRegion::new(path(&o[1]), space, build(&o[3]), build(&o[4])))
        }
        47 => leak(Mutex::new(path(&o[1]), n(2) as u8)),
        48 => leak(Acquire::new(path(&o[1]), n(2) as u16)),
        49 => leak(Release::new(path(&o[1]))),
        50 => leak(MethodCall::new(path(&o[1]), kids(&o[2]))),
        51 => {
            let access = match n(2) {
                0 => FieldAccessType::Any,
                1 => FieldAccessType::Byte,
                2 => FieldAccessType::Word,
                3 => FieldAccessType::DWord,
                4 => FieldAccessType::QWord,
                5 => FieldAccessType::Buffer,
                _ => panic!("harness: bad access type"),
            };
            let lock = if n(3) == 0 { FieldLockRule::NoLock } else { FieldLockRule::Lock };
            let update = match n(4) {
                0 => FieldUpdateRule::Preserve,
                1 => FieldUpdateRule::WriteAsOnes,
                2 => FieldUpdateRule::WriteAsZeroes,
                _ => panic!("harness: bad update rule"),
            };
            let entries = o[5]
                .list()
                .iter()
                .map(|e| {
                    let e = e.list();
                    match e[0].num() {
                        0 => FieldEntry::Named(e[1].arr::<4>(), e[2].num() as usize),
                        _ => FieldEntry::Reserved(e[1].num() as usize),
                    }
                })
                .collect();
            leak(Field::new(path(&o[1]), access, lock, update, entries))
        }
        60 => leak(Package::new(kids(&o[1]))),
        61 => {
            // Default for PackageBuilder is PackageBuilder::new()
            let ks = kids(&o[1]);
            let mut pb = if ks.len() % 2 == 0 { PackageBuilder::new() } else { PackageBuilder::default() };
            for k in ks {
                pb.add_element(k);
            }
            leak(pb)
        }
        62 => leak(ResourceTemplate::new(kids(&o[1]))),
        63 => leak(If::new(build(&o[1]), kids(&o[2]))),
        64 => leak(Else::new(kids(&o[1]))),
        65 => leak(While::new(build(&o[1]), kids(&o[2]))),
        _ => panic!("harness: bad aml tag {}", n(0)),
    }
}

pub fn run(comp: u64, case: &Sx, out: &mut Vec<Ev>) {
    if comp == 40 {
        let t = build(case);
        out.push(crate::tcommon::image(t));
    } else {
        for c in case.list() {
            let t = build(c);
            out.push(crate::tcommon::image(t));
        }
    }
}

// ------------------------------------------------------------------ generators
const LEAD: &[u8] = b"ABCDEFGHIJKLNOPQRSTUVWXYZ_"; // no 'M': reserved for invoked methods
const TAIL: &[u8] = b"ABCDEFGHIJKLMNOPQRSTUVWXYZ_0123456789";

fn seg(rng: &mut Rng) -> Vec<u8> {
    let mut v = vec![*rng.pick(LEAD), *rng.pick(TAIL), *rng.pick(TAIL), *rng.pick(TAIL)];
    // `M<digit>xy` is the name space of the generated method calls (the digit is the arity): a bare reference to such a name
    // would be read by any AML parser as a call with that many arguments, so it is not a tree the byte stream can represent
    // (Props/CoherenceAml.v, Example judged_is_not_coherent); ordinary names never take that form
    if v[0] == b'M' && v[1].is_ascii_digit() {
        v[0] = b'N';
    }
    v
}

fn path_sx(rng: &mut Rng) -> Sx {
    let k = match rng.below(8) {
        0..=4 => 1,
        5 => 2,
        6 => 3,
        _ => rng.range(4, 6),
    };
    let mut s = Vec::new();
    if rng.chance(1, 3) {
        s.push(b'\\');
    }
    for i in 0..k {
        if i > 0 {
            s.push(b'.');
        }
        s.extend(seg(rng));
    }
    bytes(&s)
}

fn int_sx(rng: &mut Rng) -> Sx {
    let (ty, bits) = *rng.pick(&[(8u64, 8u32), (16, 16), (32, 32), (64, 64), (0, 64)]);
    l(vec![a(4), a(ty), a(rng.val(bits))])
}

fn str_sx(rng: &mut Rng) -> Sx {
    let n = rng.below(12) as usize;
    let s: Vec<u8> = (0..n).map(|_| rng.range(0x20, 0x7e) as u8).collect();
    l(vec![a(if rng.chance(1, 2) { 5 } else { 6 }), bytes(&s)])
}

fn eisa_sx(rng: &mut Rng) -> Sx {
    let up = b"ABCDEFGHIJKLMNOPQRSTUVWXYZ";
    let hx = b"0123456789ABCDEF";
    l(vec![a(9), bytes(&[*rng.pick(up), *rng.pick(up), *rng.pick(up), *rng.pick(hx), *rng.pick(hx), *rng.pick(hx), *rng.pick(hx)])])
}

fn uuid_sx(rng: &mut Rng) -> Sx {
    let hx = b"0123456789abcdefABCDEF";
    let s: Vec<u8> = (0..36).map(|i| if i == 8 || i == 13 || i == 18 || i == 23 { b'-' } else { *rng.pick(hx) }).collect();
    l(vec![a(10), bytes(&s)])
}

pub fn desc_sx(rng: &mut Rng) -> Sx {
    match rng.below(5) {
        0 => l(vec![a(20), a(rng.below(2)), a(rng.val(32)), a(rng.val(32))]),
        1 => {
            let (w, bits) = *rng.pick(&[(16u64, 16u32), (32, 32), (64, 64)]);
            let x = rng.val(bits);
            let y = rng.val(bits);
            let (mut min, max) = if x <= y { (x, y) } else { (y, x) };
            let full = if bits == 64 { u64::MAX } else { (1u64 << bits) - 1 };
            if min == 0 && max == full {
                min = 1; // the full range has an unrepresentable size (refusal cases are generated for C18)
            }
            let ty = rng.below(3);
            let tr = if rng.chance(1, 2) { l(vec![]) } else { l(vec![a(rng.val(bits))]) };
            l(vec![a(21), a(w), a(ty), a(rng.below(4)), a(rng.below(2)), a(min), a(max), tr])
        }
        2 => l(vec![a(22), a(rng.val(16)), a(rng.val(16)), a(rng.val(8)), a(rng.val(8))]),
        3 => l(vec![a(23), a(rng.below(2)), a(rng.below(2)), a(rng.below(2)), a(rng.below(2)), a(rng.val(32))]),
        _ => {
            let sp = *rng.pick(&[0u64, 1, 2, 3, 4, 5, 6, 7, 8, 9, 0xa, 0xb, 0x7f]);
            l(vec![a(24), a(sp), a(rng.val(8)), a(rng.val(8)), a(rng.below(5)), a(rng.val(64))])
        }
    }
}

struct Gen<'a> {
    rng: &'a mut Rng,
    budget: i64,
}

impl Gen<'_> {
    /// something that can stand as a TermArg / operand
    fn expr(&mut self, depth: u32) -> Sx {
        self.budget -= 1;
        let r = &mut *self.rng;
        if depth == 0 || self.budget <= 0 {
            return match r.below(9) {
                0 => l(vec![a(1)]),
                1 => l(vec![a(2)]),
                2 => l(vec![a(3)]),
                3 => int_sx(r),
                4 => str_sx(r),
                5 => l(vec![a(12), a(r.below(7))]),
                6 => l(vec![a(13), a(r.below(8))]),
                7 => l(vec![a(7), path_sx(r)]),
                _ => int_sx(r),
            };
        }
        match r.below(16) {
            0 => {
                let k = r.below(4);
                let x = self.expr(depth - 1);
                l(vec![a(30), a(if k == 2 { 1 } else { k }), x]) // ObjectType SizeOf DeRefOf
            }
            1 | 2 => {
                let k = r.below(6);
                let (x, y) = (self.expr(depth - 1), self.expr(depth - 1));
                l(vec![a(31), a(k), x, y])
            }
            3 | 4 | 5 => {
                let k = r.below(15);
                let (t, x, y) = (self.target(), self.expr(depth - 1), self.expr(depth - 1));
                l(vec![a(32), a(k), t, x, y])
            }
            6 => {
                let k = 8 + r.below(2);
                let (t, x) = (self.target(), self.expr(depth - 1));
                l(vec![a(31), a(k), t, x])
            }
            7 => {
                let (s, i, n, t) = (self.expr(depth - 1), self.expr(depth - 1), self.expr(depth - 1), self.target());
                l(vec![a(33), a(1), s, i, n, t])
            }
            8 => self.call(depth),
            9 => self.data(depth),
            10 => eisa_sx(r),
            _ => self.expr(0),
        }
    }
    fn target(&mut self) -> Sx {
        let r = &mut *self.rng;
        match r.below(4) {
            0 => l(vec![a(1)]), // ZERO as the null target
            1 => l(vec![a(13), a(r.below(8))]),
            2 => l(vec![a(12), a(r.below(7))]),
            _ => l(vec![a(7), path_sx(r)]),
        }
    }
    fn call(&mut self, depth: u32) -> Sx {
        let ar = self.rng.below(8);
        let mut name = vec![b'M', b'0' + ar as u8];
        name.push(*self.rng.pick(TAIL));
        name.push(*self.rng.pick(TAIL));
        let args = (0..ar).map(|_| self.expr(depth.saturating_sub(1))).collect();
        l(vec![a(50), bytes(&name), l(args)])
    }
    fn data(&mut self, depth: u32) -> Sx {
        self.budget -= 1;
        let r = &mut *self.rng;
        match r.below(9) {
            0 => {
                let n = match r.below(3) {
                    0 => r.below(4),
                    1 => r.below(70),
                    _ => r.below(300),
                } as usize;
                l(vec![a(11), bytes(&r.bytes(n))])
            }
            1 => uuid_sx(r),
            2 | 3 => {
                let n = r.below(6);
                let tag = if r.chance(1, 2) { 60 } else { 61 };
                let ks = (0..n).map(|_| self.elem(depth.saturating_sub(1))).collect();
                l(vec![a(tag), l(ks)])
            }
            4 => {
                let n = r.below(5);
                l(vec![a(62), l((0..n).map(|_| desc_sx(self.rng)).collect())])
            }
            5 => {
                let x = self.expr(0);
                l(vec![a(30), a(4), x]) // BufferTerm(size)
            }
            6 => {
                let x = self.expr(0);
                l(vec![a(30), a(5), x]) // VarPackageTerm
            }
            7 => str_sx(r),
            _ => int_sx(r),
        }
    }
    fn elem(&mut self, depth: u32) -> Sx {
        let r = &mut *self.rng;
        match r.below(6) {
            0 => l(vec![a(7), path_sx(r)]),
            1 => str_sx(r),
            2 if depth > 0 => self.data(depth),
            _ => int_sx(r),
        }
    }
    fn stmts(&mut self, depth: u32, max: u64) -> Sx {
        let n = self.rng.below(max + 1);
        l((0..n).map(|_| self.stmt(depth)).collect())
    }
    fn stmt(&mut self, depth: u32) -> Sx {
        self.budget -= 1;
        let d = depth.saturating_sub(1);
        let r = &mut *self.rng;
        if depth == 0 || self.budget <= 0 {
            return match r.below(4) {
                0 => {
                    let (n, v) = (self.target(), self.expr(0));
                    l(vec![a(31), a(6), n, v])
                }
                1 => l(vec![a(49), path_sx(r)]),
                2 => {
                    let x = self.expr(0);
                    l(vec![a(30), a(2), x])
                }
                _ => {
                    let (o, v) = (self.target(), self.expr(0));
                    l(vec![a(31), a(7), o, v])
                }
            };
        }
        match r.below(22) {
            0 | 1 => {
                let (n, v) = (self.target(), self.expr(d));
                l(vec![a(31), a(6), n, v])
            }
            2 => {
                let (p, k) = (self.expr(d), self.stmts(d, 3));
                l(vec![a(63), p, k])
            }
            3 => {
                let k = self.stmts(d, 3);
                l(vec![a(64), k])
            }
            4 => {
                let (p, k) = (self.expr(d), self.stmts(d, 3));
                l(vec![a(65), p, k])
            }
            5 => {
                let x = self.expr(d);
                l(vec![a(30), a(2), x])
            }
            6 => {
                let (p, v) = (path_sx(r), self.data(d));
                l(vec![a(40), p, v])
            }
            7 => {
                let (p, k) = (path_sx(r), self.stmts(d, 4));
                l(vec![a(41), p, k])
            }
            8 => {
                let tag = if r.chance(1, 2) { 42 } else { 43 };
                let (p, k) = (path_sx(r), self.stmts(d, 4));
                l(vec![a(tag), p, k])
            }
            9 => {
                let (p, ar, sr) = (path_sx(r), r.below(8), r.below(2));
                let k = self.stmts(d, 4);
                l(vec![a(44), p, a(ar), a(sr), k])
            }
            10 => {
                let (p, lv, od) = (path_sx(r), r.val(8), r.val(16));
                let k = self.stmts(d, 3);
                l(vec![a(45), p, a(lv), a(od), k])
            }
            11 => {
                let (p, sp) = (path_sx(r), r.below(10));
                let (o, n) = (self.expr(0), self.expr(0));
                l(vec![a(46), p, a(sp), o, n])
            }
            12 => l(vec![a(47), path_sx(r), a(r.val(8))]),
            13 => l(vec![a(48), path_sx(r), a(r.val(16))]),
            14 => l(vec![a(49), path_sx(r)]),
            15 => {
                let n = r.below(6);
                let es = (0..n)
                    .map(|_| {
                        let len = match r.below(4) {
                            0 => r.below(64),
                            1 => r.range(60, 70),
                            2 => r.range(4090, 4100),
                            _ => r.below(1 << 20),
                        };
                        if r.chance(1, 3) {
                            l(vec![a(1), a(len)])
                        } else {
                            l(vec![a(0), bytes(&seg(r)), a(len)])
                        }
                    })
                    .collect();
                l(vec![a(51), path_sx(r), a(r.below(6)), a(r.below(2)), a(r.below(3)), l(es)])
            }
            16 => {
                let (o, v) = (self.target(), self.expr(d));
                l(vec![a(31), a(7), o, v])
            }
            17 => {
                let (nm, s, bi, bn) = (l(vec![a(7), bytes(&seg(r))]), self.expr(0), self.expr(0), self.expr(0));
                l(vec![a(33), a(0), nm, s, bi, bn])
            }
            18 => {
                let k = 15 + r.below(2);
                let (t, x, y) = (l(vec![a(7), bytes(&seg(r))]), self.expr(0), self.expr(0));
                l(vec![a(32), a(k), t, x, y])
            }
            19 => self.call(d),
            _ => self.expr(d),
        }
    }
}

/// a framed object whose body has exactly `body` bytes (needs body >= 10): Scope(ABCD){ BufferData(k bytes) }
fn sized_scope(rng: &mut Rng, tag: u64, body: usize) -> Option<Sx> {
    // body = 4 (name) + 1 (BufferOp) + pl + szlen + k, for the inner buffer with pl / szlen depending on k
    for k in 0..=body {
        let szlen = if k < 2 { 1 } else if k < 256 { 2 } else if k < 65536 { 3 } else { 5 };
        let inner = szlen + k;
        let pl = if inner < 63 { 1 } else if inner < 4094 { 2 } else if inner < (1 << 20) - 3 { 3 } else { 4 };
        if 4 + 1 + pl + inner == body {
            let kid = l(vec![a(11), bytes(&rng.bytes(k))]);
            return Some(match tag {
                41 | 42 | 43 => l(vec![a(tag), bytes(b"ABCD"), l(vec![kid])]),
                44 => l(vec![a(44), bytes(b"ABCD"), a(0), a(0), l(vec![kid])]), // one more byte (flags)
                _ => l(vec![a(tag), bytes(b"ABCD"), l(vec![kid])]),
            });
        }
    }
    None
}

pub fn gen_c06(tier: &str, rng: &mut Rng, emit: &mut Emit) {
    gen_sized_templates(tier, rng, emit);
    let n = if tier == "thorough" { 100_000 } else { 3_000 };
    for i in 0..n {
        let depth = 1 + (i % 6) as u32;
        let mut g = Gen { rng, budget: 60 + (i % 7) as i64 * 40 };
        let t = match i % 4 {
            0 => g.stmt(depth),
            1 => g.expr(depth),
            2 => g.data(depth),
            _ => {
                let k = g.stmts(depth, 6);
                l(vec![a(42), path_sx(g.rng), k])
            }
        };
        emit.case(40, t);
    }
    // every framed constructor with body sizes on both sides of the PkgLength width boundaries
    let mut sizes: Vec<usize> = (10..=70).chain(4085..=4100).collect();
    if tier == "thorough" {
        sizes.extend((1usize << 20) - 8..=(1usize << 20) + 8);
    }
    for tag in [41u64, 42, 43, 44] {
        for &b in &sizes {
            if let Some(t) = sized_scope(rng, tag, b) {
                emit.case(40, t.clone());
                // nested 1-2 deep across a width change
                let outer = l(vec![a(41), bytes(b"OUT_"), l(vec![t.clone()])]);
                emit.case(40, l(vec![a(63), l(vec![a(2)]), l(vec![outer.clone()])]));
                emit.case(40, outer);
            }
        }
    }
    // directed: strings / buffers / packages / field lists at size boundaries inside If / While / Else / PowerResource / Method
    for k in (50usize..70).chain(4080..4100) {
        let body = l(vec![a(11), bytes(&rng.bytes(k))]);
        emit.case(40, l(vec![a(64), l(vec![body.clone()])]));
        emit.case(40, l(vec![a(65), l(vec![a(2)]), l(vec![body.clone()])]));
        emit.case(40, l(vec![a(45), bytes(b"PWR0"), a(1), a(2), l(vec![body.clone()])]));
        emit.case(40, l(vec![a(30), a(5), body.clone()]));
        emit.case(40, l(vec![a(60), l(vec![body])]));
    }
    // bodies across 65535 / 65536 bytes, where a Buffer's size integer changes from WordConst to DWordConst
    for k in 65_526usize..65_540 {
        let body = l(vec![a(11), bytes(&rng.bytes(k))]);
        emit.case(40, l(vec![a(42), bytes(b"BIG_"), l(vec![l(vec![a(40), bytes(b"BUF0"), body])])]));
    }
    for n in 5458usize..5464 {
        let ds = (0..n).map(|_| l(vec![a(20), a(rng.below(2)), a(rng.val(32)), a(rng.val(32))])).collect();
        emit.case(40, l(vec![a(40), bytes(b"_CRS"), l(vec![a(62), l(ds)])]));
    }
}

/// C07 at the call sites: one object of every length-prefixed kind, with a filler child swept across the sizes at which
/// the PkgLength (63/64, 4095/4096, 2^20) or an inner size field (255/256, 65535/65536) changes width
pub fn gen_c07_sites(tier: &str, rng: &mut Rng, emit: &mut Emit) {
    let mut sizes: Vec<usize> = (0..=80).chain(236..=262).chain(4060..=4100).chain(65_515..=65_545).collect();
    if tier == "thorough" {
        sizes.extend((1usize << 20) - 24..=(1usize << 20) + 4);
        sizes.extend((0..200).map(|_| rng.range(100, 300_000) as usize));
    }
    for &k in &sizes {
        let f = l(vec![a(11), bytes(&rng.bytes(k))]);
        let big = k > 5000;
        emit.case(40, f.clone());
        emit.case(40, l(vec![a(30), a(5), f.clone()]));
        emit.case(40, l(vec![a(41), bytes(b"ABCD"), l(vec![f.clone()])]));
        emit.case(40, l(vec![a(42), bytes(b"ABCD"), l(vec![f.clone()])]));
        emit.case(40, l(vec![a(43), bytes(b"ABCD"), l(vec![f.clone()])]));
        emit.case(40, l(vec![a(44), bytes(b"ABCD"), a(rng.below(8)), a(rng.below(2)), l(vec![f.clone()])]));
        emit.case(40, l(vec![a(60), l(vec![f.clone()])]));
        emit.case(40, l(vec![a(61), l(vec![f.clone()])]));
        if !big || tier == "thorough" || k % 4 == 0 {
            emit.case(40, l(vec![a(45), bytes(b"PWR0"), a(rng.val(8)), a(rng.val(16)), l(vec![f.clone()])]));
            emit.case(40, l(vec![a(63), l(vec![a(2)]), l(vec![f.clone()])]));
            emit.case(40, l(vec![a(64), l(vec![f.clone()])]));
            emit.case(40, l(vec![a(65), l(vec![a(2)]), l(vec![f.clone()])]));
            // two levels: the outer width changes a few bytes earlier than the inner one
            let inner = l(vec![a(42), bytes(b"IN__"), l(vec![f.clone()])]);
            emit.case(40, l(vec![a(41), bytes(b"OUT_"), l(vec![inner])]));
        }
    }
    // the named objects again with every shape of name (1, 2, 3 and more segments, rooted or not: the name's own prefix and
    // segment-count bytes are part of the body the PkgLength covers), across the 63/64 and 4095/4096 width changes
    let shapes: [&[u8]; 8] = [b"ABCD", b"\\ABCD", b"AB_0.CD_1", b"\\AB_0.CD_1", b"_SB_.PCI0.LPCB", b"\\_SB_.PCI0.LPCB",
        b"A___.B___.C___.D___.E___", b"\\A___.B___.C___.D___.E___.F___.G___.H___"];
    for (si, sh) in shapes.iter().enumerate() {
        let sizes2: Vec<usize> = (0..=70usize).chain(4040..=4100).collect();
        for &k in &sizes2 {
            if tier != "thorough" && k > 100 && (k + si) % 2 == 1 {
                continue;
            }
            let f = l(vec![a(11), bytes(&rng.bytes(k))]);
            emit.case(40, l(vec![a(41), bytes(sh), l(vec![f.clone()])]));
            emit.case(40, l(vec![a(42), bytes(sh), l(vec![f.clone()])]));
            emit.case(40, l(vec![a(43), bytes(sh), l(vec![f.clone()])]));
            emit.case(40, l(vec![a(44), bytes(sh), a(rng.below(8)), a(rng.below(2)), l(vec![f.clone()])]));
            emit.case(40, l(vec![a(45), bytes(sh), a(rng.val(8)), a(rng.val(16)), l(vec![f.clone()])]));
        }
    }
    emit.case(40, l(vec![a(30), a(4), l(vec![a(4), a(32), a(70_000)])]));
    emit.case(40, l(vec![a(30), a(4), l(vec![a(1)])]));
    // resource templates: n 12-byte descriptors plus j 8-byte ones, totals across 63, 255, 4095 and 65535 bytes
    for n in (0usize..8).chain(18..24).chain(336..345).chain(5455..5466) {
        for j in 0..3usize {
            let mut ds: Vec<Sx> = (0..n).map(|_| l(vec![a(20), a(rng.below(2)), a(rng.val(32)), a(rng.val(32))])).collect();
            for _ in 0..j {
                ds.push(l(vec![a(22), a(rng.val(16)), a(rng.val(16)), a(rng.val(8)), a(rng.val(8))]));
            }
            emit.case(40, l(vec![a(62), l(ds)]));
        }
    }
    gen_sized_templates(tier, rng, emit);
    // field lists: widths (exclusive form) across every width class, and entry counts carrying the list across 63 / 4095
    let mut widths: Vec<u64> = (0..=70).chain(4090..=4100).chain(65_530..=65_540).collect();
    widths.extend((1u64 << 20) - 4..=(1u64 << 20) + 4);
    widths.extend((1u64 << 28) - 6..(1u64 << 28));
    for _ in 0..200 {
        let bits = rng.range(1, 28);
        widths.push(rng.val(bits as u32));
    }
    for &w in &widths {
        let named = l(vec![a(0), bytes(b"FLD0"), a(w)]);
        let reserved = l(vec![a(1), a(w)]);
        for es in [vec![named.clone()], vec![reserved.clone()], vec![reserved.clone(), named.clone(), reserved.clone()]] {
            emit.case(40, l(vec![a(51), bytes(b"REG0"), a(rng.below(6)), a(rng.below(2)), a(rng.below(3)), l(es)]));
        }
    }
    for n in (0usize..16).chain(680..686) {
        let es: Vec<Sx> = (0..n).map(|i| if i % 3 == 2 { l(vec![a(1), a(rng.val(12))]) } else { l(vec![a(0), bytes(b"FLD1"), a(rng.val(6))]) }).collect();
        emit.case(40, l(vec![a(51), bytes(b"REG0"), a(1), a(0), a(0), l(es)]));
    }
}

/// a resource template whose Buffer payload (children + the 2-byte end tag) has exactly `payload` bytes: 9-byte extended
/// interrupt descriptors fix the residue mod 4, 12-byte Memory32Fixed and 8-byte IO descriptors fill the rest
fn sized_template(rng: &mut Rng, payload: usize) -> Option<Sx> {
    if payload < 2 { return None; }
    let body = payload - 2;
    for j9 in 0..4usize {
        if body < 9 * j9 { break; }
        let rest = body - 9 * j9;
        if rest % 4 != 0 || rest == 4 { continue; }
        // rest = 12 a + 8 b
        let (a12, b8) = match rest % 12 { 0 => (rest / 12, 0), 4 => ((rest - 16) / 12, 2), _ => ((rest - 8) / 12, 1) };
        let mut ds: Vec<Sx> = Vec::new();
        for _ in 0..a12 { ds.push(l(vec![a(20), a(rng.below(2)), a(rng.val(32)), a(rng.val(32))])); }
        for _ in 0..b8 { ds.push(l(vec![a(22), a(rng.val(16)), a(rng.val(16)), a(rng.val(8)), a(rng.val(8))])); }
        for _ in 0..j9 { ds.push(l(vec![a(23), a(rng.below(2)), a(rng.below(2)), a(rng.below(2)), a(rng.below(2)), a(rng.val(32))])); }
        // position of the odd-sized descriptors varies
        if !ds.is_empty() { let k = rng.below(ds.len() as u64) as usize; ds.rotate_left(k); }
        return Some(l(vec![a(62), l(ds)]));
    }
    None
}

/// every payload size in the neighbourhoods where the template's BufferSize integer (1/2, 255/256, 65535/65536) or its
/// PkgLength (63/64, 4095/4096, 2^20) changes width
fn gen_sized_templates(tier: &str, rng: &mut Rng, emit: &mut Emit) {
    let mut sizes: Vec<usize> = (2..=80).chain(240..=270).chain(4070..=4110).chain(65_520..=65_550).collect();
    if tier == "thorough" {
        sizes.extend((1usize << 20) - 16..=(1usize << 20) + 8);
        sizes.extend((0..300).map(|_| rng.range(2, 200_000) as usize));
    }
    for &n in &sizes {
        if let Some(t) = sized_template(rng, n) { emit.case(40, t); }
    }
}

pub fn gen_c10(tier: &str, rng: &mut Rng, emit: &mut Emit) {
    let n = if tier == "thorough" { 200_000 } else { 20_000 };
    for _ in 0..n {
        emit.case(40, desc_sx(rng));
    }
    // boundary values for each address-space width
    for (w, bits) in [(16u64, 16u32), (32, 32), (64, 64)] {
        let full = if bits == 64 { u64::MAX } else { (1u64 << bits) - 1 };
        for (min, max) in [(0, 0), (1, full), (0, full - 1), (full, full), (5, 5), (full - 1, full)] {
            for ty in 0..3 {
                for ca in 0..4 {
                    for rw in 0..2 {
                        emit.case(40, l(vec![a(21), a(w), a(ty), a(ca), a(rw), a(min), a(max), l(vec![])]));
                    }
                }
            }
        }
    }
    // templates of 0..40 descriptors
    let n = if tier == "thorough" { 20_000 } else { 1_500 };
    for i in 0..n {
        let k = i % 41;
        emit.case(40, l(vec![a(62), l((0..k).map(|_| desc_sx(rng)).collect())]));
    }
    // (the Spec's descriptor walk recomputes the remaining length at every item: quadratic in the payload, so the 2^20-byte
    // templates of the thorough tier are left to C06 / C07, whose oracles do not walk the payload; here payloads stay <= 100 KB)
    gen_sized_templates("quick", rng, emit);
    if tier == "thorough" {
        for _ in 0..40 {
            let n = rng.range(2, 100_000) as usize;
            if let Some(t) = sized_template(rng, n) { emit.case(40, t); }
        }
    }
    // descriptors whose own last bytes read 79 00 (the end tag's bytes) or 79 xx: as the only child, as the last child and in
    // front of others -- a template must frame them like any other descriptor
    for rep in 0..(if tier == "thorough" { 40 } else { 6 }) {
        let lo16 = rng.val(16);
        let lo48 = rng.val(48);
        let min16 = rng.below(0xff00);
        let min32 = rng.val(31);
        let min64 = rng.val(62);
        let ends79: Vec<Sx> = vec![
            l(vec![a(20), a(rng.below(2)), a(rng.val(32)), a(0x0079_0000 | lo16)]),
            l(vec![a(21), a(16), a(rng.below(3)), a(rng.below(4)), a(rng.below(2)), a(min16), a(min16 + 0x78), l(vec![])]),
            l(vec![a(21), a(32), a(rng.below(3)), a(rng.below(4)), a(rng.below(2)), a(min32), a(min32 + (0x0079_0000 | lo16) - 1), l(vec![])]),
            l(vec![a(21), a(64), a(rng.below(3)), a(rng.below(4)), a(rng.below(2)), a(min64), a(min64 + ((0x0079u64 << 48) | lo48) - 1), l(vec![])]),
            l(vec![a(22), a(rng.val(16)), a(rng.val(16)), a(0x79), a(0)]),
            l(vec![a(22), a(rng.val(16)), a(rng.val(16)), a(0x79), a(rng.val(8))]),
            l(vec![a(23), a(rng.below(2)), a(rng.below(2)), a(rng.below(2)), a(rng.below(2)), a(0x0079_0000 | lo16)]),
            l(vec![a(24), a(rng.below(10)), a(rng.val(8)), a(rng.val(8)), a(rng.below(5)), a((0x0079u64 << 48) | lo48)]),
            l(vec![a(20), a(rng.below(2)), a(0x0079_0000 | lo16), a(0x7900)]),
        ];
        for d in &ends79 {
            emit.case(40, d.clone());
            emit.case(40, l(vec![a(62), l(vec![d.clone()])]));
            for pre in 1..=(2 + rep % 3) {
                let mut ds: Vec<Sx> = (0..pre).map(|_| desc_sx(rng)).collect();
                ds.push(d.clone());
                emit.case(40, l(vec![a(62), l(ds.clone())]));
                ds.push(desc_sx(rng));
                emit.case(40, l(vec![a(62), l(ds)]));
            }
            emit.case(40, l(vec![a(62), l(vec![d.clone(), d.clone()])]));
        }
    }
    // directed total sizes around 63/64, 255/256, 4095/4096, 65535/65536 bytes: templates of 12-byte Memory32Fixed descriptors
    for total in (2usize..8).chain(18..24).chain(338..345).chain(5458..5464) {
        let ds = (0..total).map(|_| l(vec![a(20), a(rng.below(2)), a(rng.val(32)), a(rng.val(32))])).collect();
        emit.case(40, l(vec![a(62), l(ds)]));
    }
}

pub fn gen_c15(tier: &str, rng: &mut Rng, emit: &mut Emit) {
    // Scope::raw vs Scope::new with body sizes sweeping 0..4200 (and the neighbourhood of 2^20 in thorough)
    let mut sizes: Vec<usize> = (0..=4200).collect();
    if tier == "thorough" {
        sizes.extend((1usize << 20) - 16..=(1usize << 20) + 16);
    }
    for &k in &sizes {
        let kid = l(vec![a(11), bytes(&rng.bytes(k))]);
        let p = path_sx(rng);
        let ks = if k % 3 == 0 { l(vec![kid]) } else { l(vec![kid, int_sx(rng)]) };
        emit.case(41, l(vec![l(vec![a(42), p.clone(), ks.clone()]), l(vec![a(43), p, ks])]));
    }
    // random child lists from the C06 generator
    let n = if tier == "thorough" { 20_000 } else { 1_000 };
    for i in 0..n {
        let mut g = Gen { rng, budget: 80 };
        let ks = g.stmts(1 + (i % 4) as u32, 5);
        let p = path_sx(g.rng);
        emit.case(41, l(vec![l(vec![a(42), p.clone(), ks.clone()]), l(vec![a(43), p, ks])]));
    }
    // Package::new vs PackageBuilder, 0..255 elements (256 and more: both must refuse, judged by C18)
    for k in 0..=255usize {
        let mut g = Gen { rng, budget: 1000 };
        let es: Vec<Sx> = (0..k).map(|_| g.elem(1)).collect();
        emit.case(41, l(vec![l(vec![a(60), l(es.clone())]), l(vec![a(61), l(es)])]));
    }
    // beyond the one-byte element count both paths must refuse: either order, so that a path that emits where the other
    // refuses is seen whichever it is
    for k in [256usize, 257, 258, 300, 511, 512, 513, 65_536] {
        let mut g = Gen { rng, budget: 1000 };
        let es: Vec<Sx> = (0..k).map(|_| g.elem(0)).collect();
        emit.case(41, l(vec![l(vec![a(60), l(es.clone())]), l(vec![a(61), l(es.clone())])]));
        emit.case(41, l(vec![l(vec![a(61), l(es.clone())]), l(vec![a(60), l(es)])]));
    }
    // &str vs String, usize vs u64
    for _ in 0..500 {
        let n = rng.below(40) as usize;
        let s: Vec<u8> = (0..n).map(|_| rng.range(0x20, 0x7e) as u8).collect();
        emit.case(41, l(vec![l(vec![a(5), bytes(&s)]), l(vec![a(6), bytes(&s)])]));
    }
    for k in 0..64u32 {
        for d in [-2i64, -1, 0, 1, 2] {
            let v = (1u64 << k).wrapping_add(d as u64);
            emit.case(41, l(vec![l(vec![a(4), a(0), a(v)]), l(vec![a(4), a(64), a(v)])]));
        }
    }
    for _ in 0..2000 {
        let bits = rng.range(1, 64) as u32;
        let v = rng.next() >> (64 - bits);
        emit.case(41, l(vec![l(vec![a(4), a(0), a(v)]), l(vec![a(4), a(64), a(v)])]));
    }
}

/// C18: caller-controlled counts / sizes at field maximum, maximum + 1 and far beyond
pub fn gen_c18(tier: &str, rng: &mut Rng, emit: &mut Emit) {
    let int5 = || l(vec![a(4), a(8), a(5)]);
    // package element counts
    for k in [254usize, 255, 256, 257, 300, 511, 512, 1000, 65_536] {
        let es: Vec<Sx> = (0..k).map(|_| int5()).collect();
        emit.case(40, l(vec![a(60), l(es.clone())]));
        emit.case(40, l(vec![a(61), l(es.clone())]));
        // nested inside other objects: the refusal must propagate
        emit.case(40, l(vec![a(40), bytes(b"PKG0"), l(vec![a(60), l(es)])]));
    }
    // method argument counts
    for ar in [6u64, 7, 8, 9, 15, 16, 255] {
        emit.case(40, l(vec![a(44), bytes(b"MTH0"), a(ar), a(rng.below(2)), l(vec![int5()])]));
    }
    // Arg / Local indices
    for n in [6u64, 7, 8, 255] {
        emit.case(40, l(vec![a(12), a(n)]));
        emit.case(40, l(vec![a(13), a(n)]));
    }
    // name segment counts (also through component 4 in the C09 generator)
    for k in [254usize, 255, 256, 257, 300, 1000] {
        let mut s = Vec::new();
        for i in 0..k {
            if i > 0 {
                s.push(b'.');
            }
            s.extend(seg(rng));
        }
        emit.case(40, l(vec![a(7), bytes(&s)]));
        emit.case(40, l(vec![a(47), bytes(&s), a(1)]));
        emit.case(4, bytes(&s));
    }
    // address ranges whose size overflows the field width, or with min > max
    for (w, bits) in [(16u64, 16u32), (32, 32), (64, 64)] {
        let full = if bits == 64 { u64::MAX } else { (1u64 << bits) - 1 };
        for (min, max) in [(0u64, full), (1, 0), (full, 0), (5, 4), (0, full - 1), (1, full), (full, full), (full / 2 + 1, full / 2)] {
            for ty in 0..3u64 {
                emit.case(40, l(vec![a(21), a(w), a(ty), a(rng.below(4)), a(rng.below(2)), a(min), a(max), l(vec![])]));
            }
        }
        for _ in 0..200 {
            let (x, y) = (rng.val(bits), rng.val(bits));
            emit.case(40, l(vec![a(21), a(w), a(rng.below(3)), a(0), a(1), a(x), a(y), l(vec![])]));
        }
    }
    // field entry lengths (exclusive PkgLength form, no body needed)
    for len in [(1u64 << 28) - 2, (1 << 28) - 1, 1 << 28, (1 << 28) + 1, 1 << 32, 1 << 40, u64::MAX - 4, u64::MAX] {
        emit.case(40, l(vec![a(51), bytes(b"FLD0"), a(1), a(0), a(0), l(vec![l(vec![a(1), a(len)])])]));
        emit.case(40, l(vec![a(51), bytes(b"FLD0"), a(1), a(0), a(0), l(vec![l(vec![a(0), bytes(b"ABCD"), a(len)])])]));
    }
    // PkgLength through the hook, both forms
    for n in [(1u64 << 28) - 5, (1 << 28) - 4, (1 << 28) - 3, (1 << 28) - 1, 1 << 28, (1 << 28) + 1, 1 << 29, 1 << 32, 1 << 40, (1 << 62) + 5] {
        emit.case(2, l(vec![a(n), a(1)]));
        emit.case(2, l(vec![a(n), a(0)]));
    }
    if tier == "thorough" {
        // real bodies on both sides of the 3-byte / 4-byte PkgLength boundary (2^20); a real body of 2^28 bytes is not materialised:
        // it costs 20 GB per process in the extracted model -- that refusal is covered by the hook sweep above (the same
        // create_pkg_length every framed object calls, theorem c07_call_sites) and by theorem c18_framed_object
        for k in [(1usize << 20) - 16, 1 << 20, (1 << 22) + 3] {
            let big = l(vec![a(11), bytes(&vec![0xAB; k])]);
            emit.case(40, big.clone());
            emit.case(40, l(vec![a(42), bytes(b"ABCD"), l(vec![big])]));
        }
    }
}
