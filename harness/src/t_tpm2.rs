//! component 23: Tpm2.  Case vocabulary documented in coq/theories/Spec/Tpm2S.v.
use crate::sx::*;
use crate::tcommon::*;
use crate::Emit;
use acpi_tables::tpm2::*;

fn class(n: u64) -> PlatformClass {
    match n {
        0 => PlatformClass::Client,
        1 => PlatformClass::Server,
        _ => panic!("harness: bad PlatformClass"),
    }
}

fn start_method(n: u64) -> StartMethod {
    match n {
        1 => StartMethod::LegacyUse,
        2 => StartMethod::AcpiStart,
        6 => StartMethod::Mmio,
        7 => StartMethod::Crb,
        8 => StartMethod::CrbAndAcpiStart,
        11 => StartMethod::CrbAndSmcHvc,
        12 => StartMethod::I2cFifo,
        _ => panic!("harness: bad StartMethod"),
    }
}

pub fn run(case: &Sx, out: &mut Vec<Ev>) {
    let c = case.list();
    let ctor = c[0].list();
    let (oem, tbl, rev) = hdr_args(ctor);
    let mut t = Tpm2::new(oem, tbl, rev, class(ctor[3].num()), ctor[4].num(), start_method(ctor[5].num()));
    for op in &c[1..] {
        if let Sx::A(_) = op {
            out.push(image(&t));
            continue;
        }
        let o = op.list();
        match o[0].num() {
            1 => t.set_log_area(o[1].num() as u32, o[2].num()),
            _ => panic!("harness: bad tpm2 op"),
        }
        out.push(Ev::Num(0));
    }
}

const METHODS: [u64; 7] = [1, 2, 6, 7, 8, 11, 12];

fn rand_log(rng: &mut Rng) -> Sx {
    l(vec![a(1), a(rng.val(32)), a(rng.val(64))])
}

pub fn gen(tier: &str, rng: &mut Rng, emit: &mut Emit) {
    // every PlatformClass x StartMethod with zero, one and two calls of set_log_area (the second must be refused)
    let reps = if tier == "thorough" { 40 } else { 4 };
    for _ in 0..reps {
        for cls in 0..2u64 {
            for sm in METHODS {
                for calls in 0..3usize {
                    let mut c = rand_hdr(rng);
                    c.push(a(cls));
                    c.push(a(rng.val(64)));
                    c.push(a(sm));
                    let ops = (0..calls).map(|_| rand_log(rng)).collect();
                    emit.case(23, history(rng, l(c), ops));
                }
            }
        }
    }
    // boundary values of the log area
    for (len, base) in [(0u64, 0u64), (u32::MAX as u64, u64::MAX), (0x8070_6050, 0x4030_2010_f0e0_d0c0), (1, 0), (0, 1)] {
        let mut c = rand_hdr(rng);
        c.push(a(rng.below(2)));
        c.push(a(rng.val(64)));
        c.push(a(*rng.pick(&METHODS)));
        emit.case(23, history(rng, l(c), vec![l(vec![a(1), a(len), a(base)])]));
    }
    // three calls: the refusal ends the history
    {
        let mut c = rand_hdr(rng);
        c.push(a(1));
        c.push(a(rng.val(64)));
        c.push(a(7));
        let ops = (0..3).map(|_| rand_log(rng)).collect();
        emit.case(23, history(rng, l(c), ops));
    }
}
