//! STUB component for tpm2 -- to be written
use crate::sx::*;
use crate::Emit;

pub fn run(_case: &Sx, _out: &mut Vec<Ev>) {
    panic!("harness: component tpm2 not implemented")
}

pub fn gen(_tier: &str, _rng: &mut Rng, _emit: &mut Emit) {}
