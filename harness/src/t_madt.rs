//! component 12: MADT.  Case vocabulary documented in coq/theories/Spec/MadtS.v.
use crate::sx::*;
use crate::tcommon::*;
use crate::Emit;
use acpi_tables::madt::*;

fn status(n: u64) -> EnabledStatus {
    match n {
        0 => EnabledStatus::Disabled,
        1 => EnabledStatus::Enabled,
        2 => EnabledStatus::DisabledOnlineCapable,
        _ => panic!("harness: bad EnabledStatus"),
    }
}

fn trigger(n: u64) -> Trigger {
    if n == 1 {
        Trigger::Edge
    } else {
        Trigger::Level
    }
}

pub fn run(case: &Sx, out: &mut Vec<Ev>) {
    let c = case.list();
    let ctor = c[0].list();
    let (oem, tbl, rev) = hdr_args(ctor);
    let lic = match ctor[3].list() {
        [] => LocalInterruptController::Riscv,
        [x] => LocalInterruptController::Address(x.num() as u32),
        _ => panic!("harness: bad lic"),
    };
    let mut t = MADT::new(oem, tbl, rev, lic);
    for op in &c[1..] {
        if let Sx::A(_) = op {
            out.push(image(&t));
            continue;
        }
        let o = op.list();
        let n = |i: usize| o[i].num();
        match n(0) {
            1 => t.add_structure(raw(ProcessorLocalApic::new(n(1) as u8, n(2) as u8, status(n(3))))),
            2 => t.add_structure(raw(IoApic::new(n(1) as u8, n(2) as u32, n(3) as u32))),
            3 => {
                let mut g = Gicc::new(status(n(1)));
                for s in o[2].list() {
                    let s = s.list();
                    let v = s[1].num();
                    g = match s[0].num() {
                        1 => g.cpu_interface_number(v as u32),
                        2 => g.acpi_processor_uid(v as u32),
                        3 => g.parking_protocol_version(v as u32),
                        4 => g.parked_address(v),
                        5 => g.base_address(v),
                        6 => g.virtual_registers(v),
                        7 => g.control_block_registers(v),
                        8 => g.redistributor_base(v),
                        9 => g.mpidr(v),
                        10 => g.power_efficiency_class(v as u8),
                        11 => g.overflow_interrupt(v as u16),
                        12 => g.trbe_interrupt(v as u16),
                        13 => g.performance_interrupt(v as u32, trigger(s[2].num())),
                        14 => g.maintenance_interrupt(v as u32, trigger(s[2].num())),
                        _ => panic!("harness: bad gicc setter"),
                    };
                }
                t.add_structure(raw(g))
            }
            4 => {
                let ver = match n(3) {
                    0 => GicVersion::Unspecified,
                    1 => GicVersion::GICv1,
                    2 => GicVersion::GICv2,
                    3 => GicVersion::GICv3,
                    4 => GicVersion::GICv4,
                    _ => panic!("harness: bad gic version"),
                };
                t.add_structure(raw(Gicd::new(n(1) as u32, n(2), ver)))
            }
            5 => {
                let mut g = GicMsi::new();
                for s in o[1].list() {
                    let s = s.list();
                    g = match s[0].num() {
                        1 => g.gic_msi_frame_id(s[1].num() as u32),
                        2 => g.base_addr(s[1].num()),
                        3 => g.spi_count_and_base(s[1].num() as u16, s[2].num() as u16),
                        _ => panic!("harness: bad msi setter"),
                    };
                }
                t.add_structure(raw(g))
            }
            6 => t.add_structure(raw(Gicr::new(n(1), n(2) as u32))),
            7 => t.add_structure(raw(GicIts::new(n(1) as u32, n(2)))),
            8 => {
                let hs = match n(1) {
                    0 => HartStatus::Disabled,
                    1 => HartStatus::Enabled,
                    2 => HartStatus::OnlineCapable,
                    _ => panic!("harness: bad hart status"),
                };
                t.add_structure(raw(RINTC::new(hs, n(2), n(3) as u32, n(4) as u32, n(5), n(6) as u32)))
            }
            9 => t.add_structure(raw(IMSIC::new(n(1) as u16, n(2) as u16, n(3) as u8, n(4) as u8, n(5) as u8, n(6) as u8))),
            10 => t.add_imsic(raw(IMSIC::new(n(1) as u16, n(2) as u16, n(3) as u8, n(4) as u8, n(5) as u8, n(6) as u8))),
            11 => t.add_structure(raw(APLIC::new(n(1) as u8, o[2].arr::<8>(), n(3) as u16, n(4) as u32, n(5), n(6) as u32, n(7) as u16))),
            12 => t.add_structure(raw(PLIC::new(n(1) as u8, o[2].arr::<8>(), n(3) as u16, n(4) as u16, n(5) as u32, n(6), n(7) as u32))),
            _ => panic!("harness: bad madt op"),
        }
        out.push(Ev::Num(0));
    }
}

fn rand_setters(rng: &mut Rng, kinds: &[(u64, u32)], max: u64) -> Sx {
    let k = rng.below(max + 1);
    l((0..k)
        .map(|_| {
            let (id, bits) = *rng.pick(kinds);
            match id {
                13 | 14 => l(vec![a(id), a(rng.val(32)), a(rng.below(2))]),
                _ => l(vec![a(id), a(rng.val(bits))]),
            }
        })
        .collect())
}

const GICC_SETTERS: [(u64, u32); 14] =
    [(1, 32), (2, 32), (3, 32), (4, 64), (5, 64), (6, 64), (7, 64), (8, 64), (9, 64), (10, 8), (11, 16), (12, 16), (13, 32), (14, 32)];

pub fn rand_op(rng: &mut Rng, kind: u64) -> Sx {
    match kind {
        1 => l(vec![a(1), a(rng.val(8)), a(rng.val(8)), a(rng.below(3))]),
        2 => l(vec![a(2), a(rng.val(8)), a(rng.val(32)), a(rng.val(32))]),
        3 => l(vec![a(3), a(rng.below(3)), rand_setters(rng, &GICC_SETTERS, 18)]),
        4 => l(vec![a(4), a(rng.val(32)), a(rng.val(64)), a(rng.below(5))]),
        5 => {
            let k = rng.below(5);
            l(vec![
                a(5),
                l((0..k)
                    .map(|_| match rng.below(3) {
                        0 => l(vec![a(1), a(rng.val(32))]),
                        1 => l(vec![a(2), a(rng.val(64))]),
                        _ => l(vec![a(3), a(rng.val(16)), a(rng.val(16))]),
                    })
                    .collect()),
            ])
        }
        6 => l(vec![a(6), a(rng.val(64)), a(rng.val(32))]),
        7 => l(vec![a(7), a(rng.val(32)), a(rng.val(64))]),
        8 => l(vec![a(8), a(rng.below(3)), a(rng.val(64)), a(rng.val(32)), a(rng.val(32)), a(rng.val(64)), a(rng.val(32))]),
        9 | 10 => l(vec![a(kind), a(rng.val(16)), a(rng.val(16)), a(rng.val(8)), a(rng.val(8)), a(rng.val(8)), a(rng.val(8))]),
        11 => l(vec![a(11), a(rng.val(8)), blist(&rng.bytes(8)), a(rng.val(16)), a(rng.val(32)), a(rng.val(64)), a(rng.val(32)), a(rng.val(16))]),
        _ => l(vec![a(12), a(rng.val(8)), blist(&rng.bytes(8)), a(rng.val(16)), a(rng.val(16)), a(rng.val(32)), a(rng.val(64)), a(rng.val(32))]),
    }
}

fn rand_ctor(rng: &mut Rng) -> Sx {
    let mut c = rand_hdr(rng);
    c.push(if rng.chance(1, 2) { l(vec![]) } else { l(vec![a(rng.val(32))]) });
    l(c)
}

pub fn gen(tier: &str, rng: &mut Rng, emit: &mut Emit) {
    let kinds: Vec<u64> = (1..=12).collect();
    // empty history
    for _ in 0..4 {
        let c = rand_ctor(rng);
        emit.case(12, history(rng, c, vec![]));
    }
    // each entry kind alone, and all ordered pairs
    for k in &kinds {
        for _ in 0..6 {
            let c = rand_ctor(rng);
            let op = rand_op(rng, *k);
            emit.case(12, history(rng, c, vec![op]));
        }
    }
    for k1 in &kinds {
        for k2 in &kinds {
            let c = rand_ctor(rng);
            let ops = vec![rand_op(rng, *k1), rand_op(rng, *k2)];
            emit.case(12, history(rng, c, ops));
        }
    }
    // homogeneous runs crossing 255 -> 256 entries and 65535 -> 65536 bytes
    for k in [1u64, 2, 6, 3] {
        let c = rand_ctor(rng);
        let ops = (0..300).map(|_| rand_op(rng, k)).collect();
        emit.case(12, history(rng, c, ops));
    }
    {
        let c = rand_ctor(rng);
        let ops = (0..820).map(|_| rand_op(rng, 3)).collect(); // 820 * 82 bytes > 65536
        emit.case(12, history(rng, c, ops));
    }
    if tier == "thorough" {
        let c = rand_ctor(rng);
        let ops = (0..65_540).map(|_| rand_op(rng, 1)).collect();
        emit.case(12, history(rng, c, ops));
    }
    let n = if tier == "thorough" { 3000 } else { 200 };
    for _ in 0..n {
        let c = rand_ctor(rng);
        let len = match rng.below(3) {
            0 => rng.range(1, 6),
            1 => rng.range(1, 24),
            _ => rng.range(25, 120),
        };
        let ops = (0..len).map(|_| {
            let k = *rng.pick(&kinds);
            rand_op(rng, k)
        }).collect();
        emit.case(12, history(rng, c, ops));
    }
}
