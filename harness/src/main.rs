//! Correspondence harness: drives the real acpi_tables crate (path = /repo) on generated or replayed
//! cases and prints "<component>\t<case>\t<observations>" lines for the extracted model to judge.
mod cksum;
mod sx;

use std::io::{BufRead, Write};
use sx::*;

fn run_component(comp: u64, case: &Sx) -> Vec<Ev> {
    let r = std::panic::catch_unwind(std::panic::AssertUnwindSafe(|| match comp {
        1 => cksum::run(case),
        _ => panic!("harness: unknown component {}", comp),
    }));
    match r {
        Ok(v) => v,
        Err(_) => vec![Ev::Panic],
    }
}

fn emit_line(out: &mut dyn Write, comp: u64, case: &Sx, evs: &[Ev]) {
    let mut s = String::with_capacity(256);
    use std::fmt::Write as _;
    let _ = write!(s, "{}\t", comp);
    case.write(&mut s);
    s.push('\t');
    write_events(evs, &mut s);
    s.push('\n');
    out.write_all(s.as_bytes()).unwrap();
}

/// What a generation run covered: written to $HARNESS_STATS for the evidence file.
#[derive(Default)]
struct Stats {
    cases: u64,
    hashes: std::collections::HashSet<u64>,
    nontrivial_hashes: std::collections::HashSet<u64>,
    per_comp: std::collections::BTreeMap<u64, u64>,
    panics: u64,
    events: u64,
    max_case_len: usize,
    samples: Vec<String>,
    classes: std::collections::BTreeMap<String, u64>,
}

fn nontrivial(prop: u32, _comp: u64, case: &Sx) -> bool {
    match prop {
        _ => match case {
            Sx::L(v) => !v.is_empty(),
            _ => true,
        },
    }
}

impl Stats {
    fn record(&mut self, prop: u32, comp: u64, case: &Sx, evs: &[Ev]) {
        use std::hash::{Hash, Hasher};
        let text = case.show();
        let mut h = std::collections::hash_map::DefaultHasher::new();
        comp.hash(&mut h);
        text.hash(&mut h);
        let hv = h.finish();
        self.cases += 1;
        self.hashes.insert(hv);
        if nontrivial(prop, comp, case) {
            self.nontrivial_hashes.insert(hv);
        }
        *self.per_comp.entry(comp).or_insert(0) += 1;
        if evs.iter().any(|e| matches!(e, Ev::Panic)) {
            self.panics += 1;
        }
        self.events += evs.len() as u64;
        self.max_case_len = self.max_case_len.max(text.len());
        // keep a few short samples, spread over the run
        if self.samples.len() < 6 && text.len() < 400 && (self.cases % 97 == 1 || self.samples.is_empty()) {
            self.samples.push(format!("{} {}", comp, text));
        }
        for c in crate::classify(prop, comp, case, evs) {
            *self.classes.entry(c).or_insert(0) += 1;
        }
    }
    fn to_json(&self) -> String {
        let pc: Vec<String> = self.per_comp.iter().map(|(k, v)| format!("\"{}\": {}", k, v)).collect();
        let cl: Vec<String> = self.classes.iter().map(|(k, v)| format!("\"{}\": {}", k, v)).collect();
        let sm: Vec<String> = self.samples.iter().map(|s| format!("\"{}\"", s)).collect();
        format!(
            "{{\"cases\": {}, \"distinct\": {}, \"distinct_nontrivial\": {}, \"panics\": {}, \"events\": {}, \"max_case_len\": {}, \"per_component\": {{{}}}, \"classes\": {{{}}}, \"samples\": [{}]}}",
            self.cases,
            self.hashes.len(),
            self.nontrivial_hashes.len(),
            self.panics,
            self.events,
            self.max_case_len,
            pc.join(", "),
            cl.join(", "),
            sm.join(", ")
        )
    }
}

/// input-distribution classes recorded in the evidence (operation kinds, boundary classes, ...)
fn classify(_prop: u32, comp: u64, case: &Sx, _evs: &[Ev]) -> Vec<String> {
    let mut v = Vec::new();
    match comp {
        1 => {
            for op in case.list() {
                v.push(format!("cksum.op{}", op.list()[0].num()));
            }
        }
        _ => {}
    }
    v
}

fn main() {
    std::panic::set_hook(Box::new(|info| {
        // harness bugs must be loud; crate refusals are silent
        let msg = format!("{}", info);
        if msg.contains("harness:") {
            eprintln!("{}", msg);
        }
    }));
    let args: Vec<String> = std::env::args().collect();
    let stdout = std::io::stdout();
    let mut out = std::io::BufWriter::with_capacity(1 << 20, stdout.lock());
    match args.get(1).map(|s| s.as_str()) {
        Some("gen") => {
            // gen <prop> <tier> <seed> [shard nshards]
            let prop: u32 = args[2].trim_start_matches('C').parse().unwrap();
            let tier = args[3].as_str();
            let seed: u64 = args[4].parse().unwrap();
            let shard: u64 = args.get(5).map(|s| s.parse().unwrap()).unwrap_or(0);
            let nshards: u64 = args.get(6).map(|s| s.parse().unwrap()).unwrap_or(1);
            let mut rng = Rng(seed ^ 0xC0FF_EE00 ^ ((prop as u64) << 32));
            let mut stats = Stats::default();
            let mut emit = |comp: u64, case: Sx| {
                // shard by content, so that equal cases meet in one shard and distinct counts are exact
                let mine = nshards == 1 || {
                    use std::hash::{Hash, Hasher};
                    let mut h = std::collections::hash_map::DefaultHasher::new();
                    comp.hash(&mut h);
                    case.show().hash(&mut h);
                    (h.finish() >> 7) % nshards == shard
                };
                if mine {
                    let evs = run_component(comp, &case);
                    stats.record(prop, comp, &case, &evs);
                    emit_line(&mut out, comp, &case, &evs);
                }
            };
            match prop {
                17 => cksum::gen(tier, &mut rng, &mut emit),
                _ => panic!("harness: no generator for property {}", prop),
            }
            if let Ok(path) = std::env::var("HARNESS_STATS") {
                std::fs::write(path, stats.to_json()).unwrap();
            }
        }
        Some("replay") => {
            // replay: reads "<comp>\t<case>[\t...]" lines on stdin
            let stdin = std::io::stdin();
            for line in stdin.lock().lines() {
                let line = line.unwrap();
                if line.is_empty() || line.starts_with('%') {
                    continue;
                }
                let mut it = line.split('\t');
                let comp: u64 = it.next().unwrap().parse().unwrap();
                let case = Sx::parse(it.next().unwrap());
                let evs = run_component(comp, &case);
                emit_line(&mut out, comp, &case, &evs);
            }
        }
        _ => {
            eprintln!("usage: acpi-harness gen <prop> <tier> <seed> [shard nshards] | replay");
            std::process::exit(2);
        }
    }
    out.flush().unwrap();
}
