//! Correspondence harness: drives the real acpi_tables crate (path = /repo) on generated or replayed
//! cases and prints "<component>\t<case>\t<observations>" lines for the extracted model to judge.
mod amlterm;
mod cksum;
mod kernels;
mod sx;
mod t_xsdt;
mod t_mcfg;
mod t_madt;
mod t_srat;
mod t_slit;
mod t_hmat;
mod t_pptt;
mod t_rhct;
mod t_rimt;
mod t_viot;
mod t_cedt;
mod t_hest;
mod t_rqsc;
mod t_tpm2;
mod t_tpmserver;
mod t_tpmclient;
mod t_fadt;
mod t_bert;
mod t_spcr;
mod t_facs;
mod t_rsdp;
mod t_sdt;
mod t_misc;
mod t_default;
mod tcommon;

use std::io::{BufRead, Write};
use sx::*;

fn run_component(comp: u64, case: &Sx) -> Vec<Ev> {
    // observations made before a refusal are kept; the refusal itself is the last event
    let mut out: Vec<Ev> = Vec::new();
    let r = std::panic::catch_unwind(std::panic::AssertUnwindSafe(|| match comp {
        1 => out.extend(cksum::run(case)),
        2..=6 => out.extend(kernels::run(comp, case)),
        10 => t_xsdt::run(case, &mut out),
        11 => t_mcfg::run(case, &mut out),
        12 => t_madt::run(case, &mut out),
        13 => t_srat::run(case, &mut out),
        14 => t_slit::run(case, &mut out),
        15 => t_hmat::run(case, &mut out),
        16 => t_pptt::run(case, &mut out),
        17 => t_rhct::run(case, &mut out),
        18 => t_rimt::run(case, &mut out),
        19 => t_viot::run(case, &mut out),
        20 => t_cedt::run(case, &mut out),
        21 => t_hest::run(case, &mut out),
        22 => t_rqsc::run(case, &mut out),
        23 => t_tpm2::run(case, &mut out),
        24 => t_tpmserver::run(case, &mut out),
        25 => t_tpmclient::run(case, &mut out),
        26 => t_fadt::run(case, &mut out),
        27 => t_bert::run(case, &mut out),
        28 => t_spcr::run(case, &mut out),
        29 => t_facs::run(case, &mut out),
        30 => t_rsdp::run(case, &mut out),
        31 => t_sdt::run(case, &mut out),
        32 => t_misc::run(case, &mut out),
        40 | 41 => amlterm::run(comp, case, &mut out),
        200 => out.extend(t_default::run(case)),
        _ => panic!("harness: unknown component {}", comp),
    }));
    if r.is_err() {
        out.push(Ev::Panic);
    }
    out
}

fn emit_line(out: &mut dyn Write, comp: u64, case: &Sx, evs: &[Ev]) {
    let mut s = String::with_capacity(256);
    use std::fmt::Write as _;
    let _ = write!(s, "{}\t", comp);
    case.write(&mut s);
    s.push('\t');
    write_events(evs, &mut s);
    s.push('\n');
    out.write_all(s.as_bytes()).unwrap();
}

/// Case sink handed to the generators: runs the cases of this shard against the crate and prints them.
pub struct Emit<'a> {
    out: &'a mut dyn Write,
    prop: u32,
    shard: u64,
    nshards: u64,
    sweep_idx: u64,
    stats: Stats,
    /// C14: route every generated case through case14
    pub redirect14: bool,
}

impl Emit<'_> {
    /// the property whose generators are running (a few very long histories are generated for the sum / length properties only)
    pub fn prop(&self) -> u32 {
        self.prop
    }
    /// an ordinary case: sharded by content so that equal cases meet and distinct counts are exact
    pub fn case(&mut self, comp: u64, case: Sx) {
        if self.redirect14 {
            return self.case14(comp, case);
        }
        let mine = self.nshards == 1 || {
            use std::hash::{Hash, Hasher};
            let mut h = std::collections::hash_map::DefaultHasher::new();
            comp.hash(&mut h);
            case.show().hash(&mut h);
            (h.finish() >> 7) % self.nshards == self.shard
        };
        if mine {
            let evs = run_component(comp, &case);
            self.stats.record(self.prop, comp, &case, &evs, true);
            emit_line(self.out, comp, &case, &evs);
        }
    }
    /// C14: the case of another component, run under every sink (and twice into the vector): the observations must
    /// be identical.  Emitted as component 100 + comp with a trailing number = how many runs differed.
    pub fn case14(&mut self, comp: u64, case: Sx) {
        let mine = self.nshards == 1 || {
            use std::hash::{Hash, Hasher};
            let mut h = std::collections::hash_map::DefaultHasher::new();
            comp.hash(&mut h);
            case.show().hash(&mut h);
            (h.finish() >> 7) % self.nshards == self.shard
        };
        if !mine {
            return;
        }
        tcommon::SINK_MODE.with(|m| m.set(0));
        tcommon::SINK_MISMATCH.with(|m| m.set(0));
        let base = run_component(comp, &case);
        let mut differing = 0u64;
        if run_component(comp, &case) != base {
            differing += 1;
        }
        for mode in 1..=5u8 {
            tcommon::SINK_MODE.with(|m| m.set(mode));
            if run_component(comp, &case) != base {
                differing += 1;
            }
        }
        tcommon::SINK_MODE.with(|m| m.set(0));
        differing += tcommon::SINK_MISMATCH.with(|m| m.get());
        let mut evs = base;
        evs.push(Ev::Num(differing));
        self.stats.record(self.prop, 100 + comp, &case, &evs, true);
        emit_line(self.out, 100 + comp, &case, &evs);
    }
    /// a case of an enumeration without repetition (exhaustive sweeps): sharded by index, not hashed
    pub fn sweep(&mut self, comp: u64, case: Sx) {
        let mine = self.sweep_idx % self.nshards == self.shard;
        self.sweep_idx += 1;
        if mine {
            let evs = run_component(comp, &case);
            self.stats.record(self.prop, comp, &case, &evs, false);
            emit_line(self.out, comp, &case, &evs);
        }
    }
}

/// What a generation run covered: written to $HARNESS_STATS for the evidence file.
#[derive(Default)]
struct Stats {
    cases: u64,
    sweep_cases: u64,
    hashes: std::collections::HashSet<u64>,
    nontrivial_hashes: std::collections::HashSet<u64>,
    per_comp: std::collections::BTreeMap<u64, u64>,
    panics: u64,
    events: u64,
    max_case_len: usize,
    samples: Vec<String>,
    classes: std::collections::BTreeMap<String, u64>,
}

fn nontrivial(prop: u32, _comp: u64, case: &Sx) -> bool {
    match prop {
        _ => match case {
            Sx::L(v) => !v.is_empty(),
            _ => true,
        },
    }
}

impl Stats {
    fn record(&mut self, prop: u32, comp: u64, case: &Sx, evs: &[Ev], hashed: bool) {
        use std::hash::{Hash, Hasher};
        let text = case.show();
        self.cases += 1;
        if hashed {
            let mut h = std::collections::hash_map::DefaultHasher::new();
            comp.hash(&mut h);
            text.hash(&mut h);
            let hv = h.finish();
            self.hashes.insert(hv);
            if nontrivial(prop, comp, case) {
                self.nontrivial_hashes.insert(hv);
            }
        } else {
            // enumerated without repetition
            self.sweep_cases += 1;
        }
        *self.per_comp.entry(comp).or_insert(0) += 1;
        if evs.iter().any(|e| matches!(e, Ev::Panic)) {
            self.panics += 1;
        }
        self.events += evs.len() as u64;
        self.max_case_len = self.max_case_len.max(text.len());
        // keep a few short samples, spread over the run
        if self.samples.len() < 6 && text.len() < 400 && (self.cases % 97 == 1 || self.samples.is_empty()) {
            self.samples.push(format!("{} {}", comp, text));
        }
        for c in crate::classify(prop, comp, case, evs) {
            *self.classes.entry(c).or_insert(0) += 1;
        }
    }
    fn to_json(&self) -> String {
        let pc: Vec<String> = self.per_comp.iter().map(|(k, v)| format!("\"{}\": {}", k, v)).collect();
        let cl: Vec<String> = self.classes.iter().map(|(k, v)| format!("\"{}\": {}", k, v)).collect();
        let sm: Vec<String> = self.samples.iter().map(|s| format!("\"{}\"", s)).collect();
        format!(
            "{{\"cases\": {}, \"distinct\": {}, \"distinct_nontrivial\": {}, \"panics\": {}, \"events\": {}, \"max_case_len\": {}, \"per_component\": {{{}}}, \"classes\": {{{}}}, \"samples\": [{}]}}",
            self.cases,
            self.hashes.len() as u64 + self.sweep_cases,
            self.nontrivial_hashes.len() as u64 + self.sweep_cases,
            self.panics,
            self.events,
            self.max_case_len,
            pc.join(", "),
            cl.join(", "),
            sm.join(", ")
        )
    }
}

/// input-distribution classes recorded in the evidence (operation kinds, boundary classes, ...)
fn classify(_prop: u32, comp: u64, case: &Sx, _evs: &[Ev]) -> Vec<String> {
    let mut v = Vec::new();
    match comp {
        1 => {
            for op in case.list() {
                v.push(format!("cksum.op{}", op.list()[0].num()));
            }
        }
        2 => {
            let c = case.list();
            let n = c[0].num();
            let w = if n < 63 { 1 } else if n < 4094 { 2 } else if n < (1 << 20) - 3 { 3 } else if n < (1 << 28) - 4 { 4 } else { 5 };
            v.push(format!("pkglen.{}.width{}", if c[1].num() != 0 { "incl" } else { "excl" }, w));
        }
        3 => {
            let c = case.list();
            let n = c[1].num();
            let w = if n < 2 { 0 } else if n < 256 { 1 } else if n < 65536 { 2 } else if n < (1 << 32) { 4 } else { 8 };
            v.push(format!("int.ty{}.bytes{}", c[0].num(), w));
        }
        4 => {
            let t = case.bytes();
            let segs = t.iter().filter(|b| **b == b'.').count() + 1;
            let cls = if segs == 1 { "1" } else if segs == 2 { "2" } else if segs <= 255 { "3..255" } else { ">255" };
            v.push(format!("path.segs{}.{}", cls, if _evs.iter().any(|e| matches!(e, Ev::Panic)) { "refused" } else { "emitted" }));
        }
        5 | 6 => {
            v.push(format!("{}.{}", if comp == 5 { "eisa" } else { "uuid" }, if _evs.iter().any(|e| matches!(e, Ev::Panic)) { "refused" } else { "emitted" }));
        }
        _ => {}
    }
    v
}

/// which table components a property exercises (their generators are shared between properties)
fn table_gens(prop: u32, tier: &str, rng: &mut Rng, emit: &mut Emit) {
    let only: Option<u64> = std::env::var("HARNESS_ONLY").ok().and_then(|s| s.parse().ok());
    let comps: &[u64] = match prop {
        2 | 4 => &[10, 11, 12, 13, 14, 15, 16, 17, 18, 19, 20, 21, 22, 23, 24, 25, 26, 27, 28, 29, 30, 31, 32],
        1 | 14 => &[10, 11, 12, 13, 14, 15, 16, 17, 18, 19, 20, 21, 22, 23, 24, 25, 26, 27, 28, 29, 30, 31],
        3 => &[10, 11, 12, 13, 14, 15, 16, 17, 18, 19, 20, 21, 22],
        5 => &[16, 17, 18, 19],
        11 => &[12, 13, 15, 16, 18, 19, 20, 21, 24, 26],
        12 => &[14, 15],
        13 => &[31],
        _ => &[],
    };
    for c in comps {
        if let Some(o) = only {
            if o != *c {
                continue;
            }
        }
        match c {
            10 => t_xsdt::gen(tier, rng, emit),
            11 => t_mcfg::gen(tier, rng, emit),
            12 => t_madt::gen(tier, rng, emit),
            13 => t_srat::gen(tier, rng, emit),
            14 => t_slit::gen(tier, rng, emit),
            15 => t_hmat::gen(tier, rng, emit),
            16 => t_pptt::gen(tier, rng, emit),
            17 => t_rhct::gen(tier, rng, emit),
            18 => t_rimt::gen(tier, rng, emit),
            19 => t_viot::gen(tier, rng, emit),
            20 => t_cedt::gen(tier, rng, emit),
            21 => t_hest::gen(tier, rng, emit),
            22 => t_rqsc::gen(tier, rng, emit),
            23 => t_tpm2::gen(tier, rng, emit),
            24 => t_tpmserver::gen(tier, rng, emit),
            25 => t_tpmclient::gen(tier, rng, emit),
            26 => t_fadt::gen(tier, rng, emit),
            27 => t_bert::gen(tier, rng, emit),
            28 => t_spcr::gen(tier, rng, emit),
            29 => t_facs::gen(tier, rng, emit),
            30 => t_rsdp::gen(tier, rng, emit),
            31 => t_sdt::gen(tier, rng, emit),
            32 => t_misc::gen(tier, rng, emit),
            _ => {}
        }
    }
}

/// the table components' oversize cases (C18)
fn table_gens18(tier: &str, rng: &mut Rng, emit: &mut Emit) {
    t_pptt::gen18(tier, rng, emit);
    t_hmat::gen18(tier, rng, emit);
    t_rhct::gen18(tier, rng, emit);
    t_slit::gen18(tier, rng, emit);
    t_rqsc::gen18(tier, rng, emit);
    t_rimt::gen18(tier, rng, emit);
    t_viot::gen18(tier, rng, emit);
    t_cedt::gen18(tier, rng, emit);
}

fn main() {
    std::panic::set_hook(Box::new(|info| {
        // harness bugs must be loud; crate refusals are silent
        let msg = format!("{}", info);
        if msg.contains("harness:") {
            eprintln!("{}", msg);
        }
    }));
    let args: Vec<String> = std::env::args().collect();
    let stdout = std::io::stdout();
    let mut out = std::io::BufWriter::with_capacity(1 << 20, stdout.lock());
    match args.get(1).map(|s| s.as_str()) {
        Some("gen") => {
            // gen <prop> <tier> <seed> [shard nshards]
            let prop: u32 = args[2].trim_start_matches('C').parse().unwrap();
            let tier = args[3].as_str();
            let seed: u64 = args[4].parse().unwrap();
            let shard: u64 = args.get(5).map(|s| s.parse().unwrap()).unwrap_or(0);
            let nshards: u64 = args.get(6).map(|s| s.parse().unwrap()).unwrap_or(1);
            let mut rng = Rng(seed ^ 0xC0FF_EE00 ^ ((prop as u64) << 32));
            let mut emit = Emit { out: &mut out, prop, shard, nshards, sweep_idx: 0, stats: Stats::default(), redirect14: false };
            match prop {
                6 => amlterm::gen_c06(tier, &mut rng, &mut emit),
                10 => amlterm::gen_c10(tier, &mut rng, &mut emit),
                15 => amlterm::gen_c15(tier, &mut rng, &mut emit),
                7 => {
                    amlterm::gen_c07_sites(tier, &mut rng, &mut emit);
                    kernels::gen_c07(tier, &mut rng, &mut emit);
                }
                8 => kernels::gen_c08(tier, &mut rng, &mut emit),
                9 => kernels::gen_c09(tier, &mut rng, &mut emit),
                16 => kernels::gen_c16(tier, &mut rng, &mut emit),
                17 => cksum::gen(tier, &mut rng, &mut emit),
                18 => {
                    amlterm::gen_c18(tier, &mut rng, &mut emit);
                    table_gens18(tier, &mut rng, &mut emit);
                }
                14 => {
                    // objects produced by the table and AML generators, each into every sink
                    emit.redirect14 = true;
                    table_gens(1, tier, &mut rng, &mut emit);
                    amlterm::gen_c06(tier, &mut rng, &mut emit);
                    amlterm::gen_c10("quick", &mut rng, &mut emit);
                    emit.redirect14 = false;
                    // structures obtained from the derived Default instead of a constructor (harness-only comparisons)
                    t_default::gen(tier, &mut rng, &mut emit);
                }
                1 | 2 | 3 | 4 | 5 | 11 | 12 | 13 => table_gens(prop, tier, &mut rng, &mut emit),
                _ => panic!("harness: no generator for property {}", prop),
            }
            let stats = emit.stats;
            if let Ok(path) = std::env::var("HARNESS_STATS") {
                std::fs::write(path, stats.to_json()).unwrap();
            }
        }
        Some("replay") => {
            // replay: reads "<comp>\t<case>[\t...]" lines on stdin
            let stdin = std::io::stdin();
            for line in stdin.lock().lines() {
                let line = line.unwrap();
                if line.is_empty() || line.starts_with('%') {
                    continue;
                }
                let mut it = line.split('\t');
                let comp: u64 = it.next().unwrap().parse().unwrap();
                let case = Sx::parse(it.next().unwrap());
                let evs = run_component(comp, &case);
                emit_line(&mut out, comp, &case, &evs);
            }
        }
        _ => {
            eprintln!("usage: acpi-harness gen <prop> <tier> <seed> [shard nshards] | replay");
            std::process::exit(2);
        }
    }
    out.flush().unwrap();
}
