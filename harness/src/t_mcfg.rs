//! component 11: MCFG.  Case vocabulary documented in coq/theories/Spec/McfgS.v.
use crate::sx::*;
use crate::tcommon::*;
use crate::Emit;
use acpi_tables::mcfg::MCFG;

pub fn run(case: &Sx, out: &mut Vec<Ev>) {
    let c = case.list();
    let ctor = c[0].list();
    let (oem, tbl, rev) = hdr_args(ctor);
    let mut t = MCFG::new(oem, tbl, rev);
    for op in &c[1..] {
        if let Sx::A(_) = op {
            out.push(image(&t));
            continue;
        }
        let o = op.list();
        let n = |i: usize| o[i].num();
        match n(0) {
            1 => t.add_ecam(n(1), n(2) as u16, n(3) as u8, n(4) as u8),
            _ => panic!("harness: bad mcfg op"),
        }
        out.push(Ev::Num(0));
    }
}

fn rand_op(rng: &mut Rng) -> Sx {
    l(vec![a(1), a(rng.val(64)), a(rng.val(16)), a(rng.val(8)), a(rng.val(8))])
}

pub fn gen(tier: &str, rng: &mut Rng, emit: &mut Emit) {
    for _ in 0..4 {
        let c = l(rand_hdr(rng));
        emit.case(11, history(rng, c, vec![]));
    }
    // the one op kind alone: each field driven through its boundaries with the others distinct
    for (b, s, sb, eb) in [
        (0u64, 0u64, 0u64, 0u64),
        (u64::MAX, 0xffff, 0xff, 0xff),
        (0x0102_0304_0506_0708, 0x090a, 0x0b, 0x0c),
        (1, 0, 0, 0),
        (0, 1, 0, 0),
        (0, 0, 1, 0),
        (0, 0, 0, 1),
        (0xc000_0000, 42, 0, 0x20),
    ] {
        let c = l(rand_hdr(rng));
        emit.case(11, history(rng, c, vec![l(vec![a(1), a(b), a(s), a(sb), a(eb)])]));
    }
    for _ in 0..12 {
        let c = l(rand_hdr(rng));
        let op = rand_op(rng);
        emit.case(11, history(rng, c, vec![op]));
    }
    for _ in 0..8 {
        let c = l(rand_hdr(rng));
        let ops = vec![rand_op(rng), rand_op(rng)];
        emit.case(11, history(rng, c, ops));
    }
    // homogeneous runs: 300 entries and 4 100 entries (65535 -> 65536 bytes)
    for n in [300usize, 4100] {
        let c = l(rand_hdr(rng));
        let ops = (0..n).map(|_| rand_op(rng)).collect();
        emit.case(11, history(rng, c, ops));
    }
    let n = if tier == "thorough" { 3000 } else { 200 };
    for _ in 0..n {
        let c = l(rand_hdr(rng));
        let len = match rng.below(3) {
            0 => rng.range(1, 6),
            1 => rng.range(1, 24),
            _ => rng.range(25, 120),
        };
        let ops = (0..len).map(|_| rand_op(rng)).collect();
        emit.case(11, history(rng, c, ops));
    }
}
