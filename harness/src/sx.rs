//! S-expression cases and observation events (the exchange language with the extracted model).
use std::fmt::Write;

#[derive(Clone, Debug, PartialEq)]
pub enum Sx {
    A(u64),
    L(Vec<Sx>),
}

pub fn a(n: u64) -> Sx {
    Sx::A(n)
}
pub fn l(v: Vec<Sx>) -> Sx {
    Sx::L(v)
}
pub fn bytes(b: &[u8]) -> Sx {
    Sx::L(b.iter().map(|x| Sx::A(*x as u64)).collect())
}
pub fn boolean(b: bool) -> Sx {
    Sx::A(b as u64)
}

impl Sx {
    pub fn num(&self) -> u64 {
        match self {
            Sx::A(n) => *n,
            _ => panic!("harness: expected number, got {}", self.show()),
        }
    }
    pub fn list(&self) -> &[Sx] {
        match self {
            Sx::L(v) => v,
            _ => panic!("harness: expected list"),
        }
    }
    pub fn bytes(&self) -> Vec<u8> {
        self.list().iter().map(|x| x.num() as u8).collect()
    }
    pub fn boolean(&self) -> bool {
        self.num() != 0
    }
    pub fn arr<const K: usize>(&self) -> [u8; K] {
        let v = self.bytes();
        let mut r = [0u8; K];
        r.copy_from_slice(&v);
        r
    }
    fn is_byte_list(&self) -> bool {
        match self {
            Sx::L(v) => v.len() >= 3 && v.iter().all(|x| matches!(x, Sx::A(n) if *n < 256)),
            _ => false,
        }
    }
    pub fn write(&self, out: &mut String) {
        match self {
            Sx::A(n) => {
                let _ = write!(out, "{}", n);
            }
            Sx::L(v) => {
                if self.is_byte_list() {
                    out.push('#');
                    for x in v {
                        let _ = write!(out, "{:02x}", x.num());
                    }
                } else {
                    out.push('(');
                    for (i, x) in v.iter().enumerate() {
                        if i > 0 {
                            out.push(' ');
                        }
                        x.write(out);
                    }
                    out.push(')');
                }
            }
        }
    }
    pub fn show(&self) -> String {
        let mut s = String::new();
        self.write(&mut s);
        s
    }
    pub fn parse(s: &str) -> Sx {
        let b = s.as_bytes();
        let mut pos = 0usize;
        let r = parse_item(b, &mut pos);
        r
    }
}

fn parse_item(b: &[u8], pos: &mut usize) -> Sx {
    while *pos < b.len() && b[*pos] == b' ' {
        *pos += 1;
    }
    match b[*pos] {
        b'(' => {
            *pos += 1;
            let mut v = Vec::new();
            loop {
                while *pos < b.len() && b[*pos] == b' ' {
                    *pos += 1;
                }
                if b[*pos] == b')' {
                    *pos += 1;
                    break;
                }
                v.push(parse_item(b, pos));
            }
            Sx::L(v)
        }
        b'#' => {
            *pos += 1;
            let st = *pos;
            while *pos < b.len() && b[*pos] != b' ' && b[*pos] != b')' {
                *pos += 1;
            }
            let h = &b[st..*pos];
            let hv = |c: u8| -> u64 {
                match c {
                    b'0'..=b'9' => (c - b'0') as u64,
                    b'a'..=b'f' => (c - b'a' + 10) as u64,
                    _ => (c - b'A' + 10) as u64,
                }
            };
            Sx::L(h.chunks(2).map(|c| Sx::A(hv(c[0]) * 16 + hv(c[1]))).collect())
        }
        _ => {
            let st = *pos;
            while *pos < b.len() && b[*pos] != b' ' && b[*pos] != b')' && b[*pos] != b'(' {
                *pos += 1;
            }
            Sx::A(std::str::from_utf8(&b[st..*pos]).unwrap().parse::<u64>().unwrap())
        }
    }
}

#[derive(Clone, Debug, PartialEq)]
pub enum Ev {
    Bytes(Vec<u8>),
    Num(u64),
    Panic,
}

pub fn write_events(evs: &[Ev], out: &mut String) {
    for (i, e) in evs.iter().enumerate() {
        if i > 0 {
            out.push(' ');
        }
        match e {
            Ev::Bytes(b) => {
                out.push('b');
                for x in b {
                    let _ = write!(out, "{:02x}", x);
                }
            }
            Ev::Num(n) => {
                let _ = write!(out, "n{}", n);
            }
            Ev::Panic => out.push('p'),
        }
    }
}

/// splitmix64: every random choice of a run derives from one seed
pub struct Rng(pub u64);
impl Rng {
    pub fn next(&mut self) -> u64 {
        self.0 = self.0.wrapping_add(0x9E37_79B9_7F4A_7C15);
        let mut z = self.0;
        z = (z ^ (z >> 30)).wrapping_mul(0xBF58_476D_1CE4_E5B9);
        z = (z ^ (z >> 27)).wrapping_mul(0x94D0_49BB_1331_11EB);
        z ^ (z >> 31)
    }
    pub fn below(&mut self, n: u64) -> u64 {
        if n == 0 {
            0
        } else {
            self.next() % n
        }
    }
    pub fn range(&mut self, lo: u64, hi: u64) -> u64 {
        lo + self.below(hi - lo + 1)
    }
    pub fn chance(&mut self, num: u64, den: u64) -> bool {
        self.below(den) < num
    }
    pub fn pick<'a, T>(&mut self, v: &'a [T]) -> &'a T {
        &v[self.below(v.len() as u64) as usize]
    }
    /// full-range value of the given bit width, biased towards boundaries and single bits
    pub fn val(&mut self, bits: u32) -> u64 {
        let max = if bits >= 64 { u64::MAX } else { (1u64 << bits) - 1 };
        match self.below(10) {
            0 => 0,
            1 => max,
            2 => 1,
            3 => max - 1,
            4 => 1u64 << self.below(bits as u64),
            5 => (self.next() & 0xff) * 0x0101_0101_0101_0101 & max,
            _ => self.next() & max,
        }
    }
    pub fn bytes(&mut self, n: usize) -> Vec<u8> {
        (0..n).map(|_| self.next() as u8).collect()
    }
}
