//! component 20: CEDT.  Case vocabulary documented in coq/theories/Spec/CedtS.v.
use crate::sx::*;
use crate::tcommon::*;
use crate::Emit;
use acpi_tables::cedt::*;

fn version(n: u64) -> CxlVersion {
    match n {
        0 => CxlVersion::Cxl1_1,
        1 => CxlVersion::Cxl2,
        _ => panic!("harness: bad CxlVersion"),
    }
}

fn arithmetic(n: u64) -> InterleaveArithmetic {
    match n {
        0 => InterleaveArithmetic::Modulo,
        1 => InterleaveArithmetic::ModuloXor,
        _ => panic!("harness: bad InterleaveArithmetic"),
    }
}

fn granularity(n: u64) -> InterleaveGranularity {
    match n {
        0 => InterleaveGranularity::Granularity256b,
        1 => InterleaveGranularity::Granularity512b,
        2 => InterleaveGranularity::Granularity1kb,
        3 => InterleaveGranularity::Granularity2kb,
        4 => InterleaveGranularity::Granularity4kb,
        5 => InterleaveGranularity::Granularity8kb,
        6 => InterleaveGranularity::Granularity16kb,
        _ => panic!("harness: bad InterleaveGranularity"),
    }
}

/// numbered by the encoded value (ENIW)
fn ways(n: u64) -> InterleaveWays {
    match n {
        0 => InterleaveWays::Ways1,
        1 => InterleaveWays::Ways2,
        2 => InterleaveWays::Ways4,
        3 => InterleaveWays::Ways8,
        4 => InterleaveWays::Ways16,
        8 => InterleaveWays::Ways3,
        9 => InterleaveWays::Ways6,
        10 => InterleaveWays::Ways12,
        _ => panic!("harness: bad InterleaveWays"),
    }
}

fn protocol(n: u64) -> ProtocolType {
    match n {
        0 => ProtocolType::CxlIo,
        1 => ProtocolType::CxlMem,
        _ => panic!("harness: bad ProtocolType"),
    }
}

pub fn run(case: &Sx, out: &mut Vec<Ev>) {
    let c = case.list();
    let ctor = c[0].list();
    let (oem, tbl, rev) = hdr_args(ctor);
    let mut t = CEDT::new(oem, tbl, rev);
    for op in &c[1..] {
        if let Sx::A(_) = op {
            out.push(image(&t));
            continue;
        }
        let o = op.list();
        let n = |i: usize| o[i].num();
        match n(0) {
            1 => t.add_host_bridge(CxlHostBridge::new(n(1) as u32, version(n(2)), n(3))),
            2 => {
                let mut fm = CxlFixedMemory::new(n(1), n(2), arithmetic(n(3)), granularity(n(4)), ways(n(5)), n(6) as u16);
                for b in o[7].list() {
                    fm = match b.list()[0].num() {
                        1 => fm.cxl_type_2_memory(),
                        2 => fm.cxl_type_3_memory(),
                        3 => fm.volatile(),
                        4 => fm.persistent(),
                        5 => fm.fixed_configuration(),
                        _ => panic!("harness: bad restriction builder"),
                    };
                }
                for tg in o[8].list() {
                    fm.add_target(tg.arr::<4>());
                }
                t.add_fixed_memory(fm)
            }
            3 => {
                let mut x = XorInterleaveMath::new(granularity(n(1)));
                for m in o[2].list() {
                    x.add_xormap(m.num());
                }
                t.add_xor_interleave_math(x)
            }
            4 => t.add_port_association(PortAssociation::new(n(1) as u16, n(2) as u8, n(3) as u8, n(4) as u8, protocol(n(5)), n(6))),
            _ => panic!("harness: bad cedt op"),
        }
        out.push(Ev::Num(0));
    }
}

// ------------------------------------------------------------------ generators

const WAYS: [(u64, u64); 8] = [(0, 1), (1, 2), (2, 4), (3, 8), (4, 16), (8, 3), (9, 6), (10, 12)];

fn builders(ids: &[u64]) -> Sx {
    l(ids.iter().map(|b| l(vec![a(*b)])).collect())
}

fn shuffle(rng: &mut Rng, v: &mut Vec<u64>) {
    for i in (1..v.len()).rev() {
        let j = rng.below(i as u64 + 1) as usize;
        v.swap(i, j);
    }
}

fn rand_builders(rng: &mut Rng) -> Vec<u64> {
    let k = rng.below(8);
    (0..k).map(|_| rng.range(1, 5)).collect()
}

fn cfmws_op(rng: &mut Rng, ways_code: u64, ntargets: u64, bl: &[u64]) -> Sx {
    let targets = l((0..ntargets).map(|_| blist(&rng.bytes(4))).collect());
    l(vec![a(2), a(rng.val(64)), a(rng.val(64)), a(rng.below(2)), a(rng.below(7)), a(ways_code), a(rng.val(16)), builders(bl), targets])
}

fn cxims_op(rng: &mut Rng, n: u64) -> Sx {
    l(vec![a(3), a(rng.below(7)), l((0..n).map(|_| a(rng.val(64))).collect())])
}

fn rdpas_op(rng: &mut Rng, dev: u64, func: u64) -> Sx {
    l(vec![a(4), a(rng.val(16)), a(rng.val(8)), a(dev), a(func), a(rng.below(2)), a(rng.val(64))])
}

pub fn rand_op(rng: &mut Rng, kind: u64) -> Sx {
    match kind {
        1 => l(vec![a(1), a(rng.val(32)), a(rng.below(2)), a(rng.val(64))]),
        2 => {
            let (code, n) = *rng.pick(&WAYS);
            // rarely a target count that does not match the number of ways (the serialiser refuses)
            let nt = if rng.chance(1, 40) { rng.below(18) } else { n };
            let bl = rand_builders(rng);
            cfmws_op(rng, code, nt, &bl)
        }
        3 => {
            let n = if rng.chance(1, 6) { rng.below(71) } else { rng.below(7) };
            cxims_op(rng, n)
        }
        _ => {
            let dev = if rng.chance(1, 60) { rng.range(32, 255) } else { rng.below(32) };
            let func = if rng.chance(1, 60) { rng.range(8, 255) } else { rng.below(8) };
            rdpas_op(rng, dev, func)
        }
    }
}

fn rand_ctor(rng: &mut Rng) -> Sx {
    l(rand_hdr(rng))
}

fn emit_ops(rng: &mut Rng, emit: &mut Emit, ops: Vec<Sx>) {
    let c = rand_ctor(rng);
    emit.case(20, history(rng, c, ops));
}

fn permutations(items: &[u64]) -> Vec<Vec<u64>> {
    if items.len() <= 1 {
        return vec![items.to_vec()];
    }
    let mut out = Vec::new();
    for i in 0..items.len() {
        let mut rest = items.to_vec();
        let x = rest.remove(i);
        for mut p in permutations(&rest) {
            p.insert(0, x);
            out.push(p);
        }
    }
    out
}

pub fn gen(tier: &str, rng: &mut Rng, emit: &mut Emit) {
    let kinds: Vec<u64> = (1..=4).collect();
    // empty history
    for _ in 0..4 {
        emit_ops(rng, emit, vec![]);
    }
    // each structure kind alone, and all ordered pairs
    for k in &kinds {
        for _ in 0..8 {
            let op = rand_op(rng, *k);
            emit_ops(rng, emit, vec![op]);
        }
    }
    for k1 in &kinds {
        for k2 in &kinds {
            let ops = vec![rand_op(rng, *k1), rand_op(rng, *k2)];
            emit_ops(rng, emit, ops);
        }
    }
    // CHBS: both versions with boundary values
    for ver in 0..2u64 {
        for (uid, base) in [(0u64, 0u64), (u32::MAX as u64, u64::MAX), (1, 1)] {
            emit_ops(rng, emit, vec![l(vec![a(1), a(uid), a(ver), a(base)])]);
        }
    }
    // CFMWS: all 8 InterleaveWays with matching and non-matching target counts
    for (code, n) in WAYS {
        // every target count 0..=18 against every number of ways (only the matching one is in the domain), and twice the ways
        let mut counts: Vec<u64> = (0..=18).collect();
        counts.push(2 * n);
        counts.push(n);
        for nt in counts {
            let bl = rand_builders(rng);
            let op = cfmws_op(rng, code, nt, &bl);
            emit_ops(rng, emit, vec![op]);
        }
    }
    // CFMWS: every enum value of arithmetic x granularity
    for ar in 0..2u64 {
        for g in 0..7u64 {
            let t = blist(&rng.bytes(4));
            let op = l(vec![a(2), a(rng.val(64)), a(rng.val(64)), a(ar), a(g), a(0), a(rng.val(16)), builders(&[]), l(vec![t])]);
            emit_ops(rng, emit, vec![op]);
        }
    }
    // CFMWS restriction builders: every subset, in canonical, reversed and shuffled order, and with repetitions
    for mask in 0..32u64 {
        let subset: Vec<u64> = (1..=5).filter(|b| mask & (1 << (b - 1)) != 0).collect();
        let mut variants: Vec<Vec<u64>> = vec![subset.clone(), subset.iter().rev().cloned().collect()];
        for _ in 0..2 {
            let mut s = subset.clone();
            shuffle(rng, &mut s);
            variants.push(s);
        }
        for _ in 0..2 {
            // each chosen builder 1..3 times, shuffled
            let mut s: Vec<u64> = Vec::new();
            for b in &subset {
                for _ in 0..rng.range(1, 3) {
                    s.push(*b);
                }
            }
            shuffle(rng, &mut s);
            variants.push(s);
        }
        for v in variants {
            let (code, n) = *rng.pick(&WAYS);
            let op = cfmws_op(rng, code, n, &v);
            emit_ops(rng, emit, vec![op]);
        }
    }
    // every order of the five builders
    for p in permutations(&[1, 2, 3, 4, 5]) {
        let op = cfmws_op(rng, 0, 1, &p);
        emit_ops(rng, emit, vec![op]);
    }
    // every order of every pair and triple
    for x in 1..=5u64 {
        for y in 1..=5u64 {
            let op = cfmws_op(rng, 1, 2, &[x, y]);
            emit_ops(rng, emit, vec![op]);
            for z in 1..=5u64 {
                let op = cfmws_op(rng, 8, 3, &[x, y, z]);
                emit_ops(rng, emit, vec![op]);
            }
        }
    }
    // CXIMS: 0..70 xormaps, every granularity
    for n in 0..=70u64 {
        let op = cxims_op(rng, n);
        emit_ops(rng, emit, vec![op]);
    }
    for g in 0..7u64 {
        let op = l(vec![a(3), a(g), l(vec![a(rng.val(64)), a(rng.val(64))])]);
        emit_ops(rng, emit, vec![op]);
    }
    for n in [200u64, 254, 255, 256, 257] {
        let op = cxims_op(rng, n);
        emit_ops(rng, emit, vec![op]);
    }
    // RDPAS: PCI device boundary values of the asserting constructor, both protocols
    for (dev, func) in [(0u64, 0u64), (31, 7), (32, 0), (0, 8), (31, 8), (255, 255), (32, 7), (1, 1), (16, 4)] {
        let op = rdpas_op(rng, dev, func);
        emit_ops(rng, emit, vec![op]);
    }
    for bus in [0u64, 1, 128, 255] {
        for proto in 0..2u64 {
            let op = l(vec![a(4), a(rng.val(16)), a(bus), a(rng.below(32)), a(rng.below(8)), a(proto), a(rng.val(64))]);
            emit_ops(rng, emit, vec![op]);
        }
    }
    // all interleavings of the 4 kinds for histories of length 3
    for code in 0..64u64 {
        let ops = vec![rand_op(rng, code % 4 + 1), rand_op(rng, (code / 4) % 4 + 1), rand_op(rng, code / 16 + 1)];
        emit_ops(rng, emit, ops);
    }
    // homogeneous runs of 300 of the smallest entries of each kind
    {
        let ops = (0..300).map(|_| rand_op(rng, 1)).collect();
        emit_ops(rng, emit, ops);
        let ops = (0..300).map(|_| { let bl = rand_builders(rng); cfmws_op(rng, 0, 1, &bl) }).collect();
        emit_ops(rng, emit, ops);
        let ops = (0..300).map(|_| cxims_op(rng, 0)).collect();
        emit_ops(rng, emit, ops);
        let ops = (0..300).map(|_| { let d = rng.below(32); let f = rng.below(8); rdpas_op(rng, d, f) }).collect();
        emit_ops(rng, emit, ops);
    }
    // runs crossing 65535 -> 65536 bytes: 2100 CHBS (32 bytes), 3900 RDPAS (17 bytes, odd sizes)
    {
        let ops = (0..2100).map(|_| rand_op(rng, 1)).collect();
        emit_ops(rng, emit, ops);
        let ops = (0..3900).map(|_| { let d = rng.below(32); let f = rng.below(8); rdpas_op(rng, d, f) }).collect();
        emit_ops(rng, emit, ops);
    }
    // random mixed histories
    let n = if tier == "thorough" { 3000 } else { 200 };
    for _ in 0..n {
        let len = match rng.below(3) {
            0 => rng.range(1, 6),
            1 => rng.range(1, 24),
            _ => rng.range(25, 120),
        };
        let ops = (0..len).map(|_| { let k = rng.range(1, 4); rand_op(rng, k) }).collect();
        emit_ops(rng, emit, ops);
    }
}

/// C18: CXIMS bitmap counts at the one-byte field maximum, one beyond and far beyond; 8191 / 8192 bitmaps are where the
/// 16-bit record length would wrap (SPEC_NOTES section D, cedt.rs)
pub fn gen18(_tier: &str, rng: &mut Rng, emit: &mut Emit) {
    for n in [254u64, 255, 256, 257, 300, 511, 512, 8190, 8191, 8192, 8193] {
        let op = cxims_op(rng, n);
        emit_ops(rng, emit, vec![op.clone()]);
        let first = rand_op(rng, 1);
        let last = cxims_op(rng, 1);
        emit_ops(rng, emit, vec![first, op, last]);
    }
}
