//! component 14: SLIT.  Case vocabulary documented in coq/theories/Spec/SlitS.v.
use crate::sx::*;
use crate::tcommon::*;
use crate::Emit;
use acpi_tables::slit::*;

pub fn run(case: &Sx, out: &mut Vec<Ev>) {
    let c = case.list();
    let ctor = c[0].list();
    let (oem, tbl, rev) = hdr_args(ctor);
    let mut t = SLIT::new(oem, tbl, rev, ctor[3].num() as u32);
    for op in &c[1..] {
        if let Sx::A(_) = op {
            out.push(image(&t));
            continue;
        }
        let o = op.list();
        match o[0].num() {
            // the value 255 is handed over as the crate's own name for it (ACPI: 255 = unreachable)
            1 => t.set_distance(o[1].num() as usize, o[2].num() as usize,
                                if o[3].num() == 255 { acpi_tables::slit::UNREACHABLE_LOCALITY } else { o[3].num() as u8 }),
            _ => panic!("harness: bad slit op"),
        }
        out.push(Ev::Num(0));
    }
}

fn rand_ctor(rng: &mut Rng, localities: u64) -> Sx {
    let mut c = rand_hdr(rng);
    c.push(a(localities));
    l(c)
}

fn set(ia: u64, ib: u64, v: u64) -> Sx {
    l(vec![a(1), a(ia), a(ib), a(v)])
}

/// all sequences of length <= n over the items
fn sequences(items: &[u64], n: usize) -> Vec<Vec<u64>> {
    let mut res: Vec<Vec<u64>> = vec![vec![]];
    let mut last: Vec<Vec<u64>> = vec![vec![]];
    for _ in 0..n {
        let mut next = Vec::new();
        for s in &last {
            for it in items {
                let mut t = s.clone();
                t.push(*it);
                next.push(t);
            }
        }
        res.extend(next.iter().cloned());
        last = next;
    }
    res
}

fn shuffle<T>(rng: &mut Rng, v: &mut Vec<T>) {
    for k in (1..v.len()).rev() {
        let j = rng.below(k as u64 + 1) as usize;
        v.swap(k, j);
    }
}

pub fn gen(tier: &str, rng: &mut Rng, emit: &mut Emit) {
    let thorough = tier == "thorough";
    // empty histories for 0..6 localities and a few larger shapes
    for n in (0..=6u64).chain([7, 16, 40, 100, 255, 256]) {
        let c = rand_ctor(rng, n);
        emit.case(14, history(rng, c, vec![]));
    }
    // exhaustive short assignment sequences over all cells (diagonal and mirrored writes included)
    for n in 1..=6u64 {
        let cells: Vec<u64> = (0..n * n).collect();
        let depth = match n {
            1 => 4,
            2 => 3,
            3 => 2,
            _ => 1,
        };
        for seq in sequences(&cells, depth) {
            let c = rand_ctor(rng, n);
            let ops = seq.iter().map(|k| set(k / n, k % n, rng.val(8))).collect();
            emit.case(14, history(rng, c, ops));
        }
        // every cell followed by its mirror image and by a write to a neighbour
        for k in 0..n * n {
            let (ia, ib) = (k / n, k % n);
            let c = rand_ctor(rng, n);
            let ops = vec![set(ia, ib, rng.val(8)), set(ib, ia, rng.val(8)), set(ia, (ib + 1) % n, rng.val(8)), set(ia, ib, rng.val(8))];
            emit.case(14, history(rng, c, ops));
        }
        // every cell assigned once in random order, with repeats mixed in
        for rep in 0..3u64 {
            let c = rand_ctor(rng, n);
            let mut ks: Vec<u64> = cells.clone();
            for _ in 0..rep * n {
                ks.push(rng.below(n * n));
            }
            shuffle(rng, &mut ks);
            let ops = ks.iter().map(|k| set(k / n, k % n, rng.val(8))).collect();
            emit.case(14, history(rng, c, ops));
        }
    }
    // value RELATIONS between successive assignments to one cell (through either orientation): equal, neighbours, differing
    // by 127 / 128 / 129 (twice 128 is 0 mod 256: a doubled checksum delta vanishes), complement, back to the default 10
    for n in [2u64, 3, 5] {
        for (ia, ib) in [(0u64, 1u64), (1, 0), (n - 1, n - 1), (0, 0)] {
            for first in [10u64, 0, 255, 20, 138] {
                for delta in [0u64, 1, 127, 128, 129, 255] {
                    let second = (first + delta) & 0xff;
                    let c = rand_ctor(rng, n);
                    let ops = vec![set(ia, ib, first), set(ib, ia, second), set(ia, ib, second ^ 0xff), set(ia, ib, 10)];
                    emit.case(14, history(rng, c, ops));
                }
            }
        }
    }
    // the whole value range on one cell and on the diagonal
    {
        let c = rand_ctor(rng, 3);
        let ops = (0..256u64).map(|v| if v % 2 == 0 { set(0, 2, v) } else { set(1, 1, v) }).collect();
        emit.case(14, history(rng, c, ops));
    }
    // random sequences on shapes up to 40
    let nrand = if thorough { 3000 } else { 200 };
    for _ in 0..nrand {
        let n = match rng.below(3) {
            0 => rng.range(1, 6),
            1 => rng.range(1, 16),
            _ => rng.range(7, 40),
        };
        let c = rand_ctor(rng, n);
        let len = match rng.below(3) {
            0 => rng.range(1, 6),
            1 => rng.range(1, 24),
            _ => rng.range(25, 120),
        };
        let ops = (0..len)
            .map(|_| {
                let (ia, ib) = if rng.chance(1, 6) {
                    let d = rng.below(n);
                    (d, d)
                } else {
                    (rng.below(n), rng.below(n))
                };
                set(ia, ib, rng.val(8))
            })
            .collect();
        emit.case(14, history(rng, c, ops));
    }
    // long runs (300 operations) and tables around 65536 bytes
    for n in [2u64, 9, 40] {
        let c = rand_ctor(rng, n);
        let ops = (0..300).map(|_| set(rng.below(n), rng.below(n), rng.val(8))).collect();
        emit.case(14, history(rng, c, ops));
    }
    for n in [255u64, 256, 257] {
        let c = rand_ctor(rng, n);
        let ops = vec![set(0, n - 1, rng.val(8)), set(n - 1, n - 1, rng.val(8)), set(n / 2, 3, rng.val(8)), set(n - 1, 0, rng.val(8))];
        emit.case(14, history(rng, c, ops));
    }
    // out-of-range indices: on the boundary, far beyond, and products that wrap a 64-bit usize
    for n in [0u64, 1, 2, 3, 4, 7] {
        let mut bad = vec![(n, 0), (0, n), (n, n), (n + 1, 0), (0, u64::MAX), (u64::MAX, 0), (u64::MAX, u64::MAX), (1, u64::MAX), (u64::MAX, 1), (1 << 63, 0), (0, 1 << 63), (1 << 62, 1 << 62), (1 << 63, 1 << 63), (1 << 32, 1)];
        if n > 0 {
            bad.push((n - 1, n));
            bad.push((n, n - 1));
            // a * (n + 1) = 2^64 when n + 1 is a power of two
            if (n + 1).is_power_of_two() && n > 0 {
                let d = (1u128 << 64) / (n as u128 + 1);
                bad.push((d as u64, d as u64));
            }
        }
        for (ia, ib) in bad {
            let c = rand_ctor(rng, n);
            let mut ops: Vec<Sx> = Vec::new();
            if n > 0 {
                ops.push(set(rng.below(n), rng.below(n), rng.val(8)));
            }
            ops.push(set(ia, ib, rng.val(8)));
            emit.case(14, history(rng, c, ops));
        }
    }
}

/// C18: localities^2 + 44 must fit the u32 Length.  Images are observed only when the matrix the crate would
/// build (even after a wrapped product) stays below 2^24 bytes.
#[allow(dead_code)]
pub fn gen18(tier: &str, rng: &mut Rng, emit: &mut Emit) {
    // the model's matrix is a list: keep the observed in-range case small in the quick tier
    let observed = if tier == "thorough" { 1000u64 } else { 200 };
    for n in [observed, 65_535, 65_536, 65_537, 70_000, 1 << 31, u32::MAX as u64] {
        let ctor = rand_ctor(rng, n);
        let wrapped = (n * n) & 0xFFFF_FFFF;
        let mut v = vec![ctor];
        if wrapped < (1 << 24) {
            v.push(a(1));
            if n * n < (1 << 24) {
                v.push(set(n - 1, 0, rng.val(8)));
                v.push(set(n / 2, n / 2, rng.val(8)));
                v.push(a(1));
            }
        } else if n > 65_535 {
            // must be refused by the constructor: a cheap operation instead of an observation
            v.push(set(0, 0, 10));
        }
        emit.case(14, l(v));
    }
}
