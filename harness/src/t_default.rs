//! component 200 (C14, harness-only: no model vocabulary): structures obtained from the derived `Default` (alone, with
//! setter calls, or embedded in a structure built by `new`) instead of their constructors.  Whatever their contents,
//!   * the raw in-memory form (`as_bytes`) must equal the serialised form, in a vector and in a byte-only sink,
//!   * `u8sum` must equal the arithmetic sum of the serialised bytes,
//!   * handed to a table through `add_structure` (HEST, MADT) the table must still sum to 0, declare its size and end in
//!     exactly those bytes.
//! Case: `(kind variant)`; one number comes back: how many of these comparisons failed (the model and the oracle expect 0).
use crate::sx::*;
use crate::Emit;
use acpi_tables::gas::GAS;
use acpi_tables::{hest, hmat, madt, pptt, rqsc, srat};
use acpi_tables::{Aml, AmlSink};
use zerocopy::{Immutable, IntoBytes};

struct ByteOnly(Vec<u8>);
impl AmlSink for ByteOnly {
    fn byte(&mut self, b: u8) {
        self.0.push(b);
    }
}

fn sum(v: &[u8]) -> u8 {
    v.iter().fold(0u8, |a, x| a.wrapping_add(*x))
}

fn probe<T: Aml + IntoBytes + Immutable>(t: &T) -> u64 {
    let mut bad = 0;
    let mut v = Vec::new();
    t.to_aml_bytes(&mut v);
    let mut v2 = Vec::new();
    t.to_aml_bytes(&mut v2);
    let mut b = ByteOnly(Vec::new());
    t.to_aml_bytes(&mut b);
    if t.as_bytes() != v.as_slice() {
        bad += 1;
    }
    if v2 != v || b.0 != v {
        bad += 1;
    }
    if acpi_tables::u8sum(t) != sum(&v) {
        bad += 1;
    }
    let mut c = acpi_tables::Checksum::default();
    t.to_aml_bytes(&mut c);
    if c.raw_value() != sum(&v) {
        bad += 1;
    }
    bad
}

fn table_ok(img: &[u8], tail: &[u8], copies: usize) -> u64 {
    let mut bad = 0;
    if sum(img) != 0 {
        bad += 1;
    }
    if img.len() < 8 || u32::from_le_bytes([img[4], img[5], img[6], img[7]]) as usize != img.len() {
        bad += 1;
    }
    let want: Vec<u8> = std::iter::repeat(tail.to_vec()).take(copies).flatten().collect();
    if img.len() < want.len() || img[img.len() - want.len()..] != want[..] {
        bad += 1;
    }
    bad
}

fn in_hest<T: Aml + IntoBytes + Immutable + Clone + 'static>(t: &T) -> u64 {
    let mut bad = probe(t);
    let mut h = hest::HEST::new(*b"OEMOEM", *b"OEMTABLE", 1);
    h.add_structure(t.clone());
    let mut img = Vec::new();
    h.to_aml_bytes(&mut img);
    bad += table_ok(&img, t.as_bytes(), 1);
    h.add_structure(t.clone());
    let mut img = Vec::new();
    h.to_aml_bytes(&mut img);
    bad += table_ok(&img, t.as_bytes(), 2);
    bad
}

fn in_madt<T: Aml + IntoBytes + Immutable + Clone + 'static>(t: &T) -> u64 {
    let mut bad = probe(t);
    let mut m = madt::MADT::new(*b"OEMOEM", *b"OEMTABLE", 1, madt::LocalInterruptController::Address(0xfee0_0000));
    m.add_structure(t.clone());
    m.add_structure(t.clone());
    let mut img = Vec::new();
    m.to_aml_bytes(&mut img);
    bad += table_ok(&img, t.as_bytes(), 2);
    bad
}

fn notif(rng: &mut Rng, v: u64) -> hest::NotificationStructure {
    let mut n = if v % 2 == 0 { hest::NotificationStructure::default() } else { hest::NotificationStructure::new(hest::NotificationType::default()) };
    if v & 2 != 0 {
        n = n.conf_write_en(rng.val(16) as u16).poll_interval_ms(rng.val(32) as u32).vector(rng.val(32) as u32);
    }
    if v & 4 != 0 {
        n = n
            .polling_threshold_value(rng.val(32) as u32)
            .polling_threshold_window_ms(rng.val(32) as u32)
            .error_threshold_value(rng.val(32) as u32)
            .error_threshold_window_ms(rng.val(32) as u32);
    }
    n
}

fn gas(rng: &mut Rng, v: u64) -> GAS {
    if v & 8 != 0 {
        GAS::default()
    } else {
        GAS::new(
            acpi_tables::gas::AddressSpace::SystemMemory,
            rng.val(8) as u8,
            rng.val(8) as u8,
            acpi_tables::gas::AccessSize::DwordAccess,
            rng.val(64),
        )
    }
}

pub const KINDS: u64 = 30;

pub fn run(case: &Sx) -> Vec<Ev> {
    let c = case.list();
    let (k, v) = (c[0].num(), c[1].num());
    let mut rng = Rng(0xD0D0_0000 ^ (k << 20) ^ v);
    let rng = &mut rng;
    let en = if v & 16 != 0 { hest::EnabledStatus::Enabled } else { hest::EnabledStatus::Disabled };
    let bad = match k {
        0 => in_hest(&notif(rng, v)),
        1 => {
            let mut g = if v & 32 != 0 { hest::GenericHardwareSource::default() } else { hest::GenericHardwareSource::new(rng.val(16) as u16, en) };
            if v & 64 != 0 {
                g = g.notification(notif(rng, v));
            }
            if v & 128 != 0 {
                g = g.num_records(rng.val(32) as u32).max_sections(rng.val(32) as u32).max_raw_length(rng.val(32) as u32);
                g = g.error_status_address(gas(rng, v)).error_status_block_len(rng.val(32) as u32);
            }
            in_hest(&g)
        }
        2 => {
            let mut g = if v & 32 != 0 { hest::GenericHardwareSourceV2::default() } else { hest::GenericHardwareSourceV2::new(rng.val(16) as u16, en) };
            if v & 64 != 0 {
                g = g.notification(notif(rng, v));
            }
            if v & 128 != 0 {
                g = g.num_records(rng.val(32) as u32).error_status_address(gas(rng, v)).read_ack_register(gas(rng, v >> 1));
                g = g.read_ack_preserve(rng.val(64)).read_ack_write(rng.val(64)).error_status_block_len(rng.val(32) as u32);
            }
            in_hest(&g)
        }
        3 => in_hest(&hest::PcieAerRootPort::default()),
        4 => in_hest(&hest::PcieAerDevice::default()),
        5 => in_hest(&hest::PcieAerBridge::default()),
        6 => in_hest(&hest::PcieAerRootPort::new_global()),
        7 => in_hest(&hest::PcieAerDevice::new_global()),
        8 => in_hest(&hest::PcieAerBridge::new_global()),
        9 => in_madt(&madt::ProcessorLocalApic::default()),
        10 => in_madt(&madt::IoApic::default()),
        11 => in_madt(&madt::Gicc::default()),
        12 => in_madt(&madt::Gicd::default()),
        13 => in_madt(&madt::GicMsi::default()),
        14 => in_madt(&madt::Gicr::default()),
        15 => in_madt(&madt::GicIts::default()),
        16 => in_madt(&madt::RINTC::default()),
        17 => in_madt(&madt::IMSIC::default()),
        18 => in_madt(&madt::GicMsi::new()),
        19 => probe(&hmat::MemoryProximityDomain::default()),
        20 => probe(&pptt::CacheNode::default()),
        21 => probe(&srat::RintcAffinity::default()),
        22 => probe(&gas(rng, v)),
        23 => probe(&acpi_tables::rsdp::Rsdp::default()),
        24 => probe(&acpi_tables::facs::FACS::default()),
        25 => probe(&acpi_tables::bert::BERT::default()),
        26 => probe(&rqsc::CacheResource::default()),
        27 => probe(&rqsc::MemoryAffinityStructureResource::default()),
        28 => probe(&rqsc::ACPIDeviceResource::default()),
        _ => probe(&rqsc::PCIDeviceResource::default()),
    };
    vec![Ev::Num(bad)]
}

pub fn gen(_tier: &str, rng: &mut Rng, emit: &mut Emit) {
    for k in 0..KINDS {
        let variants: u64 = if k <= 2 { 256 } else if k == 22 { 16 } else { 1 };
        for v in 0..variants {
            emit.case(200, l(vec![a(k), a(v)]));
        }
    }
    let _ = rng;
}
