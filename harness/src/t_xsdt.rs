//! component 10: XSDT.  Case vocabulary documented in coq/theories/Spec/XsdtS.v.
use crate::sx::*;
use crate::tcommon::*;
use crate::Emit;
use acpi_tables::xsdt::XSDT;

pub fn run(case: &Sx, out: &mut Vec<Ev>) {
    let c = case.list();
    let ctor = c[0].list();
    let (oem, tbl, rev) = hdr_args(ctor);
    let mut t = XSDT::new(oem, tbl, rev);
    for op in &c[1..] {
        if let Sx::A(_) = op {
            out.push(image(&t));
            continue;
        }
        let o = op.list();
        match o[0].num() {
            1 => t.add_entry(o[1].num()),
            _ => panic!("harness: bad xsdt op"),
        }
        out.push(Ev::Num(0));
    }
}

fn rand_op(rng: &mut Rng) -> Sx {
    l(vec![a(1), a(rng.val(64))])
}

pub fn gen(tier: &str, rng: &mut Rng, emit: &mut Emit) {
    // empty history
    for _ in 0..4 {
        let c = l(rand_hdr(rng));
        emit.case(10, history(rng, c, vec![]));
    }
    // the one op kind alone (full-range and boundary values), and pairs
    for v in [0u64, 1, 0xff, 0x100, 0xffff_ffff, 0x1_0000_0000, u64::MAX - 1, u64::MAX, 0x0102_0304_0506_0708] {
        let c = l(rand_hdr(rng));
        emit.case(10, history(rng, c, vec![l(vec![a(1), a(v)])]));
    }
    for _ in 0..12 {
        let c = l(rand_hdr(rng));
        let op = rand_op(rng);
        emit.case(10, history(rng, c, vec![op]));
    }
    for _ in 0..8 {
        let c = l(rand_hdr(rng));
        let ops = vec![rand_op(rng), rand_op(rng)];
        emit.case(10, history(rng, c, ops));
    }
    // homogeneous runs: 300 entries (length byte carries 255 -> 256) and 8 200 entries (65535 -> 65536 bytes)
    for n in [300usize, 8200] {
        let c = l(rand_hdr(rng));
        let ops = (0..n).map(|_| rand_op(rng)).collect();
        emit.case(10, history(rng, c, ops));
    }
    // all-zero and all-ones entries (the checksum delta of the entry is 0 / maximal)
    for v in [0u64, u64::MAX] {
        let c = l(rand_hdr(rng));
        let ops = (0..300).map(|_| l(vec![a(1), a(v)])).collect();
        emit.case(10, history(rng, c, ops));
    }
    let n = if tier == "thorough" { 3000 } else { 200 };
    for _ in 0..n {
        let c = l(rand_hdr(rng));
        let len = match rng.below(3) {
            0 => rng.range(1, 6),
            1 => rng.range(1, 24),
            _ => rng.range(25, 120),
        };
        let ops = (0..len).map(|_| rand_op(rng)).collect();
        emit.case(10, history(rng, c, ops));
    }
}
