//! component 16: PPTT.  Case vocabulary documented in coq/theories/Spec/PpttS.v.
use crate::sx::*;
use crate::tcommon::*;
use crate::Emit;
use acpi_tables::pptt::*;

#[derive(Clone, Copy)]
enum H {
    P(ProcessorHandle),
    C(CacheHandle),
}

/// the handles only expose their value through Debug: "ProcessorHandle(36)"
fn debug_value(s: String) -> u64 {
    let digits: String = s.chars().filter(|c| c.is_ascii_digit()).collect();
    digits.parse().expect("harness: handle without a number")
}

fn value(h: &H) -> u64 {
    match h {
        H::P(p) => debug_value(format!("{:?}", p)),
        H::C(c) => debug_value(format!("{:?}", c)),
    }
}

fn href<'a>(hs: &'a [Option<H>], x: &Sx) -> &'a H {
    let r = x.list();
    if r.len() != 2 || r[0].num() != 104 {
        panic!("harness: bad handle reference {}", x.show());
    }
    match hs.get(r[1].num() as usize) {
        Some(Some(h)) => h,
        _ => panic!("harness: reference to an operation that returned no handle: {}", x.show()),
    }
}

fn proc_ref(hs: &[Option<H>], x: &Sx) -> ProcessorHandle {
    match href(hs, x) {
        H::P(p) => *p,
        _ => panic!("harness: expected a processor handle: {}", x.show()),
    }
}

fn cache_ref(hs: &[Option<H>], x: &Sx) -> CacheHandle {
    match href(hs, x) {
        H::C(c) => *c,
        _ => panic!("harness: expected a cache handle: {}", x.show()),
    }
}

pub fn run(case: &Sx, out: &mut Vec<Ev>) {
    let c = case.list();
    let ctor = c[0].list();
    let (oem, tbl, rev) = hdr_args(ctor);
    let mut t = PPTT::new(oem, tbl, rev);
    let mut hs: Vec<Option<H>> = Vec::new();
    for op in &c[1..] {
        if let Sx::A(_) = op {
            out.push(image(&t));
            continue;
        }
        let o = op.list();
        let h = match o[0].num() {
            1 => {
                let uid = o[2].num() as u32;
                let mut node = match &o[1] {
                    Sx::L(v) if v.is_empty() => ProcessorNode::new(None, uid),
                    Sx::L(_) => {
                        let p = proc_ref(&hs, &o[1]);
                        ProcessorNode::new(Some(&p), uid)
                    }
                    Sx::A(n) => {
                        let mut nd = ProcessorNode::new(None, uid);
                        nd.parent = *n as u32;
                        nd
                    }
                };
                for b in o[3].list() {
                    let b = b.list();
                    node = match b[0].num() {
                        1 => node.physical(),
                        2 => node.valid(),
                        3 => node.thread(),
                        4 => node.leaf(),
                        5 => node.identical(),
                        6 => node.add_cache(&cache_ref(&hs, &b[1])),
                        7 => {
                            node.flags = b[1].num() as u32;
                            node
                        }
                        8 => {
                            node.parent = match &b[1] {
                                Sx::A(n) => *n as u32,
                                x => value(href(&hs, x)) as u32,
                            };
                            node
                        }
                        9 => {
                            node.acpi_processor_id = b[1].num() as u32;
                            node
                        }
                        _ => panic!("harness: bad processor builder"),
                    };
                }
                H::P(t.add_processor(node))
            }
            2 => {
                let mut b = CacheNodeBuilder::default();
                for s in o[1].list() {
                    let s = s.list();
                    b = match s[0].num() {
                        1 => b.size(s[1].num() as u32),
                        2 => b.sets(s[1].num() as u32),
                        3 => b.associativity(s[1].num() as u8),
                        4 => b.allocation_type(match s[1].num() {
                            0 => AllocationType::Read,
                            1 => AllocationType::Write,
                            2 => AllocationType::Both,
                            _ => panic!("harness: bad AllocationType"),
                        }),
                        5 => b.cache_type(match s[1].num() {
                            0 => CacheType::Data,
                            1 => CacheType::Instruction,
                            2 => CacheType::Unified,
                            _ => panic!("harness: bad CacheType"),
                        }),
                        6 => b.write_policy(match s[1].num() {
                            0 => WritePolicy::Writeback,
                            1 => WritePolicy::Writethrough,
                            _ => panic!("harness: bad WritePolicy"),
                        }),
                        7 => b.line_size(s[1].num() as u16),
                        8 => b.id(s[1].num() as u32),
                        9 => b.next_level(&cache_ref(&hs, &s[1])),
                        _ => panic!("harness: bad cache setter"),
                    };
                }
                H::C(t.add_cache(b.to_node()))
            }
            _ => panic!("harness: bad pptt op"),
        };
        out.push(Ev::Num(value(&h)));
        hs.push(Some(h));
    }
}

fn rand_ctor(rng: &mut Rng) -> Sx {
    l(rand_hdr(rng))
}

fn h(k: usize) -> Sx {
    l(vec![a(104), a(k as u64)])
}

/// indices of the earlier operations of a kind (1 processor, 2 cache)
fn earlier(prev: &[u64], kind: u64) -> Vec<usize> {
    prev.iter().enumerate().filter(|(_, k)| **k == kind).map(|(i, _)| i).collect()
}

fn flag_builder(b: u64) -> Sx {
    l(vec![a(b)])
}

fn cache_setter(rng: &mut Rng, id: u64, prev: &[u64]) -> Option<Sx> {
    Some(match id {
        1 | 2 | 8 => l(vec![a(id), a(rng.val(32))]),
        3 => l(vec![a(3), a(rng.val(8))]),
        4 | 5 => l(vec![a(id), a(rng.below(3))]),
        6 => l(vec![a(6), a(rng.below(2))]),
        7 => l(vec![a(7), a(rng.val(16))]),
        _ => {
            let cs = earlier(prev, 2);
            if cs.is_empty() {
                return None;
            }
            l(vec![a(9), h(*rng.pick(&cs))])
        }
    })
}

fn processor(rng: &mut Rng, prev: &[u64], nres: usize, extra: Vec<Sx>) -> Sx {
    let ps = earlier(prev, 1);
    let cs = earlier(prev, 2);
    let parent = match rng.below(4) {
        0 => l(vec![]),
        1 => a(rng.val(32)),
        _ if !ps.is_empty() => h(*rng.pick(&ps)),
        _ => l(vec![]),
    };
    let mut bs = extra;
    if !cs.is_empty() {
        for _ in 0..nres {
            let pos = rng.below(bs.len() as u64 + 1) as usize;
            bs.insert(pos, l(vec![a(6), h(*rng.pick(&cs))]));
        }
    }
    l(vec![a(1), parent, a(rng.val(32)), l(bs)])
}

fn rand_proc_builders(rng: &mut Rng, prev: &[u64], max: u64) -> Vec<Sx> {
    let ps = earlier(prev, 1);
    let k = rng.below(max + 1);
    (0..k)
        .map(|_| match rng.below(9) {
            0..=4 => flag_builder(1 + rng.below(5)),
            5 => l(vec![a(7), a(rng.val(32))]),
            6 => l(vec![a(9), a(rng.val(32))]),
            7 if !ps.is_empty() && rng.chance(1, 2) => l(vec![a(8), h(*rng.pick(&ps))]),
            7 => l(vec![a(8), a(rng.val(32))]),
            _ => flag_builder(1 + rng.below(5)),
        })
        .collect()
}

fn cache(rng: &mut Rng, prev: &[u64], ids: &[u64]) -> Sx {
    l(vec![a(2), l(ids.iter().filter_map(|id| cache_setter(rng, *id, prev)).collect())])
}

pub fn rand_op(rng: &mut Rng, kind: u64, prev: &[u64]) -> Sx {
    match kind {
        1 => {
            let bs = rand_proc_builders(rng, prev, 7);
            let nres = match rng.below(4) {
                0 => 0,
                1 => rng.below(3),
                _ => rng.below(9),
            } as usize;
            processor(rng, prev, nres, bs)
        }
        _ => {
            let k = rng.below(12);
            let ids: Vec<u64> = (0..k).map(|_| rng.range(1, 9)).collect();
            cache(rng, prev, &ids)
        }
    }
}

fn shuffle<T>(rng: &mut Rng, v: &mut Vec<T>) {
    for k in (1..v.len()).rev() {
        let j = rng.below(k as u64 + 1) as usize;
        v.swap(k, j);
    }
}

/// all sequences of length <= n over the items
fn sequences(items: &[u64], n: usize) -> Vec<Vec<u64>> {
    let mut res: Vec<Vec<u64>> = vec![vec![]];
    let mut last: Vec<Vec<u64>> = vec![vec![]];
    for _ in 0..n {
        let mut next = Vec::new();
        for s in &last {
            for it in items {
                let mut t = s.clone();
                t.push(*it);
                next.push(t);
            }
        }
        res.extend(next.iter().cloned());
        last = next;
    }
    res
}

/// a random history of `len` operations with references to earlier handles
fn rand_history(rng: &mut Rng, len: u64) -> Vec<Sx> {
    let mut prev: Vec<u64> = Vec::new();
    let mut ops = Vec::new();
    for _ in 0..len {
        let k = 1 + rng.below(2);
        ops.push(rand_op(rng, k, &prev));
        prev.push(k);
    }
    ops
}

pub fn gen(tier: &str, rng: &mut Rng, emit: &mut Emit) {
    let thorough = tier == "thorough";
    for _ in 0..4 {
        let c = rand_ctor(rng);
        emit.case(16, history(rng, c, vec![]));
    }
    // each kind alone, all ordered pairs (the second may refer to the first)
    for k in [1u64, 2] {
        for _ in 0..10 {
            let c = rand_ctor(rng);
            let op = rand_op(rng, k, &[]);
            emit.case(16, history(rng, c, vec![op]));
        }
    }
    for k1 in [1u64, 2] {
        for k2 in [1u64, 2] {
            for _ in 0..6 {
                let c = rand_ctor(rng);
                let o1 = rand_op(rng, k1, &[]);
                let o2 = rand_op(rng, k2, &[k1]);
                emit.case(16, history(rng, c, vec![o1, o2]));
            }
        }
    }
    // parent / private-resource / next-level references to nodes that start beyond 64 KiB: 280 maximal processor nodes
    // (58 private resources each = 252 bytes) come first
    for _ in 0..(if thorough { 6 } else { 1 }) {
        let c = rand_ctor(rng);
        let mut prev: Vec<u64> = vec![2];
        let mut ops = vec![cache(rng, &[], &[1, 2])];
        for _ in 0..280 {
            ops.push(processor(rng, &prev, 58, vec![]));
            prev.push(1);
        }
        // late nodes, then nodes referring to the late ones only
        let base = prev.len();
        ops.push(cache(rng, &[], &[3, 4]));
        prev.push(2);
        ops.push(processor(rng, &[], 0, vec![flag_builder(1)]));
        prev.push(1);
        let late: Vec<u64> = prev.iter().enumerate().map(|(i, k)| if i >= base { *k } else { 0 }).collect();
        ops.push(cache(rng, &late, &[9, 1]));
        prev.push(2);
        for n in [1usize, 4] {
            let mut p = processor(rng, &late, n, vec![]);
            // force the parent to be the late processor node
            if let Sx::L(v) = &mut p { v[1] = h(base + 1); }
            ops.push(p);
            prev.push(1);
        }
        emit.case(16, history(rng, c, ops));
    }
    // all interleavings of the two node kinds for histories of length <= 4
    for seq in sequences(&[1, 2], 4) {
        let c = rand_ctor(rng);
        let mut prev: Vec<u64> = Vec::new();
        let mut ops = Vec::new();
        for k in seq {
            ops.push(rand_op(rng, k, &prev));
            prev.push(k);
        }
        emit.case(16, history(rng, c, ops));
    }
    // homogeneous runs: 300 smallest entries of each kind; a run crossing 65535 -> 65536 bytes
    for k in [1u64, 2] {
        let c = rand_ctor(rng);
        let ops = (0..300)
            .map(|_| if k == 1 { l(vec![a(1), l(vec![]), a(rng.val(32)), l(vec![])]) } else { l(vec![a(2), l(vec![])]) })
            .collect();
        emit.case(16, history(rng, c, ops));
    }
    // (the C05 oracle re-derives the layout before every earlier handle at every observation: cubic in the history
    // length, so the runs crossing 65536 bytes and the 300-operation random histories are left to the other properties)
    if true {
        let c = rand_ctor(rng);
        let mut prev: Vec<u64> = Vec::new();
        let mut ops = Vec::new();
        for _ in 0..2345 {
            // 2345 * 28 bytes > 65536
            ops.push(cache(rng, &prev, &[1, 9, 4]));
            prev.push(2);
        }
        emit.case(16, history(rng, c, ops));
    }
    if true {
        // 240 * (28 + 252) bytes > 65536: a cache node followed by a processor with 58 references to it
        let c = rand_ctor(rng);
        let mut ops = Vec::new();
        for k in 0..240usize {
            ops.push(l(vec![a(2), l(vec![l(vec![a(8), a(rng.val(32))])])]));
            let refs = (0..58).map(|_| l(vec![a(6), h(2 * k)])).collect();
            let parent = if k == 0 { l(vec![]) } else { h(2 * k - 1) };
            ops.push(l(vec![a(1), parent, a(rng.val(32)), l(refs)]));
        }
        emit.case(16, history(rng, c, ops));
    }
    // processor flags: every sequence of length <= 3 over the 5 builders, every subset in a random order, doubled subsets
    for seq in sequences(&[1, 2, 3, 4, 5], 3) {
        let c = rand_ctor(rng);
        let op = l(vec![a(1), l(vec![]), a(rng.val(32)), l(seq.iter().map(|b| flag_builder(*b)).collect())]);
        emit.case(16, history(rng, c, vec![op]));
    }
    for mask in 0..32u64 {
        for rep in 0..3 {
            let c = rand_ctor(rng);
            let mut bs: Vec<Sx> = (0..5).filter(|b| mask >> b & 1 == 1).map(|b| flag_builder(b + 1)).collect();
            if rep == 2 {
                let again = bs.clone();
                bs.extend(again);
            }
            if rep > 0 {
                shuffle(rng, &mut bs);
            }
            let op = l(vec![a(1), l(vec![]), a(rng.val(32)), l(bs)]);
            emit.case(16, history(rng, c, vec![op]));
        }
    }
    // pub fields mixed with the builders, parents by handle / raw number
    for _ in 0..60 {
        let c = rand_ctor(rng);
        let o1 = rand_op(rng, 1, &[]);
        let o2 = rand_op(rng, 2, &[1]);
        let bs = rand_proc_builders(rng, &[1, 2], 10);
        let nres = rng.below(4) as usize;
        let o3 = processor(rng, &[1, 2], nres, bs);
        emit.case(16, history(rng, c, vec![o1, o2, o3]));
    }
    // cache setters: every subset of the 9 setters in a random order; every sequence of length <= 2; repetitions
    for mask in 0..512u64 {
        let c = rand_ctor(rng);
        let mut ids: Vec<u64> = (1..=9).filter(|b| mask >> (b - 1) & 1 == 1).collect();
        shuffle(rng, &mut ids);
        let first = cache(rng, &[], &[8]);
        let op = cache(rng, &[2], &ids);
        emit.case(16, history(rng, c, vec![first, op]));
    }
    for seq in sequences(&[1, 2, 3, 4, 5, 6, 7, 8, 9], 2) {
        let c = rand_ctor(rng);
        let first = cache(rng, &[], &[1]);
        let op = cache(rng, &[2], &seq);
        emit.case(16, history(rng, c, vec![first, op]));
    }
    for _ in 0..(if thorough { 600 } else { 80 }) {
        let c = rand_ctor(rng);
        let k = rng.range(2, 14);
        let ids: Vec<u64> = (0..k).map(|_| rng.range(1, 9)).collect();
        let first = cache(rng, &[], &[7]);
        let second = cache(rng, &[2], &[2, 9]);
        let op = cache(rng, &[2, 2], &ids);
        emit.case(16, history(rng, c, vec![first, second, op]));
    }
    // every enum value of the three attribute setters, alone and combined
    for al in 0..3u64 {
        for ct in 0..3u64 {
            for wp in 0..2u64 {
                let c = rand_ctor(rng);
                let mut st = vec![l(vec![a(4), a(al)]), l(vec![a(5), a(ct)]), l(vec![a(6), a(wp)])];
                shuffle(rng, &mut st);
                emit.case(16, history(rng, c, vec![l(vec![a(2), l(st)])]));
            }
        }
    }
    for id in [4u64, 5, 6] {
        for e in 0..(if id == 6 { 2 } else { 3 }) {
            let c = rand_ctor(rng);
            emit.case(16, history(rng, c, vec![l(vec![a(2), l(vec![l(vec![a(id), a(e)])])])]));
        }
    }
    // processors with 0..70 private resources (58 is the last count whose length fits the length byte)
    for n in 0..=70usize {
        let c = rand_ctor(rng);
        let c1 = cache(rng, &[], &[1, 2]);
        let c2 = cache(rng, &[2], &[9, 3]);
        let bs = rand_proc_builders(rng, &[2, 2], 3);
        let p = processor(rng, &[2, 2], n, bs);
        emit.case(16, history(rng, c, vec![c1, c2, p]));
    }
    // random mixed histories with later nodes referring to earlier handles
    let n = if thorough { 3000 } else { 200 };
    for _ in 0..n {
        let c = rand_ctor(rng);
        let len = match rng.below(3) {
            0 => rng.range(1, 6),
            1 => rng.range(1, 24),
            _ => rng.range(25, 120),
        };
        let ops = rand_history(rng, len);
        emit.case(16, history(rng, c, ops));
    }
    for _ in 0..(if thorough { 20 } else { 3 }) {
        let c = rand_ctor(rng);
        let ops = rand_history(rng, 300);
        emit.case(16, history(rng, c, ops));
    }
}

/// C18: the processor node's length is a u8 field (20 + 4 * resources)
#[allow(dead_code)]
pub fn gen18(_tier: &str, rng: &mut Rng, emit: &mut Emit) {
    for n in [57usize, 58, 59, 60, 61, 62, 63, 64, 65, 100, 122, 123, 128, 255, 256, 300] {
        let c = rand_ctor(rng);
        let c1 = cache(rng, &[], &[1, 2]);
        let p = processor(rng, &[2], n, vec![flag_builder(1)]);
        let after = cache(rng, &[2], &[9]);
        emit.case(16, history(rng, c, vec![c1, p, after]));
    }
}
