//! component 24: TpmServer1_2.  Case vocabulary documented in coq/theories/Spec/Tpm2S.v.
use crate::sx::*;
use crate::tcommon::*;
use crate::Emit;
use acpi_tables::gas::{AccessSize, AddressSpace, GAS};
use acpi_tables::tpm2::TpmServer1_2;

fn space(n: u64) -> AddressSpace {
    match n {
        0x0 => AddressSpace::SystemMemory,
        0x1 => AddressSpace::SystemIo,
        0x2 => AddressSpace::PciConfigSpace,
        0x3 => AddressSpace::EmbeddedController,
        0x4 => AddressSpace::Smbus,
        0x5 => AddressSpace::SystemCmos,
        0x6 => AddressSpace::PciBarTarget,
        0x7 => AddressSpace::Ipmi,
        0x8 => AddressSpace::GeneralPursposeIo,
        0x9 => AddressSpace::GenericSerialBus,
        0xa => AddressSpace::PlatformCommunicationsChannel,
        0xb => AddressSpace::PlatformRuntimeMechanism,
        0x7f => AddressSpace::FunctionalFixedHardware,
        _ => panic!("harness: bad AddressSpace"),
    }
}

fn access(n: u64) -> AccessSize {
    match n {
        0 => AccessSize::Undefined,
        1 => AccessSize::ByteAccess,
        2 => AccessSize::WordAccess,
        3 => AccessSize::DwordAccess,
        4 => AccessSize::QwordAccess,
        _ => panic!("harness: bad AccessSize"),
    }
}

fn gas(o: &[Sx]) -> GAS {
    raw(GAS::new(space(o[1].num()), o[2].num() as u8, o[3].num() as u8, access(o[4].num()), o[5].num()))
}

pub fn run(case: &Sx, out: &mut Vec<Ev>) {
    let c = case.list();
    let ctor = c[0].list();
    let (oem, tbl, rev) = hdr_args(ctor);
    let mut t = TpmServer1_2::new(oem, tbl, rev);
    for op in &c[1..] {
        if let Sx::A(_) = op {
            out.push(image(&t));
            continue;
        }
        let o = op.list();
        let n = |i: usize| o[i].num();
        t = match n(0) {
            1 => t.log_area(n(1), n(2)),
            2 => t.active_low(),
            3 => t.edge_triggered(),
            4 => t.sci_gpe(n(1) as u8),
            5 => t.gsi(n(1) as u32),
            6 => t.bus_is_pnp(),
            7 => t.pci_sbdf(n(1) as u8, n(2) as u8, n(3) as u8, n(4) as u8),
            8 => t.base_addr(gas(o)),
            9 => t.config_addr(gas(o)),
            _ => panic!("harness: bad tpmserver op"),
        };
        out.push(Ev::Num(0));
    }
}

const SPACES: [u64; 13] = [0, 1, 2, 3, 4, 5, 6, 7, 8, 9, 0xa, 0xb, 0x7f];

fn rand_gas(rng: &mut Rng, id: u64) -> Sx {
    l(vec![a(id), a(*rng.pick(&SPACES)), a(rng.val(8)), a(rng.val(8)), a(rng.below(5)), a(rng.val(64))])
}

pub fn rand_op(rng: &mut Rng, kind: u64) -> Sx {
    match kind {
        1 => l(vec![a(1), a(rng.val(64)), a(rng.val(64))]),
        2 | 3 | 6 => l(vec![a(kind)]),
        4 => l(vec![a(4), a(rng.val(8))]),
        5 => l(vec![a(5), a(rng.val(32))]),
        7 => l(vec![a(7), a(rng.val(8)), a(rng.val(8)), a(rng.below(32)), a(rng.below(8))]),
        _ => rand_gas(rng, kind),
    }
}

fn shuffle(rng: &mut Rng, v: &mut Vec<u64>) {
    for i in (1..v.len()).rev() {
        let j = rng.below(i as u64 + 1) as usize;
        v.swap(i, j);
    }
}

fn emit_prog(rng: &mut Rng, emit: &mut Emit, kinds: &[u64]) {
    let c = l(rand_hdr(rng));
    let ops = kinds.iter().map(|k| rand_op(rng, *k)).collect();
    emit.case(24, history(rng, c, ops));
}

pub fn gen(tier: &str, rng: &mut Rng, emit: &mut Emit) {
    let kinds: Vec<u64> = (1..=9).collect();
    // no builder at all
    for _ in 0..6 {
        emit_prog(rng, emit, &[]);
    }
    // each builder alone (several argument sets), all ordered pairs (incl. the same builder twice), all ordered triples
    for k in &kinds {
        for _ in 0..6 {
            emit_prog(rng, emit, &[*k]);
        }
    }
    for k1 in &kinds {
        for k2 in &kinds {
            emit_prog(rng, emit, &[*k1, *k2]);
        }
    }
    for k1 in &kinds {
        for k2 in &kinds {
            for k3 in &kinds {
                if k1 != k2 && k2 != k3 && k1 != k3 {
                    emit_prog(rng, emit, &[*k1, *k2, *k3]);
                }
            }
        }
    }
    // every subset of the 9 builders: declaration order, reverse order, random orders, and with repetitions
    let orders = if tier == "thorough" { 12 } else { 2 };
    for mask in 0u32..512 {
        let sub: Vec<u64> = kinds.iter().filter(|k| mask & (1 << (**k - 1)) != 0).cloned().collect();
        emit_prog(rng, emit, &sub);
        let mut r = sub.clone();
        r.reverse();
        emit_prog(rng, emit, &r);
        for _ in 0..orders {
            let mut p = sub.clone();
            shuffle(rng, &mut p);
            emit_prog(rng, emit, &p);
            if !p.is_empty() {
                // repetitions: some members called again at random places (with fresh arguments: last writer wins)
                let extra = rng.range(1, 4);
                for _ in 0..extra {
                    let x = *rng.pick(&sub);
                    let at = rng.below(p.len() as u64 + 1) as usize;
                    p.insert(at, x);
                }
                emit_prog(rng, emit, &p);
            }
        }
    }
    // pci_sbdf boundaries: device 31 / 32, function 7 / 8 (beyond: refused), in the middle of a chain
    for (d, f) in [(0u64, 0u64), (31, 7), (32, 0), (0, 8), (32, 8), (255, 255), (31, 8), (32, 7)] {
        let c = l(rand_hdr(rng));
        let ops = vec![rand_op(rng, 1), l(vec![a(7), a(rng.val(8)), a(rng.val(8)), a(d), a(f)]), rand_op(rng, 5)];
        emit.case(24, history(rng, c, ops));
    }
    // every address space / access size through both GAS builders
    for sp in SPACES {
        for acc in 0..5u64 {
            let c = l(rand_hdr(rng));
            let id = 8 + rng.below(2);
            let ops = vec![l(vec![a(id), a(sp), a(rng.val(8)), a(rng.val(8)), a(acc), a(rng.val(64))])];
            emit.case(24, history(rng, c, ops));
        }
    }
    // random chains with repetitions
    let n = if tier == "thorough" { 3000 } else { 200 };
    for _ in 0..n {
        let len = match rng.below(3) {
            0 => rng.range(1, 6),
            1 => rng.range(1, 24),
            _ => rng.range(25, 60),
        };
        let p: Vec<u64> = (0..len).map(|_| *rng.pick(&kinds)).collect();
        emit_prog(rng, emit, &p);
    }
}
