//! component 28: SPCR.  Case vocabulary documented in coq/theories/Spec/SpcrS.v.
use crate::sx::*;
use crate::tcommon::*;
use crate::Emit;
use acpi_tables::spcr::SPCR;

pub fn run(case: &Sx, out: &mut Vec<Ev>) {
    let c = case.list();
    let ctor = c[0].list();
    let (oem, tbl, rev) = hdr_args(ctor);
    let t = SPCR::sbi(oem, tbl, rev);
    for op in &c[1..] {
        if let Sx::A(_) = op {
            out.push(image(&t));
            continue;
        }
        panic!("harness: SPCR has no operation");
    }
}

pub fn gen(tier: &str, rng: &mut Rng, emit: &mut Emit) {
    let n = if tier == "thorough" { 1000 } else { 100 };
    for _ in 0..n {
        let c = l(rand_hdr(rng));
        emit.case(28, history(rng, c, vec![]));
    }
}
