//! helpers shared by the table components
use crate::sx::*;
use acpi_tables::Aml;

use acpi_tables::AmlSink;
use std::cell::Cell;

thread_local! {
    /// which sink `serialise` uses: 0 Vec<u8>, 1 byte-only sink, 2 sink overriding every method, 3 Checksum (+ u8sum),
    /// 4 Sdt, 5 PackageBuilder
    pub static SINK_MODE: Cell<u8> = Cell::new(0);
    /// observations that disagreed between a sink and the plain vector (C14)
    pub static SINK_MISMATCH: Cell<u64> = Cell::new(0);
}

/// a sink that implements only the mandatory single-byte method
struct ByteOnly(Vec<u8>);
impl AmlSink for ByteOnly {
    fn byte(&mut self, byte: u8) {
        self.0.push(byte);
    }
}

/// a sink that overrides every method and records how it was called
#[derive(Default)]
struct Recorder {
    bytes: Vec<u8>,
    calls: [u64; 5],
}
impl AmlSink for Recorder {
    fn byte(&mut self, byte: u8) {
        self.calls[0] += 1;
        self.bytes.push(byte);
    }
    fn word(&mut self, word: u16) {
        self.calls[1] += 1;
        self.bytes.extend_from_slice(&word.to_le_bytes());
    }
    fn dword(&mut self, dword: u32) {
        self.calls[2] += 1;
        self.bytes.extend_from_slice(&dword.to_le_bytes());
    }
    fn qword(&mut self, qword: u64) {
        self.calls[3] += 1;
        self.bytes.extend_from_slice(&qword.to_le_bytes());
    }
    fn vec(&mut self, v: &[u8]) {
        self.calls[4] += 1;
        self.bytes.extend_from_slice(v);
    }
}

fn note_mismatch() {
    SINK_MISMATCH.with(|m| m.set(m.get() + 1));
}

/// serialises through the sink selected by SINK_MODE and returns the byte stream that sink received
pub fn serialise(t: &dyn Aml) -> Vec<u8> {
    match SINK_MODE.with(|m| m.get()) {
        0 => {
            let mut v = Vec::new();
            t.to_aml_bytes(&mut v);
            v
        }
        1 => {
            let mut s = ByteOnly(Vec::new());
            t.to_aml_bytes(&mut s);
            s.0
        }
        2 => {
            let mut s = Recorder::default();
            t.to_aml_bytes(&mut s);
            s.bytes
        }
        3 => {
            // the checksum sink only keeps a sum: check it (and the u8sum helper) against the plain vector
            let mut v = Vec::new();
            t.to_aml_bytes(&mut v);
            let sum = v.iter().fold(0u8, |a, x| a.wrapping_add(*x));
            let mut c = acpi_tables::Checksum::default();
            t.to_aml_bytes(&mut c);
            if c.raw_value() != sum || acpi_tables::u8sum(t) != sum {
                note_mismatch();
            }
            v
        }
        4 => {
            // the generic table as a sink: the table it ends up as (header Length and Checksum included) must depend only
            // on the concatenation of the bytes, not on how they were chunked: compare with one slice append of the same
            // bytes; also with the table pre-filled so that the 256-byte length carry falls inside the object
            let mut v = Vec::new();
            t.to_aml_bytes(&mut v);
            let mut body = Vec::new();
            for prefill in [0usize, (220usize).saturating_sub(v.len() / 2)] {
                let mk = || {
                    let mut s = acpi_tables::sdt::Sdt::new(*b"SINK", 36, 1, *b"OEMOEM", *b"OEMTABLE", 1);
                    s.append_slice(&vec![0x5a; prefill]);
                    s
                };
                let mut s = mk();
                t.to_aml_bytes(&mut s);
                let mut whole = mk();
                whole.append_slice(&v);
                let all = s.as_slice();
                if u32::from_le_bytes([all[4], all[5], all[6], all[7]]) as usize != all.len()
                    || all != whole.as_slice()
                    || all.iter().fold(0u8, |a, x| a.wrapping_add(*x)) != 0
                {
                    note_mismatch();
                }
                if prefill == 0 {
                    body = all[36..].to_vec();
                }
            }
            body
        }
        _ => {
            let mut pb = acpi_tables::aml::PackageBuilder::new();
            t.to_aml_bytes(&mut pb);
            let mut v = Vec::new();
            pb.to_aml_bytes(&mut v);
            // PackageOp PkgLength NumElements(0) data
            let pl = (v[1] >> 6) as usize + 1;
            v[1 + pl + 1..].to_vec()
        }
    }
}

/// C14: a structure that can be handed to a table through its raw in-memory form (`add_structure`'s bound): the raw form
/// must equal the serialised form, and the byte-sum helper the arithmetic sum of the serialised bytes.  Checked while the
/// checksum-sink configuration is selected; a disagreement is counted like a sink disagreement.
pub fn raw_check<T: Aml + zerocopy::IntoBytes + zerocopy::Immutable>(t: &T) {
    if SINK_MODE.with(|m| m.get()) == 3 {
        let mut v = Vec::new();
        t.to_aml_bytes(&mut v);
        let sum = v.iter().fold(0u8, |a, x| a.wrapping_add(*x));
        if t.as_bytes() != v.as_slice() || acpi_tables::u8sum(t) != sum {
            note_mismatch();
        }
    }
}

pub fn raw<T: Aml + zerocopy::IntoBytes + zerocopy::Immutable>(t: T) -> T {
    raw_check(&t);
    t
}

pub fn image(t: &dyn Aml) -> Ev {
    Ev::Bytes(serialise(t))
}

/// (oem_id, oem_table_id, oem_revision) from the first three items of a constructor
pub fn hdr_args(c: &[Sx]) -> ([u8; 6], [u8; 8], u32) {
    (c[0].arr::<6>(), c[1].arr::<8>(), c[2].num() as u32)
}

pub fn rand_hdr(rng: &mut Rng) -> Vec<Sx> {
    let (oem, tbl): (Vec<u8>, Vec<u8>) = match rng.below(4) {
        0 => (vec![0; 6], vec![0; 8]),
        1 => (vec![0xff; 6], vec![0xff; 8]),
        2 => (b"FOOBAR".to_vec(), b"CAFEDEAD".to_vec()),
        _ => (rng.bytes(6), rng.bytes(8)),
    };
    vec![blist(&oem), blist(&tbl), a(rng.val(32))]
}

/// a byte list that always prints as an explicit byte string
pub fn blist(b: &[u8]) -> Sx {
    bytes(b)
}

/// builds the case (ctor op ...) inserting observations: after every operation for short histories,
/// around the 255/256 and 65535/65536 entry boundaries, at a few random places and at the end otherwise
pub fn history(rng: &mut Rng, ctor: Sx, ops: Vec<Sx>) -> Sx {
    let n = ops.len();
    let mut v = vec![ctor, a(1)];
    let dense = n <= 24;
    let mut marks: Vec<usize> = Vec::new();
    if !dense {
        for b in [255usize, 256, 65_535, 65_536] {
            for d in 0..3 {
                marks.push(b + d - 1);
            }
        }
        for _ in 0..4 {
            marks.push(rng.below(n as u64) as usize + 1);
        }
        marks.push(n);
    }
    for (i, op) in ops.into_iter().enumerate() {
        v.push(op);
        if dense || marks.contains(&(i + 1)) {
            v.push(a(1));
        }
    }
    l(v)
}

/// turns a name into one that is unusual but legal for a Rust string: NUL bytes at the end or inside, blanks at either end,
/// DEL, a two-byte UTF-8 character (string lengths count bytes)
pub fn odd_string(rng: &mut Rng, v: &mut Vec<u8>) {
    match rng.below(6) {
        0 => v.extend(std::iter::repeat(0u8).take(rng.range(1, 4) as usize)),
        1 => { let k = rng.below(v.len() as u64 + 1) as usize; v.insert(k, 0); }
        2 => { v.insert(0, b' '); v.push(b' '); }
        3 => v.push(0x7f),
        4 => { let k = rng.below(v.len() as u64 + 1) as usize; v.insert(k, 0xa9); v.insert(k, 0xc3); }
        _ => { v.push(0); let k = rng.below(v.len() as u64) as usize; v.insert(k, b'\t'); }
    }
}

/// a long history observed only at the start and after the given numbers of operations (carries of a 16- or 32-bit count)
pub fn history_at(ctor: Sx, ops: Vec<Sx>, marks: &[usize]) -> Sx {
    let mut v = vec![ctor, a(1)];
    for (i, op) in ops.into_iter().enumerate() {
        v.push(op);
        if marks.contains(&(i + 1)) {
            v.push(a(1));
        }
    }
    l(v)
}

/// does this run want the sparse 65 538-entry histories?  (the checksum and length properties, whose oracles are linear in the
/// image; the thorough tier has its own, densely observed 65 540-entry histories where `long_runs_affordable`)
pub fn wants_long_runs(tier: &str, emit: &crate::Emit) -> bool {
    let _ = tier;
    emit.prop() == 1 || emit.prop() == 2
}

/// the 65 540-entry histories of the thorough tier are for the properties whose oracles are linear in the history: the walk /
/// handle judgements of C03 and C05 re-walk the image for every pending handle (quadratic: more than an hour for one such case)
pub fn long_runs_affordable(emit: &crate::Emit) -> bool {
    // (C14 pushes every image byte by byte into a generic table that re-sums itself at each byte: quadratic as well)
    emit.prop() != 3 && emit.prop() != 5 && emit.prop() != 14
}
