//! helpers shared by the table components
use crate::sx::*;
use acpi_tables::Aml;

pub fn image(t: &dyn Aml) -> Ev {
    let mut v = Vec::new();
    t.to_aml_bytes(&mut v);
    Ev::Bytes(v)
}

/// (oem_id, oem_table_id, oem_revision) from the first three items of a constructor
pub fn hdr_args(c: &[Sx]) -> ([u8; 6], [u8; 8], u32) {
    (c[0].arr::<6>(), c[1].arr::<8>(), c[2].num() as u32)
}

pub fn rand_hdr(rng: &mut Rng) -> Vec<Sx> {
    let (oem, tbl): (Vec<u8>, Vec<u8>) = match rng.below(4) {
        0 => (vec![0; 6], vec![0; 8]),
        1 => (vec![0xff; 6], vec![0xff; 8]),
        2 => (b"FOOBAR".to_vec(), b"CAFEDEAD".to_vec()),
        _ => (rng.bytes(6), rng.bytes(8)),
    };
    vec![blist(&oem), blist(&tbl), a(rng.val(32))]
}

/// a byte list that always prints as an explicit byte string
pub fn blist(b: &[u8]) -> Sx {
    bytes(b)
}

/// builds the case (ctor op ...) inserting observations: after every operation for short histories,
/// around the 255/256 and 65535/65536 entry boundaries, at a few random places and at the end otherwise
pub fn history(rng: &mut Rng, ctor: Sx, ops: Vec<Sx>) -> Sx {
    let n = ops.len();
    let mut v = vec![ctor, a(1)];
    let dense = n <= 24;
    let mut marks: Vec<usize> = Vec::new();
    if !dense {
        for b in [255usize, 256, 65_535, 65_536] {
            for d in 0..3 {
                marks.push(b + d - 1);
            }
        }
        for _ in 0..4 {
            marks.push(rng.below(n as u64) as usize + 1);
        }
        marks.push(n);
    }
    for (i, op) in ops.into_iter().enumerate() {
        v.push(op);
        if dense || marks.contains(&(i + 1)) {
            v.push(a(1));
        }
    }
    l(v)
}
