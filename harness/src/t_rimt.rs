//! component 18: RIMT.  Case vocabulary documented in coq/theories/Spec/RimtS.v.
use crate::sx::*;
use crate::tcommon::*;
use crate::Emit;
use acpi_tables::rimt::*;
use acpi_tables::Aml;

fn opt(x: &Sx) -> Option<u64> {
    match x.list() {
        [] => None,
        [v] => Some(v.num()),
        _ => panic!("harness: bad option argument"),
    }
}

/// IommuOffset is opaque: embed it in a throw-away IdMapping and read the field back
fn handle_value(h: IommuOffset) -> u64 {
    let mut v = Vec::new();
    IdMapping::new(0, 0, 0, h, false, false, false).to_aml_bytes(&mut v);
    u32::from_le_bytes([v[12], v[13], v[14], v[15]]) as u64
}

fn pci(x: &Sx) -> Option<PciDevice> {
    match x.list() {
        [] => None,
        [d] => {
            let d = d.list();
            Some(PciDevice::new(d[0].num() as u16, d[1].num() as u8, d[2].num() as u8, d[3].num() as u8))
        }
        _ => panic!("harness: bad pci option"),
    }
}

fn wires(x: &Sx) -> Option<Vec<InterruptWire>> {
    match x.list() {
        [] => None,
        [ws] => Some(
            ws.list()
                .iter()
                .map(|w| {
                    let w = w.list();
                    InterruptWire::new(w[0].num() as u32, w[1].boolean(), w[2].boolean(), w[3].num() as u16)
                })
                .collect(),
        ),
        _ => panic!("harness: bad wires option"),
    }
}

fn maps(x: &Sx, handles: &[Option<IommuOffset>]) -> Option<Vec<IdMapping>> {
    match x.list() {
        [] => None,
        [ms] => Some(
            ms.list()
                .iter()
                .map(|m| {
                    let m = m.list();
                    let r = m[3].list();
                    if r.len() != 2 || r[0].num() != 104 {
                        panic!("harness: bad handle reference");
                    }
                    let h = match handles.get(r[1].num() as usize) {
                        Some(Some(h)) => *h,
                        _ => panic!("harness: reference to an op that returned no IommuOffset"),
                    };
                    IdMapping::new(m[0].num() as u32, m[1].num() as u32, m[2].num() as u32, h, m[4].boolean(), m[5].boolean(), m[6].boolean())
                })
                .collect(),
        ),
        _ => panic!("harness: bad mappings option"),
    }
}

pub fn run(case: &Sx, out: &mut Vec<Ev>) {
    let c = case.list();
    let ctor = c[0].list();
    let (oem, tbl, rev) = hdr_args(ctor);
    let mut t = RIMT::new(oem, tbl, rev);
    let mut handles: Vec<Option<IommuOffset>> = Vec::new();
    for op in &c[1..] {
        if let Sx::A(_) = op {
            out.push(image(&t));
            continue;
        }
        let o = op.list();
        let n = |i: usize| o[i].num();
        match n(0) {
            1 => {
                let dev = Iommu::new(n(1) as u16, opt(&o[2]), pci(&o[3]), opt(&o[4]).map(|v| v as u32), wires(&o[5]));
                let h = t.add_iommu(dev);
                handles.push(Some(h));
                out.push(Ev::Num(handle_value(h)));
            }
            2 => {
                let dev = PcieRootComplex::new(n(1) as u16, n(2) as u16, o[3].boolean(), o[4].boolean(), maps(&o[5], &handles));
                t.add_pcie_root_complex(dev);
                handles.push(None);
                out.push(Ev::Num(0));
            }
            3 => {
                let name = String::from_utf8(o[2].bytes()).expect("harness: platform name must be UTF-8");
                let dev = Platform::new(n(1) as u16, name, maps(&o[3], &handles));
                t.add_platform(dev);
                handles.push(None);
                out.push(Ev::Num(0));
            }
            _ => panic!("harness: bad rimt op"),
        }
    }
}

// ------------------------------------------------------------------ generators

fn some(x: Sx) -> Sx {
    l(vec![x])
}
fn none() -> Sx {
    l(vec![])
}

fn rand_opt(rng: &mut Rng, bits: u32) -> Sx {
    if rng.chance(1, 2) {
        none()
    } else {
        some(a(rng.val(bits)))
    }
}

/// (segment bus device function); rarely a device / function the constructor refuses
fn rand_pci_dev(rng: &mut Rng) -> Sx {
    let dev = if rng.chance(1, 60) { rng.range(32, 255) } else { rng.below(32) };
    let func = if rng.chance(1, 60) { rng.range(8, 255) } else { rng.below(8) };
    l(vec![a(rng.val(16)), a(rng.val(8)), a(dev), a(func)])
}

fn wire(rng: &mut Rng, flags: u64) -> Sx {
    l(vec![a(rng.val(32)), a(flags & 1), a((flags >> 1) & 1), a(rng.val(16))])
}

fn wire_list(rng: &mut Rng, k: u64) -> Sx {
    l((0..k).map(|i| { let f = if k >= 4 { i } else { rng.below(4) }; wire(rng, f) }).collect())
}

fn mapping(rng: &mut Rng, iommus: &[usize], flags: u64) -> Sx {
    let k = *rng.pick(iommus) as u64;
    l(vec![a(rng.val(32)), a(rng.val(32)), a(rng.val(32)), l(vec![a(104), a(k)]), a(flags & 1), a((flags >> 1) & 1), a((flags >> 2) & 1)])
}

/// Option<Vec<IdMapping>> with k mappings referring to random earlier add_iommu ops (k forced to 0 when there is none)
fn map_opt(rng: &mut Rng, iommus: &[usize], k: Option<u64>) -> Sx {
    match k {
        None => none(),
        Some(k) => {
            let k = if iommus.is_empty() { 0 } else { k };
            some(l((0..k).map(|i| { let f = if k >= 8 { i } else { rng.below(8) }; mapping(rng, iommus, f) }).collect()))
        }
    }
}

fn ascii_name(rng: &mut Rng, n: u64) -> Sx {
    const ALPHA: &[u8] = b"ABCDEFGHIJKLMNOPQRSTUVWXYZ0123456789._\\";
    let mut v = (0..n).map(|_| *rng.pick(ALPHA)).collect::<Vec<u8>>();
    // one name in eight is unusual but legal for a Rust String: NUL bytes at the end (1..4) or inside, blanks at either end,
    // DEL, a two-byte UTF-8 character (the length is counted in bytes)
    if rng.chance(1, 8) {
        crate::tcommon::odd_string(rng, &mut v);
    }
    bytes(&v)
}

/// sub-element count: None = the Option is absent
fn rand_sub(rng: &mut Rng, min: u64, max: u64) -> Option<u64> {
    if min == 0 && rng.chance(1, 4) {
        None
    } else {
        Some(rng.range(min, max))
    }
}

fn iommu_op(rng: &mut Rng, base: Sx, pci: Sx, prox: Sx, wires: Option<u64>) -> Sx {
    let w = match wires {
        None => none(),
        Some(k) => some(wire_list(rng, k)),
    };
    l(vec![a(1), a(rng.val(16)), base, pci, prox, w])
}

fn pcierc_op(rng: &mut Rng, iommus: &[usize], flags: u64, k: Option<u64>) -> Sx {
    l(vec![a(2), a(rng.val(16)), a(rng.val(16)), a(flags & 1), a((flags >> 1) & 1), map_opt(rng, iommus, k)])
}

fn platform_op(rng: &mut Rng, iommus: &[usize], name_len: u64, k: Option<u64>) -> Sx {
    l(vec![a(3), a(rng.val(16)), ascii_name(rng, name_len), map_opt(rng, iommus, k)])
}

/// a random op of the given kind; `iommus` = indices of the earlier add_iommu ops
pub fn rand_op(rng: &mut Rng, kind: u64, iommus: &[usize], min_sub: u64, max_sub: u64) -> Sx {
    match kind {
        1 => {
            let base = rand_opt(rng, 64);
            let pci = if rng.chance(1, 2) { none() } else { some(rand_pci_dev(rng)) };
            let prox = rand_opt(rng, 32);
            let w = rand_sub(rng, min_sub, max_sub);
            iommu_op(rng, base, pci, prox, w)
        }
        2 => {
            let f = rng.below(4);
            let k = rand_sub(rng, min_sub, max_sub);
            pcierc_op(rng, iommus, f, k)
        }
        _ => {
            let n = rng.below(41);
            let k = rand_sub(rng, min_sub, max_sub);
            platform_op(rng, iommus, n, k)
        }
    }
}

/// a history of the given kinds, later mappings referring to random earlier IOMMUs
fn build(rng: &mut Rng, kinds: &[u64], min_sub: u64, max_sub: u64) -> Vec<Sx> {
    let mut iommus: Vec<usize> = Vec::new();
    let mut ops = Vec::new();
    for (i, k) in kinds.iter().enumerate() {
        ops.push(rand_op(rng, *k, &iommus, min_sub, max_sub));
        if *k == 1 {
            iommus.push(i);
        }
    }
    ops
}

fn rand_ctor(rng: &mut Rng) -> Sx {
    l(rand_hdr(rng))
}

fn emit_ops(rng: &mut Rng, emit: &mut Emit, ops: Vec<Sx>) {
    let c = rand_ctor(rng);
    emit.case(18, history(rng, c, ops));
}

pub fn gen(tier: &str, rng: &mut Rng, emit: &mut Emit) {
    // empty history
    for _ in 0..4 {
        emit_ops(rng, emit, vec![]);
    }
    // each device kind alone
    for k in 1..=3u64 {
        for _ in 0..8 {
            let ops = build(rng, &[k], 0, 6);
            emit_ops(rng, emit, ops);
        }
    }
    // IOMMU: every Option present / absent (16 combinations), wires 0..6 with all 4 flag combinations
    for m in 0..16u64 {
        let base = if m & 1 != 0 { some(a(rng.val(64))) } else { none() };
        let pci = if m & 2 != 0 { some(l(vec![a(rng.val(16)), a(rng.val(8)), a(rng.below(32)), a(rng.below(8))])) } else { none() };
        let prox = if m & 4 != 0 { some(a(rng.val(32))) } else { none() };
        let w = if m & 8 != 0 { Some(rng.below(7)) } else { None };
        let op = iommu_op(rng, base, pci, prox, w);
        emit_ops(rng, emit, vec![op]);
    }
    for k in 0..=6u64 {
        let t1 = rand_opt(rng, 64);
        let t2 = rand_opt(rng, 32);
        let op = iommu_op(rng, t1, none(), t2, Some(k));
        emit_ops(rng, emit, vec![op]);
    }
    for f in 0..4u64 {
        let w = some(l(vec![wire(rng, f)]));
        let op = l(vec![a(1), a(rng.val(16)), none(), none(), none(), w]);
        emit_ops(rng, emit, vec![op]);
    }
    // PCI device boundary values of the asserting constructor
    for (dev, func) in [(0u64, 0u64), (31, 7), (32, 0), (0, 8), (31, 8), (255, 255), (32, 7)] {
        let p = some(l(vec![a(rng.val(16)), a(rng.val(8)), a(dev), a(func)]));
        let op = l(vec![a(1), a(rng.val(16)), none(), p, none(), none()]);
        emit_ops(rng, emit, vec![op]);
    }
    // ID mappings: all 8 boolean combinations, 0..6 mappings, Option absent / empty, in both mapping-bearing devices
    for f in 0..8u64 {
        let io = iommu_op(rng, none(), none(), none(), None);
        let m = some(l(vec![mapping(rng, &[0], f)]));
        let rc = l(vec![a(2), a(rng.val(16)), a(rng.val(16)), a(f & 1), a((f >> 1) & 1), m.clone()]);
        let pf = l(vec![a(3), a(rng.val(16)), ascii_name(rng, 5), m]);
        emit_ops(rng, emit, vec![io, rc, pf]);
    }
    for k in 0..=6u64 {
        let t1 = rand_opt(rng, 64);
        let io = iommu_op(rng, t1, none(), none(), Some(k));
        let t1 = rand_opt(rng, 32);
        let io2 = iommu_op(rng, none(), none(), t1, None);
        let t1 = rng.below(4);
        let rc = pcierc_op(rng, &[0, 1], t1, Some(k));
        let t1 = rng.below(41);
        let pf = platform_op(rng, &[0, 1], t1, Some(k));
        emit_ops(rng, emit, vec![io, io2, rc, pf]);
    }
    for k in [None, Some(0u64)] {
        let t1 = rng.below(4);
        let rc = pcierc_op(rng, &[], t1, k);
        let pf = platform_op(rng, &[], 7, k);
        emit_ops(rng, emit, vec![rc, pf]);
    }
    // platform names that already carry NUL bytes: k trailing NULs after names of both parities, a lone NUL, an inner NUL
    for base in [&b"DEV0"[..], &b"DEV"[..], &b""[..], &b"A\0B"[..]] {
        for k in 0..=4usize {
            let mut nm = base.to_vec();
            nm.extend(std::iter::repeat(0u8).take(k));
            for with_map in [false, true] {
                let m = if with_map { map_opt(rng, &[], Some(0)) } else { map_opt(rng, &[], None) };
                let pf = l(vec![a(3), a(rng.val(16)), bytes(&nm), m]);
                let after = platform_op(rng, &[], 3, None);
                emit_ops(rng, emit, vec![pf, after]);
            }
        }
    }
    // platform names of length 0..40 (both parities), with and without mappings
    for n in 0..=40u64 {
        let io = iommu_op(rng, none(), none(), none(), Some(1));
        let k = if n % 3 == 0 { None } else { Some(n % 4) };
        let pf = platform_op(rng, &[0], n, k);
        emit_ops(rng, emit, vec![io, pf]);
    }
    // variable-size devices with 0..70 sub-elements
    for k in 0..=70u64 {
        let t1 = rand_opt(rng, 64);
        let t2 = rand_opt(rng, 32);
        let io = iommu_op(rng, t1, none(), t2, Some(k));
        let t1 = rng.below(4);
        let rc = pcierc_op(rng, &[0], t1, Some(k));
        let pf = platform_op(rng, &[0], k % 41, Some(70 - k));
        emit_ops(rng, emit, vec![io, rc, pf]);
    }
    // ID mappings whose destination IOMMU starts beyond 64 KiB (two root complexes with ~3000 mappings first)
    for _ in 0..(if tier == "thorough" { 8 } else { 2 }) {
        let io0 = iommu_op(rng, none(), none(), none(), None);
        let t1 = rng.below(4);
        let (k1, k2) = (3000 + rng.below(200), 1500 + rng.below(1500));
        let rc1 = pcierc_op(rng, &[0], t1, Some(k1));
        let pf1 = platform_op(rng, &[0], 30, Some(k2));
        let t2 = rand_opt(rng, 64);
        let io1 = iommu_op(rng, t2, none(), none(), Some(2));
        let io2 = iommu_op(rng, none(), none(), none(), Some(0));
        let t1 = rng.below(4);
        let rc2 = pcierc_op(rng, &[3, 4], t1, Some(5));
        let pf2 = platform_op(rng, &[4], 9, Some(2));
        emit_ops(rng, emit, vec![io0, rc1, pf1, io1, io2, rc2, pf2]);
    }
    // all interleavings of the 3 device kinds for histories of length <= 4
    for len in 1..=4u32 {
        for code in 0..3u64.pow(len) {
            let mut kinds = Vec::new();
            let mut c = code;
            for _ in 0..len {
                kinds.push(c % 3 + 1);
                c /= 3;
            }
            let ops = build(rng, &kinds, 0, 6);
            emit_ops(rng, emit, ops);
        }
    }
    // the C05 oracle re-walks the image for every handle returned so far (cubic in the number of handle-returning ops):
    // under C05 the long runs carry an IOMMU every 30 ops instead of IOMMUs only
    let c05 = false; // the C05 oracle now walks each image once: no need for sparser handle ops
    // homogeneous runs of 300 of the smallest entries of each kind (count 255 -> 256)
    for k in 1..=3u64 {
        let kinds: Vec<u64> = if c05 && k == 1 { (0..300).map(|i| if i % 30 == 0 { 1 } else { 2 }).collect() } else { vec![k; 300] };
        let ops = build(rng, &kinds, 0, 0);
        emit_ops(rng, emit, ops);
    }
    {
        // smallest possible: PCIe root complexes without mappings (16 bytes)
        let ops = (0..300).map(|_| { let f = rng.below(4); pcierc_op(rng, &[], f, None) }).collect();
        emit_ops(rng, emit, ops);
    }
    if !c05 {
        // a run crossing 65535 -> 65536 bytes: 2100 IOMMUs of 32 bytes
        let ops = (0..2100).map(|_| { let b = rand_opt(rng, 64); let p = rand_opt(rng, 32); iommu_op(rng, b, none(), p, None) }).collect();
        emit_ops(rng, emit, ops);
    }
    for _ in 0..2 {
        // a run of large devices (40..70 wires / mappings each) crossing 65535 -> 65536 bytes: IOMMU offsets beyond 16 bits
        let kinds: Vec<u64> = (0..100).map(|_| rng.range(1, 3)).collect();
        let ops = build(rng, &kinds, 40, 70);
        emit_ops(rng, emit, ops);
    }
    if tier == "thorough" && long_runs_affordable(emit) {
        let ops = (0..65_540).map(|_| { let f = rng.below(4); pcierc_op(rng, &[], f, None) }).collect();
        emit_ops(rng, emit, ops);
    } else if wants_long_runs(tier, emit) {
        let ops = (0..65_538).map(|_| { let f = rng.below(4); pcierc_op(rng, &[], f, None) }).collect();
        let c = rand_ctor(rng);
        emit.case(18, history_at(c, ops, &[65_535, 65_536, 65_537]));
    }
    // random mixed histories, later mappings referring to random earlier IOMMU handles
    let n = if tier == "thorough" { 3000 } else { 200 };
    for _ in 0..n {
        let len = match rng.below(3) {
            0 => rng.range(1, 6),
            1 => rng.range(1, 24),
            _ => rng.range(25, 120),
        };
        let kinds: Vec<u64> = (0..len).map(|_| rng.range(1, 3)).collect();
        let max_sub = if len <= 40 && rng.chance(1, 5) { 70 } else { 6 };
        let ops = build(rng, &kinds, 0, max_sub);
        emit_ops(rng, emit, ops);
    }
}

/// C18: device lengths at the 16-bit field maximum, one beyond and far beyond (SPEC_NOTES section D, rimt.rs)
pub fn gen18(_tier: &str, rng: &mut Rng, emit: &mut Emit) {
    // Iommu: 32 + 8 w   -> 65528 (largest that fits), 65536, 70000
    for w in [8187u64, 8188, 8189, 8746, 16384] {
        let t1 = rand_opt(rng, 64);
        let t2 = rand_opt(rng, 32);
        let op = iommu_op(rng, t1, none(), t2, Some(w));
        emit_ops(rng, emit, vec![op.clone()]);
        let first = iommu_op(rng, none(), none(), none(), Some(2));
        emit_ops(rng, emit, vec![first, op]);
    }
    // PcieRootComplex: 16 + 20 m   -> 65516 (largest that fits), 65536, 69996, 70016
    for m in [3275u64, 3276, 3277, 3499, 3500, 6554] {
        let io = iommu_op(rng, none(), none(), none(), None);
        let t1 = rng.below(4);
        let op = pcierc_op(rng, &[0], t1, Some(m));
        emit_ops(rng, emit, vec![io, op]);
    }
    // Platform: 12 + n + 1 + 20 m   -> 65534, 65535, 65536, 65537, 70000 through the name alone and through name + mappings
    for total in [65_534u64, 65_535, 65_536, 65_537, 70_000] {
        let io = iommu_op(rng, none(), none(), none(), None);
        let op = platform_op(rng, &[], total - 13, None);
        emit_ops(rng, emit, vec![io, op]);
        let io = iommu_op(rng, none(), none(), none(), None);
        let m = 3275u64;
        let op = platform_op(rng, &[0], total - 13 - 20 * m, Some(m));
        emit_ops(rng, emit, vec![io, op]);
        let io = iommu_op(rng, none(), none(), none(), None);
        let m = (total - 13) / 20;
        let op = platform_op(rng, &[0], total - 13 - 20 * m, Some(m));
        emit_ops(rng, emit, vec![io, op]);
    }
}
