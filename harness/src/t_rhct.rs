//! component 17: RHCT.  Case vocabulary documented in coq/theories/Spec/RhctS.v.
use crate::sx::*;
use crate::tcommon::*;
use crate::Emit;
use acpi_tables::rhct::*;

enum H {
    I(IsaStringHandle),
    C(CmoHandle),
}

/// the handles only expose their value through Debug: "IsaStringHandle(56)"
fn debug_value(s: String) -> u64 {
    let digits: String = s.chars().filter(|c| c.is_ascii_digit()).collect();
    digits.parse().expect("harness: handle without a number")
}

fn href<'a>(hs: &'a [Option<H>], x: &Sx) -> &'a H {
    let r = x.list();
    if r.len() != 2 || r[0].num() != 104 {
        panic!("harness: bad handle reference {}", x.show());
    }
    match hs.get(r[1].num() as usize) {
        Some(Some(h)) => h,
        _ => panic!("harness: reference to an operation that returned no handle: {}", x.show()),
    }
}

fn isa_ref<'a>(hs: &'a [Option<H>], x: &Sx) -> &'a IsaStringHandle {
    match href(hs, x) {
        H::I(i) => i,
        _ => panic!("harness: expected an ISA string handle: {}", x.show()),
    }
}

fn cmo_ref<'a>(hs: &'a [Option<H>], x: &Sx) -> &'a CmoHandle {
    match href(hs, x) {
        H::C(c) => c,
        _ => panic!("harness: expected a CMO handle: {}", x.show()),
    }
}

pub fn run(case: &Sx, out: &mut Vec<Ev>) {
    let c = case.list();
    let ctor = c[0].list();
    let (oem, tbl, rev) = hdr_args(ctor);
    let mut t = RHCT::new(oem, tbl, rev, ctor[3].num());
    let mut hs: Vec<Option<H>> = Vec::new();
    for op in &c[1..] {
        if let Sx::A(_) = op {
            out.push(image(&t));
            continue;
        }
        let o = op.list();
        let n = |i: usize| o[i].num();
        match n(0) {
            1 => {
                let s: &'static str =
                    Box::leak(String::from_utf8(o[1].bytes()).expect("harness: ISA string is not UTF-8").into_boxed_str());
                let h = t.add_isa_string(s);
                out.push(Ev::Num(debug_value(format!("{:?}", h))));
                hs.push(Some(H::I(h)));
            }
            2 => {
                let scheme = match n(1) {
                    0 => VirtualAddressScheme::Sv39,
                    1 => VirtualAddressScheme::Sv48,
                    2 => VirtualAddressScheme::Sv57,
                    _ => panic!("harness: bad VirtualAddressScheme"),
                };
                t.add_mmu_node(scheme);
                out.push(Ev::Num(0));
                hs.push(None);
            }
            3 => {
                let h = t.add_cmo(CmoNode::new(n(1) as u8, n(2) as u8, n(3) as u8));
                out.push(Ev::Num(debug_value(format!("{:?}", h))));
                hs.push(Some(H::C(h)));
            }
            4 => {
                let mut hi = HartInfoNode::new(n(1) as u32, isa_ref(&hs, &o[2]));
                for x in o[3].list() {
                    hi = hi.with_cmo(cmo_ref(&hs, x));
                }
                t.add_hart_info(hi);
                out.push(Ev::Num(0));
                hs.push(None);
            }
            _ => panic!("harness: bad rhct op"),
        }
    }
}

fn rand_ctor(rng: &mut Rng) -> Sx {
    let mut c = rand_hdr(rng);
    c.push(a(rng.val(64)));
    l(c)
}

fn h(k: usize) -> Sx {
    l(vec![a(104), a(k as u64)])
}

fn earlier(prev: &[u64], kind: u64) -> Vec<usize> {
    prev.iter().enumerate().filter(|(_, k)| **k == kind).map(|(i, _)| i).collect()
}

const ISA_ALPHABET: &[u8] = b"rv64imafdcbhsu_zicsrfencepbmtoqx0123456789 ";

fn isa_string(rng: &mut Rng, len: usize) -> Sx {
    let mut b: Vec<u8> = (0..len).map(|_| if rng.chance(1, 20) { rng.range(1, 127) as u8 } else { *rng.pick(ISA_ALPHABET) }).collect();
    if rng.chance(1, 10) {
        crate::tcommon::odd_string(rng, &mut b);
    }
    l(vec![a(1), bytes(&b)])
}

fn hart_info(rng: &mut Rng, prev: &[u64], ncmo: usize) -> Option<Sx> {
    let is = earlier(prev, 1);
    let cs = earlier(prev, 3);
    if is.is_empty() {
        return None;
    }
    let cmos: Vec<Sx> = if cs.is_empty() { vec![] } else { (0..ncmo).map(|_| h(*rng.pick(&cs))).collect() };
    Some(l(vec![a(4), a(rng.val(32)), h(*rng.pick(&is)), l(cmos)]))
}

/// an operation of the kind (a hart info node needs an earlier ISA string: falls back to adding one)
pub fn rand_op(rng: &mut Rng, kind: u64, prev: &[u64]) -> (Sx, u64) {
    match kind {
        1 => {
            let len = match rng.below(3) {
                0 => rng.below(4),
                1 => rng.below(41),
                _ => rng.range(20, 90),
            };
            (isa_string(rng, len as usize), 1)
        }
        2 => (l(vec![a(2), a(rng.below(3))]), 2),
        3 => (l(vec![a(3), a(rng.val(8)), a(rng.val(8)), a(rng.val(8))]), 3),
        _ => {
            let ncmo = rng.below(7) as usize;
            match hart_info(rng, prev, ncmo) {
                Some(op) => (op, 4),
                None => (isa_string(rng, 5), 1),
            }
        }
    }
}

fn rand_history(rng: &mut Rng, len: u64) -> Vec<Sx> {
    let mut prev: Vec<u64> = Vec::new();
    let mut ops = Vec::new();
    for _ in 0..len {
        let k = 1 + rng.below(4);
        let (op, kk) = rand_op(rng, k, &prev);
        ops.push(op);
        prev.push(kk);
    }
    ops
}

/// all sequences of length <= n over the items
fn sequences(items: &[u64], n: usize) -> Vec<Vec<u64>> {
    let mut res: Vec<Vec<u64>> = vec![vec![]];
    let mut last: Vec<Vec<u64>> = vec![vec![]];
    for _ in 0..n {
        let mut next = Vec::new();
        for s in &last {
            for it in items {
                let mut t = s.clone();
                t.push(*it);
                next.push(t);
            }
        }
        res.extend(next.iter().cloned());
        last = next;
    }
    res
}

pub fn gen(tier: &str, rng: &mut Rng, emit: &mut Emit) {
    let thorough = tier == "thorough";
    for _ in 0..4 {
        let c = rand_ctor(rng);
        emit.case(17, history(rng, c, vec![]));
    }
    // each kind alone (hart info after one ISA string)
    for k in [1u64, 2, 3] {
        for _ in 0..8 {
            let c = rand_ctor(rng);
            let (op, _) = rand_op(rng, k, &[]);
            emit.case(17, history(rng, c, vec![op]));
        }
    }
    // all interleavings of the 4 node kinds for histories of length <= 4 (a hart info node needs an earlier ISA string:
    // sequences that cannot be built through the API are skipped)
    for seq in sequences(&[1, 2, 3, 4], 4) {
        let mut seen_isa = false;
        let mut ok = true;
        for k in &seq {
            if *k == 1 {
                seen_isa = true;
            }
            if *k == 4 && !seen_isa {
                ok = false;
            }
        }
        if !ok {
            continue;
        }
        let c = rand_ctor(rng);
        let mut prev: Vec<u64> = Vec::new();
        let mut ops = Vec::new();
        for k in seq {
            let (op, kk) = rand_op(rng, k, &prev);
            ops.push(op);
            prev.push(kk);
        }
        emit.case(17, history(rng, c, ops));
    }
    // ISA strings of length 0..40 (both parities), alone and followed by another node
    for len in 0..=40usize {
        let c = rand_ctor(rng);
        let s = isa_string(rng, len);
        emit.case(17, history(rng, c, vec![s]));
        let c = rand_ctor(rng);
        let s = isa_string(rng, len);
        let k = 1 + rng.below(4);
        let (after, _) = rand_op(rng, k, &[1]);
        emit.case(17, history(rng, c, vec![s, after]));
    }
    // hart info with 0..70 CMO handles
    for n in 0..=70usize {
        let c = rand_ctor(rng);
        let s = isa_string(rng, 1 + n % 5);
        let m = l(vec![a(3), a(rng.val(8)), a(rng.val(8)), a(rng.val(8))]);
        let m2 = l(vec![a(3), a(rng.val(8)), a(rng.val(8)), a(rng.val(8))]);
        let mmu = l(vec![a(2), a(rng.below(3))]);
        let hi = hart_info(rng, &[1, 3, 2, 3], n).unwrap();
        let k = 1 + rng.below(4);
        let (after, _) = rand_op(rng, k, &[1, 3, 2, 3, 4]);
        emit.case(17, history(rng, c, vec![s, m, mmu, m2, hi, after]));
    }
    // homogeneous runs of 300 entries of each kind (count 255 -> 256), a run crossing 65535 -> 65536 bytes
    for k in [1u64, 2, 3, 4] {
        let c = rand_ctor(rng);
        let mut prev: Vec<u64> = Vec::new();
        let mut ops = Vec::new();
        if k == 4 {
            ops.push(isa_string(rng, 3));
            prev.push(1);
        }
        for _ in 0..300 {
            let op = match k {
                1 => isa_string(rng, 0),
                4 => hart_info(rng, &prev, 0).unwrap(),
                _ => rand_op(rng, k, &prev).0,
            };
            ops.push(op);
            prev.push(k);
        }
        emit.case(17, history(rng, c, ops));
    }
    {
        let c = rand_ctor(rng);
        let ops = (0..8200).map(|_| l(vec![a(2), a(rng.below(3))])).collect(); // 8200 * 8 bytes > 65536
        emit.case(17, history(rng, c, ops));
    }
    // (Spec/Layout.v `walk` recomputes the remaining length at every step: quadratic in the image size, hours for this
    // 524 KB image under the C03 oracle -- the run is left to the other properties until the walker is made linear)
    if thorough && long_runs_affordable(emit) {
        let c = rand_ctor(rng);
        let ops = (0..65_540).map(|_| l(vec![a(2), a(rng.below(3))])).collect();
        emit.case(17, history(rng, c, ops));
    } else if wants_long_runs(tier, emit) {
        let c = rand_ctor(rng);
        let ops = (0..65_538).map(|_| l(vec![a(2), a(rng.below(3))])).collect();
        emit.case(17, history_at(c, ops, &[65_535, 65_536, 65_537]));
    }
    // references to nodes that start beyond 64 KiB (two maximal ISA strings first): a reference field narrower than the
    // 32-bit offset it carries shows only here
    for _ in 0..(if thorough { 12 } else { 3 }) {
        let c = rand_ctor(rng);
        let (n1, n2) = (65_000 + rng.below(500) as usize, 40_000 + rng.below(20_000) as usize);
        let mut ops = vec![isa_string(rng, n1), isa_string(rng, n2)];
        let mut prev: Vec<u64> = vec![1, 1];
        for k in [3u64, 1, 3, 2] {
            ops.push(rand_op(rng, k, &prev).0);
            prev.push(k);
        }
        // hart info nodes referring to the late ISA string / CMO nodes only
        let late: Vec<u64> = prev.iter().enumerate().map(|(i, k)| if i >= 2 { *k } else { 0 }).collect();
        for n in [0usize, 1, 3] {
            ops.push(hart_info(rng, &late, n).unwrap());
            prev.push(4);
        }
        let k = 1 + rng.below(3);
        ops.push(rand_op(rng, k, &prev).0);
        emit.case(17, history(rng, c, ops));
    }
    // random mixed histories with later nodes referring to earlier handles
    let n = if thorough { 3000 } else { 200 };
    for _ in 0..n {
        let c = rand_ctor(rng);
        let len = match rng.below(3) {
            0 => rng.range(1, 6),
            1 => rng.range(1, 24),
            _ => rng.range(25, 120),
        };
        let ops = rand_history(rng, len);
        emit.case(17, history(rng, c, ops));
    }
    // (the C05 oracle is cubic in the history length: the 300-operation random histories are left to the other properties)
    for _ in 0..(if thorough { 20 } else { 3 }) {
        let c = rand_ctor(rng);
        let ops = rand_history(rng, 300);
        emit.case(17, history(rng, c, ops));
    }
}

/// C18: the node length and the ISA string length are u16 fields
#[allow(dead_code)]
pub fn gen18(_tier: &str, rng: &mut Rng, emit: &mut Emit) {
    // ISA strings: the node is 8 + n + 1 bytes padded to even; 65525 is the last length that fits
    for n in (65_520usize..=65_540).chain([70_000, 131_072]) {
        let c = rand_ctor(rng);
        let pre = l(vec![a(2), a(rng.below(3))]);
        let s = isa_string(rng, n);
        let after = l(vec![a(3), a(1), a(2), a(3)]);
        emit.case(17, history(rng, c, vec![pre, s, after]));
    }
    // hart info: 12 + 4 * handles; 16380 handles (the ISA handle + 16379 CMO handles) is the last count that fits
    for ncmo in (16_375usize..=16_390).chain([20_000, 65_535]) {
        let c = rand_ctor(rng);
        let s = isa_string(rng, 4);
        let m = l(vec![a(3), a(rng.val(8)), a(rng.val(8)), a(rng.val(8))]);
        let hi = hart_info(rng, &[1, 3], ncmo).unwrap();
        let after = l(vec![a(2), a(1)]);
        emit.case(17, history(rng, c, vec![s, m, hi, after]));
    }
}
