//! component 1: lib.rs Checksum accumulator (C17)
use crate::sx::*;
use acpi_tables::{AmlSink, Checksum};

pub fn run(case: &Sx) -> Vec<Ev> {
    let mut c = Checksum::default();
    let mut out = Vec::new();
    for op in case.list() {
        let o = op.list();
        match o[0].num() {
            0 => c.add(o[1].num() as u8),
            1 => c.sub(o[1].num() as u8),
            2 => c.append(&o[1].bytes()),
            3 => c.delete(&o[1].bytes()),
            4 => AmlSink::byte(&mut c, o[1].num() as u8),
            5 => AmlSink::word(&mut c, o[1].num() as u16),
            6 => AmlSink::dword(&mut c, o[1].num() as u32),
            7 => AmlSink::qword(&mut c, o[1].num()),
            8 => AmlSink::vec(&mut c, &o[1].bytes()),
            _ => panic!("harness: bad cksum op"),
        }
        out.push(Ev::Num(c.raw_value() as u64));
        out.push(Ev::Num(c.value() as u64));
    }
    out
}

fn rand_op(rng: &mut Rng) -> Sx {
    let k = rng.below(9);
    match k {
        0 | 1 | 4 => l(vec![a(k), a(rng.val(8))]),
        2 | 3 | 8 => {
            let n = match rng.below(6) {
                0 => 0,
                1 => rng.range(1, 4),
                2 => rng.range(5, 64),
                3 => rng.range(200, 700),
                4 => rng.range(1000, 5000),
                _ => rng.range(5, 64),
            } as usize;
            l(vec![a(k), bytes(&fill(rng, n))])
        }
        5 => l(vec![a(5), a(rng.val(16))]),
        6 => l(vec![a(6), a(rng.val(32))]),
        _ => l(vec![a(7), a(rng.val(64))]),
    }
}

/// slice contents: uniformly random, one repeated byte (0xff and other high values included), or biased high --
/// a block-wise or lane-wise summation goes wrong only on long runs of large bytes
fn fill(rng: &mut Rng, n: usize) -> Vec<u8> {
    match rng.below(5) {
        0 | 1 => rng.bytes(n),
        2 => vec![0xff; n],
        3 => vec![rng.val(8) as u8; n],
        _ => rng.bytes(n).into_iter().map(|b| b | 0xc0).collect(),
    }
}

pub fn gen(tier: &str, rng: &mut Rng, emit: &mut crate::Emit) {
    // long slices through every slice entry point (append / delete / sink vec), sizes around powers of two up to > 64 KiB
    let sizes: &[usize] = if tier == "thorough" {
        &[255, 256, 257, 511, 512, 1023, 1024, 1025, 1028, 1032, 2047, 2048, 2049, 4096, 8192, 16384, 32768, 65535, 65536, 65537, 100_000, 1_000_000]
    } else {
        &[255, 256, 257, 1024, 1028, 1032, 2048, 4096, 8192, 65535, 65536, 70_000]
    };
    for &n in sizes {
        for f in [0xffu8, 0x80, 0x7f, 0x01] {
            for k in [2u64, 3, 8] {
                let v = vec![f; n];
                emit.case(1, l(vec![l(vec![a(0), a(rng.val(8))]), l(vec![a(k), bytes(&v)]), l(vec![a(3), bytes(&v)]), l(vec![a(2), bytes(&v)])]));
            }
        }
        for k in [2u64, 3, 8] {
            let v = fill(rng, n);
            emit.case(1, l(vec![l(vec![a(k), bytes(&v)]), l(vec![a(3), bytes(&v)])]));
        }
    }
    // exhaustive: every state s (reached by add s) x every byte b, for add / sub and their inverses
    for s in 0..256u64 {
        let mut ops = vec![l(vec![a(0), a(s)])];
        for b in 0..256u64 {
            ops.push(l(vec![a(0), a(b)]));
            ops.push(l(vec![a(1), a(b)]));
        }
        for b in 0..256u64 {
            ops.push(l(vec![a(1), a(b)]));
            ops.push(l(vec![a(0), a(b)]));
        }
        emit.case(1, l(ops));
    }
    let n = if tier == "thorough" { 60_000 } else { 5_000 };
    for _ in 0..n {
        let len = rng.range(1, 40);
        emit.case(1, l((0..len).map(|_| rand_op(rng)).collect()));
    }
}
