//! component 26: FADT (FADTBuilder + finalize).  Case vocabulary documented in coq/theories/Spec/FadtS.v.
use crate::sx::*;
use crate::tcommon::*;
use crate::Emit;
use acpi_tables::fadt::*;

fn flag(n: u64) -> Flags {
    match n {
        0 => Flags::Wbinvd,
        1 => Flags::WbinvdFlush,
        2 => Flags::ProcC1,
        3 => Flags::PLvl2Up,
        4 => Flags::PwrButton,
        5 => Flags::SlpButton,
        6 => Flags::FixRtc,
        7 => Flags::RtcS4,
        8 => Flags::TmrValExt,
        9 => Flags::DckCap,
        10 => Flags::ResetRegSup,
        11 => Flags::SealedCase,
        12 => Flags::Headless,
        13 => Flags::CpuSwSlp,
        14 => Flags::PciExpWak,
        15 => Flags::UsePlatformClock,
        16 => Flags::S4RtcStsValid,
        17 => Flags::RemotePowerOnCapable,
        18 => Flags::ForceApicClusterModel,
        19 => Flags::ForceApicPhysicalDestinationMode,
        20 => Flags::HwReducedAcpi,
        21 => Flags::LowPowerS0IdleCapable,
        22 => Flags::PersistentCpuCachesNotReported,
        23 => Flags::PersistentCpuCachesNotPersistent,
        24 => Flags::PersistentCpuCachesArePersistent,
        _ => panic!("harness: bad fadt flag"),
    }
}

fn profile(n: u64) -> PmProfile {
    match n {
        0 => PmProfile::Unspecified,
        1 => PmProfile::Desktop,
        2 => PmProfile::Mobile,
        3 => PmProfile::Workstation,
        4 => PmProfile::EnterpriseServer,
        5 => PmProfile::SohoServer,
        6 => PmProfile::AppliancePc,
        7 => PmProfile::PerformanceServer,
        8 => PmProfile::Tablet,
        _ => panic!("harness: bad pm profile"),
    }
}

pub fn run(case: &Sx, out: &mut Vec<Ev>) {
    let c = case.list();
    let ctor = c[0].list();
    let (oem, tbl, rev) = hdr_args(ctor);
    let mut b = FADTBuilder::new(oem, tbl, rev);
    for op in &c[1..] {
        if let Sx::A(_) = op {
            // FADTBuilder is Copy: finalize a copy, keep building on the original
            let copy = b;
            out.push(image(&copy.finalize()));
            continue;
        }
        let o = op.list();
        let n = |i: usize| o[i].num();
        b = match n(0) {
            1 => b.dsdt_32(n(1) as u32),
            2 => b.dsdt_64(n(1)),
            3 => b.firmware_ctrl_32(n(1) as u32),
            4 => b.firmware_ctrl_64(n(1)),
            5 => b.acpi_enable(),
            6 => b.acpi_disable(),
            7 => b.flag(flag(n(1))),
            8 => b.gpe_info(n(1) as u32, n(2) as u32, n(3) as u8, n(4) as u8, n(5) as u8),
            9 => b.preferred_pm_profile(profile(n(1))),
            _ => panic!("harness: bad fadt op"),
        };
        out.push(Ev::Num(0));
    }
}

// ---------------------------------------------------------------------------------------------- generators

/// a random builder call other than flag()
fn rand_other(rng: &mut Rng) -> Sx {
    match rng.below(8) {
        0 => l(vec![a(1), a(rng.val(32))]),
        1 => l(vec![a(2), a(rng.val(64))]),
        2 => l(vec![a(3), a(rng.val(32))]),
        3 => l(vec![a(4), a(rng.val(64))]),
        4 => l(vec![a(5)]),
        5 => l(vec![a(6)]),
        6 => l(vec![a(8), a(rng.val(32)), a(rng.val(32)), a(rng.val(8)), a(rng.val(8)), a(rng.val(8))]),
        _ => l(vec![a(9), a(rng.below(9))]),
    }
}

fn flag_op(i: u64) -> Sx {
    l(vec![a(7), a(i)])
}

fn rand_ctor(rng: &mut Rng) -> Sx {
    l(rand_hdr(rng))
}

/// observations: after every call for short programs, otherwise at a few places and at the end
fn program(rng: &mut Rng, ctor: Sx, ops: Vec<Sx>) -> Sx {
    history(rng, ctor, ops)
}

pub fn gen(tier: &str, rng: &mut Rng, emit: &mut Emit) {
    // the bare builder
    for _ in 0..6 {
        let c = rand_ctor(rng);
        emit.case(26, program(rng, c, vec![]));
    }
    // each builder method alone, several argument sets
    for _ in 0..12 {
        for k in 0..8 {
            let c = rand_ctor(rng);
            let mut op = rand_other(rng);
            while op.list()[0].num() != [1, 2, 3, 4, 5, 6, 8, 9][k] {
                op = rand_other(rng);
            }
            emit.case(26, program(rng, c, vec![op]));
        }
    }
    // 25 single flags
    for i in 0..25u64 {
        let c = rand_ctor(rng);
        emit.case(26, program(rng, c, vec![flag_op(i)]));
    }
    // all pairs of flags in both orders (and each flag twice)
    for i in 0..25u64 {
        for j in 0..25u64 {
            let c = rand_ctor(rng);
            emit.case(26, program(rng, c, vec![flag_op(i), flag_op(j)]));
        }
    }
    // all profiles; a later profile replaces an earlier one
    for p in 0..9u64 {
        let c = rand_ctor(rng);
        emit.case(26, program(rng, c, vec![l(vec![a(9), a(p)])]));
        for q in 0..9u64 {
            let c = rand_ctor(rng);
            let f = flag_op(rng.below(25));
            emit.case(26, program(rng, c, vec![l(vec![a(9), a(p)]), f, l(vec![a(9), a(q)])]));
        }
    }
    // last writer wins: dsdt_32 / dsdt_64, firmware_ctrl_32 / _64, acpi_enable / acpi_disable in every order of two and of three
    let pairs: [(u64, u64); 3] = [(1, 2), (3, 4), (5, 6)];
    for (x, y) in pairs {
        let mk = |rng: &mut Rng, id: u64| -> Sx {
            match id {
                1 | 3 => l(vec![a(id), a(rng.val(32))]),
                2 | 4 => l(vec![a(id), a(rng.val(64))]),
                _ => l(vec![a(id)]),
            }
        };
        for s in 0..8u64 {
            for len in 2..=3u64 {
                let c = rand_ctor(rng);
                let ops = (0..len).map(|i| mk(rng, if s >> i & 1 == 0 { x } else { y })).collect();
                emit.case(26, program(rng, c, ops));
            }
        }
        for _ in 0..20 {
            let c = rand_ctor(rng);
            let len = rng.range(2, 10);
            let ops = (0..len)
                .map(|_| {
                    if rng.chance(1, 4) {
                        rand_other(rng)
                    } else {
                        let id = if rng.chance(1, 2) { x } else { y };
                        mk(rng, id)
                    }
                })
                .collect();
            emit.case(26, program(rng, c, ops));
        }
    }
    // gpe_info twice: all five fields are replaced
    for _ in 0..20 {
        let c = rand_ctor(rng);
        let g = |rng: &mut Rng| l(vec![a(8), a(rng.val(32)), a(rng.val(32)), a(rng.val(8)), a(rng.val(8)), a(rng.val(8))]);
        let ops = vec![g(rng), rand_other(rng), g(rng)];
        emit.case(26, program(rng, c, ops));
    }
    // random subsets of the flags in random order with repetitions, other builder calls interleaved
    let n = if tier == "thorough" { 40_000 } else { 4096 };
    for _ in 0..n {
        let c = rand_ctor(rng);
        let mask = rng.next() & ((1 << 25) - 1);
        let mask = match rng.below(4) {
            0 => mask & rng.next(),
            1 => mask | rng.next() & ((1 << 25) - 1),
            _ => mask,
        };
        let mut ops: Vec<Sx> = (0..25u64).filter(|i| mask >> i & 1 == 1).map(flag_op).collect();
        for i in (1..ops.len()).rev() {
            let j = rng.below(i as u64 + 1) as usize;
            ops.swap(i, j);
        }
        // repetitions
        for _ in 0..rng.below(3) {
            if !ops.is_empty() {
                let x = rng.pick(&ops).clone();
                let pos = rng.below(ops.len() as u64 + 1) as usize;
                ops.insert(pos, x);
            }
        }
        // other builders interleaved
        for _ in 0..rng.below(6) {
            let pos = rng.below(ops.len() as u64 + 1) as usize;
            let o = rand_other(rng);
            ops.insert(pos, o);
        }
        emit.case(26, program(rng, c, ops));
    }
    // random programs over all nine methods
    let n = if tier == "thorough" { 3000 } else { 200 };
    for _ in 0..n {
        let c = rand_ctor(rng);
        let len = rng.range(1, 60);
        let ops = (0..len).map(|_| if rng.chance(1, 3) { flag_op(rng.below(25)) } else { rand_other(rng) }).collect();
        emit.case(26, program(rng, c, ops));
    }
}
