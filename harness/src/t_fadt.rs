//! component 26: FADT (FADTBuilder + finalize).  Case vocabulary documented in coq/theories/Spec/FadtS.v.
use crate::sx::*;
use crate::tcommon::*;
use crate::Emit;
use acpi_tables::fadt::*;

fn flag(n: u64) -> Flags {
    match n {
        0 => Flags::Wbinvd,
        1 => Flags::WbinvdFlush,
        2 => Flags::ProcC1,
        3 => Flags::PLvl2Up,
        4 => Flags::PwrButton,
        5 => Flags::SlpButton,
        6 => Flags::FixRtc,
        7 => Flags::RtcS4,
        8 => Flags::TmrValExt,
        9 => Flags::DckCap,
        10 => Flags::ResetRegSup,
        11 => Flags::SealedCase,
        12 => Flags::Headless,
        13 => Flags::CpuSwSlp,
        14 => Flags::PciExpWak,
        15 => Flags::UsePlatformClock,
        16 => Flags::S4RtcStsValid,
        17 => Flags::RemotePowerOnCapable,
        18 => Flags::ForceApicClusterModel,
        19 => Flags::ForceApicPhysicalDestinationMode,
        20 => Flags::HwReducedAcpi,
        21 => Flags::LowPowerS0IdleCapable,
        22 => Flags::PersistentCpuCachesNotReported,
        23 => Flags::PersistentCpuCachesNotPersistent,
        24 => Flags::PersistentCpuCachesArePersistent,
        _ => panic!("harness: bad fadt flag"),
    }
}

fn profile(n: u64) -> PmProfile {
    match n {
        0 => PmProfile::Unspecified,
        1 => PmProfile::Desktop,
        2 => PmProfile::Mobile,
        3 => PmProfile::Workstation,
        4 => PmProfile::EnterpriseServer,
        5 => PmProfile::SohoServer,
        6 => PmProfile::AppliancePc,
        7 => PmProfile::PerformanceServer,
        8 => PmProfile::Tablet,
        _ => panic!("harness: bad pm profile"),
    }
}

/// width in bytes of the k-th assignable public scalar field (table at the top of coq/theories/Spec/FadtS.v)
pub const WIDTHS: [u32; 42] = [
    4, 4, 1, 2, 4, 1, 1, 1, 1, 4, 4, 4, 4, 4, 4, 4, 4, 1, 1, 1, 1, 1, 1, 1, 1, 2, 2, 2, 2, 1, 1, 1, 1, 1, 2, 4, 1, 2, 1, 8, 8, 8,
];
const K_FLAGS: u64 = 35;
const N_GAS: u64 = 11;

/// `b.<k-th assignable public scalar field> = (v as uN).into()`
fn assign(b: &mut FADTBuilder, k: u64, v: u64) {
    match k {
        0 => b.firmware_ctrl = (v as u32).into(),
        1 => b.dsdt = (v as u32).into(),
        2 => b.preferred_pm_profile = v as u8,
        3 => b.sci_int = (v as u16).into(),
        4 => b.smi_cmd = (v as u32).into(),
        5 => b.acpi_enable = v as u8,
        6 => b.acpi_disable = v as u8,
        7 => b.s4bios_req = v as u8,
        8 => b.pstate_cnt = v as u8,
        9 => b.pm1a_evt_blk = (v as u32).into(),
        10 => b.pm1b_evt_blk = (v as u32).into(),
        11 => b.pm1a_cnt_blk = (v as u32).into(),
        12 => b.pm1b_cnt_blk = (v as u32).into(),
        13 => b.pm2_cnt_blk = (v as u32).into(),
        14 => b.pm_tmr_blk = (v as u32).into(),
        15 => b.gpe0_blk = (v as u32).into(),
        16 => b.gpe1_blk = (v as u32).into(),
        17 => b.pm1_evt_len = v as u8,
        18 => b.pm1_cnt_len = v as u8,
        19 => b.pm2_cnt_len = v as u8,
        20 => b.pm_tmr_len = v as u8,
        21 => b.gpe0_blk_len = v as u8,
        22 => b.gpe1_blk_len = v as u8,
        23 => b.gpe1_base = v as u8,
        24 => b.cst_cnt = v as u8,
        25 => b.p_lvl2_lat = (v as u16).into(),
        26 => b.p_lvl3_lat = (v as u16).into(),
        27 => b.flush_size = (v as u16).into(),
        28 => b.flush_stride = (v as u16).into(),
        29 => b.duty_offset = v as u8,
        30 => b.duty_width = v as u8,
        31 => b.day_alrm = v as u8,
        32 => b.mon_alrm = v as u8,
        33 => b.century = v as u8,
        34 => b.iapc_boot_arch = (v as u16).into(),
        35 => b.flags = (v as u32).into(),
        36 => b.reset_value = v as u8,
        37 => b.arm_boot_arch = (v as u16).into(),
        38 => b.fadt_minor_version = v as u8,
        39 => b.x_firmware_ctrl = v.into(),
        40 => b.x_dsdt = v.into(),
        41 => b.hypervisor_vendor_identity = v.into(),
        _ => panic!("harness: bad fadt field"),
    }
}

/// `b.<g-th GAS-typed public field> = gas`
fn assign_gas(b: &mut FADTBuilder, g: u64, gas: acpi_tables::gas::GAS) {
    match g {
        0 => b.reset_reg = gas,
        1 => b.x_pm1a_evt_blk = gas,
        2 => b.x_pm1b_evt_blk = gas,
        3 => b.x_pm1a_cnt_blk = gas,
        4 => b.x_pm1b_cnt_blk = gas,
        5 => b.x_pm2_cnt_blk = gas,
        6 => b.x_pm_tmr_blk = gas,
        7 => b.x_gpe0_blk = gas,
        8 => b.x_gpe1_blk = gas,
        9 => b.sleep_control_reg = gas,
        10 => b.sleep_status_reg = gas,
        _ => panic!("harness: bad fadt gas field"),
    }
}

pub fn run(case: &Sx, out: &mut Vec<Ev>) {
    let c = case.list();
    let ctor = c[0].list();
    let (oem, tbl, rev) = hdr_args(ctor);
    let mut b = FADTBuilder::new(oem, tbl, rev);
    for op in &c[1..] {
        if let Sx::A(_) = op {
            // FADTBuilder is Copy: finalize a copy, keep building on the original
            let copy = b;
            out.push(image(&copy.finalize()));
            continue;
        }
        let o = op.list();
        let n = |i: usize| o[i].num();
        b = match n(0) {
            1 => b.dsdt_32(n(1) as u32),
            2 => b.dsdt_64(n(1)),
            3 => b.firmware_ctrl_32(n(1) as u32),
            4 => b.firmware_ctrl_64(n(1)),
            5 => b.acpi_enable(),
            6 => b.acpi_disable(),
            7 => b.flag(flag(n(1))),
            8 => b.gpe_info(n(1) as u32, n(2) as u32, n(3) as u8, n(4) as u8, n(5) as u8),
            9 => b.preferred_pm_profile(profile(n(1))),
            10 => {
                assign(&mut b, n(1), n(2));
                b
            }
            11 => {
                let gas = acpi_tables::gas::GAS::new(
                    crate::t_hest::address_space(n(2)),
                    n(3) as u8,
                    n(4) as u8,
                    crate::t_hest::access_size(n(5)),
                    n(6),
                );
                assign_gas(&mut b, n(1), gas);
                b
            }
            _ => panic!("harness: bad fadt op"),
        };
        out.push(Ev::Num(0));
    }
}

// ---------------------------------------------------------------------------------------------- generators

/// a random builder call other than flag()
fn rand_other(rng: &mut Rng) -> Sx {
    match rng.below(8) {
        0 => l(vec![a(1), a(rng.val(32))]),
        1 => l(vec![a(2), a(rng.val(64))]),
        2 => l(vec![a(3), a(rng.val(32))]),
        3 => l(vec![a(4), a(rng.val(64))]),
        4 => l(vec![a(5)]),
        5 => l(vec![a(6)]),
        6 => l(vec![a(8), a(rng.val(32)), a(rng.val(32)), a(rng.val(8)), a(rng.val(8)), a(rng.val(8))]),
        _ => l(vec![a(9), a(rng.below(9))]),
    }
}

fn flag_op(i: u64) -> Sx {
    l(vec![a(7), a(i)])
}

fn assign_op(k: u64, v: u64) -> Sx {
    l(vec![a(10), a(k), a(v)])
}

fn max_of(k: u64) -> u64 {
    let w = WIDTHS[k as usize];
    if w == 8 {
        u64::MAX
    } else {
        (1u64 << (8 * w)) - 1
    }
}

/// a random direct assignment of a scalar field: full-range value of the field's type, sometimes a boundary
fn rand_assign(rng: &mut Rng) -> Sx {
    let k = rng.below(42);
    let w = WIDTHS[k as usize];
    let v = match rng.below(8) {
        0 => 0,
        1 => max_of(k),
        2 => 0xffu64 << (8 * rng.below(w as u64)),
        _ => rng.val(8 * w),
    };
    assign_op(k, v)
}

fn gas_op(g: u64, sp: u64, bw: u64, bo: u64, ac: u64, addr: u64) -> Sx {
    l(vec![a(11), a(g), a(sp), a(bw), a(bo), a(ac), a(addr)])
}

fn rand_gas_assign(rng: &mut Rng) -> Sx {
    let sp = *rng.pick(&crate::t_hest::SPACES);
    gas_op(rng.below(N_GAS), sp, rng.val(8), rng.val(8), rng.below(5), rng.val(64))
}

/// a value of field k that is non-zero in every byte (so that a shifted, swapped or truncated field is visible)
fn dense_val(rng: &mut Rng, k: u64) -> u64 {
    let w = WIDTHS[k as usize];
    let mut v = 0u64;
    for i in 0..w {
        v |= rng.range(1, 255) << (8 * i);
    }
    v
}

fn shuffle(rng: &mut Rng, ops: &mut Vec<Sx>) {
    for i in (1..ops.len()).rev() {
        let j = rng.below(i as u64 + 1) as usize;
        ops.swap(i, j);
    }
}

/// the public fields a builder method writes (assignable-field numbers), for the last-writer-wins cases
fn fields_of_builder(id: u64) -> &'static [u64] {
    match id {
        1 | 2 => &[1, 40],
        3 | 4 => &[0, 39],
        5 | 6 => &[5, 6],
        7 => &[35],
        8 => &[15, 16, 21, 22, 23],
        _ => &[2],
    }
}

fn rand_builder(rng: &mut Rng, id: u64) -> Sx {
    match id {
        7 => flag_op(rng.below(25)),
        _ => {
            let mut op = rand_other(rng);
            while op.list()[0].num() != id {
                op = rand_other(rng);
            }
            op
        }
    }
}

/// direct assignment of the public fields (ops 10 / 11), alone and mixed with the builder methods
fn gen_assign(tier: &str, rng: &mut Rng, emit: &mut Emit) {
    let thorough = tier == "thorough";
    // every assignable scalar field alone: boundary values, each single byte set, high-half-only values of the 64-bit fields
    for k in 0..42u64 {
        let w = WIDTHS[k as usize] as u64;
        let m = max_of(k);
        let mut vals = vec![0, 1, m, m - 1, m >> 1, (m >> 1) + 1];
        for i in 0..w {
            vals.push(0xffu64 << (8 * i));
            vals.push(0x01u64 << (8 * i));
        }
        if w == 8 {
            vals.extend([0xffff_ffff_0000_0000, 0x0000_0001_0000_0000, 0x8000_0000_0000_0000, rng.val(32) << 32, 0x0000_0000_ffff_ffff]);
        }
        for _ in 0..3 {
            vals.push(dense_val(rng, k));
        }
        for v in vals {
            let c = rand_ctor(rng);
            emit.case(26, program(rng, c, vec![assign_op(k, v)]));
        }
        // assigned twice: the second value stays
        let c = rand_ctor(rng);
        let (v1, v2) = (dense_val(rng, k), dense_val(rng, k));
        emit.case(26, program(rng, c, vec![assign_op(k, v1), assign_op(k, v2)]));
    }
    // every GAS field alone: every space id, every access size, boundary widths / offsets / addresses
    for g in 0..N_GAS {
        let mut args: Vec<(u64, u64, u64, u64, u64)> = Vec::new();
        for sp in crate::t_hest::SPACES {
            args.push((sp, rng.range(1, 255), rng.range(1, 255), rng.below(5), rng.val(64)));
        }
        for ac in 0..5u64 {
            args.push((*rng.pick(&crate::t_hest::SPACES), rng.val(8), rng.val(8), ac, rng.val(64)));
        }
        for (bw, bo) in [(0u64, 0u64), (255, 0), (0, 255), (255, 255), (1, 2)] {
            args.push((1, bw, bo, 3, rng.val(64)));
        }
        for addr in [0u64, 1, u64::MAX, u64::MAX - 1, 0xffff_ffff_0000_0000, 0x0000_0001_0000_0000, 0xffff_ffff] {
            args.push((0, 64, 0, 4, addr));
        }
        for i in 0..8u64 {
            args.push((0x7f, 0xa5, 0x5a, 2, 0xffu64 << (8 * i)));
        }
        args.push((0, 0, 0, 0, 0));
        for (sp, bw, bo, ac, addr) in args {
            let c = rand_ctor(rng);
            emit.case(26, program(rng, c, vec![gas_op(g, sp, bw, bo, ac, addr)]));
        }
        // assigned twice, and two neighbouring GAS fields
        let c = rand_ctor(rng);
        let mut a1 = rand_gas_assign(rng);
        let mut a2 = rand_gas_assign(rng);
        if let (Sx::L(x), Sx::L(y)) = (&mut a1, &mut a2) {
            x[1] = a(g);
            y[1] = a(g);
        }
        emit.case(26, program(rng, c, vec![a1, a2]));
        let c = rand_ctor(rng);
        let mut a1 = rand_gas_assign(rng);
        let mut a2 = rand_gas_assign(rng);
        if let (Sx::L(x), Sx::L(y)) = (&mut a1, &mut a2) {
            x[1] = a(g);
            y[1] = a((g + 1) % N_GAS);
        }
        emit.case(26, program(rng, c, vec![a1, a2]));
    }
    // all fields assigned at once with distinct dense values (a swap, a shift or an unsummed tail is visible): in declaration
    // order, in reverse, and shuffled
    for round in 0..(if thorough { 200 } else { 40 }) {
        let c = rand_ctor(rng);
        let mut ops: Vec<Sx> = (0..42u64).map(|k| assign_op(k, dense_val(rng, k))).collect();
        for g in 0..N_GAS {
            let sp = *rng.pick(&crate::t_hest::SPACES);
            ops.push(gas_op(g, sp, rng.range(1, 255), rng.range(1, 255), rng.range(1, 4), dense_val(rng, 41)));
        }
        match round % 3 {
            0 => {}
            1 => ops.reverse(),
            _ => shuffle(rng, &mut ops),
        }
        // keep the case short enough for dense observation only some of the time
        if round % 4 == 0 {
            let mut v = vec![c];
            v.extend(ops);
            v.push(a(1));
            emit.case(26, l(v));
        } else {
            emit.case(26, program(rng, c, ops));
        }
    }
    // every field at its maximum (all 240 body bytes 0xFF where a field exists)
    {
        let c = rand_ctor(rng);
        let mut ops: Vec<Sx> = (0..42u64).map(|k| assign_op(k, max_of(k))).collect();
        for g in 0..N_GAS {
            ops.push(gas_op(g, 0x7f, 255, 255, 4, u64::MAX));
        }
        emit.case(26, program(rng, c, ops));
    }
    // last writer wins between a builder method and the direct assignment of each field it writes, in both orders and
    // sandwiched
    for id in 1..=9u64 {
        for &k in fields_of_builder(id) {
            for _ in 0..(if thorough { 12 } else { 4 }) {
                let c = rand_ctor(rng);
                let ops = vec![rand_builder(rng, id), assign_op(k, dense_val(rng, k))];
                emit.case(26, program(rng, c, ops));
                let c = rand_ctor(rng);
                let ops = vec![assign_op(k, dense_val(rng, k)), rand_builder(rng, id)];
                emit.case(26, program(rng, c, ops));
                let c = rand_ctor(rng);
                let ops = vec![assign_op(k, dense_val(rng, k)), rand_builder(rng, id), assign_op(k, rng.val(8 * WIDTHS[k as usize]))];
                emit.case(26, program(rng, c, ops));
                let c = rand_ctor(rng);
                let ops = vec![rand_builder(rng, id), assign_op(k, dense_val(rng, k)), rand_builder(rng, id)];
                emit.case(26, program(rng, c, ops));
            }
        }
    }
    // the profile byte accepts any u8 when assigned directly
    for p in [9u64, 10, 0x7f, 0x80, 0xff] {
        let c = rand_ctor(rng);
        emit.case(26, program(rng, c, vec![assign_op(2, p)]));
    }
    // flags assigned then flag() calls, flag() calls then flags assigned, and alternations
    let fvals = |rng: &mut Rng| -> u64 {
        match rng.below(6) {
            0 => 0,
            1 => 0xffff_ffff,
            2 => 1 << rng.below(32),
            3 => 0xff00_0000 | rng.val(24),
            _ => rng.val(32),
        }
    };
    for _ in 0..(if thorough { 2000 } else { 300 }) {
        let c = rand_ctor(rng);
        let nf = |rng: &mut Rng| -> Vec<Sx> { (0..rng.below(4)).map(|_| flag_op(rng.below(25))).collect() };
        let mut ops: Vec<Sx> = Vec::new();
        match rng.below(5) {
            0 => {
                ops.push(assign_op(K_FLAGS, fvals(rng)));
                ops.push(flag_op(rng.below(25)));
                ops.extend(nf(rng));
            }
            1 => {
                ops.push(flag_op(rng.below(25)));
                ops.extend(nf(rng));
                ops.push(assign_op(K_FLAGS, fvals(rng)));
            }
            2 => {
                ops.extend(nf(rng));
                ops.push(assign_op(K_FLAGS, fvals(rng)));
                ops.extend(nf(rng));
                ops.push(assign_op(K_FLAGS, fvals(rng)));
                ops.extend(nf(rng));
            }
            3 => {
                ops.push(flag_op(rng.below(25)));
                ops.push(assign_op(K_FLAGS, 0));
                ops.push(flag_op(rng.below(25)));
            }
            _ => {
                for _ in 0..rng.range(2, 12) {
                    if rng.chance(1, 3) {
                        ops.push(assign_op(K_FLAGS, fvals(rng)));
                    } else {
                        ops.push(flag_op(rng.below(25)));
                    }
                }
            }
        }
        // other calls and assignments interleaved
        for _ in 0..rng.below(4) {
            let pos = rng.below(ops.len() as u64 + 1) as usize;
            let o = match rng.below(3) {
                0 => rand_other(rng),
                1 => rand_gas_assign(rng),
                _ => {
                    let mut o = rand_assign(rng);
                    while o.list()[1].num() == K_FLAGS {
                        o = rand_assign(rng);
                    }
                    o
                }
            };
            ops.insert(pos, o);
        }
        emit.case(26, program(rng, c, ops));
    }
    // random mixtures of builder calls and assignments, in random order, with repetitions
    for _ in 0..(if thorough { 4000 } else { 400 }) {
        let c = rand_ctor(rng);
        let len = rng.range(1, 60);
        let ops = (0..len)
            .map(|_| match rng.below(10) {
                0 | 1 => flag_op(rng.below(25)),
                2 | 3 => rand_other(rng),
                4 => rand_gas_assign(rng),
                5 => assign_op(K_FLAGS, rng.val(32)),
                _ => rand_assign(rng),
            })
            .collect();
        emit.case(26, program(rng, c, ops));
    }
}

fn rand_ctor(rng: &mut Rng) -> Sx {
    l(rand_hdr(rng))
}

/// observations: after every call for short programs, otherwise at a few places and at the end
fn program(rng: &mut Rng, ctor: Sx, ops: Vec<Sx>) -> Sx {
    history(rng, ctor, ops)
}

pub fn gen(tier: &str, rng: &mut Rng, emit: &mut Emit) {
    // the bare builder
    for _ in 0..6 {
        let c = rand_ctor(rng);
        emit.case(26, program(rng, c, vec![]));
    }
    // each builder method alone, several argument sets
    for _ in 0..12 {
        for k in 0..8 {
            let c = rand_ctor(rng);
            let mut op = rand_other(rng);
            while op.list()[0].num() != [1, 2, 3, 4, 5, 6, 8, 9][k] {
                op = rand_other(rng);
            }
            emit.case(26, program(rng, c, vec![op]));
        }
    }
    // 25 single flags
    for i in 0..25u64 {
        let c = rand_ctor(rng);
        emit.case(26, program(rng, c, vec![flag_op(i)]));
    }
    // all pairs of flags in both orders (and each flag twice)
    for i in 0..25u64 {
        for j in 0..25u64 {
            let c = rand_ctor(rng);
            emit.case(26, program(rng, c, vec![flag_op(i), flag_op(j)]));
        }
    }
    // all profiles; a later profile replaces an earlier one
    for p in 0..9u64 {
        let c = rand_ctor(rng);
        emit.case(26, program(rng, c, vec![l(vec![a(9), a(p)])]));
        for q in 0..9u64 {
            let c = rand_ctor(rng);
            let f = flag_op(rng.below(25));
            emit.case(26, program(rng, c, vec![l(vec![a(9), a(p)]), f, l(vec![a(9), a(q)])]));
        }
    }
    // last writer wins: dsdt_32 / dsdt_64, firmware_ctrl_32 / _64, acpi_enable / acpi_disable in every order of two and of three
    let pairs: [(u64, u64); 3] = [(1, 2), (3, 4), (5, 6)];
    for (x, y) in pairs {
        let mk = |rng: &mut Rng, id: u64| -> Sx {
            match id {
                1 | 3 => l(vec![a(id), a(rng.val(32))]),
                2 | 4 => l(vec![a(id), a(rng.val(64))]),
                _ => l(vec![a(id)]),
            }
        };
        for s in 0..8u64 {
            for len in 2..=3u64 {
                let c = rand_ctor(rng);
                let ops = (0..len).map(|i| mk(rng, if s >> i & 1 == 0 { x } else { y })).collect();
                emit.case(26, program(rng, c, ops));
            }
        }
        for _ in 0..20 {
            let c = rand_ctor(rng);
            let len = rng.range(2, 10);
            let ops = (0..len)
                .map(|_| {
                    if rng.chance(1, 4) {
                        rand_other(rng)
                    } else {
                        let id = if rng.chance(1, 2) { x } else { y };
                        mk(rng, id)
                    }
                })
                .collect();
            emit.case(26, program(rng, c, ops));
        }
    }
    // gpe_info twice: all five fields are replaced
    for _ in 0..20 {
        let c = rand_ctor(rng);
        let g = |rng: &mut Rng| l(vec![a(8), a(rng.val(32)), a(rng.val(32)), a(rng.val(8)), a(rng.val(8)), a(rng.val(8))]);
        let ops = vec![g(rng), rand_other(rng), g(rng)];
        emit.case(26, program(rng, c, ops));
    }
    // random subsets of the flags in random order with repetitions, other builder calls interleaved
    let n = if tier == "thorough" { 40_000 } else { 4096 };
    for _ in 0..n {
        let c = rand_ctor(rng);
        let mask = rng.next() & ((1 << 25) - 1);
        let mask = match rng.below(4) {
            0 => mask & rng.next(),
            1 => mask | rng.next() & ((1 << 25) - 1),
            _ => mask,
        };
        let mut ops: Vec<Sx> = (0..25u64).filter(|i| mask >> i & 1 == 1).map(flag_op).collect();
        for i in (1..ops.len()).rev() {
            let j = rng.below(i as u64 + 1) as usize;
            ops.swap(i, j);
        }
        // repetitions
        for _ in 0..rng.below(3) {
            if !ops.is_empty() {
                let x = rng.pick(&ops).clone();
                let pos = rng.below(ops.len() as u64 + 1) as usize;
                ops.insert(pos, x);
            }
        }
        // other builders interleaved
        for _ in 0..rng.below(6) {
            let pos = rng.below(ops.len() as u64 + 1) as usize;
            let o = rand_other(rng);
            ops.insert(pos, o);
        }
        emit.case(26, program(rng, c, ops));
    }
    // random programs over all nine methods
    let n = if tier == "thorough" { 3000 } else { 200 };
    for _ in 0..n {
        let c = rand_ctor(rng);
        let len = rng.range(1, 60);
        let ops = (0..len).map(|_| if rng.chance(1, 3) { flag_op(rng.below(25)) } else { rand_other(rng) }).collect();
        emit.case(26, program(rng, c, ops));
    }
    gen_assign(tier, rng, emit);
}
