//! components 2..6: create_pkg_length (via the cfg hook), integer constants, Path, EISAName, Uuid
use crate::sx::*;
use crate::Emit;
use acpi_tables::aml;
use acpi_tables::Aml;

/// a sink that implements only the mandatory method: word / dword / qword / vec arrive through the trait's defaults
struct ByteOnly(Vec<u8>);
impl acpi_tables::AmlSink for ByteOnly {
    fn byte(&mut self, b: u8) {
        self.0.push(b);
    }
}

/// the object's bytes as a vector receives them; if a sink that relies on the trait's default methods receives a different
/// stream, that stream is reported instead, so that the Spec decoder judges what such a sink would hold
fn ser(x: &dyn Aml) -> Vec<Ev> {
    let mut v = Vec::new();
    x.to_aml_bytes(&mut v);
    let mut b = ByteOnly(Vec::new());
    x.to_aml_bytes(&mut b);
    if b.0 != v {
        return vec![Ev::Bytes(b.0)];
    }
    vec![Ev::Bytes(v)]
}

pub fn run(comp: u64, case: &Sx) -> Vec<Ev> {
    match comp {
        2 => {
            let c = case.list();
            vec![Ev::Bytes(aml::verif_create_pkg_length(c[0].num() as usize, c[1].num() != 0))]
        }
        3 => {
            let c = case.list();
            let n = c[1].num();
            match c[0].num() {
                8 => ser(&(n as u8)),
                16 => ser(&(n as u16)),
                32 => ser(&(n as u32)),
                64 => ser(&n),
                0 => ser(&(n as usize)),
                _ => panic!("harness: bad int type"),
            }
        }
        4 => {
            let s = String::from_utf8(case.bytes()).expect("harness: path text must be UTF-8");
            // `impl From<&str> for Path` is the same constructor: alternate between the two entry points
            if s.len() % 2 == 0 { ser(&aml::Path::new(&s)) } else { let p: aml::Path = s.as_str().into(); ser(&p) }
        }
        5 => {
            let s = String::from_utf8(case.bytes()).expect("harness: eisa text must be UTF-8");
            ser(&aml::EISAName::new(&s))
        }
        6 => {
            let s = String::from_utf8(case.bytes()).expect("harness: uuid text must be UTF-8");
            ser(&aml::Uuid::new(&s))
        }
        _ => panic!("harness: bad kernel component"),
    }
}

// ---------------------------------------------------------------- C07
pub fn gen_c07(tier: &str, rng: &mut Rng, emit: &mut Emit) {
    let pk = |n: u64, incl: u64| l(vec![a(n), a(incl)]);
    if tier == "thorough" {
        // the whole domain, both forms
        for n in 0..(1u64 << 28) {
            emit.sweep(2, pk(n, 1));
            emit.sweep(2, pk(n, 0));
        }
    } else {
        for n in 0..70_000u64 {
            emit.sweep(2, pk(n, 1));
            emit.sweep(2, pk(n, 0));
        }
        for centre in [1u64 << 12, 1 << 20, 1 << 28] {
            for n in (centre - 64)..(centre + 64) {
                emit.case(2, pk(n, 1));
                emit.case(2, pk(n, 0));
            }
        }
        for _ in 0..200_000 {
            let n = match rng.below(4) {
                0 => rng.below(1 << 12),
                1 => rng.below(1 << 20),
                _ => rng.below(1 << 28),
            };
            emit.case(2, pk(n, rng.below(2)));
        }
    }
    // beyond the representable range (also judged by C18)
    for n in [(1u64 << 28) - 5, (1 << 28) - 4, (1 << 28) - 3, (1 << 28) - 1, 1 << 28, (1 << 28) + 1, 1 << 29, 1 << 32, 1 << 40, (1 << 62) + 5] {
        emit.case(2, pk(n, 1));
        emit.case(2, pk(n, 0));
    }
}

// ---------------------------------------------------------------- C08
const INT_TYPES: [(u64, u32); 5] = [(8, 8), (16, 16), (32, 32), (64, 64), (0, 64)];

fn emit_int_all_types(emit: &mut Emit, n: u64, sweep: bool) {
    for (ty, bits) in INT_TYPES {
        if bits == 64 || n < (1u64 << bits) {
            let c = l(vec![a(ty), a(n)]);
            if sweep {
                emit.sweep(3, c);
            } else {
                emit.case(3, c);
            }
        }
    }
}

pub fn gen_c08(tier: &str, rng: &mut Rng, emit: &mut Emit) {
    // u8 and u16 exhaustively, through every type able to carry the value
    for n in 0..65_536u64 {
        emit_int_all_types(emit, n, true);
    }
    if tier == "thorough" {
        // every 24-bit value, and every value whose low or high 16 bits are all zeros or all ones, through u32, u64 and usize
        // (the whole u32 domain through three carriers would take hours through the extracted model)
        let each = |emit: &mut Emit, n: u64| {
            emit.sweep(3, l(vec![a(32), a(n)]));
            emit.sweep(3, l(vec![a(64), a(n)]));
            emit.sweep(3, l(vec![a(0), a(n)]));
        };
        for n in 65_536..(1u64 << 24) {
            each(emit, n);
        }
        for h in 0..65_536u64 {
            each(emit, (h << 16) | 0xffff);
            each(emit, h << 16);
            each(emit, 0xffff_0000 | h);
        }
    }
    // width boundaries +-2, powers of two +-1, byte fills
    for k in 0..64u32 {
        let p = 1u64 << k;
        for d in [-2i64, -1, 0, 1, 2] {
            emit_int_all_types(emit, p.wrapping_add(d as u64), false);
        }
    }
    for f in 0..256u64 {
        for w in [1u32, 2, 4, 8] {
            let mask = if w == 8 { u64::MAX } else { (1u64 << (8 * w)) - 1 };
            emit_int_all_types(emit, f.wrapping_mul(0x0101_0101_0101_0101) & mask, false);
        }
    }
    for d in 0..4u64 {
        emit_int_all_types(emit, u64::MAX - d, false);
    }
    let n = if tier == "thorough" { 1_000_000 } else { 100_000 };
    for _ in 0..n {
        let bits = rng.range(1, 64) as u32;
        let v = rng.next() >> (64 - bits);
        emit_int_all_types(emit, v, false);
    }
}

// ---------------------------------------------------------------- C09
const LEAD: &[u8] = b"ABCDEFGHIJKLMNOPQRSTUVWXYZ_";
const TAIL: &[u8] = b"ABCDEFGHIJKLMNOPQRSTUVWXYZ_0123456789";

fn rand_seg(rng: &mut Rng) -> Vec<u8> {
    vec![*rng.pick(LEAD), *rng.pick(TAIL), *rng.pick(TAIL), *rng.pick(TAIL)]
}

fn path_text(root: bool, segs: &[Vec<u8>]) -> Vec<u8> {
    let mut s = Vec::new();
    if root {
        s.push(b'\\');
    }
    for (i, g) in segs.iter().enumerate() {
        if i > 0 {
            s.push(b'.');
        }
        s.extend_from_slice(g);
    }
    s
}

fn text_case(t: &[u8]) -> Sx {
    // always an explicit list (short byte lists print as lists, long ones as #hex)
    bytes(t)
}

pub fn gen_c09(tier: &str, rng: &mut Rng, emit: &mut Emit) {
    // every combination of segment lengths 0..=8 for paths of 1..=4 segments, rooted or not (only all-4 tuples are well formed):
    // several short segments whose lengths add up to a multiple of the 5-byte stride must be refused like any other
    for nseg in 1..=4usize {
        let total = 9usize.pow(nseg as u32);
        for code in 0..total {
            let mut c = code;
            let mut segs: Vec<Vec<u8>> = Vec::new();
            for _ in 0..nseg {
                let len = c % 9;
                c /= 9;
                segs.push((0..len).map(|i| if i == 0 { *rng.pick(LEAD) } else { *rng.pick(TAIL) }).collect());
            }
            if nseg == 4 && code % 3 != 0 && tier != "thorough" {
                continue;
            }
            emit.case(4, text_case(&path_text(code % 2 == 1, &segs)));
            if nseg <= 3 {
                emit.case(4, text_case(&path_text(code % 2 == 0, &segs)));
            }
        }
    }

    // every segment count 1..=255 (and a few beyond, judged by C18 as well), rooted or not
    for k in (1..=255usize).chain([256, 257, 300, 511, 512, 1000]) {
        for root in [false, true] {
            let segs: Vec<Vec<u8>> = (0..k).map(|_| rand_seg(rng)).collect();
            emit.case(4, text_case(&path_text(root, &segs)));
        }
    }
    // each of the 4 positions over its whole alphabet, in paths of 1..3 segments
    for pos in 0..4usize {
        let alpha = if pos == 0 { LEAD } else { TAIL };
        for ch in alpha {
            for k in 1..=3usize {
                for root in [false, true] {
                    let mut segs: Vec<Vec<u8>> = (0..k).map(|_| rand_seg(rng)).collect();
                    let which = rng.below(k as u64) as usize;
                    segs[which][pos] = *ch;
                    emit.case(4, text_case(&path_text(root, &segs)));
                }
            }
        }
    }
    let n = if tier == "thorough" { 60_000 } else { 4_000 };
    for _ in 0..n {
        let k = match rng.below(3) {
            0 => rng.range(1, 3),
            1 => rng.range(1, 12),
            _ => rng.range(1, 255),
        } as usize;
        let segs: Vec<Vec<u8>> = (0..k).map(|_| rand_seg(rng)).collect();
        emit.case(4, text_case(&path_text(rng.chance(1, 2), &segs)));
    }
    // malformed: a segment of length 0..3 or 5..8 at every position of paths of 1..5 segments
    for k in 1..=5usize {
        for bad in 0..k {
            for blen in [0usize, 1, 2, 3, 5, 6, 7, 8] {
                for root in [false, true] {
                    let mut segs: Vec<Vec<u8>> = (0..k).map(|_| rand_seg(rng)).collect();
                    let mut b = Vec::new();
                    for i in 0..blen {
                        b.push(if i == 0 { *rng.pick(LEAD) } else { *rng.pick(TAIL) });
                    }
                    segs[bad] = b;
                    emit.case(4, text_case(&path_text(root, &segs)));
                }
            }
        }
    }
    for t in [&b""[..], b"\\", b".", b"..", b"ABCD.", b".ABCD", b"ABCD..EFGH", b"\\.ABCD", b"\\\\ABCD", b"ABCD\\EFGH", b"\\ABCD.", b"AB.CD"] {
        emit.case(4, text_case(t));
    }
    // outside the AML alphabet but 4 bytes per segment (not judged by the oracle, still compared with the model)
    for t in [&b"abcd"[..], b"1ABC", b"AB C", b"\\ab_d.EFGH", b"A\xc3\xa9B", b"\xc3\xa9\xc3\xa9.ABCD"] {
        emit.case(4, text_case(t));
    }
}

// ---------------------------------------------------------------- C16
const HEXU: &[u8] = b"0123456789ABCDEF";
const UPPER: &[u8] = b"ABCDEFGHIJKLMNOPQRSTUVWXYZ";

fn rand_eisa(rng: &mut Rng) -> Vec<u8> {
    vec![*rng.pick(UPPER), *rng.pick(UPPER), *rng.pick(UPPER), *rng.pick(HEXU), *rng.pick(HEXU), *rng.pick(HEXU), *rng.pick(HEXU)]
}

fn rand_uuid(rng: &mut Rng) -> Vec<u8> {
    let hexany = b"0123456789abcdefABCDEF";
    let mut s = Vec::new();
    for i in 0..36 {
        if i == 8 || i == 13 || i == 18 || i == 23 {
            s.push(b'-');
        } else {
            s.push(*rng.pick(hexany));
        }
    }
    s
}

pub fn gen_c16(tier: &str, rng: &mut Rng, emit: &mut Emit) {
    // ---- EISA
    if tier == "thorough" {
        // the identifier space is 26^3 * 16^4 = 1.15e9 (an hour per profile through the extracted model); the encoding treats
        // the letter triple and the digit quadruple separately, so: every letter triple with 128 digit quadruples, and every
        // digit quadruple with 64 letter triples
        let hexq = |d: u32| [HEXU[(d >> 12) as usize & 15], HEXU[(d >> 8) as usize & 15], HEXU[(d >> 4) as usize & 15], HEXU[d as usize & 15]];
        for a0 in UPPER {
            for a1 in UPPER {
                for a2 in UPPER {
                    for _ in 0..128 {
                        let q = hexq(rng.below(65_536) as u32);
                        emit.sweep(5, text_case(&[*a0, *a1, *a2, q[0], q[1], q[2], q[3]]));
                    }
                }
            }
        }
        for d in 0..65_536u32 {
            let q = hexq(d);
            for _ in 0..64 {
                let (a0, a1, a2) = (*rng.pick(UPPER), *rng.pick(UPPER), *rng.pick(UPPER));
                emit.sweep(5, text_case(&[a0, a1, a2, q[0], q[1], q[2], q[3]]));
            }
        }
    } else {
        // every position over its alphabet against 3 backgrounds
        for _bg in 0..3 {
            let base = rand_eisa(rng);
            for pos in 0..7usize {
                let alpha = if pos < 3 { UPPER } else { HEXU };
                for ch in alpha {
                    let mut s = base.clone();
                    s[pos] = *ch;
                    emit.case(5, text_case(&s));
                }
            }
        }
        for _ in 0..300_000 {
            emit.case(5, text_case(&rand_eisa(rng)));
        }
    }
    // malformed EISA: length +-1, one position replaced by a non-hex / non-letter
    for _ in 0..300 {
        let base = rand_eisa(rng);
        let mut short = base.clone();
        short.pop();
        emit.case(5, text_case(&short));
        let mut long = base.clone();
        long.push(*rng.pick(HEXU));
        emit.case(5, text_case(&long));
        for pos in 0..7usize {
            for ch in [b'G', b'g', b'-', b' ', b'/', b':', b'@', b'[', b'`', b'a', b'f', b'z', b'0', b'?', b'\x7f'] {
                let mut s = base.clone();
                s[pos] = ch;
                emit.case(5, text_case(&s));
            }
        }
    }
    for _ in 0..4 {
        let base = rand_eisa(rng);
        for pos in 0..7usize {
            for ch in 1u8..=0x7f {
                let mut s = base.clone();
                s[pos] = ch;
                emit.case(5, text_case(&s));
            }
        }
    }
    emit.case(5, text_case(b""));
    // ---- UUID: every nibble position x 16 digits x both cases
    let base = rand_uuid(rng);
    for pos in 0..36usize {
        if pos == 8 || pos == 13 || pos == 18 || pos == 23 {
            continue;
        }
        for ch in b"0123456789abcdefABCDEF" {
            let mut s = base.clone();
            s[pos] = *ch;
            emit.case(6, text_case(&s));
        }
    }
    let n = if tier == "thorough" { 400_000 } else { 40_000 };
    for _ in 0..n {
        emit.case(6, text_case(&rand_uuid(rng)));
    }
    // malformed UUID: one-position mutants and length +-1
    for _ in 0..40 {
        let base = rand_uuid(rng);
        let mut short = base.clone();
        short.pop();
        emit.case(6, text_case(&short));
        let mut long = base.clone();
        long.push(b'0');
        emit.case(6, text_case(&long));
        for pos in 0..36usize {
            for ch in [b'g', b'G', b'-', b' ', b'x', b'/', b':', b'@', b'`', b'{'] {
                if base[pos] == ch {
                    continue;
                }
                let mut s = base.clone();
                s[pos] = ch;
                emit.case(6, text_case(&s));
            }
            if base[pos] == b'-' {
                let mut s = base.clone();
                s[pos] = b'0';
                emit.case(6, text_case(&s));
            }
        }
    }
    // separators in the wrong place while the string still has 36 characters, four dashes and 32 hex digits: every single dash
    // moved by 1..3 positions either way, every permutation-like regrouping of the five group lengths, two dashes moved
    for _ in 0..12 {
        let base = rand_uuid(rng);
        let digits: Vec<u8> = base.iter().cloned().filter(|c| *c != b'-').collect();
        let build = |groups: &[usize]| -> Vec<u8> {
            let mut out = Vec::new();
            let mut k = 0;
            for (i, g) in groups.iter().enumerate() {
                if i > 0 { out.push(b'-'); }
                out.extend_from_slice(&digits[k..k + g]);
                k += g;
            }
            out
        };
        let canon = [8usize, 4, 4, 4, 12];
        for i in 0..4usize {
            for d in 1..=3usize {
                // move dash i to the right / left by d: group i grows / shrinks, group i+1 shrinks / grows
                let mut g = canon;
                if g[i + 1] > d { g[i] += d; g[i + 1] -= d; emit.case(6, text_case(&build(&g))); }
                let mut g = canon;
                if g[i] > d { g[i] -= d; g[i + 1] += d; emit.case(6, text_case(&build(&g))); }
            }
        }
        for g in [[12usize, 4, 4, 4, 8], [4, 8, 4, 4, 12], [8, 4, 4, 12, 4], [4, 4, 4, 8, 12], [8, 8, 4, 4, 8], [7, 5, 4, 4, 12],
                  [8, 4, 3, 5, 12], [9, 3, 5, 3, 12], [0, 12, 4, 4, 12], [8, 4, 4, 16, 0], [32, 0, 0, 0, 0], [6, 6, 6, 6, 8]] {
            emit.case(6, text_case(&build(&g)));
        }
    }
    // every ASCII byte at every position of two well-formed strings (sign characters, whitespace, control characters,
    // lookalike punctuation: whatever a library parser might tolerate)
    for _ in 0..2 {
        let base = rand_uuid(rng);
        for pos in 0..36usize {
            for ch in 1u8..=0x7f {
                if base[pos] == ch {
                    continue;
                }
                let mut s = base.clone();
                s[pos] = ch;
                emit.case(6, text_case(&s));
            }
        }
    }
    emit.case(6, text_case(b""));
}
