"""Per-property configuration for bin/check."""

# axioms of the Coq standard library that theorems may depend on (named in DESIGN.md section 7)
ALLOWED_AXIOMS = set([
    "functional_extensionality_dep",   # Coq.Logic.FunctionalExtensionality (Program / Equations)
])

COMMON_ASSUME = [
    "Rust semantics as documented: `as` casts truncate, wrapping_* wrap, overflow checks follow the cargo profile, "
    "slice indexing panics out of range, little-endian 64-bit host",
    "the Impl model is hand-written; its tie to /repo is the correspondence run of this check",
]

PROPS = {
    "C17": {
        "rule": "cases = operation sequences on a fresh Checksum; 256 exhaustive cases (every state x every byte for "
                "add/sub and their inverses) + random sequences of 1..40 ops (add/sub/append/delete/sink byte,word,"
                "dword,qword,vec; slices of 0..700 bytes); distinct = distinct case text; non-trivial = >= 1 operation",
        "exhaustive": {"quick": False, "thorough": False},
        "exhaustive_note": "the single-byte operations are swept exhaustively (256 states x 256 bytes x add/sub); slice sequences are sampled",
        "assumptions": COMMON_ASSUME,
    },
}
