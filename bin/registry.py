"""Per-property configuration for bin/check."""

# axioms of the Coq standard library that theorems may depend on (named in DESIGN.md section 7)
ALLOWED_AXIOMS = set([
    "functional_extensionality_dep",   # Coq.Logic.FunctionalExtensionality (Program / Equations)
])

COMMON_ASSUME = [
    "Rust semantics as documented: `as` casts truncate, wrapping_* wrap, overflow checks follow the cargo profile, "
    "slice indexing panics out of range, little-endian 64-bit host",
    "the Impl model is hand-written; its tie to /repo is the correspondence run of this check",
]

TABLE_ASSUME = COMMON_ASSUME + [
    "tables below 2^32 bytes (the u32 Length field); beyond is outside every theorem and every run",
    "crate-chosen constants (creator id/revision, table revisions) are part of the model and of the reference"]

PROPS = {
    "C01": {
        "rule": "cases = (constructor, operation history) per checksummed structure with observations of the serialised image after "
                "prefixes: empty history, each operation kind alone, all ordered pairs of kinds, homogeneous runs of 300 entries "
                "(count 255->256) and runs crossing 65535->65536 bytes, random mixed histories with full-range field values; "
                "distinct = distinct case text; non-trivial = any case (the empty history of each table counts once)",
        "exhaustive": {"quick": False, "thorough": False},
        "assumptions": TABLE_ASSUME,
    },
    "C02": {
        "rule": "same histories as C01, judged on (Length field, number of bytes observed); RSDP offset 20 = 36, FACS offset 4 = 64",
        "exhaustive": {"quick": False, "thorough": False},
        "assumptions": TABLE_ASSUME,
    },
    "C03": {
        "rule": "histories of the 13 variable-body tables (same generators as C01: every entry kind alone, all ordered pairs, "
                "homogeneous runs across 255/256 entries and 65535/65536 bytes, random mixtures, variable-size entries with 0..70 "
                "sub-elements and strings of both parities); the Spec walker is run on every observed image and must find exactly "
                "the entries the Spec derives from the operations (type code, length, order), land on the end, and the count/offset "
                "fields must match; distinct = distinct case text",
        "exhaustive": {"quick": False, "thorough": False},
        "assumptions": TABLE_ASSUME,
    },
    "C04": {
        "rule": "same histories as C01 over all 22 structures; every observed image must equal, byte for byte, the reference image "
                "assembled by the Spec layer from offset-indexed layouts (SPEC_NOTES.md section A) for the values the harness passed; "
                "an in-domain history must not be refused; distinct = distinct case text",
        "exhaustive": {"quick": False, "thorough": False},
        "assumptions": TABLE_ASSUME + ["reference layouts are transcriptions of the named specifications (SPEC_NOTES.md); "
                                       "crate-chosen constants are taken from the crate"],
    },
    "C05": {
        "rule": "histories of the four handle-returning tables (PPTT, RHCT, RIMT, VIOT): all interleavings of node kinds for short "
                "histories, random long ones, later nodes referring to earlier handles; every returned handle must be the offset at "
                "which the Spec walker finds the node in every later image, and the images must equal the reference images in which "
                "a handle reference is the node's offset",
        "exhaustive": {"quick": False, "thorough": False},
        "assumptions": TABLE_ASSUME,
    },
    "C11": {
        "rule": "histories of the option-bearing structures (MADT GICC / MSI frame / enable states, SRAT affinities, HMAT locality, "
                "PPTT nodes, RIMT/VIOT booleans, CEDT CFMWS, HEST AER, TCPA server, FADT): entries built with random subsets, orders "
                "and repetitions of their option builders; the image must equal the reference image (flag = union of the bits of the "
                "options invoked; nothing else changes)",
        "exhaustive": {"quick": False, "thorough": False},
        "assumptions": TABLE_ASSUME,
    },
    "C06": {
        "rule": "cases = random trees over all exported AML constructors (grammar-aware generator: statements, expressions, data "
                "objects, named objects, method calls with per-name arity, field lists; depth 1..6, node budget 60..300) plus a "
                "directed family: Device/Scope/Scope::raw/Method and If/Else/While/PowerResource/VarPackage/Package with body sizes "
                "10..70 and 4085..4100 (thorough: 2^20 +- 8), nested across a PkgLength width change; every case is parsed by the "
                "Spec parser and compared with the expected tree; distinct = distinct case text; non-trivial = tree with >= 2 nodes",
        "exhaustive": {"quick": False, "thorough": False},
        "assumptions": COMMON_ASSUME + ["a Vec<u8> never exceeds isize::MAX bytes (body lengths < 2^63)",
                                        "the parser is told the arity of every invoked method (collected from the case)"],
        "level_text": "Theorem c06_roundtrip: for every well-formed tree over all exported AML constructors, Field lists and "
                      "ResourceTemplates included (any shape, depth, body size; both build profiles), the Spec parser reads back exactly "
                      "the tree and stops exactly at the end; a bare resource descriptor is not an AML object and only occurs as a child of "
                      "a ResourceTemplate, whose payload the theorem returns as bytes (their layout is C10's subject).",
    },
    "C10": {
        "rule": "cases = single descriptors of all 7 kinds x 3 widths with random and boundary arguments, all flag combinations; "
                "resource templates of 0..40 descriptors in random order and with total sizes around 63/64, 255/256, 4095/4096, "
                "65535/65536 bytes; distinct = distinct case text",
        "exhaustive": {"quick": False, "thorough": False},
        "assumptions": COMMON_ASSUME,
    },
    "C12": {
        "rule": "SLIT: localities 0..6 with exhaustive short assignment sequences over all cells incl. diagonal and mirrored writes, "
                "random sequences on shapes to 40, out-of-range and (release) wrapping indices; HMAT system locality: shapes 1..5 x 1..5 "
                "with all cells assigned in random order incl. repeats, single row / column, random shapes to 20x20, out-of-range "
                "indices; every observed image must equal the reference (abstract matrix: last value per cell / unordered pair) and "
                "sum to 0; distinct = distinct case text",
        "exhaustive": {"quick": False, "thorough": False},
        "assumptions": TABLE_ASSUME,
    },
    "C13": {
        "rule": "cases = (constructor, operation sequence) on the generic table: all sequences of length <= 2 (thorough: <= 3 for two "
                "initial lengths) over an alphabet of ~48 parameterised operations (typed/slice appends incl. empty, sink pushes, typed and "
                "slice writes at offsets 0,4,8,9,10,35,36,end-8..end+1, far out of range, usize::MAX) for initial lengths 36,37,40,255,"
                "256,300, plus random sequences of 1..200 operations; observation after every operation for short sequences; "
                "refused writes are caught and the same table is used again; distinct = distinct case text",
        "exhaustive": {"quick": False, "thorough": False},
        "exhaustive_note": "sequences of length <= 2 over the operation alphabet are enumerated exhaustively (bounded-exhaustive)",
        "assumptions": COMMON_ASSUME + ["tables below 2^62 bytes; offsets are usize (< 2^64)"],
    },
    "C14": {
        "rule": "cases = the objects produced by the table generators (C01 histories, every table kind) and the AML generators "
                "(C06 trees, C10 descriptors/templates); each case is executed 7 times against the crate: twice into Vec<u8>, then into "
                "a sink implementing only byte(), a sink overriding all five methods, Checksum (+ u8sum), Sdt and PackageBuilder; all "
                "observations must equal the vector's; distinct = distinct case text (each stands for 7 object x sink executions)",
        "exhaustive": {"quick": False, "thorough": False},
        "assumptions": COMMON_ASSUME + ["that objects use only the five AmlSink methods and have no interior mutability is a property of "
                                        "the Rust source (type system), exercised but not proved"],
        "level_text": "PARTIAL: theorems cover the sink side for ALL call traces and every sink the crate implements (a byte-only sink, "
                      "the vector, checksum, generic-table and package-builder sinks observe only the flattened stream; pushing a trace "
                      "through the generic-table sink = one append_slice of the stream; u8sum = arithmetic sum; GAS raw form = serialised "
                      "form; aml_as_bytes! structs serialise their raw form). That an object uses only the five trait methods and is not "
                      "mutated by serialisation is Rust's type system (&self, &mut dyn AmlSink): it is exercised -- every generated object "
                      "into six sinks, twice -- not proved.",
    },
    "C18": {
        "rule": "cases = every caller-controlled count/length site at field maximum, maximum+1 and far beyond, in both cargo profiles: "
                "package elements 254..65536 (Package and PackageBuilder, also nested), method arguments 6..255, Arg/Local indices, "
                "name segments 254..1000, address ranges (all three widths: full range, min>max, random), field-entry lengths around "
                "2^28 and near usize::MAX, PkgLength through the hook around 2^28, thorough: real bodies around 2^20 and 2^22; plus the table sites "
                "(PPTT, CXIMS, HMAT, RIMT, RHCT, VIOT, SLIT, RQSC); the Spec says which inputs are oversize, those must be refused; "
                "distinct = distinct case text",
        "exhaustive": {"quick": False, "thorough": False},
        "assumptions": COMMON_ASSUME + ["sizes that need more than the machine's memory (tables of 4 GiB, 2^32 entries) are outside the runs"],
    },
    "C15": {
        "rule": "cases = pairs (construction A, construction B): Scope::new vs Scope::raw with body sizes 0..4200 exhaustively "
                "(thorough: 2^20 +- 16) and random child lists; Package vs PackageBuilder with 0..255 elements; &str vs String; "
                "usize vs u64 over all 2^k +- 2 and random values; the two byte strings must be identical",
        "exhaustive": {"quick": False, "thorough": False},
        "exhaustive_note": "Scope::raw vs Scope::new body sizes 0..4200 are swept exhaustively",
        "assumptions": COMMON_ASSUME,
    },
    "C07": {
        "rule": "cases = (content size n, include_self) handed to the private create_pkg_length through the cfg hook; "
                "quick: every n < 70000 in both forms, +-64 around 2^12, 2^20, 2^28, 200000 random n < 2^28, 20 sizes beyond 2^28; "
                "thorough: every n < 2^28 in both forms; distinct = distinct (n, form); every case is non-trivial; "
                "call sites (component 40): one real object of every length-prefixed kind (Buffer data, VarPackage, Device, Scope, "
                "Scope::raw, Method, PowerResource, Package, PackageBuilder, If, Else, While, two nested levels) around a filler of "
                "0..80, 236..262, 4060..4100, 65515..65545 bytes (thorough: +-24 around 2^20 and 200 random sizes), resource templates "
                "of 0..7/18..23/336..344/5455..5465 descriptors, field lists with widths over every width class up to 2^28-1",
        "exhaustive": {"quick": False, "thorough": True},
        "exhaustive_note": "thorough sweeps the whole domain 0 <= n < 2^28 in the inclusive and the exclusive form",
        "assumptions": COMMON_ASSUME + ["call sites: c07_call_sites is about the term model's constructors (frame_op); the tie of each constructor to aml.rs is the component-40 correspondence"],
    },
    "C08": {
        "rule": "cases = (carrier type, value); u8 and u16 exhaustively through every type able to carry the value; "
                "all 2^k +-2, byte fills, u64::MAX-3.., random values of random bit width (100k quick / 1M thorough) through "
                "every wide-enough type; thorough adds every value below 2^24 and every u32 whose low or high half is 0x0000/0xffff through u32/u64/usize; distinct = distinct (type, value)",
        "exhaustive": {"quick": False, "thorough": False},
        "exhaustive_note": "u8/u16 domains exhaustive in both tiers, 24-bit values exhaustive in thorough; u32/u64/usize sampled at the width boundaries and at random",
        "assumptions": COMMON_ASSUME,
    },
    "C09": {
        "rule": "cases = path text handed to Path::new, then serialised; every segment count 1..255 (+ 256..1000) rooted or not, "
                "each of the 4 positions over its alphabet, random paths, malformed: a segment of length 0..3/5..8 at every "
                "position of paths of 1..5 segments, dot/backslash oddities, non-alphabet segments; distinct = distinct text",
        "exhaustive": {"quick": False, "thorough": False},
        "assumptions": COMMON_ASSUME + ["strings are modelled as byte lists (Path::new is byte-level); inputs are valid UTF-8"],
    },
    "C16": {
        "rule": "cases = EISA id text / UUID text; quick: every position over its alphabet x 3 backgrounds + 300k random ids, "
                "every UUID nibble position x 22 hex characters + 40k random UUIDs in mixed case; malformed = one-position "
                "mutants (every ASCII byte at every position) and length +-1; thorough: every letter triple x 128 digit quadruples and every digit quadruple x 64 letter triples; distinct = distinct text",
        "exhaustive": {"quick": False, "thorough": False},
        "exhaustive_note": "the EISA domain (26^3 * 16^4 = 1.15e9) is covered per factor (all letter triples, all digit quadruples), not as a product; UUIDs are sampled",
        "assumptions": COMMON_ASSUME + ["EISA/UUID models cover ASCII input (chars() = bytes); non-ASCII input is outside the model"],
    },
    "C17": {
        "rule": "cases = operation sequences on a fresh Checksum; 256 exhaustive cases (every state x every byte for "
                "add/sub and their inverses) + random sequences of 1..40 ops (add/sub/append/delete/sink byte,word,"
                "dword,qword,vec; slices of 0..700 bytes); distinct = distinct case text; non-trivial = >= 1 operation",
        "exhaustive": {"quick": False, "thorough": False},
        "exhaustive_note": "the single-byte operations are swept exhaustively (256 states x 256 bytes x add/sub); slice sequences are sampled",
        "assumptions": COMMON_ASSUME,
    },
}

HOOK_COMMITS = ["6bd6519"]
NOT_APPLICABLE = {}

# Coherence theorems (oracle accepts the model's own output on the whole stated domain): statement files outside Props/Cxx.v,
# counted among the obligations of the property whose oracle they speak about: property -> [(file under Props/, name regex)]
_TBL = r"^coherence_(xsdt|mcfg|madt|srat|slit|hmat|pptt|rhct|rimt|viot|cedt|hest|rqsc|tpm2|tpmserver|tpmclient|fadt|bert|spcr|facs|rsdp|no_false_alarm|markers_ok_needed)$"
COHERENCE = {
    "C17": [("Coherence", r"^coh_ck")],
    "C07": [("Coherence", r"^coh_pkglen(?!18)"), ("CoherenceAml", r"^coherence_C07")],
    "C08": [("Coherence", r"^coh_int")],
    "C09": [("Coherence", r"^coh_path(?!18)")],
    "C16": [("Coherence", r"^coh_(eisa|uuid)")],
    "C18": [("Coherence", r"^coh_(pkglen18|path18)")],
    # tables: each coherence_<table> theorem speaks about the oracles of C04, C01 and C02 at once
    "C01": [("CoherenceTables", _TBL)],
    "C02": [("CoherenceTables", _TBL)],
    "C04": [("CoherenceTables", _TBL)],
    "C11": [("CoherenceTables", r"^coherence_c11_c12$")],
    "C12": [("CoherenceTables", r"^coherence_(c11_c12|slit|hmat)$")],
    "C13": [("CoherenceSdt", r"^coherence_sdt")],
    "C05": [("CoherenceWalk", r"^coherence_(c05_|judge_history|pending_origin|walk_equal_streams)")],
    "C03": [("CoherenceWalk", r"^coherence_(c03_|domains_prefix_closed|walk_equal_streams)")],
    "C06": [("CoherenceAml", r"^coherence_(expect_is_norm|expect_gives_wf|C06|C06_every_case|size_bound_needed)$")],
    "C10": [("CoherenceAml", r"^coherence_C10")],
    "C15": [("CoherenceAml", r"^coherence_C15")],
}
