(* Coherence of the executable judgement with the refinement theorems, table components (generic part).

   The property theorems (Props/C01.v, C02.v, C04.v) speak about the Impl MODEL; the evidence is produced by the ORACLE
   functions of Judge.v applied to observation streams.  This file connects the two for the table components: on every
   well-formed case whose history lies inside the Spec's domain, the oracle ACCEPTS the model's own observation stream.
   Whenever the correspondence K holds on a case (crate = model), the oracle therefore cannot raise an alarm on it: an
   ORACLE alarm always comes with a disagreement or a genuine deviation, never from the judgement alone.

   General statement (instantiated per component in Proofs/CoherenceFixedP.v, CoherenceAddP.v, CoherenceSpecialP.v;
   stated in Props/CoherenceTables.v):

     for a model (new, step, image) run through [run_history] (Impl/Run.v) and a tspec [ts] such that
       (a) every operation the model accepts emits exactly one EvNum                                    [step_one]
       (b) the model accepts the whole history, and at every prefix p of the real operations of the case for which the
           Spec has a reference image, the model's image is that reference image (the [refines] shape of
           Proofs/FixedRefP.v applied at the in-domain prefixes; a prefix outside the domain is not judged by the oracle)
     and for every case c = SL (ctor :: ops) whose atoms are all the observation marker 1              [markers_ok]
       c04_oracle ts c (run_history image step new c) = true                                           [c04_coherent]
       forallb (fun e => match e with EvBytes img => P img | _ => true end) (run_history image step new c) = true
     where P is any predicate that holds of the model's image after every prefix (C01: byte sum 0; C02: Length = size)
                                                                                                        [images_coherent]

   [c04_coherent_refines] derives (b) from a refinement theorem with a side condition that holds at every in-domain
   prefix; the instantiation files discharge it from the side condition on the WHOLE history (reference images do not
   shrink along a history, well-formedness of operation lists is inherited by prefixes).  Prefix-closedness of the Spec's
   domain is NOT needed for C04 (judge_history accepts an observation whose prefix has no reference image); it is proved
   and used only where the model-side theorem of C02 needs the Length bound at intermediate states (RQSC, HEST, SLIT). *)
From Coq Require Import NArith List Bool Lia Arith.
From ACPI Require Import Lib.Bytes Lib.Sx Impl.Table Impl.Run Spec.Layout Spec.MadtS Spec.RimtS Proofs.FixedP.
Import ListNotations.
Open Scope N_scope.

(* a well-formed case: every atom among the operations is the observation marker 1 *)
Definition markers_ok (ops : list sx) : bool :=
  forallb (fun o => match o with SA n => n =? 1 | SL _ => true end) ops.

Definition is_prefix (p l : list sx) : Prop := exists q, l = p ++ q.

Lemma is_prefix_refl l : is_prefix l l.
Proof. exists []. now rewrite app_nil_r. Qed.

Lemma is_prefix_nil l : is_prefix [] l.
Proof. exists l. reflexivity. Qed.

Lemma real_ops_cons_SL l r : real_ops (SL l :: r) = SL l :: real_ops r.
Proof. reflexivity. Qed.

Lemma real_ops_cons_SA n r : real_ops (SA n :: r) = real_ops r.
Proof. reflexivity. Qed.

Lemma real_ops_all_lists ops : Forall (fun o => match o with SA _ => False | SL _ => True end) (real_ops ops).
Proof.
  induction ops as [|[n|l] ops IH]; [constructor|exact IH|]. rewrite real_ops_cons_SL. constructor; [exact I|exact IH].
Qed.

Lemma real_ops_idem ops : real_ops (real_ops ops) = real_ops ops.
Proof.
  induction ops as [|[n|l] ops IH]; [reflexivity|exact IH|]. rewrite !real_ops_cons_SL. now rewrite IH.
Qed.

Lemma real_ops_app a b : real_ops (a ++ b) = real_ops a ++ real_ops b.
Proof. unfold real_ops. apply filter_app. Qed.

(* a prefix of a marker-free list is marker-free *)
Lemma prefix_real p q ops : real_ops ops = p ++ q -> real_ops p = p.
Proof.
  intros H. pose proof (real_ops_all_lists ops) as F. rewrite H in F. apply Forall_app in F. destruct F as [F _].
  clear H. induction p as [|[n|l] p IH]; [reflexivity| |].
  - inversion F as [|? ? Hx _]. destruct Hx.
  - inversion F as [|? ? _ F']; subst. rewrite real_ops_cons_SL. now rewrite IH.
Qed.

Section Generic.
  Context {S : Type}.
  Variable image : S -> option (list N).
  Variable step : S -> sx -> option (S * list ev).

  (* (a) every accepted operation reports exactly one number *)
  Hypothesis step_one : forall s o s' evs, step s o = Some (s', evs) -> exists h, evs = [EvNum h].

  (* the observation stream of Impl/Run.v without the accumulator *)
  Fixpoint obs (s : S) (ops : list sx) : list ev :=
    match ops with
    | [] => []
    | SA 1 :: r => match image s with
                   | Some b => EvBytes b :: obs s r
                   | None => [EvPanic]
                   end
    | o :: r => match step s o with
                | Some (s', evs) => evs ++ obs s' r
                | None => [EvPanic]
                end
    end.

  Lemma run_ops_acc_obs ops : forall s acc, run_ops_acc image step s ops acc = rev acc ++ obs s ops.
  Proof.
    induction ops as [|o r IH]; intros s acc.
    - cbn [run_ops_acc obs]. rewrite frev_rev, app_nil_r. reflexivity.
    - assert (Hgen : match step s o with
                     | Some (s', evs) => run_ops_acc image step s' r (rev_append evs acc)
                     | None => frev (EvPanic :: acc)
                     end = rev acc ++ match step s o with Some (s', evs) => evs ++ obs s' r | None => [EvPanic] end).
      { destruct (step s o) as [[s' evs]|].
        - rewrite IH, rev_append_rev, rev_app_distr, rev_involutive, app_assoc. reflexivity.
        - rewrite frev_rev. reflexivity. }
      destruct o as [[|[p|p|]]|l]; cbn [run_ops_acc obs]; try exact Hgen.
      destruct (image s) as [b|].
      + rewrite IH. cbn [rev]. rewrite <- app_assoc. reflexivity.
      + rewrite frev_rev. reflexivity.
  Qed.

  Lemma run_history_obs (new : sx -> option S) ctor ops s0 :
    new ctor = Some s0 -> run_history image step new (SL (ctor :: ops)) = obs s0 ops.
  Proof. intros Hn. unfold run_history, run_ops. rewrite Hn, run_ops_acc_obs. reflexivity. Qed.

  Lemma run_steps_real ops : forall s, run_steps step s (real_ops ops) = run_steps step s ops.
  Proof.
    induction ops as [|[n|l] ops IH]; intros s; [reflexivity|exact (IH s)|].
    rewrite real_ops_cons_SL. cbn [run_steps]. destruct (step s (SL l)) as [[s1 e]|]; [apply IH|reflexivity].
  Qed.

  (* ---------- the walk of [judge_history] / [refused_at] / a per-image predicate along the model's own stream ---------- *)
  Variable returns : sx -> bool.
  Variable judge : list N -> list sx -> bool.
  Variable P : list N -> bool.

  Definition all_images (evs : list ev) : bool :=
    forallb (fun e => match e with EvBytes img => P img | _ => true end) evs.

  Lemma judge_obs ops : forall s sf rp pending,
    markers_ok ops = true ->
    run_steps step s ops = Some sf ->
    (forall p q s1, real_ops ops = p ++ q -> run_steps step s p = Some s1 ->
                    exists img, image s1 = Some img /\ judge img (rev rp ++ p) = true /\ P img = true) ->
    judge_history returns judge (fun _ _ => true) rp ops (obs s ops) pending = true
    /\ refused_at rp ops (obs s ops) = None
    /\ all_images (obs s ops) = true.
  Proof.
    induction ops as [|o r IH]; intros s sf rp pending Hm Hr Hp.
    - cbn [obs judge_history refused_at all_images forallb]. auto.
    - cbn [markers_ok forallb] in Hm. apply andb_true_iff in Hm. destruct Hm as [Ho Hm].
      destruct o as [n|l].
      + apply N.eqb_eq in Ho. subst n. cbn [run_steps] in Hr.
        rewrite real_ops_cons_SA in Hp.
        destruct (Hp [] (real_ops r) s eq_refl eq_refl) as (img & Hi & Hj & HP).
        rewrite app_nil_r in Hj.
        destruct (IH s sf rp pending Hm Hr) as (J & R & A).
        { intros p q s1 E Hs. exact (Hp p q s1 E Hs). }
        cbn [obs]. rewrite Hi. cbn [judge_history refused_at all_images forallb].
        rewrite frev_rev, Hj, HP. cbn [andb]. fold all_images. auto.
      + cbn [run_steps] in Hr.
        destruct (step s (SL l)) as [[s' evs]|] eqn:Es; [|discriminate].
        destruct (step_one s (SL l) s' evs Es) as [h ->].
        destruct (IH s' sf (SL l :: rp) (if returns (SL l) then (h, length rp) :: pending else pending) Hm Hr) as (J & R & A).
        { intros p q s1 E Hs. rewrite real_ops_cons_SL in Hp.
          destruct (Hp (SL l :: p) q s1) as (img & Hi & Hj & HP).
          - rewrite E. reflexivity.
          - cbn [run_steps]. rewrite Es. exact Hs.
          - exists img. split; [exact Hi|]. split; [|exact HP].
            cbn [rev]. rewrite <- app_assoc. exact Hj. }
        cbn [obs]. rewrite Es. cbn [app judge_history refused_at all_images forallb]. fold all_images. auto.
  Qed.

End Generic.

Section Oracles.
  Context {S : Type}.
  Variable image : S -> option (list N).
  Variable step : S -> sx -> option (S * list ev).
  Hypothesis step_one : forall s o s' evs, step s o = Some (s', evs) -> exists h, evs = [EvNum h].
  Hypothesis image_total : forall s, exists img, image s = Some img.
  Variable new : sx -> option S.
  Variable ts : tspec.

  (* C04 / C11: the model accepts the whole history and, at every prefix for which the Spec has a reference image, the
     model's image is that reference image: the oracle accepts the model's stream *)
  Theorem c04_coherent ctor ops s0 sf :
    markers_ok ops = true -> new ctor = Some s0 -> run_steps step s0 ops = Some sf ->
    (forall p q s1 r, real_ops ops = p ++ q -> run_steps step s0 p = Some s1 -> ts_image ts ctor p = Some r ->
                      image s1 = Some r) ->
    c04_oracle ts (SL (ctor :: ops)) (run_history image step new (SL (ctor :: ops))) = true.
  Proof.
    intros Hm Hn Hr Hp.
    unfold c04_oracle, case_parts. rewrite (run_history_obs image step new ctor ops s0 Hn).
    destruct (judge_obs image step step_one (ts_returns ts)
                (fun img prefix => match ts_image ts ctor prefix with Some r => list_N_eqb img r | None => true end)
                (fun _ => true) ops s0 sf [] [] Hm Hr) as (J & R & _).
    { intros p q s1 E Hs. cbn [rev app].
      destruct (ts_image ts ctor p) as [r|] eqn:Ht.
      - exists r. split; [exact (Hp p q s1 r E Hs Ht)|]. split; [|reflexivity]. now apply list_N_eqb_eq.
      - destruct (image_total s1) as [img Hi]. exists img. auto. }
    rewrite J, R. reflexivity.
  Qed.

  (* C01 / C02 shape: a boolean predicate that holds of the model's image after every prefix holds of every observed image *)
  Theorem images_coherent (P : list N -> bool) ctor ops s0 sf :
    markers_ok ops = true -> new ctor = Some s0 -> run_steps step s0 ops = Some sf ->
    (forall p q s1 img, real_ops ops = p ++ q -> run_steps step s0 p = Some s1 -> image s1 = Some img -> P img = true) ->
    forallb (fun e => match e with EvBytes img => P img | _ => true end) (run_history image step new (SL (ctor :: ops))) = true.
  Proof.
    intros Hm Hn Hr Hp.
    rewrite (run_history_obs image step new ctor ops s0 Hn).
    destruct (judge_obs image step step_one (fun _ => false) (fun _ _ => true) P ops s0 sf [] [] Hm Hr) as (_ & _ & A).
    { intros p q s1 E Hs. destruct (image_total s1) as [img Hi]. exists img. split; [exact Hi|]. split; [reflexivity|].
      exact (Hp p q s1 img E Hs Hi). }
    exact A.
  Qed.

  (* the same from a refinement theorem of the [refines] shape (Proofs/FixedRefP.v) with a side condition [side]:
     the whole history is in the Spec's domain, and the side condition holds at every prefix that is in the domain *)
  Variable side : sx -> list sx -> list N -> Prop.
  Hypothesis refinement : forall ctor p r, ts_image ts ctor p = Some r -> side ctor p r ->
    exists s0 s, new ctor = Some s0 /\ run_steps step s0 p = Some s /\ image s = Some r.

  Definition side_at_prefixes (ctor : sx) (ops : list sx) : Prop :=
    forall p q r, real_ops ops = p ++ q -> ts_image ts ctor p = Some r -> side ctor p r.

  Lemma refinement_accepts ctor ops r :
    ts_image ts ctor (real_ops ops) = Some r -> side_at_prefixes ctor ops ->
    exists s0 sf, new ctor = Some s0 /\ run_steps step s0 ops = Some sf /\ image sf = Some r.
  Proof.
    intros Ht Hs. destruct (refinement ctor (real_ops ops) r Ht (Hs _ [] r (eq_sym (app_nil_r _)) Ht)) as (s0 & sf & Hn & Hr & Hi).
    exists s0, sf. rewrite <- run_steps_real. auto.
  Qed.

  Theorem c04_coherent_refines ctor ops r :
    markers_ok ops = true -> ts_image ts ctor (real_ops ops) = Some r -> side_at_prefixes ctor ops ->
    c04_oracle ts (SL (ctor :: ops)) (run_history image step new (SL (ctor :: ops))) = true.
  Proof.
    intros Hm Ht Hs. destruct (refinement_accepts ctor ops r Ht Hs) as (s0 & sf & Hn & Hr & _).
    apply (c04_coherent ctor ops s0 sf Hm Hn Hr).
    intros p q s1 r1 E Hs1 Ht1.
    destruct (refinement ctor p r1 Ht1 (Hs p q r1 E Ht1)) as (s0' & s' & Hn' & Hr' & Hi').
    rewrite Hn in Hn'. inversion Hn'; subst s0'. rewrite Hs1 in Hr'. inversion Hr'; subst s'. exact Hi'.
  Qed.
End Oracles.

(* histories over appended operation lists *)
Lemma run_steps_split {S : Type} (step : S -> sx -> option (S * list ev)) ops p q s0 sf :
  real_ops ops = p ++ q -> run_steps step s0 ops = Some sf ->
  forall s1, run_steps step s0 p = Some s1 -> run_steps step s1 q = Some sf.
Proof.
  intros E Hr s1 Hs. rewrite <- run_steps_real, E in Hr. clear E.
  revert s0 Hr Hs. induction p as [|o p IH]; intros s0 Hr Hs.
  - cbn [run_steps] in Hs. inversion Hs; subst. exact Hr.
  - cbn [app run_steps] in Hr, Hs. destruct o as [n|l]; [exact (IH s0 Hr Hs)|].
    destruct (step s0 (SL l)) as [[s' e]|]; [|discriminate]. exact (IH s' Hr Hs).
Qed.
