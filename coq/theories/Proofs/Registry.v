(* The tables covered by the generic theorems, collected from the per-table proof files. *)
From Coq Require Import NArith List.
From ACPI Require Import Lib.Bytes Lib.Sx Impl.Table Proofs.TableP Proofs.Tables.
From ACPI Require Import Proofs.MadtP Proofs.XsdtP Proofs.McfgP Proofs.SratP.
Import ListNotations.

(* tables all of whose public mutating operations are additions (instances of Impl/Table.v) *)
Definition add_tables : list addtable := [madt_table; xsdt_table; mcfg_table; srat_table].

(* tables whose additions are proved to be self-describing entries *)
Definition walk_tables : list walktable := [madt_walk].
