(* The tables covered by the generic theorems, collected from the per-table proof files. *)
From Coq Require Import NArith List.
From ACPI Require Import Lib.Bytes Lib.Sx Impl.Table Proofs.TableP Proofs.Tables.
From ACPI Require Import Lib.Sx Proofs.MadtP Proofs.XsdtP Proofs.McfgP Proofs.SratP Proofs.HestP Proofs.HmatP Proofs.PpttP Proofs.RhctP Proofs.RimtP Proofs.ViotP Proofs.CedtP.
Import ListNotations.

(* tables all of whose public mutating operations are additions (instances of Impl/Table.v) *)
Definition add_tables : list addtable :=
  [madt_table; xsdt_table; mcfg_table; srat_table; hest_table; hmat_table Checked; hmat_table Wrapping; pptt_table; rhct_table;
   rimt_table; viot_table; cedt_table].

(* tables whose additions are proved to be self-describing entries (every ACCEPTED addition: the entry's own length field, read
   as the specification says, is the number of bytes the entry occupies) *)
From ACPI Require Import Proofs.SratWalkP Proofs.XsdtWalkP Proofs.McfgWalkP Proofs.PpttWalkP Proofs.RhctWalkP Proofs.RimtWalkP
  Proofs.ViotWalkP Proofs.CedtWalkP Proofs.HestWalkP Proofs.HmatWalkP.
Definition walk_tables : list walktable :=
  [madt_walk; srat_walk; xsdt_walk; mcfg_walk; pptt_walk; rhct_walk; rimt_walk; viot_walk; cedt_walk; hest_walk;
   hmat_walk Checked; hmat_walk Wrapping].

(* ------------------------------------------------------------------------------------------------
   C01 / C02 for the incrementally maintained tables *)
From ACPI Require Import Lib.Machine Spec.Layout Proofs.FixedP Proofs.BertP Proofs.SpcrP Proofs.FacsP Proofs.RsdpP Proofs.Tpm2P.
From ACPI Require Import Impl.Bert Impl.Spcr Impl.Facs Impl.Rsdp Impl.Tpm2 Impl.Fields.
Open Scope N_scope.

Lemma add_tables_sum (T : addtable) md c ops s0 s :
  at_new T c = Some s0 -> run_adds (at_entry T) md s0 ops = Some s ->
  N.of_nat (length (tbl_image s)) < 2 ^ 32 -> sum8 (tbl_image s) = 0.
Proof. intros Hn Hr Hfit. apply inv_sum8_zero. exact (proj1 (addtable_reach T md c ops s0 s Hn Hr Hfit)). Qed.

Lemma add_tables_len (T : addtable) md c ops s0 s :
  at_new T c = Some s0 -> run_adds (at_entry T) md s0 ops = Some s ->
  N.of_nat (length (tbl_image s)) < 2 ^ 32 -> field_at (tbl_image s) 4 4 = N.of_nat (length (tbl_image s)).
Proof.
  intros Hn Hr Hfit. apply image_len_field; [|exact Hfit]. exact (proj1 (addtable_reach T md c ops s0 s Hn Hr Hfit)).
Qed.

(* the structures that are not addition tables: every constructor argument, every sequence of operations the model accepts *)
Definition fixed_sum_statement : Prop :=
  (forall md c ops s0 s, bert_new c = Some s0 -> run_steps (bert_step md) s0 ops = Some s -> sum8 (bert_bytes s) = 0) /\
  (forall md c ops s0 s, spcr_new c = Some s0 -> run_steps (spcr_step md) s0 ops = Some s -> sum8 (spcr_bytes s) = 0) /\
  (forall md c ops s0 s, tpmclient_new c = Some s0 -> run_steps (tpmclient_step md) s0 ops = Some s -> sum8 (tpmclient_bytes s) = 0) /\
  (forall md c ops s0 s, tpmserver_new c = Some s0 -> run_steps (tpmserver_step md) s0 ops = Some s -> sum8 (tpmserver_bytes s) = 0) /\
  (forall md c ops s0 s, tpm2_new c = Some s0 -> run_steps (tpm2_step md) s0 ops = Some s -> sum8 (tpm2_bytes s) = 0) /\
  (forall md c ops s0 s, rsdp_new c = Some s0 -> run_steps (rsdp_step md) s0 ops = Some s ->
                         sum8 (rsdp_bytes s) = 0 /\ sum8 (firstn 20 (rsdp_bytes s)) = 0).

Lemma fixed_sum : fixed_sum_statement.
Proof.
  unfold fixed_sum_statement. repeat split; intros.
  - eapply bert_sum_len; eauto. - eapply spcr_sum_len; eauto. - eapply tpmclient_sum_len; eauto.
  - eapply tpmserver_sum_len; eauto. - eapply tpm2_sum_len; eauto.
  - eapply rsdp_sums_len; eauto. - eapply rsdp_sums_len; eauto.
Qed.

Definition fixed_len_statement : Prop :=
  (forall md c ops s0 s, bert_new c = Some s0 -> run_steps (bert_step md) s0 ops = Some s ->
                         field_at (bert_bytes s) 4 4 = N.of_nat (length (bert_bytes s))) /\
  (forall md c ops s0 s, spcr_new c = Some s0 -> run_steps (spcr_step md) s0 ops = Some s ->
                         field_at (spcr_bytes s) 4 4 = N.of_nat (length (spcr_bytes s))) /\
  (forall md c ops s0 s, tpmclient_new c = Some s0 -> run_steps (tpmclient_step md) s0 ops = Some s ->
                         field_at (tpmclient_bytes s) 4 4 = N.of_nat (length (tpmclient_bytes s))) /\
  (forall md c ops s0 s, tpmserver_new c = Some s0 -> run_steps (tpmserver_step md) s0 ops = Some s ->
                         field_at (tpmserver_bytes s) 4 4 = N.of_nat (length (tpmserver_bytes s))) /\
  (forall md c ops s0 s, tpm2_new c = Some s0 -> run_steps (tpm2_step md) s0 ops = Some s ->
                         field_at (tpm2_bytes s) 4 4 = N.of_nat (length (tpm2_bytes s))) /\
  (forall md c ops s0 s, rsdp_new c = Some s0 -> run_steps (rsdp_step md) s0 ops = Some s ->
                         field_at (rsdp_bytes s) 20 4 = 36 /\ length (rsdp_bytes s) = 36%nat) /\
  (forall md c ops s0 s, facs_new c = Some s0 -> run_steps (facs_step md) s0 ops = Some s ->
                         field_at (ser_flds s) 4 4 = 64 /\ length (ser_flds s) = 64%nat).

Lemma fixed_len : fixed_len_statement.
Proof.
  unfold fixed_len_statement. repeat split; intros.
  - eapply bert_sum_len; eauto. - eapply spcr_sum_len; eauto. - eapply tpmclient_sum_len; eauto.
  - eapply tpmserver_sum_len; eauto. - eapply tpm2_sum_len; eauto.
  - eapply rsdp_sums_len; eauto. - eapply rsdp_sums_len; eauto.
  - eapply facs_len; eauto. - eapply facs_len; eauto.
Qed.

(* ------------------------------------------------------------------------------------------------
   C01 / C02 for the tables with their own state machines: RQSC (controllers with nested resources), FADT (builder calls),
   SLIT (cell assignments), HEST histories interleaved with stand-alone structures *)
From ACPI Require Import Impl.Rqsc Impl.Fadt Impl.Slit Impl.Hest Proofs.RqscP Proofs.FadtP Proofs.SlitP.

Definition special_sum_statement : Prop :=
  (forall md c ops s0 s, rqsc_new c = Some s0 -> rqsc_run md s0 ops = Some s -> sum8 (rqsc_image s) = 0) /\
  (forall md c ops f0 f, fadt_new c = Some f0 -> fadt_run md f0 ops = Some f -> sum8 (fadt_image f) = 0) /\
  (forall md c ops s0 s, slit_new c = Some s0 -> slit_run md s0 ops = Some s -> sum8 (slit_image s) = 0) /\
  (forall md c ops t0 s, hest_new c = Some t0 -> hest_run md {| hs_tbl := t0; hs_alone := None |} ops = Some s ->
                         N.of_nat (length (tbl_image (hs_tbl s))) < 2 ^ 32 -> sum8 (tbl_image (hs_tbl s)) = 0).

Lemma special_sum : special_sum_statement.
Proof.
  unfold special_sum_statement. repeat split; intros.
  - eapply rqsc_history; eauto. - eapply fadt_history; eauto. - eapply slit_correct_all; eauto.
  - eapply hest_history_table; eauto.
Qed.

Definition special_len_statement : Prop :=
  (forall md c ops s0 s, rqsc_new c = Some s0 -> rqsc_run md s0 ops = Some s ->
                         N.of_nat (length (rqsc_image s)) < 2 ^ 32 ->
                         field_at (rqsc_image s) 4 4 = N.of_nat (length (rqsc_image s))) /\
  (forall md c ops f0 f, fadt_new c = Some f0 -> fadt_run md f0 ops = Some f ->
                         field_at (fadt_image f) 4 4 = N.of_nat (length (fadt_image f))) /\
  (forall md c ops s0 s, slit_new c = Some s0 -> slit_run md s0 ops = Some s ->
                         field_at (slit_image s) 4 4 = N.of_nat (length (slit_image s))) /\
  (forall md c ops t0 s, hest_new c = Some t0 -> hest_run md {| hs_tbl := t0; hs_alone := None |} ops = Some s ->
                         N.of_nat (length (tbl_image (hs_tbl s))) < 2 ^ 32 ->
                         field_at (tbl_image (hs_tbl s)) 4 4 = N.of_nat (length (tbl_image (hs_tbl s)))).

Lemma special_len : special_len_statement.
Proof.
  unfold special_len_statement. repeat split; intros.
  - eapply rqsc_history; eauto. - eapply fadt_history; eauto. - eapply slit_correct_all; eauto.
  - eapply hest_history_table; eauto.
Qed.
