(* EISA id compression and ToUUID byte order. *)
From Coq Require Import NArith ZArith List Lia Bool Arith.
From ACPI Require Import Lib.Bytes Lib.Sx Lib.Machine Impl.AmlCore Spec.AmlCoreS Proofs.BitsP.
Import ListNotations.
Open Scope N_scope.

Ltac Zify.zify_post_hook ::= Z.to_euclidean_division_equations.

(* ---------- hex digits ---------- *)

Lemma hex_upper_digit h : is_hex_upper h = true ->
  exists d, hex_digit h = Some d /\ d < 16 /\ hex_char d = h.
Proof.
  unfold is_hex_upper, hex_digit, hex_char. intros H.
  apply orb_true_iff in H. destruct H as [H|H]; apply andb_true_iff in H; destruct H as [H1 H2];
    apply N.leb_le in H1, H2.
  - exists (h - 48). assert (E : (48 <=? h) && (h <=? 57) = true) by (apply andb_true_iff; split; apply N.leb_le; lia).
    rewrite E. repeat split; [lia|]. destruct (N.ltb_spec (h - 48) 10); lia.
  - exists (h - 55).
    assert (E1 : (48 <=? h) && (h <=? 57) = false) by (apply andb_false_iff; right; apply N.leb_gt; lia).
    assert (E2 : (97 <=? h) && (h <=? 102) = false) by (apply andb_false_iff; left; apply N.leb_gt; lia).
    assert (E3 : (65 <=? h) && (h <=? 70) = true) by (apply andb_true_iff; split; apply N.leb_le; lia).
    rewrite E1, E2, E3. repeat split; [lia|]. destruct (N.ltb_spec (h - 55) 10); lia.
Qed.

Lemma upper_letter c : is_upper c = true -> exists a, sub_c c 0x40 = Some a /\ 1 <= a <= 26 /\ 0x40 + a = c.
Proof.
  unfold is_upper, sub_c. intros H. apply andb_true_iff in H. destruct H as [H1 H2]. apply N.leb_le in H1, H2.
  exists (c - 64). destruct (N.leb_spec 64 c); [|lia]. repeat split; lia.
Qed.

(* ---------- EISA ---------- *)

Lemma swap_bytes32_invol x : x < 2 ^ 32 -> unle (rev (le 4 (swap_bytes32 x))) = x.
Proof.
  intros H. unfold swap_bytes32.
  assert (Hb : bytes_ok (rev (le 4 x)) = true).
  { unfold bytes_ok. rewrite forallb_forall. intros y Hy. apply in_rev in Hy.
    pose proof (le_bytes_ok 4 x) as Hk. unfold bytes_ok in Hk. rewrite forallb_forall in Hk. now apply Hk. }
  assert (Hl : length (rev (le 4 x)) = 4%nat) by (rewrite rev_length; apply length_le).
  pose proof (le_unle (rev (le 4 x)) Hb) as E. rewrite Hl in E. rewrite E.
  rewrite rev_involutive. apply unle_le_small. exact H.
Qed.

Lemma swap_bytes32_lt x : swap_bytes32 x < 2 ^ 32.
Proof.
  unfold swap_bytes32.
  assert (Hb : bytes_ok (rev (le 4 x)) = true).
  { unfold bytes_ok. rewrite forallb_forall. intros y Hy. apply in_rev in Hy.
    pose proof (le_bytes_ok 4 x) as Hk. unfold bytes_ok in Hk. rewrite forallb_forall in Hk. now apply Hk. }
  pose proof (unle_bound _ Hb) as B. rewrite rev_length, length_le in B. exact B.
Qed.

Definition eisa_pack (a0 a1 a2 d3 d4 d5 d6 : N) : N :=
  a0 * 2 ^ 26 + a1 * 2 ^ 21 + a2 * 2 ^ 16 + d3 * 2 ^ 12 + d4 * 2 ^ 8 + d5 * 2 ^ 4 + d6.

Lemma eisa_lors a0 a1 a2 d3 d4 d5 d6 :
  a0 < 32 -> a1 < 32 -> a2 < 32 -> d3 < 16 -> d4 < 16 -> d5 < 16 -> d6 < 16 ->
  N.lor (N.lor (N.lor (N.lor (N.lor (N.lor
     (cast U32 (N.shiftl a0 26)) (cast U32 (N.shiftl a1 21))) (cast U32 (N.shiftl a2 16)))
     (N.shiftl d3 12)) (N.shiftl d4 8)) (N.shiftl d5 4)) d6 = eisa_pack a0 a1 a2 d3 d4 d5 d6.
Proof.
  intros. unfold cast, U32, eisa_pack. rewrite !shiftl_mul.
  change (2 ^ 32) with 4294967296. change (2 ^ 26) with 67108864. change (2 ^ 21) with 2097152.
  change (2 ^ 16) with 65536. change (2 ^ 12) with 4096. change (2 ^ 8) with 256. change (2 ^ 4) with 16.
  rewrite !N.mod_small by lia.
  rewrite (lor_add_low (a0 * 67108864) (a1 * 2097152) 26) by (change (2 ^ 26) with 67108864; lia).
  rewrite (lor_add_low _ (a2 * 65536) 21) by (change (2 ^ 21) with 2097152; lia).
  rewrite (lor_add_low _ (d3 * 4096) 16) by (change (2 ^ 16) with 65536; lia).
  rewrite (lor_add_low _ (d4 * 256) 12) by (change (2 ^ 12) with 4096; lia).
  rewrite (lor_add_low _ (d5 * 16) 8) by (change (2 ^ 8) with 256; lia).
  rewrite (lor_add_low _ d6 4) by (change (2 ^ 4) with 16; lia).
  reflexivity.
Qed.

Lemma eisa_unpack a0 a1 a2 d3 d4 d5 d6 :
  a0 < 32 -> a1 < 32 -> a2 < 32 -> d3 < 16 -> d4 < 16 -> d5 < 16 -> d6 < 16 ->
  let x := eisa_pack a0 a1 a2 d3 d4 d5 d6 in
  x < 2 ^ 32 /\ (x / 2 ^ 26) mod 32 = a0 /\ (x / 2 ^ 21) mod 32 = a1 /\ (x / 2 ^ 16) mod 32 = a2 /\
  (x / 2 ^ 12) mod 16 = d3 /\ (x / 2 ^ 8) mod 16 = d4 /\ (x / 2 ^ 4) mod 16 = d5 /\ x mod 16 = d6.
Proof.
  intros. unfold eisa_pack in x. subst x.
  change (2 ^ 32) with 4294967296. change (2 ^ 26) with 67108864. change (2 ^ 21) with 2097152.
  change (2 ^ 16) with 65536. change (2 ^ 12) with 4096. change (2 ^ 8) with 256. change (2 ^ 4) with 16.
  repeat split; lia.
Qed.

Lemma eisa_roundtrip s :
  valid_eisa s = true ->
  exists v, eisa_value s = Some v /\ v < 2 ^ 32 /\ eisa_decompress v = s.
Proof.
  destruct s as [|c0 [|c1 [|c2 [|h3 [|h4 [|h5 [|h6 [|x s]]]]]]]]; cbn [valid_eisa]; try discriminate.
  intros H.
  apply andb_true_iff in H; destruct H as [H G6]. apply andb_true_iff in H; destruct H as [H G5].
  apply andb_true_iff in H; destruct H as [H G4]. apply andb_true_iff in H; destruct H as [H G3].
  apply andb_true_iff in H; destruct H as [H G2]. apply andb_true_iff in H; destruct H as [G0 G1].
  destruct (upper_letter c0 G0) as (a0 & E0 & B0 & R0).
  destruct (upper_letter c1 G1) as (a1 & E1 & B1 & R1).
  destruct (upper_letter c2 G2) as (a2 & E2 & B2 & R2).
  destruct (hex_upper_digit h3 G3) as (d3 & F3 & L3 & C3).
  destruct (hex_upper_digit h4 G4) as (d4 & F4 & L4 & C4).
  destruct (hex_upper_digit h5 G5) as (d5 & F5 & L5 & C5).
  destruct (hex_upper_digit h6 G6) as (d6 & F6 & L6 & C6).
  unfold eisa_value. rewrite E0, E1, E2, F3, F4, F5, F6. cbn [option_bind].
  rewrite eisa_lors by lia.
  destruct (eisa_unpack a0 a1 a2 d3 d4 d5 d6) as (Hx & U0 & U1 & U2 & U3 & U4 & U5 & U6); try lia.
  eexists. split; [reflexivity|]. split; [apply swap_bytes32_lt|].
  unfold eisa_decompress. rewrite swap_bytes32_invol by exact Hx.
  rewrite U0, U1, U2, U3, U4, U5, U6. congruence.
Qed.

(* wrong length, or a non-hex character in the last four positions: refused *)
Lemma eisa_refuse_length s : length s <> 7%nat -> eisa_value s = None.
Proof.
  destruct s as [|c0 [|c1 [|c2 [|h3 [|h4 [|h5 [|h6 [|x s]]]]]]]]; cbn [length]; try reflexivity. lia.
Qed.

Lemma eisa_refuse_digit c0 c1 c2 h3 h4 h5 h6 :
  hex_digit h3 = None \/ hex_digit h4 = None \/ hex_digit h5 = None \/ hex_digit h6 = None ->
  eisa_value [c0; c1; c2; h3; h4; h5; h6] = None.
Proof.
  intros H. unfold eisa_value.
  destruct (sub_c c0 64); [|reflexivity]. destruct (sub_c c1 64); [|reflexivity]. destruct (sub_c c2 64); [|reflexivity].
  cbn [option_bind].
  destruct (hex_digit h3); [|reflexivity]. destruct (hex_digit h4); [|reflexivity].
  destruct (hex_digit h5); [|reflexivity]. destruct (hex_digit h6); [|reflexivity].
  destruct H as [H|[H|[H|H]]]; discriminate.
Qed.

(* ---------- UUID ---------- *)

Definition hexv (c : N) : N := match hex_digit c with Some d => d | None => 0 end.

Lemma hex_any_digit c : is_hex_any c = true ->
  hex_digit c = Some (hexv c) /\ hexv c < 16 /\ hex_char_lower (hexv c) = to_lower c.
Proof.
  unfold is_hex_any, hexv, hex_digit, hex_char_lower, to_lower. intros H.
  apply orb_true_iff in H. destruct H as [H|H]; [apply orb_true_iff in H; destruct H as [H|H]|];
    apply andb_true_iff in H; destruct H as [H1 H2]; apply N.leb_le in H1, H2.
  - assert (E : (48 <=? c) && (c <=? 57) = true) by (apply andb_true_iff; split; apply N.leb_le; lia).
    rewrite E. assert (E' : (65 <=? c) && (c <=? 90) = false) by (apply andb_false_iff; left; apply N.leb_gt; lia).
    rewrite E'. repeat split; [lia|]. destruct (N.ltb_spec (c - 48) 10); lia.
  - assert (E1 : (48 <=? c) && (c <=? 57) = false) by (apply andb_false_iff; right; apply N.leb_gt; lia).
    assert (E2 : (97 <=? c) && (c <=? 102) = false) by (apply andb_false_iff; left; apply N.leb_gt; lia).
    assert (E3 : (65 <=? c) && (c <=? 70) = true) by (apply andb_true_iff; split; apply N.leb_le; lia).
    assert (E4 : (65 <=? c) && (c <=? 90) = true) by (apply andb_true_iff; split; apply N.leb_le; lia).
    rewrite E1, E2, E3, E4. repeat split; [lia|]. destruct (N.ltb_spec (c - 55) 10); lia.
  - assert (E1 : (48 <=? c) && (c <=? 57) = false) by (apply andb_false_iff; right; apply N.leb_gt; lia).
    assert (E2 : (97 <=? c) && (c <=? 102) = true) by (apply andb_true_iff; split; apply N.leb_le; lia).
    assert (E4 : (65 <=? c) && (c <=? 90) = false) by (apply andb_false_iff; right; apply N.leb_gt; lia).
    rewrite E1, E2, E4. repeat split; [lia|]. destruct (N.ltb_spec (c - 87) 10); lia.
Qed.

Lemma hex2byte_ok c1 c2 : is_hex_any c1 = true -> is_hex_any c2 = true ->
  hex2byte c1 c2 = Some (16 * hexv c1 + hexv c2) /\ byte_hex (16 * hexv c1 + hexv c2) = [to_lower c1; to_lower c2].
Proof.
  intros H1 H2. destruct (hex_any_digit c1 H1) as (E1 & L1 & R1). destruct (hex_any_digit c2 H2) as (E2 & L2 & R2).
  unfold hex2byte. rewrite E1, E2. cbn [option_bind]. split.
  - f_equal. rewrite shiftl_mul. change (2 ^ 4) with 16. unfold cast, U8. change (2 ^ 8) with 256.
    rewrite N.mod_small by lia. rewrite (lor_add_low (hexv c1 * 16) (hexv c2) 4); change (2 ^ 4) with 16; lia.
  - unfold byte_hex. replace ((16 * hexv c1 + hexv c2) / 16) with (hexv c1) by lia.
    replace ((16 * hexv c1 + hexv c2) mod 16) with (hexv c2) by lia. congruence.
Qed.

Lemma list36 (s : list N) : length s = 36%nat -> s = map (fun i => nth i s 0) (seq 0 36).
Proof.
  intros H. do 36 (destruct s as [|? s]; [discriminate|]). destruct s; [reflexivity|discriminate].
Qed.

Lemma uuid_roundtrip s :
  canonical_uuid s = true ->
  exists b, uuid_bytes s = Some b /\ length b = 16%nat /\ uuid_to_string b = map to_lower s.
Proof.
  unfold canonical_uuid. intros H. apply andb_true_iff in H. destruct H as [Hlen Hall].
  apply Nat.eqb_eq in Hlen.
  rewrite forallb_forall in Hall.
  assert (Hx : forall i, In i (seq 0 36) -> ~ In i [8; 13; 18; 23]%nat -> is_hex_any (nth i s 0) = true).
  { intros i Hi Hn. specialize (Hall i Hi).
    destruct (existsb (Nat.eqb i) [8; 13; 18; 23]%nat) eqn:E; [|exact Hall].
    exfalso. apply Hn. apply existsb_exists in E. destruct E as (j & Hj & Ej). apply Nat.eqb_eq in Ej. now subst. }
  assert (Hd : forall i, In i [8; 13; 18; 23]%nat -> nth i s 0 = 45).
  { intros i Hi. assert (Hs : In i (seq 0 36)) by (apply in_seq; cbn in Hi; lia).
    specialize (Hall i Hs).
    assert (E : existsb (Nat.eqb i) [8; 13; 18; 23]%nat = true) by (apply existsb_exists; exists i; split; [exact Hi|apply Nat.eqb_refl]).
    rewrite E in Hall. now apply N.eqb_eq in Hall. }
  assert (Hh : forall i, (i < 36)%nat -> ~ In i [8; 13; 18; 23]%nat -> is_hex_any (nth i s 0) = true).
  { intros i Hi Hn. apply Hx; [apply in_seq; lia|exact Hn]. }
  unfold uuid_bytes. rewrite Hlen. cbn [Nat.eqb assert option_bind].
  rewrite (Hd 8%nat), (Hd 13%nat), (Hd 18%nat), (Hd 23%nat) by (cbn; tauto).
  cbn [N.eqb Pos.eqb andb assert option_bind].
  unfold uuid_order. cbn [map].
  repeat match goal with
  | |- context [hex2byte (nth ?i s 0) (nth ?j s 0)] =>
      let E := fresh "E" in let R := fresh "R" in
      destruct (hex2byte_ok (nth i s 0) (nth j s 0)) as [E R];
      [apply Hh; [lia|cbn; lia] | apply Hh; [lia|cbn; lia] | rewrite E; clear E]
  end.
  cbn [opt_all option_map].
  eexists. split; [reflexivity|]. split; [reflexivity|].
  unfold uuid_to_string. cbn [nth].
  rewrite R, R0, R1, R2, R3, R4, R5, R6, R7, R8, R9, R10, R11, R12, R13, R14.
  rewrite (list36 s Hlen) at 33. cbn [seq map app].
  rewrite (Hd 8%nat), (Hd 13%nat), (Hd 18%nat), (Hd 23%nat) by (cbn; tauto).
  reflexivity.
Qed.

Lemma uuid_refuse_length s : length s <> 36%nat -> uuid_bytes s = None.
Proof.
  intros H. unfold uuid_bytes. destruct (Nat.eqb_spec (length s) 36); [contradiction|]. reflexivity.
Qed.

Lemma uuid_refuse_dash s i : In i [8; 13; 18; 23]%nat -> nth i s 0 <> 45 -> uuid_bytes s = None.
Proof.
  intros Hi Hn. unfold uuid_bytes. destruct (Nat.eqb (length s) 36); [|reflexivity]. cbn [assert option_bind].
  apply N.eqb_neq in Hn.
  cbn in Hi. destruct Hi as [<-|[<-|[<-|[<-|[]]]]]; rewrite Hn; rewrite ?andb_false_r; reflexivity.
Qed.

Lemma opt_all_none {A} (l : list (option A)) : In None l -> opt_all l = None.
Proof.
  induction l as [|x l IH]; intros H; [destruct H|]. destruct H as [->|H]; [reflexivity|].
  cbn [opt_all]. destruct x; [rewrite IH by exact H; reflexivity|reflexivity].
Qed.

Lemma uuid_refuse_digit s i j :
  In (i, j) uuid_order -> hex_digit (nth i s 0) = None \/ hex_digit (nth j s 0) = None -> uuid_bytes s = None.
Proof.
  intros Hin Hbad. unfold uuid_bytes.
  destruct (assert (Nat.eqb (length s) 36)); [|reflexivity]. cbn [option_bind].
  destruct (assert _); [|reflexivity]. cbn [option_bind].
  apply opt_all_none. apply in_map_iff. exists (i, j). split; [|exact Hin].
  unfold hex2byte. destruct Hbad as [-> | Hb]; [reflexivity|]. destruct (hex_digit (nth i s 0)); [|reflexivity].
  cbn [option_bind]. rewrite Hb. reflexivity.
Qed.

(* a 16-byte BufferData: BufferOp, PkgLength 19, BufferSize = BytePrefix 16, then the bytes *)
Lemma buffer16 md b r : length b = 16%nat ->
  buffer_data md b = Some ([0x11; 19; 0x0A; 16] ++ b) /\
  buffer_decode (([0x11; 19; 0x0A; 16] ++ b) ++ r) = Some (16, b, r).
Proof.
  intros H. do 16 (destruct b as [|? b]; [discriminate|]). destruct b; [|discriminate].
  split; reflexivity.
Qed.

Lemma eisa_emitted s v : eisa_value s = Some v -> eisa_enc s = Some (enc_u32 v).
Proof. intros H. unfold eisa_enc. now rewrite H. Qed.
