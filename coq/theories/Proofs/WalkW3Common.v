(* Helpers shared by the walk instances of CEDT, VIOT, SRAT, XSDT, MCFG, HEST (C03 / C18):
   byte spines that describe themselves under the entry-header formats of Spec/Layout.v, the field reader on
   concrete spines, and what an accepted addition says about the state. *)
From Coq Require Import NArith ZArith List Lia Bool Arith.
From ACPI Require Import Lib.Bytes Lib.Sx Lib.Machine Impl.Checksum Impl.Table Impl.Fields Impl.Run Spec.Layout
  Proofs.ChecksumP Proofs.TableP Proofs.WalkP.
Import ListNotations.
Open Scope N_scope.

Lemma Some_inj {A} (x y : A) : Some x = Some y -> x = y.
Proof. intros H. injection H. auto. Qed.

Lemma unle2_le n : unle [n mod 256; (n / 256) mod 256] = n mod 2 ^ 16.
Proof. change [n mod 256; (n / 256) mod 256] with (le 2 n). apply (unle_le 2). Qed.

Lemma unle1_le n : unle [n mod 256] = n mod 2 ^ 8.
Proof. change [n mod 256] with (le 1 n). apply (unle_le 1). Qed.

(* ---- type u8, one byte, length u16 ---- *)
(* a spine  byte t, byte x, word n, tail  describes itself exactly when the word holds the true size *)
Lemma u8_x_u16_self t x n tail :
  n < 2 ^ 16 -> n = N.of_nat (4 + length tail) ->
  self_describing H_u8_x_u16 (b1 t ++ b1 x ++ w2 n ++ tail) (t mod 256).
Proof.
  intros Hn Hl. split.
  - unfold b1, w2. rewrite !app_length, !length_le. lia.
  - intros rest.
    assert (Hlen : length (b1 t ++ b1 x ++ w2 n ++ tail) = N.to_nat n).
    { unfold b1, w2. rewrite !app_length, !length_le. rewrite Hl. lia. }
    rewrite Hlen. unfold b1, w2. cbn [le app read_ehdr].
    rewrite unle2_le, (N.mod_small n) by exact Hn. reflexivity.
Qed.

(* the u16 at offset 2 of such a spine *)
Lemma u8_x_u16_len_field t x n tail :
  field_at (b1 t ++ b1 x ++ w2 n ++ tail) 2 2 = n mod 2 ^ 16.
Proof.
  unfold field_at, b1, w2. cbn [le app skipn firstn]. apply unle2_le.
Qed.

(* ---- type u8, length u8 ---- *)
Lemma u8_u8_self t n tail :
  n < 2 ^ 8 -> n = N.of_nat (2 + length tail) ->
  self_describing H_u8_u8 (b1 t ++ b1 n ++ tail) (t mod 256).
Proof.
  intros Hn Hl. split.
  - unfold b1. rewrite !app_length, !length_le. lia.
  - intros rest.
    assert (Hlen : length (b1 t ++ b1 n ++ tail) = N.to_nat n).
    { unfold b1. rewrite !app_length, !length_le. rewrite Hl. lia. }
    rewrite Hlen. unfold b1. cbn [le app read_ehdr].
    change 256 with (2 ^ 8). rewrite (N.mod_small n) by exact Hn. reflexivity.
Qed.

(* ---- fixed-size entries ---- *)
Lemma fixed_self n e : length e = n -> (1 <= n)%nat -> self_describing (H_fixed n) e 0.
Proof.
  intros Hl Hp. split; [lia|]. intros rest. destruct e as [|x e]; [cbn [length] in Hl; lia|].
  cbn [app read_ehdr]. rewrite Hl. reflexivity.
Qed.

(* ---- what an accepted step says ---- *)
Lemma add_step_entry entry md s o r : add_step entry md s o = Some r -> exists e, entry s o = Some e.
Proof.
  unfold add_step. destruct (entry s o) as [e|]; [|discriminate]. intros _. now exists e.
Qed.

Lemma add_step_refused entry md s o : entry s o = None -> add_step entry md s o = None.
Proof. unfold add_step. intros ->. reflexivity. Qed.

(* the same, with the size given as the length of the whole spine (the form the *_len_sound lemmas have) *)
Lemma u8_x_u16_self_whole t x n tail :
  n < 2 ^ 16 -> n = N.of_nat (length (b1 t ++ b1 x ++ w2 n ++ tail)) ->
  self_describing H_u8_x_u16 (b1 t ++ b1 x ++ w2 n ++ tail) (t mod 256).
Proof.
  intros Hn Hl. apply u8_x_u16_self; [exact Hn|].
  rewrite Hl at 1. unfold b1, w2. rewrite !app_length, !length_le. reflexivity.
Qed.

(* an entry that describes itself under (u8, _, u16) carries its true size in the u16 at offset 2 *)
Lemma u8_x_u16_self_len_field e ty : self_describing H_u8_x_u16 e ty -> field_at e 2 2 = N.of_nat (length e).
Proof.
  intros [_ H]. specialize (H []). rewrite app_nil_r in H.
  destruct e as [|t [|x [|a [|b r]]]]; try discriminate H.
  cbn [read_ehdr] in H. apply Some_inj in H.
  assert (Hl : N.to_nat (unle [a; b]) = length (t :: x :: a :: b :: r)) by congruence.
  unfold field_at. cbn [skipn firstn]. rewrite <- Hl. now rewrite N2Nat.id.
Qed.

(* an entry that describes itself under (u8, u8) carries its true size in the byte at offset 1 *)
Lemma u8_u8_self_len_field e ty : self_describing H_u8_u8 e ty -> field_at e 1 1 = N.of_nat (length e).
Proof.
  intros [_ H]. specialize (H []). rewrite app_nil_r in H.
  destruct e as [|t [|n r]]; try discriminate H.
  cbn [read_ehdr] in H. apply Some_inj in H.
  assert (Hl : N.to_nat n = length (t :: n :: r)) by congruence.
  unfold field_at. cbn [skipn firstn unle]. rewrite <- Hl, N2Nat.id. lia.
Qed.

Lemma sx_nums_length l ms : sx_nums l = Some ms -> length ms = length l.
Proof.
  revert ms; induction l as [|x l IH]; intros ms H; cbn [sx_nums] in H.
  - apply Some_inj in H. subst. reflexivity.
  - destruct x as [n|]; [|discriminate]. destruct (sx_nums l) as [r|]; [|discriminate].
    apply Some_inj in H. subst. cbn [length]. now rewrite (IH r).
Qed.

Lemma sx_list_all_length {A} (f : sx -> option A) l r : sx_list_all f l = Some r -> length r = length l.
Proof.
  revert r; induction l as [|x l IH]; intros r H; cbn [sx_list_all] in H.
  - apply Some_inj in H. subst. reflexivity.
  - destruct (f x); [|discriminate]. destruct (sx_list_all f l) as [r'|]; [|discriminate].
    apply Some_inj in H. subst. cbn [length]. now rewrite (IH r').
Qed.

(* the image after an accepted step: exactly the added bytes longer (from the shape of tbl_add alone) *)
Lemma add_step_length entry md s o s' evs : hdr_ok (t_hdr s) = true ->
  add_step entry md s o = Some (s', evs) ->
  exists e, entry s o = Some e /\ length (tbl_image s') = (length (tbl_image s) + length (a_bytes e))%nat.
Proof.
  intros Hh H. unfold add_step in H.
  destruct (entry s o) as [e|]; [|discriminate]. cbn [option_bind] in H. exists e. split; [reflexivity|].
  destruct (tbl_add md s (a_style e) (a_claimed e) (a_bytes e)) as [[s1 h]|] eqn:E; [|discriminate].
  cbn [option_bind fst snd] in H. apply Some_inj in H.
  assert (Hs : s' = set_flag s1 (a_flag e)) by congruence. subst s'. clear H.
  change (tbl_image (set_flag s1 (a_flag e))) with (tbl_image s1).
  unfold tbl_add in E.
  destruct (add_c U32 (cast U32 (a_claimed e)) (t_len s)); [|discriminate]. cbn [option_bind] in E.
  destruct (match t_kind s with KViot => _ | KRhct => _ | _ => _ end); [|discriminate]. cbn [option_bind] in E.
  destruct (match t_kind s with KViot => _ | KPptt | KRhct => _ | _ => _ end); [|discriminate]. cbn [option_bind] in E.
  apply Some_inj in E. assert (Hs1 : s1 = fst (s1, h)) by reflexivity. rewrite <- E in Hs1. cbn [fst] in Hs1. subst s1.
  rewrite !length_image by exact Hh. cbn [t_kind t_pre]. unfold t_body, t_ents; rewrite ?frev_rev. cbn [t_rents rev].
  rewrite concat_app, app_length. cbn [concat]. rewrite app_nil_r. lia.
Qed.

Lemma skipn_skipn_add {A} (m n : nat) : forall l : list A, skipn n (skipn m l) = skipn (m + n) l.
Proof.
  induction m as [|m IH]; intros l; [reflexivity|].
  destruct l as [|x l]; [cbn [plus skipn]; now rewrite !skipn_nil|]. cbn [plus skipn]. apply IH.
Qed.

Lemma u8_u8_self_whole t n tail :
  n < 2 ^ 8 -> n = N.of_nat (length (b1 t ++ b1 n ++ tail)) ->
  self_describing H_u8_u8 (b1 t ++ b1 n ++ tail) (t mod 256).
Proof.
  intros Hn Hl. apply u8_u8_self; [exact Hn|].
  rewrite Hl at 1. unfold b1. rewrite !app_length, !length_le. reflexivity.
Qed.
