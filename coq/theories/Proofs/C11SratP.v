(* C11 instances, SRAT: memory affinity (enabled / hot-pluggable / non-volatile), generic initiator (enabled / architectural
   transactions), RINTC affinity (enabled).  Statements about the bytes the Impl model of srat.rs emits. *)
From Coq Require Import NArith ZArith List Lia Bool Arith ZifyBool ZifyNat ZifyN.
From ACPI Require Import Lib.Bytes Lib.Sx Lib.Machine Impl.Table Impl.Fields Impl.Madt Impl.Srat Spec.Layout Spec.OptionsS
  Proofs.FlagsP Proofs.FadtP Proofs.MadtP Proofs.SratP Proofs.WalkRefCommon2P Proofs.C11CommonP.
Import ListNotations.
Open Scope N_scope.

(* ================= memory affinity ================= *)
Lemma memaff_step m o m' : memaff_builder m o = Some m' ->
  ma_flags m' = N.lor (ma_flags m) (memaff_call_bit o) /\ (ma_pd m', ma_base m', ma_len m') = (ma_pd m, ma_base m, ma_len m).
Proof. unfold memaff_builder. intros H. dmatch_in H; inversion H; subst m'; split; reflexivity. Qed.

Lemma memaff_call_bit_small o : memaff_call_bit o < 2 ^ 32.
Proof. unfold memaff_call_bit. dmatch_goal; reflexivity. Qed.

Definition memaff_pre (m : memaff) : list N :=
  b1 1 ++ b1 40 ++ d4 (ma_pd m) ++ w2 0
  ++ d4 (N.land (ma_base m) LOW32) ++ d4 (N.land (N.shiftr (ma_base m) 32) LOW32)
  ++ d4 (N.land (ma_len m) LOW32) ++ d4 (N.land (N.shiftr (ma_len m) 32) LOW32) ++ d4 0.

Lemma memaff_shape m : memaff_bytes m = memaff_pre m ++ le 4 (ma_flags m) ++ q8 0.
Proof. unfold memaff_bytes, memaff_pre. rewrite <- !app_assoc. reflexivity. Qed.

Lemma memaff_pre_length m : length (memaff_pre m) = 28%nat.
Proof. unfold memaff_pre, b1, w2, d4. rewrite !app_length, !length_le. reflexivity. Qed.

(* for EVERY sequence of the three option builders: the Flags dword (offset 28) is the union of the bits of the options
   invoked; every other byte is the byte of MemoryAffinity::new(pd, base, len) *)
Theorem srat_memaff_options s pd base len bs e :
  srat_addition s (SL [SA 1; SA pd; SA base; SA len; SL bs]) = Some e ->
  length (a_bytes e) = 40%nat /\
  field_at (a_bytes e) 28 4 = big_or (map memaff_call_bit bs) /\
  forall k, ~ in_range k memaff_flags_at -> nth k (a_bytes e) 0 = nth k (memaff_bytes (memaff_new pd base len)) 0.
Proof.
  cbn [srat_addition]. rewrite apply_builders_fold.
  destruct (fold_opt memaff_builder (memaff_new pd base len) bs) as [m|] eqn:E; [|discriminate].
  cbn [option_bind]. intros H; inversion H; subst e; clear H. cbn [a_bytes].
  destruct (flag_record memaff_builder ma_flags (fun m => (ma_pd m, ma_base m, ma_len m)) memaff_call_bit memaff_step _ _ _ E) as [Hf Hr].
  cbn [memaff_new ma_flags ma_pd ma_base ma_len] in Hf, Hr. rewrite N.lor_0_l in Hf. injection Hr as H1 H2 H3.
  split; [apply memaff_bytes_length|].
  assert (Hpre : memaff_pre m = memaff_pre (memaff_new pd base len)) by (unfold memaff_pre; cbn [memaff_new ma_pd ma_base ma_len]; now rewrite H1, H2, H3).
  rewrite !memaff_shape, Hpre, Hf.
  apply mid_flag_bytes; [apply memaff_pre_length|]. apply (big_or_map_lt memaff_call_bit 32), memaff_call_bit_small.
Qed.

Lemma memaff_options_distinct : distinct_single_bits memaff_option_table && below (2 ^ 32) memaff_option_table = true.
Proof. reflexivity. Qed.

(* ================= generic initiator ================= *)
Lemma geninit_step g o g' : geninit_builder g o = Some g' ->
  gi_flags g' = N.lor (gi_flags g) (geninit_call_bit o) /\ (gi_pd g', gi_handle g') = (gi_pd g, gi_handle g).
Proof. unfold geninit_builder. intros H. dmatch_in H; inversion H; subst g'; split; reflexivity. Qed.

Lemma geninit_call_bit_small o : geninit_call_bit o < 2 ^ 32.
Proof. unfold geninit_call_bit. dmatch_goal; reflexivity. Qed.

Definition geninit_pre (g : geninit) : list N :=
  b1 5 ++ b1 32 ++ b1 0 ++ b1 (match gi_handle g with HAcpi _ _ => 0 | HPci _ _ _ _ => 1 end)
  ++ d4 (gi_pd g) ++ handle_bytes (gi_handle g).

Lemma geninit_shape g : geninit_bytes g = geninit_pre g ++ le 4 (gi_flags g) ++ d4 0.
Proof. unfold geninit_bytes, geninit_pre. rewrite <- !app_assoc. reflexivity. Qed.

Theorem srat_geninit_options s pd h bs e :
  srat_addition s (SL [SA 2; SA pd; h; SL bs]) = Some e ->
  exists hd, sx_handle h = Some hd /\
  length (a_bytes e) = 32%nat /\
  field_at (a_bytes e) 24 4 = big_or (map geninit_call_bit bs) /\
  forall k, ~ in_range k geninit_flags_at ->
    nth k (a_bytes e) 0 = nth k (geninit_bytes {| gi_pd := pd; gi_handle := hd; gi_flags := 0 |}) 0.
Proof.
  cbn [srat_addition]. destruct (sx_handle h) as [hd|] eqn:Eh; [|discriminate]. cbn [option_bind].
  rewrite apply_builders_fold.
  destruct (fold_opt geninit_builder _ bs) as [g|] eqn:E; [|discriminate].
  cbn [option_bind]. intros H; inversion H; subst e; clear H. cbn [a_bytes].
  exists hd. split; [reflexivity|].
  destruct (flag_record geninit_builder gi_flags (fun g => (gi_pd g, gi_handle g)) geninit_call_bit geninit_step _ _ _ E) as [Hf Hr].
  cbn [gi_flags gi_pd gi_handle] in Hf, Hr. rewrite N.lor_0_l in Hf. injection Hr as H1 H2.
  pose proof (sx_handle_length _ _ Eh) as Hhl.
  split; [apply geninit_bytes_length; now rewrite H2|].
  assert (Hpre : geninit_pre g = geninit_pre {| gi_pd := pd; gi_handle := hd; gi_flags := 0 |})
    by (unfold geninit_pre; cbn [gi_pd gi_handle]; now rewrite H1, H2).
  rewrite !geninit_shape, Hpre, Hf. cbn [gi_flags].
  apply mid_flag_bytes.
  - unfold geninit_pre, b1, d4. cbn [gi_pd gi_handle]. rewrite !app_length, !length_le, Hhl. reflexivity.
  - apply (big_or_map_lt geninit_call_bit 32), geninit_call_bit_small.
Qed.

Lemma geninit_options_distinct : distinct_single_bits geninit_option_table && below (2 ^ 32) geninit_option_table = true.
Proof. reflexivity. Qed.

(* ================= RINTC affinity ================= *)
Definition RINTC_AFF_WS : list nat := [1; 1; 2; 4; 1; 1; 1; 1; 4; 4]%nat.

Lemma rintc_aff_new_widths u clock : length u = 4%nat -> widths (rintc_aff_new u clock) = RINTC_AFF_WS.
Proof. destruct u as [|a [|b [|c [|d [|? ?]]]]]; try discriminate. reflexivity. Qed.

Lemma rintc_aff_step f o f' : widths f = RINTC_AFF_WS -> True -> rintc_aff_builder f o = Some f' ->
  widths f' = RINTC_AFF_WS /\ True /\ fget f' 8 = N.lor (fget f 8) (rintc_aff_call_bit o) /\
  forall j, j <> 8%nat -> ~ In (fld_range RINTC_AFF_WS j) (rintc_aff_call_ranges o) -> fget f' j = fget f j.
Proof.
  intros Hw _ H.
  assert (Hl : length f = 10%nat) by (rewrite <- widths_length, Hw; reflexivity).
  unfold rintc_aff_builder in H. dmatch_in H; inversion H; subst f'; clear H;
    (split; [rewrite ?widths_fset, ?widths_f_or; exact Hw|]); (split; [exact I|]);
    unfold rintc_aff_call_bit; cbn [rintc_aff_enables rintc_aff_call_ranges];
    (split; [fg0; rewrite ?N.lor_0_r; reflexivity | intros j Hj Hn; fg Hn; reflexivity]).
Qed.

Lemma rintc_aff_call_bit_small o : rintc_aff_call_bit o < 2 ^ (8 * N.of_nat (fwid RINTC_AFF_WS 8)).
Proof. unfold rintc_aff_call_bit. destruct (rintc_aff_enables o); reflexivity. Qed.

(* Flags dword (offset 12) = 1 exactly when enabled() was called (however often, wherever among the proximity_domain calls);
   bytes outside the flags and outside the proximity domain (when set) are those of RintcAffinity::new(uid, clock) *)
Theorem srat_rintc_affinity_options s uid clock bs e :
  srat_addition s (SL [SA 3; uid; SA clock; SL bs]) = Some e ->
  exists u, sx_arr 4 uid = Some u /\
  length (a_bytes e) = 20%nat /\
  field_at (a_bytes e) 12 4 = big_or (map rintc_aff_call_bit bs) /\
  field_at (a_bytes e) 12 4 = (if existsb rintc_aff_enables bs then 1 else 0) /\
  forall k, ~ in_ranges k (rintc_aff_flags_at :: concat (map rintc_aff_call_ranges bs)) ->
    nth k (a_bytes e) 0 = nth k (ser_flds (rintc_aff_new u clock)) 0.
Proof.
  cbn [srat_addition]. destruct (sx_arr 4 uid) as [u|] eqn:Eu; [|discriminate]. cbn [option_bind].
  rewrite apply_builders_fold.
  destruct (fold_opt rintc_aff_builder _ bs) as [f|] eqn:E; [|discriminate].
  cbn [option_bind]. intros H; inversion H; subst e; clear H. cbn [a_bytes].
  exists u. split; [reflexivity|].
  pose proof (rintc_aff_new_widths u clock (sx_arr_length _ _ _ Eu)) as Hw.
  assert (H0 : fget (rintc_aff_new u clock) 8 = 0).
  { pose proof (sx_arr_length _ _ _ Eu) as Hu. destruct u as [|a [|b [|c [|d [|? ?]]]]]; try discriminate. reflexivity. }
  destruct (flag_bytes rintc_aff_builder RINTC_AFF_WS 8 (fun _ => True) rintc_aff_call_bit rintc_aff_call_ranges ltac:(cbn; lia)
              rintc_aff_call_bit_small rintc_aff_step bs _ f Hw I ltac:(rewrite H0; reflexivity) E) as (Hlen & Hfl & Hfr).
  rewrite H0, N.lor_0_l in Hfl.
  change (foff RINTC_AFF_WS 8) with 12%nat in Hfl. change (fwid RINTC_AFF_WS 8) with 4%nat in Hfl.
  split; [exact Hlen|]. split; [exact Hfl|]. split; [|exact Hfr].
  rewrite Hfl. unfold rintc_aff_call_bit. apply big_or_if.
Qed.
