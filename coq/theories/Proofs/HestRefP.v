(* HEST refinement (property C04 as a theorem): for every constructor argument and every finite component-21 history inside the
   domain of Spec/HestS.v, in both build profiles, the Impl model of hest.rs accepts the history and what it shows (the table, or
   the stand-alone GenericErrorStatus built by the last operation) is exactly the reference image.
   The five error-source structures are proved to be the reference encoding for ALL builder sequences (setters in any order,
   repeated, nested GAS / notification arguments): the model applies the setters one after the other, the Spec reads the last
   call of each; `num_setters_run` / `ghes_run` relate the two.
   Two classes of histories are excluded by explicit hypotheses, each with a machine-checked witness at the end of the file:
   (a) the image shown is a stand-alone GenericErrorData (KNOWN deviation hest-generic-error-data-section-type: 2-byte section
       type where the specification has a 16-byte GUID, 58 bytes written where the reference has 72);
   (b) a stand-alone operation that is NOT the last one of the history is malformed (Spec/HestS.v validates a stand-alone
       operation only when it is the last one; the model, like the crate's driver, has to build it). *)
From Coq Require Import NArith ZArith List Lia Bool Arith.
From ACPI Require Import Lib.Bytes Lib.Sx Lib.Machine Impl.Checksum Impl.Table Impl.Fields Impl.Run Impl.Madt Impl.Gas Impl.Hest
  Spec.Layout Spec.GasS Spec.HestS Proofs.ChecksumP Proofs.TableP Proofs.MadtP Proofs.Tables Proofs.BitsP Proofs.HestP
  Proofs.RefAddTableP.
Import ListNotations.
Open Scope N_scope.

(* ---------- setter lists: the model applies them in order, the Spec reads the last call of each ---------- *)
Definition valof (o : option (list sx)) : N := match o with Some (SA v :: _) => v | _ => 0 end.

Lemma num_arg_valof k st : num_arg k st = valof (last_call k st None).
Proof. reflexivity. Qed.

Section NumSetters.
  Variable setter : flds -> sx -> option flds.
  Variable shape : (N -> N) -> flds.
  Variable ok : N -> list sx -> bool.
  Hypothesis ok_num : forall k args, ok k args = true -> exists x, args = [SA x].
  Hypothesis step : forall k x v, ok k [SA x] = true ->
    exists v', setter (shape v) (SL [SA k; SA x]) = Some (shape v') /\ forall q, v' q = if k =? q then x else v q.

  Lemma num_setters_run st : setters_ok ok st = true -> forall acc v, (forall q, v q = valof (acc q)) ->
    exists v', apply_setters setter (shape v) st = Some (shape v') /\ forall q, v' q = valof (last_call q st (acc q)).
  Proof.
    induction st as [|s st IH]; intros Hok acc v Hv.
    - exists v. split; [reflexivity|exact Hv].
    - cbn [setters_ok forallb] in Hok. apply andb_true_iff in Hok. destruct Hok as [Hs Hr].
      destruct s as [|[|[k|] args]]; try discriminate Hs.
      destruct (ok_num k args Hs) as [x ->].
      destruct (step k x v Hs) as (v1 & Hstep & Hv1).
      destruct (IH Hr (fun q => if k =? q then Some [SA x] else acc q) v1) as (v' & Hrun & Hv').
      { intros q. rewrite Hv1. destruct (k =? q); [reflexivity|apply Hv]. }
      exists v'. cbn [apply_setters]. rewrite Hstep. split; [exact Hrun|].
      intros q. rewrite Hv'. reflexivity.
  Qed.
End NumSetters.

(* ---------- PCIe AER structures ---------- *)
Definition aer_shape (ty flags bus dev fn : N) (v : N -> N) : flds :=
  [F 2 ty; F 2 0; F 2 0; F 1 flags; F 1 0; F 4 (v 1); F 4 (v 2); F 4 bus; F 2 dev; F 2 fn; F 2 (v 3); F 2 0;
   F 4 (v 4); F 4 (v 5); F 4 (v 6); F 4 (v 7)]
  ++ match ty with 6 => [F 4 (v 8)] | 8 => [F 4 (v 8); F 4 (v 9); F 4 (v 10)] | _ => [] end.

Definition aer_ok (ty : N) := fun (k : N) (args : list sx) => one_num args && (1 <=? k) && (k <=? aer_max_setter ty).

Lemma one_num_inv args : one_num args = true -> exists x, args = [SA x].
Proof. destruct args as [|[x|] [|]]; try discriminate. intros _. now exists x. Qed.

Lemma aer_ok_num ty k args : aer_ok ty k args = true -> exists x, args = [SA x].
Proof. unfold aer_ok. intros H. apply andb_true_iff in H. destruct H as [H _]. apply andb_true_iff in H. destruct H as [H _]. now apply one_num_inv. Qed.

Lemma aer_step ty flags bus dev fn : ty = 6 \/ ty = 7 \/ ty = 8 -> forall k x v, aer_ok ty k [SA x] = true ->
  exists v', aer_setter ty (aer_shape ty flags bus dev fn v) (SL [SA k; SA x]) = Some (aer_shape ty flags bus dev fn v')
             /\ forall q, v' q = if k =? q then x else v q.
Proof.
  intros Hty k x v H. exists (fun q => if k =? q then x else v q). split; [|reflexivity].
  unfold aer_ok in H. cbn [one_num andb] in H. apply andb_true_iff in H. destruct H as [H1 H2].
  apply N.leb_le in H1. apply N.leb_le in H2.
  destruct Hty as [->|[->| ->]]; cbn [aer_max_setter] in H2.
  - assert (k = 1 \/ k = 2 \/ k = 3 \/ k = 4 \/ k = 5 \/ k = 6 \/ k = 7 \/ k = 8) as Hk by lia.
    repeat (destruct Hk as [->|Hk]); try subst k; reflexivity.
  - assert (k = 1 \/ k = 2 \/ k = 3 \/ k = 4 \/ k = 5 \/ k = 6 \/ k = 7) as Hk by lia.
    repeat (destruct Hk as [->|Hk]); try subst k; reflexivity.
  - assert (k = 1 \/ k = 2 \/ k = 3 \/ k = 4 \/ k = 5 \/ k = 6 \/ k = 7 \/ k = 8 \/ k = 9 \/ k = 10) as Hk by lia.
    repeat (destruct Hk as [->|Hk]); try subst k; reflexivity.
Qed.

Lemma aer_agrees ty c st r : ty = 6 \/ ty = 7 \/ ty = 8 -> aer_ref ty c st = Some r ->
  exists f, (do f0 <- aer_new ty c; apply_setters (aer_setter ty) f0 st) = Some f /\ ser_flds f = r.
Proof.
  intros Hty H. unfold aer_ref in H.
  assert (Hgo : forall flags bus dev fn,
            (if setters_ok (aer_ok ty) st then
               lay (aer_size ty)
                 ([L 0 2 ty; L 2 2 0; L 4 2 0; L 6 1 flags; L 7 1 0; L 8 4 (num_arg 1 st); L 12 4 (num_arg 2 st); L 16 4 bus;
                   L 20 2 dev; L 22 2 fn; L 24 2 (num_arg 3 st); L 26 2 0; L 28 4 (num_arg 4 st); L 32 4 (num_arg 5 st);
                   L 36 4 (num_arg 6 st); L 40 4 (num_arg 7 st)]
                  ++ match ty with
                     | 6 => [L 44 4 (num_arg 8 st)]
                     | 8 => [L 44 4 (num_arg 8 st); L 48 4 (num_arg 9 st); L 52 4 (num_arg 10 st)]
                     | _ => []
                     end)
             else None) = Some r ->
            exists f, apply_setters (aer_setter ty) (aer_shape ty flags bus dev fn (fun _ => 0)) st = Some f /\ ser_flds f = r).
  { intros flags bus dev fn Hr. destruct (setters_ok (aer_ok ty) st) eqn:Eok; [|discriminate].
    apply lay_Some in Hr. subst r.
    destruct (num_setters_run (aer_setter ty) (aer_shape ty flags bus dev fn) (aer_ok ty) (aer_ok_num ty)
                (aer_step ty flags bus dev fn Hty) st Eok (fun _ => None) (fun _ => 0)) as (v' & Hrun & Hv'); [reflexivity|].
    exists (aer_shape ty flags bus dev fn v'). split; [exact Hrun|].
    unfold aer_shape. rewrite !Hv'. destruct Hty as [->|[->| ->]]; reflexivity. }
  destruct c as [|[|[n|] l]]; try discriminate H.
  destruct n as [|[p|p|]]; try discriminate H.
  - destruct l; [|discriminate H].
    destruct (Hgo _ _ _ _ H) as (f & Hf & Hs). exists f. split; [|exact Hs].
    cbn [aer_new option_bind]. rewrite <- Hf. destruct Hty as [->|[->| ->]]; reflexivity.
  - destruct l as [|[ff|] [|[bus|] [|[dev|] [|[fn|] [|]]]]]; try discriminate H.
    destruct (N.ltb_spec ff 2); [|discriminate H]. destruct (N.ltb_spec bus 256); [|discriminate H].
    destruct (N.ltb_spec dev 32); [|discriminate H]. destruct (N.ltb_spec fn 8); [|discriminate H]. cbn [andb] in H.
    destruct (Hgo _ _ _ _ H) as (f & Hf & Hs). exists f. split; [|exact Hs].
    cbn [aer_new]. unfold cast, U8. rewrite !N.mod_small by (change (2 ^ 8) with 256; lia).
    unfold pci_ok, assert. destruct (N.ltb_spec dev 32); [|lia]. destruct (N.ltb_spec fn 8); [|lia]. cbn [option_bind].
    rewrite <- Hf. destruct Hty as [->|[->| ->]]; reflexivity.
Qed.

(* ---------- notification structure ---------- *)
Definition notif_shape (ty : N) (v : N -> N) : flds :=
  [F 1 ty; F 1 28; F 2 (v 1); F 4 (v 2); F 4 (v 3); F 4 (v 4); F 4 (v 5); F 4 (v 6); F 4 (v 7)].
Definition notif_ok := fun (k : N) (args : list sx) => one_num args && (1 <=? k) && (k <=? 7).

Lemma notif_ok_num k args : notif_ok k args = true -> exists x, args = [SA x].
Proof. unfold notif_ok. intros H. apply andb_true_iff in H. destruct H as [H _]. apply andb_true_iff in H. destruct H as [H _]. now apply one_num_inv. Qed.

Lemma notif_step ty k x v : notif_ok k [SA x] = true ->
  exists v', notif_setter (notif_shape ty v) (SL [SA k; SA x]) = Some (notif_shape ty v') /\ forall q, v' q = if k =? q then x else v q.
Proof.
  intros H. exists (fun q => if k =? q then x else v q). split; [|reflexivity].
  unfold notif_ok in H. cbn [one_num andb] in H. apply andb_true_iff in H. destruct H as [H1 H2].
  apply N.leb_le in H1. apply N.leb_le in H2.
  assert (k = 1 \/ k = 2 \/ k = 3 \/ k = 4 \/ k = 5 \/ k = 6 \/ k = 7) as Hk by lia.
  repeat (destruct Hk as [->|Hk]); try subst k; reflexivity.
Qed.

Lemma notif_agrees nty nst nb : notif_ref nty nst = Some nb ->
  exists v, apply_setters notif_setter (notif_new nty) nst = Some (notif_shape nty v) /\ ser_flds (notif_shape nty v) = nb.
Proof.
  unfold notif_ref. intros H. destruct (nty <=? 15); [|discriminate H]. cbn [andb] in H.
  destruct (setters_ok _ nst) eqn:Eok; [|discriminate H]. apply lay_Some in H. subst nb.
  destruct (num_setters_run notif_setter (notif_shape nty) notif_ok notif_ok_num (notif_step nty) nst Eok (fun _ => None) (fun _ => 0))
    as (v' & Hrun & Hv'); [reflexivity|].
  exists v'. split; [exact Hrun|]. unfold notif_shape. rewrite !Hv'. reflexivity.
Qed.

(* ---------- generic hardware error source (9) and version 2 (10) ---------- *)
Definition g (i : nat) (l : list N) : N := nth i l 0.

Definition ghes_shape (ty id en : N) (v : N -> N) (ga na gb : list N) : flds :=
  [F 2 ty; F 2 id; F 2 0xffff; F 1 0; F 1 en; F 4 (v 1); F 4 (v 2); F 4 (v 3);
   F 1 (g 0 ga); F 1 (g 1 ga); F 1 (g 2 ga); F 1 (g 3 ga); F 8 (g 4 ga);
   F 1 (g 0 na); F 1 (g 1 na); F 2 (g 2 na); F 4 (g 3 na); F 4 (g 4 na); F 4 (g 5 na); F 4 (g 6 na); F 4 (g 7 na); F 4 (g 8 na);
   F 4 (v 6)]
  ++ match ty with
     | 10 => [F 1 (g 0 gb); F 1 (g 1 gb); F 1 (g 2 gb); F 1 (g 3 gb); F 8 (g 4 gb); F 8 (v 8); F 8 (v 9)]
     | _ => []
     end.

Definition gasS (a : option (list sx)) : option (list N) :=
  match a with Some [x] => gas_ref x | Some _ => None | None => gas_ref (SL [SA 2]) end.
Definition notS (a : option (list sx)) : option (list N) :=
  match a with Some [SA nty; SL nst] => notif_ref nty nst | Some _ => None | None => notif_ref 0 [] end.

Definition RG (a : option (list sx)) (ga : list N) : Prop :=
  exists x0 x1 x2 x3 x4, ga = [x0; x1; x2; x3; x4] /\ gasS a = Some (ser_flds (gas_mk x0 x1 x2 x3 x4)).
Definition RN (a : option (list sx)) (na : list N) : Prop :=
  exists nty nv, na = fvals (notif_shape nty nv) /\ notS a = Some (ser_flds (notif_shape nty nv)).

Lemma ghes_ok_cases ty k args : ghes_setter_ok ty k args = true ->
  k = 1 \/ k = 2 \/ k = 3 \/ k = 4 \/ k = 5 \/ k = 6 \/ k = 7 \/ k = 8 \/ k = 9.
Proof.
  intros H. destruct k as [|p]; [discriminate H|].
  do 4 (try (destruct p as [p|p|]; try discriminate H)); auto 10.
Qed.

Lemma ghes_run ty id en : ty = 9 \/ ty = 10 -> forall st, setters_ok (ghes_setter_ok ty) st = true ->
  forall acc v ga na gb, (forall q, v q = valof (acc q)) -> RG (acc 4) ga -> RN (acc 5) na -> RG (acc 7) gb ->
  exists v' ga' na' gb',
    apply_setters (ghes_setter ty) (ghes_shape ty id en v ga na gb) st = Some (ghes_shape ty id en v' ga' na' gb') /\
    (forall q, v' q = valof (last_call q st (acc q))) /\
    RG (last_call 4 st (acc 4)) ga' /\ RN (last_call 5 st (acc 5)) na' /\ RG (last_call 7 st (acc 7)) gb'.
Proof.
  intros Hty. induction st as [|s st IH]; intros Hok acc v ga na gb Hv H4 H5 H7.
  - exists v, ga, na, gb. cbn [apply_setters last_call]. auto.
  - cbn [setters_ok forallb] in Hok. apply andb_true_iff in Hok. destruct Hok as [Hs Hr].
    destruct s as [|[|[k|] args]]; try discriminate Hs.
    set (acc1 := fun q => if k =? q then Some args else acc q).
    set (v1 := fun q => if k =? q then valof (Some args) else v q).
    assert (Hv1 : forall q, v1 q = valof (acc1 q)).
    { intros q. unfold v1, acc1. destruct (k =? q); [reflexivity|apply Hv]. }
    assert (Hstep : exists ga1 na1 gb1,
              ghes_setter ty (ghes_shape ty id en v ga na gb) (SL (SA k :: args)) = Some (ghes_shape ty id en v1 ga1 na1 gb1) /\
              RG (acc1 4) ga1 /\ RN (acc1 5) na1 /\ RG (acc1 7) gb1).
    { destruct (ghes_ok_cases ty k args Hs) as [->|[->|[->|[->|[->|[->|[->|[->| ->]]]]]]]]; cbn [ghes_setter_ok] in Hs.
      - destruct (one_num_inv _ Hs) as [x ->]. exists ga, na, gb. split; [|auto]. destruct Hty as [-> | ->]; reflexivity.
      - destruct (one_num_inv _ Hs) as [x ->]. exists ga, na, gb. split; [|auto]. destruct Hty as [-> | ->]; reflexivity.
      - destruct (one_num_inv _ Hs) as [x ->]. exists ga, na, gb. split; [|auto]. destruct Hty as [-> | ->]; reflexivity.
      - destruct args as [|x [|]]; try discriminate Hs. destruct (gas_ref x) as [gbytes|] eqn:Eg; [|discriminate Hs].
        destruct (gas_arg_agrees _ _ Eg) as (a & b & c & d & e & Hg & Hser).
        exists [a; b; c; d; e], na, gb. split; [|split; [|auto]].
        + cbn [ghes_setter]. rewrite Hg. cbn [option_bind]. destruct Hty as [-> | ->]; reflexivity.
        + exists a, b, c, d, e. split; [reflexivity|]. unfold acc1. change (4 =? 4) with true. cbv iota. cbn [gasS]. now rewrite Eg, Hser.
      - destruct args as [|[nty|] [|[|nst] [|]]]; try discriminate Hs. destruct (notif_ref nty nst) as [nb|] eqn:En; [|discriminate Hs].
        destruct (notif_agrees _ _ _ En) as (nv & Hn & Hser).
        exists ga, (fvals (notif_shape nty nv)), gb. split; [|split; [auto|split; [|auto]]].
        + cbn [ghes_setter]. rewrite Hn. cbn [option_bind]. destruct Hty as [-> | ->]; reflexivity.
        + exists nty, nv. split; [reflexivity|]. unfold acc1. change (5 =? 5) with true. cbv iota. cbn [notS]. now rewrite En, Hser.
      - destruct (one_num_inv _ Hs) as [x ->]. exists ga, na, gb. split; [|auto]. destruct Hty as [-> | ->]; reflexivity.
      - apply andb_true_iff in Hs. destruct Hs as [Ht Hs]. apply N.eqb_eq in Ht. subst ty.
        destruct args as [|x [|]]; try discriminate Hs. destruct (gas_ref x) as [gbytes|] eqn:Eg; [|discriminate Hs].
        destruct (gas_arg_agrees _ _ Eg) as (a & b & c & d & e & Hg & Hser).
        exists ga, na, [a; b; c; d; e]. split; [|split; [auto|split; [auto|]]].
        + cbn [ghes_setter]. rewrite Hg. cbn [option_bind]. reflexivity.
        + exists a, b, c, d, e. split; [reflexivity|]. unfold acc1. change (7 =? 7) with true. cbv iota. cbn [gasS]. now rewrite Eg, Hser.
      - apply andb_true_iff in Hs. destruct Hs as [Ht Hs]. apply N.eqb_eq in Ht. subst ty.
        destruct (one_num_inv _ Hs) as [x ->]. exists ga, na, gb. split; [|auto]. reflexivity.
      - apply andb_true_iff in Hs. destruct Hs as [Ht Hs]. apply N.eqb_eq in Ht. subst ty.
        destruct (one_num_inv _ Hs) as [x ->]. exists ga, na, gb. split; [|auto]. reflexivity. }
    destruct Hstep as (ga1 & na1 & gb1 & Hstep & G4 & G5 & G7).
    destruct (IH Hr acc1 v1 ga1 na1 gb1 Hv1 G4 G5 G7) as (v' & ga' & na' & gb' & Hrun & Hv' & R4 & R5 & R7).
    exists v', ga', na', gb'. cbn [apply_setters]. rewrite Hstep. split; [exact Hrun|].
    cbn [last_call]. fold (acc1 4) (acc1 5) (acc1 7). split; [|auto]. intros q. rewrite Hv'. reflexivity.
Qed.

Lemma ghes_agrees ty id en st r : ty = 9 \/ ty = 10 -> ghes_ref ty id en st = Some r ->
  exists f, apply_setters (ghes_setter ty) (ghes_new ty id en) st = Some f /\ ser_flds f = r.
Proof.
  intros Hty H. unfold ghes_ref in H.
  destruct (id <? 65536); [|discriminate H]. destruct (en <? 2); [|discriminate H]. cbn [andb] in H.
  destruct (setters_ok (ghes_setter_ok ty) st) eqn:Eok; [|discriminate H].
  destruct (ghes_run ty id en Hty st Eok (fun _ => None) (fun _ => 0) [0; 0; 0; 0; 0] (fvals (notif_shape 0 (fun _ => 0))) [0; 0; 0; 0; 0])
    as (v' & ga' & na' & gb' & Hrun & Hv' & R4 & R5 & R7).
  { reflexivity. }
  { exists 0, 0, 0, 0, 0. split; reflexivity. }
  { exists 0, (fun _ => 0). split; reflexivity. }
  { exists 0, 0, 0, 0, 0. split; reflexivity. }
  destruct R4 as (x0 & x1 & x2 & x3 & x4 & -> & E4). destruct R5 as (nty & nv & -> & E5).
  destruct R7 as (y0 & y1 & y2 & y3 & y4 & -> & E7).
  change (gas_arg 4 st) with (gasS (last_call 4 st None)) in H. change (gas_arg 7 st) with (gasS (last_call 7 st None)) in H.
  match type of H with context [match last_call 5 st None with _ => _ end] =>
    change (match last_call 5 st None with
            | Some [SA nty0; SL nst] => notif_ref nty0 nst
            | Some _ => None
            | None => notif_ref 0 [] end) with (notS (last_call 5 st None)) in H end.
  rewrite E4, E5, E7 in H. apply lay_Some in H. subst r.
  exists (ghes_shape ty id en v' [x0; x1; x2; x3; x4] (fvals (notif_shape nty nv)) [y0; y1; y2; y3; y4]).
  split.
  - rewrite <- Hrun. destruct Hty as [-> | ->]; reflexivity.
  - rewrite !assemble_app, !assemble_LB by apply bytes_ok_ser_flds.
    unfold ghes_shape. rewrite !Hv'.
    destruct Hty as [-> | ->].
    + change (9 =? 10) with false. cbv iota. reflexivity.
    + change (10 =? 10) with true. cbv iota. rewrite ?assemble_app, ?assemble_LB by apply bytes_ok_ser_flds. reflexivity.
Qed.

(* ---------- every error source structure is the reference encoding of the caller's values ---------- *)
Inductive hest_shape : sx -> Prop :=
| HS1 c st : hest_shape (SL [SA 1; c; SL st])
| HS2 c st : hest_shape (SL [SA 2; c; SL st])
| HS3 c st : hest_shape (SL [SA 3; c; SL st])
| HS4 id en st : hest_shape (SL [SA 4; SA id; SA en; SL st])
| HS5 id en st : hest_shape (SL [SA 5; SA id; SA en; SL st]).

Lemma hest_ref_shape o r : hest_entry_ref o = Some r -> hest_shape o.
Proof.
  intros H. unfold hest_entry_ref in H.
  repeat match type of H with context [match ?x with _ => _ end] => is_var x; destruct x; try discriminate H end;
  constructor.
Qed.

Theorem hest_entries_are_reference o r :
  hest_entry_ref o = Some r -> exists f, hest_entry o = Some f /\ ser_flds f = r.
Proof.
  intros H. destruct (hest_ref_shape o r H); cbn [hest_entry_ref hest_entry] in *.
  - apply aer_agrees; auto.
  - apply aer_agrees; auto.
  - apply aer_agrees; auto.
  - apply ghes_agrees; auto.
  - apply ghes_agrees; auto.
Qed.

Lemma hest_addition_agrees s o r : hest_entry_ref o = Some r -> exists e, hest_addition s o = Some e /\ a_bytes e = r.
Proof.
  intros H. destruct (hest_entries_are_reference o r H) as (f & Hf & Hs). unfold hest_addition. rewrite Hf. cbn [option_bind].
  eexists. split; [reflexivity|]. exact Hs.
Qed.

(* ---------- stand-alone structures ---------- *)
(* generic error status block: judged by the Spec for counts 0 / 1 only *)
Lemma ges_agrees cc uc sev r : ges_ref cc uc sev = Some r -> ges_bytes cc uc sev = r.
Proof.
  unfold ges_ref. intros H. destruct (N.ltb_spec cc 2); [|discriminate H]. destruct (N.ltb_spec uc 2); [|discriminate H].
  destruct (sev <=? 3); [|discriminate H]. cbn [andb] in H. apply lay_Some in H. subst r.
  assert (cc = 0 \/ cc = 1) as [-> | ->] by lia; assert (uc = 0 \/ uc = 1) as [-> | ->] by lia; reflexivity.
Qed.

Definition is_ged (o : sx) : bool := match o with SL (SA 21 :: _) => true | _ => false end.

Lemma alone_ges_agrees o r : is_alone_op o = true -> is_ged o = false -> alone_ref o = Some r -> hest_alone o = Some r.
Proof.
  intros Ha Hg H. unfold alone_ref in H.
  repeat match type of H with context [match ?x with _ => _ end] => is_var x; destruct x; try discriminate H; try discriminate Hg end.
  cbn [hest_alone]. f_equal. now apply ges_agrees.
Qed.

(* the assignments the Spec accepts are accepted by the model (whatever the structure they are applied to) *)
Lemma ged_assign_accepts st : setters_ok ged_assign_ok st = true -> forall f, exists f', apply_setters ged_assign f st = Some f'.
Proof.
  induction st as [|s st IH]; intros Hok f; [exists f; reflexivity|].
  cbn [setters_ok forallb] in Hok. apply andb_true_iff in Hok. destruct Hok as [Hs Hr].
  destruct s as [|[|[k|] args]]; try discriminate Hs.
  assert (Hstep : exists f1, ged_assign f (SL (SA k :: args)) = Some f1).
  { unfold ged_assign_ok in Hs.
    destruct k as [|p]; [discriminate Hs|]. do 4 (try (destruct p as [p|p|]; try discriminate Hs)).
    all: try (destruct (one_num_inv _ Hs) as [x ->]; eexists; reflexivity).
    all: destruct args as [|b [|]]; try discriminate Hs.
    all: try (destruct b; discriminate Hs).
    all: try (destruct b as [v|]; [|discriminate Hs]; eexists; reflexivity).
    all: cbn [ged_assign]; unfold sx_arr; destruct (sx_bytes b) as [bl|]; [|discriminate Hs]; rewrite Hs; cbn [option_bind];
         eexists; reflexivity. }
  destruct Hstep as [f1 Hstep]. destruct (IH Hr f1) as [f' Hf']. exists f'. cbn [apply_setters]. now rewrite Hstep.
Qed.

(* well-formedness of a stand-alone operation (weaker than `alone_ref o <> None`: any counts / severity) *)
Definition alone_wf (o : sx) : bool :=
  match o with
  | SL [SA 20; SL [SA _; SA _]; SA _] => true
  | SL [SA 21; SA _; SL st] => setters_ok ged_assign_ok st
  | _ => false
  end.

Definition alone_dom (o : sx) : Prop := is_alone_op o = true -> alone_wf o = true.

Lemma alone_ref_wf o : alone_ref o <> None -> alone_wf o = true.
Proof.
  intros H. unfold alone_ref in H.
  repeat match type of H with context [match ?x with _ => _ end] => is_var x; destruct x; try (exfalso; apply H; reflexivity) end.
  - cbn [alone_wf]. unfold ged_ref in H.
    match type of H with context [setters_ok ged_assign_ok ?l] => destruct (setters_ok ged_assign_ok l); [reflexivity|] end.
    rewrite andb_false_r in H. exfalso; apply H; reflexivity.
  - reflexivity.
Qed.

Lemma alone_wf_accepts o : alone_wf o = true -> exists b, hest_alone o = Some b.
Proof.
  intros H. unfold alone_wf in H.
  repeat match type of H with context [match ?x with _ => _ end] => is_var x; destruct x; try discriminate H end.
  - cbn [hest_alone].
    match goal with |- context [apply_setters ged_assign ?f ?l] => destruct (ged_assign_accepts l H f) as [f' Hf']; rewrite Hf' end.
    cbn [option_bind]. eexists; reflexivity.
  - cbn [hest_alone]. eexists; reflexivity.
Qed.

(* ---------- histories ---------- *)
Lemma hest_run_app md a : forall s b,
  hest_run md s (a ++ b) = match hest_run md s a with Some s1 => hest_run md s1 b | None => None end.
Proof.
  induction a as [|o a IH]; intros s b; [reflexivity|]. cbn [app hest_run]. destruct o as [n|l]; [apply IH|].
  destruct (hest_step md s (SL l)) as [[s1 evs]|]; [apply IH|reflexivity].
Qed.

(* the component-21 runner follows the generic addition runner on the history without the stand-alone operations,
   provided every stand-alone operation is one the specification defines *)
Lemma hest_run_sim md : forall ops s t',
  Forall alone_dom ops -> run_adds hest_addition md (hs_tbl s) (hest_adds ops) = Some t' ->
  exists s', hest_run md s ops = Some s' /\ hs_tbl s' = t'.
Proof.
  induction ops as [|o ops IH]; intros s t' Hd H; cbn [hest_adds filter] in H.
  - cbn [run_adds] in H. injection H as <-. exists s. split; reflexivity.
  - inversion Hd as [|? ? Ho Hd']; subst. fold (hest_adds ops) in H.
    destruct (is_alone_op o) eqn:Ea; cbn [negb] in H.
    + destruct (alone_wf_accepts o (Ho Ea)) as [b Hb].
      destruct (IH {| hs_tbl := hs_tbl s; hs_alone := Some b |} t' Hd' H) as (s' & Hrun & Ht).
      exists s'. split; [|exact Ht]. cbn [hest_run]. destruct o as [n|l]; [discriminate Ea|].
      unfold hest_step. change (is_alone (SL l)) with (is_alone_op (SL l)). rewrite Ea, Hb. cbn [option_bind]. exact Hrun.
    + cbn [run_adds] in H. destruct o as [n|l].
      * destruct (IH s t' Hd' H) as (s' & Hrun & Ht). exists s'. split; [exact Hrun|exact Ht].
      * destruct (add_step hest_addition md (hs_tbl s) (SL l)) as [[t1 evs]|] eqn:Es; [|discriminate H].
        destruct (IH {| hs_tbl := t1; hs_alone := None |} t' Hd' H) as (s' & Hrun & Ht).
        exists s'. split; [|exact Ht]. cbn [hest_run]. unfold hest_step.
        change (is_alone (SL l)) with (is_alone_op (SL l)). rewrite Ea, Es. cbn [option_bind fst snd]. exact Hrun.
Qed.

Lemma list_last_case {A} (l : list A) : l = [] \/ exists l' x, l = l' ++ [x].
Proof. destruct (rev l) as [|x r] eqn:E.
  - left. apply (f_equal (@rev A)) in E. now rewrite rev_involutive in E.
  - right. exists (rev r), x. apply (f_equal (@rev A)) in E. now rewrite rev_involutive in E.
Qed.

Lemma last_op_snoc ops o : last_op (ops ++ [o]) = Some o.
Proof. unfold last_op. rewrite frev_rev, rev_app_distr. reflexivity. Qed.

Theorem hest_refines :
  forall md ctor ops r es,
    ts_image hest_spec ctor ops = Some r ->                              (* the history is inside the specification's domain *)
    hest_entries_ref ops = Some es -> N.of_nat (40 + length (concat es)) < 2 ^ 32 ->   (* the table it builds is below 4 GiB *)
    Forall alone_dom ops ->                     (* every stand-alone operation of the history is well formed *)
    (forall o, last_op ops = Some o -> is_ged o = false) ->   (* KNOWN deviation excluded: the image shown is not a GenericErrorData *)
    exists t0 s, hest_new ctor = Some t0 /\ hest_run md {| hs_tbl := t0; hs_alone := None |} ops = Some s /\
                 Hest.hest_image s = Some r.
Proof.
  intros md ctor ops r es H Hes Hfit Hdom Hged. cbn [ts_image hest_spec] in H. unfold HestS.hest_image in H.
  destruct ctor as [|[|o [|t [|r0 [|]]]]]; try discriminate H.
  destruct (sx_hdr_args o t r0) as [ha|] eqn:Ea; [|discriminate H]. rewrite Hes in H.
  destruct (sx_hdr_of_args [72; 69; 83; 84] 1 o t r0 ha Ea) as (Hh & Ho & Ht).
  set (h := {| h_sig := [72; 69; 83; 84]; h_rev := 1; h_oem := ha_oem ha; h_tbl := ha_tbl ha; h_orev := ha_orev ha |}) in *.
  assert (Hnew : hest_new (SL [o; t; r0]) = Some (tbl_new KHest h [])).
  { cbn [hest_new]. rewrite Hh. reflexivity. }
  unfold hest_entries_ref in Hes. apply opt_seq_Forall2 in Hes.
  destruct (addtable_refines hest_table hest_entry_ref eq_refl (fun _ => eq_refl)
              (fun s o r _ Hr => hest_addition_agrees s o r Hr) md (tbl_new KHest h []) (hest_adds ops) es)
    as (t' & Hrun & Himg).
  { exact (hest_new_inv _ _ Hnew). } { reflexivity. } { exact Hes. } { change (length (mid (at_kind hest_table) (t_pre (tbl_new KHest h [])) 0)) with 4%nat. lia. }
  cbn [at_entry hest_table] in Hrun.
  destruct (hest_run_sim md ops {| hs_tbl := tbl_new KHest h []; hs_alone := None |} t' Hdom Hrun) as (s & Hs & Hts).
  exists (tbl_new KHest h []), s. split; [exact Hnew|]. split; [exact Hs|].
  assert (Href : tbl_image t' = ref_table [72; 69; 83; 84] 1 ha (le 4 (N.of_nat (length es)) ++ concat es)).
  { rewrite Himg. destruct ha; reflexivity. }
  destruct (list_last_case ops) as [-> | (ops' & ol & ->)].
  - cbn [hest_run] in Hs. apply some_inv in Hs. subst s. cbn [hs_tbl] in Hts. subst t'.
    change (shows_alone []) with false in H. cbv iota in H.
    destruct (N.of_nat (length es) <? 2 ^ 32); [|discriminate H]. apply some_inv in H. subst r.
    unfold Hest.hest_image. cbn [hs_alone hs_tbl]. now rewrite Href.
  - unfold shows_alone in H. rewrite last_op_snoc in H. specialize (Hged ol (last_op_snoc ops' ol)).
    rewrite hest_run_app in Hs. destruct (hest_run md _ ops') as [s1|]; [|discriminate Hs].
    destruct (is_alone_op ol) eqn:Eal.
    + pose proof (alone_ges_agrees ol r Eal Hged H) as Hal.
      destruct ol as [n|l]; [discriminate Eal|]. cbn [hest_run] in Hs. unfold hest_step in Hs.
      change (is_alone (SL l)) with (is_alone_op (SL l)) in Hs. rewrite Eal, Hal in Hs. cbn [option_bind] in Hs.
      apply some_inv in Hs. subst s. reflexivity.
    + destruct (N.of_nat (length es) <? 2 ^ 32); [|discriminate H]. apply some_inv in H. subst r.
      unfold hest_adds in Hes. rewrite filter_app in Hes. cbn [filter] in Hes. rewrite Eal in Hes. cbn [negb] in Hes.
      apply Forall2_app_inv_l in Hes. destruct Hes as (e1 & e2 & _ & He2 & _).
      assert (exists re, hest_entry_ref ol = Some re) as [re Hre] by (inversion He2; eauto).
      destruct ol as [n|l]; [discriminate Hre|]. cbn [hest_run] in Hs. unfold hest_step in Hs.
      change (is_alone (SL l)) with (is_alone_op (SL l)) in Hs. rewrite Eal in Hs.
      destruct (add_step hest_addition md (hs_tbl s1) (SL l)) as [[t1 evs]|]; [|discriminate Hs]. cbn [option_bind fst snd] in Hs.
      apply some_inv in Hs. subst s. cbn [hs_tbl] in Hts. subst t1.
      unfold Hest.hest_image. cbn [hs_alone hs_tbl]. now rewrite Href.
Qed.


(* the same, with the stand-alone hypothesis phrased with the Spec's own judgement of stand-alone structures *)
Corollary hest_refines_spec_dom :
  forall md ctor ops r es,
    ts_image hest_spec ctor ops = Some r ->
    hest_entries_ref ops = Some es -> N.of_nat (40 + length (concat es)) < 2 ^ 32 ->
    Forall (fun o => is_alone_op o = true -> alone_ref o <> None) ops ->
    (forall o, last_op ops = Some o -> is_ged o = false) ->
    exists t0 s, hest_new ctor = Some t0 /\ hest_run md {| hs_tbl := t0; hs_alone := None |} ops = Some s /\
                 Hest.hest_image s = Some r.
Proof.
  intros md ctor ops r es H1 H2 H3 H4 H5. apply (hest_refines md ctor ops r es H1 H2 H3); [|exact H5].
  eapply Forall_impl; [|exact H4]. intros o Ho Ha. apply alone_ref_wf. exact (Ho Ha).
Qed.

(* histories without stand-alone operations: the plain statement *)
Corollary hest_table_refines :
  forall md ctor ops r,
    ts_image hest_spec ctor ops = Some r ->
    forallb (fun o => negb (is_alone_op o)) ops = true ->
    N.of_nat (length r) < 2 ^ 32 ->
    exists t0 s, hest_new ctor = Some t0 /\ hest_run md {| hs_tbl := t0; hs_alone := None |} ops = Some s /\
                 Hest.hest_image s = Some r.
Proof.
  intros md ctor ops r H Hna Hfit.
  assert (Hall : forall o, In o ops -> is_alone_op o = false).
  { intros o Hin. rewrite forallb_forall in Hna. specialize (Hna o Hin). now destruct (is_alone_op o). }
  pose proof H as H0. cbn [ts_image hest_spec] in H0. unfold HestS.hest_image in H0.
  destruct ctor as [|[|o [|t [|r0 [|]]]]]; try discriminate H0.
  destruct (sx_hdr_args o t r0) as [ha|] eqn:Ea; [|discriminate H0].
  destruct (hest_entries_ref ops) as [es|] eqn:Ees; [|discriminate H0].
  assert (Hsa : shows_alone ops = false).
  { unfold shows_alone. destruct (list_last_case ops) as [-> | (l' & x & ->)]; [reflexivity|].
    rewrite last_op_snoc. apply Hall. apply in_or_app. right. left. reflexivity. }
  rewrite Hsa in H0. destruct (N.of_nat (length es) <? 2 ^ 32); [|discriminate H0]. apply some_inv in H0. subst r.
  destruct (sx_hdr_of_args [72; 69; 83; 84] 1 o t r0 ha Ea) as (_ & Ho & Ht).
  rewrite length_ref_table, app_length, length_le in Hfit by (first [reflexivity | assumption]).
  apply (hest_refines md (SL [o; t; r0]) ops _ es H Ees).
  - lia.
  - apply Forall_forall. intros x Hx Hax. rewrite (Hall x Hx) in Hax. discriminate Hax.
  - intros x Hx. destruct (list_last_case ops) as [-> | (l' & y & ->)]; [discriminate Hx|].
    rewrite last_op_snoc in Hx. apply some_inv in Hx. subst y.
    assert (Hx : is_alone_op x = false) by (apply Hall; apply in_or_app; right; left; reflexivity).
    destruct x as [|[|[k|] l]]; try reflexivity. unfold is_ged. unfold is_alone_op in Hx.
    destruct (N.eq_dec k 21) as [-> | Hk]; [discriminate Hx|].
    destruct k as [|p]; [reflexivity|]. do 5 (try (destruct p as [p|p|]; try reflexivity)). congruence.
Qed.

(* ---------- concrete histories: the statement exercised, and the two excluded classes witnessed ---------- *)
Definition hest_both (md : mode) (ctor : sx) (ops : list sx) : option (list N) * option (list N) :=
  (ts_image hest_spec ctor ops,
   match hest_new ctor with
   | Some t0 => match hest_run md {| hs_tbl := t0; hs_alone := None |} ops with Some s => Hest.hest_image s | None => None end
   | None => None
   end).
Definition hest_demo_ctor : sx := SL [SL (map SA [1; 2; 3; 4; 5; 6]); SL (map SA [1; 2; 3; 4; 5; 6; 7; 8]); SA 77].
Definition hest_demo_ops : list sx :=
  [SL [SA 20; SL [SA 5; SA 5]; SA 9];
   SL [SA 4; SA 3; SA 1; SL [SL [SA 5; SA 3; SL [SL [SA 2; SA 1000]]]; SL [SA 4; SL [SA 1; SA 32; SA 3; SA 2; SA 1; SA 0x10]];
                             SL [SA 1; SA 9]; SL [SA 1; SA 10]]];
   SL [SA 5; SA 65535; SA 0; SL [SL [SA 7; SL [SA 0; SA 1; SA 8; SA 0; SA 1; SA 0x4000]]; SL [SA 9; SA 0xFFFFFFFFFFFFFFFF]]];
   SL [SA 1; SL [SA 1; SA 1; SA 3; SA 4; SA 5]; SL [SL [SA 8; SA 0xAABBCCDD]]];
   SL [SA 3; SL [SA 0]; SL [SL [SA 10; SA 7]; SL [SA 3; SA 0xFFFF]]]].
Definition opt_eqb (a b : option (list N)) : bool :=
  match a, b with Some x, Some y => list_N_eqb x y | _, _ => false end.

Example hest_refines_demo :
  (let (a, b) := hest_both Checked hest_demo_ctor hest_demo_ops in opt_eqb a b)
  && (let (a, b) := hest_both Wrapping hest_demo_ctor (hest_demo_ops ++ [SL [SA 20; SL [SA 1; SA 0]; SA 2]]) in opt_eqb a b)
  && (let (a, b) := hest_both Wrapping hest_demo_ctor [] in opt_eqb a b) = true.
Proof. vm_compute. reflexivity. Qed.

(* (a) KNOWN deviation: a history that ends with a stand-alone GenericErrorData is in the Spec's domain (reference: 72 bytes, ACPI 6.5
   Table 18.13 with a 16-byte section type GUID); the model, like the crate, writes 58 bytes (2-byte section type).
   Hence the hypothesis `is_ged (last op) = false` of hest_refines cannot be dropped. *)
Example hest_refines_refuted_ged :
  exists r b, hest_both Checked hest_demo_ctor [SL [SA 21; SA 0; SL []]] = (Some r, Some b) /\
              length r = 72%nat /\ length b = 58%nat /\ r <> b.
Proof.
  eexists. eexists. split; [vm_compute; reflexivity|]. split; [reflexivity|]. split; [reflexivity|].
  intros E. apply (f_equal (@length N)) in E. discriminate E.
Qed.

(* (b) a malformed stand-alone operation in the middle of a history (fru_id given 3 bytes instead of 16): Spec/HestS.v ignores
   stand-alone operations that are not the last one, so the history is in its domain; the model (and any driver of the crate,
   which has to build the [u8; 16]) refuses.  Hence the hypothesis `Forall alone_dom ops` cannot be dropped.
   This is a looseness of the Spec's domain, not a defect of the crate: the generators never emit such a case. *)
Example hest_refines_refuted_midalone :
  exists r, hest_both Checked hest_demo_ctor
              [SL [SA 21; SA 0; SL [SL [SA 7; SL [SA 1; SA 2; SA 3]]]]; SL [SA 2; SL [SA 0]; SL []]] = (Some r, None).
Proof. eexists. vm_compute. reflexivity. Qed.

Print Assumptions hest_refines.
Print Assumptions hest_table_refines.
