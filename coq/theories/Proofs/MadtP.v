(* MADT: the table-specific obligations of the generic history invariant. *)
From Coq Require Import NArith ZArith List Lia Bool Arith.
From ACPI Require Import Lib.Bytes Lib.Sx Lib.Machine Impl.Checksum Impl.Table Impl.Fields Impl.Run Impl.Madt
  Proofs.ChecksumP Proofs.TableP.
Import ListNotations.
Open Scope N_scope.

Lemma sx_arr_length k s b : sx_arr k s = Some b -> length b = k.
Proof.
  unfold sx_arr. destruct (sx_bytes s) as [l|]; [|discriminate].
  destruct (Nat.eqb_spec (length l) k); [|discriminate]. intros H. inversion H; subst. reflexivity.
Qed.

Lemma sx_hdr_ok sig rev o t r h : length sig = 4%nat -> sx_hdr sig rev o t r = Some h -> hdr_ok h = true.
Proof.
  intros Hs. unfold sx_hdr.
  destruct (sx_arr 6 o) as [oem|] eqn:Eo; [|discriminate]. cbn [option_bind].
  destruct (sx_arr 8 t) as [tb|] eqn:Et; [|discriminate]. cbn [option_bind].
  destruct (sx_num r); [|discriminate]. cbn [option_bind]. intros H. inversion H; subst.
  unfold hdr_ok. cbn [h_sig h_oem h_tbl]. rewrite Hs, (sx_arr_length _ _ _ Eo), (sx_arr_length _ _ _ Et). reflexivity.
Qed.

Lemma madt_new_inv c s0 : madt_new c = Some s0 -> Inv2 KMadt s0.
Proof.
  unfold madt_new. destruct c as [|l]; [discriminate|].
  destruct l as [|o [|t [|r [|lic [|x l]]]]]; try discriminate.
  destruct (sx_hdr [65; 80; 73; 67] 1 o t r) as [h|] eqn:Eh; [|discriminate]. cbn [option_bind].
  destruct (match lic with SL [] => Some 0 | SL [SA a] => Some a | _ => None end) as [addr|]; [|discriminate].
  cbn [option_bind]. intros H. inversion H; subst.
  apply tbl_new_inv2; [eapply sx_hdr_ok; [|exact Eh]; reflexivity | reflexivity].
Qed.

Lemma madt_new_empty c s0 : madt_new c = Some s0 -> t_ents s0 = [].
Proof.
  unfold madt_new. destruct c as [|l]; [discriminate|].
  destruct l as [|o [|t [|r [|lic [|x l]]]]]; try discriminate.
  destruct (sx_hdr _ _ _ _ _); [|discriminate]. cbn [option_bind].
  destruct (match lic with SL [] => Some 0 | SL [SA a] => Some a | _ => None end); [|discriminate].
  cbn [option_bind]. intros H. inversion H; subst. reflexivity.
Qed.

Lemma madt_addition_sound s o e : t_kind s = KMadt -> madt_addition s o = Some e ->
  a_claimed e = N.of_nat (length (a_bytes e)) /\
  (needs_pos (t_kind s) = true -> (1 <= length (a_bytes e))%nat /\ a_claimed e < 2 ^ 16).
Proof.
  intros Hk. unfold madt_addition.
  destruct (assert _); [|discriminate]. cbn [option_bind].
  destruct (madt_entry o); [|discriminate]. cbn [option_bind]. intros H. inversion H; subst; cbn [a_claimed a_bytes].
  split; [reflexivity|]. rewrite Hk. discriminate.
Qed.

(* ---- C03: every MADT structure describes itself (type u8, length u8) ---- *)
From ACPI Require Import Spec.Layout Proofs.WalkP.

Definition head2 (f : flds) : option (N * N) :=
  match f with (1%nat, t) :: (1%nat, n) :: _ => Some (t, n) | _ => None end.

Lemma fset_head2 f i v : (2 <= i)%nat -> head2 (fset f i v) = head2 f.
Proof. intros H. destruct f as [|[w0 v0] [|[w1 v1] r]]; destruct i as [|[|i]]; try lia; reflexivity. Qed.
Lemma f_or_head2 f i v : (2 <= i)%nat -> head2 (f_or f i v) = head2 f.
Proof. intros H. destruct f as [|[w0 v0] [|[w1 v1] r]]; destruct i as [|[|i]]; try lia; reflexivity. Qed.
Lemma fset_len f i v : flds_len (fset f i v) = flds_len f.
Proof. revert i; induction f as [|[w x] f IH]; intros [|i]; cbn [fset flds_len]; auto. Qed.
Lemma f_or_len f i v : flds_len (f_or f i v) = flds_len f.
Proof. revert i; induction f as [|[w x] f IH]; intros [|i]; cbn [f_or flds_len]; auto. Qed.
Lemma length_ser_flds f : length (ser_flds f) = flds_len f.
Proof.
  induction f as [|[w x] f IH]; [reflexivity|]. unfold ser_flds in *. cbn [map concat fst snd flds_len].
  rewrite app_length, length_le, IH. reflexivity.
Qed.

(* a field list starting with a one-byte type and a one-byte length equal to its size describes itself *)
Definition good_entry (f : flds) : Prop :=
  exists t n, head2 f = Some (t, n) /\ t < 256 /\ n < 256 /\ N.to_nat n = flds_len f /\ (1 <= flds_len f)%nat.

Lemma good_entry_self f : good_entry f -> exists ty, self_describing H_u8_u8 (ser_flds f) ty.
Proof.
  intros (t & n & Hh & Ht & Hn & Hl & Hp). exists t.
  destruct f as [|[w0 v0] [|[w1 v1] r]]; cbn [head2] in Hh; try discriminate;
    try (destruct w0 as [|[|w0]]; discriminate).
  destruct w0 as [|[|w0]]; destruct w1 as [|[|w1]]; cbn [head2] in Hh; try discriminate. inversion Hh; subst.
  split; [rewrite length_ser_flds; exact Hp|]. intros rest. rewrite length_ser_flds, <- Hl.
  unfold ser_flds. cbn [map concat fst snd le app read_ehdr]. rewrite !N.mod_small by lia. reflexivity.
Qed.

Ltac break_match H := match type of H with context [match ?x with _ => _ end] => destruct x; try discriminate H end.

Lemma gicc_setter_inv f o f' : gicc_setter f o = Some f' -> head2 f' = head2 f /\ flds_len f' = flds_len f.
Proof.
  unfold gicc_setter. intros H. repeat break_match H; inversion H; subst;
    rewrite ?fset_head2, ?f_or_head2, ?fset_len, ?f_or_len by lia; auto.
Qed.

Lemma gicmsi_setter_inv f o f' : gicmsi_setter f o = Some f' -> head2 f' = head2 f /\ flds_len f' = flds_len f.
Proof.
  unfold gicmsi_setter. intros H. repeat break_match H; inversion H; subst;
    rewrite ?fset_head2, ?f_or_head2, ?fset_len, ?f_or_len by lia; auto.
Qed.

Lemma apply_setters_inv setter :
  (forall f o f', setter f o = Some f' -> head2 f' = head2 f /\ flds_len f' = flds_len f) ->
  forall l f f', apply_setters setter f l = Some f' -> head2 f' = head2 f /\ flds_len f' = flds_len f.
Proof.
  intros Hs. induction l as [|o l IH]; intros f f' H; cbn [apply_setters] in H.
  - inversion H; auto.
  - destruct (setter f o) as [f1|] eqn:E; [|discriminate]. destruct (Hs _ _ _ E) as [H1 H2].
    destruct (IH _ _ H) as [H3 H4]. split; congruence.
Qed.

Lemma good_entry_intro f t n : head2 f = Some (t, n) -> t < 256 -> n < 256 -> N.to_nat n = flds_len f -> (1 <= flds_len f)%nat -> good_entry f.
Proof. intros. exists t, n. auto. Qed.

Lemma madt_entry_good o f : madt_entry o = Some f -> good_entry f.
Proof.
  unfold madt_entry. intros H. repeat break_match H;
    try (inversion H; subst; eapply good_entry_intro; [reflexivity|lia|lia|reflexivity|cbn; lia]);
    match type of H with
    | apply_setters gicc_setter _ _ = _ =>
        destruct (apply_setters_inv gicc_setter gicc_setter_inv _ _ _ H) as [Hh Hl];
        eapply good_entry_intro; [rewrite Hh; reflexivity|lia|lia|rewrite Hl; reflexivity|rewrite Hl; cbn; lia]
    | apply_setters gicmsi_setter _ _ = _ =>
        destruct (apply_setters_inv gicmsi_setter gicmsi_setter_inv _ _ _ H) as [Hh Hl];
        eapply good_entry_intro; [rewrite Hh; reflexivity|lia|lia|rewrite Hl; reflexivity|rewrite Hl; cbn; lia]
    | context [sx_arr 8 ?x] =>
        destruct (sx_arr 8 x) as [hw|] eqn:Eh; [|discriminate]; cbn [option_bind] in H; inversion H; subst;
        pose proof (sx_arr_length _ _ _ Eh) as Hlen; do 8 (destruct hw as [|? hw]; [discriminate|]); (destruct hw; [|discriminate]);
        eapply good_entry_intro; [reflexivity|lia|lia|reflexivity|cbn; lia]
    end.
Qed.

Lemma madt_addition_self s o e : madt_addition s o = Some e -> exists ty, self_describing H_u8_u8 (a_bytes e) ty.
Proof.
  unfold madt_addition. destruct (assert _); [|discriminate]. cbn [option_bind].
  destruct (madt_entry o) as [f|] eqn:E; [|discriminate]. cbn [option_bind]. intros H. inversion H; subst. cbn [a_bytes].
  apply good_entry_self. eapply madt_entry_good; eauto.
Qed.

(* ---- C04: the implementation's structures are the reference layouts (structures built by a constructor alone) ---- *)
From ACPI Require Import Spec.MadtS.

Lemma madt_simple_entries_are_reference :
  (forall uid id en, madt_entry_ref (SL [SA 1; SA uid; SA id; SA en]) = Some (ser_flds (local_apic uid id en))) /\
  (forall id addr gsi, madt_entry_ref (SL [SA 2; SA id; SA addr; SA gsi]) = Some (ser_flds (io_apic id addr gsi))) /\
  (forall id base ver, madt_entry_ref (SL [SA 4; SA id; SA base; SA ver]) = Some (ser_flds (gicd id base ver))) /\
  (forall base len, madt_entry_ref (SL [SA 6; SA base; SA len]) = Some (ser_flds (gicr base len))) /\
  (forall id base, madt_entry_ref (SL [SA 7; SA id; SA base]) = Some (ser_flds (gic_its id base))) /\
  (forall st hart uid ext ib isz,
      madt_entry_ref (SL [SA 8; SA st; SA hart; SA uid; SA ext; SA ib; SA isz]) = Some (ser_flds (rintc st hart uid ext ib isz))) /\
  (forall a b c d e g, madt_entry_ref (SL [SA 9; SA a; SA b; SA c; SA d; SA e; SA g]) = Some (ser_flds (imsic a b c d e g))).
Proof. repeat split; intros; reflexivity. Qed.
