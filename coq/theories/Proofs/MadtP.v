(* MADT: the table-specific obligations of the generic history invariant. *)
From Coq Require Import NArith ZArith List Lia Bool Arith.
From ACPI Require Import Lib.Bytes Lib.Sx Lib.Machine Impl.Checksum Impl.Table Impl.Fields Impl.Run Impl.Madt
  Proofs.ChecksumP Proofs.TableP.
Import ListNotations.
Open Scope N_scope.

Lemma sx_arr_length k s b : sx_arr k s = Some b -> length b = k.
Proof.
  unfold sx_arr. destruct (sx_bytes s) as [l|]; [|discriminate].
  destruct (Nat.eqb_spec (length l) k); [|discriminate]. intros H. inversion H; subst. reflexivity.
Qed.

Lemma sx_hdr_ok sig rev o t r h : length sig = 4%nat -> sx_hdr sig rev o t r = Some h -> hdr_ok h = true.
Proof.
  intros Hs. unfold sx_hdr.
  destruct (sx_arr 6 o) as [oem|] eqn:Eo; [|discriminate]. cbn [option_bind].
  destruct (sx_arr 8 t) as [tb|] eqn:Et; [|discriminate]. cbn [option_bind].
  destruct (sx_num r); [|discriminate]. cbn [option_bind]. intros H. inversion H; subst.
  unfold hdr_ok. cbn [h_sig h_oem h_tbl]. rewrite Hs, (sx_arr_length _ _ _ Eo), (sx_arr_length _ _ _ Et). reflexivity.
Qed.

Lemma madt_new_inv c s0 : madt_new c = Some s0 -> Inv2 KMadt s0.
Proof.
  unfold madt_new. destruct c as [|l]; [discriminate|].
  destruct l as [|o [|t [|r [|lic [|x l]]]]]; try discriminate.
  destruct (sx_hdr [65; 80; 73; 67] 1 o t r) as [h|] eqn:Eh; [|discriminate]. cbn [option_bind].
  destruct (match lic with SL [] => Some 0 | SL [SA a] => Some a | _ => None end) as [addr|]; [|discriminate].
  cbn [option_bind]. intros H. inversion H; subst.
  apply tbl_new_inv2; [eapply sx_hdr_ok; [|exact Eh]; reflexivity | reflexivity].
Qed.

Lemma madt_addition_sound s o e : t_kind s = KMadt -> madt_addition s o = Some e ->
  a_claimed e = N.of_nat (length (a_bytes e)) /\
  (needs_pos (t_kind s) = true -> (1 <= length (a_bytes e))%nat /\ a_claimed e < 2 ^ 16).
Proof.
  intros Hk. unfold madt_addition.
  destruct (assert _); [|discriminate]. cbn [option_bind].
  destruct (madt_entry o); [|discriminate]. cbn [option_bind]. intros H. inversion H; subst; cbn [a_claimed a_bytes].
  split; [reflexivity|]. rewrite Hk. discriminate.
Qed.
