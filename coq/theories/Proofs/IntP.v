(* AML integer constants: round trip, narrowest form, independence of the carrying type. *)
From Coq Require Import NArith ZArith List Lia Bool Arith.
From ACPI Require Import Lib.Bytes Lib.Sx Lib.Machine Impl.AmlCore Spec.AmlCoreS.
Import ListNotations.
Open Scope N_scope.

Lemma enc_u8_spec n : n < 2 ^ 8 -> enc_u8 n = spec_int n.
Proof.
  intros H. change (2 ^ 8) with 256 in H. unfold spec_int.
  destruct (N.eqb_spec n 0) as [->|H0]; [reflexivity|].
  destruct (N.eqb_spec n 1) as [->|H1]; [reflexivity|].
  change (2 ^ 8) with 256. destruct (N.ltb_spec n 256); [|lia].
  cbn [le]. rewrite (N.mod_small n 256) by lia.
  unfold enc_u8. destruct n as [|p]; [lia|]. destruct p; try reflexivity. lia.
Qed.

Lemma enc_u16_spec n : n < 2 ^ 16 -> enc_u16 n = spec_int n.
Proof.
  intros H. change (2 ^ 16) with 65536 in H. unfold enc_u16.
  destruct (N.leb_spec n 255).
  - unfold cast, U8. change (2 ^ 8) with 256. rewrite N.mod_small by lia. apply enc_u8_spec. change (2 ^ 8) with 256. lia.
  - unfold spec_int. destruct (N.eqb_spec n 0); [lia|]. destruct (N.eqb_spec n 1); [lia|].
    change (2 ^ 8) with 256. change (2 ^ 16) with 65536.
    destruct (N.ltb_spec n 256); [lia|]. destruct (N.ltb_spec n 65536); [reflexivity|lia].
Qed.

Lemma enc_u32_spec n : n < 2 ^ 32 -> enc_u32 n = spec_int n.
Proof.
  intros H. change (2 ^ 32) with 4294967296 in H. unfold enc_u32.
  destruct (N.leb_spec n 65535).
  - unfold cast, U16. change (2 ^ 16) with 65536. rewrite N.mod_small by lia. apply enc_u16_spec. change (2 ^ 16) with 65536. lia.
  - unfold spec_int. destruct (N.eqb_spec n 0); [lia|]. destruct (N.eqb_spec n 1); [lia|].
    change (2 ^ 8) with 256. change (2 ^ 16) with 65536. change (2 ^ 32) with 4294967296.
    destruct (N.ltb_spec n 256); [lia|]. destruct (N.ltb_spec n 65536); [lia|].
    destruct (N.ltb_spec n 4294967296); [reflexivity|lia].
Qed.

Lemma enc_u64_spec n : enc_u64 n = spec_int n.
Proof.
  unfold enc_u64.
  destruct (N.leb_spec n 4294967295).
  - unfold cast, U32. change (2 ^ 32) with 4294967296. rewrite N.mod_small by lia. apply enc_u32_spec. change (2 ^ 32) with 4294967296. lia.
  - unfold spec_int. destruct (N.eqb_spec n 0); [lia|]. destruct (N.eqb_spec n 1); [lia|].
    change (2 ^ 8) with 256. change (2 ^ 16) with 65536. change (2 ^ 32) with 4294967296.
    destruct (N.ltb_spec n 256); [lia|]. destruct (N.ltb_spec n 65536); [lia|].
    destruct (N.ltb_spec n 4294967296); [lia|reflexivity].
Qed.

Lemma enc_usize_spec n : n < 2 ^ 64 -> enc_usize n = spec_int n.
Proof. intros H. unfold enc_usize, cast, U64. rewrite N.mod_small by exact H. apply enc_u64_spec. Qed.

Lemma int_decode_prefixed (w : nat) n r pfx :
  n < 2 ^ (8 * N.of_nat w) ->
  (w = 1%nat /\ pfx = 0x0A) \/ (w = 2%nat /\ pfx = 0x0B) \/ (w = 4%nat /\ pfx = 0x0C) \/ (w = 8%nat /\ pfx = 0x0E) ->
  int_decode ((pfx :: le w n) ++ r) = Some (n, r).
Proof.
  intros Hn Hw.
  assert (Hlen : Nat.ltb (length (le w n ++ r)) w = false).
  { apply Nat.ltb_ge. rewrite app_length, length_le. lia. }
  destruct Hw as [[-> ->]|[[-> ->]|[[-> ->]|[-> ->]]]]; cbn [app int_decode];
    rewrite Hlen, firstn_le_app, skipn_le_app, unle_le_small by exact Hn; reflexivity.
Qed.

Lemma int_decode_spec_int n r : n < 2 ^ 64 -> int_decode (spec_int n ++ r) = Some (n, r).
Proof.
  intros H. unfold spec_int.
  destruct (N.eqb_spec n 0) as [->|H0]; [reflexivity|].
  destruct (N.eqb_spec n 1) as [->|H1]; [reflexivity|].
  destruct (N.ltb_spec n (2 ^ 8)); [apply (int_decode_prefixed 1); [exact H2|tauto]|].
  destruct (N.ltb_spec n (2 ^ 16)); [apply (int_decode_prefixed 2); [exact H3|tauto]|].
  destruct (N.ltb_spec n (2 ^ 32)); [apply (int_decode_prefixed 4); [exact H4|tauto]|].
  apply (int_decode_prefixed 8); [exact H|tauto].
Qed.

Lemma spec_int_narrowest n : n < 2 ^ 64 -> length (spec_int n) = narrowest_len n.
Proof.
  intros H. unfold spec_int, narrowest_len.
  destruct (N.eqb_spec n 0) as [->|H0]; [reflexivity|].
  destruct (N.eqb_spec n 1) as [->|H1]; [reflexivity|].
  destruct (N.leb_spec n 1); [lia|].
  destruct (N.ltb_spec n (2 ^ 8)); [reflexivity|].
  destruct (N.ltb_spec n (2 ^ 16)); [reflexivity|].
  destruct (N.ltb_spec n (2 ^ 32)); reflexivity.
Qed.
