(* HMAT: accepted additions are self-describing entries (type u16, reserved u16, length u32) -- the walk instance for C03 --
   and the count / length fields inside the structures hold the true values or the addition is refused (C18).

   Sites (hmat.rs):
     MemoryProximityDomain        dword 4 = 40 (fixed-size packed struct)
     MemorySideCache              word 30 = smbios_handles.len() as u16     guarded by assert!(len <= u16::MAX)
                                  dword 4 = self.len() as u32 = 32 + 2 * handles (at most 131 102 once the count fits)
     SystemLocality               dword 4 = self.len() as u32               NOT guarded
                                  dword 12 = initiators.len() as u32        NOT guarded
                                  dword 16 = targets.len() as u32           NOT guarded
   FINDING (C18): the three System Locality narrowings are unguarded in the crate and in the model: a structure of 2^32 bytes
   or more (e.g. 2^30 initiators and no target) is accepted in both build profiles and its length dword (and, from 2^32
   initiators / targets on, the count dword) holds the value modulo 2^32 -- see `hmat_sysloc_not_refused` below.  All three
   fields are exact whenever the structure is shorter than 2^32 bytes (`hmat_sysloc_exact`), which is the case for every
   structure of a table image shorter than 2^32 bytes; the walk instance therefore carries that side condition
   (`walktable_fit`, Proofs/WalkFitP.v). *)
From Coq Require Import NArith ZArith List Lia Bool Arith.
From ACPI Require Import Lib.Bytes Lib.Sx Lib.Machine Impl.Checksum Impl.Table Impl.Fields Impl.Run Impl.Madt Impl.Hmat
  Spec.Layout Proofs.ChecksumP Proofs.TableP Proofs.WalkP Proofs.MadtP Proofs.Tables Proofs.HmatP Proofs.WalkFitP.
Import ListNotations.
Open Scope N_scope.

(* ---------- boundary tests ---------- *)
Definition hw_ctor : sx := SL [SL (map SA [65;66;67;68;69;70]); SL (map SA [1;2;3;4;5;6;7;8]); SA 1].
Definition hw_s0 : tbl := match hmat_new hw_ctor with Some s => s | None => tbl_new KHmat {| h_sig := []; h_rev := 0; h_oem := []; h_tbl := []; h_orev := 0 |} [] end.
Definition hw_msc (n : N) : sx := SL [SA 3; SA 5; SA 4096; SA 1; SA 1; SA 1; SA 1; SA 64; SL (repeatN (SA 7) (N.to_nat n))].
Definition hw_loc (ni nt : N) : sx := SL [SA 2; SA 1; SA 2; SA 3; SA 100; SA ni; SA nt; SL [SL [SA 3; SA 0; SA 9]]].
Definition hw_fields (o : option addition) :=
  option_map (fun e => (field_at (a_bytes e) 0 2, field_at (a_bytes e) 4 4, length (a_bytes e))) o.

Example hw_test_msc_65535 :
  forall md, option_map (fun e => (field_at (a_bytes e) 30 2, field_at (a_bytes e) 4 4, N.of_nat (length (a_bytes e))))
                        (hmat_addition md hw_s0 (hw_msc 65535)) = Some (65535, 131102, 131102).
Proof. intros []; vm_compute; reflexivity. Qed.
Example hw_test_msc_65536 :
  forall md, hmat_addition md hw_s0 (hw_msc 65536) = None /\ hmat_step md hw_s0 (hw_msc 65536) = None /\
             hmat_addition md hw_s0 (hw_msc 70000) = None.
Proof. intros []; vm_compute; auto. Qed.
Example hw_test_loc_3_2 :
  forall md, option_map (fun e => (field_at (a_bytes e) 4 4, field_at (a_bytes e) 12 4, field_at (a_bytes e) 16 4, length (a_bytes e)))
                        (hmat_addition md hw_s0 (hw_loc 3 2)) = Some (64, 3, 2, 64%nat).
Proof. intros []; vm_compute; reflexivity. Qed.
Example hw_test_prox : forall md, hw_fields (hmat_addition md hw_s0 (SL [SA 1; SA 7; SA 9])) = Some (0, 40, 40%nat).
Proof. intros []; vm_compute; reflexivity. Qed.

(* ---------- constructor ---------- *)
Lemma hmat_new_empty c s0 : hmat_new c = Some s0 -> t_ents s0 = [].
Proof.
  unfold hmat_new. intros H. break_sx H.
  destruct (sx_hdr _ _ _ _ _); [|discriminate]. cbn [option_bind] in H. apply hm_Some_inj in H. subst s0. reflexivity.
Qed.

Lemma hmat_new_shape c s0 : hmat_new c = Some s0 -> exists h, s0 = tbl_new KHmat h [].
Proof.
  unfold hmat_new. intros H. break_sx H.
  destruct (sx_hdr _ _ _ _ _) as [h|]; [|discriminate]. cbn [option_bind] in H. apply hm_Some_inj in H. subst s0. now exists h.
Qed.

(* ---------- Memory Proximity Domain ---------- *)
Lemma mem_prox_spine i m :
  ser_flds (mem_prox i m) = le 2 0 ++ le 2 0 ++ le 4 40 ++ (le 2 1 ++ le 2 0 ++ le 4 i ++ le 4 m ++ repeatN 0 20).
Proof. reflexivity. Qed.

Lemma hmat_prox_exact md s ipd mpd e : hmat_addition md s (SL [SA 1; SA ipd; SA mpd]) = Some e ->
  field_at (a_bytes e) 4 4 = 40 /\ length (a_bytes e) = 40%nat.
Proof.
  cbn [hmat_addition]. intros H. apply hm_Some_inj in H. subst e. cbn [hmat_add a_bytes].
  split; [|rewrite hm_ser_flds_length; reflexivity].
  rewrite mem_prox_spine. wf_fa_skip. apply wf_field_at_here_small. reflexivity.
Qed.

(* ---------- Memory Side Cache ---------- *)
Lemma sx_nums_length l : forall r, sx_nums l = Some r -> length r = length l.
Proof.
  induction l as [|x l IH]; intros r H; cbn [sx_nums] in H; [apply hm_Some_inj in H; subst; reflexivity|].
  destruct x as [n|]; [|discriminate]. destruct (sx_nums l) as [r'|]; [|discriminate].
  apply hm_Some_inj in H. subst r. cbn [length]. now rewrite (IH r' eq_refl).
Qed.

Lemma hmat_msc_shape md s pd size total level assoc policy line hs e :
  hmat_addition md s (SL [SA 3; SA pd; SA size; SA total; SA level; SA assoc; SA policy; SA line; SL hs]) = Some e ->
  exists handles attrs, length handles = length hs /\ hm_len handles <= 65535 /\
    a_bytes e = le 2 2 ++ le 2 0 ++ le 4 (msc_len handles) ++
                (le 4 pd ++ le 4 0 ++ le 8 size ++ le 4 attrs ++ le 2 0 ++ le 2 (hm_len handles) ++ hm_words handles).
Proof.
  cbn [hmat_addition]. intros H.
  destruct (sx_nums hs) as [handles|] eqn:Eh; [|discriminate H]. cbn [option_bind] in H.
  destruct (msc_bytes pd size _ handles) as [b|] eqn:Eb; [|discriminate H]. cbn [option_bind] in H.
  apply hm_Some_inj in H. subst e. cbn [hmat_add a_bytes].
  exists handles, (msc_attributes total level assoc policy line). split; [exact (sx_nums_length _ _ Eh)|].
  unfold msc_bytes in Eb. destruct (N.leb_spec (hm_len handles) 65535) as [Hle|]; [|discriminate Eb].
  cbn [assert option_bind] in Eb. apply hm_Some_inj in Eb. subst b. split; [exact Hle|reflexivity].
Qed.

(* C18, memory side cache: the SMBIOS handle count and the structure length are the true values *)
Lemma hmat_msc_exact md s pd size total level assoc policy line hs e :
  hmat_addition md s (SL [SA 3; SA pd; SA size; SA total; SA level; SA assoc; SA policy; SA line; SL hs]) = Some e ->
  field_at (a_bytes e) 30 2 = N.of_nat (length hs) /\
  field_at (a_bytes e) 4 4 = N.of_nat (length (a_bytes e)) /\
  N.of_nat (length (a_bytes e)) = 32 + 2 * N.of_nat (length hs).
Proof.
  intros H. destruct (hmat_msc_shape _ _ _ _ _ _ _ _ _ _ _ H) as (handles & attrs & Hlen & Hle & Hb).
  unfold hm_len in Hle. rewrite Hlen in Hle.
  assert (HL : N.of_nat (length (a_bytes e)) = 32 + 2 * N.of_nat (length hs)).
  { rewrite Hb, !app_length, !length_le, length_hm_words, Hlen. lia. }
  rewrite HL. rewrite Hb. unfold msc_len, hm_len. rewrite Hlen.
  split; [|split; [|reflexivity]].
  - wf_fa_skip. apply wf_field_at_here_small. change (2 ^ (8 * N.of_nat 2)) with 65536. lia.
  - wf_fa_skip. rewrite wf_field_at_here_small; [lia|]. change (2 ^ (8 * N.of_nat 4)) with 4294967296. lia.
Qed.

(* C18, memory side cache: more handles than the 16-bit count can hold are refused, in both build profiles *)
Lemma hmat_msc_refuses md s pd size total level assoc policy line hs : 2 ^ 16 <= N.of_nat (length hs) ->
  hmat_addition md s (SL [SA 3; SA pd; SA size; SA total; SA level; SA assoc; SA policy; SA line; SL hs]) = None.
Proof.
  intros Hbig.
  destruct (hmat_addition md s (SL [SA 3; SA pd; SA size; SA total; SA level; SA assoc; SA policy; SA line; SL hs])) as [e|] eqn:E;
    [|reflexivity]. exfalso.
  destruct (hmat_msc_shape _ _ _ _ _ _ _ _ _ _ _ E) as (handles & attrs & Hlen & Hle & _).
  unfold hm_len in Hle. rewrite Hlen in Hle. change (2 ^ 16) with 65536 in Hbig. lia.
Qed.

Corollary hmat_msc_refuses_step md s pd size total level assoc policy line hs : 2 ^ 16 <= N.of_nat (length hs) ->
  hmat_step md s (SL [SA 3; SA pd; SA size; SA total; SA level; SA assoc; SA policy; SA line; SL hs]) = None.
Proof. intros H. unfold hmat_step, add_step. rewrite (hmat_msc_refuses md s _ _ _ _ _ _ _ hs H). reflexivity. Qed.

(* ---------- System Locality ---------- *)
Lemma hm_vec_set_length l i x l' : hm_vec_set l i x = Some l' -> length l' = length l.
Proof. unfold hm_vec_set. destruct (i <? hm_len l); [|discriminate]. intros H. apply hm_Some_inj in H. subst. apply length_upd. Qed.

Definition sl_same_shape (a b : sysloc) : Prop :=
  length (sl_inits a) = length (sl_inits b) /\ length (sl_targets a) = length (sl_targets b) /\
  length (sl_entries a) = length (sl_entries b).

Lemma sysloc_builder_shape sl o sl' : sysloc_builder sl o = Some sl' -> sl_same_shape sl' sl.
Proof.
  unfold sysloc_builder, sl_same_shape. intros H. break_sx H.
  all: match type of H with
       | Some _ = Some _ => apply hm_Some_inj in H; subst; auto
       | option_map (sl_with_inits _) _ = _ =>
           destruct (hm_vec_set (sl_inits sl) _ _) as [l|] eqn:E; [|discriminate H]; cbn [option_map] in H; apply hm_Some_inj in H; subst;
           cbn [sl_with_inits sl_inits sl_targets sl_entries]; rewrite (hm_vec_set_length _ _ _ _ E); auto
       | option_map (sl_with_targets _) _ = _ =>
           destruct (hm_vec_set (sl_targets sl) _ _) as [l|] eqn:E; [|discriminate H]; cbn [option_map] in H; apply hm_Some_inj in H; subst;
           cbn [sl_with_targets sl_inits sl_targets sl_entries]; rewrite (hm_vec_set_length _ _ _ _ E); auto
       | sysloc_set_entry _ _ _ _ = _ =>
           unfold sysloc_set_entry in H; destruct (assert _); [|discriminate H]; cbn [option_bind] in H;
           destruct (hm_vec_set (sl_entries sl) _ _) as [l|] eqn:E; [|discriminate H]; cbn [option_bind] in H; apply hm_Some_inj in H; subst;
           cbn [sl_with_entries sl_inits sl_targets sl_entries]; rewrite (hm_vec_set_length _ _ _ _ E); auto
       end.
Qed.

Lemma sysloc_builders_shape bs : forall sl sl', sysloc_builders sl bs = Some sl' -> sl_same_shape sl' sl.
Proof.
  induction bs as [|o bs IH]; intros sl sl' H; cbn [sysloc_builders] in H.
  - apply hm_Some_inj in H. subst. unfold sl_same_shape. auto.
  - destruct (sysloc_builder sl o) as [sl1|] eqn:E; [|discriminate].
    destruct (IH _ _ H) as (A & B & C). destruct (sysloc_builder_shape _ _ _ E) as (A1 & B1 & C1).
    unfold sl_same_shape. repeat split; congruence.
Qed.

(* what an accepted add_system_locality serialises: the vectors have the sizes given to `new` (entries: the usize product) *)
Lemma hmat_sysloc_shape md s lt dt mts unit ni nt bs e :
  hmat_addition md s (SL [SA 2; SA lt; SA dt; SA mts; SA unit; SA ni; SA nt; SL bs]) = Some e ->
  exists sl cnt, mul_m md U64 ni nt = Some cnt /\
    hm_len (sl_inits sl) = ni /\ hm_len (sl_targets sl) = nt /\ hm_len (sl_entries sl) = cnt /\
    a_claimed e = sysloc_len sl /\ a_bytes e = sysloc_bytes sl /\ sysloc_len sl < 2 ^ 32.
Proof.
  cbn [hmat_addition]. intros H.
  destruct (sysloc_new md lt dt mts unit ni nt) as [sl0|] eqn:E0; [|discriminate H]. cbn [option_bind] in H.
  destruct (sysloc_builders sl0 bs) as [sl|] eqn:E1; [|discriminate H]. cbn [option_bind] in H.
  destruct (N.ltb_spec (sysloc_len sl) U32) as [Hl32|_]; [|discriminate H]. cbn [assert option_bind] in H.
  apply hm_Some_inj in H. subst e. cbn [hmat_add a_bytes a_claimed].
  unfold sysloc_new in E0. destruct (mul_m md U64 ni nt) as [cnt|] eqn:Em; [|discriminate E0]. cbn [option_bind] in E0.
  apply hm_Some_inj in E0. destruct (sysloc_builders_shape _ _ _ E1) as (A & B & C). subst sl0.
  cbn [sl_inits sl_targets sl_entries] in A, B, C. rewrite length_repeatN in A, B, C.
  exists sl, cnt. unfold hm_len. rewrite A, B, C, !N2Nat.id. repeat split; try reflexivity. exact Hl32.
Qed.

Lemma sysloc_spine sl :
  sysloc_bytes sl = le 2 1 ++ le 2 0 ++ le 4 (sysloc_len sl) ++
    (le 1 (sl_flags sl) ++ le 1 (sl_dt sl) ++ le 1 (sl_mts sl) ++ le 1 0 ++ le 4 (hm_len (sl_inits sl)) ++ le 4 (hm_len (sl_targets sl)) ++
     le 4 0 ++ le 8 (sl_unit sl) ++ hm_dwords (sl_inits sl) ++ hm_dwords (sl_targets sl) ++ hm_words (sl_entries sl)).
Proof. reflexivity. Qed.

(* C18, system locality: for a structure shorter than 2^32 bytes the length dword, the initiator count and the target
   count are the true values, and the matrix has ni * nt cells (the usize product did not wrap) *)
Lemma hmat_sysloc_exact md s lt dt mts unit ni nt bs e :
  hmat_addition md s (SL [SA 2; SA lt; SA dt; SA mts; SA unit; SA ni; SA nt; SL bs]) = Some e ->
  N.of_nat (length (a_bytes e)) < 2 ^ 32 ->
  field_at (a_bytes e) 4 4 = N.of_nat (length (a_bytes e)) /\
  field_at (a_bytes e) 12 4 = ni /\
  field_at (a_bytes e) 16 4 = nt /\
  N.of_nat (length (a_bytes e)) = 32 + 4 * ni + 4 * nt + 2 * (ni * nt).
Proof.
  intros H Hfit. destruct (hmat_sysloc_shape _ _ _ _ _ _ _ _ _ _ H) as (sl & cnt & Hm & Hi & Ht & He & _ & Hb & Hl32).
  rewrite Hb in *. rewrite <- (sysloc_bytes_length sl) in *.
  assert (Hlen : sysloc_len sl = 32 + 4 * ni + 4 * nt + 2 * cnt) by (unfold sysloc_len; rewrite Hi, Ht, He; lia).
  change (2 ^ 32) with 4294967296 in Hfit.
  assert (Hc : cnt = ni * nt).
  { unfold mul_m in Hm. destruct (N.ltb_spec (ni * nt) U64) as [_|Hge]; [now apply hm_Some_inj in Hm|]. exfalso.
    assert (ni * nt < 2 ^ 30 * 2 ^ 30) by (apply N.mul_lt_mono; lia).
    unfold U64 in Hge. change (2 ^ 30 * 2 ^ 30) with 1152921504606846976 in *. change (2 ^ 64) with 18446744073709551616 in *. lia. }
  rewrite sysloc_spine, Hi, Ht.
  split; [|split; [|split; [|rewrite Hlen, Hc; reflexivity]]].
  - wf_fa_skip. apply wf_field_at_here_small. change (2 ^ (8 * N.of_nat 4)) with 4294967296. exact Hfit.
  - wf_fa_skip. apply wf_field_at_here_small. change (2 ^ (8 * N.of_nat 4)) with 4294967296. lia.
  - wf_fa_skip. apply wf_field_at_here_small. change (2 ^ (8 * N.of_nat 4)) with 4294967296. lia.
Qed.

(* the usize product of SystemLocality::new: refused in the debug profile when it does not fit (the model's only refusal here) *)
Lemma hmat_sysloc_product_refuses s lt dt mts unit ni nt bs : 2 ^ 64 <= ni * nt ->
  hmat_addition Checked s (SL [SA 2; SA lt; SA dt; SA mts; SA unit; SA ni; SA nt; SL bs]) = None.
Proof.
  intros Hbig. cbn [hmat_addition]. unfold sysloc_new, mul_m.
  destruct (N.ltb_spec (ni * nt) U64) as [Hlt|_]; [unfold U64 in Hlt; lia|]. reflexivity.
Qed.

(* The System Locality length and count narrowings are guarded (assert!(self.len() <= u32::MAX) in the serialiser, added by the
   repair 2e6aec4; before it the structure was accepted in both profiles and its length / initiator-count dwords held the true
   values modulo 2^32): a structure of 2^32 bytes or more is refused in both profiles *)
Lemma hmat_sysloc_refuses md s lt dt mts unit ni nt bs :
  ni * nt < 2 ^ 64 -> 2 ^ 32 <= 32 + 4 * ni + 4 * nt + 2 * (ni * nt) ->
  hmat_addition md s (SL [SA 2; SA lt; SA dt; SA mts; SA unit; SA ni; SA nt; SL bs]) = None.
Proof.
  intros Hp Hbig.
  destruct (hmat_addition md s (SL [SA 2; SA lt; SA dt; SA mts; SA unit; SA ni; SA nt; SL bs])) as [e|] eqn:E; [|reflexivity].
  exfalso. destruct (hmat_sysloc_shape _ _ _ _ _ _ _ _ _ _ E) as (sl & cnt & Hm & Hi & Ht & He & _ & _ & Hl32).
  assert (Hc : cnt = ni * nt).
  { unfold mul_m in Hm. destruct (N.ltb_spec (ni * nt) U64) as [_|Hge]; [now apply hm_Some_inj in Hm|].
    unfold U64 in Hge. lia. }
  unfold sysloc_len in Hl32. rewrite Hi, Ht, He, Hc in Hl32. lia.
Qed.

Lemma hmat_sysloc_refuses_step md md' s lt dt mts unit ni nt bs :
  ni * nt < 2 ^ 64 -> 2 ^ 32 <= 32 + 4 * ni + 4 * nt + 2 * (ni * nt) ->
  add_step (hmat_addition md) md' s (SL [SA 2; SA lt; SA dt; SA mts; SA unit; SA ni; SA nt; SL bs]) = None.
Proof. intros Hp Hbig. unfold add_step. rewrite (hmat_sysloc_refuses md s lt dt mts unit ni nt bs Hp Hbig). reflexivity. Qed.

(* ---------- the walk instance ---------- *)
Lemma hmat_addition_self md s o e : hmat_addition md s o = Some e -> N.of_nat (length (a_bytes e)) < 2 ^ 32 ->
  exists ty, self_describing H_u16_u16_u32 (a_bytes e) ty.
Proof.
  intros H Hfit. pose proof H as H0. unfold hmat_addition in H0. break_sx H0; clear H0.
  all: match type of H with
       | hmat_addition _ _ (SL (SA 1 :: _)) = _ => (* memory proximity domain *)
           exists 0; cbn [hmat_addition] in H; apply hm_Some_inj in H; subst e; cbn [hmat_add a_bytes]; rewrite mem_prox_spine;
           apply wf_sd_u16_u16_u32; reflexivity
       | hmat_addition _ _ (SL (SA 2 :: _)) = _ => (* system locality *)
           exists 1; destruct (hmat_sysloc_shape _ _ _ _ _ _ _ _ _ _ H) as (sl & cnt & _ & _ & _ & _ & _ & Hb & Hl32);
           rewrite Hb in *; pose proof (sysloc_bytes_length sl) as HL; rewrite sysloc_spine in *;
           apply wf_sd_u16_u16_u32; [reflexivity|rewrite HL; exact Hfit|];
           rewrite HL, Nat2N.id; rewrite !app_length, !length_le; reflexivity
       | hmat_addition _ _ (SL (SA 3 :: _)) = _ => (* memory side cache *)
           exists 2; destruct (hmat_msc_shape _ _ _ _ _ _ _ _ _ _ _ H) as (handles & attrs & Hlen & Hle & Hb); rewrite Hb;
           apply wf_sd_u16_u16_u32; [reflexivity|unfold msc_len; change (2 ^ 32) with 4294967296; lia|];
           unfold msc_len, hm_len; rewrite !app_length, !length_le, length_hm_words; lia
       end.
Qed.

(* since the repair 2e6aec4 every accepted HMAT structure is shorter than 2^32 bytes, so the instance is unconditional *)
Lemma hmat_addition_fits md s o e : hmat_addition md s o = Some e -> N.of_nat (length (a_bytes e)) < 2 ^ 32.
Proof.
  intros H. pose proof H as H0. unfold hmat_addition in H0. break_sx H0; clear H0.
  all: match type of H with
       | hmat_addition _ _ (SL (SA 1 :: _)) = _ =>
           cbn [hmat_addition] in H; apply hm_Some_inj in H; subst e; cbn [hmat_add a_bytes]; rewrite mem_prox_spine;
           rewrite !app_length, !length_le, length_repeatN; cbn; change (2 ^ 32) with 4294967296; lia
       | hmat_addition _ _ (SL (SA 2 :: _)) = _ =>
           destruct (hmat_sysloc_shape _ _ _ _ _ _ _ _ _ _ H) as (sl & cnt & _ & _ & _ & _ & _ & Hb & Hl32);
           rewrite Hb, <- (sysloc_bytes_length sl); exact Hl32
       | hmat_addition _ _ (SL (SA 3 :: _)) = _ =>
           destruct (hmat_msc_shape _ _ _ _ _ _ _ _ _ _ _ H) as (handles & attrs & Hlen & Hle & Hb); rewrite Hb;
           unfold hm_len in Hle; rewrite !app_length, !length_le, length_hm_words; change (2 ^ 32) with 4294967296; lia
       end.
Qed.

Lemma hmat_addition_self' md s o e : hmat_addition md s o = Some e -> exists ty, self_describing H_u16_u16_u32 (a_bytes e) ty.
Proof. intros H. exact (hmat_addition_self md s o e H (hmat_addition_fits md s o e H)). Qed.

Definition hmat_walk (md : mode) : walktable :=
  {| wt_table := hmat_table md; wt_ehdr := H_u16_u16_u32; wt_self := hmat_addition_self' md; wt_new_empty := hmat_new_empty |}.

Definition hmat_walk_fit (md : mode) : walktable_fit :=
  {| wf_table := hmat_table md; wf_ehdr := H_u16_u16_u32; wf_self := hmat_addition_self md; wf_new_empty := hmat_new_empty |}.

(* C18 for every HMAT addition shorter than 2^32 bytes: the length dword is the number of bytes the structure occupies *)
Lemma hmat_length_exact md s o e : hmat_addition md s o = Some e -> N.of_nat (length (a_bytes e)) < 2 ^ 32 ->
  field_at (a_bytes e) 4 4 = N.of_nat (length (a_bytes e)).
Proof.
  intros H Hfit. destruct (hmat_addition_self md s o e H Hfit) as [ty Hty].
  exact (proj1 (self_describing_u16_u16_u32_len _ _ Hty)).
Qed.

(* C03 for the HMAT, both build profiles: same statement as the registry theorem `c03_tables` *)
Theorem hmat_tiles md md' c ops s0 s :
  hmat_new c = Some s0 -> run_adds (hmat_addition md) md' s0 ops = Some s -> N.of_nat (length (tbl_image s)) < 2 ^ 32 ->
  exists tys,
    Forall2 (self_describing H_u16_u16_u32) (t_ents s) tys /\
    walk (length (t_ents s)) H_u16_u16_u32 40 (skipn 40 (tbl_image s)) = Some (walk_result 40 (t_ents s) tys) /\
    concat (t_ents s) = skipn 40 (tbl_image s) /\
    t_cnt s = N.of_nat (length (t_ents s)).
Proof.
  intros Hn Hr Hfit. pose proof (walktable_fit_tiles (hmat_walk_fit md) md' c ops s0 s Hn Hr Hfit) as H. cbv zeta in H.
  destruct (addtable_reach (hmat_table md) md' c ops s0 s Hn Hr Hfit) as (_ & Hk & _). cbn [at_kind hmat_table] in Hk.
  rewrite Hk in H. cbn [mid length Nat.add d4 le] in H. exact H.
Qed.

Print Assumptions hmat_addition_self.
Print Assumptions hmat_new_empty.
Print Assumptions hmat_prox_exact.
Print Assumptions hmat_msc_exact.
Print Assumptions hmat_msc_refuses.
Print Assumptions hmat_msc_refuses_step.
Print Assumptions hmat_sysloc_exact.
Print Assumptions hmat_sysloc_product_refuses.
Print Assumptions hmat_sysloc_refuses.
Print Assumptions hmat_length_exact.
Print Assumptions hmat_tiles.
Print Assumptions hmat_addition_fits.
