(* MCFG: the Impl model refines the Spec (property C04 as a theorem): for every constructor argument and every finite history
   in the specification's domain, in both build modes, the model accepts the history and its image is the reference image. *)
From Coq Require Import NArith ZArith List Lia Bool Arith.
From ACPI Require Import Lib.Bytes Lib.Sx Lib.Machine Impl.Checksum Impl.Table Impl.Fields Impl.Run Impl.Madt Impl.Mcfg
  Spec.Layout Spec.MadtS Spec.McfgS Proofs.ChecksumP Proofs.TableP Proofs.MadtP Proofs.Tables Proofs.McfgP Proofs.RefCommonP.
Import ListNotations.
Open Scope N_scope.

(* the packed EcamEntry is the reference allocation structure, for all argument values *)
Theorem mcfg_entries_are_reference s o b : mcfg_entry_ref o = Some b ->
  exists e, mcfg_addition s o = Some e /\ a_bytes e = b /\ a_flag e = t_flag s /\ a_returns e = false.
Proof.
  intros H. unfold mcfg_entry_ref in H. repeat dvar H.
  eexists. split; [reflexivity|]. cbn [a_bytes a_flag a_returns]. split; [|split; reflexivity].
  match goal with |- ?x = ?y => cut (Some x = Some y); [let E := fresh in intros E; injection E; auto | rewrite <- H; reflexivity] end.
Qed.

Lemma mcfg_eref_atom n : mcfg_entry_ref (SA n) = None.
Proof. reflexivity. Qed.

Lemma mcfg_step_ok s o rest b : t_kind s = KMcfg -> ok_any (t_flag s) (o :: rest) -> mcfg_entry_ref o = Some b ->
  exists e, mcfg_addition s o = Some e /\ a_bytes e = b /\ ok_any (a_flag e) rest.
Proof.
  intros _ _ H. destruct (mcfg_entries_are_reference s o b H) as (e & He & Hb & _). exists e. repeat split; assumption.
Qed.

Theorem mcfg_refines : forall md ctor ops r,
  ts_image mcfg_spec ctor ops = Some r ->
  N.of_nat (length r) < 2 ^ 32 ->
  exists s0 s, mcfg_new ctor = Some s0 /\ run_adds mcfg_addition md s0 ops = Some s /\ tbl_image s = r.
Proof.
  intros md ctor ops r Himg Hfit. cbn [ts_image mcfg_spec] in Himg. unfold mcfg_image in Himg.
  destruct ctor as [n|[|o [|t [|rv [|x l]]]]]; try discriminate Himg.
  destruct (sx_hdr_args o t rv) as [ha|] eqn:Eha; [|discriminate Himg].
  destruct (mcfg_entries_ref ops) as [es|] eqn:Ees; [|discriminate Himg].
  inversion Himg; subst r; clear Himg.
  pose (s0 := tbl_new KMcfg (mk_hdr [77; 67; 70; 71] 1 ha) []).
  assert (Hnew : mcfg_new (SL [o; t; rv]) = Some s0).
  { unfold mcfg_new. rewrite (sx_hdr_of_args _ _ _ _ _ _ Eha). reflexivity. }
  destruct (sim_image KMcfg eq_refl mcfg_addition mcfg_addition_sound mcfg_entry_ref mcfg_eref_atom ok_any mcfg_step_ok
              md s0 ops es [77; 67; 70; 71] 1 ha (le 8 0)) as (s & Hr & Hi);
    try reflexivity; try exact Logic.I; try exact Ees; try exact Hfit.
  - exact (mcfg_new_inv _ _ Hnew).
  - exists s0, s. auto.
Qed.

Lemma mcfg_no_handle s o e : mcfg_addition s o = Some e -> a_returns e = false.
Proof.
  unfold mcfg_addition. intros H. repeat dvar H. inversion H; subst. reflexivity.
Qed.

(* at the entry point: one EvNum 0 per operation, then the reference image *)
Theorem mcfg_case_refines : forall md ctor ops r,
  ts_image mcfg_spec ctor ops = Some r -> N.of_nat (length r) < 2 ^ 32 ->
  mcfg_case md (SL (ctor :: ops ++ [SA 1])) = map (fun _ => EvNum 0) ops ++ [EvBytes r].
Proof.
  intros md ctor ops r Himg Hfit.
  destruct (mcfg_refines md ctor ops r Himg Hfit) as (s0 & s & Hn & Hr & Hi).
  unfold mcfg_case, mcfg_step. rewrite <- Hi.
  apply (run_history_adds mcfg_addition mcfg_no_handle md mcfg_new ctor ops s0 s Hn); [|exact Hr].
  cbn [ts_image mcfg_spec] in Himg. unfold mcfg_image in Himg.
  destruct ctor as [n|[|o [|t [|rv [|x l]]]]]; try discriminate Himg.
  destruct (sx_hdr_args o t rv); [|discriminate Himg].
  destruct (mcfg_entries_ref ops) as [es|] eqn:Ees; [|discriminate Himg].
  exact (eref_ops_SL mcfg_entry_ref mcfg_eref_atom ops es Ees).
Qed.

Print Assumptions mcfg_entries_are_reference.
Print Assumptions mcfg_refines.
Print Assumptions mcfg_case_refines.
