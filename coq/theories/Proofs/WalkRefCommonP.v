(* C03 on the reference images, generic part.
   The Spec walker (`walk`), started at a table's first-entry offset on a reference image
   `ref_table sig rev hdr (fixed ++ concat entries)` whose entries are self-describing, finds exactly the entries
   (type codes, offsets, lengths, in order) and lands on the end of the table; hence the run-time judgement `c03_judge`
   holds of the reference image.  Depends on the Spec layer and Proofs/WalkP.v only (nothing from the Impl model).
   Used by MadtWalkRefP / SratWalkRefP / McfgWalkRefP / XsdtWalkRefP. *)
From Coq Require Import NArith ZArith List Lia Bool Arith.
From ACPI Require Import Lib.Bytes Lib.Sx Spec.Layout Spec.MadtS Proofs.WalkP.
Import ListNotations.
Open Scope N_scope.

Lemma wr_Some_inj {A} (x y : A) : Some x = Some y -> x = y.
Proof. intros H. injection H. auto. Qed.

(* ---------- the reference table: where the body starts ---------- *)
Lemma sx_hdr_args_lengths o t r h : sx_hdr_args o t r = Some h -> length (ha_oem h) = 6%nat /\ length (ha_tbl h) = 8%nat.
Proof.
  unfold sx_hdr_args. destruct (sx_bytes o) as [a|]; [|discriminate]. destruct (sx_bytes t) as [b|]; [|discriminate].
  destruct (sx_num r) as [c|]; [|discriminate].
  destruct (Nat.eqb_spec (length a) 6); [|discriminate]. destruct (Nat.eqb_spec (length b) 8); [|discriminate].
  cbn [andb]. intros H. apply wr_Some_inj in H. subst h. cbn [ha_oem ha_tbl]. auto.
Qed.

Lemma length_ref_header sig len rev cks oem tbl orev :
  length sig = 4%nat -> length oem = 6%nat -> length tbl = 8%nat ->
  length (ref_header sig len rev cks oem tbl orev) = 36%nat.
Proof.
  intros Hs Ho Ht. unfold ref_header, CREATOR. rewrite !app_length, !length_le, Hs, Ho, Ht. reflexivity.
Qed.

Lemma length_ref_table_gen sig rev h rest :
  length sig = 4%nat -> length (ha_oem h) = 6%nat -> length (ha_tbl h) = 8%nat ->
  length (ref_table sig rev h rest) = (36 + length rest)%nat.
Proof.
  intros Hs Ho Ht. unfold ref_table. rewrite app_length, (length_ref_header _ _ _ _ _ _ _ Hs Ho Ht). reflexivity.
Qed.

(* header (36 bytes) and fixed part skipped: what remains is the body *)
Lemma skipn_ref_table sig rev h fx body first :
  length sig = 4%nat -> length (ha_oem h) = 6%nat -> length (ha_tbl h) = 8%nat ->
  first = (36 + length fx)%nat ->
  skipn first (ref_table sig rev h (fx ++ body)) = body.
Proof.
  intros Hs Ho Ht Hf. unfold ref_table.
  set (hd := ref_header sig _ rev _ (ha_oem h) (ha_tbl h) (ha_orev h)).
  assert (Hl : length hd = 36%nat) by (apply length_ref_header; assumption).
  clearbody hd. rewrite app_assoc.
  replace first with (length (hd ++ fx)) by (rewrite app_length; lia).
  apply skipn_app_exact.
Qed.

(* ---------- entries ---------- *)
Lemma Forall2_self_pos h es tys : Forall2 (self_describing h) es tys -> (length es <= length (concat es))%nat.
Proof.
  induction 1 as [|e t es tys [Hp _] _ IH]; [reflexivity|]. cbn [concat length]. rewrite app_length. lia.
Qed.

(* the walk's result against the expected (type, length) list *)
Lemma walk_result_matches : forall es tys off, length es = length tys ->
  forallb (fun p : (N * nat * nat) * (N * nat) => match p with ((ty, _, len), (ety, elen)) => (ty =? ety) && Nat.eqb len elen end)
          (combine (walk_result off es tys) (map (fun p => (fst p, length (snd p))) (combine tys es))) = true.
Proof.
  induction es as [|e es IH]; intros [|t tys] off Hl; cbn [length] in Hl; try discriminate; [reflexivity|].
  cbn [walk_result combine map fst snd forallb]. rewrite N.eqb_refl, Nat.eqb_refl. cbn [andb].
  apply IH. lia.
Qed.

Lemma length_expected {A B} (tys : list A) (es : list (list B)) : length es = length tys ->
  length (map (fun p => (fst p, length (snd p))) (combine tys es)) = length es.
Proof. intros H. rewrite map_length, combine_length. lia. Qed.

(* the generic statement: a body tiled by self-describing entries is judged true *)
Lemma c03_judge_of_entries ts ctor ops r first h expected es tys :
  ts_walk ts = Some (first, h) -> ts_entries ts ctor ops = Some expected ->
  skipn first r = concat es -> Forall2 (self_describing h) es tys ->
  expected = map (fun p => (fst p, length (snd p))) (combine tys es) ->
  forallb (fun f : nat * nat * N => match f with (o, w, v) => field_at r o w =? v end) (ts_counts ts (length expected)) = true ->
  c03_judge ts ctor r ops = true.
Proof.
  intros Hw He Hsk HF Hexp Hcnt. unfold c03_judge. rewrite Hw, He, Hsk.
  assert (Hlen : length es = length tys).
  { clear - HF. induction HF; cbn [length]; congruence. }
  assert (Hfuel : (length es <= S (length r))%nat).
  { pose proof (Forall2_self_pos h es tys HF) as H1. rewrite <- Hsk, skipn_length in H1. lia. }
  rewrite (walk_concat h es tys first (S (length r)) HF Hfuel).
  rewrite Hcnt, andb_true_r. subst expected.
  rewrite (walk_result_length first es tys Hlen), (length_expected tys es Hlen), Nat.eqb_refl. cbn [andb].
  apply walk_result_matches. exact Hlen.
Qed.

(* ---------- reference bodies built operation by operation ---------- *)
Section PerOp.
  Variable h : ehdr.
  Variable eref : sx -> option (list N).
  Variable tyf : list N -> N.          (* the type code the walk must report for a reference entry *)
  Hypothesis eref_self : forall o b, eref o = Some b -> self_describing h b (tyf b).

  Lemma opt_concat_self : forall ops es, opt_concat (map eref ops) = Some es ->
    Forall2 (self_describing h) es (map tyf es).
  Proof.
    induction ops as [|o ops IH]; intros es H; cbn [map opt_concat] in H.
    - apply wr_Some_inj in H. subst es. constructor.
    - destruct (eref o) as [b|] eqn:Eb; [|discriminate].
      destruct (opt_concat (map eref ops)) as [es'|]; [|discriminate].
      apply wr_Some_inj in H. subst es. cbn [map]. constructor; [exact (eref_self o b Eb)|]. apply IH. reflexivity.
  Qed.

  Lemma expected_of_tyf (es : list (list N)) :
    map (fun e => (tyf e, length e)) es = map (fun p => (fst p, length (snd p))) (combine (map tyf es) es).
  Proof. induction es as [|e es IH]; [reflexivity|]. cbn [map combine fst snd]. now rewrite IH. Qed.

  (* the reference image of a history, judged *)
  Lemma c03_judge_ref ts ctor ops r first sig rev ha fx es :
    ts_walk ts = Some (first, h) ->
    ts_entries ts ctor ops = Some (map (fun e => (tyf e, length e)) es) ->
    (forall n, ts_counts ts n = []) ->
    opt_concat (map eref ops) = Some es ->
    r = ref_table sig rev ha (fx ++ concat es) ->
    length sig = 4%nat -> length (ha_oem ha) = 6%nat -> length (ha_tbl ha) = 8%nat ->
    first = (36 + length fx)%nat ->
    c03_judge ts ctor r ops = true.
  Proof.
    intros Hw He Hc Hes Hr Hs Ho Ht Hf.
    apply (c03_judge_of_entries ts ctor ops r first h _ es (map tyf es) Hw He).
    - subst r. apply skipn_ref_table; assumption.
    - exact (opt_concat_self ops es Hes).
    - apply expected_of_tyf.
    - rewrite Hc. reflexivity.
  Qed.
End PerOp.

(* ---------- how a checked layout describes itself ---------- *)
Lemma wr_lay_some size l b : lay size l = Some b -> b = assemble l /\ length b = size.
Proof.
  intros H. split; [|exact (proj1 (lay_decodes size l b H))].
  unfold lay in H. destruct (_ && _); [|discriminate]. apply wr_Some_inj in H. now subst b.
Qed.

(* header (type u8, length u8): a layout that starts with a one-byte type and a one-byte length equal to the size *)
Lemma lay_u8_u8_self size ty len rest b :
  lay size (L 0 1 ty :: L 1 1 len :: rest) = Some b -> N.to_nat (len mod 256) = size -> (1 <= size)%nat ->
  self_describing H_u8_u8 b (nth 0 b 0).
Proof.
  intros H Hlen Hpos. destruct (wr_lay_some _ _ _ H) as [Hb Hl]. unfold L in Hb. rewrite !assemble_cons in Hb.
  cbn [le app] in Hb. split; [lia|]. intros tail. subst b. cbn [nth app read_ehdr].
  rewrite Hlen, <- Hl. reflexivity.
Qed.

(* fixed-size entries *)
Lemma lay_fixed_self size l b : lay size l = Some b -> (1 <= size)%nat -> self_describing (H_fixed size) b 0.
Proof.
  intros H Hpos. destruct (wr_lay_some _ _ _ H) as [_ Hl]. split; [lia|]. intros tail.
  destruct b as [|x b']; [cbn [length] in Hl; lia|]. cbn [app read_ehdr]. rewrite Hl. reflexivity.
Qed.

(* ---------- where the k-th walked entry starts (for the handle property C05 of tables that return handles) ---------- *)
(* the k-th element of the walk's result is the k-th entry: its type code, its length, and as offset the first-entry
   offset plus the total size of the entries before it *)
Lemma walk_result_nth : forall es tys off k e t,
  nth_error es k = Some e -> nth_error tys k = Some t ->
  nth_error (walk_result off es tys) k = Some (t, (off + length (concat (firstn k es)))%nat, length e).
Proof.
  induction es as [|e0 es IH]; intros [|t0 tys] off k e t He Ht; destruct k as [|k]; cbn [nth_error] in *; try discriminate.
  - apply wr_Some_inj in He. apply wr_Some_inj in Ht. subst. cbn [walk_result nth_error firstn concat length].
    rewrite Nat.add_0_r. reflexivity.
  - cbn [walk_result nth_error firstn concat]. rewrite (IH tys (length e0 + off)%nat k e t He Ht), app_length.
    do 2 f_equal. f_equal. lia.
Qed.
