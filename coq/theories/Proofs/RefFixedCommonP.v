(* Lemmas shared by the refinement theorems (model image = reference image) of the fixed-layout tables:
   - an image made of the standard header and a body whose Length field is right and whose bytes sum to 0 IS the reference
     table (the checksum byte is determined by the other bytes);
   - the constructor decoders of the two sides agree;
   - packed field lists against offset-indexed layouts;
   - histories of a step function (run_steps) over appended operation lists. *)
From Coq Require Import NArith ZArith List Lia Bool Arith.
From ACPI Require Import Lib.Bytes Lib.Sx Lib.Machine Impl.Checksum Impl.Table Impl.Fields Impl.Run Impl.Madt
  Spec.Layout Spec.FixedS Proofs.ChecksumP Proofs.TableP Proofs.MadtP Proofs.FixedP.
Import ListNotations.

Ltac Zify.zify_post_hook ::= Z.to_euclidean_division_equations.

Open Scope N_scope.

(* ---------- the reference table is determined by its header fields, its body and a zero byte sum ---------- *)

Lemma sumN_ref_header sig len rev c oem tbl orev :
  sumN (ref_header sig len rev c oem tbl orev) = sumN (ref_header sig len rev 0 oem tbl orev) + c mod 256.
Proof.
  unfold ref_header. rewrite !sumN_app. cbn [sumN]. change (0 mod 256) with 0.
  generalize (sumN sig) (sumN (le 4 len)) (sumN oem) (sumN tbl) (sumN (le 4 orev)) (sumN CREATOR) (rev mod 256) (c mod 256).
  intros. lia.
Qed.

Lemma ref_header_cks_mod sig len rev c oem tbl orev :
  ref_header sig len rev (c mod 256) oem tbl orev = ref_header sig len rev c oem tbl orev.
Proof. unfold ref_header. rewrite N.mod_mod by lia. reflexivity. Qed.

(* the key uniqueness lemma *)
Lemma ref_table_unique sig rev h rest len c :
  len = 36 + N.of_nat (length rest) ->
  sum8 (ref_header sig len rev c (ha_oem h) (ha_tbl h) (ha_orev h) ++ rest) = 0 ->
  ref_header sig len rev c (ha_oem h) (ha_tbl h) (ha_orev h) ++ rest = ref_table sig rev h rest.
Proof.
  intros -> Hs. unfold ref_table. cbv zeta.
  set (len := 36 + N.of_nat (length rest)) in *.
  f_equal.
  rewrite <- (ref_header_cks_mod sig len rev c).
  rewrite <- (ref_header_cks_mod sig len rev ((256 - _) mod 256)).
  f_equal.
  unfold sum8 in Hs. rewrite sumN_app, sumN_ref_header in Hs.
  generalize dependent (sumN (ref_header sig len rev 0 (ha_oem h) (ha_tbl h) (ha_orev h))).
  generalize (sumN rest). intros a b Hs.
  assert (Hc : c mod 256 < 256) by (apply N.mod_lt; lia).
  generalize dependent (c mod 256). intros d Hs Hd.
  rewrite N.mod_mod by lia.
  lia.
Qed.

(* the model's header bytes are the reference header *)
Lemma hdr_bytes_ref h len cks :
  hdr_bytes h len cks = ref_header (h_sig h) len (h_rev h) cks (h_oem h) (h_tbl h) (h_orev h).
Proof. unfold hdr_bytes, ref_header, d4, b1, CREATOR, CREATOR_ID, CREATOR_REVISION. cbn [le]. reflexivity. Qed.

Definition hargs_of (h : hdr) : hdr_args := {| ha_oem := h_oem h; ha_tbl := h_tbl h; ha_orev := h_orev h |}.

(* the form in which the fixed tables use it *)
Lemma hdr_image_is_ref h len cks rest :
  len = 36 + N.of_nat (length rest) ->
  sum8 (hdr_bytes h len cks ++ rest) = 0 ->
  hdr_bytes h len cks ++ rest = ref_table (h_sig h) (h_rev h) (hargs_of h) rest.
Proof.
  intros Hl Hs. rewrite hdr_bytes_ref in *.
  apply (ref_table_unique (h_sig h) (h_rev h) (hargs_of h) rest len cks Hl Hs).
Qed.

(* ---------- the two constructor decoders agree ---------- *)

Lemma sx_hdr_args_inv o t r ha : sx_hdr_args o t r = Some ha ->
  sx_bytes o = Some (ha_oem ha) /\ sx_bytes t = Some (ha_tbl ha) /\ sx_num r = Some (ha_orev ha) /\
  length (ha_oem ha) = 6%nat /\ length (ha_tbl ha) = 8%nat.
Proof.
  unfold sx_hdr_args.
  destruct (sx_bytes o) as [a|]; [|discriminate]. destruct (sx_bytes t) as [b|]; [|discriminate].
  destruct (sx_num r) as [c|]; [|discriminate].
  destruct (Nat.eqb (length a) 6) eqn:Ea; [|discriminate]. destruct (Nat.eqb (length b) 8) eqn:Eb; [|discriminate].
  cbn [andb]. intros [= <-]. cbn [ha_oem ha_tbl ha_orev].
  apply Nat.eqb_eq in Ea. apply Nat.eqb_eq in Eb. repeat split; assumption.
Qed.

Lemma sx_arr_of_bytes k s b : sx_bytes s = Some b -> length b = k -> sx_arr k s = Some b.
Proof. intros Hb Hl. unfold sx_arr. rewrite Hb, Hl, Nat.eqb_refl. reflexivity. Qed.

Lemma sx_hdr_of_args sig rev o t r ha : sx_hdr_args o t r = Some ha ->
  sx_hdr sig rev o t r =
  Some {| h_sig := sig; h_rev := rev; h_oem := ha_oem ha; h_tbl := ha_tbl ha; h_orev := ha_orev ha |}.
Proof.
  intros H. destruct (sx_hdr_args_inv _ _ _ _ H) as (Ho & Ht & Hr & Lo & Lt).
  unfold sx_hdr. rewrite (sx_arr_of_bytes 6 o _ Ho Lo), (sx_arr_of_bytes 8 t _ Ht Lt), Hr. reflexivity.
Qed.

Lemma hargs_of_mk sig rev ha :
  hargs_of {| h_sig := sig; h_rev := rev; h_oem := ha_oem ha; h_tbl := ha_tbl ha; h_orev := ha_orev ha |} = ha.
Proof. destruct ha. reflexivity. Qed.

(* ---------- packed field lists and layouts ---------- *)

Lemma ser_flds_app a b : ser_flds (a ++ b) = ser_flds a ++ ser_flds b.
Proof. unfold ser_flds. rewrite map_app, concat_app. reflexivity. Qed.

Lemma ser_flds_fbytes l : bytes_ok l = true -> ser_flds (fbytes l) = l.
Proof.
  induction l as [|x l IH]; intros H; [reflexivity|].
  cbn [bytes_ok forallb] in H. apply andb_true_iff in H. destruct H as [Hx Hl].
  unfold is_byte in Hx. apply N.ltb_lt in Hx.
  unfold ser_flds, fbytes in *. cbn [map concat fst snd le app]. rewrite (N.mod_small x 256 Hx). f_equal. now apply IH.
Qed.

Lemma assemble_app a b : assemble (a ++ b) = assemble a ++ assemble b.
Proof. unfold assemble. rewrite map_app, concat_app. reflexivity. Qed.

Lemma assemble_LB off l : bytes_ok l = true -> assemble (LB off l) = l.
Proof.
  revert off; induction l as [|x l IH]; intros off H; [reflexivity|].
  cbn [bytes_ok forallb] in H. apply andb_true_iff in H. destruct H as [Hx Hl].
  unfold is_byte in Hx. apply N.ltb_lt in Hx.
  cbn [LB]. unfold assemble in *. cbn [map concat fst snd le app]. rewrite (N.mod_small x 256 Hx). f_equal. now apply IH.
Qed.

Lemma length_assemble l : length (assemble l) = layout_size l.
Proof.
  unfold assemble. induction l as [|[[o w] v] l IH]; [reflexivity|].
  cbn [map concat fst snd layout_size]. rewrite app_length, length_le, IH. reflexivity.
Qed.

Lemma lay_at_some off size l b : lay_at off size l = Some b -> b = assemble l /\ length b = size.
Proof.
  unfold lay_at. destruct (layout_ok_from off l); [|discriminate]. cbn [andb].
  destruct (Nat.eqb (layout_size l) size) eqn:E; [|discriminate]. intros [= <-].
  apply Nat.eqb_eq in E. split; [reflexivity|]. now rewrite length_assemble.
Qed.

(* ---------- histories ---------- *)

Section Steps.
  Context {S : Type}.
  Variable step : S -> sx -> option (S * list ev).

  Lemma run_steps_app ops1 : forall ops2 s,
    run_steps step s (ops1 ++ ops2) =
    match run_steps step s ops1 with Some s1 => run_steps step s1 ops2 | None => None end.
  Proof.
    induction ops1 as [|o ops1 IH]; intros ops2 s; cbn [app run_steps]; [reflexivity|].
    destruct o as [n|l]; [apply IH|].
    destruct (step s (SL l)) as [[s1 e]|]; [apply IH|reflexivity].
  Qed.

  Lemma run_steps_nil s : run_steps step s [] = Some s.
  Proof. reflexivity. Qed.
End Steps.

(* a table without mutating operations: the Spec accepts only the empty history *)
Lemma ctor_only_some image ctor ops r : ctor_only image ctor ops = Some r -> ops = [] /\ image ctor = Some r.
Proof. destruct ops; [intros H; split; [reflexivity|exact H]|discriminate]. Qed.

(* byte-array constructor arguments that really are bytes (the exchange language does not enforce it; the harness
   can only produce such arguments, they are `[u8; K]` on the Rust side) *)
Definition sx_is_bytes (s : sx) : Prop := forall b, sx_bytes s = Some b -> bytes_ok b = true.

(* the header record both decoders produce from the same constructor arguments *)
Definition hdr_of (sig : list N) (rev : N) (ha : hdr_args) : hdr :=
  {| h_sig := sig; h_rev := rev; h_oem := ha_oem ha; h_tbl := ha_tbl ha; h_orev := ha_orev ha |}.

Lemma sx_hdr_of_args' sig rev o t r ha : sx_hdr_args o t r = Some ha -> sx_hdr sig rev o t r = Some (hdr_of sig rev ha).
Proof. apply sx_hdr_of_args. Qed.

Lemma hdr_of_image_is_ref sig rev ha len cks rest :
  len = 36 + N.of_nat (length rest) ->
  sum8 (hdr_bytes (hdr_of sig rev ha) len cks ++ rest) = 0 ->
  hdr_bytes (hdr_of sig rev ha) len cks ++ rest = ref_table sig rev ha rest.
Proof.
  intros Hl Hs. rewrite (hdr_image_is_ref _ _ _ _ Hl Hs). unfold hdr_of. cbn [h_sig h_rev]. now rewrite hargs_of_mk.
Qed.

(* ---------- from the fold over real operations to the observations of a case ---------- *)

Definition no_markers (ops : list sx) : bool := forallb (fun o => match o with SA _ => false | SL _ => true end) ops.

Lemma no_markers_real ops : no_markers ops = true -> real_ops ops = ops.
Proof.
  unfold no_markers, real_ops. induction ops as [|o ops IH]; intros H; [reflexivity|].
  cbn [forallb] in H. apply andb_true_iff in H. destruct H as [Ho H].
  destruct o as [n|l]; [discriminate|]. cbn [filter]. now rewrite IH.
Qed.

Section Observe.
  Context {S : Type}.
  Variable image : S -> option (list N).
  Variable step : S -> sx -> option (S * list ev).

  Lemma run_ops_acc_steps ops : forall s s' acc tail,
    no_markers ops = true -> run_steps step s ops = Some s' ->
    exists evs, run_ops_acc image step s (ops ++ tail) acc = run_ops_acc image step s' tail (evs ++ acc).
  Proof.
    induction ops as [|o ops IH]; intros s s' acc tail Hm Hr.
    - inversion Hr; subst. exists []. reflexivity.
    - cbn [no_markers forallb] in Hm. apply andb_true_iff in Hm. destruct Hm as [Ho Hm].
      destruct o as [n|l]; [discriminate|].
      cbn [run_steps] in Hr. cbn [app run_ops_acc].
      destruct (step s (SL l)) as [[s1 e]|]; [|discriminate].
      destruct (IH s1 s' (rev_append e acc) tail Hm Hr) as [evs H].
      exists (evs ++ rev e). rewrite H. rewrite rev_append_rev, app_assoc. reflexivity.
  Qed.

  (* a marker-free history the model accepts, followed by one observation: the case ends with the image, without refusal *)
  Lemma run_history_observe (new : sx -> option S) ctor ops s0 s img :
    new ctor = Some s0 -> no_markers ops = true -> run_steps step s0 ops = Some s -> image s = Some img ->
    exists evs, run_history image step new (SL (ctor :: ops ++ [SA 1])) = evs ++ [EvBytes img].
  Proof.
    intros Hn Hm Hr Hi. unfold run_history, run_ops. rewrite Hn.
    destruct (run_ops_acc_steps ops s0 s [] [SA 1] Hm Hr) as [evs H]. rewrite H.
    cbn [run_ops_acc]. rewrite Hi. rewrite frev_rev. cbn [rev]. exists (rev (evs ++ [])). reflexivity.
  Qed.
End Observe.
