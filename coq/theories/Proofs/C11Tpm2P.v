(* C11 instance, TCPA server table (tpm2.rs TpmServer1_2): device flags (PCI device / bus is PNP / configuration address valid)
   and interrupt flags (edge / active low / SCI through GPE / GSI valid), the valid bits gating their value setters.
   Statement about the 100 bytes of the table the Impl model emits after any sequence of builder calls. *)
From Coq Require Import NArith ZArith List Lia Bool Arith ZifyBool ZifyNat ZifyN.
From ACPI Require Import Lib.Bytes Lib.Sx Lib.Machine Impl.Table Impl.Fields Impl.Madt Impl.Tpm2 Spec.Layout Spec.OptionsS
  Proofs.FlagsP Proofs.FadtP Proofs.TableP Proofs.FixedP Proofs.Tpm2P Proofs.WalkRefCommon2P Proofs.C11CommonP.
Import ListNotations.
Open Scope N_scope.

Definition TCPA_WS : list nat := Eval vm_compute in widths tpmserver_body0.

(* one element of a history: observation markers (atoms) are skipped by the runner *)
Definition tcpa_st (f : flds) (o : sx) : option flds := match o with SA _ => Some f | _ => tpmserver_builder f o end.

Lemma tpmserver_run md : forall ops s0 s, run_steps (tpmserver_step md) s0 ops = Some s ->
  sv_hdr s = sv_hdr s0 /\ fold_opt tcpa_st (sv_body s0) ops = Some (sv_body s).
Proof.
  induction ops as [|o ops IH]; intros s0 s H; cbn [run_steps fold_opt] in *.
  - inversion H; subst. auto.
  - destruct o as [n|l]; [cbn [tcpa_st]; now apply IH|].
    destruct (tpmserver_step md s0 (SL l)) as [[s1 ev]|] eqn:E; [|discriminate].
    unfold tpmserver_step in E. cbn [tcpa_st]. destruct (tpmserver_builder (sv_body s0) (SL l)) as [f|]; [|discriminate].
    cbn [option_bind] in E. inversion E; subst s1 ev; clear E.
    destruct (IH _ _ H) as [Hh Hb]. cbn [tpmserver_update sv_hdr sv_body] in Hh, Hb. auto.
Qed.

(* call ranges relative to the body (the 64 bytes after the 36-byte header) *)
Definition unshift (r : nat * nat) : nat * nat := (fst r - 36, snd r)%nat.
Definition body_ranges (other : nat * nat) (o : sx) : list (nat * nat) := other :: map unshift (tcpa_call_ranges o).

Lemma tcpa_ranges_in_body o r : In r (tcpa_call_ranges o) -> (36 <= fst r)%nat.
Proof. unfold tcpa_call_ranges. dmatch_goal; cbn [In]; intuition (subst; cbn; lia). Qed.

Ltac tcpa_step_tac Hw H :=
  unfold tcpa_st, tpmserver_builder, set_gas in H; dmatch_in H;
    try (destruct (pci_ok _ _); [cbn [option_bind] in H|discriminate H]);
    inversion H; subst; clear H;
    (split; [rewrite ?widths_fset, ?widths_f_or, ?widths_fset; exact Hw|]); (split; [exact I|]).

Lemma tcpa_step_dev f o f' : widths f = TCPA_WS -> True -> tcpa_st f o = Some f' ->
  widths f' = TCPA_WS /\ True /\ fget f' 6 = N.lor (fget f 6) (tcpa_dev_bit o) /\
  forall j, j <> 6%nat -> ~ In (fld_range TCPA_WS j) (body_ranges (23, 1)%nat o) -> fget f' j = fget f j.
Proof.
  intros Hw _ H.
  assert (Hl : length f = 28%nat) by (rewrite <- widths_length, Hw; reflexivity).
  tcpa_step_tac Hw H; unfold body_ranges; cbn [tcpa_dev_bit tcpa_call_ranges map unshift fst snd Nat.sub rng];
    (split; [fg0; rewrite ?N.lor_0_r; reflexivity | intros j Hj Hn; fg Hn; reflexivity]).
Qed.

Lemma tcpa_step_int f o f' : widths f = TCPA_WS -> True -> tcpa_st f o = Some f' ->
  widths f' = TCPA_WS /\ True /\ fget f' 7 = N.lor (fget f 7) (tcpa_int_bit o) /\
  forall j, j <> 7%nat -> ~ In (fld_range TCPA_WS j) (body_ranges (22, 1)%nat o) -> fget f' j = fget f j.
Proof.
  intros Hw _ H.
  assert (Hl : length f = 28%nat) by (rewrite <- widths_length, Hw; reflexivity).
  tcpa_step_tac Hw H; unfold body_ranges; cbn [tcpa_int_bit tcpa_call_ranges map unshift fst snd Nat.sub rng];
    (split; [fg0; rewrite ?N.lor_0_r; reflexivity | intros j Hj Hn; fg Hn; reflexivity]).
Qed.

Lemma tcpa_dev_bit_small o : tcpa_dev_bit o < 2 ^ (8 * N.of_nat (fwid TCPA_WS 6)).
Proof. unfold tcpa_dev_bit. dmatch_goal; reflexivity. Qed.
Lemma tcpa_int_bit_small o : tcpa_int_bit o < 2 ^ (8 * N.of_nat (fwid TCPA_WS 7)).
Proof. unfold tcpa_int_bit. dmatch_goal; reflexivity. Qed.

(* which calls carry which bit *)
Lemma tcpa_dev_gate k b o : In (k, b) [(7, 0); (6, 1); (9, 2)] -> N.testbit (tcpa_dev_bit o) b = tcpa_calls k o.
Proof.
  intros Hk. cbn [In] in Hk. destruct Hk as [Hk|[Hk|[Hk|[]]]]; inversion Hk; subst k b;
    unfold tcpa_dev_bit, tcpa_calls; dmatch_goal; reflexivity.
Qed.
Lemma tcpa_int_gate k b o : In (k, b) [(3, 0); (2, 1); (4, 2); (5, 3)] -> N.testbit (tcpa_int_bit o) b = tcpa_calls k o.
Proof.
  intros Hk. cbn [In] in Hk. destruct Hk as [Hk|[Hk|[Hk|[Hk|[]]]]]; inversion Hk; subst k b;
    unfold tcpa_int_bit, tcpa_calls; dmatch_goal; reflexivity.
Qed.

Lemma tpmserver_new_shape c s0 : tpmserver_new c = Some s0 -> hdr_ok (sv_hdr s0) = true /\ sv_body s0 = tpmserver_body0.
Proof.
  intros H. pose proof (tpmserver_new_inv c s0 H) as [Hh _ _]. split; [exact Hh|].
  unfold tpmserver_new in H. dmatch_in H. destruct (sx_hdr _ _ _ _ _); [|discriminate]. cbn [option_bind] in H. inversion H. reflexivity.
Qed.

(* header bytes: only the checksum byte (offset 9) depends on the checksum *)
Lemma hdr_bytes_frame h len c c' k : hdr_ok h = true -> k <> 9%nat -> nth k (hdr_bytes h len c) 0 = nth k (hdr_bytes h len c') 0.
Proof.
  intros Hh Hk. pose proof (hdr_ok_sig h Hh) as Hs.
  unfold hdr_bytes.
  replace (h_sig h ++ d4 len ++ b1 (h_rev h) ++ b1 c ++ h_oem h ++ h_tbl h ++ d4 (h_orev h) ++ CREATOR_ID ++ CREATOR_REVISION)
    with ((h_sig h ++ d4 len ++ b1 (h_rev h)) ++ le 1 c ++ (h_oem h ++ h_tbl h ++ d4 (h_orev h) ++ CREATOR_ID ++ CREATOR_REVISION))
    by (rewrite <- !app_assoc; reflexivity).
  replace (h_sig h ++ d4 len ++ b1 (h_rev h) ++ b1 c' ++ h_oem h ++ h_tbl h ++ d4 (h_orev h) ++ CREATOR_ID ++ CREATOR_REVISION)
    with ((h_sig h ++ d4 len ++ b1 (h_rev h)) ++ le 1 c' ++ (h_oem h ++ h_tbl h ++ d4 (h_orev h) ++ CREATOR_ID ++ CREATOR_REVISION))
    by (rewrite <- !app_assoc; reflexivity).
  apply nth_mid_frame. unfold in_range. cbn [fst snd]. unfold d4, b1. rewrite !app_length, !length_le, Hs. lia.
Qed.

(* for EVERY constructor argument and EVERY sequence of builder calls the model accepts (either profile):
   - DeviceFlags (offset 58) / InterruptFlags (offset 59) are the unions of the specification bits of the calls made;
   - a valid bit is set iff its value setter was called (PCI device <-> pci_sbdf, configuration address valid <-> config_addr,
     SCI through GPE <-> sci_gpe, GSI valid <-> gsi), and likewise for the plain options;
   - every byte outside the checksum, the two flag bytes and the value fields of the calls made is the byte of the table
     as TpmServer1_2::new built it *)
Theorem tcpa_server_options md c ops s0 s :
  tpmserver_new c = Some s0 -> run_steps (tpmserver_step md) s0 ops = Some s ->
  length (tpmserver_bytes s) = 100%nat /\
  field_at (tpmserver_bytes s) 58 1 = big_or (map tcpa_dev_bit ops) /\
  field_at (tpmserver_bytes s) 59 1 = big_or (map tcpa_int_bit ops) /\
  (forall k b, In (k, b) [(7, 0); (6, 1); (9, 2)] -> N.testbit (field_at (tpmserver_bytes s) 58 1) b = existsb (tcpa_calls k) ops) /\
  (forall k b, In (k, b) [(3, 0); (2, 1); (4, 2); (5, 3)] -> N.testbit (field_at (tpmserver_bytes s) 59 1) b = existsb (tcpa_calls k) ops) /\
  forall k, ~ in_ranges k (tcpa_checksum_at :: tcpa_devflags_at :: tcpa_intflags_at :: concat (map tcpa_call_ranges ops)) ->
    nth k (tpmserver_bytes s) 0 = nth k (tpmserver_bytes s0) 0.
Proof.
  intros Hn Hr.
  destruct (tpmserver_new_shape c s0 Hn) as [Hh0 Hb0].
  destruct (tpmserver_run md ops s0 s Hr) as [Hh E]. rewrite Hb0 in E.
  destruct (flag_bytes tcpa_st TCPA_WS 6 (fun _ => True) tcpa_dev_bit (body_ranges (23, 1)%nat) ltac:(cbn; lia)
              tcpa_dev_bit_small tcpa_step_dev ops tpmserver_body0 _ eq_refl I ltac:(reflexivity) E) as (Hlen & Hdev & Hfr).
  destruct (flag_bytes tcpa_st TCPA_WS 7 (fun _ => True) tcpa_int_bit (body_ranges (22, 1)%nat) ltac:(cbn; lia)
              tcpa_int_bit_small tcpa_step_int ops tpmserver_body0 _ eq_refl I ltac:(reflexivity) E) as (_ & Hint & _).
  change (fget tpmserver_body0 6) with 0 in Hdev. change (fget tpmserver_body0 7) with 0 in Hint. rewrite N.lor_0_l in Hdev, Hint.
  change (foff TCPA_WS 6) with 22%nat in Hdev. change (fwid TCPA_WS 6) with 1%nat in Hdev.
  change (foff TCPA_WS 7) with 23%nat in Hint. change (fwid TCPA_WS 7) with 1%nat in Hint.
  assert (Hh1 : hdr_ok (sv_hdr s) = true) by (now rewrite Hh).
  assert (Hhl : forall ck, length (hdr_bytes (sv_hdr s) 100 ck) = 36%nat) by (intros ck; now apply length_hdr_bytes).
  assert (Hd : field_at (tpmserver_bytes s) 58 1 = big_or (map tcpa_dev_bit ops)).
  { unfold tpmserver_bytes, tpmserver_bytes_ck. change 58%nat with (36 + 22)%nat. rewrite <- (Hhl (sv_cks s)). rewrite field_at_app_r. exact Hdev. }
  assert (Hi : field_at (tpmserver_bytes s) 59 1 = big_or (map tcpa_int_bit ops)).
  { unfold tpmserver_bytes, tpmserver_bytes_ck. change 59%nat with (36 + 23)%nat. rewrite <- (Hhl (sv_cks s)). rewrite field_at_app_r. exact Hint. }
  split. { unfold tpmserver_bytes, tpmserver_bytes_ck. rewrite app_length, Hhl, Hlen. reflexivity. }
  split; [exact Hd|]. split; [exact Hi|]. split; [|split].
  - intros k b Hk. rewrite Hd. apply big_or_gate. intros o. now apply (tcpa_dev_gate k b o).
  - intros k b Hk. rewrite Hi. apply big_or_gate. intros o. now apply (tcpa_int_gate k b o).
  - intros k Hk. unfold tpmserver_bytes, tpmserver_bytes_ck. rewrite Hh, Hb0.
    destruct (Nat.ltb_spec k 36) as [Hlt|Hge].
    + rewrite !app_nth1 by (rewrite length_hdr_bytes by exact Hh0; exact Hlt).
      apply hdr_bytes_frame; [exact Hh0|]. intros ->. apply Hk. exists tcpa_checksum_at. split; [now left|]. unfold in_range, tcpa_checksum_at, rng. cbn [fst snd]. lia.
    + rewrite !app_nth2 by (rewrite length_hdr_bytes by exact Hh0; exact Hge). rewrite !length_hdr_bytes by exact Hh0.
      apply Hfr. intros (r & Hin & Hrange). apply Hk. unfold in_range in Hrange.
      destruct Hin as [<-|Hin].
      * exists tcpa_devflags_at. split; [right; now left|]. unfold in_range.
        change (fld_range TCPA_WS 6) with (22, 1)%nat in Hrange.
        unfold tcpa_devflags_at, rng. cbn [fst snd] in *. lia.
      * apply in_concat in Hin. destruct Hin as (rs & Hrs & Hin). apply in_map_iff in Hrs. destruct Hrs as (o & <- & Ho).
        unfold body_ranges in Hin. destruct Hin as [<-|Hin].
        -- exists tcpa_intflags_at. split; [right; right; now left|]. unfold in_range, tcpa_intflags_at, rng. cbn [fst snd] in *. lia.
        -- apply in_map_iff in Hin. destruct Hin as (r0 & <- & Hr0). pose proof (tcpa_ranges_in_body o r0 Hr0) as H36.
           exists r0. split.
           ++ right; right; right. apply in_concat. exists (tcpa_call_ranges o). split; [now apply in_map|exact Hr0].
           ++ unfold in_range, unshift in *. cbn [fst snd] in *. lia.
Qed.

Lemma tcpa_options_distinct :
  distinct_single_bits tcpa_dev_table && below (2 ^ 8) tcpa_dev_table && distinct_single_bits tcpa_int_table && below (2 ^ 8) tcpa_int_table = true.
Proof. reflexivity. Qed.
