(* PPTT: the Impl model refines the Spec layer (C04 as a theorem).
   For every constructor argument and every history inside the specification's domain, in both build profiles, the
   model accepts the history and its image is byte for byte the reference image.  Handle references (104 k) resolve
   on both sides to the offset at which the entry added by operation k starts. *)
From Coq Require Import NArith ZArith List Lia Bool Arith.
From ACPI Require Import Lib.Bytes Lib.Sx Lib.Machine Impl.Checksum Impl.Table Impl.Fields Impl.Run Impl.Madt Impl.Pptt
  Spec.Layout Spec.MadtS Spec.HmatS Spec.PpttS
  Proofs.ChecksumP Proofs.TableP Proofs.MadtP Proofs.Tables Proofs.PpttP Proofs.RefCommonR2P.
Import ListNotations.

Ltac Zify.zify_post_hook ::= Z.to_euclidean_division_equations.

Open Scope N_scope.

(* ---------- handles: the Spec's placed entries against the model's handle list ---------- *)
(* [p] lists (type, offset) most recent first; the model keeps the offsets most recent first in t_rhandles *)
Definition placed_rel (p : placed) (s : tbl) : Prop :=
  map snd (fst p) = t_rhandles s /\ snd p = N.of_nat (length (fst p)).

Lemma nth_error_rev {A} (l : list A) k : (k < length l)%nat -> nth_error (rev l) k = nth_error l (length l - 1 - k).
Proof.
  intros H. destruct (nth_error l (length l - 1 - k)) as [x|] eqn:E.
  - rewrite (nth_error_nth' (rev l) x) by (rewrite rev_length; exact H).
    rewrite rev_nth by exact H. replace (length l - S k)%nat with (length l - 1 - k)%nat by lia.
    f_equal. apply nth_error_nth. exact E.
  - apply nth_error_None in E. lia.
Qed.

Lemma resolve_handle_ref p s ty x v : placed_rel p s -> resolve p ty x = Some v -> handle_ref s x = Some v.
Proof.
  intros [Hm Hn] H. unfold resolve in H. break_sx H.
  match goal with |- handle_ref s (SL [SA 104; SA ?k0]) = _ => rename k0 into k end.
  destruct (N.ltb_spec k (snd p)) as [Hk|]; [|discriminate].
  destruct (nth_error (fst p) (N.to_nat (snd p - 1 - k))) as [[t off]|] eqn:E; [|discriminate].
  destruct (t =? ty); [|discriminate]. apply rc_Some_inj in H. subst off.
  cbn [handle_ref]. unfold t_handles. rewrite frev_rev, <- Hm.
  rewrite nth_error_rev by (rewrite map_length; lia).
  rewrite map_length. replace (length (fst p) - 1 - N.to_nat k)%nat with (N.to_nat (snd p - 1 - k)) by lia.
  rewrite nth_error_map, E. reflexivity.
Qed.

Lemma resolve_or_raw_handle_ref p s ty x v : placed_rel p s -> resolve_or_raw p ty x = Some v -> handle_ref s x = Some v.
Proof.
  intros HR H. destruct x as [n|l].
  - cbn [resolve_or_raw] in H. destruct (n <? 2 ^ 32); [|discriminate]. exact H.
  - cbn [resolve_or_raw] in H. eapply resolve_handle_ref; eauto.
Qed.

(* ---------- Processor Hierarchy Node ---------- *)
Definition pn_of (st : pstate) : pnode :=
  match st with (flags, parent, uid, rres) => {| pn_flags := flags; pn_parent := parent; pn_uid := uid; pn_rres := rres |} end.

Lemma proc_builder_sim p s st b st' : placed_rel p s ->
  proc_builder p st b = Some st' -> pnode_builder s (pn_of st) b = Some (pn_of st').
Proof.
  intros HR H. destruct st as [[[flags parent] uid] rres]. unfold proc_builder in H.
  break_sx H; try (apply rc_Some_inj in H; subst st'; reflexivity).
  all: try (match type of H with context [?a <? 2 ^ 32] => destruct (a <? 2 ^ 32); [|discriminate] end;
            apply rc_Some_inj in H; subst st'; reflexivity).
  - (* add_cache(&handle) *)
    match type of H with context [resolve p 1 ?x] => destruct (resolve p 1 x) as [c|] eqn:E; [|discriminate] end.
    apply rc_Some_inj in H. subst st'.
    cbn [pnode_builder pn_of pn_flags pn_parent pn_uid pn_rres].
    rewrite (resolve_handle_ref _ _ _ _ _ HR E). reflexivity.
  - (* node.parent = v *)
    match type of H with context [resolve_or_raw p 0 ?x] => destruct (resolve_or_raw p 0 x) as [v|] eqn:E; [|discriminate] end.
    apply rc_Some_inj in H. subst st'.
    cbn [pnode_builder pn_of pn_flags pn_parent pn_uid pn_rres].
    rewrite (resolve_or_raw_handle_ref _ _ _ _ _ HR E). reflexivity.
Qed.

Lemma proc_builders_sim p s bs : placed_rel p s -> forall st st',
  proc_builders p st bs = Some st' -> pnode_builders s (pn_of st) bs = Some (pn_of st').
Proof.
  intros HR. induction bs as [|b bs IH]; intros st st' H; cbn [proc_builders pnode_builders] in *.
  - apply rc_Some_inj in H. subst st'. reflexivity.
  - destruct (proc_builder p st b) as [st1|] eqn:E; [|discriminate].
    rewrite (proc_builder_sim _ _ _ _ _ HR E). apply IH. exact H.
Qed.

(* model serialiser = reference layout, for all field values *)
Lemma pnode_bytes_ref flags par id rres : (20 + 4 * length rres <= 255)%nat ->
  pnode_bytes (pn_of (flags, par, id, rres)) =
  lay_then 20 [L 0 1 0; L 1 1 (N.of_nat (20 + 4 * length rres)); L 2 2 0; L 4 4 flags; L 8 4 par; L 12 4 id;
               L 16 4 (N.of_nat (length rres))] (arr 4 (frev rres)).
Proof.
  intros Hn. unfold pnode_bytes, pnode_len. cbn [pn_of pn_flags pn_parent pn_uid pn_rres].
  assert (Hle : (20 + N.of_nat (length rres) * 4 <=? 255) = true) by (apply N.leb_le; lia).
  rewrite Hle. cbn [assert option_bind].
  replace (20 + N.of_nat (length rres) * 4) with (N.of_nat (20 + 4 * length rres)) by lia.
  reflexivity.
Qed.

(* ---------- Cache Type Structure ---------- *)
Definition cfl (fl nl sz sets asso attr ls id : N) : flds :=
  [F 1 1; F 1 28; F 2 0; F 4 fl; F 4 nl; F 4 sz; F 4 sets; F 1 asso; F 1 attr; F 2 ls; F 4 id].

Definition oval (acc : option (list N)) : N := match acc with Some (v :: _) => v | _ => 0 end.
Definition osome (acc : option (list N)) : bool := match acc with Some _ => true | None => false end.

Definition cflags (a1 a2 a3 a4 a5 a6 a7 a8 : option (list N)) : N :=
  bit (osome a1) 1 + bit (osome a2) 2 + bit (osome a3) 4 + bit (osome a4) 8 + bit (osome a5) 16
  + bit (osome a6) 32 + bit (osome a7) 64 + bit (osome a8) 128.

Definition cattrs (st : list sx) : N := N.lor (N.lor (or_args 4 1 st) (or_args 5 4 st)) (or_args 6 16 st).

Lemma cflags_or a1 a2 a3 a4 a5 a6 a7 a8 l :
  N.lor (cflags a1 a2 a3 a4 a5 a6 a7 a8) 1 = cflags (Some l) a2 a3 a4 a5 a6 a7 a8 /\
  N.lor (cflags a1 a2 a3 a4 a5 a6 a7 a8) 2 = cflags a1 (Some l) a3 a4 a5 a6 a7 a8 /\
  N.lor (cflags a1 a2 a3 a4 a5 a6 a7 a8) 4 = cflags a1 a2 (Some l) a4 a5 a6 a7 a8 /\
  N.lor (cflags a1 a2 a3 a4 a5 a6 a7 a8) 8 = cflags a1 a2 a3 (Some l) a5 a6 a7 a8 /\
  N.lor (cflags a1 a2 a3 a4 a5 a6 a7 a8) 16 = cflags a1 a2 a3 a4 (Some l) a6 a7 a8 /\
  N.lor (cflags a1 a2 a3 a4 a5 a6 a7 a8) 32 = cflags a1 a2 a3 a4 a5 (Some l) a7 a8 /\
  N.lor (cflags a1 a2 a3 a4 a5 a6 a7 a8) 64 = cflags a1 a2 a3 a4 a5 a6 (Some l) a8 /\
  N.lor (cflags a1 a2 a3 a4 a5 a6 a7 a8) 128 = cflags a1 a2 a3 a4 a5 a6 a7 (Some l).
Proof.
  unfold cflags.
  destruct a1, a2, a3, a4, a5, a6, a7, a8; cbn [osome bit]; repeat split; vm_compute; reflexivity.
Qed.

Lemma lor_move a x b c d : N.lor (N.lor a x) (N.lor (N.lor b c) d) = N.lor a (N.lor (N.lor (N.lor x b) c) d).
Proof. lor_ac. Qed.
Lemma lor_move2 a x b c d : N.lor (N.lor a x) (N.lor (N.lor b c) d) = N.lor a (N.lor (N.lor b (N.lor x c)) d).
Proof. lor_ac. Qed.
Lemma lor_move3 a x b c d : N.lor (N.lor a x) (N.lor (N.lor b c) d) = N.lor a (N.lor (N.lor b c) (N.lor x d)).
Proof. lor_ac. Qed.

Lemma alloc_bits_small e : e < 3 -> alloc_bits e = e * 1.
Proof. intros H. assert (C : e = 0 \/ e = 1 \/ e = 2) by lia. destruct C as [->|[->| ->]]; reflexivity. Qed.
Lemma ctype_bits_small e : e < 3 -> ctype_bits e = e * 4.
Proof. intros H. assert (C : e = 0 \/ e = 1 \/ e = 2) by lia. destruct C as [->|[->| ->]]; reflexivity. Qed.
Lemma policy_bits_small e : e < 2 -> policy_bits e = e * 16.
Proof. intros H. assert (C : e = 0 \/ e = 1) by lia. destruct C as [->| ->]; reflexivity. Qed.

(* the setter fold of the model, from any intermediate state, against the Spec's summaries of the remaining setters *)
Lemma cache_setters_sim p s (HR : placed_rel p s) st :
  forall a1 a2 a3 a4 a5 a6 a7 a8 nl at0 next,
  forallb cache_setter_ok st = true ->
  last_next_level p st nl = Some next ->
  cache_setters s (cfl (cflags a1 a2 a3 a4 a5 a6 a7 a8) nl (oval a1) (oval a2) (oval a3) at0 (oval a7) (oval a8)) st =
  Some (cfl (cflags (last_arg 1 st a1) (last_arg 2 st a2) (last_arg 3 st a3) (last_arg 4 st a4) (last_arg 5 st a5)
                    (last_arg 6 st a6) (last_arg 7 st a7) (last_arg 8 st a8))
            next (oval (last_arg 1 st a1)) (oval (last_arg 2 st a2)) (oval (last_arg 3 st a3))
            (N.lor at0 (cattrs st)) (oval (last_arg 7 st a7)) (oval (last_arg 8 st a8))).
Proof.
  induction st as [|x st IH]; intros a1 a2 a3 a4 a5 a6 a7 a8 nl at0 next Hok Hnl.
  - cbn [last_next_level] in Hnl. apply rc_Some_inj in Hnl. subst next.
    cbn [cache_setters last_arg]. unfold cattrs. cbn [or_args]. change (N.lor (N.lor 0 0) 0) with 0.
    rewrite N.lor_0_r. reflexivity.
  - cbn [forallb] in Hok. apply andb_true_iff in Hok. destruct Hok as [Hx Hok].
    pose proof (cflags_or a1 a2 a3 a4 a5 a6 a7 a8) as Hfl.
    unfold cache_setter_ok in Hx. break_sx Hx;
    cbn [cache_setters cache_setter cfl fset f_or F last_next_level] in *;
    unfold cattrs; cbn [last_arg or_args sx_nums]; cbv [N.eqb Pos.eqb];
    fold (cattrs st);
    first
    [ (* next_level(&handle) *)
      match type of Hnl with context [resolve p 1 ?h] =>
           destruct (resolve p 1 h) as [c|] eqn:E; [|discriminate Hnl];
           rewrite (resolve_handle_ref _ _ _ _ _ HR E); cbn [option_bind];
           replace (N.lor (N.lor match h with SA _ | _ => or_args 4 1 st end match h with SA _ | _ => or_args 5 4 st end)
                          match h with SA _ | _ => or_args 6 16 st end) with (cattrs st) by (destruct h; reflexivity);
           exact (IH a1 a2 a3 a4 a5 a6 a7 a8 c at0 next Hok Hnl)
      end
    | (* the three attribute setters *)
      match goal with |- context [alloc_bits ?e] =>
           apply N.ltb_lt in Hx; rewrite (alloc_bits_small e Hx), <- lor_move; fold (cattrs st);
           destruct (Hfl [e]) as (_ & _ & _ & F4 & _); rewrite F4;
           exact (IH a1 a2 a3 (Some [e]) a5 a6 a7 a8 nl _ next Hok Hnl)
      end
    | match goal with |- context [ctype_bits ?e] =>
           apply N.ltb_lt in Hx; rewrite (ctype_bits_small e Hx), <- lor_move2; fold (cattrs st);
           destruct (Hfl [e]) as (_ & _ & _ & _ & F5 & _); rewrite F5;
           exact (IH a1 a2 a3 a4 (Some [e]) a6 a7 a8 nl _ next Hok Hnl)
      end
    | match goal with |- context [policy_bits ?e] =>
           apply N.ltb_lt in Hx; rewrite (policy_bits_small e Hx), <- lor_move3; fold (cattrs st);
           destruct (Hfl [e]) as (_ & _ & _ & _ & _ & F6 & _); rewrite F6;
           exact (IH a1 a2 a3 a4 a5 (Some [e]) a7 a8 nl _ next Hok Hnl)
      end
    | (* the value setters *)
      match goal with
      | |- context [last_arg 1 st (Some [?v])] =>
          destruct (Hfl [v]) as (F1 & _); rewrite F1; exact (IH (Some [v]) a2 a3 a4 a5 a6 a7 a8 nl at0 next Hok Hnl)
      | |- context [last_arg 2 st (Some [?v])] =>
          destruct (Hfl [v]) as (_ & F2 & _); rewrite F2; exact (IH a1 (Some [v]) a3 a4 a5 a6 a7 a8 nl at0 next Hok Hnl)
      | |- context [last_arg 3 st (Some [?v])] =>
          destruct (Hfl [v]) as (_ & _ & F3 & _); rewrite F3; exact (IH a1 a2 (Some [v]) a4 a5 a6 a7 a8 nl at0 next Hok Hnl)
      | |- context [last_arg 7 st (Some [?v])] =>
          destruct (Hfl [v]) as (_ & _ & _ & _ & _ & _ & F7 & _); rewrite F7;
          exact (IH a1 a2 a3 a4 a5 a6 (Some [v]) a8 nl at0 next Hok Hnl)
      | |- context [last_arg 8 st (Some [?v])] =>
          destruct (Hfl [v]) as (_ & _ & _ & _ & _ & _ & _ & F8); rewrite F8;
          exact (IH a1 a2 a3 a4 a5 a6 a7 (Some [v]) nl at0 next Hok Hnl)
      end ].
Qed.

(* model packed struct = reference layout, for all field values *)
Lemma cache_bytes_ref fl nl sz sets asso attr ls id :
  lay 28 [L 0 1 1; L 1 1 28; L 2 2 0; L 4 4 fl; L 8 4 nl; L 12 4 sz; L 16 4 sets; L 20 1 asso; L 21 1 attr; L 22 2 ls; L 24 4 id]
  = Some (ser_flds (cfl fl nl sz sets asso attr ls id)).
Proof. reflexivity. Qed.

(* ---------- every structure type: model entry bytes = reference entry bytes ---------- *)
Lemma cache_entry_ref p s st e : placed_rel p s ->
  pptt_entry_ref p (SL [SA 2; SL st]) = Some e ->
  exists a, pptt_addition s (SL [SA 2; SL st]) = Some a /\ a_bytes a = e.
Proof.
  intros HR H. cbn [pptt_entry_ref] in H.
  destruct (forallb cache_setter_ok st) eqn:Hok; [|discriminate].
  destruct (last_next_level p st 0) as [next|] eqn:Hnl; [|discriminate].
  pose proof (cache_setters_sim p s HR st None None None None None None None None 0 0 next Hok Hnl) as Hsim.
  rewrite cache_bytes_ref in H. apply rc_Some_inj in H. subst e.
  cbn [pptt_addition].
  change (cfl (cflags None None None None None None None None) 0 (oval None) (oval None) (oval None) 0 (oval None) (oval None))
    with cache_default in Hsim.
  rewrite Hsim. cbn [option_bind]. eexists. split; [reflexivity|]. cbn [a_bytes].
  rewrite N.lor_0_l. reflexivity.
Qed.

Lemma proc_entry_ref p s parent u bl e : placed_rel p s ->
  pptt_entry_ref p (SL [SA 1; parent; SA u; SL bl]) = Some e ->
  exists a, pptt_addition s (SL [SA 1; parent; SA u; SL bl]) = Some a /\ a_bytes a = e.
Proof.
  intros HR H. cbn [pptt_entry_ref] in H.
  match type of H with context [match ?par with Some _ => _ | None => _ end] => destruct par as [par0|] eqn:Epar; [|discriminate] end.
  destruct (u <? 2 ^ 32); [|discriminate].
  destruct (proc_builders p (0, par0, u, []) bl) as [[[[flags par] id] rres]|] eqn:Eb; [|discriminate].
  destruct (Nat.leb_spec (20 + 4 * length rres) 255) as [Hn|]; [|discriminate].
  rewrite <- pnode_bytes_ref in H by exact Hn.
  cbn [pptt_addition].
  assert (Enew : pnode_new s parent u = Some (pn_of (0, par0, u, []))).
  { unfold pnode_new.
    assert (Ep : (match parent with SL [] => Some 0 | x => handle_ref s x end) = Some par0).
    { destruct parent as [v|[|y l0]]; try exact (resolve_or_raw_handle_ref _ _ _ _ _ HR Epar). exact Epar. }
    rewrite Ep. reflexivity. }
  rewrite Enew. cbn [option_bind].
  rewrite (proc_builders_sim p s bl HR _ _ Eb). cbn [option_bind]. rewrite H. cbn [option_bind].
  eexists. split; [reflexivity|reflexivity].
Qed.

Theorem pptt_entries_are_reference p s o e : placed_rel p s ->
  pptt_entry_ref p o = Some e ->
  exists a, pptt_addition s o = Some a /\ a_bytes a = e.
Proof.
  intros HR H. pose proof H as H0. unfold pptt_entry_ref in H.
  break_sx H; first [ eapply proc_entry_ref; eassumption | eapply cache_entry_ref; eassumption ].
Qed.

(* ---------- histories ---------- *)
(* simulation relation between the Spec's layout state (placed entries, next offset, entries so far) and the model state *)
Definition sim_rel (p : placed) (next : N) (racc : list (list N)) (s : tbl) : Prop :=
  placed_rel p s /\ next = N.of_nat (length (tbl_image s)) /\ racc = t_rents s.

Lemma entries_from_grows ops : forall p next racc es, pptt_entries_from ops p next racc = Some es ->
  (length (concat (rev racc)) <= length (concat es))%nat.
Proof.
  induction ops as [|o ops IH]; intros p next racc es H; cbn [pptt_entries_from] in H.
  - apply rc_Some_inj in H. subst es. rewrite frev_rev. lia.
  - destruct (pptt_entry_ref p o) as [e|]; [|discriminate].
    apply IH in H. cbn [rev] in H. rewrite concat_app, app_length in H. lia.
Qed.

Lemma pptt_image_length s : Inv2 KPptt s -> length (tbl_image s) = (36 + length (concat (rev (t_rents s))))%nat.
Proof.
  intros (I & HK & _). rewrite length_image by exact (inv_hdr s I). rewrite HK. unfold t_body, t_ents. rewrite frev_rev.
  cbn [mid length]. lia.
Qed.

Lemma pptt_sim md ops : forall p next racc s es,
  Inv2 KPptt s -> sim_rel p next racc s ->
  pptt_entries_from ops p next racc = Some es ->
  36 + N.of_nat (length (concat es)) < 2 ^ 32 ->
  exists s', run_adds pptt_addition md s ops = Some s' /\ Inv2 KPptt s' /\ t_ents s' = es /\
             t_hdr s' = t_hdr s /\ t_pre s' = t_pre s.
Proof.
  induction ops as [|o ops IH]; intros p next racc s es I2 (HR & Hnext & Hracc) H Hfit; cbn [pptt_entries_from] in H.
  - apply rc_Some_inj in H. subst es racc. exists s. cbn [run_adds]. repeat split; try assumption; apply I2.
  - destruct (pptt_entry_ref p o) as [e|] eqn:Ee; [|discriminate].
    destruct (pptt_entries_are_reference p s o e HR Ee) as (a & Ea & Hab).
    destruct o as [n|l]; [discriminate Ee|].
    pose proof (entries_from_grows _ _ _ _ _ H) as Hg. cbn [rev] in Hg. rewrite concat_app, app_length in Hg.
    cbn [concat] in Hg. rewrite app_nil_r in Hg.
    pose proof (pptt_image_length s I2) as Hlen. rewrite <- Hracc in Hlen.
    destruct (add_step_accepts KPptt pptt_addition pptt_addition_sound eq_refl md s l a I2 Ea)
      as (s1 & evs & Estep & I2' & Hre & Hrh & Hhd & Hpre & Hlen1).
    { rewrite Hab. lia. }
    cbn [run_adds]. rewrite Estep.
    destruct (IH ((nth 0 e 0, next) :: fst p, snd p + 1) (next + N.of_nat (length e)) (e :: racc) s1 es I2') as (s' & Er & I' & He' & Hhd' & Hpre').
    + destruct HR as [Hm Hn]. split; [split|split]; cbn [fst snd map length].
      * rewrite Hrh, Hm, Hnext. reflexivity.
      * rewrite Hn. lia.
      * rewrite Hlen1, Hab, Hnext. lia.
      * rewrite Hre, Hab, Hracc. reflexivity.
    + exact H.
    + exact Hfit.
    + exists s'. split; [exact Er|]. split; [exact I'|]. split; [exact He'|]. split; congruence.
Qed.

(* PPTT: for every constructor argument and every history in the specification's domain, in both build profiles,
   the model accepts the history and its image is the reference image *)
Theorem pptt_refines md ctor ops r :
  ts_image pptt_spec ctor ops = Some r ->
  N.of_nat (length r) < 2 ^ 32 ->
  exists s0 s, pptt_new ctor = Some s0 /\ run_adds pptt_addition md s0 ops = Some s /\ tbl_image s = r.
Proof.
  cbn [ts_image pptt_spec]. unfold pptt_image. intros H Hfit.
  destruct ctor as [|[|o [|t [|r0 [|x c]]]]]; try discriminate.
  destruct (sx_hdr_args o t r0) as [ha|] eqn:Eh; [|discriminate].
  destruct (pptt_entries_ref ops) as [es|] eqn:Ees; [|discriminate].
  apply rc_Some_inj in H. subst r.
  rewrite (ref_table_length [80; 80; 84; 84] 1 o t r0 ha _ Eh eq_refl) in Hfit.
  destruct (sx_hdr_of_args [80; 80; 84; 84] 1 o t r0 ha Eh) as (h & Eh' & Hs & Hrv & Ho & Ht & Hv).
  assert (Enew : pptt_new (SL [o; t; r0]) = Some (tbl_new KPptt h [])).
  { cbn [pptt_new]. rewrite Eh'. reflexivity. }
  pose proof (pptt_new_inv _ _ Enew) as I0.
  destruct (pptt_sim md ops ([], 0) 36 [] (tbl_new KPptt h []) es I0) as (s & Er & I & He & Hhd & Hpre).
  - split; [split; reflexivity|]. split; [|reflexivity].
    rewrite (pptt_image_length _ I0). reflexivity.
  - exact Ees.
  - lia.
  - exists (tbl_new KPptt h []), s. split; [exact Enew|]. split; [exact Er|].
    destruct I as (I & HK & _).
    rewrite (inv_image_ref s [80; 80; 84; 84] 1 ha I) by (rewrite Hhd; assumption).
    rewrite HK, He. reflexivity.
Qed.

(* the same at the entry point: the history observed once at its end reports one number per operation, no refusal,
   and the reference image *)
Lemma pptt_entries_from_lists ops : forall p next racc es, pptt_entries_from ops p next racc = Some es -> all_lists ops.
Proof.
  induction ops as [|o ops IH]; intros p next racc es H; [constructor|]. cbn [pptt_entries_from] in H.
  destruct (pptt_entry_ref p o) as [e|] eqn:Ee; [|discriminate].
  constructor; [|eapply IH; exact H]. destruct o as [n|l]; [discriminate Ee|]. eexists; reflexivity.
Qed.

Corollary pptt_case_refines md ctor ops r :
  ts_image pptt_spec ctor ops = Some r ->
  N.of_nat (length r) < 2 ^ 32 ->
  exists evs, Forall is_num evs /\ pptt_case md (SL (ctor :: ops ++ [SA 1])) = evs ++ [EvBytes r].
Proof.
  intros H Hfit. destruct (pptt_refines md ctor ops r H Hfit) as (s0 & s & Hn & Hr & Hi). subst r.
  unfold pptt_case, pptt_step. eapply addtable_case_end; eauto.
  cbn [ts_image pptt_spec] in H. unfold pptt_image in H.
  destruct ctor as [|[|o [|t [|r0 [|x c]]]]]; try discriminate.
  destruct (sx_hdr_args o t r0); [|discriminate].
  destruct (pptt_entries_ref ops) as [es|] eqn:Ees; [|discriminate].
  eapply pptt_entries_from_lists; exact Ees.
Qed.

Print Assumptions pptt_entries_are_reference.
Print Assumptions pptt_refines.
Print Assumptions pptt_case_refines.
