(* XSDT, property C03, per-entry part: the reference image of every in-domain history passes the self-check
   (the body is tiled by 8-byte entries). *)
From Coq Require Import NArith ZArith List Lia Bool Arith.
From ACPI Require Import Lib.Bytes Lib.Sx Spec.Layout Spec.MadtS Spec.XsdtS Spec.SelfCheck Judge
  Proofs.WalkP Proofs.RefCommonP Proofs.WalkRefCommon2P Proofs.XsdtWalkRefP Proofs.SelfCommonP.
Import ListNotations.
Open Scope N_scope.

Lemma xsdt_entry_self_ok o b : xsdt_entry_ref o = Some b -> entry_self_ok 10 0 b = true.
Proof.
  intros H. unfold xsdt_entry_ref in H. repeat dvar H.
  cbn [entry_self_ok]. rewrite (lay_length _ _ _ H). reflexivity.
Qed.

Theorem xsdt_selfcheck : forall ctor ops r, ts_image xsdt_spec ctor ops = Some r -> c03_self 10 r = true.
Proof.
  intros ctor ops r Himg. cbn [ts_image xsdt_spec] in Himg. unfold xsdt_image in Himg.
  destruct ctor as [n|[|o [|t [|rv [|x l]]]]]; try discriminate Himg.
  destruct (sx_hdr_args o t rv) as [ha|] eqn:Eha; [|discriminate Himg].
  destruct (xsdt_entries_ref ops) as [es|] eqn:Ees; [|discriminate Himg].
  apply wr_Some_inj in Himg. subst r.
  destruct (sx_hdr_args_len _ _ _ _ Eha) as [Ho Ht].
  unfold c03_self. change (ts_walk (spec_of 10)) with (Some (36%nat, H_fixed 8)).
  change (concat es) with ([] ++ concat es).
  apply (c03_self_at_ref 10 36%nat (H_fixed 8) (fun _ => 0)); try assumption; try reflexivity.
  - apply (opt_concat_forall xsdt_entry_ref _ xsdt_entry_self ops es Ees).
  - apply (opt_concat_forall xsdt_entry_ref _ xsdt_entry_self_ok ops es Ees).
Qed.

Print Assumptions xsdt_selfcheck.
