(* MCFG, property C03 as a theorem.
   (1) `mcfg_reference_tiles`: for every constructor argument and every history inside the specification's domain, stepping
       from offset 44 of the REFERENCE image by the fixed allocation-structure size (16 bytes) visits exactly as many
       structures as were added and lands exactly on the end of the table: `c03_judge mcfg_spec ctor r ops = true`.
   (2) `mcfg_model_tiles`: the same judgement holds of the image the Impl model produces (through `mcfg_refines`: image
       below 2^32 bytes).
   The MCFG returns no handles and maintains no count field. *)
From Coq Require Import NArith ZArith List Lia Bool Arith.
From ACPI Require Import Lib.Bytes Lib.Sx Lib.Machine Impl.Table Impl.Run Impl.Mcfg
  Spec.Layout Spec.MadtS Spec.McfgS Proofs.TableP Proofs.WalkP Proofs.RefCommonP Proofs.McfgRefP Proofs.WalkRefCommonP.
Import ListNotations.
Open Scope N_scope.

Lemma mcfg_entry_self o b : mcfg_entry_ref o = Some b -> self_describing (H_fixed 16) b 0.
Proof.
  intros H. unfold mcfg_entry_ref in H. repeat dvar H.
  eapply lay_fixed_self; [exact H|apply Nat.leb_le; reflexivity].
Qed.

Theorem mcfg_reference_tiles : forall ctor ops r,
  ts_image mcfg_spec ctor ops = Some r -> c03_judge mcfg_spec ctor r ops = true.
Proof.
  intros ctor ops r Himg. cbn [ts_image mcfg_spec] in Himg. unfold mcfg_image in Himg.
  destruct ctor as [n|[|o [|t [|rv [|x l]]]]]; try discriminate Himg.
  destruct (sx_hdr_args o t rv) as [ha|] eqn:Eha; [|discriminate Himg].
  destruct (mcfg_entries_ref ops) as [es|] eqn:Ees; [|discriminate Himg].
  apply wr_Some_inj in Himg.
  destruct (sx_hdr_args_lengths _ _ _ _ Eha) as [Ho Ht].
  apply (c03_judge_ref (H_fixed 16) mcfg_entry_ref (fun _ => 0) mcfg_entry_self mcfg_spec _ ops r 44%nat
           [77; 67; 70; 71] 1 ha (le 8 0) es).
  - reflexivity.
  - cbn [ts_entries mcfg_spec]. rewrite Ees. reflexivity.
  - reflexivity.
  - exact Ees.
  - rewrite <- Himg. reflexivity.
  - reflexivity.
  - exact Ho.
  - exact Ht.
  - rewrite length_le. reflexivity.
Qed.

Corollary mcfg_model_tiles : forall md ctor ops r,
  ts_image mcfg_spec ctor ops = Some r -> N.of_nat (length r) < 2 ^ 32 ->
  exists s0 s, mcfg_new ctor = Some s0 /\ run_adds mcfg_addition md s0 ops = Some s /\
    c03_judge mcfg_spec ctor (tbl_image s) ops = true.
Proof.
  intros md ctor ops r Himg Hfit.
  destruct (mcfg_refines md ctor ops r Himg Hfit) as (s0 & s & Hn & Hr & Hi).
  exists s0, s. split; [exact Hn|]. split; [exact Hr|]. rewrite Hi. exact (mcfg_reference_tiles ctor ops r Himg).
Qed.

Print Assumptions mcfg_reference_tiles.
Print Assumptions mcfg_model_tiles.
