(* PPTT: the table-specific obligations of the generic history invariant. *)
From Coq Require Import NArith ZArith List Lia Bool Arith.
From ACPI Require Import Lib.Bytes Lib.Sx Lib.Machine Impl.Checksum Impl.Table Impl.Fields Impl.Run Impl.Madt Impl.Pptt
  Proofs.ChecksumP Proofs.TableP Proofs.MadtP Proofs.Tables.
Import ListNotations.
Open Scope N_scope.

(* case analysis of the operation decoder: destruct the scrutinised variables, dropping the refused shapes *)
Ltac break_sx H :=
  repeat match type of H with
         | context [match ?x with _ => _ end] => is_var x; destruct x; try discriminate H
         end.

Lemma Some_inj {A} (x y : A) : Some x = Some y -> x = y.
Proof. congruence. Qed.

Lemma pptt_new_inv c s0 : pptt_new c = Some s0 -> Inv2 KPptt s0.
Proof.
  unfold pptt_new. destruct c as [|l]; [discriminate|].
  destruct l as [|o [|t [|r [|x l]]]]; try discriminate.
  destruct (sx_hdr [80; 80; 84; 84] 1 o t r) as [h|] eqn:Eh; [|discriminate].
  cbn [option_bind]. intros H. inversion H; subst.
  apply tbl_new_inv2; [eapply sx_hdr_ok; [|exact Eh]; reflexivity | reflexivity].
Qed.

Lemma length_pp_dwords l : length (pp_dwords l) = (4 * length l)%nat.
Proof. unfold pp_dwords. induction l as [|x l IH]; cbn [map concat length]; [reflexivity|]. unfold d4 at 1. rewrite app_length, length_le, IH. lia. Qed.

Lemma length_frev {A} (l : list A) : length (frev l) = length l.
Proof. rewrite frev_rev. apply rev_length. Qed.

(* ProcessorNode: len() = 20 + 4 * resources is what to_aml_bytes writes *)
Lemma pnode_bytes_length p b : pnode_bytes p = Some b ->
  pnode_len p = N.of_nat (length b) /\ pnode_len p <= 255.
Proof.
  unfold pnode_bytes. destruct (N.leb_spec (pnode_len p) 255) as [Hle|]; [|discriminate].
  cbn [assert option_bind]. intros H. apply Some_inj in H. subst b. split; [|exact Hle].
  unfold pnode_len, b1, w2, d4. rewrite !app_length, !length_le, length_pp_dwords, length_frev. lia.
Qed.

(* CacheNode: the packed struct is 28 bytes whatever the setters did *)
Lemma ser_flds_length f : length (ser_flds f) = flds_len f.
Proof.
  unfold ser_flds. induction f as [|[w v] f IH]; cbn [map concat flds_len length fst snd]; [reflexivity|].
  rewrite app_length, length_le, IH. reflexivity.
Qed.

Lemma flds_len_fset f i v : flds_len (fset f i v) = flds_len f.
Proof. revert i; induction f as [|[w x] f IH]; intros [|i]; cbn [fset flds_len]; try reflexivity. now rewrite IH. Qed.

Lemma flds_len_f_or f i v : flds_len (f_or f i v) = flds_len f.
Proof. revert i; induction f as [|[w x] f IH]; intros [|i]; cbn [f_or flds_len]; try reflexivity. now rewrite IH. Qed.

Lemma cache_setter_len s f o f' : cache_setter s f o = Some f' -> flds_len f' = flds_len f.
Proof.
  unfold cache_setter. intros H. break_sx H;
    try (destruct (handle_ref s _); [|discriminate H]; cbn [option_bind] in H);
    inversion H; subst; rewrite ?flds_len_f_or, ?flds_len_fset; reflexivity.
Qed.

Lemma cache_setters_len s l : forall f f', cache_setters s f l = Some f' -> flds_len f' = flds_len f.
Proof.
  induction l as [|o l IH]; intros f f' H; cbn [cache_setters] in H.
  - inversion H; reflexivity.
  - destruct (cache_setter s f o) as [f1|] eqn:E; [|discriminate].
    rewrite (IH _ _ H). eapply cache_setter_len; eauto.
Qed.

Lemma pptt_addition_sound s o e : t_kind s = KPptt -> pptt_addition s o = Some e ->
  a_claimed e = N.of_nat (length (a_bytes e)) /\
  (needs_pos (t_kind s) = true -> (1 <= length (a_bytes e))%nat /\ a_claimed e < 2 ^ 16).
Proof.
  intros Hk H. split; [|rewrite Hk; discriminate].
  unfold pptt_addition in H. break_sx H.
  - (* add_cache *)
    destruct (cache_setters s cache_default _) as [f|] eqn:Ef; [|discriminate H]. cbn [option_bind] in H.
    apply Some_inj in H. subst e. cbn [a_claimed a_bytes].
    rewrite ser_flds_length, (cache_setters_len _ _ _ _ Ef). reflexivity.
  - (* add_processor *)
    destruct (pnode_new s _ _) as [p0|]; [|discriminate H]. cbn [option_bind] in H.
    destruct (pnode_builders s p0 _) as [p|]; [|discriminate H]. cbn [option_bind] in H.
    destruct (pnode_bytes p) as [b|] eqn:Eb; [|discriminate H]. cbn [option_bind] in H.
    apply Some_inj in H. subst e. cbn [a_claimed a_bytes]. exact (proj1 (pnode_bytes_length p b Eb)).
Qed.

Definition pptt_table : addtable :=
  {| at_name := [80; 80; 84; 84]; at_kind := KPptt; at_new := pptt_new; at_entry := pptt_addition;
     at_new_inv := pptt_new_inv; at_sound := pptt_addition_sound |}.
