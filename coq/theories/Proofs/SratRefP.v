(* SRAT: the Impl model refines the Spec (property C04 as a theorem).
   For every constructor argument and every finite history inside the specification's domain that is a well-formed case
   (builder lists made of builder calls; the byte arrays of an ACPI device handle made of bytes), in both build modes, the
   model accepts the history and its image is byte for byte the reference image `ts_image srat_spec ctor ops`.
   Both well-formedness conditions are necessary: see `srat_refines_refuted_builder` and `srat_refines_refuted_bytes`. *)
From Coq Require Import NArith ZArith List Lia Bool Arith.
From ACPI Require Import Lib.Bytes Lib.Sx Lib.Machine Impl.Checksum Impl.Table Impl.Fields Impl.Run Impl.Madt Impl.Srat
  Spec.Layout Spec.MadtS Spec.SratS Proofs.ChecksumP Proofs.TableP Proofs.MadtP Proofs.Tables Proofs.SratP Proofs.RefCommonP.
Import ListNotations.
Open Scope N_scope.

Definition bit (b : bool) (v : N) : N := if b then v else 0.

(* ---------- Memory Affinity ---------- *)
Definition memaff_wf (o : sx) : bool := match o with SL [SA k] => (1 <=? k) && (k <=? 3) | _ => false end.

Lemma memaff_wf_cases o : memaff_wf o = true -> o = SL [SA 1] \/ o = SL [SA 2] \/ o = SL [SA 3].
Proof.
  unfold memaff_wf. intros H. destruct o as [n|[|[k|?] [|? ?]]]; try discriminate H.
  apply andb_true_iff in H. destruct H as [H1 H2]. apply N.leb_le in H1. apply N.leb_le in H2.
  assert (E : k = 1 \/ k = 2 \/ k = 3) by lia. destruct E as [->|[->| ->]]; auto.
Qed.

Definition mflags (b1 b2 b3 : bool) : N := bit b1 1 + bit b2 2 + bit b3 4.

Lemma mflags_lor1 b1 b2 b3 : N.lor (mflags b1 b2 b3) 1 = mflags true b2 b3.
Proof. destruct b1, b2, b3; reflexivity. Qed.
Lemma mflags_lor2 b1 b2 b3 : N.lor (mflags b1 b2 b3) 2 = mflags b1 true b3.
Proof. destruct b1, b2, b3; reflexivity. Qed.
Lemma mflags_lor4 b1 b2 b3 : N.lor (mflags b1 b2 b3) 4 = mflags b1 b2 true.
Proof. destruct b1, b2, b3; reflexivity. Qed.

Lemma memaff_run bs : forallb memaff_wf bs = true -> forall pd base len c1 c2 c3,
  apply_builders memaff_builder
    {| ma_pd := pd; ma_base := base; ma_len := len; ma_flags := mflags (isS c1) (isS c2) (isS c3) |} bs
  = Some {| ma_pd := pd; ma_base := base; ma_len := len;
            ma_flags := mflags (isS (last_arg 1 bs c1)) (isS (last_arg 2 bs c2)) (isS (last_arg 3 bs c3)) |}.
Proof.
  induction bs as [|o bs IH]; intros Hwf pd base len c1 c2 c3.
  - reflexivity.
  - cbn [forallb] in Hwf. apply andb_true_iff in Hwf. destruct Hwf as [Ho Hbs]. specialize (IH Hbs).
    destruct (memaff_wf_cases o Ho) as [->|[->| ->]];
      cbn [apply_builders memaff_builder]; unfold memaff_or; cbn [ma_pd ma_base ma_len ma_flags].
    + rewrite mflags_lor1. exact (IH pd base len (Some []) c2 c3).
    + rewrite mflags_lor2. exact (IH pd base len c1 (Some []) c3).
    + rewrite mflags_lor4. exact (IH pd base len c1 c2 (Some [])).
Qed.

(* the two dwords the hand-written serialiser extracts from a u64 are the low and high halves *)
Lemma lo32 x : d4 (N.land x LOW32) = le 4 (x mod 2 ^ 32).
Proof. unfold d4. f_equal. change LOW32 with (N.ones 32). apply N.land_ones. Qed.

Lemma hi32 x : d4 (N.land (N.shiftr x 32) LOW32) = le 4 (x / 2 ^ 32).
Proof.
  unfold d4. change LOW32 with (N.ones 32). rewrite N.land_ones, N.shiftr_div_pow2.
  exact (le_mod 4 (x / 2 ^ 32)).
Qed.

Lemma srat_memaff_is_reference pd base len bs : forallb memaff_wf bs = true ->
  exists m, apply_builders memaff_builder (memaff_new pd base len) bs = Some m /\
            srat_entry_ref (SL [SA 1; SA pd; SA base; SA len; SL bs]) = Some (memaff_bytes m).
Proof.
  intros Hwf. pose proof (memaff_run bs Hwf pd base len None None None) as Hrun.
  eexists. split; [exact Hrun|].
  unfold memaff_bytes. cbn [ma_pd ma_base ma_len ma_flags]. rewrite !hi32, !lo32. reflexivity.
Qed.

(* ---------- device handles ---------- *)
(* the byte arrays of Handle::new_acpi are arrays of bytes *)
Definition handle_wf (h : sx) : bool :=
  match h with
  | SL [SA 0; hid; uid] =>
      match sx_bytes hid, sx_bytes uid with Some a, Some b => bytes_ok a && bytes_ok b | _, _ => true end
  | _ => true
  end.

Lemma in_range n k : k < N.of_nat n -> In k (map N.of_nat (seq 0 n)).
Proof. intros H. apply in_map_iff. exists (N.to_nat k). split; [lia|]. apply in_seq. lia. Qed.

(* (device << 3) | function is device * 8 + function on the specification's domain *)
Lemma devfn_ok dev fn : dev < 32 -> fn < 8 -> devfn dev fn = dev * 8 + fn.
Proof.
  intros Hd Hf.
  assert (H : forallb (fun d => forallb (fun f => devfn d f =? d * 8 + f) (map N.of_nat (seq 0 8)))
                      (map N.of_nat (seq 0 32)) = true) by (vm_compute; reflexivity).
  rewrite forallb_forall in H. specialize (H dev (in_range 32 dev Hd)).
  rewrite forallb_forall in H. specialize (H fn (in_range 8 fn Hf)). now apply N.eqb_eq in H.
Qed.

Definition handle_type (hd : handle) : N := match hd with HAcpi _ _ => 0 | HPci _ _ _ _ => 1 end.

Lemma srat_handle_is_reference h ty hb : handle_wf h = true -> srat_handle_ref h = Some (ty, hb) ->
  exists hd, sx_handle h = Some hd /\ handle_bytes hd = hb /\ handle_type hd = ty /\ bytes_ok hb = true.
Proof.
  intros Hwf H. pose proof H as H'. unfold srat_handle_ref in H'. repeat dvar H'.
  - (* ACPI: HID and UID *)
    cbn [handle_wf] in Hwf. clear H.
    match type of H' with context [match sx_bytes ?a with _ => _ end] => destruct (sx_bytes a) as [hidb|] eqn:Ehid; [|discriminate H'] end.
    match type of H' with context [match sx_bytes ?a with _ => _ end] => destruct (sx_bytes a) as [uidb|] eqn:Euid; [|discriminate H'] end.
    match type of H' with context [if ?c then _ else _] => destruct c eqn:Ec; [|discriminate H'] end. apply andb_true_iff in Ec. destruct Ec as [Hl8 Hl4].
    apply Nat.eqb_eq in Hl8. apply Nat.eqb_eq in Hl4.
    destruct (lay 16 _) as [x|] eqn:El; [|discriminate H']. cbn [option_map] in H'. inversion H'; subst ty x; clear H'.
    apply lay_some in El. apply andb_true_iff in Hwf. destruct Hwf as [Hb1 Hb2].
    exists (HAcpi hidb uidb). split.
    + cbn [sx_handle]. rewrite (sx_arr_of_bytes _ _ _ Ehid Hl8), (sx_arr_of_bytes _ _ _ Euid Hl4). reflexivity.
    + split; [|split; [reflexivity|rewrite El; apply bytes_ok_assemble]].
      rewrite El, !assemble_app, !assemble_LB, (mod256_bytes _ Hb1), (mod256_bytes _ Hb2). reflexivity.
  - (* PCI, new_pci *)
    clear H. match type of H' with context [if ?c then _ else _] => destruct c eqn:Ec; [|discriminate H'] end.
    apply andb_true_iff in Ec. destruct Ec as [Hd Hf]. pose proof Hd as Hd'. pose proof Hf as Hf'.
    apply N.ltb_lt in Hd. apply N.ltb_lt in Hf.
    destruct (lay 16 _) as [x|] eqn:El; [|discriminate H']. cbn [option_map] in H'. inversion H'; subst ty x; clear H'.
    apply lay_some in El. eexists. split.
    + cbn [sx_handle]. unfold pci_ok. rewrite Hd', Hf'. reflexivity.
    + cbn [handle_bytes handle_type]. split; [|split; [reflexivity|rewrite El; apply bytes_ok_assemble]].
      rewrite El, (devfn_ok _ _ Hd Hf). reflexivity.
  - (* PCI, struct literal *)
    clear H. match type of H' with context [if ?c then _ else _] => destruct c eqn:Ec; [|discriminate H'] end.
    apply andb_true_iff in Ec. destruct Ec as [Hd Hf]. apply N.ltb_lt in Hd. apply N.ltb_lt in Hf.
    destruct (lay 16 _) as [x|] eqn:El; [|discriminate H']. cbn [option_map] in H'. inversion H'; subst ty x; clear H'.
    apply lay_some in El. eexists. split; [reflexivity|]. cbn [handle_bytes handle_type].
    split; [|split; [reflexivity|rewrite El; apply bytes_ok_assemble]].
    rewrite El, (devfn_ok _ _ Hd Hf). reflexivity.
Qed.

(* ---------- Generic Initiator Affinity ---------- *)
Definition geninit_wf (o : sx) : bool := match o with SL [SA k] => (k =? 1) || (k =? 2) | _ => false end.

Lemma geninit_wf_cases o : geninit_wf o = true -> o = SL [SA 1] \/ o = SL [SA 2].
Proof.
  unfold geninit_wf. intros H. destruct o as [n|[|[k|?] [|? ?]]]; try discriminate H.
  apply orb_true_iff in H. destruct H as [H|H]; apply N.eqb_eq in H; subst; auto.
Qed.

Definition gflags2 (b1 b2 : bool) : N := bit b1 1 + bit b2 2.
Lemma gflags2_lor1 b1 b2 : N.lor (gflags2 b1 b2) 1 = gflags2 true b2.
Proof. destruct b1, b2; reflexivity. Qed.
Lemma gflags2_lor2 b1 b2 : N.lor (gflags2 b1 b2) 2 = gflags2 b1 true.
Proof. destruct b1, b2; reflexivity. Qed.

Lemma geninit_run bs : forallb geninit_wf bs = true -> forall pd hd c1 c2,
  apply_builders geninit_builder {| gi_pd := pd; gi_handle := hd; gi_flags := gflags2 (isS c1) (isS c2) |} bs
  = Some {| gi_pd := pd; gi_handle := hd; gi_flags := gflags2 (isS (last_arg 1 bs c1)) (isS (last_arg 2 bs c2)) |}.
Proof.
  induction bs as [|o bs IH]; intros Hwf pd hd c1 c2.
  - reflexivity.
  - cbn [forallb] in Hwf. apply andb_true_iff in Hwf. destruct Hwf as [Ho Hbs]. specialize (IH Hbs).
    destruct (geninit_wf_cases o Ho) as [->| ->];
      cbn [apply_builders geninit_builder]; unfold geninit_or; cbn [gi_pd gi_handle gi_flags].
    + rewrite gflags2_lor1. exact (IH pd hd (Some []) c2).
    + rewrite gflags2_lor2. exact (IH pd hd c1 (Some [])).
Qed.

Lemma srat_geninit_is_reference pd h bs b : handle_wf h = true -> forallb geninit_wf bs = true ->
  srat_entry_ref (SL [SA 2; SA pd; h; SL bs]) = Some b ->
  exists hd g, sx_handle h = Some hd /\
               apply_builders geninit_builder {| gi_pd := pd; gi_handle := hd; gi_flags := 0 |} bs = Some g /\
               geninit_bytes g = b.
Proof.
  intros Hh Hwf H. cbn [srat_entry_ref] in H.
  destruct (srat_handle_ref h) as [[ty hb]|] eqn:Eh; [|discriminate H].
  destruct (srat_handle_is_reference h ty hb Hh Eh) as (hd & Hhd & Hhb & Hty & Hbok).
  apply lay_some in H. rewrite !assemble_app, assemble_LB, (mod256_bytes hb Hbok) in H. subst b.
  exists hd. eexists. split; [exact Hhd|]. split; [exact (geninit_run bs Hwf pd hd None None)|].
  unfold geninit_bytes. cbn [gi_pd gi_handle gi_flags]. fold (handle_type hd). rewrite Hhb, Hty. reflexivity.
Qed.

(* ---------- RINTC Affinity ---------- *)
Definition rintc_wf (o : sx) : bool :=
  match o with SL [SA k] => k =? 1 | SL [SA k; SA _] => k =? 2 | _ => false end.

Lemma rintc_wf_cases o : rintc_wf o = true -> o = SL [SA 1] \/ exists pd, o = SL [SA 2; SA pd].
Proof.
  unfold rintc_wf. intros H. destruct o as [n|[|[k|?] [|[v|?] [|? ?]]]]; try discriminate H;
    apply N.eqb_eq in H; subst; eauto.
Qed.

Definition R (pd u0 u1 u2 u3 fl clock : N) : flds :=
  [F 1 7; F 1 20; F 2 0; F 4 pd; F 1 u0; F 1 u1; F 1 u2; F 1 u3; F 4 fl; F 4 clock].

Lemma bit_lor1 b : N.lor (bit b 1) 1 = 1.
Proof. destruct b; reflexivity. Qed.

Lemma rintc_run bs : forallb rintc_wf bs = true -> forall u0 u1 u2 u3 clock c1 c2,
  apply_builders rintc_aff_builder (R (val c2) u0 u1 u2 u3 (bit (isS c1) 1) clock) bs
  = Some (R (val (last_arg 2 bs c2)) u0 u1 u2 u3 (bit (isS (last_arg 1 bs c1)) 1) clock).
Proof.
  induction bs as [|o bs IH]; intros Hwf u0 u1 u2 u3 clock c1 c2.
  - reflexivity.
  - cbn [forallb] in Hwf. apply andb_true_iff in Hwf. destruct Hwf as [Ho Hbs]. specialize (IH Hbs).
    destruct (rintc_wf_cases o Ho) as [->|[pd ->]].
    + cbn [apply_builders rintc_aff_builder R f_or F]. rewrite bit_lor1.
      exact (IH u0 u1 u2 u3 clock (Some []) c2).
    + exact (IH u0 u1 u2 u3 clock c1 (Some [pd])).
Qed.

Lemma srat_rintc_is_reference uid clock bs b : forallb rintc_wf bs = true ->
  srat_entry_ref (SL [SA 3; uid; SA clock; SL bs]) = Some b ->
  exists u f, sx_arr 4 uid = Some u /\ apply_builders rintc_aff_builder (rintc_aff_new u clock) bs = Some f /\ ser_flds f = b.
Proof.
  intros Hwf H. cbn [srat_entry_ref] in H.
  destruct (sx_bytes uid) as [ub|] eqn:Eu; [|discriminate H].
  destruct (Nat.eqb_spec (length ub) 4) as [Hl|]; [|discriminate H].
  pose proof (sx_arr_of_bytes _ _ _ Eu Hl) as Harr.
  do 4 (destruct ub as [|? ub]; [discriminate Hl|]). destruct ub; [|discriminate Hl].
  eexists. eexists. split; [exact Harr|].
  split; [exact (rintc_run bs Hwf _ _ _ _ clock None None)|].
  match goal with |- ?x = ?y => cut (Some x = Some y); [let E := fresh in intros E; injection E; auto | rewrite <- H; reflexivity] end.
Qed.

(* ---------- every operation ---------- *)
Definition srat_op_wf (o : sx) : bool :=
  match o with
  | SL [SA 1; _; _; _; SL bs] => forallb memaff_wf bs
  | SL [SA 2; _; h; SL bs] => handle_wf h && forallb geninit_wf bs
  | SL [SA 3; _; _; SL bs] => forallb rintc_wf bs
  | _ => true
  end.

(* C04 per entry, for the three structure kinds and all argument values / builder chains / handle forms *)
Theorem srat_entries_are_reference s o b :
  srat_op_wf o = true -> srat_entry_ref o = Some b ->
  exists e, srat_addition s o = Some e /\ a_bytes e = b /\ a_flag e = t_flag s /\ a_returns e = false.
Proof.
  intros Hwf H. pose proof H as H'. unfold srat_entry_ref in H'. repeat dvar H'; clear H'.
  all: cbn [srat_op_wf] in Hwf; cbn [srat_addition].
  all: try (match type of H with srat_entry_ref (SL [SA 1; SA ?pd; SA ?base; SA ?len; SL ?bs]) = _ =>
              destruct (srat_memaff_is_reference pd base len bs Hwf) as (m & Hm & Hr);
              rewrite Hr in H; inversion H; subst b; rewrite Hm; cbn [option_bind];
              eexists; split; [reflexivity|]; repeat split end).
  all: try (match type of H with srat_entry_ref (SL [SA 2; SA ?pd; ?h; SL ?bs]) = _ =>
              apply andb_true_iff in Hwf; destruct Hwf as [Hh Hbs];
              destruct (srat_geninit_is_reference pd h bs b Hh Hbs H) as (hd & g & Hhd & Hg & Hb);
              rewrite Hhd; cbn [option_bind]; rewrite Hg; cbn [option_bind];
              eexists; split; [reflexivity|]; repeat split; exact Hb end).
  all: match type of H with srat_entry_ref (SL [SA 3; ?uid; SA ?clock; SL ?bs]) = _ =>
              destruct (srat_rintc_is_reference uid clock bs b Hwf H) as (u & f & Hu & Hf & Hb);
              rewrite Hu; cbn [option_bind]; rewrite Hf; cbn [option_bind];
              eexists; split; [reflexivity|]; repeat split; exact Hb end.
Qed.

(* ---------- whole histories ---------- *)
Definition srat_ops_wf (ops : list sx) : Prop := Forall (fun o => srat_op_wf o = true) ops.

Definition srat_eref (o : sx) : option (list N) := if srat_op_wf o then srat_entry_ref o else None.

Lemma srat_eref_atom n : srat_eref (SA n) = None.
Proof. reflexivity. Qed.

Lemma srat_step_ok s o rest b : t_kind s = KSrat -> ok_any (t_flag s) (o :: rest) -> srat_eref o = Some b ->
  exists e, srat_addition s o = Some e /\ a_bytes e = b /\ ok_any (a_flag e) rest.
Proof.
  intros _ _ H. unfold srat_eref in H. destruct (srat_op_wf o) eqn:Hwf; [|discriminate].
  destruct (srat_entries_are_reference s o b Hwf H) as (e & He & Hb & _). exists e. repeat split; assumption.
Qed.

Lemma srat_eref_map ops : srat_ops_wf ops -> map srat_eref ops = map srat_entry_ref ops.
Proof.
  induction 1 as [|o ops Ho _ IH]; [reflexivity|]. cbn [map]. rewrite IH. unfold srat_eref. now rewrite Ho.
Qed.

Theorem srat_refines : forall md ctor ops r,
  ts_image srat_spec ctor ops = Some r ->
  srat_ops_wf ops ->
  N.of_nat (length r) < 2 ^ 32 ->
  exists s0 s, srat_new ctor = Some s0 /\ run_adds srat_addition md s0 ops = Some s /\ tbl_image s = r.
Proof.
  intros md ctor ops r Himg Hwf Hfit. cbn [ts_image srat_spec] in Himg. unfold srat_image in Himg.
  destruct ctor as [n|[|o [|t [|rv [|x l]]]]]; try discriminate Himg.
  destruct (sx_hdr_args o t rv) as [ha|] eqn:Eha; [|discriminate Himg].
  destruct (srat_entries_ref ops) as [es|] eqn:Ees; [|discriminate Himg].
  inversion Himg; subst r; clear Himg.
  pose (s0 := tbl_new KSrat (mk_hdr [83; 82; 65; 84] 1 ha) []).
  assert (Hnew : srat_new (SL [o; t; rv]) = Some s0).
  { unfold srat_new. rewrite (sx_hdr_of_args _ _ _ _ _ _ Eha). reflexivity. }
  destruct (sim_image KSrat eq_refl srat_addition srat_addition_sound srat_eref srat_eref_atom ok_any srat_step_ok
              md s0 ops es [83; 82; 65; 84] 1 ha (le 4 1 ++ le 8 0)) as (s & Hr & Hi);
    try reflexivity; try exact Logic.I.
  - exact (srat_new_inv _ _ Hnew).
  - rewrite (srat_eref_map ops Hwf). exact Ees.
  - rewrite <- app_assoc. exact Hfit.
  - exists s0, s. split; [exact Hnew|]. split; [exact Hr|]. rewrite Hi, <- app_assoc. reflexivity.
Qed.

Lemma srat_no_handle s o e : srat_addition s o = Some e -> a_returns e = false.
Proof.
  unfold srat_addition. intros H. repeat dvar H.
  all: repeat match type of H with (do _ <- ?X; _) = _ => destruct X; [|discriminate H]; cbn [option_bind] in H end.
  all: inversion H; subst; reflexivity.
Qed.

(* at the entry point: one EvNum 0 per operation, then the reference image *)
Theorem srat_case_refines : forall md ctor ops r,
  ts_image srat_spec ctor ops = Some r -> srat_ops_wf ops -> N.of_nat (length r) < 2 ^ 32 ->
  srat_case md (SL (ctor :: ops ++ [SA 1])) = map (fun _ => EvNum 0) ops ++ [EvBytes r].
Proof.
  intros md ctor ops r Himg Hwf Hfit.
  destruct (srat_refines md ctor ops r Himg Hwf Hfit) as (s0 & s & Hn & Hr & Hi).
  unfold srat_case, srat_step. rewrite <- Hi.
  apply (run_history_adds srat_addition srat_no_handle md srat_new ctor ops s0 s Hn); [|exact Hr].
  cbn [ts_image srat_spec] in Himg. unfold srat_image in Himg.
  destruct ctor as [n|[|o [|t [|rv [|x l]]]]]; try discriminate Himg.
  destruct (sx_hdr_args o t rv); [|discriminate Himg].
  destruct (srat_entries_ref ops) as [es|] eqn:Ees; [|discriminate Himg].
  unfold srat_entries_ref in Ees. rewrite <- (srat_eref_map ops Hwf) in Ees.
  exact (eref_ops_SL srat_eref srat_eref_atom ops es Ees).
Qed.

(* ---------- the hypothesis `srat_ops_wf` cannot be dropped ---------- *)
Definition srat_witness_ctor : sx :=
  SL [SL [SA 0; SA 0; SA 0; SA 0; SA 0; SA 0]; SL [SA 0; SA 0; SA 0; SA 0; SA 0; SA 0; SA 0; SA 0]; SA 0].

(* (a) the Spec reads "was builder k called" and ignores list elements that are not a builder call; the model (like the harness)
   refuses an unknown builder.  Smallest witness: one Memory Affinity structure with the builder list (0). *)
Definition srat_witness_ops_a : list sx := [SL [SA 1; SA 0; SA 0; SA 0; SL [SA 0]]].

Example srat_refines_refuted_builder :
  exists r, ts_image srat_spec srat_witness_ctor srat_witness_ops_a = Some r /\ N.of_nat (length r) < 2 ^ 32 /\
    forall md, exists s0, srat_new srat_witness_ctor = Some s0 /\ run_adds srat_addition md s0 srat_witness_ops_a = None.
Proof.
  eexists. split; [vm_compute; reflexivity|]. split; [vm_compute; reflexivity|].
  intros md. eexists. split; [reflexivity|]. destruct md; vm_compute; reflexivity.
Qed.

(* (b) the model's Handle::Acpi keeps the [u8; 8] / [u8; 4] arguments as given (no truncation: the Rust type is already u8),
   the Spec lays every array element out as one byte (mod 256).  With an element >= 256 (not expressible in Rust) the model
   accepts the history but its "image" contains the non-byte. *)
Definition srat_witness_ops_b : list sx :=
  [SL [SA 2; SA 0; SL [SA 0; SL [SA 256; SA 0; SA 0; SA 0; SA 0; SA 0; SA 0; SA 0]; SL [SA 0; SA 0; SA 0; SA 0]]; SL []]].

Example srat_refines_refuted_bytes :
  exists r, ts_image srat_spec srat_witness_ctor srat_witness_ops_b = Some r /\ N.of_nat (length r) < 2 ^ 32 /\
    forall md, exists s0 s, srat_new srat_witness_ctor = Some s0 /\
                            run_adds srat_addition md s0 srat_witness_ops_b = Some s /\ tbl_image s <> r.
Proof.
  eexists. split; [vm_compute; reflexivity|]. split; [vm_compute; reflexivity|].
  intros md. eexists. eexists. split; [reflexivity|]. split; [destruct md; vm_compute; reflexivity|].
  destruct md; vm_compute; discriminate.
Qed.

Print Assumptions srat_entries_are_reference.
Print Assumptions srat_refines.
Print Assumptions srat_case_refines.
Print Assumptions srat_refines_refuted_builder.
Print Assumptions srat_refines_refuted_bytes.
