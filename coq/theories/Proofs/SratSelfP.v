(* SRAT, property C03, per-entry part: the reference image of every in-domain history passes the self-check
   (every affinity structure has the size the specification assigns to its type). *)
From Coq Require Import NArith ZArith List Lia Bool Arith.
From ACPI Require Import Lib.Bytes Lib.Sx Spec.Layout Spec.MadtS Spec.SratS Spec.SelfCheck Judge
  Proofs.WalkP Proofs.RefCommonP Proofs.WalkRefCommon2P Proofs.SratWalkRefP Proofs.SelfCommonP.
Import ListNotations.
Open Scope N_scope.

Lemma srat_entry_self_ok o b : srat_entry_ref o = Some b -> entry_self_ok 13 (nth 0 b 0) b = true.
Proof.
  intros H. unfold srat_entry_ref in H. repeat dvar H.
  all: try (destruct (srat_handle_ref _) as [[ty hb]|]; [|discriminate H]).
  all: try (destruct (sx_bytes _) as [ub|]; [|discriminate H]; destruct (Nat.eqb _ _); [|discriminate H]).
  all: cbn [app] in H; cbn [entry_self_ok]; eapply lay_u8_fixed; [exact H|reflexivity].
Qed.

Theorem srat_selfcheck : forall ctor ops r, ts_image srat_spec ctor ops = Some r -> c03_self 13 r = true.
Proof.
  intros ctor ops r Himg. cbn [ts_image srat_spec] in Himg. unfold srat_image in Himg.
  destruct ctor as [n|[|o [|t [|rv [|x l]]]]]; try discriminate Himg.
  destruct (sx_hdr_args o t rv) as [ha|] eqn:Eha; [|discriminate Himg].
  destruct (srat_entries_ref ops) as [es|] eqn:Ees; [|discriminate Himg].
  apply wr_Some_inj in Himg. subst r.
  destruct (sx_hdr_args_len _ _ _ _ Eha) as [Ho Ht].
  unfold c03_self. change (ts_walk (spec_of 13)) with (Some (48%nat, H_u8_u8)).
  rewrite (app_assoc (le 4 1)).
  apply (c03_self_at_ref 13 48%nat H_u8_u8 (fun e => nth 0 e 0)); try assumption; try reflexivity.
  - apply (opt_concat_forall srat_entry_ref _ srat_entry_self ops es Ees).
  - apply (opt_concat_forall srat_entry_ref _ srat_entry_self_ok ops es Ees).
Qed.

Print Assumptions srat_selfcheck.
