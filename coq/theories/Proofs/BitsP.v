(* Bit-operation lemmas: masks, shifts and disjoint ors as arithmetic. *)
From Coq Require Import NArith ZArith List Lia Bool.
From ACPI Require Import Lib.Bytes.
Import ListNotations.
Open Scope N_scope.

Lemma land_15 x : N.land x 15 = x mod 16.
Proof. change 15 with (N.ones 4). rewrite N.land_ones. reflexivity. Qed.

Lemma land_ones_k x k : N.land x (N.ones k) = x mod 2 ^ k.
Proof. apply N.land_ones. Qed.

Lemma shiftr_div x k : N.shiftr x k = x / 2 ^ k.
Proof. apply N.shiftr_div_pow2. Qed.

Lemma shiftl_mul x k : N.shiftl x k = x * 2 ^ k.
Proof. apply N.shiftl_mul_pow2. Qed.

(* a field below bit k or-ed with a value shifted to bit k is their sum *)
Lemma lor_disjoint a b k : a < 2 ^ k -> N.lor (b * 2 ^ k) a = b * 2 ^ k + a.
Proof.
  intros Ha.
  assert (Hland : N.land (b * 2 ^ k) a = 0).
  { apply N.bits_inj_0. intros i. rewrite N.land_spec.
    destruct (N.lt_ge_cases i k) as [Hi|Hi].
    - rewrite N.mul_pow2_bits_low by exact Hi. reflexivity.
    - destruct (N.eq_dec a 0) as [->|Hnz]; [rewrite N.bits_0; apply andb_false_r|].
      rewrite (N.bits_above_log2 a i); [apply andb_false_r|].
      apply N.log2_lt_pow2 in Ha; lia. }
  rewrite <- N.lxor_lor by exact Hland.
  symmetry. apply N.add_nocarry_lxor. exact Hland.
Qed.

Lemma lor_disjoint' a b k : a < 2 ^ k -> N.lor a (b * 2 ^ k) = b * 2 ^ k + a.
Proof. intros H. rewrite N.lor_comm. now apply lor_disjoint. Qed.

Lemma lor_shiftl_6 c y : y < 16 -> N.lor (N.shiftl c 6) y = c * 64 + y.
Proof.
  intros H. rewrite shiftl_mul. change (2 ^ 6) with 64.
  change 64 with (2 ^ 6). apply lor_disjoint. change (2 ^ 6) with 64. lia.
Qed.

Lemma lor_add_low hi lo k : hi mod 2 ^ k = 0 -> lo < 2 ^ k -> N.lor hi lo = hi + lo.
Proof.
  intros Hhi Hlo.
  assert (Hp : 2 ^ k <> 0) by (apply N.pow_nonzero; lia).
  rewrite (N.div_mod hi (2 ^ k) Hp) at 1 2. rewrite Hhi, N.add_0_r.
  rewrite (N.mul_comm (2 ^ k)). now apply lor_disjoint.
Qed.
