(* VIOT: every node an accepted add_* pushes describes itself (type u8, reserved u8, length u16) -- the walk instance for
   C03 -- and the narrow fields of the table hold the true values (C18):
     node length (u16 at offset 2 of each node), the table's node count (u16 at offset 36) and node offset (u16 at 38).
   The node count is emitted as `nodes.len() as u16` (a truncating cast), but the u16 handle offset is advanced with
   checked_add(..).expect(..), which refuses -- in both build profiles -- as soon as the table would reach 65536 bytes;
   every node has at least 16 bytes, so the count never exceeds 4092 and the cast never truncates. *)
From Coq Require Import NArith ZArith List Lia Bool Arith.
From ACPI Require Import Lib.Bytes Lib.Sx Lib.Machine Impl.Checksum Impl.Table Impl.Fields Impl.Run Impl.Madt Impl.Viot
  Spec.Layout Proofs.ChecksumP Proofs.TableP Proofs.MadtP Proofs.Tables Proofs.RimtP Proofs.ViotP Proofs.WalkP
  Proofs.WalkW3Common.
Import ListNotations.
Open Scope N_scope.

(* ---- (A) the walk instance ---- *)

Lemma pci_range_self f l h : exists ty, self_describing H_u8_x_u16 (pci_range_bytes f l h) ty.
Proof. eexists. unfold pci_range_bytes. apply u8_x_u16_self; reflexivity. Qed.
Lemma mmio_endpoint_self ep base h : exists ty, self_describing H_u8_x_u16 (mmio_endpoint_bytes ep base h) ty.
Proof. eexists. unfold mmio_endpoint_bytes. apply u8_x_u16_self; reflexivity. Qed.
Lemma virtio_pci_self d : exists ty, self_describing H_u8_x_u16 (virtio_pci_bytes d) ty.
Proof. eexists. unfold virtio_pci_bytes. apply u8_x_u16_self; reflexivity. Qed.
Lemma virtio_mmio_self base : exists ty, self_describing H_u8_x_u16 (virtio_mmio_bytes base) ty.
Proof. eexists. unfold virtio_mmio_bytes. apply u8_x_u16_self; reflexivity. Qed.

Lemma viot_addition_self s o e : viot_addition s o = Some e -> exists ty, self_describing H_u8_x_u16 (a_bytes e) ty.
Proof.
  intros H. unfold viot_addition in H.
  split_matches H; apply Some_inj in H; subst e; cbn [a_bytes];
    first [apply pci_range_self | apply mmio_endpoint_self | apply virtio_pci_self | apply virtio_mmio_self].
Qed.

Lemma viot_new_empty c s0 : viot_new c = Some s0 -> t_ents s0 = [].
Proof.
  unfold viot_new. destruct c as [|l]; [discriminate|].
  destruct l as [|o [|t [|r [|x l]]]]; try discriminate.
  destruct (sx_hdr _ _ _ _ _); [|discriminate]. cbn [option_bind].
  intros H. apply Some_inj in H. subst. reflexivity.
Qed.

Definition viot_walk : walktable :=
  {| wt_table := viot_table; wt_ehdr := H_u8_x_u16; wt_self := viot_addition_self; wt_new_empty := viot_new_empty |}.

(* ---- (B) node lengths ---- *)

(* the u16 at offset 2 of every node is the number of bytes the node occupies *)
Lemma viot_node_length_exact s o e :
  viot_addition s o = Some e -> field_at (a_bytes e) 2 2 = N.of_nat (length (a_bytes e)).
Proof.
  intros H. destruct (viot_addition_self s o e H) as [ty Hty]. exact (u8_x_u16_self_len_field _ _ Hty).
Qed.

(* the node lengths are the constants 24 / 16 (no caller-controlled size: nothing to refuse at this site) *)
Lemma viot_node_sizes s o e : viot_addition s o = Some e ->
  (length (a_bytes e) = 24%nat \/ length (a_bytes e) = 16%nat) /\ a_claimed e = N.of_nat (length (a_bytes e)).
Proof.
  intros H. unfold viot_addition in H.
  split_matches H; apply Some_inj in H; subst e; cbn [a_bytes a_claimed];
    rewrite ?pci_range_len, ?mmio_endpoint_len, ?virtio_pci_len, ?virtio_mmio_len; split; auto.
Qed.

(* ---- (C) the table's u16 node count and node offset ---- *)

(* one accepted step keeps the kind and leaves the u16 handle offset below 2^16: checked_add(..).expect(..) *)
Lemma viot_step_hoff md s o s' evs :
  t_kind s = KViot -> add_step viot_addition md s o = Some (s', evs) -> t_kind s' = KViot /\ t_hoff s' < 2 ^ 16.
Proof.
  intros Hk H. unfold add_step in H.
  destruct (viot_addition s o) as [e|]; [|discriminate]. cbn [option_bind] in H.
  destruct (tbl_add md s (a_style e) (a_claimed e) (a_bytes e)) as [[s1 h]|] eqn:E; [|discriminate].
  cbn [option_bind fst snd] in H. apply Some_inj in H.
  assert (Hs : s' = set_flag s1 (a_flag e)) by congruence. subst s'. clear H.
  unfold tbl_add in E. rewrite Hk in E.
  destruct (add_c U32 (cast U32 (a_claimed e)) (t_len s)); [|discriminate]. cbn [option_bind] in E.
  destruct (add_c U16 (t_hoff s) (cast U16 (a_claimed e))) as [nh|] eqn:Eh; [|discriminate]. cbn [option_bind] in E.
  apply Some_inj in E. assert (Hs1 : s1 = fst (s1, h)) by reflexivity. rewrite <- E in Hs1. cbn [fst] in Hs1. subst s1.
  cbn [set_flag t_kind t_hoff]. split; [reflexivity|].
  unfold add_c in Eh. destruct (N.ltb_spec (t_hoff s + cast U16 (a_claimed e)) U16) as [Hlt|]; [|discriminate].
  apply Some_inj in Eh. subst nh. exact Hlt.
Qed.

Lemma viot_run_hoff md ops : forall s s',
  t_kind s = KViot -> t_hoff s < 2 ^ 16 -> run_adds viot_addition md s ops = Some s' -> t_kind s' = KViot /\ t_hoff s' < 2 ^ 16.
Proof.
  induction ops as [|o ops IH]; intros s s' Hk Hh H; cbn [run_adds] in H.
  - apply Some_inj in H. subst. auto.
  - destruct o as [n|l]; [now apply (IH s)|].
    destruct (add_step viot_addition md s (SL l)) as [[s1 evs]|] eqn:E; [|discriminate].
    destruct (viot_step_hoff md s (SL l) s1 evs Hk E) as [Hk1 Hh1]. now apply (IH s1).
Qed.

Lemma viot_new_hoff c s0 : viot_new c = Some s0 -> t_kind s0 = KViot /\ t_hoff s0 < 2 ^ 16.
Proof.
  unfold viot_new. destruct c as [|l]; [discriminate|].
  destruct l as [|o [|t [|r [|x l]]]]; try discriminate.
  destruct (sx_hdr _ _ _ _ _); [|discriminate]. cbn [option_bind].
  intros H. apply Some_inj in H. subst. split; reflexivity.
Qed.

Lemma viot_node_min s o e : viot_addition s o = Some e -> (16 <= length (a_bytes e))%nat.
Proof. intros H. destruct (viot_node_sizes s o e H) as [[Hl|Hl] _]; rewrite Hl; lia. Qed.

Lemma concat_len_ge16 (l : list (list N)) :
  Forall (fun e => (16 <= length e)%nat) l -> (16 * length l <= length (concat l))%nat.
Proof.
  induction 1 as [|x l Hx _ IH]; [cbn; lia|]. cbn [concat length]. rewrite app_length. lia.
Qed.

(* the invariant together with "shorter than 2^16 bytes" is preserved by every accepted step *)
Lemma viot_run_small md ops : forall s s',
  Inv2 KViot s -> N.of_nat (length (tbl_image s)) < 2 ^ 16 -> run_adds viot_addition md s ops = Some s' ->
  Inv2 KViot s' /\ N.of_nat (length (tbl_image s')) < 2 ^ 16.
Proof.
  induction ops as [|o ops IH]; intros s s' I Hl H; cbn [run_adds] in H.
  - apply Some_inj in H. subst. auto.
  - destruct o as [n|l]; [now apply (IH s)|].
    destruct (add_step viot_addition md s (SL l)) as [[s1 evs]|] eqn:E; [|discriminate].
    pose proof I as (I0 & HK & _).
    destruct (viot_step_hoff md s (SL l) s1 evs HK E) as [_ Hh1].
    destruct (add_step_length viot_addition md s (SL l) s1 evs (inv_hdr s I0) E) as (e & Ee & Hlen).
    destruct (viot_node_sizes s (SL l) e Ee) as [Hsz _].
    assert (Hfit : N.of_nat (length (tbl_image s1)) < 2 ^ 32).
    { rewrite Hlen. change (2 ^ 16) with 65536 in Hl. change (2 ^ 32) with 4294967296. destruct Hsz as [Hz|Hz]; rewrite Hz; lia. }
    destruct (add_step_inv KViot viot_addition viot_addition_sound md s (SL l) s1 evs I E Hfit) as (I1 & _).
    apply (IH s1 s' I1); [|exact H]. rewrite <- (inv_hoff s1 (proj1 I1)). exact Hh1.
Qed.

(* every accepted history: the table is shorter than 2^16 bytes and holds at most 4092 nodes *)
Lemma viot_history_small md c ops s0 s :
  viot_new c = Some s0 -> run_adds viot_addition md s0 ops = Some s ->
  N.of_nat (length (tbl_image s)) < 2 ^ 16 /\ (length (t_ents s) <= 4092)%nat.
Proof.
  intros Hn Hr.
  pose proof (viot_new_inv c s0 Hn) as I0.
  destruct (viot_new_hoff c s0 Hn) as [_ Hh0]. rewrite (inv_hoff s0 (proj1 I0)) in Hh0.
  destruct (viot_run_small md ops s0 s I0 Hh0 Hr) as [I Hlen].
  split; [exact Hlen|].
  assert (Hfit : N.of_nat (length (tbl_image s)) < 2 ^ 32).
  { change (2 ^ 16) with 65536 in Hlen. change (2 ^ 32) with 4294967296. lia. }
  assert (HF : Forall (fun e => (16 <= length e)%nat) (t_ents s)).
  { apply (run_adds_forall KViot viot_addition viot_addition_sound _ md ops s0 s); auto.
    - intros s1 o e He. exact (viot_node_min s1 o e He).
    - rewrite (viot_new_empty c s0 Hn). constructor. }
  pose proof (concat_len_ge16 _ HF) as Hc.
  destruct I as (I & Hk & _).
  rewrite (length_image s (inv_hdr s I)), Hk in Hlen. unfold t_body in Hlen.
  change (length (mid KViot (t_pre s) 0)) with 12%nat in Hlen. change (2 ^ 16) with 65536 in Hlen. lia.
Qed.

(* the u16 node count at offset 36 is the number of nodes added, and the u16 node offset at 38 is where the first node
   starts (48), after every accepted history, in both build profiles *)
Theorem viot_node_count_exact md c ops s0 s :
  viot_new c = Some s0 -> run_adds viot_addition md s0 ops = Some s ->
  field_at (tbl_image s) 36 2 = N.of_nat (length (t_ents s)) /\
  field_at (tbl_image s) 38 2 = 48 /\
  (36 + length (mid (t_kind s) (t_pre s) 0))%nat = 48%nat.
Proof.
  intros Hn Hr.
  destruct (viot_history_small md c ops s0 s Hn Hr) as [Hlen Hcnt].
  assert (Hfit : N.of_nat (length (tbl_image s)) < 2 ^ 32).
  { change (2 ^ 16) with 65536 in Hlen. change (2 ^ 32) with 4294967296. lia. }
  destruct (addtable_reach viot_table md c ops s0 s Hn Hr Hfit) as (I & Hk & _).
  cbn [at_kind viot_table] in Hk.
  pose proof (length_hdr_bytes (t_hdr s) (t_len s) (t_hck s) (inv_hdr s I)) as Hhl.
  unfold field_at, tbl_image. rewrite Hk. cbn [mid].
  set (X := (w2 (t_cnt s) ++ w2 48 ++ q8 0) ++ t_body s).
  pose proof (skipn_app_exact (hdr_bytes (t_hdr s) (t_len s) (t_hck s)) X) as Hsk. rewrite Hhl in Hsk.
  split; [|split; [|reflexivity]].
  - rewrite Hsk. unfold X, w2. rewrite <- !app_assoc, firstn_le_app.
    rewrite unle_le_small; [exact (inv_cnt s I)|]. rewrite (inv_cnt s I). change (2 ^ (8 * N.of_nat 2)) with 65536. lia.
  - change 38%nat with (36 + 2)%nat. rewrite <- skipn_skipn_add, Hsk. unfold X, w2.
    rewrite <- !app_assoc, skipn_le_app, firstn_le_app. reflexivity.
Qed.

(* refusal: an addition that would take the table to 65536 bytes or more is refused in both build profiles (this is
   what keeps the node count inside its field) *)
Theorem viot_offset_refuses md s o e :
  t_kind s = KViot -> viot_addition s o = Some e -> 2 ^ 16 <= t_hoff s + N.of_nat (length (a_bytes e)) ->
  add_step viot_addition md s o = None.
Proof.
  intros Hk He Hbig. unfold add_step. rewrite He. cbn [option_bind].
  destruct (viot_node_sizes s o e He) as [Hsz Hcl].
  unfold tbl_add. rewrite Hk.
  destruct (add_c U32 (cast U32 (a_claimed e)) (t_len s)); [|reflexivity]. cbn [option_bind].
  unfold add_c, cast, U16. rewrite (N.mod_small (a_claimed e)).
  - rewrite Hcl. destruct (N.ltb_spec (t_hoff s + N.of_nat (length (a_bytes e))) (2 ^ 16)); [lia|reflexivity].
  - rewrite Hcl. change (2 ^ 16) with 65536. destruct Hsz as [Hz|Hz]; rewrite Hz; lia.
Qed.

(* after every accepted history every node carries its true size *)
Corollary viot_history_node_lengths md c ops s0 s :
  viot_new c = Some s0 -> run_adds viot_addition md s0 ops = Some s ->
  Forall (fun e => field_at e 2 2 = N.of_nat (length e)) (t_ents s).
Proof.
  intros Hn Hr.
  destruct (viot_history_small md c ops s0 s Hn Hr) as [Hlen _].
  assert (Hfit : N.of_nat (length (tbl_image s)) < 2 ^ 32).
  { change (2 ^ 16) with 65536 in Hlen. change (2 ^ 32) with 4294967296. lia. }
  destruct (walktable_tiles viot_walk md c ops s0 s Hn Hr Hfit) as (tys & HF & _).
  cbn [wt_ehdr viot_walk] in HF. clear -HF.
  induction HF as [|e ty es tys He _ IH]; constructor; [exact (u8_x_u16_self_len_field _ _ He)|exact IH].
Qed.

Print Assumptions viot_walk.
Print Assumptions viot_node_length_exact.
Print Assumptions viot_history_small.
Print Assumptions viot_node_count_exact.
Print Assumptions viot_offset_refuses.
Print Assumptions viot_history_node_lengths.
