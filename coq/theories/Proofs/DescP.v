(* Resource descriptors and templates (C10). *)
From Coq Require Import NArith ZArith List Lia Bool Arith.
From ACPI Require Import Lib.Bytes Lib.Sx Lib.Machine Impl.AmlCore Impl.AmlTerm Spec.AmlCoreS Spec.AmlTermS
  Proofs.PkgLenP Proofs.IntP Proofs.AmlFrameP.
Import ListNotations.
Open Scope N_scope.

Definition desc_tag (d : desc) : N :=
  match d with
  | DMem32 _ _ _ => 0x86
  | DAddr w _ _ _ _ _ _ => if w =? 16 then 0x88 else if w =? 32 then 0x87 else 0x8A
  | DIO _ _ _ _ => 0x47
  | DIrq _ _ _ _ _ => 0x89
  | DReg _ _ _ _ _ => 0x82
  end.

Definition desc_payload_len (d : desc) : nat :=
  match d with
  | DMem32 _ _ _ => 9
  | DAddr w _ _ _ _ _ _ => if w =? 16 then 13 else if w =? 32 then 23 else 43
  | DIO _ _ _ _ => 7
  | DIrq _ _ _ _ _ => 6
  | DReg _ _ _ _ _ => 12
  end.

Lemma rd_walk_large tag payload f r :
  0x80 <= tag -> N.of_nat (length payload) < 65536 ->
  rd_walk (S f) ((tag :: le 2 (N.of_nat (length payload)) ++ payload) ++ r) = option_map (cons (tag, payload)) (rd_walk f r).
Proof.
  intros Ht Hl. cbn [rd_walk app le]. destruct (N.ltb_spec tag 128); [lia|].
  set (n := N.of_nat (length payload)) in *.
  replace (N.to_nat (n mod 256 + 256 * ((n / 256) mod 256))) with (length payload).
  2:{ unfold n. rewrite <- (Nat2N.id (length payload)) at 1. f_equal.
      assert (N.of_nat (length payload) / 256 < 256) by (apply N.div_lt_upper_bound; lia).
      rewrite (N.mod_small (N.of_nat (length payload) / 256)) by assumption.
      rewrite (N.div_mod (N.of_nat (length payload)) 256) at 1 by lia. lia. }
  assert (E : Nat.ltb (length (payload ++ r)) (length payload) = false) by (apply Nat.ltb_ge; rewrite app_length; lia).
  rewrite E, firstn_app_exact, skipn_app_exact. destruct (rd_walk f r); reflexivity.
Qed.

Lemma rd_walk_small tag payload f r :
  tag < 0x80 -> N.to_nat (tag mod 8) = length payload ->
  rd_walk (S f) ((tag :: payload) ++ r) = option_map (cons (tag, payload)) (rd_walk f r).
Proof.
  intros Ht Hl. cbn [rd_walk app]. destruct (N.ltb_spec tag 128); [|lia]. rewrite Hl.
  assert (E : Nat.ltb (length (payload ++ r)) (length payload) = false) by (apply Nat.ltb_ge; rewrite app_length; lia).
  rewrite E, firstn_app_exact, skipn_app_exact. destruct (rd_walk f r); reflexivity.
Qed.

(* every descriptor starts with its tag, and the walk by its own length field consumes exactly its bytes *)
Lemma desc_framed d b :
  enc_desc d = Some b ->
  exists payload, length payload = desc_payload_len d /\
    forall f r, rd_walk (S f) (b ++ r) = option_map (cons (desc_tag d, payload)) (rd_walk f r).
Proof.
  destruct d as [rw base len|w ty ca rw min max tr|min max al len|c e a s n|sp wd off ac ad]; cbn [enc_desc].
  - intros H. assert (Eb : b = [0x86] ++ w2 9 ++ [rw] ++ d4 base ++ d4 len) by congruence. clear H. subst b.
    exists ([rw] ++ d4 base ++ d4 len). split; [reflexivity|]. intros f r.
    apply (rd_walk_large 0x86 ([rw] ++ d4 base ++ d4 len)); [lia|cbn; lia].
  - destruct (N.eqb_spec w 16) as [->|H16]; [|destruct (N.eqb_spec w 32) as [->|H32]; [|destruct (N.eqb_spec w 64) as [->|H64]]];
      cbn [option_bind]; try discriminate;
      (destruct (sub_c max min) as [diff|]; [|discriminate]); cbn [option_bind];
      match goal with |- context [add_c ?m diff 1] => destruct (add_c m diff 1) as [ln|]; [|discriminate] end;
      cbn [option_bind];
      match goal with |- Some ([?tag] ++ w2 ?n ++ ?pl) = Some b -> _ =>
        intros H; assert (Eb : b = [tag] ++ w2 n ++ pl) by congruence; clear H; subst b;
        exists pl; split; [reflexivity|]; intros f r; apply (rd_walk_large tag pl); [cbn; lia|cbn; lia] end.
  - intros H. assert (Eb : b = [0x47; 1] ++ w2 min ++ w2 max ++ [al; len]) by congruence. clear H. subst b.
    exists ([1] ++ w2 min ++ w2 max ++ [al; len]). split; [reflexivity|]. intros f r.
    apply (rd_walk_small 0x47 ([1] ++ w2 min ++ w2 max ++ [al; len])); [lia|reflexivity].
  - match goal with |- Some ([?tag] ++ w2 ?n ++ ?pl) = Some b -> _ =>
      intros H; assert (Eb : b = [tag] ++ w2 n ++ pl) by congruence; clear H; subst b;
      exists pl; split; [reflexivity|]; intros f r; apply (rd_walk_large tag pl); [lia|cbn; lia] end.
  - match goal with |- Some ([?tag] ++ w2 ?n ++ ?pl) = Some b -> _ =>
      intros H; assert (Eb : b = [tag] ++ w2 n ++ pl) by congruence; clear H; subst b;
      exists pl; split; [reflexivity|]; intros f r; apply (rd_walk_large tag pl); [lia|cbn; lia] end.
Qed.

(* address spaces: exactly the reference layout, with length = max - min + 1 and MinFixed|MaxFixed set;
   accepted iff min <= max and the size is representable in the field *)
Lemma addr_space_layout w k tag ty ca rw min max tr b :
  (w = 16 /\ k = 2%nat /\ tag = 0x88) \/ (w = 32 /\ k = 4%nat /\ tag = 0x87) \/ (w = 64 /\ k = 8%nat /\ tag = 0x8A) ->
  enc_desc (DAddr w ty ca rw min max tr) = Some b ->
  min <= max /\ max - min + 1 < 2 ^ (8 * N.of_nat k) /\
  b = [tag] ++ le 2 (N.of_nat (3 + 5 * k)) ++
      [ty; 0x0C; match ty with 0 => N.lor (cast U8 (N.shiftl ca 1)) rw | 1 => 3 | _ => 0 end] ++
      le k 0 ++ le k min ++ le k max ++ le k (match (match ty with 2 => None | _ => tr end) with Some t => t | None => 0 end) ++
      le k (max - min + 1).
Proof.
  intros Hw. cbn [enc_desc].
  assert (Hsub : forall d, sub_c max min = Some d -> min <= max /\ d = max - min).
  { unfold sub_c. intros d. destruct (N.leb_spec min max); intros E; inversion E; split; [assumption|reflexivity]. }
  destruct Hw as [(-> & -> & ->)|[(-> & -> & ->)|(-> & -> & ->)]]; cbn [N.eqb Pos.eqb option_bind];
    change (16 =? 16) with true; change (32 =? 16) with false; change (32 =? 32) with true;
    change (64 =? 16) with false; change (64 =? 32) with false; change (64 =? 64) with true; cbn [option_bind];
    destruct (sub_c max min) as [diff|] eqn:Es; try discriminate; cbn [option_bind];
    destruct (Hsub diff eq_refl) as [Hle ->];
    unfold add_c; match goal with |- context [?a + 1 <? ?m] => destruct (N.ltb_spec (a + 1) m) as [Hlt|Hge] end;
    try discriminate; cbn [option_bind]; intros H; inversion H; subst; (split; [exact Hle|split; [exact Hlt|reflexivity]]).
Qed.

Lemma addr_space_refuse w ty ca rw min max tr k m :
  (w = 16 /\ k = 2%nat /\ m = U16) \/ (w = 32 /\ k = 4%nat /\ m = U32) \/ (w = 64 /\ k = 8%nat /\ m = U64) ->
  max < min \/ m <= max - min + 1 -> enc_desc (DAddr w ty ca rw min max tr) = None.
Proof.
  intros Hw Hbad. cbn [enc_desc].
  destruct Hw as [(-> & -> & ->)|[(-> & -> & ->)|(-> & -> & ->)]];
    change (16 =? 16) with true; change (32 =? 16) with false; change (32 =? 32) with true;
    change (64 =? 16) with false; change (64 =? 32) with false; change (64 =? 64) with true; cbn [option_bind];
    unfold sub_c, add_c; destruct (N.leb_spec min max) as [Hle|Hgt]; cbn [option_bind]; try reflexivity;
    match goal with |- context [?a + 1 <? ?mm] => destruct (N.ltb_spec (a + 1) mm) as [Hlt|Hge] end; try reflexivity; lia.
Qed.

(* ---- templates ---- *)
Definition is_desc (t : term) : Prop := match t with TDesc _ => True | _ => False end.

Fixpoint descs_of (ks : list term) : list desc :=
  match ks with TDesc d :: r => d :: descs_of r | _ :: r => descs_of r | [] => [] end.

Lemma encs_descs md ks eks :
  Forall is_desc ks ->
  (fix encs (l : list term) : option (list N) :=
     match l with [] => Some [] | x :: r => do a <- enc md x; do b <- encs r; Some (a ++ b) end) ks = Some eks ->
  exists bs, map enc_desc (descs_of ks) = map Some bs /\ eks = concat bs /\ length bs = length ks.
Proof.
  revert eks; induction ks as [|t ks IH]; intros eks Hd H.
  - inversion H; subst. exists []. repeat split.
  - inversion Hd as [|? ? Ht Hr]; subst. destruct t; try contradiction.
    cbn [enc] in H. destruct (enc_desc d) as [bd|] eqn:Ed; [|discriminate]. cbn [option_bind] in H.
    match type of H with context [?f ks] => is_fix f; destruct (f ks) as [er|] eqn:Er end; [|discriminate].
    cbn [option_bind] in H. inversion H; subst.
    destruct (IH er Hr eq_refl) as (bs & Hm & -> & Hl).
    exists (bd :: bs). cbn [descs_of map concat length]. rewrite Ed, Hm, Hl. repeat split.
Qed.

(* walking the concatenation of descriptors followed by the end tag tiles it exactly *)
Lemma rd_walk_descs ds bs :
  map enc_desc ds = map Some bs ->
  exists items, rd_walk (S (S (length ds))) (concat bs ++ [0x79; 0]) = Some (items ++ [(0x79, [0])]) /\
                map fst items = map desc_tag ds /\ map (fun i => length (snd i)) items = map desc_payload_len ds.
Proof.
  revert bs; induction ds as [|d ds IH]; intros bs H.
  - destruct bs; [|discriminate]. exists []. repeat split.
  - destruct bs as [|b bs]; [discriminate|]. cbn [map] in H. inversion H as [[Hd Hr]].
    destruct (IH bs Hr) as (items & Hw & Ht & Hl).
    destruct (desc_framed d b Hd) as (payload & Hpl & Hstep).
    exists ((desc_tag d, payload) :: items). cbn [concat length]. rewrite <- app_assoc. rewrite Hstep, Hw.
    cbn [option_map app map fst snd]. rewrite Ht, Hl, Hpl. repeat split.
Qed.

Lemma res_template_correct md ks b r :
  Forall is_desc ks -> enc md (TResTemplate ks) = Some b -> N.of_nat (length b) < 2 ^ 63 ->
  exists bs payload items,
    map enc_desc (descs_of ks) = map Some bs /\
    payload = concat bs ++ [0x79; 0x00] /\
    buffer_decode (b ++ r) = Some (N.of_nat (length payload), payload, r) /\
    rd_walk (S (S (length (descs_of ks)))) payload = Some (items ++ [(0x79, [0])]) /\
    map fst items = map desc_tag (descs_of ks) /\
    map (fun i => length (snd i)) items = map desc_payload_len (descs_of ks).
Proof.
  intros Hd H Hsz. cbn [enc] in H.
  match type of H with context [?f ks] => is_fix f; destruct (f ks) as [eks|] eqn:Ek end; [|discriminate].
  cbn [option_bind] in H.
  destruct (encs_descs md ks eks Hd Ek) as (bs & Hm & -> & Hlen).
  set (payload := concat bs ++ [0x79; 0]) in *.
  set (blen := enc_usize (N.of_nat (length payload))) in *.
  destruct (pkg_len md (N.of_nat (length payload + length blen)) true) as [pl|] eqn:Ep; [|discriminate].
  cbn [option_bind] in H. inversion H; subst b; clear H.
  destruct (rd_walk_descs (descs_of ks) bs Hm) as (items & Hw & Ht & Hl).
  exists bs, payload, items. split; [exact Hm|]. split; [reflexivity|]. split; [|split; [exact Hw|split; assumption]].
  assert (Hpay : N.of_nat (length payload) < 2 ^ 64).
  { cbn [app length] in Hsz. rewrite !app_length in Hsz. change (2 ^ 63) with 9223372036854775808 in Hsz.
    change (2 ^ 64) with 18446744073709551616. lia. }
  unfold buffer_decode. cbn [app].
  replace (pl ++ blen ++ payload) with (pl ++ (blen ++ payload) ++ []) by (now rewrite app_nil_r).
  rewrite <- !app_assoc. cbn [app].
  replace (pl ++ blen ++ payload ++ r) with (pl ++ (blen ++ payload) ++ r) by (now rewrite <- app_assoc).
  rewrite (take_pkg_framed md (blen ++ payload) pl r).
  - unfold blen. rewrite enc_usize_spec by exact Hpay. rewrite int_decode_spec_int by exact Hpay. reflexivity.
  - cbn [app length] in Hsz. rewrite !app_length in Hsz. rewrite app_length. change (2 ^ 63) with 9223372036854775808 in *. lia.
  - rewrite app_length. rewrite Nat.add_comm. exact Ep.
Qed.
