(* C05, second half, on the REFERENCE images of the four handle tables: every reference field built from a handle reference
   (104 k) holds, at its specification offset inside the referencing node, exactly the offset at which the walk finds node k,
   and node k has the type the field requires.
     PPTT  processor node: Parent (+8, a processor node), private resources (+20 + 4 j, cache nodes);
           cache node: Next Level of Cache (+8, a cache node)
     RHCT  hart info node: offsets (+12 + 4 j; the first an ISA string node, the others CMO nodes)
     RIMT  PCIe root complex / platform device: ID mapping j, Destination IOMMU Offset (+ mapping array + 20 j + 12, an IOMMU)
     VIOT  PCI range / MMIO endpoint: Output Node (+16, a translation node)
   [<t>_refs_hold img pre o] is the statement about an arbitrary image [img]: "o was applied after the operations [pre]; the
   walk over [img] finds the node of o as entry number (length pre), and each of its reference fields, decoded with
   [field_at] at (start of that node + field offset), names the node it refers to" ([names_node], Proofs/RefFieldCommonP.v).
   Spec layer only; Proofs/HandleModelP.v transports the statements to the image of the Impl model. *)
From Coq Require Import NArith ZArith List Lia Bool Arith.
From ACPI Require Import Lib.Bytes Lib.Sx Spec.Layout Spec.MadtS Spec.HmatS Spec.PpttS Spec.RhctS Spec.RimtS Spec.ViotS
  Proofs.WalkP Proofs.WalkRefCommon2P Proofs.RefFieldCommonP
  Proofs.PpttWalkRefP Proofs.RhctRefP Proofs.RhctWalkRefP Proofs.RimtRefP Proofs.RimtWalkRefP Proofs.ViotWalkRefP.
Import ListNotations.

Ltac Zify.zify_post_hook ::= Z.to_euclidean_division_equations.

Open Scope N_scope.

Ltac break_match H :=
  repeat match type of H with context [match ?v with _ => _ end] => is_var v; destruct v; try discriminate H end.

Lemma pow32 : 2 ^ (8 * N.of_nat 4) = 2 ^ 32.
Proof. reflexivity. Qed.

(* ================================================= PPTT ================================================= *)

(* the arguments from which the reference fields of a processor node are built: the LAST assignment of the parent (the
   constructor argument, then every builder (8 x)), the add_cache builders (6 h) in order; of a cache node: the last
   next_level setter (9 h) *)
Fixpoint pptt_last_parent (bs : list sx) (acc : sx) : sx :=
  match bs with
  | [] => acc
  | SL [SA 8; x] :: r => pptt_last_parent r x
  | _ :: r => pptt_last_parent r acc
  end.

Fixpoint pptt_resource_args (bs : list sx) : list sx :=
  match bs with
  | [] => []
  | SL [SA 6; h] :: r => h :: pptt_resource_args r
  | _ :: r => pptt_resource_args r
  end.

Fixpoint pptt_last_next (st : list sx) (acc : option sx) : option sx :=
  match st with
  | [] => acc
  | SL [SA 9; h] :: r => pptt_last_next r (Some h)
  | _ :: r => pptt_last_next r acc
  end.

Lemma resolve_all_app p ty a b ca cb : resolve_all p ty a = Some ca -> resolve_all p ty b = Some cb ->
  resolve_all p ty (a ++ b) = Some (ca ++ cb).
Proof.
  revert ca. induction a as [|x a IH]; intros ca Ha Hb; cbn [resolve_all app] in *.
  - apply wr_Some_inj in Ha. subst ca. exact Hb.
  - destruct (resolve p ty x) as [c|]; [|discriminate Ha]. destruct (resolve_all p ty a) as [ca'|]; [|discriminate Ha].
    apply wr_Some_inj in Ha. subst ca. rewrite (IH ca' eq_refl Hb). reflexivity.
Qed.

(* the builder fold of the Spec against those summaries *)
Lemma proc_builders_refs p : forall bs fl par uid rres fl' par' uid' rres' acc,
  proc_builders p (fl, par, uid, rres) bs = Some (fl', par', uid', rres') ->
  pptt_par_val p acc = Some par ->
  pptt_par_val p (pptt_last_parent bs acc) = Some par' /\
  exists cs, resolve_all p 1 (pptt_resource_args bs) = Some cs /\ rres' = rev cs ++ rres.
Proof.
  induction bs as [|b bs IH]; intros fl par uid rres fl' par' uid' rres' acc H Hpar; cbn [proc_builders] in H.
  - apply wr_Some_inj in H. injection H as <- <- <- <-. cbn [pptt_last_parent pptt_resource_args resolve_all].
    split; [exact Hpar|]. exists []. split; reflexivity.
  - destruct (proc_builder p (fl, par, uid, rres) b) as [[[[fl1 par1] uid1] rres1]|] eqn:Eb; [|discriminate H].
    unfold proc_builder in Eb. break_match Eb.
    all: try (match type of Eb with context [?a <? ?b] => destruct (a <? b); [|discriminate Eb] end).
    all: try (apply wr_Some_inj in Eb; injection Eb as <- <- <- <-;
              exact (IH _ _ _ _ _ _ _ _ acc H Hpar)).
    + (* (6 h): add_cache(&handle) *)
      match type of Eb with context [resolve p 1 ?x] => destruct (resolve p 1 x) as [c|] eqn:Ec; [|discriminate Eb] end.
      apply wr_Some_inj in Eb. injection Eb as <- <- <- <-.
      destruct (IH _ _ _ _ _ _ _ _ acc H Hpar) as (Hp & cs & Hcs & ->).
      split; [exact Hp|]. exists (c :: cs). cbn [pptt_resource_args resolve_all]. rewrite Ec, Hcs.
      split; [reflexivity|]. cbn [rev]. rewrite <- app_assoc. reflexivity.
    + (* (8 x): node.parent = x *)
      match type of Eb with context [resolve_or_raw p 0 ?x] => destruct (resolve_or_raw p 0 x) as [v|] eqn:Ev; [|discriminate Eb] end.
      apply wr_Some_inj in Eb. injection Eb as <- <- <- <-.
      match type of Ev with resolve_or_raw p 0 ?x = _ =>
        assert (Hpv : pptt_par_val p x = Some v) by (destruct x as [n|[|y l0]]; [exact Ev|discriminate Ev|exact Ev]);
        exact (IH _ _ _ _ _ _ _ _ x H Hpv)
      end.
Qed.

Lemma last_next_level_refs p : forall st acc next a, last_next_level p st acc = Some next ->
  (match a with Some x => resolve p 1 x = Some acc | None => True end) ->
  match pptt_last_next st a with Some x => resolve p 1 x = Some next | None => True end.
Proof.
  induction st as [|s st IH]; intros acc next a H Ha; cbn [last_next_level] in H.
  - apply wr_Some_inj in H. subst next. exact Ha.
  - pose proof H as H0. break_match H0;
      try (cbn [pptt_last_next]; exact (IH _ _ a H Ha)).
    match type of H with context [resolve p 1 ?x] => destruct (resolve p 1 x) as [c|] eqn:Ec; [|discriminate H] end.
    cbn [pptt_last_next]. match type of Ec with resolve p 1 ?x = _ => exact (IH _ _ (Some x) H Ec) end.
Qed.

Definition pptt_refs_hold (img : list N) (pre : list sx) (o : sx) : Prop :=
  exists found ty start len,
    walk (S (length img)) H_u8_u8 36 (skipn 36 img) = Some found /\
    nth_error found (length pre) = Some (ty, start, len) /\
    (forall parent uid bs, o = SL [SA 1; parent; SA uid; SL bs] ->
       ty = 0 /\ len = (20 + 4 * length (pptt_resource_args bs))%nat /\
       (forall k, pptt_last_parent bs parent = SL [SA 104; SA k] ->
          names_node found (length pre) (SL [SA 104; SA k]) 0 (field_at img (start + 8) 4)) /\
       (forall j x, nth_error (pptt_resource_args bs) j = Some x ->
          names_node found (length pre) x 1 (field_at img (start + 20 + 4 * j) 4))) /\
    (forall st, o = SL [SA 2; SL st] ->
       ty = 1 /\ len = 28%nat /\
       (forall x, pptt_last_next st None = Some x ->
          names_node found (length pre) x 1 (field_at img (start + 8) 4))).

Theorem pptt_reference_fields : forall ctor pre o post r,
  ts_image pptt_spec ctor (pre ++ o :: post) = Some r -> N.of_nat (length r) < 2 ^ 32 ->
  pptt_refs_hold r pre o.
Proof.
  intros ctor pre o post r H Hfit.
  destruct (pptt_split_at ctor pre o post r H) as (p & es1 & e & tail & r1 & Hp & Hok & He & Hl1 & Htl & Hsk & HF & _).
  destruct (walked_nth r 36 H_u8_u8 pptt_ty es1 e tail Hsk HF) as [Hw Hn].
  pose proof (walked_all_fit r 36 H_u8_u8 pptt_ty es1 e tail _ Hsk HF Hfit) as Hall.
  set (found := walk_result 36 (es1 ++ e :: tail) (map pptt_ty (es1 ++ e :: tail))) in *.
  exists found, (pptt_ty e), (36 + length (concat es1))%nat, (length e).
  split; [exact Hw|]. split; [rewrite <- Hl1; exact Hn|]. rewrite <- Hl1. split.
  - intros parent uid bs ->.
    destruct (pptt_proc_ref_inv _ _ _ _ _ He) as (par0 & flags & par & id & rres & Hpar0 & Hb & Hn255 & Hlay).
    destruct (proc_builders_refs p bs _ _ _ _ _ _ _ _ parent Hb Hpar0) as (Hpar & cs & Hcs & Hrres).
    rewrite app_nil_r in Hrres. subst rres. rewrite frev_rev, rev_involutive, rev_length in Hlay.
    destruct (lay_then_arr_field _ _ _ _ _ Hlay) as [Hlen Hfa].
    destruct (lay_then_decodes _ _ _ _ Hlay) as [_ Hf].
    destruct (resolve_all_nth p 1 _ _ Hcs) as [Hlcs Hncs].
    split.
    { unfold pptt_ty. rewrite nth0_field by lia. rewrite (Hf 0%nat 1%nat 0); [reflexivity|cbn [In L]; tauto|lia]. }
    split; [rewrite Hlen, Hlcs; reflexivity|]. split.
    + intros k Hk. rewrite Hk in Hpar. cbn [pptt_par_val resolve_or_raw] in Hpar.
      apply (names_node_field found (length es1) _ 0 par _ (2 ^ 32)); [|exact Hall|].
      * exact (pl_resolved_names pptt_entry_ref pptt_ty 36 p _ es1 (e :: tail) _ 0 par Hok Hpar).
      * rewrite (field_in_body r 36 es1 e tail 8 4 Hsk) by lia.
        rewrite (Hf 8%nat 4%nat par); [rewrite pow32; reflexivity|cbn [In L]; tauto|lia].
    + intros j x Hx. destruct (Hncs j x Hx) as (c & Hc & Hrc).
      assert (Hj : (j < length cs)%nat) by (apply nth_error_Some; congruence).
      apply (names_node_field found (length es1) _ 1 c _ (2 ^ 32)); [|exact Hall|].
      * exact (pl_resolved_names pptt_entry_ref pptt_ty 36 p _ es1 (e :: tail) _ 1 c Hok Hrc).
      * replace (36 + length (concat es1) + 20 + 4 * j)%nat with (36 + length (concat es1) + (20 + 4 * j))%nat by lia.
        rewrite (field_in_body r 36 es1 e tail (20 + 4 * j) 4 Hsk) by lia.
        rewrite (Hfa j c Hc), pow32. reflexivity.
  - intros st ->.
    destruct (pptt_cache_ref_inv _ _ _ He) as (next & flags & attrs & Hnl & Hlay).
    destruct (lay_decodes _ _ _ Hlay) as [Hlen Hf].
    split.
    { unfold pptt_ty. rewrite nth0_field by lia. rewrite (Hf 0%nat 1%nat 1); [reflexivity|cbn [In L]; tauto]. }
    split; [exact Hlen|].
    intros x Hx. pose proof (last_next_level_refs p st 0 next None Hnl I) as Hr. rewrite Hx in Hr.
    apply (names_node_field found (length es1) _ 1 next _ (2 ^ 32)); [|exact Hall|].
    + exact (pl_resolved_names pptt_entry_ref pptt_ty 36 p _ es1 (e :: tail) _ 1 next Hok Hr).
    + rewrite (field_in_body r 36 es1 e tail 8 4 Hsk) by lia.
      rewrite (Hf 8%nat 4%nat next); [rewrite pow32; reflexivity|cbn [In L]; tauto].
Qed.

(* ================================================= RHCT ================================================= *)

Lemma rhct_entries_from_pl ops : forall p next racc,
  rhct_entries_from ops p next racc = pl_entries_from rhct_entry_ref rhct_ty ops p next racc.
Proof.
  induction ops as [|o ops IH]; intros p next racc; cbn [rhct_entries_from pl_entries_from]; [reflexivity|].
  destruct (rhct_entry_ref p o) as [e|]; [|reflexivity]. apply IH.
Qed.

Lemma rhct_placed_from_pl ops : forall p next,
  rhct_placed_from ops p next = pl_placed_from rhct_entry_ref rhct_ty ops p next.
Proof.
  induction ops as [|o ops IH]; intros p next; cbn [rhct_placed_from pl_placed_from]; [reflexivity|].
  destruct (rhct_entry_ref p o) as [e|]; [|reflexivity]. apply IH.
Qed.

Lemma rhct_image_shape2 ctor ops r : ts_image rhct_spec ctor ops = Some r ->
  exists o t rr timebase ha es,
    ctor = SL [o; t; rr; SA timebase] /\ sx_hdr_args o t rr = Some ha /\ (timebase <? 2 ^ 64) = true /\
    rhct_entries_ref ops = Some es /\ N.of_nat (length es) < 2 ^ 32 /\
    length (ha_oem ha) = 6%nat /\ length (ha_tbl ha) = 8%nat /\
    r = ref_table [82; 72; 67; 84] 1 ha ((le 4 0 ++ le 8 timebase ++ le 4 (N.of_nat (length es)) ++ le 4 56) ++ concat es).
Proof.
  intros H. cbn [ts_image rhct_spec] in H. unfold rhct_image in H.
  destruct ctor as [|l]; [discriminate H|].
  destruct l as [|o [|t [|rr [|[timebase|] [|]]]]]; try discriminate H.
  destruct (sx_hdr_args o t rr) as [ha|] eqn:Eha; [|discriminate H].
  destruct (rhct_entries_ref ops) as [es|] eqn:Ees; [|discriminate H].
  destruct (timebase <? 2 ^ 64) eqn:Etb; [|discriminate H]. cbn [andb] in H.
  destruct (N.ltb_spec (N.of_nat (length es)) (2 ^ 32)) as [Hc|]; [|discriminate H].
  apply wr_Some_inj in H. subst r.
  destruct (sx_hdr_args_len _ _ _ _ Eha) as [Ho Ht].
  exists o, t, rr, timebase, ha, es. split; [reflexivity|]. split; [exact Eha|]. split; [exact Etb|].
  split; [reflexivity|]. split; [exact Hc|]. split; [exact Ho|]. split; [exact Ht|].
  rewrite <- !app_assoc. reflexivity.
Qed.

Lemma rhct_skipn ha tb n es : length (ha_oem ha) = 6%nat -> length (ha_tbl ha) = 8%nat ->
  skipn 56 (ref_table [82; 72; 67; 84] 1 ha ((le 4 0 ++ le 8 tb ++ le 4 n ++ le 4 56) ++ concat es)) = concat es.
Proof.
  intros Ho Ht. apply skipn_ref_table; [reflexivity|exact Ho|exact Ht|]. rewrite !app_length, !length_le. reflexivity.
Qed.

Lemma rhct_split_at ctor pre o post r : ts_image rhct_spec ctor (pre ++ o :: post) = Some r ->
  exists p es1 e tail r1,
    rhct_placed pre = Some p /\
    pl_ok rhct_ty 56 p (56 + N.of_nat (length (concat es1))) es1 /\
    rhct_entry_ref p o = Some e /\
    length es1 = length pre /\ length tail = length post /\
    skipn 56 r = concat (es1 ++ e :: tail) /\
    Forall (fun x => self_describing H_u16_u16 x (rhct_ty x)) (es1 ++ e :: tail) /\
    ts_image rhct_spec ctor pre = Some r1 /\ length r1 = (56 + length (concat es1))%nat /\ (length r1 <= length r)%nat.
Proof.
  intros H.
  destruct (rhct_image_shape2 ctor _ r H) as (oo & t & rr & tb & ha & es & -> & Eha & Etb & Ees & Hc & Ho & Ht & ->).
  unfold rhct_entries_ref in Ees. rewrite rhct_entries_from_pl in Ees.
  destruct (pl_split_at rhct_entry_ref rhct_ty 56 pre o post es Ees) as (p & es1 & e & tail & Hp & Hok & He & Hes & Hl1 & Htl & Hpre).
  pose proof (pl_entries_self rhct_entry_ref rhct_ty H_u16_u16 rhct_entry_self _ _ _ _ Ees) as HF.
  subst es.
  exists p, es1, e, tail,
    (ref_table [82; 72; 67; 84] 1 ha (le 4 0 ++ le 8 tb ++ le 4 (N.of_nat (length es1)) ++ le 4 56 ++ concat es1)).
  split; [unfold rhct_placed; rewrite rhct_placed_from_pl; exact Hp|]. split; [exact Hok|]. split; [exact He|].
  split; [exact Hl1|]. split; [exact Htl|]. split; [exact (rhct_skipn ha tb _ _ Ho Ht)|]. split; [exact HF|].
  split.
  { cbn [ts_image rhct_spec]. unfold rhct_image, rhct_entries_ref. rewrite Eha, rhct_entries_from_pl, Hpre, Etb. cbn [andb].
    destruct (N.ltb_spec (N.of_nat (length es1)) (2 ^ 32)) as [_|Hge]; [reflexivity|].
    rewrite app_length in Hc. cbn [length] in Hc. lia. }
  rewrite !(length_ref_table' [82; 72; 67; 84] 1 ha _ eq_refl Ho Ht). rewrite !app_length, !length_le, concat_app, app_length.
  split; lia.
Qed.

Lemma rhct_hart_ref_inv p uid isa cmos e : rhct_entry_ref p (SL [SA 4; SA uid; isa; SL cmos]) = Some e ->
  exists i cs, resolve p 0 isa = Some i /\ resolve_all p 1 cmos = Some cs /\
    lay_then 12 [L 0 2 65535; L 2 2 (N.of_nat (12 + 4 * S (length cs))); L 4 2 1; L 6 2 (N.of_nat (S (length cs))); L 8 4 uid]
             (arr 4 (i :: cs)) = Some e.
Proof.
  intros H. cbn [rhct_entry_ref] in H.
  destruct (resolve p 0 isa) as [i|]; [|discriminate H]. destruct (resolve_all p 1 cmos) as [cs|]; [|discriminate H].
  cbv zeta in H.
  match type of H with (if ?c then _ else _) = _ => destruct c; [|discriminate H] end.
  exists i, cs. split; [reflexivity|]. split; [reflexivity|exact H].
Qed.

Definition rhct_refs_hold (img : list N) (pre : list sx) (o : sx) : Prop :=
  forall uid isa cmos, o = SL [SA 4; SA uid; isa; SL cmos] ->
  exists found start,
    walk (S (length img)) H_u16_u16 56 (skipn 56 img) = Some found /\
    nth_error found (length pre) = Some (65535, start, (12 + 4 * S (length cmos))%nat) /\
    forall j x, nth_error (isa :: cmos) j = Some x ->
      names_node found (length pre) x (if Nat.eqb j 0 then 0 else 1) (field_at img (start + 12 + 4 * j) 4).

Theorem rhct_reference_fields : forall ctor pre o post r,
  ts_image rhct_spec ctor (pre ++ o :: post) = Some r -> N.of_nat (length r) < 2 ^ 32 ->
  rhct_refs_hold r pre o.
Proof.
  intros ctor pre o post r H Hfit uid isa cmos ->.
  destruct (rhct_split_at ctor pre _ post r H) as (p & es1 & e & tail & r1 & Hp & Hok & He & Hl1 & Htl & Hsk & HF & _).
  destruct (walked_nth r 56 H_u16_u16 rhct_ty es1 e tail Hsk HF) as [Hw Hn].
  pose proof (walked_all_fit r 56 H_u16_u16 rhct_ty es1 e tail _ Hsk HF Hfit) as Hall.
  set (found := walk_result 56 (es1 ++ e :: tail) (map rhct_ty (es1 ++ e :: tail))) in *.
  destruct (rhct_hart_ref_inv _ _ _ _ _ He) as (i & cs & Hi & Hcs & Hlay).
  destruct (lay_then_arr_field _ _ _ _ _ Hlay) as [Hlen Hfa].
  destruct (lay_then_decodes _ _ _ _ Hlay) as [_ Hf].
  destruct (resolve_all_nth p 1 _ _ Hcs) as [Hlcs Hncs].
  cbn [length] in Hlen.
  assert (Hty : rhct_ty e = 65535).
  { unfold rhct_ty. change (unle (firstn 2 e)) with (field_at e 0 2). rewrite (Hf 0%nat 2%nat 65535); [reflexivity|cbn [In L]; tauto|lia]. }
  exists found, (56 + length (concat es1))%nat.
  split; [exact Hw|]. split; [rewrite <- Hl1, Hn, Hty, Hlen, Hlcs; reflexivity|].
  intros j x Hx. rewrite <- Hl1.
  assert (Hj : (j < S (length cmos))%nat) by (change (S (length cmos)) with (length (isa :: cmos)); apply nth_error_Some; congruence).
  replace (56 + length (concat es1) + 12 + 4 * j)%nat with (56 + length (concat es1) + (12 + 4 * j))%nat by lia.
  rewrite (field_in_body r 56 es1 e tail (12 + 4 * j) 4 Hsk) by lia.
  destruct j as [|j]; cbn [nth_error] in Hx; cbn [Nat.eqb].
  - apply wr_Some_inj in Hx. subst x.
    apply (names_node_field found (length es1) _ 0 i _ (2 ^ 32)); [|exact Hall|].
    + exact (pl_resolved_names rhct_entry_ref rhct_ty 56 p _ es1 (e :: tail) _ 0 i Hok Hi).
    + rewrite (Hfa 0%nat i eq_refl), pow32. reflexivity.
  - destruct (Hncs j x Hx) as (c & Hc & Hrc).
    apply (names_node_field found (length es1) _ 1 c _ (2 ^ 32)); [|exact Hall|].
    + exact (pl_resolved_names rhct_entry_ref rhct_ty 56 p _ es1 (e :: tail) _ 1 c Hok Hrc).
    + rewrite (Hfa (S j) c Hc), pow32. reflexivity.
Qed.

(* ================================================= VIOT ================================================= *)

(* the output-node argument of an endpoint operation *)
Definition viot_out_arg (o : sx) : option sx :=
  match o with
  | SL [SA 1; _; _; h] => Some h
  | SL [SA 2; _; _; h] => Some h
  | _ => None
  end.

Lemma viot_image_shape2 ctor ops r : ts_image viot_spec ctor ops = Some r ->
  exists o t rr ha es,
    ctor = SL [o; t; rr] /\ sx_hdr_args o t rr = Some ha /\
    sp_entries viot_entry_ref ops 48 0 [] [] = Some es /\
    48 + N.of_nat (length (concat es)) < 2 ^ 16 /\
    length (ha_oem ha) = 6%nat /\ length (ha_tbl ha) = 8%nat /\
    r = ref_table [86; 73; 79; 84] 1 ha ((le 2 (N.of_nat (length es)) ++ le 2 48 ++ le 8 0) ++ concat es).
Proof.
  intros H. cbn [ts_image viot_spec] in H. unfold viot_image in H.
  destruct ctor as [|l]; [discriminate H|].
  destruct l as [|o [|t [|rr [|]]]]; try discriminate H.
  destruct (sx_hdr_args o t rr) as [ha|] eqn:Eha; [|discriminate H].
  destruct (viot_entries_ref ops) as [es|] eqn:Ees; [|discriminate H].
  apply wr_Some_inj in H. subst r.
  destruct (sx_hdr_args_len _ _ _ _ Eha) as [Ho Ht].
  unfold viot_entries_ref in Ees.
  destruct (sp_entries viot_entry_ref ops 48 0 [] []) as [es'|] eqn:Ees'; [|discriminate Ees].
  destruct (N.ltb_spec (48 + N.of_nat (length (concat es'))) (2 ^ 16)) as [Hsmall|]; [|discriminate Ees].
  apply wr_Some_inj in Ees. subst es'.
  exists o, t, rr, ha, es. split; [reflexivity|]. split; [exact Eha|]. split; [reflexivity|]. split; [exact Hsmall|].
  split; [exact Ho|]. split; [exact Ht|]. rewrite <- !app_assoc. reflexivity.
Qed.

Lemma viot_skipn ha n es : length (ha_oem ha) = 6%nat -> length (ha_tbl ha) = 8%nat ->
  skipn 48 (ref_table [86; 73; 79; 84] 1 ha ((le 2 n ++ le 2 48 ++ le 8 0) ++ concat es)) = concat es.
Proof.
  intros Ho Ht. apply skipn_ref_table; [reflexivity|exact Ho|exact Ht|]. rewrite !app_length, !length_le. reflexivity.
Qed.

Lemma viot_split_at ctor pre o post r : ts_image viot_spec ctor (pre ++ o :: post) = Some r ->
  exists n rs es1 e tail r1,
    sp_final viot_entry_ref pre 48 0 [] = Some (n, rs) /\ n = length pre /\
    sp_ok 48 rs n (48 + N.of_nat (length (concat es1))) es1 /\
    viot_entry_ref n rs o = Some e /\
    length es1 = length pre /\ length tail = length post /\
    skipn 48 r = concat (es1 ++ e :: tail) /\
    Forall (fun x => self_describing H_u8_x_u16 x (sp_ty x)) (es1 ++ e :: tail) /\
    ts_image viot_spec ctor pre = Some r1 /\ length r1 = (48 + length (concat es1))%nat /\ (length r1 <= length r)%nat /\
    N.of_nat (length r) < 2 ^ 16.
Proof.
  intros H.
  destruct (viot_image_shape2 ctor _ r H) as (oo & t & rr & ha & es & -> & Eha & Ees & Hsmall & Ho & Ht & ->).
  destruct (sp_split_at viot_entry_ref 48 pre o post es Ees) as (n & rs & es1 & e & tail & Hp & Hn & Hok & He & Hes & Hl1 & Htl & Hpre).
  assert (HF : Forall (fun x => self_describing H_u8_x_u16 x (sp_ty x)) es).
  { apply (sp_entries_forall viot_entry_ref _ viot_entry_self _ _ _ _ _ es Ees). constructor. }
  subst es. rewrite concat_app, app_length in Hsmall. cbn [concat] in Hsmall. rewrite app_length in Hsmall.
  exists n, rs, es1, e, tail,
    (ref_table [86; 73; 79; 84] 1 ha (le 2 (N.of_nat (length es1)) ++ le 2 48 ++ le 8 0 ++ concat es1)).
  split; [exact Hp|]. split; [exact Hn|]. split; [exact Hok|]. split; [exact He|].
  split; [exact Hl1|]. split; [exact Htl|]. split; [exact (viot_skipn ha _ _ Ho Ht)|]. split; [exact HF|].
  split.
  { cbn [ts_image viot_spec]. unfold viot_image, viot_entries_ref. rewrite Eha, Hpre.
    destruct (N.ltb_spec (48 + N.of_nat (length (concat es1))) (2 ^ 16)) as [_|Hge]; [reflexivity|lia]. }
  rewrite !(length_ref_table' [86; 73; 79; 84] 1 ha _ eq_refl Ho Ht). rewrite !app_length, !length_le, concat_app, app_length.
  cbn [concat]. rewrite app_length. change (2 ^ 16) with 65536 in *. repeat split; lia.
Qed.

Lemma viot_out_ref_inv n rs x out : viot_out_ref n rs x = Some out ->
  exists ty, sp_lookup n rs x = Some (out, ty) /\ (ty = 3 \/ ty = 4).
Proof.
  unfold viot_out_ref. destruct (sp_lookup n rs x) as [[off ty]|]; [|discriminate]. intros H.
  break_match H; apply wr_Some_inj in H; subst off; eexists; (split; [reflexivity|]); [left|right]; reflexivity.
Qed.

Lemma viot_ref_inv n rs o e x : viot_entry_ref n rs o = Some e -> viot_out_arg o = Some x ->
  exists out, viot_out_ref n rs x = Some out /\ length e = 24%nat /\ field_at e 16 2 = out mod 2 ^ 16 /\
              (sp_ty e = 1 \/ sp_ty e = 2).
Proof.
  intros H Hx. unfold viot_entry_ref in H.
  destruct o as [|l]; [discriminate H|]. destruct l as [|[op|] l]; try discriminate H.
  destruct op as [|op]; try discriminate H.
  repeat (destruct op as [op|op|]; try discriminate H).
  - (* 3: virtio-pci IOMMU *)
    destruct l as [|dev [|]]; try discriminate H. discriminate Hx.
  - (* 4: virtio-mmio IOMMU *)
    destruct l as [|[base|] [|]]; try discriminate H. discriminate Hx.
  - (* 2: MMIO endpoint *)
    destruct l as [|[ep|] [|[base|] [|href [|]]]]; try discriminate H.
    cbn [viot_out_arg] in Hx. apply wr_Some_inj in Hx. subst href.
    destruct (viot_out_ref n rs x) as [out|]; [|discriminate H].
    destruct (lay_decodes _ _ _ H) as [Hlen Hf].
    exists out. split; [reflexivity|]. split; [exact Hlen|]. split.
    + apply (Hf 16%nat 2%nat out). cbn [In L]. tauto.
    + right. unfold sp_ty. rewrite nth0_field by lia. apply (Hf 0%nat 1%nat 2). cbn [In L]. tauto.
  - (* 1: PCI range *)
    destruct l as [|first [|last [|href [|]]]]; try discriminate H.
    cbn [viot_out_arg] in Hx. apply wr_Some_inj in Hx. subst href.
    destruct (viot_pci_ref first) as [f|]; [|discriminate H].
    destruct (viot_pci_ref last) as [la|]; [|discriminate H].
    destruct (viot_out_ref n rs x) as [out|]; [|discriminate H].
    destruct (lay_decodes _ _ _ H) as [Hlen Hf].
    exists out. split; [reflexivity|]. split; [exact Hlen|]. split.
    + apply (Hf 16%nat 2%nat out). cbn [In L]. tauto.
    + left. unfold sp_ty. rewrite nth0_field by lia. apply (Hf 0%nat 1%nat 1). cbn [In L]. tauto.
Qed.

Definition viot_refs_hold (img : list N) (pre : list sx) (o : sx) : Prop :=
  forall x, viot_out_arg o = Some x ->
  exists found ty start kty,
    walk (S (length img)) H_u8_x_u16 48 (skipn 48 img) = Some found /\
    nth_error found (length pre) = Some (ty, start, 24%nat) /\ (ty = 1 \/ ty = 2) /\
    (kty = 3 \/ kty = 4) /\
    names_node found (length pre) x kty (field_at img (start + 16) 2).

Theorem viot_reference_fields : forall ctor pre o post r,
  ts_image viot_spec ctor (pre ++ o :: post) = Some r -> viot_refs_hold r pre o.
Proof.
  intros ctor pre o post r H x Hx.
  destruct (viot_split_at ctor pre o post r H)
    as (n & rs & es1 & e & tail & r1 & Hp & Hnn & Hok & He & Hl1 & Htl & Hsk & HF & _ & _ & _ & Hfit).
  destruct (walked_nth r 48 H_u8_x_u16 sp_ty es1 e tail Hsk HF) as [Hw Hn].
  pose proof (walked_all_fit r 48 H_u8_x_u16 sp_ty es1 e tail _ Hsk HF Hfit) as Hall.
  set (found := walk_result 48 (es1 ++ e :: tail) (map sp_ty (es1 ++ e :: tail))) in *.
  destruct (viot_ref_inv _ _ _ _ _ He Hx) as (out & Hout & Hlen & Hf16 & Hty).
  destruct (viot_out_ref_inv _ _ _ _ Hout) as (kty & Hlk & Hkty).
  exists found, (sp_ty e), (48 + length (concat es1))%nat, kty.
  split; [exact Hw|]. split; [rewrite <- Hl1, Hn, Hlen; reflexivity|]. split; [exact Hty|]. split; [exact Hkty|].
  rewrite <- Hl1.
  apply (names_node_field found (length es1) _ kty out _ (2 ^ 16)); [|exact Hall|].
  - exact (sp_lookup_names viot_entry_ref 48 rs n _ es1 (e :: tail) x out kty Hok Hlk).
  - rewrite (field_in_body r 48 es1 e tail 16 2 Hsk) by lia. exact Hf16.
Qed.

(* ================================================= RIMT ================================================= *)

(* the ID mappings of a PCIe root complex / platform device operation, and the offset of the mapping array inside the
   device structure (16; 12 + name + NUL) *)
Definition rimt_map_args (o : sx) : option (nat * list sx) :=
  match o with
  | SL [SA 2; _; _; _; _; SL [SL l]] => Some (16%nat, l)
  | SL [SA 3; _; name; SL [SL l]] =>
      match sx_bytes name with Some nm => Some ((12 + length nm + 1)%nat, l) | None => None end
  | _ => None
  end.

(* the destination-IOMMU argument of an ID mapping *)
Definition rimt_map_href (m : sx) : option sx :=
  match m with SL [_; _; _; h; _; _; _] => Some h | _ => None end.

Lemma rimt_image_shape2 ctor ops r : ts_image rimt_spec ctor ops = Some r ->
  exists o t rr ha es,
    ctor = SL [o; t; rr] /\ sx_hdr_args o t rr = Some ha /\
    sp_entries rimt_entry_ref ops 48 0 [] [] = Some es /\
    length (ha_oem ha) = 6%nat /\ length (ha_tbl ha) = 8%nat /\
    r = ref_table [82; 73; 77; 84] 1 ha ((le 4 (N.of_nat (length es)) ++ le 4 48 ++ le 4 0) ++ concat es).
Proof.
  intros H. cbn [ts_image rimt_spec] in H. unfold rimt_image in H.
  destruct ctor as [|l]; [discriminate H|].
  destruct l as [|o [|t [|rr [|]]]]; try discriminate H.
  destruct (sx_hdr_args o t rr) as [ha|] eqn:Eha; [|discriminate H].
  destruct (rimt_entries_ref ops) as [es|] eqn:Ees; [|discriminate H].
  apply wr_Some_inj in H. subst r.
  destruct (sx_hdr_args_len _ _ _ _ Eha) as [Ho Ht].
  exists o, t, rr, ha, es. split; [reflexivity|]. split; [exact Eha|]. split; [exact Ees|].
  split; [exact Ho|]. split; [exact Ht|]. rewrite <- !app_assoc. reflexivity.
Qed.

Lemma rimt_skipn ha n es : length (ha_oem ha) = 6%nat -> length (ha_tbl ha) = 8%nat ->
  skipn 48 (ref_table [82; 73; 77; 84] 1 ha ((le 4 n ++ le 4 48 ++ le 4 0) ++ concat es)) = concat es.
Proof.
  intros Ho Ht. apply skipn_ref_table; [reflexivity|exact Ho|exact Ht|]. rewrite !app_length, !length_le. reflexivity.
Qed.

Lemma rimt_split_at ctor pre o post r : ts_image rimt_spec ctor (pre ++ o :: post) = Some r ->
  exists n rs es1 e tail r1,
    sp_final rimt_entry_ref pre 48 0 [] = Some (n, rs) /\ n = length pre /\
    sp_ok 48 rs n (48 + N.of_nat (length (concat es1))) es1 /\
    rimt_entry_ref n rs o = Some e /\
    length es1 = length pre /\ length tail = length post /\
    skipn 48 r = concat (es1 ++ e :: tail) /\
    Forall (fun x => self_describing H_u8_x_u16 x (sp_ty x)) (es1 ++ e :: tail) /\
    ts_image rimt_spec ctor pre = Some r1 /\ length r1 = (48 + length (concat es1))%nat /\ (length r1 <= length r)%nat.
Proof.
  intros H.
  destruct (rimt_image_shape2 ctor _ r H) as (oo & t & rr & ha & es & -> & Eha & Ees & Ho & Ht & ->).
  destruct (sp_split_at rimt_entry_ref 48 pre o post es Ees) as (n & rs & es1 & e & tail & Hp & Hn & Hok & He & Hes & Hl1 & Htl & Hpre).
  assert (HF : Forall (fun x => self_describing H_u8_x_u16 x (sp_ty x)) es).
  { apply (sp_entries_forall rimt_entry_ref _ rimt_entry_self _ _ _ _ _ es Ees). constructor. }
  subst es.
  exists n, rs, es1, e, tail,
    (ref_table [82; 73; 77; 84] 1 ha (le 4 (N.of_nat (length es1)) ++ le 4 48 ++ le 4 0 ++ concat es1)).
  split; [exact Hp|]. split; [exact Hn|]. split; [exact Hok|]. split; [exact He|].
  split; [exact Hl1|]. split; [exact Htl|]. split; [exact (rimt_skipn ha _ _ Ho Ht)|]. split; [exact HF|].
  split.
  { cbn [ts_image rimt_spec]. unfold rimt_image, rimt_entries_ref. rewrite Eha, Hpre. reflexivity. }
  rewrite !(length_ref_table' [82; 73; 77; 84] 1 ha _ eq_refl Ho Ht). rewrite !app_length, !length_le, concat_app, app_length.
  split; lia.
Qed.

Lemma rimt_map_ref_inv n rs m em : rimt_map_ref n rs m = Some em ->
  exists x off, rimt_map_href m = Some x /\ sp_lookup n rs x = Some (off, 0) /\ length em = 20%nat /\
                field_at em 12 4 = off mod 2 ^ 32.
Proof.
  unfold rimt_map_ref. destruct m as [|l]; [discriminate|].
  destruct l as [|[src|] [|[dst|] [|[cnt|] [|href [|[ats|] [|[pri|] [|[rciep|] [|]]]]]]]]; try discriminate.
  destruct (sp_lookup n rs href) as [[off ty]|] eqn:El; [|discriminate].
  destruct ty; [|discriminate].
  intros H. destruct (lay_decodes _ _ _ H) as [Hlen Hf].
  exists href, off. split; [reflexivity|]. split; [exact El|]. split; [exact Hlen|].
  rewrite (Hf 12%nat 4%nat off); [rewrite pow32; reflexivity|cbn [In L]; tauto].
Qed.

Lemma rimt_ref_inv n rs o e base l : rimt_entry_ref n rs o = Some e -> rimt_map_args o = Some (base, l) ->
  exists fixed ms, e = fixed ++ concat ms /\ length fixed = base /\ sp_all (rimt_map_ref n rs) l [] = Some ms.
Proof.
  intros H Hx. unfold rimt_entry_ref in H.
  destruct o as [|ol]; [discriminate H|]. destruct ol as [|[op|] ol]; try discriminate H.
  destruct op as [|op]; try discriminate H.
  repeat (destruct op as [op|op|]; try discriminate H).
  - (* 3: platform device *)
    destruct ol as [|[id|] [|name [|maps [|]]]]; try discriminate H.
    cbn [rimt_map_args] in Hx.
    destruct (sx_bytes name) as [nm|]; [|discriminate H].
    break_match Hx. apply wr_Some_inj in Hx. injection Hx as Hb Hl. subst base. subst l.
    cbn [rimt_opt_list] in H.
    match type of H with context [sp_all ?f ?l0 []] => destruct (sp_all f l0 []) as [ms|]; [|discriminate H] end. cbv zeta in H.
    apply rimt_fits_some in H. destruct H as [_ H].
    match type of H with option_map _ ?la = _ => destruct la as [h|] eqn:El; [|discriminate H] end.
    cbn [option_map] in H. apply wr_Some_inj in H. subst e.
    exists (h ++ map (fun b => b mod 256) nm ++ [0]), ms. split; [rewrite <- !app_assoc; reflexivity|].
    split; [|reflexivity]. rewrite !app_length, map_length, (proj1 (lay_decodes _ _ _ El)). cbn [length]. lia.
  - (* 2: PCIe root complex *)
    destruct ol as [|[id|] [|[seg|] [|[ats|] [|[pri|] [|maps [|]]]]]]; try discriminate H.
    cbn [rimt_map_args] in Hx. break_match Hx. apply wr_Some_inj in Hx. injection Hx as Hb Hl. subst base. subst l.
    cbn [rimt_opt_list] in H.
    match type of H with context [sp_all ?f ?l0 []] => destruct (sp_all f l0 []) as [ms|]; [|discriminate H] end. cbv zeta in H.
    apply rimt_fits_some in H. destruct H as [_ H].
    match type of H with option_map _ ?la = _ => destruct la as [h|] eqn:El; [|discriminate H] end.
    cbn [option_map] in H. apply wr_Some_inj in H. subst e.
    exists h, ms. split; [reflexivity|]. split; [exact (proj1 (lay_decodes _ _ _ El))|reflexivity].
  - (* 1: IOMMU *)
    destruct ol as [|[id|] [|base0 [|pci [|prox [|wires [|]]]]]]; try discriminate H. discriminate Hx.
Qed.

Definition rimt_refs_hold (img : list N) (pre : list sx) (o : sx) : Prop :=
  forall base ms, rimt_map_args o = Some (base, ms) ->
  exists found ty start,
    walk (S (length img)) H_u8_x_u16 48 (skipn 48 img) = Some found /\
    nth_error found (length pre) = Some (ty, start, (base + 20 * length ms)%nat) /\
    forall j m, nth_error ms j = Some m ->
      exists x, rimt_map_href m = Some x /\
        names_node found (length pre) x 0 (field_at img (start + base + 20 * j + 12) 4).

Theorem rimt_reference_fields : forall ctor pre o post r,
  ts_image rimt_spec ctor (pre ++ o :: post) = Some r -> N.of_nat (length r) < 2 ^ 32 ->
  rimt_refs_hold r pre o.
Proof.
  intros ctor pre o post r H Hfit base l Hx.
  destruct (rimt_split_at ctor pre o post r H)
    as (n & rs & es1 & e & tail & r1 & Hp & Hnn & Hok & He & Hl1 & Htl & Hsk & HF & _).
  destruct (walked_nth r 48 H_u8_x_u16 sp_ty es1 e tail Hsk HF) as [Hw Hn].
  pose proof (walked_all_fit r 48 H_u8_x_u16 sp_ty es1 e tail _ Hsk HF Hfit) as Hall.
  set (found := walk_result 48 (es1 ++ e :: tail) (map sp_ty (es1 ++ e :: tail))) in *.
  destruct (rimt_ref_inv _ _ _ _ _ _ He Hx) as (fixed & ms & He' & Hfx & Hms).
  destruct (sp_all_spec _ _ _ _ Hms) as (ms' & Hms' & Hlms & Hnms). cbn [rev app] in Hms'. subst ms'.
  assert (H20 : Forall (fun em => length em = 20%nat) ms).
  { apply (sp_all_forall (rimt_map_ref n rs) _ (rimt_map_length n rs) l [] ms Hms). constructor. }
  assert (Hlen : length e = (base + 20 * length l)%nat).
  { rewrite He', app_length, (concat_length_const 20 ms H20), Hfx, Hlms. reflexivity. }
  exists found, (sp_ty e), (48 + length (concat es1))%nat.
  split; [exact Hw|]. split; [rewrite <- Hl1, Hn, Hlen; reflexivity|].
  intros j m Hm. destruct (Hnms j m Hm) as (em & Hem & Hr).
  destruct (rimt_map_ref_inv _ _ _ _ Hr) as (x & off & Hhref & Hlk & Hl20 & Hf12).
  assert (Hj : (j < length l)%nat) by (apply nth_error_Some; congruence).
  exists x. split; [exact Hhref|]. rewrite <- Hl1.
  apply (names_node_field found (length es1) _ 0 off _ (2 ^ 32)); [|exact Hall|].
  - exact (sp_lookup_names rimt_entry_ref 48 rs n _ es1 (e :: tail) x off 0 Hok Hlk).
  - replace (48 + length (concat es1) + base + 20 * j + 12)%nat with (48 + length (concat es1) + (base + (20 * j + 12)))%nat by lia.
    rewrite (field_in_body r 48 es1 e tail (base + (20 * j + 12)) 4 Hsk) by lia.
    rewrite He', <- Hfx, field_at_app_r, <- (app_nil_r (concat ms)).
    rewrite (field_in_concat_const 20 ms [] 12 4 H20 j em Hem) by lia. exact Hf12.
Qed.

Print Assumptions pptt_reference_fields.
Print Assumptions rhct_reference_fields.
Print Assumptions viot_reference_fields.
Print Assumptions rimt_reference_fields.
