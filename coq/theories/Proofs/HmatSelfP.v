(* HMAT, property C03, per-entry part: the reference image of every in-domain history is tiled by structures that describe
   themselves and passes the self-check (memory proximity domain attributes: 40 bytes; system locality: initiator and
   target counts against the structure length 32 + 4I + 4T + 2IT; memory side cache: SMBIOS handle count against the
   structure length). *)
From Coq Require Import NArith ZArith List Lia Bool Arith ZifyBool ZifyNat ZifyN.
From ACPI Require Import Lib.Bytes Lib.Sx Spec.Layout Spec.MadtS Spec.HmatS Spec.SelfCheck Judge
  Proofs.WalkP Proofs.WalkRefCommon2P Proofs.SelfCommonP.
Import ListNotations.

Ltac Zify.zify_post_hook ::= Z.to_euclidean_division_equations.

Open Scope N_scope.

Definition hmat_ty (e : list N) : N := field_at e 0 2.

Definition hmat_good (e : list N) : Prop :=
  self_describing H_u16_u16_u32 e (hmat_ty e) /\ entry_self_ok 15 (hmat_ty e) e = true.

Lemma length_seqN n : length (seqN n) = N.to_nat n.
Proof. unfold seqN. rewrite map_length, seq_length. reflexivity. Qed.

Lemma length_flat_map_const {A B} (f : A -> list B) k l : (forall x, length (f x) = k) -> length (flat_map f l) = (length l * k)%nat.
Proof. intros Hk. induction l as [|x l IH]; cbn [flat_map length]; [reflexivity|]. rewrite app_length, Hk, IH. lia. Qed.

Lemma hmat_entry_good o e : hmat_entry_ref o = Some e -> hmat_good e.
Proof.
  intros H. unfold hmat_entry_ref in H. unfold hmat_good, hmat_ty. cbn [entry_self_ok].
  destruct o as [|l]; [discriminate H|]. destruct l as [|[op|] l]; try discriminate H.
  destruct op as [|op]; try discriminate H.
  repeat (destruct op as [op|op|]; try discriminate H).
  - (* 3: memory side cache *)
    destruct l as [|[pd|] [|[size|] [|[total|] [|[level|] [|[assoc|] [|[policy|] [|[line|] [|[|hs] [|]]]]]]]]]; try discriminate H.
    destruct (sx_nums hs) as [handles|]; [|discriminate H]. cbv zeta in H.
    match type of H with (if ?g then _ else _) = _ => destruct g eqn:G; [|discriminate H] end.
    repeat (apply andb_true_iff in G; destruct G as [G ?]). apply N.ltb_lt in G.
    destruct (lay_then_decodes _ _ _ _ H) as [Hlen Hf].
    rewrite length_arr' in Hlen.
    split.
    + apply sd_u16_u16_u32_of_fields; [lia|].
      rewrite (Hf 4%nat 4%nat (32 + 2 * N.of_nat (length handles))) by (cbn [In L]; try tauto; lia).
      rewrite pow8_4, N.mod_small by lia. rewrite Hlen. lia.
    + rewrite (Hf 0%nat 2%nat 2) by (cbn [In L]; try tauto; lia).
      change (2 mod 2 ^ (8 * N.of_nat 2)) with 2. cbn [hmat_self].
      rewrite (Hf 30%nat 2%nat (N.of_nat (length handles))) by (cbn [In L]; try tauto; lia).
      rewrite pow8_2, N.mod_small by lia. unfold lenN. rewrite Hlen. apply N.eqb_eq. lia.
  - (* 2: system locality latency and bandwidth information *)
    destruct l as [|[lt|] [|[dt|] [|[mts|] [|[unit|] [|[nI|] [|[nT|] [|[|bs] [|]]]]]]]]; try discriminate H.
    cbv zeta in H.
    match type of H with (if ?g then _ else _) = _ => destruct g eqn:G; [|discriminate H] end.
    apply andb_true_iff in G. destruct G as [G _]. apply andb_true_iff in G. destruct G as [_ G]. apply N.ltb_lt in G.
    destruct (lay_then_decodes _ _ _ _ H) as [Hlen Hf].
    rewrite !app_length, !length_arr', !map_length, !length_seqN in Hlen.
    rewrite (length_flat_map_const _ (N.to_nat nT)) in Hlen by (intros x; rewrite map_length; apply length_seqN).
    rewrite length_seqN in Hlen.
    assert (Hprod : N.of_nat (N.to_nat nI * N.to_nat nT) = nI * nT) by (rewrite Nat2N.inj_mul, !N2Nat.id; reflexivity).
    assert (HlenN : N.of_nat (length e) = 32 + 4 * nI + 4 * nT + 2 * (nI * nT)).
    { rewrite Hlen. rewrite <- Hprod. lia. }
    clear Hlen.
    assert (Hge : (8 <= length e)%nat) by lia.
    split.
    + apply sd_u16_u16_u32_of_fields; [exact Hge|].
      rewrite (Hf 4%nat 4%nat (32 + 4 * nI + 4 * nT + 2 * (nI * nT))) by (cbn [In L]; try tauto; lia).
      rewrite pow8_4, N.mod_small by lia. rewrite HlenN. reflexivity.
    + rewrite (Hf 0%nat 2%nat 1) by (cbn [In L]; try tauto; lia).
      change (1 mod 2 ^ (8 * N.of_nat 2)) with 1. cbn [hmat_self].
      rewrite (Hf 12%nat 4%nat nI) by (cbn [In L]; try tauto; lia).
      rewrite (Hf 16%nat 4%nat nT) by (cbn [In L]; try tauto; lia).
      rewrite pow8_4, !N.mod_small by lia. unfold lenN. rewrite HlenN. apply N.eqb_refl.
  - (* 1: memory proximity domain attributes *)
    destruct l as [|[ipd|] [|[mpd|] [|]]]; try discriminate H.
    destruct (lay_decodes _ _ _ H) as [Hlen Hf].
    split.
    + apply sd_u16_u16_u32_of_fields; [lia|]. rewrite Hlen. apply (Hf 4%nat 4%nat 40). cbn [In L]. tauto.
    + rewrite (Hf 0%nat 2%nat 0) by (cbn [In L]; tauto).
      change (0 mod 2 ^ (8 * N.of_nat 2)) with 0. cbn [hmat_self]. rewrite Hlen. reflexivity.
Qed.

Lemma hmat_image_shape ctor ops r : ts_image hmat_spec ctor ops = Some r ->
  exists ha es, opt_concat (map hmat_entry_ref ops) = Some es /\
    length (ha_oem ha) = 6%nat /\ length (ha_tbl ha) = 8%nat /\
    r = ref_table [72; 77; 65; 84] 1 ha (le 4 0 ++ concat es).
Proof.
  intros H. cbn [ts_image hmat_spec] in H. unfold hmat_image in H.
  destruct ctor as [|l]; [discriminate H|].
  destruct l as [|o [|t [|rr [|]]]]; try discriminate H.
  destruct (sx_hdr_args o t rr) as [ha|] eqn:Eha; [|discriminate H].
  destruct (hmat_entries_ref ops) as [es|] eqn:Ees; [|discriminate H].
  apply wr_Some_inj in H. subst r.
  destruct (sx_hdr_args_len _ _ _ _ Eha) as [Ho Ht].
  exists ha, es. split; [exact Ees|]. split; [exact Ho|]. split; [exact Ht|]. reflexivity.
Qed.

Theorem hmat_selfcheck : forall ctor ops r, ts_image hmat_spec ctor ops = Some r -> c03_self 15 r = true.
Proof.
  intros ctor ops r H.
  destruct (hmat_image_shape ctor ops r H) as (ha & es & Ees & Ho & Ht & ->).
  assert (HG : Forall hmat_good es) by exact (opt_concat_forall hmat_entry_ref _ hmat_entry_good ops es Ees).
  unfold c03_self. change (ts_walk (spec_of 15)) with (Some (40%nat, H_u16_u16_u32)).
  apply (c03_self_at_ref 15 40%nat H_u16_u16_u32 hmat_ty); try assumption; try reflexivity.
  - eapply Forall_impl; [|exact HG]. intros e [Hsd _]. exact Hsd.
  - eapply Forall_impl; [|exact HG]. intros e [_ Hok]. exact Hok.
Qed.

(* the reference image is also exactly tiled in the sense of the run-time judgement [c03_judge] *)
Theorem hmat_reference_tiles : forall ctor ops r,
  ts_image hmat_spec ctor ops = Some r -> c03_judge hmat_spec ctor r ops = true.
Proof.
  intros ctor ops r H.
  destruct (hmat_image_shape ctor ops r H) as (ha & es & Ees & Ho & Ht & ->).
  apply (c03_judge_of_tyf hmat_spec ctor ops _ 40%nat H_u16_u16_u32 hmat_ty es).
  - reflexivity.
  - cbn [ts_entries hmat_spec]. unfold hmat_entries_ref. rewrite Ees. reflexivity.
  - apply skipn_ref_table; [reflexivity|exact Ho|exact Ht|reflexivity].
  - eapply Forall_impl; [|exact (opt_concat_forall hmat_entry_ref _ hmat_entry_good ops es Ees)].
    intros e [Hsd _]. exact Hsd.
  - reflexivity.
Qed.

Print Assumptions hmat_selfcheck.
Print Assumptions hmat_reference_tiles.
