(* RIMT: walk instance (C03) and the count / length sites inside its devices (C18).
   Every device starts with type u8, revision u8, length u16 (H_u8_x_u16).  The sites:
     device length (u16 at offset 2 of every device),
     IOMMU: number of interrupt wires (u16 at offset 28),
     PCIe root complex: number of ID mappings (u16 at offset 14),
     platform device: ID mapping array offset (u16 at offset 8) and number of ID mappings (u16 at offset 10).
   The table's device count (header area, offset 36) is a u32; it is covered by walktable_tiles and restated at the end. *)
From Coq Require Import NArith ZArith List Lia Bool Arith.
From ACPI Require Import Lib.Bytes Lib.Sx Lib.Machine Impl.Checksum Impl.Table Impl.Fields Impl.Run Impl.Madt Impl.Rimt
  Spec.Layout Proofs.ChecksumP Proofs.TableP Proofs.MadtP Proofs.WalkP Proofs.Tables Proofs.RimtP Proofs.RhctWalkP.
Import ListNotations.
Open Scope N_scope.

Lemma rm_Some_inj {A} (x y : A) : Some x = Some y -> x = y.
Proof. congruence. Qed.

Lemma rm_assert_true c u : assert c = Some u -> c = true.
Proof. destruct c; [reflexivity|discriminate]. Qed.

Lemma rm_to_nat_of_eq L k : L = N.of_nat k -> N.to_nat L = k.
Proof. intros ->. apply Nat2N.id. Qed.

(* type u8, one byte, length u16, the length field holding the entry's real size: the entry describes itself *)
Lemma rm_self_u8_x_u16 t x n tail : t < 256 -> n < 65536 -> N.to_nat n = length (b1 t ++ b1 x ++ w2 n ++ tail) ->
  self_describing H_u8_x_u16 (b1 t ++ b1 x ++ w2 n ++ tail) t.
Proof.
  intros Ht Hn Hl. split.
  - unfold b1. rewrite app_length, length_le. lia.
  - intros rest. rewrite <- Hl. unfold b1, w2. cbn [le app read_ehdr].
    rewrite w2_unle2, !N.mod_small by assumption. reflexivity.
Qed.

(* conversely, a self-describing entry's u16 at offset 2 is its size *)
Lemma rm_self_u8_x_u16_length_field e ty : self_describing H_u8_x_u16 e ty -> field_at e 2 2 = N.of_nat (length e).
Proof.
  intros [_ H]. specialize (H []). rewrite app_nil_r in H.
  destruct e as [|t0 [|t1 [|a [|b r]]]]; try discriminate H.
  cbn [read_ehdr] in H. unfold field_at. cbn [skipn firstn].
  remember (length (t0 :: t1 :: a :: b :: r)) as n eqn:En. remember (unle [a; b]) as v eqn:Ev.
  assert (E : N.to_nat v = n) by congruence. rewrite <- E. now rewrite N2Nat.id.
Qed.

(* ---------- the true counts and sizes, from the operation's arguments ---------- *)

(* Option<Vec<..>> argument: () = None (no elements), ((x ...)) = Some(vec) *)
Definition opt_list_count (x : sx) : nat := match x with SL [SL l] => length l | _ => 0%nat end.

Definition iommu_true_len (wires : sx) : nat := (32 + 8 * opt_list_count wires)%nat.
Definition pcierc_true_len (maps : sx) : nat := (16 + 20 * opt_list_count maps)%nat.
Definition platform_true_moff (nm : list N) : nat := (12 + length nm + 1)%nat.        (* fixed part, name, NUL *)
Definition platform_true_len (nm : list N) (maps : sx) : nat := (platform_true_moff nm + 20 * opt_list_count maps)%nat.

Lemma sx_list_all_length {A} (f : sx -> option A) l r : sx_list_all f l = Some r -> length r = length l.
Proof. intros H. exact (proj2 (sx_list_all_Forall f (fun _ => True) (fun _ _ _ => I) l r H)). Qed.

Lemma rimt_wires_count x ws : rimt_wires x = Some ws -> length ws = opt_list_count x.
Proof.
  unfold rimt_wires. intros H. split_matches H.
  - apply rm_Some_inj in H. subst ws. reflexivity.
  - cbn [opt_list_count]. eapply sx_list_all_length; exact H.
Qed.

Lemma rimt_maps_count s x ms : rimt_maps s x = Some ms -> length ms = opt_list_count x.
Proof.
  unfold rimt_maps. intros H. split_matches H.
  - apply rm_Some_inj in H. subst ms. reflexivity.
  - cbn [opt_list_count]. eapply sx_list_all_length; exact H.
Qed.

(* ---------- (A) the walk instance ---------- *)

Lemma rimt_new_empty c s0 : rimt_new c = Some s0 -> t_ents s0 = [].
Proof.
  unfold rimt_new. destruct c as [|l]; [discriminate|].
  destruct l as [|o [|t [|r [|x l]]]]; try discriminate.
  destruct (sx_hdr [82; 73; 77; 84] 1 o t r) as [h|]; [|discriminate]. cbn [option_bind].
  intros H. apply rm_Some_inj in H. subst s0. reflexivity.
Qed.

Lemma iommu_self id b p px ws : length (concat ws) = (8 * length ws)%nat -> iommu_len (N.of_nat (length ws)) <= 65535 ->
  self_describing H_u8_x_u16 (iommu_bytes id b p px ws) 0.
Proof.
  intros Hw Hle. pose proof (iommu_len_sound id b p px ws Hw) as Hs. unfold iommu_bytes in *. cbv zeta in *.
  apply rm_self_u8_x_u16; [lia|lia|]. apply rm_to_nat_of_eq. exact Hs.
Qed.

Lemma pcierc_self id seg ats pri ms : length (concat ms) = (20 * length ms)%nat -> pcierc_len (N.of_nat (length ms)) <= 65535 ->
  self_describing H_u8_x_u16 (pcierc_bytes id seg ats pri ms) 1.
Proof.
  intros Hw Hle. pose proof (pcierc_len_sound id seg ats pri ms Hw) as Hs. unfold pcierc_bytes in *. cbv zeta in *.
  apply rm_self_u8_x_u16; [lia|lia|]. apply rm_to_nat_of_eq. exact Hs.
Qed.

Lemma platform_self id nm ms : length (concat ms) = (20 * length ms)%nat -> platform_len nm (N.of_nat (length ms)) <= 65535 ->
  self_describing H_u8_x_u16 (platform_bytes id nm ms) 2.
Proof.
  intros Hw Hle. pose proof (platform_len_sound id nm ms Hw) as Hs. unfold platform_bytes in *. cbv zeta in *.
  apply rm_self_u8_x_u16; [lia|lia|]. apply rm_to_nat_of_eq. exact Hs.
Qed.

Ltac rm_guard :=
  match goal with Ea : assert _ = Some _ |- _ => apply rm_assert_true in Ea; apply N.leb_le in Ea end.

(* every accepted addition is a device whose own u16 length field is its size: in particular the model refuses
   whenever that size does not fit 16 bits *)
Lemma rimt_addition_self s o e : rimt_addition s o = Some e -> exists ty, self_describing H_u8_x_u16 (a_bytes e) ty.
Proof.
  intros H. unfold rimt_addition in H. split_matches H; apply rm_Some_inj in H; subst e; cbn [a_bytes]; rm_guard;
    first [ exists 0; apply iommu_self; [eapply rimt_wires_length; eassumption|assumption]
          | exists 1; apply pcierc_self; [eapply rimt_maps_length; eassumption|assumption]
          | exists 2; apply platform_self; [eapply rimt_maps_length; eassumption|assumption] ].
Qed.

Definition rimt_walk : walktable :=
  {| wt_table := rimt_table; wt_ehdr := H_u8_x_u16; wt_self := rimt_addition_self; wt_new_empty := rimt_new_empty |}.

(* ---------- (B) sites inside the devices ---------- *)

(* device length (every device kind): u16 at offset 2 = the number of bytes the device occupies *)
Lemma rimt_device_length_exact s o e : rimt_addition s o = Some e ->
  field_at (a_bytes e) 2 2 = N.of_nat (length (a_bytes e)).
Proof.
  intros H. destruct (rimt_addition_self s o e H) as [ty Hs]. eapply rm_self_u8_x_u16_length_field; eassumption.
Qed.

Lemma rimt_device_length_fits s o e : rimt_addition s o = Some e -> N.of_nat (length (a_bytes e)) < 2 ^ 16.
Proof.
  intros H. change (2 ^ 16) with 65536.
  unfold rimt_addition in H. split_matches H; apply rm_Some_inj in H; subst e; cbn [a_bytes]; rm_guard;
    first [ rewrite <- iommu_len_sound by (eapply rimt_wires_length; eassumption)
          | rewrite <- pcierc_len_sound by (eapply rimt_maps_length; eassumption)
          | rewrite <- platform_len_sound by (eapply rimt_maps_length; eassumption) ]; lia.
Qed.

(* --- IOMMU --- *)
Lemma iommu_count_field id b p px ws : N.of_nat (length ws) < 65536 ->
  field_at (iommu_bytes id b p px ws) 28 2 = N.of_nat (length ws).
Proof.
  intros Hn. unfold iommu_bytes. cbv zeta.
  match goal with |- field_at (?a0 ++ ?a1 ++ ?a2 ++ ?a3 ++ ?a4 ++ ?a5 ++ ?a6 ++ ?a7 ++ ?a8 ++ ?a9 ++ w2 ?v ++ ?r) _ _ = _ =>
    change (field_at ((a0 ++ a1 ++ a2 ++ a3 ++ a4 ++ a5 ++ a6 ++ a7 ++ a8 ++ a9) ++ le 2 v ++ r) 28 2 = v) end.
  rewrite w2_field_at_after by reflexivity. apply N.mod_small. exact Hn.
Qed.

Lemma rimt_iommu_exact s id base pci prox wires e :
  rimt_addition s (SL [SA 1; SA id; base; pci; prox; wires]) = Some e ->
  field_at (a_bytes e) 2 2 = N.of_nat (iommu_true_len wires) /\ length (a_bytes e) = iommu_true_len wires /\
  field_at (a_bytes e) 28 2 = N.of_nat (opt_list_count wires).
Proof.
  intros H. pose proof (rimt_device_length_exact _ _ _ H) as Hf. unfold rimt_addition in H.
  destruct (opt_num base) as [b|]; [|discriminate H]. cbn [option_bind] in H.
  destruct (rimt_pci pci) as [p|]; [|discriminate H]. cbn [option_bind] in H.
  destruct (opt_num prox) as [px|]; [|discriminate H]. cbn [option_bind] in H.
  destruct (rimt_wires wires) as [ws|] eqn:Ew; [|discriminate H]. cbn [option_bind] in H.
  destruct (assert _) eqn:Ea; [|discriminate H]. cbn [option_bind] in H.
  apply rm_Some_inj in H. subst e. cbn [a_bytes] in *. rm_guard.
  pose proof (iommu_len_sound id b p px ws (rimt_wires_length _ _ Ew)) as Hs.
  pose proof (rimt_wires_count _ _ Ew) as Hc. unfold iommu_len in *.
  assert (Hl : length (iommu_bytes id b p px ws) = iommu_true_len wires) by (unfold iommu_true_len; lia).
  rewrite Hf, Hl, iommu_count_field by lia. rewrite Hc. auto.
Qed.

Lemma rimt_iommu_length_refuses s id base pci prox wires :
  2 ^ 16 <= N.of_nat (iommu_true_len wires) -> rimt_addition s (SL [SA 1; SA id; base; pci; prox; wires]) = None.
Proof.
  intros Hbig. change (2 ^ 16) with 65536 in Hbig. unfold rimt_addition.
  destruct (opt_num base) as [b|]; [|reflexivity]. cbn [option_bind].
  destruct (rimt_pci pci) as [p|]; [|reflexivity]. cbn [option_bind].
  destruct (opt_num prox) as [px|]; [|reflexivity]. cbn [option_bind].
  destruct (rimt_wires wires) as [ws|] eqn:Ew; [|reflexivity]. cbn [option_bind].
  rewrite (rimt_wires_count _ _ Ew).
  destruct (N.leb_spec (iommu_len (N.of_nat (opt_list_count wires))) 65535) as [Hle|]; [|reflexivity].
  exfalso. unfold iommu_len, iommu_true_len in *. lia.
Qed.

Lemma rimt_iommu_count_refuses s id base pci prox wires :
  2 ^ 16 <= N.of_nat (opt_list_count wires) -> rimt_addition s (SL [SA 1; SA id; base; pci; prox; wires]) = None.
Proof.
  intros Hbig. apply rimt_iommu_length_refuses. change (2 ^ 16) with 65536 in *. unfold iommu_true_len. lia.
Qed.

(* --- PCIe root complex --- *)
Lemma pcierc_count_field id seg ats pri ms : N.of_nat (length ms) < 65536 ->
  field_at (pcierc_bytes id seg ats pri ms) 14 2 = N.of_nat (length ms).
Proof.
  intros Hn. unfold pcierc_bytes. cbv zeta.
  match goal with |- field_at (?a0 ++ ?a1 ++ ?a2 ++ ?a3 ++ ?a4 ++ ?a5 ++ ?a6 ++ w2 ?v ++ ?r) _ _ = _ =>
    change (field_at ((a0 ++ a1 ++ a2 ++ a3 ++ a4 ++ a5 ++ a6) ++ le 2 v ++ r) 14 2 = v) end.
  rewrite w2_field_at_after by reflexivity. apply N.mod_small. exact Hn.
Qed.

Lemma rimt_pcierc_exact s id seg ats pri maps e :
  rimt_addition s (SL [SA 2; SA id; SA seg; SA ats; SA pri; maps]) = Some e ->
  field_at (a_bytes e) 2 2 = N.of_nat (pcierc_true_len maps) /\ length (a_bytes e) = pcierc_true_len maps /\
  field_at (a_bytes e) 14 2 = N.of_nat (opt_list_count maps).
Proof.
  intros H. pose proof (rimt_device_length_exact _ _ _ H) as Hf. unfold rimt_addition in H.
  destruct (rimt_maps s maps) as [ms|] eqn:Em; [|discriminate H]. cbn [option_bind] in H.
  destruct (assert _) eqn:Ea; [|discriminate H]. cbn [option_bind] in H.
  apply rm_Some_inj in H. subst e. cbn [a_bytes] in *. rm_guard.
  pose proof (pcierc_len_sound id seg (truthy ats) (truthy pri) ms (rimt_maps_length _ _ _ Em)) as Hs.
  pose proof (rimt_maps_count _ _ _ Em) as Hc. unfold pcierc_len in *.
  assert (Hl : length (pcierc_bytes id seg (truthy ats) (truthy pri) ms) = pcierc_true_len maps) by (unfold pcierc_true_len; lia).
  rewrite Hf, Hl, pcierc_count_field by lia. rewrite Hc. auto.
Qed.

Lemma rimt_pcierc_length_refuses s id seg ats pri maps :
  2 ^ 16 <= N.of_nat (pcierc_true_len maps) -> rimt_addition s (SL [SA 2; SA id; SA seg; SA ats; SA pri; maps]) = None.
Proof.
  intros Hbig. change (2 ^ 16) with 65536 in Hbig. unfold rimt_addition.
  destruct (rimt_maps s maps) as [ms|] eqn:Em; [|reflexivity]. cbn [option_bind].
  rewrite (rimt_maps_count _ _ _ Em).
  destruct (N.leb_spec (pcierc_len (N.of_nat (opt_list_count maps))) 65535) as [Hle|]; [|reflexivity].
  exfalso. unfold pcierc_len, pcierc_true_len in *. lia.
Qed.

Lemma rimt_pcierc_count_refuses s id seg ats pri maps :
  2 ^ 16 <= N.of_nat (opt_list_count maps) -> rimt_addition s (SL [SA 2; SA id; SA seg; SA ats; SA pri; maps]) = None.
Proof.
  intros Hbig. apply rimt_pcierc_length_refuses. change (2 ^ 16) with 65536 in *. unfold pcierc_true_len. lia.
Qed.

(* --- platform device --- *)
Lemma platform_moff_field id nm ms : platform_moff nm < 65536 ->
  field_at (platform_bytes id nm ms) 8 2 = platform_moff nm.
Proof.
  intros Hn. unfold platform_bytes. cbv zeta.
  match goal with |- field_at (?a0 ++ ?a1 ++ ?a2 ++ ?a3 ++ ?a4 ++ w2 ?v ++ ?r) _ _ = _ =>
    change (field_at ((a0 ++ a1 ++ a2 ++ a3 ++ a4) ++ le 2 v ++ r) 8 2 = v) end.
  rewrite w2_field_at_after by reflexivity. apply N.mod_small. exact Hn.
Qed.

Lemma platform_count_field id nm ms : N.of_nat (length ms) < 65536 ->
  field_at (platform_bytes id nm ms) 10 2 = N.of_nat (length ms).
Proof.
  intros Hn. unfold platform_bytes. cbv zeta.
  match goal with |- field_at (?a0 ++ ?a1 ++ ?a2 ++ ?a3 ++ ?a4 ++ ?a5 ++ w2 ?v ++ ?r) _ _ = _ =>
    change (field_at ((a0 ++ a1 ++ a2 ++ a3 ++ a4 ++ a5) ++ le 2 v ++ r) 10 2 = v) end.
  rewrite w2_field_at_after by reflexivity. apply N.mod_small. exact Hn.
Qed.

Lemma rimt_platform_exact s id name nm maps e : sx_bytes name = Some nm ->
  rimt_addition s (SL [SA 3; SA id; name; maps]) = Some e ->
  field_at (a_bytes e) 2 2 = N.of_nat (platform_true_len nm maps) /\ length (a_bytes e) = platform_true_len nm maps /\
  field_at (a_bytes e) 8 2 = N.of_nat (platform_true_moff nm) /\
  field_at (a_bytes e) 10 2 = N.of_nat (opt_list_count maps).
Proof.
  intros Hnm H. pose proof (rimt_device_length_exact _ _ _ H) as Hf. unfold rimt_addition in H.
  rewrite Hnm in H. cbn [option_bind] in H.
  destruct (rimt_maps s maps) as [ms|] eqn:Em; [|discriminate H]. cbn [option_bind] in H.
  destruct (assert _) eqn:Ea; [|discriminate H]. cbn [option_bind] in H.
  apply rm_Some_inj in H. subst e. cbn [a_bytes] in *. rm_guard.
  pose proof (platform_len_sound id nm ms (rimt_maps_length _ _ _ Em)) as Hs.
  pose proof (rimt_maps_count _ _ _ Em) as Hc. unfold platform_len in *.
  assert (Hm : platform_moff nm = N.of_nat (platform_true_moff nm)) by (unfold platform_moff, platform_true_moff; lia).
  assert (Hl : length (platform_bytes id nm ms) = platform_true_len nm maps) by (unfold platform_true_len; lia).
  rewrite Hf, Hl, platform_moff_field, platform_count_field by lia. rewrite Hc, Hm. auto.
Qed.

Lemma rimt_platform_length_refuses s id name nm maps : sx_bytes name = Some nm ->
  2 ^ 16 <= N.of_nat (platform_true_len nm maps) -> rimt_addition s (SL [SA 3; SA id; name; maps]) = None.
Proof.
  intros Hnm Hbig. change (2 ^ 16) with 65536 in Hbig. unfold rimt_addition. rewrite Hnm. cbn [option_bind].
  destruct (rimt_maps s maps) as [ms|] eqn:Em; [|reflexivity]. cbn [option_bind].
  rewrite (rimt_maps_count _ _ _ Em).
  destruct (N.leb_spec (platform_len nm (N.of_nat (opt_list_count maps))) 65535) as [Hle|]; [|reflexivity].
  exfalso. unfold platform_len, platform_moff, platform_true_len, platform_true_moff in *. lia.
Qed.

Lemma rimt_platform_moff_refuses s id name nm maps : sx_bytes name = Some nm ->
  2 ^ 16 <= N.of_nat (platform_true_moff nm) -> rimt_addition s (SL [SA 3; SA id; name; maps]) = None.
Proof.
  intros Hnm Hbig. apply (rimt_platform_length_refuses s id name nm maps Hnm).
  change (2 ^ 16) with 65536 in *. unfold platform_true_len. lia.
Qed.

Lemma rimt_platform_count_refuses s id name nm maps : sx_bytes name = Some nm ->
  2 ^ 16 <= N.of_nat (opt_list_count maps) -> rimt_addition s (SL [SA 3; SA id; name; maps]) = None.
Proof.
  intros Hnm Hbig. apply (rimt_platform_length_refuses s id name nm maps Hnm).
  change (2 ^ 16) with 65536 in *. unfold platform_true_len. lia.
Qed.

(* the refusals as refusals of the public operation, in both build modes *)
Corollary rimt_refused_both_modes md s o : rimt_addition s o = None -> rimt_step md s o = None.
Proof. intros H. now apply w2_add_step_refuses. Qed.

(* ---------- (C) table level ---------- *)
(* the device count in the table's header area (offset 36) is a u32 written from t_cnt; t_cnt is the number of devices *)
Corollary rimt_tiles md c ops s0 s :
  rimt_new c = Some s0 -> run_adds rimt_addition md s0 ops = Some s -> N.of_nat (length (tbl_image s)) < 2 ^ 32 ->
  let first := (36 + length (mid (t_kind s) (t_pre s) 0))%nat in
  exists tys,
    Forall2 (self_describing H_u8_x_u16) (t_ents s) tys /\
    walk (length (t_ents s)) H_u8_x_u16 first (skipn first (tbl_image s)) = Some (walk_result first (t_ents s) tys) /\
    concat (t_ents s) = skipn first (tbl_image s) /\
    t_cnt s = N.of_nat (length (t_ents s)).
Proof. exact (walktable_tiles rimt_walk md c ops s0 s). Qed.

Corollary rimt_history_device_lengths md c ops s0 s :
  rimt_new c = Some s0 -> run_adds rimt_addition md s0 ops = Some s -> N.of_nat (length (tbl_image s)) < 2 ^ 32 ->
  Forall (fun e => field_at e 2 2 = N.of_nat (length e)) (t_ents s).
Proof.
  intros Hn Hr Hfit. destruct (rimt_tiles md c ops s0 s Hn Hr Hfit) as (tys & HF & _).
  clear - HF. induction HF as [|e ty es tys He _ IH]; constructor; [|exact IH].
  eapply rm_self_u8_x_u16_length_field; exact He.
Qed.

Print Assumptions rimt_walk.
Print Assumptions rimt_device_length_exact.
Print Assumptions rimt_device_length_fits.
Print Assumptions rimt_iommu_exact.
Print Assumptions rimt_iommu_length_refuses.
Print Assumptions rimt_iommu_count_refuses.
Print Assumptions rimt_pcierc_exact.
Print Assumptions rimt_pcierc_length_refuses.
Print Assumptions rimt_pcierc_count_refuses.
Print Assumptions rimt_platform_exact.
Print Assumptions rimt_platform_length_refuses.
Print Assumptions rimt_platform_moff_refuses.
Print Assumptions rimt_platform_count_refuses.
Print Assumptions rimt_refused_both_modes.
Print Assumptions rimt_tiles.
Print Assumptions rimt_history_device_lengths.
