(* FADT: for every constructor argument and every finite sequence of builder calls and direct assignments of the public body
   fields (ops 10 / 11 of Spec/FadtS.v), the finalized image sums to 0 and its Length field (offset 4) is its size, 276;
   the flag law: the Flags field (offset 112 of the image) is the value of the LAST direct assignment of `flags` (0 when the
   field was never assigned) OR-ed with the bits of the flag() calls made AFTER that assignment, whatever their order and
   repetitions and whatever other calls and assignments are interleaved, and flag() changes no other field. *)
From Coq Require Import NArith ZArith List Lia Bool Arith.
From ACPI Require Import Lib.Bytes Lib.Sx Lib.Machine Impl.Checksum Impl.Table Impl.Fields Impl.Run Impl.Madt Impl.Gas Impl.Fadt
  Spec.Layout Proofs.ChecksumP Proofs.TableP Proofs.MadtP.
Import ListNotations.

Ltac Zify.zify_post_hook ::= Z.to_euclidean_division_equations.

Open Scope N_scope.

(* ---------- field lists: widths, sizes, positions ---------- *)

Definition wsum (l : list nat) : nat := fold_right Nat.add 0%nat l.
Definition widths (f : flds) : list nat := map fst f.

Lemma length_ser_flds_w f : length (ser_flds f) = wsum (widths f).
Proof.
  induction f as [|[w v] f IH]; [reflexivity|].
  unfold ser_flds in *. cbn [map concat fst snd widths wsum fold_right]. rewrite app_length, length_le. f_equal. exact IH.
Qed.

Lemma widths_fset f i v : widths (fset f i v) = widths f.
Proof.
  revert i; induction f as [|[w x] f IH]; intros [|i]; cbn [fset widths map fst]; try reflexivity. f_equal. apply IH.
Qed.

Lemma widths_f_or f i b : widths (f_or f i b) = widths f.
Proof.
  revert i; induction f as [|[w x] f IH]; intros [|i]; cbn [f_or widths map fst]; try reflexivity. f_equal. apply IH.
Qed.

Lemma widths_length f : length (widths f) = length f.
Proof. apply map_length. Qed.

Lemma fget_fset_same f i v : (i < length f)%nat -> fget (fset f i v) i = v.
Proof.
  revert i; induction f as [|[w x] f IH]; intros [|i] H; cbn [length] in H; try lia; unfold fget in *; cbn [fset nth snd].
  - reflexivity.
  - apply IH. lia.
Qed.

Lemma fget_fset_other f i j v : i <> j -> fget (fset f i v) j = fget f j.
Proof.
  revert i j; induction f as [|[w x] f IH]; intros [|i] [|j] H; unfold fget in *; cbn [fset nth]; try reflexivity; try congruence.
  apply IH. congruence.
Qed.

Lemma f_or_fset f i b : f_or f i b = fset f i (N.lor (fget f i) b).
Proof.
  revert i; induction f as [|[w x] f IH]; intros [|i]; unfold fget in *; cbn [f_or fset nth snd]; try reflexivity.
  f_equal. apply IH.
Qed.

Lemma fset_fset f i a b : fset (fset f i a) i b = fset f i b.
Proof.
  revert i; induction f as [|[w x] f IH]; intros [|i]; cbn [fset]; try reflexivity. f_equal. apply IH.
Qed.

(* the value decoded at the position of field i is the field's value, truncated to its width *)
Lemma skipn_le_plus w v k X : skipn (w + k) (le w v ++ X) = skipn k X.
Proof.
  rewrite skipn_app, length_le. replace (w + k - w)%nat with k by lia.
  rewrite (skipn_all2 (n := (w + k)%nat) (le w v)) by (rewrite length_le; lia). reflexivity.
Qed.

Lemma field_at_ser_flds f : forall i, (i < length f)%nat ->
  field_at (ser_flds f) (wsum (firstn i (widths f))) (nth i (widths f) 0%nat) =
  fget f i mod 2 ^ (8 * N.of_nat (nth i (widths f) 0%nat)).
Proof.
  induction f as [|[w v] f IH]; intros [|i] H; cbn [length] in H; try lia.
  - unfold field_at, fget, ser_flds. cbn [widths map fst snd firstn wsum fold_right nth concat skipn].
    rewrite firstn_le_app. apply unle_le.
  - specialize (IH i ltac:(lia)). unfold field_at, fget, ser_flds in *.
    cbn [widths map fst snd firstn wsum fold_right nth concat]. fold (widths f).
    change (fold_right Nat.add 0%nat (firstn i (widths f))) with (wsum (firstn i (widths f))).
    rewrite skipn_le_plus. exact IH.
Qed.

(* replacing a one-byte field changes the byte sum by that byte *)
Lemma zsum_ser_fset f : forall i v, (i < length f)%nat -> nth i (widths f) 0%nat = 1%nat ->
  (zsum (ser_flds (fset f i v)) = zsum (ser_flds (fset f i 0)) + Z.of_N (v mod 256))%Z.
Proof.
  induction f as [|[w x] f IH]; intros [|i] v H Hw; cbn [length] in H; try lia.
  - cbn [widths map fst nth] in Hw. subst w. unfold ser_flds. cbn [fset map concat fst snd]. rewrite !zsum_app.
    cbn [le zsum]. change (0 mod 256) with 0. lia.
  - cbn [widths map fst nth] in Hw. fold (widths f) in Hw.
    unfold ser_flds in *. cbn [fset map concat fst snd]. rewrite !zsum_app. rewrite (IH i v) by (lia || exact Hw). lia.
Qed.

(* ---------- the FADTBuilder: shape of every reachable value ---------- *)

(* the widths of the 129 fields of FADTBuilder *)
Definition FADT_WIDTHS : list nat := Eval vm_compute in widths (fadt_new_flds (repeatN 0 6) (repeatN 0 8) 0).

Lemma widths_fbytes l : widths (fbytes l) = repeatN 1%nat (length l).
Proof. induction l as [|x l IH]; [reflexivity|]. cbn [fbytes map widths fst length repeatN]. f_equal. exact IH. Qed.

Lemma fadt_new_widths c f : fadt_new c = Some f -> widths f = FADT_WIDTHS.
Proof.
  unfold fadt_new. destruct c as [|l]; [discriminate|].
  destruct l as [|o [|t [|r [|x l]]]]; try discriminate.
  destruct (sx_arr 6 o) as [oem|] eqn:Eo; [|discriminate]. cbn [option_bind].
  destruct (sx_arr 8 t) as [tb|] eqn:Et; [|discriminate]. cbn [option_bind].
  destruct (sx_num r); [|discriminate]. cbn [option_bind]. intros H; inversion H; subst; clear H.
  unfold fadt_new_flds, widths. rewrite !map_app. fold (widths (fbytes oem)). fold (widths (fbytes tb)).
  rewrite !widths_fbytes, (sx_arr_length _ _ _ Eo), (sx_arr_length _ _ _ Et). reflexivity.
Qed.

Lemma fadt_new_length_field c f : fadt_new c = Some f -> fget f I_LENGTH = FADT_LEN.
Proof.
  unfold fadt_new. destruct c as [|l]; [discriminate|].
  destruct l as [|o [|t [|r [|x l]]]]; try discriminate.
  destruct (sx_arr 6 o) as [oem|]; [|discriminate]. cbn [option_bind].
  destruct (sx_arr 8 t) as [tb|]; [|discriminate]. cbn [option_bind].
  destruct (sx_num r); [|discriminate]. cbn [option_bind]. intros H; inversion H; subst; clear H. reflexivity.
Qed.

(* what one call does: a few field assignments (fset / f_or), never to `length` and never to `checksum` *)
Inductive touches : flds -> flds -> Prop :=
| touch_refl f : touches f f
| touch_set f f' i v : touches f f' -> i <> I_LENGTH -> i <> I_FLAGS -> touches f (fset f' i v).

Lemma touches_widths f f' : touches f f' -> widths f' = widths f.
Proof. induction 1; [reflexivity|]. now rewrite widths_fset. Qed.

Lemma touches_keeps f f' : touches f f' -> fget f' I_LENGTH = fget f I_LENGTH /\ fget f' I_FLAGS = fget f I_FLAGS.
Proof.
  induction 1 as [|f f' i v T [IH1 IH2] H1 H2]; [split; reflexivity|].
  split; rewrite fget_fset_other by assumption; assumption.
Qed.

Ltac touch := repeat (apply touch_set; [|discriminate|discriminate]); apply touch_refl.

(* the table of directly assignable scalar fields: entry 35 is `flags` (a dword), no entry is `length` *)
Lemma assignable_spec : forall n i w, nth_error FADT_ASSIGNABLE n = Some (i, w) ->
  (n = 35%nat /\ i = I_FLAGS /\ w = 4%nat) \/ (n <> 35%nat /\ i <> I_LENGTH /\ i <> I_FLAGS).
Proof.
  intros n.
  do 42 (destruct n as [|n];
         [cbn [nth_error FADT_ASSIGNABLE]; intros i w Hn; inversion Hn; subst i w; clear Hn;
          ((left; repeat split; reflexivity) || (right; repeat split; discriminate))|]).
  intros i w Hn. destruct n; discriminate Hn.
Qed.

(* the GAS-typed fields start after `flags` *)
Lemma gas_fields_spec : forall n i, nth_error FADT_GAS_FIELDS n = Some i -> (68 <= i)%nat.
Proof.
  intros n.
  do 11 (destruct n as [|n]; [cbn [nth_error FADT_GAS_FIELDS]; intros i Hn; inversion Hn; subst i; clear Hn; lia|]).
  intros i Hn. destruct n; discriminate Hn.
Qed.

(* the direct assignment of the `flags` field *)
Definition FLAGS_K : N := 35.

Lemma fadt_assign_m_cases f k v f' : fadt_assign_m f k v = Some f' ->
  (k = FLAGS_K /\ f' = fset f I_FLAGS (v mod 2 ^ 32)) \/ (k <> FLAGS_K /\ touches f f').
Proof.
  unfold fadt_assign_m. destruct (nth_error FADT_ASSIGNABLE (N.to_nat k)) as [[i w]|] eqn:En; [|discriminate].
  intros Hs; inversion Hs; subst f'; clear Hs.
  destruct (assignable_spec _ _ _ En) as [(Hn & Hi & Hw)|(Hn & H1 & H2)].
  - left. subst i w. split; [|reflexivity].
    apply (f_equal N.of_nat) in Hn. rewrite N2Nat.id in Hn. exact Hn.
  - right. split.
    + intros Hk. apply Hn. rewrite Hk. reflexivity.
    + apply touch_set; [apply touch_refl|exact H1|exact H2].
Qed.

Lemma fadt_assign_gas_m_touches f g sp bw bo ac addr f' : fadt_assign_gas_m f g sp bw bo ac addr = Some f' -> touches f f'.
Proof.
  unfold fadt_assign_gas_m. destruct (nth_error FADT_GAS_FIELDS (N.to_nat g)) as [i|] eqn:En; [|discriminate].
  intros Hs; inversion Hs; subst f'; clear Hs. pose proof (gas_fields_spec _ _ En) as Hi.
  cbn [gas_new gas_mk fvals map snd F fset_seq].
  repeat (apply touch_set; [|unfold I_LENGTH; lia|unfold I_FLAGS; lia]). apply touch_refl.
Qed.

(* every call other than flag() and the direct assignment of `flags` is a sequence of assignments away from `length` and
   `flags`; flag(i) is flags |= bits(i) and nothing else; `b.flags = v` is that assignment and nothing else *)
Lemma fadt_builder_cases f o f' : fadt_builder f o = Some f' ->
  ((forall i, o <> SL [SA 7; SA i]) /\ (forall v, o <> SL [SA 10; SA FLAGS_K; SA v]) /\ touches f f') \/
  (exists i b, o = SL [SA 7; SA i] /\ flag_bits i = Some b /\ f' = f_or f I_FLAGS b) \/
  (exists v, o = SL [SA 10; SA FLAGS_K; SA v] /\ f' = fset f I_FLAGS (v mod 2 ^ 32)).
Proof.
  unfold fadt_builder. intros H.
  repeat match type of H with
         | match ?x with _ => _ end = Some _ => destruct x; try discriminate
         end;
  try (inversion H; subst; clear H; left; split; [intros i0 E; discriminate E |split; [intros v0 E; discriminate E | touch]]).
  all: lazymatch type of H with
       | option_bind (flag_bits ?i) _ = _ =>                                    (* flag(i) *)
           right; left; destruct (flag_bits i) as [b|] eqn:Eb; [|discriminate];
           cbn [option_bind] in H; inversion H; subst; repeat eexists; exact Eb
       | fadt_assign_m _ _ _ = _ =>                                             (* b.<field k> = v *)
           destruct (fadt_assign_m_cases _ _ _ _ H) as [[Hk Hf]|[Hk T]];
           [right; right; subst; eexists; split; reflexivity
           |left; split; [intros i0 E; discriminate E|]; split; [|exact T];
            intros v0 E; inversion E; congruence]
       | fadt_assign_gas_m _ _ _ _ _ _ _ = _ =>                                 (* b.<gas g> = GAS::new(..) *)
           left; split; [intros i0 E; discriminate E|]; split; [intros v0 E; discriminate E|];
           eapply fadt_assign_gas_m_touches; eauto
       end.
Qed.

Lemma fadt_builder_widths f o f' : fadt_builder f o = Some f' -> widths f' = widths f.
Proof.
  intros H. destruct (fadt_builder_cases f o f' H) as [(_ & _ & T)|[(i & b & _ & _ & ->)|(v & _ & ->)]].
  - now apply touches_widths.
  - apply widths_f_or.
  - apply widths_fset.
Qed.

Lemma fadt_builder_length_field f o f' : fadt_builder f o = Some f' -> fget f' I_LENGTH = fget f I_LENGTH.
Proof.
  intros H. destruct (fadt_builder_cases f o f' H) as [(_ & _ & T)|[(i & b & _ & _ & ->)|(v & _ & ->)]].
  - apply (touches_keeps _ _ T).
  - rewrite f_or_fset. apply fget_fset_other. discriminate.
  - apply fget_fset_other. discriminate.
Qed.

(* histories: the builder calls of a case applied in order (observation markers skipped) *)
Fixpoint fadt_run (md : mode) (f : flds) (ops : list sx) : option flds :=
  match ops with
  | [] => Some f
  | SA _ :: r => fadt_run md f r
  | o :: r => match fadt_step md f o with Some (f', _) => fadt_run md f' r | None => None end
  end.

Lemma fadt_step_builder md f o f' evs : fadt_step md f o = Some (f', evs) -> fadt_builder f o = Some f'.
Proof.
  unfold fadt_step. destruct (fadt_builder f o); [|discriminate]. cbn [option_bind]. intros H; inversion H; reflexivity.
Qed.

Lemma fadt_run_shape md ops : forall f f', fadt_run md f ops = Some f' ->
  widths f' = widths f /\ fget f' I_LENGTH = fget f I_LENGTH.
Proof.
  induction ops as [|o ops IH]; intros f f' H; cbn [fadt_run] in H.
  - inversion H; subst. split; reflexivity.
  - destruct o as [n|l]; [now apply IH|].
    destruct (fadt_step md f (SL l)) as [[f1 evs]|] eqn:E; [|discriminate].
    apply fadt_step_builder in E. destruct (IH f1 f' H) as [H1 H2].
    rewrite H1, H2, (fadt_builder_widths _ _ _ E), (fadt_builder_length_field _ _ _ E). split; reflexivity.
Qed.

(* ---------- finalize: checksum and length of the emitted image ---------- *)

Lemma fadt_finalize_eq f : fadt_finalize f = fset f I_CHECKSUM (generate_checksum (ser_flds (fset f I_CHECKSUM 0))).
Proof. unfold fadt_finalize. apply fset_fset. Qed.

Lemma fadt_image_sum f : widths f = FADT_WIDTHS -> sum8 (fadt_image f) = 0.
Proof.
  intros Hw. unfold fadt_image. rewrite fadt_finalize_eq.
  set (f0 := fset f I_CHECKSUM 0). set (g := generate_checksum (ser_flds f0)).
  assert (Hlen : (I_CHECKSUM < length f)%nat) by (rewrite <- widths_length, Hw; vm_compute; lia).
  assert (Hw1 : nth I_CHECKSUM (widths f) 0%nat = 1%nat) by (rewrite Hw; reflexivity).
  pose proof (zsum_ser_fset f I_CHECKSUM g Hlen Hw1) as Hz. fold f0 in Hz.
  destruct (generate_checksum_spec (ser_flds f0)) as [H1 H2]. fold g in H1, H2.
  unfold sum8. apply N2Z.inj. rewrite N2Z.inj_mod, <- zsum_sumN, Hz.
  apply (f_equal Z.of_N) in H1. rewrite N2Z.inj_mod, N2Z.inj_add, <- zsum_sumN in H1.
  rewrite (N.mod_small g 256) by exact H2.
  generalize dependent (zsum (ser_flds f0)). intros. cbn [Z.of_N] in *. lia.
Qed.

Lemma fadt_image_length f : widths f = FADT_WIDTHS -> length (fadt_image f) = 276%nat.
Proof.
  intros Hw. unfold fadt_image. rewrite length_ser_flds_w, fadt_finalize_eq, widths_fset, Hw. reflexivity.
Qed.

Lemma fadt_image_field f i : widths f = FADT_WIDTHS -> (i < length FADT_WIDTHS)%nat -> i <> I_CHECKSUM ->
  field_at (fadt_image f) (wsum (firstn i FADT_WIDTHS)) (nth i FADT_WIDTHS 0%nat) =
  fget f i mod 2 ^ (8 * N.of_nat (nth i FADT_WIDTHS 0%nat)).
Proof.
  intros Hw Hi Hne. unfold fadt_image. rewrite fadt_finalize_eq.
  set (g := fset f I_CHECKSUM _).
  assert (Hwg : widths g = FADT_WIDTHS) by (unfold g; now rewrite widths_fset).
  pose proof (field_at_ser_flds g i) as H. rewrite Hwg in H. rewrite H.
  - unfold g. rewrite fget_fset_other by congruence. reflexivity.
  - rewrite <- widths_length, Hwg. exact Hi.
Qed.

(* C01 + C02 for the FADT: any constructor arguments, any finite sequence of builder calls *)
Theorem fadt_history md c ops f0 f :
  fadt_new c = Some f0 -> fadt_run md f0 ops = Some f ->
  sum8 (fadt_image f) = 0 /\ field_at (fadt_image f) 4 4 = N.of_nat (length (fadt_image f)).
Proof.
  intros Hn Hr. destruct (fadt_run_shape md ops f0 f Hr) as [Hw Hl].
  rewrite (fadt_new_widths _ _ Hn) in Hw. rewrite (fadt_new_length_field _ _ Hn) in Hl.
  split; [now apply fadt_image_sum|].
  rewrite (fadt_image_length f Hw).
  pose proof (fadt_image_field f I_LENGTH Hw ltac:(vm_compute; lia) ltac:(discriminate)) as H.
  change (wsum (firstn I_LENGTH FADT_WIDTHS)) with 4%nat in H. change (nth I_LENGTH FADT_WIDTHS 0%nat) with 4%nat in H.
  rewrite H, Hl. reflexivity.
Qed.

(* ---------- the flag law ---------- *)

(* the bits of the flag() calls of a history, in call order *)
Definition flag_call (o : sx) : list N :=
  match o with
  | SL [SA 7; SA i] => match flag_bits i with Some b => [b] | None => [] end
  | _ => []
  end.

Definition flag_calls (ops : list sx) : list N := concat (map flag_call ops).

(* the value a direct assignment of the `flags` field (op (10 35 v)) gives it *)
Definition flags_assigned (o : sx) : option N :=
  match o with
  | SL [SA 10; SA 35; SA v] => Some v
  | _ => None
  end.

(* a history seen from the Flags field: (the value of the LAST direct assignment of `flags`, if there is one;
   the operations made after that assignment -- all of them when there is none) *)
Fixpoint flags_cut (ops : list sx) : option N * list sx :=
  match ops with
  | [] => (None, [])
  | o :: r =>
      match flags_cut r with
      | (Some v, post) => (Some v, post)
      | (None, _) => match flags_assigned o with Some v => (Some v, r) | None => (None, o :: r) end
      end
  end.

Definition no_flags_assignment (ops : list sx) : Prop := forall o, In o ops -> flags_assigned o = None.

Lemma flags_cut_none ops : no_flags_assignment ops -> flags_cut ops = (None, ops).
Proof.
  induction ops as [|o ops IH]; intros H; [reflexivity|]. cbn [flags_cut].
  rewrite IH by (intros x Hx; apply H; now right). rewrite (H o) by now left. reflexivity.
Qed.

Lemma flags_cut_none_inv ops post : flags_cut ops = (None, post) -> post = ops /\ no_flags_assignment ops.
Proof.
  revert post. induction ops as [|o ops IH]; intros post H; cbn [flags_cut] in H.
  - inversion H. split; [reflexivity|]. intros x [].
  - destruct (flags_cut ops) as [[v|] p] eqn:E; [discriminate|].
    destruct (flags_assigned o) as [v|] eqn:Ea; [discriminate|]. inversion H; subst post.
    destruct (IH p eq_refl) as [_ Hn]. split; [reflexivity|].
    intros x [<-|Hx]; [exact Ea|now apply Hn].
Qed.

(* the declarative reading of flags_cut: a history whose last direct assignment of `flags` is `flags = v`, followed by [post] *)
Lemma flags_cut_last pre v post : no_flags_assignment post ->
  flags_cut (pre ++ SL [SA 10; SA 35; SA v] :: post) = (Some v, post).
Proof.
  intros Hp. induction pre as [|o pre IH]; cbn [app flags_cut].
  - rewrite (flags_cut_none post Hp). reflexivity.
  - rewrite IH. reflexivity.
Qed.

Lemma flag_call_other o : (forall i, o <> SL [SA 7; SA i]) -> flag_call o = [].
Proof.
  intros H. unfold flag_call.
  repeat match goal with
         | |- match ?x with _ => _ end = _ => destruct x; try reflexivity
         end.
  exfalso. eapply H. reflexivity.
Qed.

Lemma flags_assigned_other o : (forall v, o <> SL [SA 10; SA FLAGS_K; SA v]) -> flags_assigned o = None.
Proof.
  intros H. unfold flags_assigned.
  repeat match goal with
         | |- match ?x with _ => _ end = _ => destruct x; try reflexivity
         end.
  exfalso. eapply H. reflexivity.
Qed.

(* one call: `b.flags = v` gives the field the value v (as a u32); flag(i) ors its bits into the Flags field and changes no
   other field; every other call and assignment keeps the field *)
Lemma fadt_builder_flags f o f' : (I_FLAGS < length f)%nat -> fadt_builder f o = Some f' ->
  fget f' I_FLAGS = match flags_assigned o with
                    | Some v => v mod 2 ^ 32
                    | None => fold_left N.lor (flag_call o) (fget f I_FLAGS)
                    end.
Proof.
  intros Hlen H. destruct (fadt_builder_cases f o f' H) as [(Hn & Ha & T)|[(i & b & -> & Eb & ->)|(v & -> & ->)]].
  - rewrite (flags_assigned_other o Ha), (flag_call_other o Hn). cbn [fold_left]. apply (touches_keeps _ _ T).
  - cbn [flag_call flags_assigned]. rewrite Eb. cbn [fold_left]. rewrite f_or_fset. apply fget_fset_same. exact Hlen.
  - cbn [flags_assigned]. apply fget_fset_same. exact Hlen.
Qed.

Theorem fadt_flag_frame f i f' : fadt_builder f (SL [SA 7; SA i]) = Some f' ->
  widths f' = widths f /\ forall j, j <> I_FLAGS -> fget f' j = fget f j.
Proof.
  intros H. split; [eapply fadt_builder_widths; eauto|]. intros j Hj.
  cbn [fadt_builder] in H. destruct (flag_bits i) as [b|]; [|discriminate]. cbn [option_bind] in H.
  inversion H; subst. rewrite f_or_fset. apply fget_fset_other. congruence.
Qed.

(* any history: the Flags field is the value of the last direct assignment of `flags` (as a u32; the field's initial value
   when the history contains none) OR-ed with the bits of the flag() calls made after that assignment, whatever else was
   called or assigned in between *)
Theorem fadt_flag_law md ops : forall f f', (I_FLAGS < length f)%nat -> fadt_run md f ops = Some f' ->
  fget f' I_FLAGS = fold_left N.lor (flag_calls (snd (flags_cut ops)))
                              (match fst (flags_cut ops) with Some v => v mod 2 ^ 32 | None => fget f I_FLAGS end).
Proof.
  induction ops as [|o ops IH]; intros f f' Hlen H; cbn [fadt_run] in H.
  - inversion H; subst. reflexivity.
  - assert (Hstep : exists f1, fadt_run md f1 ops = Some f' /\ (I_FLAGS < length f1)%nat /\
                      fget f1 I_FLAGS = match flags_assigned o with
                                        | Some v => v mod 2 ^ 32
                                        | None => fold_left N.lor (flag_call o) (fget f I_FLAGS)
                                        end).
    { destruct o as [n|l]; [exists f; cbn [flags_assigned flag_call fold_left]; auto|].
      destruct (fadt_step md f (SL l)) as [[f1 evs]|] eqn:E; [|discriminate].
      apply fadt_step_builder in E. exists f1. split; [exact H|]. split.
      - rewrite <- !widths_length, (fadt_builder_widths _ _ _ E), widths_length. exact Hlen.
      - exact (fadt_builder_flags f (SL l) f1 Hlen E). }
    destruct Hstep as (f1 & Hr & Hlen1 & Hf1). specialize (IH f1 f' Hlen1 Hr).
    cbn [flags_cut]. destruct (flags_cut ops) as [[v|] post] eqn:Ec; cbn [fst snd] in *.
    + exact IH.
    + destruct (flags_cut_none_inv _ _ Ec) as [-> _].
      destruct (flags_assigned o) as [v|]; cbn [fst snd].
      * rewrite IH, Hf1. reflexivity.
      * rewrite IH, Hf1. unfold flag_calls. cbn [map concat]. rewrite fold_left_app. reflexivity.
Qed.

(* the two readings of the law *)
Corollary fadt_flag_law_no_assign md ops f f' : (I_FLAGS < length f)%nat -> fadt_run md f ops = Some f' ->
  no_flags_assignment ops ->
  fget f' I_FLAGS = fold_left N.lor (flag_calls ops) (fget f I_FLAGS).
Proof. intros Hlen Hr Hn. rewrite (fadt_flag_law md ops f f' Hlen Hr), (flags_cut_none ops Hn). reflexivity. Qed.

Corollary fadt_flag_law_after_assign md pre v post f f' : (I_FLAGS < length f)%nat ->
  fadt_run md f (pre ++ SL [SA 10; SA 35; SA v] :: post) = Some f' -> no_flags_assignment post ->
  fget f' I_FLAGS = fold_left N.lor (flag_calls post) (v mod 2 ^ 32).
Proof. intros Hlen Hr Hn. rewrite (fadt_flag_law md _ f f' Hlen Hr), (flags_cut_last pre v post Hn). reflexivity. Qed.

(* order and repetitions do not matter: the fold depends only on the set of bits *)
Lemma lor_fold_testbit l : forall a n, N.testbit (fold_left N.lor l a) n = N.testbit a n || existsb (fun b => N.testbit b n) l.
Proof.
  induction l as [|b l IH]; intros a n; cbn [fold_left existsb].
  - now rewrite orb_false_r.
  - rewrite IH, N.lor_spec, orb_assoc. reflexivity.
Qed.

Theorem lor_fold_set l l' a : (forall x, In x l <-> In x l') -> fold_left N.lor l a = fold_left N.lor l' a.
Proof.
  intros Hs. apply N.bits_inj. intros n. rewrite !lor_fold_testbit. f_equal.
  apply eq_true_iff_eq. rewrite !existsb_exists. split; intros (x & Hx & Hb); exists x; split; auto; now apply Hs.
Qed.

(* truncating the starting value to the field's 32 bits first changes nothing of the truncated union *)
Lemma lor_fold_mod32 l a : fold_left N.lor l (a mod 2 ^ 32) mod 2 ^ 32 = fold_left N.lor l a mod 2 ^ 32.
Proof.
  apply N.bits_inj. intros n. destruct (N.lt_ge_cases n 32) as [Hn|Hn].
  - rewrite !N.mod_pow2_bits_low by exact Hn. rewrite !lor_fold_testbit, N.mod_pow2_bits_low by exact Hn. reflexivity.
  - rewrite !N.mod_pow2_bits_high by exact Hn. reflexivity.
Qed.

Lemma fadt_new_flags c f : fadt_new c = Some f -> fget f I_FLAGS = 0.
Proof.
  unfold fadt_new. destruct c as [|l]; [discriminate|].
  destruct l as [|o [|t [|r [|x l]]]]; try discriminate.
  destruct (sx_arr 6 o) as [oem|] eqn:Eo; [|discriminate]. cbn [option_bind].
  destruct (sx_arr 8 t) as [tb|] eqn:Et; [|discriminate]. cbn [option_bind].
  destruct (sx_num r); [|discriminate]. cbn [option_bind]. intros H; inversion H; subst; clear H.
  apply sx_arr_length in Eo. apply sx_arr_length in Et.
  destruct oem as [|o0 [|o1 [|o2 [|o3 [|o4 [|o5 [|]]]]]]]; try discriminate.
  destruct tb as [|t0 [|t1 [|t2 [|t3 [|t4 [|t5 [|t6 [|t7 [|]]]]]]]]]; try discriminate.
  reflexivity.
Qed.

(* C11 for the FADT in terms of the emitted bytes: the dword at offset 112 of the finalized image *)
Theorem fadt_flags_in_image md c ops f0 f :
  fadt_new c = Some f0 -> fadt_run md f0 ops = Some f ->
  field_at (fadt_image f) 112 4 =
  fold_left N.lor (flag_calls (snd (flags_cut ops))) (match fst (flags_cut ops) with Some v => v | None => 0 end) mod 2 ^ 32.
Proof.
  intros Hn Hr. destruct (fadt_run_shape md ops f0 f Hr) as [Hw _].
  pose proof (fadt_new_widths _ _ Hn) as Hw0. rewrite Hw0 in Hw.
  pose proof (fadt_image_field f I_FLAGS Hw ltac:(vm_compute; lia) ltac:(discriminate)) as H.
  change (wsum (firstn I_FLAGS FADT_WIDTHS)) with 112%nat in H. change (nth I_FLAGS FADT_WIDTHS 0%nat) with 4%nat in H.
  rewrite H. change (8 * N.of_nat 4) with 32.
  assert (Hlen : (I_FLAGS < length f0)%nat) by (rewrite <- widths_length, Hw0; vm_compute; lia).
  rewrite (fadt_flag_law md ops f0 f Hlen Hr), (fadt_new_flags _ _ Hn).
  destruct (fst (flags_cut ops)) as [v|]; [apply lor_fold_mod32|reflexivity].
Qed.

(* two histories over the same constructor with the same last direct assignment of `flags` (or none) whose flag() calls after
   it cover the same set of bits end with the same Flags field, whatever the order, the repetitions and the other calls *)
Corollary fadt_flags_order md c ops ops' f0 f f' :
  fadt_new c = Some f0 -> fadt_run md f0 ops = Some f -> fadt_run md f0 ops' = Some f' ->
  fst (flags_cut ops) = fst (flags_cut ops') ->
  (forall b, In b (flag_calls (snd (flags_cut ops))) <-> In b (flag_calls (snd (flags_cut ops')))) ->
  fget f I_FLAGS = fget f' I_FLAGS.
Proof.
  intros Hn Hr Hr' Hb Hs.
  assert (Hlen : (I_FLAGS < length f0)%nat) by (rewrite <- widths_length, (fadt_new_widths _ _ Hn); vm_compute; lia).
  rewrite (fadt_flag_law md ops f0 f Hlen Hr), (fadt_flag_law md ops' f0 f' Hlen Hr'), Hb. now apply lor_fold_set.
Qed.
