(* XSDT, property C03 as a theorem.
   (1) `xsdt_reference_tiles`: for every constructor argument and every history inside the specification's domain, stepping
       from offset 36 of the REFERENCE image by the fixed entry size (8 bytes) visits exactly as many entries as were added
       and lands exactly on the end of the table: `c03_judge xsdt_spec ctor r ops = true`.
   (2) `xsdt_model_tiles`: the same judgement holds of the image the Impl model produces (through `xsdt_refines`: image
       below 2^32 bytes).
   The XSDT returns no handles and maintains no count field. *)
From Coq Require Import NArith ZArith List Lia Bool Arith.
From ACPI Require Import Lib.Bytes Lib.Sx Lib.Machine Impl.Table Impl.Run Impl.Xsdt
  Spec.Layout Spec.MadtS Spec.XsdtS Proofs.TableP Proofs.WalkP Proofs.RefCommonP Proofs.XsdtRefP Proofs.WalkRefCommonP.
Import ListNotations.
Open Scope N_scope.

Lemma xsdt_entry_self o b : xsdt_entry_ref o = Some b -> self_describing (H_fixed 8) b 0.
Proof.
  intros H. unfold xsdt_entry_ref in H. repeat dvar H.
  eapply lay_fixed_self; [exact H|apply Nat.leb_le; reflexivity].
Qed.

Theorem xsdt_reference_tiles : forall ctor ops r,
  ts_image xsdt_spec ctor ops = Some r -> c03_judge xsdt_spec ctor r ops = true.
Proof.
  intros ctor ops r Himg. cbn [ts_image xsdt_spec] in Himg. unfold xsdt_image in Himg.
  destruct ctor as [n|[|o [|t [|rv [|x l]]]]]; try discriminate Himg.
  destruct (sx_hdr_args o t rv) as [ha|] eqn:Eha; [|discriminate Himg].
  destruct (xsdt_entries_ref ops) as [es|] eqn:Ees; [|discriminate Himg].
  apply wr_Some_inj in Himg.
  destruct (sx_hdr_args_lengths _ _ _ _ Eha) as [Ho Ht].
  apply (c03_judge_ref (H_fixed 8) xsdt_entry_ref (fun _ => 0) xsdt_entry_self xsdt_spec _ ops r 36%nat
           [88; 83; 68; 84] 1 ha [] es).
  - reflexivity.
  - cbn [ts_entries xsdt_spec]. rewrite Ees. reflexivity.
  - reflexivity.
  - exact Ees.
  - rewrite <- Himg. reflexivity.
  - reflexivity.
  - exact Ho.
  - exact Ht.
  - reflexivity.
Qed.

Corollary xsdt_model_tiles : forall md ctor ops r,
  ts_image xsdt_spec ctor ops = Some r -> N.of_nat (length r) < 2 ^ 32 ->
  exists s0 s, xsdt_new ctor = Some s0 /\ run_adds xsdt_addition md s0 ops = Some s /\
    c03_judge xsdt_spec ctor (tbl_image s) ops = true.
Proof.
  intros md ctor ops r Himg Hfit.
  destruct (xsdt_refines md ctor ops r Himg Hfit) as (s0 & s & Hn & Hr & Hi).
  exists s0, s. split; [exact Hn|]. split; [exact Hr|]. rewrite Hi. exact (xsdt_reference_tiles ctor ops r Himg).
Qed.

Print Assumptions xsdt_reference_tiles.
Print Assumptions xsdt_model_tiles.
