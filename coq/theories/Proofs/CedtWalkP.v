(* CEDT: every structure an accepted add_* pushes describes itself (type u8, reserved u8, record length u16) -- the walk
   instance for C03 -- and the narrow count / length fields inside the structures hold the true values; inputs whose
   count does not fit are refused, in both build profiles (C18).
   Sites: CXIMS "number of bitmap entries" (u8, offset 7) and record length (u16, offset 2);
          CFMWS interleave target list (count encoded by the ways code at offset 24) and record length (u16, offset 2);
          CHBS / RDPAS record lengths (constants). *)
From Coq Require Import NArith ZArith List Lia Bool Arith.
From ACPI Require Import Lib.Bytes Lib.Sx Lib.Machine Impl.Checksum Impl.Table Impl.Fields Impl.Run Impl.Madt Impl.Cedt
  Spec.Layout Proofs.ChecksumP Proofs.TableP Proofs.MadtP Proofs.Tables Proofs.RimtP Proofs.CedtP Proofs.WalkP
  Proofs.WalkW3Common.
Import ListNotations.
Open Scope N_scope.

Lemma num_ways_small w nw : num_ways w = Some nw -> nw <= 16 /\ w < 16.
Proof. unfold num_ways. intros H. split_matches H; apply Some_inj in H; subst; split; lia. Qed.

Lemma assert_true c u : assert c = Some u -> c = true.
Proof. unfold assert. destruct c; [reflexivity|discriminate]. Qed.

(* ---- (A) the walk instance ---- *)

Lemma chbs_self uid ver base vl : exists ty, self_describing H_u8_x_u16 (chbs_bytes uid ver base vl) ty.
Proof. eexists. unfold chbs_bytes. apply u8_x_u16_self; reflexivity. Qed.

Lemma rdpas_self seg b proto base : exists ty, self_describing H_u8_x_u16 (rdpas_bytes seg b proto base) ty.
Proof. eexists. unfold rdpas_bytes. apply u8_x_u16_self; reflexivity. Qed.

Lemma cxims_self gran ms : N.of_nat (length ms) <= 255 -> exists ty, self_describing H_u8_x_u16 (cxims_bytes gran ms) ty.
Proof.
  intros Hn. eexists. unfold cxims_bytes.
  apply u8_x_u16_self_whole; [unfold cxims_len; change (2 ^ 16) with 65536; lia|].
  apply (cxims_len_sound gran ms).
Qed.

Lemma cfmws_self base size ways arith gran restr qtg nw tg :
  nw <= 16 -> Forall (fun t => length t = 4%nat) tg -> nw = N.of_nat (length tg) ->
  exists ty, self_describing H_u8_x_u16 (cfmws_bytes base size ways arith gran restr qtg nw tg) ty.
Proof.
  intros Hnw Ht Hl. eexists. unfold cfmws_bytes.
  apply u8_x_u16_self_whole; [unfold cfmws_len; change (2 ^ 16) with 65536; lia|].
  apply (cfmws_len_sound base size ways arith gran restr qtg nw tg Ht Hl).
Qed.

Lemma cedt_addition_self s o e : cedt_addition s o = Some e -> exists ty, self_describing H_u8_x_u16 (a_bytes e) ty.
Proof.
  intros H. unfold cedt_addition in H.
  split_matches H; apply Some_inj in H; subst e; cbn [a_bytes];
  first
    [ apply chbs_self
    | apply rdpas_self
    | apply cxims_self;
      match goal with E : assert (?a <=? 255) = Some _ |- _ => apply assert_true in E; apply N.leb_le in E; exact E end
    | apply cfmws_self;
      [ match goal with E : num_ways _ = Some _ |- _ => exact (proj1 (num_ways_small _ _ E)) end
      | eapply (sx_list_all_Forall (sx_arr 4)); [|eassumption]; intros x a Ha; exact (sx_arr_length _ _ _ Ha)
      | match goal with E : assert (?a =? ?b) = Some _ |- _ => apply assert_true in E; apply N.eqb_eq in E; exact E end ] ].
Qed.

Lemma cedt_new_empty c s0 : cedt_new c = Some s0 -> t_ents s0 = [].
Proof.
  unfold cedt_new. destruct c as [|l]; [discriminate|].
  destruct l as [|o [|t [|r [|x l]]]]; try discriminate.
  destruct (sx_hdr _ _ _ _ _); [|discriminate]. cbn [option_bind].
  intros H. apply Some_inj in H. subst. reflexivity.
Qed.

Definition cedt_walk : walktable :=
  {| wt_table := cedt_table; wt_ehdr := H_u8_x_u16; wt_self := cedt_addition_self; wt_new_empty := cedt_new_empty |}.

(* ---- (B) counts and lengths inside the structures ---- *)

(* every CEDT structure: the u16 record length at offset 2 is the number of bytes the structure occupies *)
Lemma cedt_record_length_exact s o e :
  cedt_addition s o = Some e -> field_at (a_bytes e) 2 2 = N.of_nat (length (a_bytes e)).
Proof.
  intros H. destruct (cedt_addition_self s o e H) as [ty Hty]. exact (u8_x_u16_self_len_field _ _ Hty).
Qed.

(* CXIMS: "number of bitmap entries" (byte at offset 7) is the number of bitmaps given, and the record length is
   8 + 8 * that number *)
Lemma cedt_cxims_count_exact s gran maps e :
  cedt_addition s (SL [SA 3; SA gran; SL maps]) = Some e ->
  field_at (a_bytes e) 7 1 = N.of_nat (length maps) /\
  field_at (a_bytes e) 2 2 = 8 + 8 * N.of_nat (length maps) /\
  N.of_nat (length (a_bytes e)) = 8 + 8 * N.of_nat (length maps).
Proof.
  intros H. pose proof (cedt_record_length_exact _ _ _ H) as Hrec.
  cbn [cedt_addition] in H.
  destruct (sx_nums maps) as [ms|] eqn:Ems; [|discriminate]. cbn [option_bind] in H.
  destruct (assert (N.of_nat (length ms) <=? 255)) eqn:Ea; [|discriminate]. cbn [option_bind] in H.
  apply assert_true in Ea. apply N.leb_le in Ea.
  apply Some_inj in H. subst e. cbn [a_bytes] in *.
  rewrite <- (sx_nums_length _ _ Ems).
  assert (Hlen : N.of_nat (length (cxims_bytes gran ms)) = 8 + 8 * N.of_nat (length ms)).
  { rewrite <- cxims_len_sound. reflexivity. }
  split; [|split; [rewrite Hrec; exact Hlen|exact Hlen]].
  unfold field_at, cxims_bytes, b1, w2. cbn [le app skipn firstn].
  rewrite unle1_le. apply N.mod_small. change (2 ^ 8) with 256. lia.
Qed.

(* more than 255 bitmaps: refused (the serialiser's assert), whatever the build profile; this also covers every
   record whose length 8 + 8 * n would not fit the u16 length field *)
Lemma cedt_cxims_refuses s gran maps :
  (256 <= length maps)%nat -> cedt_addition s (SL [SA 3; SA gran; SL maps]) = None.
Proof.
  intros Hbig. cbn [cedt_addition].
  destruct (sx_nums maps) as [ms|] eqn:Ems; [|reflexivity]. cbn [option_bind].
  rewrite (sx_nums_length _ _ Ems).
  destruct (N.leb_spec (N.of_nat (length maps)) 255) as [Hle|Hgt]; [lia|reflexivity].
Qed.

Lemma cedt_cxims_refuses_step md s gran maps :
  (256 <= length maps)%nat -> add_step cedt_addition md s (SL [SA 3; SA gran; SL maps]) = None.
Proof. intros H. apply add_step_refused. now apply cedt_cxims_refuses. Qed.

Lemma cedt_cxims_length_refuses md s gran maps :
  2 ^ 16 <= 8 + 8 * N.of_nat (length maps) -> add_step cedt_addition md s (SL [SA 3; SA gran; SL maps]) = None.
Proof. intros H. apply cedt_cxims_refuses_step. change (2 ^ 16) with 65536 in H. lia. Qed.

(* CFMWS: the ways code at offset 24 decodes to the number of interleave targets given, and the record length is
   0x24 + 4 * that number *)
Lemma cedt_cfmws_targets_exact s base size arith gran ways qtg builders targets e :
  cedt_addition s (SL [SA 2; SA base; SA size; SA arith; SA gran; SA ways; SA qtg; SL builders; SL targets]) = Some e ->
  num_ways (field_at (a_bytes e) 24 1) = Some (N.of_nat (length targets)) /\
  field_at (a_bytes e) 2 2 = 36 + 4 * N.of_nat (length targets) /\
  N.of_nat (length (a_bytes e)) = 36 + 4 * N.of_nat (length targets).
Proof.
  intros H. pose proof (cedt_record_length_exact _ _ _ H) as Hrec.
  cbn [cedt_addition] in H.
  destruct (num_ways ways) as [nw|] eqn:Enw; [|discriminate]. cbn [option_bind] in H.
  destruct (sx_list_all restr_builder builders) as [bits|] eqn:Eb; [|discriminate]. cbn [option_bind] in H.
  destruct (sx_list_all (sx_arr 4) targets) as [tg|] eqn:Et; [|discriminate]. cbn [option_bind] in H.
  destruct (assert (nw =? N.of_nat (length tg))) eqn:Ea; [|discriminate]. cbn [option_bind] in H.
  apply assert_true in Ea. apply N.eqb_eq in Ea.
  apply Some_inj in H. subst e. cbn [a_bytes] in *.
  rewrite <- (sx_list_all_length _ _ _ Et).
  assert (Hlen : N.of_nat (length (cfmws_bytes base size ways arith gran (restr_apply bits) qtg nw tg)) = 36 + 4 * N.of_nat (length tg)).
  { rewrite <- cfmws_len_sound; [unfold cfmws_len; lia| |exact Ea].
    eapply (sx_list_all_Forall (sx_arr 4)); [|exact Et]. intros x a Ha. exact (sx_arr_length _ _ _ Ha). }
  split; [|split; [rewrite Hrec; exact Hlen|exact Hlen]].
  destruct (num_ways_small _ _ Enw) as [_ Hw].
  assert (Hf : field_at (cfmws_bytes base size ways arith gran (restr_apply bits) qtg nw tg) 24 1 = ways).
  { unfold field_at, cfmws_bytes, b1, w2, d4, q8. cbn [le app skipn firstn].
    rewrite unle1_le. apply N.mod_small. change (2 ^ 8) with 256. lia. }
  rewrite Hf, Enw, Ea. reflexivity.
Qed.

(* a target list whose size is not the one the ways code stands for is refused (assert_eq! in the serialiser); in
   particular more than 16 targets are always refused *)
Lemma cedt_cfmws_refuses s base size arith gran ways qtg builders targets :
  num_ways ways <> Some (N.of_nat (length targets)) ->
  cedt_addition s (SL [SA 2; SA base; SA size; SA arith; SA gran; SA ways; SA qtg; SL builders; SL targets]) = None.
Proof.
  intros Hne. cbn [cedt_addition].
  destruct (num_ways ways) as [nw|] eqn:Enw; [|reflexivity]. cbn [option_bind].
  destruct (sx_list_all restr_builder builders) as [bits|]; [|reflexivity]. cbn [option_bind].
  destruct (sx_list_all (sx_arr 4) targets) as [tg|] eqn:Et; [|reflexivity]. cbn [option_bind].
  rewrite (sx_list_all_length _ _ _ Et).
  destruct (N.eqb_spec nw (N.of_nat (length targets))) as [E|E]; [subst nw; congruence|reflexivity].
Qed.

Lemma cedt_cfmws_refuses_many md s base size arith gran ways qtg builders targets :
  (17 <= length targets)%nat ->
  add_step cedt_addition md s (SL [SA 2; SA base; SA size; SA arith; SA gran; SA ways; SA qtg; SL builders; SL targets]) = None.
Proof.
  intros Hbig. apply add_step_refused. apply cedt_cfmws_refuses.
  destruct (num_ways ways) as [nw|] eqn:Enw; [|discriminate].
  destruct (num_ways_small _ _ Enw) as [Hnw _]. intros H. apply Some_inj in H. lia.
Qed.

(* ---- after every accepted history: every structure in the table carries its true size ---- *)
Corollary cedt_history_record_lengths md c ops s0 s :
  cedt_new c = Some s0 -> run_adds cedt_addition md s0 ops = Some s -> N.of_nat (length (tbl_image s)) < 2 ^ 32 ->
  Forall (fun e => field_at e 2 2 = N.of_nat (length e)) (t_ents s).
Proof.
  intros Hn Hr Hfit.
  destruct (walktable_tiles cedt_walk md c ops s0 s Hn Hr Hfit) as (tys & HF & _).
  cbn [wt_ehdr cedt_walk] in HF. clear -HF.
  induction HF as [|e ty es tys He _ IH]; constructor; [exact (u8_x_u16_self_len_field _ _ He)|exact IH].
Qed.

Print Assumptions cedt_walk.
Print Assumptions cedt_record_length_exact.
Print Assumptions cedt_cxims_count_exact.
Print Assumptions cedt_cxims_refuses_step.
Print Assumptions cedt_cxims_length_refuses.
Print Assumptions cedt_cfmws_targets_exact.
Print Assumptions cedt_cfmws_refuses.
Print Assumptions cedt_cfmws_refuses_many.
Print Assumptions cedt_history_record_lengths.
