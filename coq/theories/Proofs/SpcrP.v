(* SPCR: checksum and length of the emitted table, for every constructor argument (C01, C02). *)
From Coq Require Import NArith ZArith List Lia Bool Arith.
From ACPI Require Import Lib.Bytes Lib.Sx Lib.Machine Impl.Checksum Impl.Table Impl.Fields Impl.Run Impl.Madt Impl.Spcr
  Spec.Layout Proofs.ChecksumP Proofs.TableP Proofs.MadtP Proofs.FixedP.
Import ListNotations.
Open Scope N_scope.

Definition spcr_good (s : spcr) : Prop :=
  sum8 (spcr_bytes s) = 0 /\ field_at (spcr_bytes s) 4 4 = N.of_nat (length (spcr_bytes s)).

Lemma spcr_new_good c s : spcr_new c = Some s -> spcr_good s.
Proof.
  unfold spcr_new.
  repeat match goal with |- (match ?x with _ => _ end) = Some _ -> _ => destruct x; try discriminate end.
  match goal with |- (do h <- ?X; _) = _ -> _ => destruct X as [h|] eqn:Eh; [|discriminate] end.
  cbn [option_bind].
  match goal with |- Some ?X = Some _ -> _ => remember X as S0 eqn:ES0 end. intros [= <-]. subst S0.
  assert (Hh : hdr_ok h = true) by (eapply sx_hdr_ok; [|exact Eh]; reflexivity).
  unfold spcr_good, spcr_bytes. cbn [sp_hdr sp_len sp_cks sp_info sp_ns].
  change (cast U32 (36 + 52 + 2)) with 90. split.
  - rewrite ck_append3.
    apply hdr_sum8_zero.
    + apply ck_appends_lt. lia.
    + rewrite ck_appends_Z. cbn [concat]. rewrite !zsum_app. cbn [zsum Z.of_N]. f_equal; lia.
  - rewrite hdr_len_field by (exact Hh || reflexivity).
    rewrite hdr_image_length by exact Hh. rewrite app_length, ser_flds_length. reflexivity.
Qed.

Theorem spcr_sum_len md c ops s0 s :
  spcr_new c = Some s0 -> run_steps (spcr_step md) s0 ops = Some s ->
  sum8 (spcr_bytes s) = 0 /\ field_at (spcr_bytes s) 4 4 = N.of_nat (length (spcr_bytes s)).
Proof.
  intros Hn Hr. apply (run_steps_inv (spcr_step md) spcr_good) with (ops := ops) (s := s0); [|eapply spcr_new_good; eauto|exact Hr].
  intros x o x' e _ H. discriminate H.
Qed.
