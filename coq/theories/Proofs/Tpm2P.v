(* tpm2.rs: TpmClient1_2, TpmServer1_2 (builder chain), Tpm2 (incremental set_log_area):
   checksum and length of the emitted table for every constructor argument and every accepted sequence of operations. *)
From Coq Require Import NArith ZArith List Lia Bool Arith.
From ACPI Require Import Lib.Bytes Lib.Sx Lib.Machine Impl.Checksum Impl.Table Impl.Fields Impl.Run Impl.Madt Impl.Tpm2
  Spec.Layout Proofs.ChecksumP Proofs.TableP Proofs.MadtP Proofs.FixedP.
Import ListNotations.

Ltac Zify.zify_post_hook ::= Z.to_euclidean_division_equations.

Open Scope N_scope.

Ltac inv_match := repeat match goal with |- (match ?x with _ => _ end) = Some _ -> _ => destruct x; try discriminate end.
Ltac inj_some := match goal with |- Some ?X = Some _ -> _ => let S0 := fresh "S0" in let E := fresh "ES0" in
                   remember X as S0 eqn:E; intros [= <-]; subst S0 end.

Ltac inj_some2 := match goal with |- Some (?X, _) = Some _ -> _ => let S0 := fresh "S0" in let E := fresh "ES0" in
                   remember X as S0 eqn:E; intros [= <- <-]; subst S0 end.

(* ================= TpmClient1_2 ================= *)
Definition tpmclient_good (s : tpmclient) : Prop :=
  sum8 (tpmclient_bytes s) = 0 /\ field_at (tpmclient_bytes s) 4 4 = N.of_nat (length (tpmclient_bytes s)).

Lemma tpmclient_new_good c s : tpmclient_new c = Some s -> tpmclient_good s.
Proof.
  unfold tpmclient_new. inv_match.
  match goal with |- (do h <- ?X; _) = _ -> _ => destruct X as [h|] eqn:Eh; [|discriminate] end.
  cbn [option_bind]. inj_some.
  assert (Hh : hdr_ok h = true) by (eapply sx_hdr_ok; [|exact Eh]; reflexivity).
  unfold tpmclient_good, tpmclient_bytes. cbn [tc_hdr tc_len tc_cks tc_laml tc_lasa]. split.
  - rewrite ck_append3. apply hdr_sum8_zero.
    + apply ck_appends_lt. lia.
    + rewrite ck_appends_Z. cbn [concat]. rewrite !zsum_app. change (zsum (w2 0)) with 0%Z. cbn [zsum Z.of_N]. f_equal; lia.
  - rewrite hdr_len_field by (exact Hh || reflexivity).
    rewrite hdr_image_length by exact Hh. unfold w2, d4, q8. rewrite !app_length, !length_le. reflexivity.
Qed.

Theorem tpmclient_sum_len md c ops s0 s :
  tpmclient_new c = Some s0 -> run_steps (tpmclient_step md) s0 ops = Some s ->
  sum8 (tpmclient_bytes s) = 0 /\ field_at (tpmclient_bytes s) 4 4 = N.of_nat (length (tpmclient_bytes s)).
Proof.
  intros Hn Hr.
  apply (run_steps_inv (tpmclient_step md) tpmclient_good) with (ops := ops) (s := s0); [|eapply tpmclient_new_good; eauto|exact Hr].
  intros x o x' e _ H. discriminate H.
Qed.

(* ================= TpmServer1_2 ================= *)
Record tpmserver_inv (s : tpmserver) : Prop := {
  sv_hdr_ok : hdr_ok (sv_hdr s) = true;
  sv_body_len : flds_len (sv_body s) = 64%nat;
  sv_sum : sum8 (tpmserver_bytes s) = 0
}.

Lemma tpmserver_inv_good s : tpmserver_inv s ->
  sum8 (tpmserver_bytes s) = 0 /\ field_at (tpmserver_bytes s) 4 4 = N.of_nat (length (tpmserver_bytes s)).
Proof.
  intros [Hh Hl Hs]. split; [exact Hs|].
  unfold tpmserver_bytes, tpmserver_bytes_ck.
  rewrite hdr_len_field by (exact Hh || reflexivity).
  rewrite hdr_image_length by exact Hh. rewrite ser_flds_length, Hl. reflexivity.
Qed.

Lemma tpmserver_body0_sum : zsum (ser_flds tpmserver_body0) = zsum (w2 1 ++ [1; 2]).
Proof. vm_compute. reflexivity. Qed.

Lemma tpmserver_new_inv c s : tpmserver_new c = Some s -> tpmserver_inv s.
Proof.
  unfold tpmserver_new. inv_match.
  match goal with |- (do h <- ?X; _) = _ -> _ => destruct X as [h|] eqn:Eh; [|discriminate] end.
  cbn [option_bind]. inj_some.
  assert (Hh : hdr_ok h = true) by (eapply sx_hdr_ok; [|exact Eh]; reflexivity).
  constructor; cbn [sv_hdr sv_body].
  - exact Hh.
  - reflexivity.
  - unfold tpmserver_bytes, tpmserver_bytes_ck. cbn [sv_hdr sv_cks sv_body].
    rewrite ck_append3. apply hdr_sum8_zero.
    + apply ck_appends_lt. lia.
    + rewrite ck_appends_Z. cbn [concat]. rewrite app_nil_r, zsum_app, tpmserver_body0_sum, zsum_app.
      cbn [Z.of_N]. f_equal; lia.
Qed.

Lemma set_gas_len f i a b c d e : flds_len (set_gas f i a b c d e) = flds_len f.
Proof. unfold set_gas. now rewrite !flds_len_fset. Qed.

Lemma tpmserver_builder_len f o f' : tpmserver_builder f o = Some f' -> flds_len f' = flds_len f.
Proof.
  unfold tpmserver_builder. inv_match;
  try (destruct (pci_ok _ _); [cbn [option_bind]|discriminate]);
  intros [= <-]; rewrite ?set_gas_len, ?flds_len_f_or, ?flds_len_fset, ?flds_len_f_or; reflexivity.
Qed.

(* every builder recomputes the checksum over the whole struct: the invariant does not depend on the previous checksum *)
Lemma tpmserver_step_inv md s o s' e : tpmserver_inv s -> tpmserver_step md s o = Some (s', e) -> tpmserver_inv s'.
Proof.
  intros [Hh Hl Hs]. unfold tpmserver_step.
  destruct (tpmserver_builder (sv_body s) o) as [f|] eqn:Eb; [|discriminate].
  cbn [option_bind]. intros [= <- _].
  constructor; unfold tpmserver_update; cbn [sv_hdr sv_body sv_cks].
  - exact Hh.
  - rewrite (tpmserver_builder_len _ _ _ Eb). exact Hl.
  - unfold tpmserver_bytes, tpmserver_bytes_ck. cbn [sv_hdr sv_body sv_cks]. apply hdr_gen_sum8_zero.
Qed.

Theorem tpmserver_sum_len md c ops s0 s :
  tpmserver_new c = Some s0 -> run_steps (tpmserver_step md) s0 ops = Some s ->
  sum8 (tpmserver_bytes s) = 0 /\ field_at (tpmserver_bytes s) 4 4 = N.of_nat (length (tpmserver_bytes s)).
Proof.
  intros Hn Hr. apply tpmserver_inv_good.
  apply (run_steps_inv (tpmserver_step md) tpmserver_inv) with (ops := ops) (s := s0);
    [apply tpmserver_step_inv|eapply tpmserver_new_inv; eauto|exact Hr].
Qed.

(* ================= Tpm2 ================= *)
Definition tpm2_rest (s : tpm2) : list N :=
  w2 (t2_class s) ++ w2 0 ++ q8 (t2_base s) ++ d4 (t2_sm s)
  ++ firstn (t2_plen s) (t2_params s) ++ opt_bytes 4 (t2_laml s) ++ opt_bytes 8 (t2_lasa s).

Record tpm2_inv (s : tpm2) : Prop := {
  t2i_hdr : hdr_ok (t2_hdr s) = true;
  t2i_len : t2_len s = N.of_nat (length (tpm2_bytes s));
  t2i_small : t2_len s < 2 ^ 32;
  t2i_ck_lt : t2_ck s < 256;
  t2i_ck : (Z.of_N (t2_ck s) mod 256 = (zsum (hdr_bytes (t2_hdr s) (t2_len s) 0) + zsum (tpm2_rest s)) mod 256)%Z;
  t2i_hck : t2_hck s = ck_value (t2_ck s);
  t2i_params : t2_params s = repeatN 0 12;
  t2i_fresh : t2_len s = 52 -> t2_plen s = 0%nat /\ t2_laml s = None /\ t2_lasa s = None
}.

Lemma tpm2_bytes_rest s : tpm2_bytes s = hdr_bytes (t2_hdr s) (t2_len s) (t2_hck s) ++ tpm2_rest s.
Proof. reflexivity. Qed.

Lemma tpm2_inv_good s : tpm2_inv s ->
  sum8 (tpm2_bytes s) = 0 /\ field_at (tpm2_bytes s) 4 4 = N.of_nat (length (tpm2_bytes s)).
Proof.
  intros [Hh Hl Hsm Hlt Hck Hhck _ _]. rewrite tpm2_bytes_rest in *. split.
  - rewrite Hhck. apply hdr_sum8_zero; assumption.
  - rewrite hdr_len_field by assumption. exact Hl.
Qed.

Lemma tpm2_new_inv c s : tpm2_new c = Some s -> tpm2_inv s.
Proof.
  unfold tpm2_new. inv_match.
  match goal with |- (do h <- ?X; _) = _ -> _ => destruct X as [h|] eqn:Eh; [|discriminate] end.
  cbn [option_bind]. destruct (assert _); [|discriminate]. cbn [option_bind]. inj_some.
  assert (Hh : hdr_ok h = true) by (eapply sx_hdr_ok; [|exact Eh]; reflexivity).
  constructor; cbn [t2_hdr t2_len t2_hck t2_ck t2_params t2_plen t2_laml t2_lasa].
  - exact Hh.
  - rewrite tpm2_bytes_rest, hdr_image_length by exact Hh. unfold tpm2_rest.
    cbn [t2_class t2_base t2_sm t2_plen t2_params t2_laml t2_lasa opt_bytes firstn app].
    unfold w2, d4, q8. rewrite !app_length, !length_le. reflexivity.
  - reflexivity.
  - rewrite ck_append4. apply ck_appends_lt. lia.
  - rewrite ck_append4, ck_appends_Z. unfold tpm2_rest.
    cbn [t2_hdr t2_len t2_class t2_base t2_sm t2_plen t2_params t2_laml t2_lasa opt_bytes firstn app concat].
    rewrite !zsum_app. change (zsum (w2 0)) with 0%Z. cbn [zsum Z.of_N]. f_equal; lia.
  - reflexivity.
  - reflexivity.
  - intros _. repeat split.
Qed.

Lemma tpm2_step_inv md s o s' e : tpm2_inv s -> tpm2_step md s o = Some (s', e) -> tpm2_inv s'.
Proof.
  intros [Hh Hl Hsm Hlt Hck Hhck Hp Hf]. unfold tpm2_step. inv_match.
  destruct (N.eqb_spec (t2_len s) 52) as [E52|]; [|discriminate]. cbn [assert option_bind].
  rewrite E52 in *. destruct (Hf eq_refl) as (Hpl & Hla & Hls).
  replace (add_m md U32 52 24) with (Some 76) by (destruct md; reflexivity). cbn [option_bind].
  inj_some2.
  set (ck' := fold_left ck_step _ (t2_ck s)).
  constructor; cbn [t2_hdr t2_len t2_hck t2_ck t2_params t2_plen t2_laml t2_lasa].
  - exact Hh.
  - rewrite tpm2_bytes_rest, hdr_image_length by exact Hh. unfold tpm2_rest.
    cbn [t2_class t2_base t2_sm t2_plen t2_params t2_laml t2_lasa opt_bytes]. rewrite Hp.
    unfold w2, d4, q8. rewrite !app_length, !length_le. reflexivity.
  - reflexivity.
  - apply ck_fold_lt. exact Hlt.
  - unfold ck'. rewrite ck_fold_Z. rewrite <- Zplus_mod_idemp_l, Hck, Zplus_mod_idemp_l.
    unfold tpm2_rest. cbn [t2_hdr t2_len t2_class t2_base t2_sm t2_plen t2_params t2_laml t2_lasa opt_bytes].
    rewrite Hp, Hpl, Hla, Hls. cbn [opt_bytes firstn repeatN app].
    rewrite (zsum_hdr_bytes _ 52 0), (zsum_hdr_bytes _ 76 0).
    cbn [net op_added op_removed]. unfold w2, d4, q8. rewrite !zsum_app. cbn [zsum]. rewrite ?zsum_app.
    change (0 mod 256) with 0. change (Z.of_N 0) with 0%Z.
    generalize (zsum (hdr_bytes (t2_hdr s) 0 0)) (zsum (le 2 (t2_class s))) (zsum (le 2 0)) (zsum (le 8 (t2_base s)))
      (zsum (le 4 (t2_sm s))) (zsum (le 4 52)) (zsum (le 4 76)) (zsum (le 4 n)) (zsum (le 8 n0)).
    intros. f_equal. lia.
  - reflexivity.
  - exact Hp.
  - intros H. discriminate H.
Qed.

(* zero, one or (refused) more calls of set_log_area: every accepted history *)
Theorem tpm2_sum_len md c ops s0 s :
  tpm2_new c = Some s0 -> run_steps (tpm2_step md) s0 ops = Some s ->
  sum8 (tpm2_bytes s) = 0 /\ field_at (tpm2_bytes s) 4 4 = N.of_nat (length (tpm2_bytes s)).
Proof.
  intros Hn Hr. apply tpm2_inv_good.
  apply (run_steps_inv (tpm2_step md) tpm2_inv) with (ops := ops) (s := s0);
    [apply tpm2_step_inv|eapply tpm2_new_inv; eauto|exact Hr].
Qed.

(* set_log_area is accepted at most once *)
Lemma tpm2_second_refused md s o s' e o' : tpm2_inv s -> tpm2_step md s o = Some (s', e) -> tpm2_step md s' o' = None.
Proof.
  intros [Hh Hl Hsm Hlt Hck Hhck Hp Hf]. unfold tpm2_step at 1. inv_match.
  destruct (N.eqb_spec (t2_len s) 52) as [E52|]; [|discriminate]. cbn [assert option_bind].
  rewrite E52. replace (add_m md U32 52 24) with (Some 76) by (destruct md; reflexivity). cbn [option_bind].
  inj_some2. unfold tpm2_step. cbn [t2_len].
  repeat match goal with |- (match ?x with _ => _ end) = None => destruct x; try reflexivity end.
Qed.
