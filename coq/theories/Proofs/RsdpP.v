(* RSDP: both checksums, the length field and the size, for every constructor argument (C01, C02). *)
From Coq Require Import NArith ZArith List Lia Bool Arith.
From ACPI Require Import Lib.Bytes Lib.Sx Lib.Machine Impl.Checksum Impl.Table Impl.Fields Impl.Run Impl.Rsdp
  Spec.Layout Proofs.ChecksumP Proofs.MadtP Proofs.FixedP.
Import ListNotations.

Ltac Zify.zify_post_hook ::= Z.to_euclidean_division_equations.

Open Scope N_scope.

(* the first 20 bytes (ACPI 1.0 part) and the rest *)
Definition rsdp_pre (cks : N) (oem : list N) : list N := RSDP_SIG ++ b1 cks ++ oem ++ b1 2 ++ d4 0.
Definition rsdp_post (x ext : N) : list N := d4 36 ++ q8 x ++ b1 ext ++ [0; 0; 0].

Lemma rsdp_bytes_split r : rsdp_bytes r = rsdp_pre (rs_cks r) (rs_oem r) ++ rsdp_post (rs_xsdt r) (rs_ext r).
Proof. unfold rsdp_bytes, rsdp_pre, rsdp_post. rewrite <- !app_assoc. reflexivity. Qed.

Lemma rsdp_pre_length cks oem : length oem = 6%nat -> length (rsdp_pre cks oem) = 20%nat.
Proof. intros H. unfold rsdp_pre, RSDP_SIG, b1, d4. rewrite !app_length, !length_le, H. reflexivity. Qed.

Lemma rsdp_post_length x ext : length (rsdp_post x ext) = 16%nat.
Proof. unfold rsdp_post, b1, d4, q8. rewrite !app_length, !length_le. reflexivity. Qed.

Lemma sumN_b1 x : sumN (b1 x) = x mod 256.
Proof. unfold b1. cbn [le sumN]. lia. Qed.

Lemma sumN_rsdp_pre cks oem : sumN (rsdp_pre cks oem) = sumN (rsdp_pre 0 oem) + cks mod 256.
Proof. unfold rsdp_pre. rewrite !sumN_app, !sumN_b1. change (0 mod 256) with 0. lia. Qed.

Lemma sumN_rsdp_post x ext : sumN (rsdp_post x ext) = sumN (rsdp_post x 0) + ext mod 256.
Proof. unfold rsdp_post. rewrite !sumN_app, !sumN_b1. change (0 mod 256) with 0. lia. Qed.

Lemma firstn20_rsdp r : length (rs_oem r) = 6%nat -> firstn 20 (rsdp_bytes r) = rsdp_pre (rs_cks r) (rs_oem r).
Proof.
  intros H. rewrite rsdp_bytes_split. rewrite <- (rsdp_pre_length (rs_cks r) (rs_oem r) H) at 1. apply firstn_app_exact.
Qed.

Definition rsdp_good (r : rsdp) : Prop :=
  sum8 (rsdp_bytes r) = 0 /\ sum8 (firstn 20 (rsdp_bytes r)) = 0 /\
  field_at (rsdp_bytes r) 20 4 = 36 /\ length (rsdp_bytes r) = 36%nat.

Lemma rsdp_make_good oem x : length oem = 6%nat -> rsdp_good (rsdp_make oem x).
Proof.
  intros Hl. unfold rsdp_make.
  set (r0 := {| rs_cks := 0; rs_oem := oem; rs_xsdt := x; rs_ext := 0 |}).
  set (g1 := generate_checksum (firstn 20 (rsdp_bytes r0))).
  cbn [rs_cks].
  set (r1 := {| rs_cks := g1; rs_oem := oem; rs_xsdt := x; rs_ext := 0 |}).
  set (g2 := generate_checksum (rsdp_bytes r1)).
  set (r2 := {| rs_cks := g1; rs_oem := oem; rs_xsdt := x; rs_ext := g2 |}).
  pose proof (generate_checksum_spec (firstn 20 (rsdp_bytes r0))) as [H1 H1lt]. fold g1 in H1, H1lt.
  pose proof (generate_checksum_spec (rsdp_bytes r1)) as [H2 H2lt]. fold g2 in H2, H2lt.
  rewrite (firstn20_rsdp r0 Hl) in H1. cbn [r0 rs_cks rs_oem] in H1.
  rewrite rsdp_bytes_split in H2. cbn [r1 rs_cks rs_oem rs_xsdt rs_ext] in H2.
  rewrite sumN_app, sumN_rsdp_pre in H2.
  unfold rsdp_good. rewrite (firstn20_rsdp r2 Hl). rewrite rsdp_bytes_split. cbn [r2 rs_cks rs_oem rs_xsdt rs_ext].
  clearbody g1 g2. clear r0 r1 r2.
  repeat split.
  - unfold sum8. rewrite sumN_app, sumN_rsdp_pre, sumN_rsdp_post.
    generalize dependent (sumN (rsdp_pre 0 oem)). generalize dependent (sumN (rsdp_post x 0)). intros. lia.
  - unfold sum8. rewrite sumN_rsdp_pre. generalize dependent (sumN (rsdp_pre 0 oem)). intros. lia.
  - unfold field_at. rewrite <- (rsdp_pre_length g1 oem Hl) at 1. rewrite skipn_app_exact.
    unfold rsdp_post, d4. rewrite firstn_le_app. reflexivity.
  - rewrite app_length, rsdp_pre_length, rsdp_post_length by exact Hl. reflexivity.
Qed.

Lemma rsdp_new_good c r : rsdp_new c = Some r -> rsdp_good r.
Proof.
  unfold rsdp_new.
  repeat match goal with |- (match ?x with _ => _ end) = Some _ -> _ => destruct x; try discriminate end.
  match goal with |- (do oem <- sx_arr 6 ?X; _) = _ -> _ => destruct (sx_arr 6 X) as [oem|] eqn:Eo; [|discriminate] end.
  cbn [option_bind]. intros [= <-]. apply rsdp_make_good. eapply sx_arr_length; eauto.
Qed.

(* every constructor argument, every sequence of operations the model accepts (there is no mutating operation) *)
Theorem rsdp_sums_len md c ops s0 s :
  rsdp_new c = Some s0 -> run_steps (rsdp_step md) s0 ops = Some s ->
  sum8 (rsdp_bytes s) = 0 /\ sum8 (firstn 20 (rsdp_bytes s)) = 0 /\
  field_at (rsdp_bytes s) 20 4 = 36 /\ length (rsdp_bytes s) = 36%nat.
Proof.
  intros Hn Hr. apply (run_steps_inv (rsdp_step md) rsdp_good) with (ops := ops) (s := s0); [|eapply rsdp_new_good; eauto|exact Hr].
  intros x o x' e _ H. discriminate H.
Qed.
