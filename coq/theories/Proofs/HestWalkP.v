(* HEST: every error source structure an accepted add_structure pushes describes itself under the HEST rule "type u16, size
   fixed by the type" (6 -> 48, 7 -> 44, 8 -> 56, 9 -> 64, 10 -> 92) -- the walk instance for C03.
   The only count field of the table is the 32-bit Error Source Count (not narrower than 32 bits); the structures carry
   no caller-controlled count or length. *)
From Coq Require Import NArith ZArith List Lia Bool Arith.
From ACPI Require Import Lib.Bytes Lib.Sx Lib.Machine Impl.Checksum Impl.Table Impl.Fields Impl.Run Impl.Madt Impl.Gas Impl.Hest
  Spec.Layout Proofs.ChecksumP Proofs.TableP Proofs.MadtP Proofs.Tables Proofs.HestP Proofs.WalkP Proofs.WalkW3Common.
Import ListNotations.
Open Scope N_scope.

(* the leading two-byte field of a packed structure *)
Definition head_ty (f : flds) : option N := match f with (2%nat, t) :: _ => Some t | _ => None end.

Lemma fset_head_ty f i v : (1 <= i)%nat -> head_ty (fset f i v) = head_ty f.
Proof. intros H. destruct f as [|[w0 v0] r]; destruct i as [|i]; try lia; reflexivity. Qed.

Lemma fset_seq_head_ty vals : forall f i, (1 <= i)%nat -> head_ty (fset_seq f i vals) = head_ty f.
Proof.
  induction vals as [|v vals IH]; intros f i Hi; cbn [fset_seq]; [reflexivity|].
  rewrite IH by lia. now apply fset_head_ty.
Qed.

Lemma apply_setters_head (setter : flds -> sx -> option flds) :
  (forall f o f', setter f o = Some f' -> head_ty f' = head_ty f) ->
  forall l f f', apply_setters setter f l = Some f' -> head_ty f' = head_ty f.
Proof.
  intros Hs l. induction l as [|o l IH]; intros f f' H; cbn [apply_setters] in H.
  - apply Some_inj in H. subst. reflexivity.
  - destruct (setter f o) as [f1|] eqn:E; [|discriminate]. rewrite (IH _ _ H). eapply Hs; eauto.
Qed.

Lemma aer_setter_head ty f o f' : aer_setter ty f o = Some f' -> head_ty f' = head_ty f.
Proof. unfold aer_setter. intros H. setter_cases H; apply fset_head_ty; lia. Qed.

Lemma ghes_setter_head ty f o f' : ghes_setter ty f o = Some f' -> head_ty f' = head_ty f.
Proof.
  unfold ghes_setter. intros H. setter_cases H;
    first [apply fset_head_ty; lia | apply fset_seq_head_ty; lia].
Qed.

Lemma aer_new_head ty c f : aer_new ty c = Some f -> head_ty f = Some ty.
Proof. unfold aer_new. intros H. setter_cases H; reflexivity. Qed.

Definition hest_type_of_op (o : sx) : N :=
  match o with
  | SL (SA 1 :: _) => 6 | SL (SA 2 :: _) => 7 | SL (SA 3 :: _) => 8 | SL (SA 4 :: _) => 9 | SL (SA 5 :: _) => 10
  | _ => 0
  end.

Lemma hest_entry_head o f : hest_entry o = Some f -> head_ty f = Some (hest_type_of_op o).
Proof.
  unfold hest_entry. intros H.
  repeat match type of H with
         | match ?x with _ => _ end = Some _ => destruct x; try discriminate
         end;
  try match type of H with
      | option_bind (aer_new ?ty ?c) _ = Some _ =>
          let E := fresh "E" in
          destruct (aer_new ty c) as [f0|] eqn:E; [cbn [option_bind] in H|discriminate];
          rewrite (apply_setters_head _ (aer_setter_head ty) _ _ _ H), (aer_new_head _ _ _ E); reflexivity
      end;
  first [ rewrite (apply_setters_head _ (ghes_setter_head 9) _ _ _ H); reflexivity
        | rewrite (apply_setters_head _ (ghes_setter_head 10) _ _ _ H); reflexivity ].
Qed.

(* a packed structure that starts with a u16 type code and has the size the specification gives that type *)
Lemma hest_flds_self f ty n :
  head_ty f = Some ty -> length (ser_flds f) = n ->
  In (ty, n) [(6, 48%nat); (7, 44%nat); (8, 56%nat); (9, 64%nat); (10, 92%nat)] ->
  self_describing H_hest (ser_flds f) ty.
Proof.
  intros Hh Hl Hin.
  destruct f as [|[w t] r]; [discriminate|]. destruct w as [|[|[|w]]]; try discriminate.
  cbn [head_ty] in Hh. apply Some_inj in Hh. subst t.
  split.
  - rewrite Hl. cbn [In] in Hin.
    repeat (destruct Hin as [Hin|Hin]; [apply (f_equal snd) in Hin; cbn [snd] in Hin; subst n; lia|]). destruct Hin.
  - intros rest. rewrite Hl. clear Hl. unfold ser_flds. cbn [map concat fst snd le app].
    cbn [read_ehdr]. rewrite unle2_le. cbn [In] in Hin.
    repeat (destruct Hin as [Hin|Hin];
            [pose proof (f_equal fst Hin) as H1; pose proof (f_equal snd Hin) as H2; cbn [fst snd] in H1, H2; subst ty n; reflexivity|]).
    destruct Hin.
Qed.

Lemma hest_addition_self s o e : hest_addition s o = Some e -> exists ty, self_describing H_hest (a_bytes e) ty.
Proof.
  unfold hest_addition. destruct (hest_entry o) as [f|] eqn:E; [|discriminate]. cbn [option_bind].
  intros H. apply Some_inj in H. subst e. cbn [a_bytes].
  exists (hest_type_of_op o).
  apply (hest_flds_self f _ (hest_size_of_op o) (hest_entry_head o f E) (hest_entry_size o f E)).
  unfold hest_entry in E.
  destruct o as [|[|[[|p]|] l]]; try discriminate.
  do 4 (try destruct p as [p|p|]); try discriminate; cbn [hest_type_of_op hest_size_of_op In]; auto 10.
Qed.

Lemma hest_new_empty c s0 : hest_new c = Some s0 -> t_ents s0 = [].
Proof.
  unfold hest_new. destruct c as [|l]; [discriminate|].
  destruct l as [|o [|t [|r [|x l]]]]; try discriminate.
  destruct (sx_hdr _ _ _ _ _); [|discriminate]. cbn [option_bind].
  intros H. apply Some_inj in H. subst. reflexivity.
Qed.

Definition hest_walk : walktable :=
  {| wt_table := hest_table; wt_ehdr := H_hest; wt_self := hest_addition_self; wt_new_empty := hest_new_empty |}.

(* the walk also holds for component-21 histories (stand-alone structures interleaved): they never touch the table *)
Corollary hest_history_tiles md c ops t0 s :
  hest_new c = Some t0 -> hest_run md {| hs_tbl := t0; hs_alone := None |} ops = Some s ->
  N.of_nat (length (tbl_image (hs_tbl s))) < 2 ^ 32 ->
  exists tys,
    Forall2 (self_describing H_hest) (t_ents (hs_tbl s)) tys /\
    walk (length (t_ents (hs_tbl s))) H_hest 40 (skipn 40 (tbl_image (hs_tbl s))) = Some (walk_result 40 (t_ents (hs_tbl s)) tys) /\
    t_cnt (hs_tbl s) = N.of_nat (length (t_ents (hs_tbl s))).
Proof.
  intros Hn Hr Hfit. apply hest_run_tbl in Hr. cbn [hs_tbl] in Hr.
  destruct (walktable_tiles hest_walk md c _ t0 (hs_tbl s) Hn Hr Hfit) as (tys & HF & Hw & _ & Hc).
  destruct (addtable_reach hest_table md c _ t0 (hs_tbl s) Hn Hr Hfit) as (_ & Hk & _). cbn [at_kind hest_table] in Hk.
  cbn [wt_table wt_ehdr hest_walk] in *. rewrite Hk in Hw. change (36 + length (mid KHest (t_pre (hs_tbl s)) 0))%nat with 40%nat in Hw.
  exists tys. auto.
Qed.

(* the 32-bit Error Source Count at offset 36 is the number of structures added (not a narrow field; stated for completeness) *)
Corollary hest_source_count_exact md c ops s0 s :
  hest_new c = Some s0 -> run_adds hest_addition md s0 ops = Some s -> N.of_nat (length (tbl_image s)) < 2 ^ 32 ->
  field_at (tbl_image s) 36 4 = N.of_nat (length (t_ents s)).
Proof.
  intros Hn Hr Hfit.
  destruct (walktable_tiles hest_walk md c ops s0 s Hn Hr Hfit) as (tys & HF & _ & _ & Hc).
  destruct (addtable_reach hest_table md c ops s0 s Hn Hr Hfit) as (I & Hk & _). cbn [at_kind hest_table] in Hk.
  cbn [wt_table wt_ehdr hest_walk] in *.
  assert (Hpos : Forall (fun e => (1 <= length e)%nat) (t_ents s)).
  { clear -HF. induction HF as [|e ty es tys He _ IH]; constructor; [exact (proj1 He)|exact IH]. }
  pose proof (concat_len_ge _ Hpos) as Hle.
  pose proof (length_image s (inv_hdr s I)) as Hli. unfold t_body in Hli.
  pose proof (length_hdr_bytes (t_hdr s) (t_len s) (t_hck s) (inv_hdr s I)) as Hhl.
  unfold field_at, tbl_image. rewrite Hk. cbn [mid].
  set (X := d4 (t_cnt s) ++ t_body s).
  pose proof (skipn_app_exact (hdr_bytes (t_hdr s) (t_len s) (t_hck s)) X) as Hsk. rewrite Hhl in Hsk.
  rewrite Hsk. unfold X, d4. rewrite firstn_le_app.
  rewrite unle_le_small; [exact Hc|]. rewrite Hc. change (2 ^ (8 * N.of_nat 4)) with (2 ^ 32). lia.
Qed.

Print Assumptions hest_walk.
Print Assumptions hest_history_tiles.
Print Assumptions hest_source_count_exact.
