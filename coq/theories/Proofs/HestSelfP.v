(* HEST, property C03, per-entry part.
   The statement "the reference image of every in-domain history passes the self-check" is FALSE as such for the HEST
   component: by the observation protocol of component 21 (Spec/HestS.v) the "image" observed right after a stand-alone
   error structure (ops 20 / 21) is that structure, not the table ([hest_selfcheck_refuted]).  For every other history it
   holds ([hest_selfcheck]): the error sources have the size the specification assigns to their type, the notification
   structure embedded in a generic hardware error source carries its length 28, and the walk lands on the end. *)
From Coq Require Import NArith ZArith List Lia Bool Arith ZifyBool ZifyNat ZifyN.
From ACPI Require Import Lib.Bytes Lib.Sx Spec.Layout Spec.GasS Spec.HestS Spec.SelfCheck Judge
  Proofs.WalkP Proofs.WalkRefCommon2P Proofs.SelfCommonP.
Import ListNotations.

Ltac Zify.zify_post_hook ::= Z.to_euclidean_division_equations.

Open Scope N_scope.

Definition hest_ty (e : list N) : N := field_at e 0 2.

Definition hest_good (e : list N) : Prop :=
  self_describing H_hest e (hest_ty e) /\ entry_self_ok 21 (hest_ty e) e = true.

(* the size-by-type header: the first two bytes are the type, the size is the specification's for that type *)
Lemma sd_hest_of_fields e ty : field_at e 0 2 = ty -> hest_size ty = Some (length e) -> self_describing H_hest e ty.
Proof.
  intros Hf Hs.
  assert (Hlen : (44 <= length e)%nat).
  { unfold hest_size in Hs. destruct ty as [|p]; [discriminate Hs|].
    repeat (destruct p as [p|p|]; try discriminate Hs); apply wr_Some_inj in Hs; lia. }
  destruct e as [|a [|b e']]; cbn [length] in Hlen; try lia.
  split; [cbn [length]; lia|]. intros rest. cbn [app read_ehdr].
  unfold field_at in Hf. cbn [skipn firstn] in Hf. rewrite Hf.
  unfold hest_size in Hs. destruct ty as [|p]; [discriminate Hs|].
  repeat (destruct p as [p|p|]; try discriminate Hs); apply wr_Some_inj in Hs; rewrite <- Hs; reflexivity.
Qed.

Ltac peel H :=
  repeat match type of H with
         | (if ?g then _ else _) = Some _ => destruct g; [|discriminate H]
         | match ?x with _ => _ end = Some _ => destruct x; try discriminate H
         end.

Lemma aer_good ty c st e : ty = 6 \/ ty = 7 \/ ty = 8 -> aer_ref ty c st = Some e -> hest_good e.
Proof.
  intros Hty H.
  assert (HL : exists rest, lay (aer_size ty) (L 0 2 ty :: rest) = Some e).
  { unfold aer_ref in H. cbv zeta beta in H. peel H; eexists; exact H. }
  clear H. destruct HL as [rest H].
  destruct (lay_decodes _ _ _ H) as [Hlen Hf].
  assert (Ht : hest_ty e = ty).
  { unfold hest_ty. rewrite (Hf 0%nat 2%nat ty) by (left; reflexivity).
    destruct Hty as [->|[->| ->]]; reflexivity. }
  unfold hest_good. rewrite Ht. split.
  - apply sd_hest_of_fields; [exact Ht|]. rewrite Hlen. destruct Hty as [->|[->| ->]]; reflexivity.
  - cbn [entry_self_ok]. unfold hest_self, fixed_ok.
    destruct Hty as [->|[->| ->]]; cbn [hest_size aer_size] in *; rewrite Hlen; reflexivity.
Qed.

Lemma notif_shape nty nst nt : notif_ref nty nst = Some nt -> exists n0 rest, nt = n0 :: 28 :: rest.
Proof.
  unfold notif_ref. destruct (_ && _); [|discriminate]. intros H.
  unfold lay in H. destruct (_ && _); [|discriminate H]. apply wr_Some_inj in H. subst nt.
  unfold L. rewrite !assemble_cons. cbn [le app]. eexists. eexists. reflexivity.
Qed.

Lemma ghes_good ty id en st e : ty = 9 \/ ty = 10 -> ghes_ref ty id en st = Some e -> hest_good e.
Proof.
  intros Hty H. unfold ghes_ref in H.
  destruct (_ && _); [|discriminate H].
  destruct (gas_arg 4 st) as [esa|]; [|discriminate H].
  match type of H with | match ?n with _ => _ end = Some _ => destruct n as [nt|] eqn:Ent; [|discriminate H] end.
  destruct (gas_arg 7 st) as [rar|]; [|discriminate H].
  assert (Hshape : exists n0 rest, nt = n0 :: 28 :: rest).
  { destruct (last_call 5 st None) as [[|[|nty] [|[|nst] [|]]]|]; try discriminate Ent; exact (notif_shape _ _ _ Ent). }
  destruct Hshape as (n0 & nrest & ->).
  destruct (lay_decodes _ _ _ H) as [Hlen Hf].
  assert (Ht : hest_ty e = ty).
  { unfold hest_ty. rewrite (Hf 0%nat 2%nat ty) by (left; reflexivity). destruct Hty as [->| ->]; reflexivity. }
  assert (H33 : field_at e 33 1 = 28).
  { rewrite (Hf 33%nat 1%nat 28); [reflexivity|].
    apply in_or_app. right. apply in_or_app. right. apply in_or_app. left. cbn [LB]. right. left. reflexivity. }
  unfold hest_good. rewrite Ht. split.
  - apply sd_hest_of_fields; [exact Ht|]. rewrite Hlen. destruct Hty as [->| ->]; reflexivity.
  - cbn [entry_self_ok]. unfold hest_self, fixed_ok.
    destruct Hty as [->| ->]; cbn [hest_size]; rewrite Hlen, H33; reflexivity.
Qed.

Lemma hest_entry_good o e : hest_entry_ref o = Some e -> hest_good e.
Proof.
  intros H. unfold hest_entry_ref in H.
  destruct o as [|l]; [discriminate H|]. destruct l as [|[op|] l]; try discriminate H.
  destruct op as [|op]; try discriminate H.
  repeat (destruct op as [op|op|]; try discriminate H).
  - destruct l as [|[id|] [|[en|] [|[?|st] [|]]]]; try discriminate H. apply (ghes_good 10 id en st e); [tauto|exact H].
  - destruct l as [|c [|[?|st] [|]]]; try discriminate H. apply (aer_good 8 c st e); [tauto|exact H].
  - destruct l as [|[id|] [|[en|] [|[?|st] [|]]]]; try discriminate H. apply (ghes_good 9 id en st e); [tauto|exact H].
  - destruct l as [|c [|[?|st] [|]]]; try discriminate H. apply (aer_good 7 c st e); [tauto|exact H].
  - destruct l as [|c [|[?|st] [|]]]; try discriminate H. apply (aer_good 6 c st e); [tauto|exact H].
Qed.

Lemma opt_seq_forall {A} (P : A -> Prop) : forall (l : list (option A)) r,
  opt_seq l = Some r -> (forall x, In (Some x) l -> P x) -> Forall P r.
Proof.
  induction l as [|[x|] l IH]; intros r H HP; cbn [opt_seq] in H; try discriminate H.
  - apply wr_Some_inj in H. subst r. constructor.
  - destruct (opt_seq l) as [r'|]; [|discriminate H]. apply wr_Some_inj in H. subst r.
    constructor; [apply HP; left; reflexivity|]. apply IH; [reflexivity|]. intros y Hy. apply HP. right. exact Hy.
Qed.

Lemma hest_image_shape ctor ops r : ts_image hest_spec ctor ops = Some r -> shows_alone ops = false ->
  exists ha es, hest_entries_ref ops = Some es /\ N.of_nat (length es) < 2 ^ 32 /\
    length (ha_oem ha) = 6%nat /\ length (ha_tbl ha) = 8%nat /\
    r = ref_table [72; 69; 83; 84] 1 ha (le 4 (N.of_nat (length es)) ++ concat es).
Proof.
  intros H Hal. cbn [ts_image hest_spec] in H. unfold hest_image in H.
  destruct ctor as [|l]; [discriminate H|].
  destruct l as [|o [|t [|rr [|]]]]; try discriminate H.
  destruct (sx_hdr_args o t rr) as [ha|] eqn:Eha; [|discriminate H].
  destruct (hest_entries_ref ops) as [es|] eqn:Ees; [|discriminate H].
  rewrite Hal in H.
  destruct (N.ltb_spec (N.of_nat (length es)) (2 ^ 32)) as [Hc|]; [|discriminate H].
  apply wr_Some_inj in H. subst r.
  destruct (sx_hdr_args_len _ _ _ _ Eha) as [Ho Ht].
  exists ha, es. split; [reflexivity|]. split; [exact Hc|]. split; [exact Ho|]. split; [exact Ht|]. reflexivity.
Qed.

Lemma hest_entries_good ops es : hest_entries_ref ops = Some es -> Forall hest_good es.
Proof.
  intros H. unfold hest_entries_ref in H. apply (opt_seq_forall hest_good _ _ H).
  intros x Hx. apply in_map_iff in Hx. destruct Hx as (o & Ho & _). exact (hest_entry_good o x Ho).
Qed.

Theorem hest_selfcheck : forall ctor ops r,
  ts_image hest_spec ctor ops = Some r -> shows_alone ops = false -> c03_self 21 r = true.
Proof.
  intros ctor ops r H Hal.
  destruct (hest_image_shape ctor ops r H Hal) as (ha & es & Ees & Hc & Ho & Ht & ->).
  pose proof (hest_entries_good ops es Ees) as HG.
  unfold c03_self. change (ts_walk (spec_of 21)) with (Some (40%nat, H_hest)).
  apply (c03_self_at_ref 21 40%nat H_hest hest_ty); try assumption; try reflexivity.
  - eapply Forall_impl; [|exact HG]. intros e [Hsd _]. exact Hsd.
  - eapply Forall_impl; [|exact HG]. intros e [_ Hok]. exact Hok.
Qed.

(* the reference image is also exactly tiled, with the right source count, in the sense of [c03_judge] *)
Theorem hest_reference_tiles : forall ctor ops r,
  ts_image hest_spec ctor ops = Some r -> c03_judge hest_spec ctor r ops = true.
Proof.
  intros ctor ops r H.
  destruct (shows_alone ops) eqn:Hal.
  { unfold c03_judge. cbn [ts_walk ts_entries hest_spec]. rewrite Hal. reflexivity. }
  destruct (hest_image_shape ctor ops r H Hal) as (ha & es & Ees & Hc & Ho & Ht & ->).
  pose proof (hest_entries_good ops es Ees) as HG.
  apply (c03_judge_of_tyf hest_spec ctor ops _ 40%nat H_hest hest_ty es).
  - reflexivity.
  - cbn [ts_entries hest_spec]. rewrite Hal, Ees. reflexivity.
  - apply skipn_ref_table; [reflexivity|exact Ho|exact Ht|]. rewrite length_le. reflexivity.
  - eapply Forall_impl; [|exact HG]. intros e [Hsd _]. exact Hsd.
  - cbn [ts_counts hest_spec forallb]. rewrite andb_true_r.
    rewrite (field_at_ref_table [72; 69; 83; 84] 1 ha _ 0%nat 4%nat eq_refl Ho Ht).
    rewrite field_at_le_app, pow8_4, N.mod_small by exact Hc. apply N.eqb_refl.
Qed.

(* the unrestricted statement fails: after a stand-alone generic error status block the observation is that 20-byte block *)
Definition hest_ctor_ex : sx := SL [SL (map SA [65;66;67;68;69;70]); SL (map SA [1;2;3;4;5;6;7;8]); SA 1].
Definition hest_ops_ex : list sx := [SL [SA 20; SL [SA 0; SA 1]; SA 1]].

Example hest_selfcheck_refuted :
  exists r, ts_image hest_spec hest_ctor_ex hest_ops_ex = Some r /\ c03_self 21 r = false.
Proof. eexists. split; [vm_compute; reflexivity|vm_compute; reflexivity]. Qed.

Print Assumptions hest_selfcheck.
Print Assumptions hest_reference_tiles.
Print Assumptions hest_selfcheck_refuted.
