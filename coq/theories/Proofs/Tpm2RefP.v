(* tpm2.rs (components 25 TpmClient1_2, 24 TpmServer1_2, 23 Tpm2): the Impl models refine the Specs.
   For every constructor argument and every finite history in the specification's domain, in both build modes, the model
   accepts the history and its byte image is the reference image. *)
From Coq Require Import NArith ZArith List Lia Bool Arith.
From ACPI Require Import Lib.Bytes Lib.Sx Lib.Machine Impl.Checksum Impl.Table Impl.Fields Impl.Run Impl.Madt Impl.Tpm2
  Spec.Layout Spec.FixedS Spec.Tpm2S Proofs.ChecksumP Proofs.TableP Proofs.MadtP Proofs.FixedP Proofs.Tpm2P Proofs.RefFixedCommonP.
Import ListNotations.

Ltac Zify.zify_post_hook ::= Z.to_euclidean_division_equations.

Open Scope N_scope.

(* ================= TpmClient1_2 ================= *)

Lemma tpmclient_entries_are_reference laml lasa :
  lay_at 36 14 [L 36 2 0; L 38 4 laml; L 42 8 lasa] = Some (w2 0 ++ d4 laml ++ q8 lasa).
Proof.
  change (lay_at 36 14 [L 36 2 0; L 38 4 laml; L 42 8 lasa]) with (Some (assemble [L 36 2 0; L 38 4 laml; L 42 8 lasa])).
  unfold assemble. cbn [map concat fst snd]. rewrite app_nil_r. reflexivity.
Qed.

Lemma tpmclient_new_shape o t r0 laml lasa ha : sx_hdr_args o t r0 = Some ha ->
  exists c, tpmclient_new (SL [o; t; r0; SA laml; SA lasa]) =
            Some {| tc_hdr := hdr_of TCPA 2 ha; tc_len := 50; tc_cks := c; tc_laml := laml; tc_lasa := lasa |}.
Proof.
  intros Eh. unfold tpmclient_new. rewrite (sx_hdr_of_args' _ _ _ _ _ _ Eh). cbn [option_bind]. eexists. reflexivity.
Qed.

Theorem tpmclient_refines :
  forall md ctor ops r,
    ts_image tpmclient_spec ctor ops = Some r ->
    exists s0 s, tpmclient_new ctor = Some s0 /\
                 run_steps (tpmclient_step md) s0 ops = Some s /\
                 tpmclient_bytes s = r.
Proof.
  intros md ctor ops r H. cbn [ts_image tpmclient_spec fixed_spec] in H.
  apply ctor_only_some in H. destruct H as [-> H]. unfold tpmclient_ref in H.
  destruct ctor as [|l]; [discriminate|].
  destruct l as [|o [|t [|r0 [|[laml|] [|[lasa|] [|]]]]]]; try discriminate.
  destruct (sx_hdr_args o t r0) as [ha|] eqn:Eh; [|discriminate].
  rewrite tpmclient_entries_are_reference in H. inversion H; subst r; clear H.
  destruct (tpmclient_new_shape o t r0 laml lasa ha Eh) as [c Hn].
  eexists. eexists. split; [exact Hn|]. split; [reflexivity|].
  destruct (tpmclient_new_good _ _ Hn) as [Hs _].
  change (tpmclient_bytes _) with (hdr_bytes (hdr_of TCPA 2 ha) 50 c ++ (w2 0 ++ d4 laml ++ q8 lasa)) in *.
  assert (Hl : 50 = 36 + N.of_nat (length (w2 0 ++ d4 laml ++ q8 lasa)))
    by (unfold w2, d4, q8; rewrite !app_length, !length_le; reflexivity).
  exact (hdr_of_image_is_ref _ _ _ _ _ _ Hl Hs).
Qed.

(* ================= Tpm2 ================= *)

Lemma start_method_ok_ref sm : start_method_ok sm = existsb (N.eqb sm) [1; 2; 6; 7; 8; 11; 12].
Proof.
  destruct sm as [|p]; [reflexivity|].
  repeat (destruct p as [p|p|]; try reflexivity).
Qed.

Definition tpm2_fixed (cls base sm : N) : layout := [L 36 2 cls; L 38 2 0; L 40 8 base; L 48 4 sm].

(* per-entry content, both shapes of the table *)
Lemma tpm2_entries_are_reference_short cls base sm :
  lay_at 36 16 (tpm2_fixed cls base sm) = Some (w2 cls ++ w2 0 ++ q8 base ++ d4 sm).
Proof.
  change (lay_at 36 16 (tpm2_fixed cls base sm)) with (Some (assemble (tpm2_fixed cls base sm))).
  unfold assemble, tpm2_fixed. cbn [map concat fst snd]. rewrite app_nil_r. reflexivity.
Qed.

Lemma tpm2_entries_are_reference_long cls base sm laml lasa :
  lay_at 36 40 (tpm2_fixed cls base sm ++ [L 52 12 0; L 64 4 laml; L 68 8 lasa]) =
  Some (w2 cls ++ w2 0 ++ q8 base ++ d4 sm ++ firstn 12 (repeatN 0 12) ++ opt_bytes 4 (Some laml) ++ opt_bytes 8 (Some lasa)).
Proof.
  match goal with |- lay_at 36 40 ?L = _ => change (lay_at 36 40 L) with (Some (assemble L)) end.
  unfold assemble, tpm2_fixed. cbn [map concat fst snd app opt_bytes]. rewrite app_nil_r.
  change (firstn 12 (repeatN 0 12)) with (le 12 0). reflexivity.
Qed.

Lemma tpm2_new_shape o t r0 cls base sm ha : sx_hdr_args o t r0 = Some ha ->
  (cls <? 2) && existsb (N.eqb sm) [1; 2; 6; 7; 8; 11; 12] = true ->
  exists c k, tpm2_new (SL [o; t; r0; SA cls; SA base; SA sm]) =
            Some {| t2_hdr := hdr_of TPM2_SIG 1 ha; t2_len := 52; t2_hck := c; t2_ck := k; t2_class := cls; t2_base := base;
                    t2_sm := sm; t2_params := repeatN 0 12; t2_plen := 0; t2_laml := None; t2_lasa := None |}.
Proof.
  intros Eh Hok. unfold tpm2_new. rewrite (sx_hdr_of_args' _ _ _ _ _ _ Eh). cbn [option_bind].
  unfold platform_class_ok. rewrite start_method_ok_ref, Hok. cbn [assert option_bind]. eexists. eexists. reflexivity.
Qed.

Lemma tpm2_step_shape md h c k cls base sm laml lasa :
  exists c' k',
    tpm2_step md {| t2_hdr := h; t2_len := 52; t2_hck := c; t2_ck := k; t2_class := cls; t2_base := base;
                    t2_sm := sm; t2_params := repeatN 0 12; t2_plen := 0; t2_laml := None; t2_lasa := None |}
              (SL [SA 1; SA laml; SA lasa]) =
    Some ({| t2_hdr := h; t2_len := 76; t2_hck := c'; t2_ck := k'; t2_class := cls; t2_base := base;
             t2_sm := sm; t2_params := repeatN 0 12; t2_plen := 12; t2_laml := Some laml; t2_lasa := Some lasa |}, [EvNum 0]).
Proof.
  unfold tpm2_step. cbn [t2_len t2_hdr t2_ck t2_class t2_base t2_sm t2_params].
  change (52 =? 52) with true. cbn [assert option_bind].
  replace (add_m md U32 52 24) with (Some 76) by (destruct md; reflexivity). cbn [option_bind].
  eexists. eexists. reflexivity.
Qed.

Theorem tpm2_refines :
  forall md ctor ops r,
    ts_image tpm2_spec ctor ops = Some r ->
    exists s0 s, tpm2_new ctor = Some s0 /\
                 run_steps (tpm2_step md) s0 ops = Some s /\
                 tpm2_bytes s = r.
Proof.
  intros md ctor ops r H. cbn [ts_image tpm2_spec fixed_spec] in H. unfold tpm2_ref in H.
  destruct ctor as [|l]; [discriminate|].
  destruct l as [|o [|t [|r0 [|[cls|] [|[base|] [|[sm|] [|]]]]]]]; try discriminate.
  cbv zeta in H.
  destruct ((cls <? 2) && existsb (N.eqb sm) [1; 2; 6; 7; 8; 11; 12]) eqn:Hok; [|discriminate].
  destruct (sx_hdr_args o t r0) as [ha|] eqn:Eh; [|discriminate].
  destruct (tpm2_new_shape o t r0 cls base sm ha Eh Hok) as (c & k & Hn).
  fold (tpm2_fixed cls base sm) in H.
  destruct ops as [|op ops].
  - (* no set_log_area *)
    rewrite tpm2_entries_are_reference_short in H. inversion H; subst r; clear H.
    eexists. eexists. split; [exact Hn|]. split; [reflexivity|].
    pose proof (tpm2_sum_len md _ [] _ _ Hn eq_refl) as [Hs _].
    change (tpm2_bytes _) with (hdr_bytes (hdr_of TPM2_SIG 1 ha) 52 c ++ (w2 cls ++ w2 0 ++ q8 base ++ d4 sm)) in *.
    assert (Hl : 52 = 36 + N.of_nat (length (w2 cls ++ w2 0 ++ q8 base ++ d4 sm)))
      by (unfold w2, d4, q8; rewrite !app_length, !length_le; reflexivity).
    exact (hdr_of_image_is_ref _ _ _ _ _ _ Hl Hs).
  - (* exactly one set_log_area *)
    destruct op as [n|l]; [discriminate|]. destruct l as [|a l]; [discriminate|].
    destruct a as [kk|]; [|discriminate]. destruct kk as [|p]; [discriminate|]. destruct p; try discriminate.
    destruct l as [|[laml|] [|[lasa|] [|]]]; try discriminate.
    destruct ops as [|op2 ops]; try discriminate.
    rewrite tpm2_entries_are_reference_long in H. inversion H; subst r; clear H.
    destruct (tpm2_step_shape md (hdr_of TPM2_SIG 1 ha) c k cls base sm laml lasa) as (c' & k' & Hst).
    eexists. eexists. split; [exact Hn|].
    assert (Hr : run_steps (tpm2_step md) _ [SL [SA 1; SA laml; SA lasa]] = Some _)
      by (cbn [run_steps]; rewrite Hst; reflexivity).
    split; [exact Hr|].
    pose proof (tpm2_sum_len md _ _ _ _ Hn Hr) as [Hs _].
    set (rest := w2 cls ++ w2 0 ++ q8 base ++ d4 sm ++ firstn 12 (repeatN 0 12) ++ opt_bytes 4 (Some laml) ++ opt_bytes 8 (Some lasa)).
    change (tpm2_bytes _) with (hdr_bytes (hdr_of TPM2_SIG 1 ha) 76 c' ++ rest) in *.
    assert (Hl : 76 = 36 + N.of_nat (length rest))
      by (unfold rest, w2, d4, q8, opt_bytes; rewrite !app_length, !length_le; reflexivity).
    exact (hdr_of_image_is_ref _ _ _ _ _ _ Hl Hs).
Qed.

(* ================= TpmServer1_2 ================= *)

(* the Spec reads the history through `argn` (last call of a setter) and `was_called`: how they change when a call is appended *)
Lemma last_call_snoc k ops : forall acc o,
  last_call k (ops ++ [o]) acc =
  match o with
  | SL (SA k' :: args) => if k' =? k then sx_nums args else last_call k ops acc
  | _ => last_call k ops acc
  end.
Proof.
  induction ops as [|x ops IH]; intros acc o.
  - cbn [app last_call]. destruct o as [n|[|[k'|] args]]; reflexivity.
  - cbn [app last_call]. destruct x as [n|[|[k''|] args']]; apply IH.
Qed.

Lemma argn_snoc k i ops k' args :
  argn k i (ops ++ [SL (SA k' :: args)]) =
  if k' =? k then match sx_nums args with Some l => nth i l 0 | None => 0 end else argn k i ops.
Proof. unfold argn. rewrite last_call_snoc. destruct (k' =? k); reflexivity. Qed.

Lemma was_called_snoc k ops k' args :
  was_called k (ops ++ [SL (SA k' :: args)]) = was_called k ops || (k' =? k).
Proof. unfold was_called. rewrite existsb_app. cbn [existsb]. now rewrite orb_false_r. Qed.

(* the packed struct after the header that holds what the Spec reads from the history [ops] *)
Definition srv_flds (ops : list sx) : flds :=
  [F 2 1; F 2 0; F 8 (argn 1 0 ops); F 8 (argn 1 1 ops); F 1 1; F 1 2;
   F 1 (bit (was_called 7 ops) 1 + bit (was_called 6 ops) 2 + bit (was_called 9 ops) 4);
   F 1 (bit (was_called 3 ops) 1 + bit (was_called 2 ops) 2 + bit (was_called 4 ops) 4 + bit (was_called 5 ops) 8);
   F 1 (argn 4 0 ops); F 1 0; F 1 0; F 1 0; F 4 (argn 5 0 ops);
   F 1 (argn 8 0 ops); F 1 (argn 8 1 ops); F 1 (argn 8 2 ops); F 1 (argn 8 3 ops); F 8 (argn 8 4 ops); F 4 0;
   F 1 (argn 9 0 ops); F 1 (argn 9 1 ops); F 1 (argn 9 2 ops); F 1 (argn 9 3 ops); F 8 (argn 9 4 ops);
   F 1 (argn 7 0 ops); F 1 (argn 7 1 ops); F 1 (argn 7 2 ops); F 1 (argn 7 3 ops)].

(* the field table of Spec/Tpm2S.v `tpmserver_body` *)
Definition srv_layout (ops : list sx) : layout :=
  let dflags := bit (was_called 7 ops) 1 + bit (was_called 6 ops) 2 + bit (was_called 9 ops) 4 in
  let iflags := bit (was_called 3 ops) 1 + bit (was_called 2 ops) 2 + bit (was_called 4 ops) 4 + bit (was_called 5 ops) 8 in
    [L 36 2 1;
     L 38 2 0;
     L 40 8 (argn 1 0 ops); L 48 8 (argn 1 1 ops);
     L 56 1 1; L 57 1 2;
     L 58 1 dflags; L 59 1 iflags;
     L 60 1 (argn 4 0 ops);
     L 61 3 0;
     L 64 4 (argn 5 0 ops);
     L 68 1 (argn 8 0 ops); L 69 1 (argn 8 1 ops); L 70 1 (argn 8 2 ops); L 71 1 (argn 8 3 ops); L 72 8 (argn 8 4 ops);
     L 80 4 0;
     L 84 1 (argn 9 0 ops); L 85 1 (argn 9 1 ops); L 86 1 (argn 9 2 ops); L 87 1 (argn 9 3 ops); L 88 8 (argn 9 4 ops);
     L 96 1 (argn 7 0 ops); L 97 1 (argn 7 1 ops); L 98 1 (argn 7 2 ops); L 99 1 (argn 7 3 ops)].

Lemma tpmserver_body_layout ops : tpmserver_body ops = Some (assemble (srv_layout ops)).
Proof. reflexivity. Qed.

(* per-entry content: the packed struct serialises to the reference layout, whatever the history *)
Lemma tpmserver_entries_are_reference ops : ser_flds (srv_flds ops) = assemble (srv_layout ops).
Proof. reflexivity. Qed.

Lemma srv_flds_nil : srv_flds [] = tpmserver_body0.
Proof. reflexivity. Qed.

(* one builder call: the model's field updates turn the abstraction of [ops] into the abstraction of [ops ++ [o]] *)
Lemma srv_builder_sim ops o : tpmserver_op_ok o = true ->
  tpmserver_builder (srv_flds ops) o = Some (srv_flds (ops ++ [o])).
Proof.
  unfold tpmserver_op_ok.
  repeat match goal with |- (match ?x with _ => _ end) = true -> _ => destruct x; try discriminate end;
  intros Hr; unfold srv_flds; rewrite !argn_snoc, !was_called_snoc;
  unfold tpmserver_builder, pci_ok;
  try (cbn [sbdf_in_range] in Hr; apply andb_true_iff in Hr; destruct Hr as [Hr1 Hr2]; rewrite Hr1, Hr2);
  generalize (was_called 7 ops) (was_called 6 ops) (was_called 9 ops) (was_called 3 ops) (was_called 2 ops)
             (was_called 4 ops) (was_called 5 ops);
  intros b7 b6 b9 b3 b2 b4 b5; destruct b7, b6, b9, b3, b2, b4, b5; reflexivity.
Qed.

Lemma srv_run md h : forall ops c, forallb tpmserver_op_ok ops = true ->
  exists c', run_steps (tpmserver_step md) {| sv_hdr := h; sv_cks := c; sv_body := tpmserver_body0 |} ops =
             Some {| sv_hdr := h; sv_cks := c'; sv_body := srv_flds ops |}.
Proof.
  intros ops c. induction ops as [|o ops IH] using rev_ind; intros Hok.
  - exists c. reflexivity.
  - rewrite forallb_app in Hok. apply andb_true_iff in Hok. destruct Hok as [Hok Ho].
    cbn [forallb] in Ho. rewrite andb_true_r in Ho.
    destruct (IH Hok) as [c1 Hr]. rewrite run_steps_app, Hr.
    destruct o as [n|l]; [discriminate Ho|].
    cbn [run_steps]. unfold tpmserver_step. cbn [sv_body]. rewrite (srv_builder_sim ops (SL l) Ho). cbn [option_bind].
    unfold tpmserver_update. cbn [sv_hdr]. eexists. reflexivity.
Qed.

Lemma tpmserver_new_shape o t r0 ha : sx_hdr_args o t r0 = Some ha ->
  exists c, tpmserver_new (SL [o; t; r0]) = Some {| sv_hdr := hdr_of TCPA 2 ha; sv_cks := c; sv_body := tpmserver_body0 |}.
Proof.
  intros Eh. unfold tpmserver_new. rewrite (sx_hdr_of_args' _ _ _ _ _ _ Eh). cbn [option_bind]. eexists. reflexivity.
Qed.

Theorem tpmserver_refines :
  forall md ctor ops r,
    ts_image tpmserver_spec ctor ops = Some r ->
    exists s0 s, tpmserver_new ctor = Some s0 /\
                 run_steps (tpmserver_step md) s0 ops = Some s /\
                 tpmserver_bytes s = r.
Proof.
  intros md ctor ops r H. cbn [ts_image tpmserver_spec fixed_spec] in H. unfold tpmserver_ref in H.
  destruct ctor as [|l]; [discriminate|].
  destruct l as [|o [|t [|r0 [|x l]]]]; try discriminate.
  destruct (forallb tpmserver_op_ok ops) eqn:Hok; [|discriminate].
  destruct (sx_hdr_args o t r0) as [ha|] eqn:Eh; [|discriminate].
  rewrite tpmserver_body_layout in H. inversion H; subst r; clear H.
  destruct (tpmserver_new_shape o t r0 ha Eh) as [c Hn].
  destruct (srv_run md (hdr_of TCPA 2 ha) ops c Hok) as [c' Hr].
  eexists. eexists. split; [exact Hn|]. split; [exact Hr|].
  pose proof (tpmserver_sum_len md _ _ _ _ Hn Hr) as [Hs _].
  change (tpmserver_bytes _) with (hdr_bytes (hdr_of TCPA 2 ha) 100 c' ++ ser_flds (srv_flds ops)) in *.
  rewrite tpmserver_entries_are_reference in *.
  assert (Hl : 100 = 36 + N.of_nat (length (assemble (srv_layout ops)))) by (rewrite length_assemble; reflexivity).
  exact (hdr_of_image_is_ref _ _ _ _ _ _ Hl Hs).
Qed.

Print Assumptions tpmclient_refines.
Print Assumptions tpm2_refines.
Print Assumptions tpmserver_refines.
