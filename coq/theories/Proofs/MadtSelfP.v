(* MADT, property C03, per-entry part: the reference image of every in-domain history passes the self-check
   (every interrupt controller structure has the size the specification assigns to its type). *)
From Coq Require Import NArith ZArith List Lia Bool Arith.
From ACPI Require Import Lib.Bytes Lib.Sx Spec.Layout Spec.MadtS Spec.SelfCheck Judge
  Proofs.WalkP Proofs.RefCommonP Proofs.WalkRefCommon2P Proofs.MadtWalkRefP Proofs.SelfCommonP.
Import ListNotations.
Open Scope N_scope.

Lemma madt_entry_self_ok o b : madt_entry_ref o = Some b -> entry_self_ok 12 (nth 0 b 0) b = true.
Proof.
  intros H. unfold madt_entry_ref in H. repeat dvar H.
  all: try (match type of H with context [sx_bytes ?hw] => destruct (sx_bytes hw) as [hwb|]; [|discriminate H] end;
            match type of H with context [Nat.eqb ?a ?b] => destruct (Nat.eqb a b); [|discriminate H] end).
  all: cbn [app] in H; cbn [entry_self_ok]; eapply lay_u8_fixed; [exact H|reflexivity].
Qed.

Theorem madt_selfcheck : forall ctor ops r, ts_image madt_spec ctor ops = Some r -> c03_self 12 r = true.
Proof.
  intros ctor ops r Himg. cbn [ts_image madt_spec] in Himg. unfold madt_image in Himg.
  destruct ctor as [n|[|o [|t [|rv [|lic [|x l]]]]]]; try discriminate Himg.
  destruct (sx_hdr_args o t rv) as [ha|] eqn:Eha; [|discriminate Himg].
  destruct (match lic with SL [] => Some 0 | SL [SA a] => Some a | _ => None end) as [addr|]; [|discriminate Himg].
  destruct (madt_entries_ref ops) as [es|] eqn:Ees; [|discriminate Himg].
  apply wr_Some_inj in Himg. subst r.
  destruct (sx_hdr_args_len _ _ _ _ Eha) as [Ho Ht].
  assert (Ees' : opt_concat (map madt_entry_ref ops) = Some es).
  { unfold madt_entries_ref in Ees. destruct (Nat.ltb 1 _); [discriminate Ees|exact Ees]. }
  unfold c03_self. change (ts_walk (spec_of 12)) with (Some (44%nat, H_u8_u8)).
  rewrite (app_assoc (le 4 addr)).
  apply (c03_self_at_ref 12 44%nat H_u8_u8 (fun e => nth 0 e 0)); try assumption; try reflexivity.
  - apply (opt_concat_forall madt_entry_ref _ madt_entry_self ops es Ees').
  - apply (opt_concat_forall madt_entry_ref _ madt_entry_self_ok ops es Ees').
Qed.

Print Assumptions madt_selfcheck.
