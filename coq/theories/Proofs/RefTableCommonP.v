(* Lemmas shared by the refinement theorems (Impl model = reference image of the Spec) of the incrementally maintained
   tables: the image of a state satisfying the invariant IS the reference table of its fixed part and body; a step whose
   entry is accepted and fits succeeds; handle references; from the fold over the operations to the observed events. *)
From Coq Require Import NArith ZArith List Lia Bool Arith.
From ACPI Require Import Lib.Bytes Lib.Sx Lib.Machine Impl.Checksum Impl.Table Impl.Fields Impl.Run Impl.Madt Spec.Layout
  Proofs.ChecksumP Proofs.TableP Proofs.MadtP Proofs.Tables.
Import ListNotations.

Ltac Zify.zify_post_hook ::= Z.to_euclidean_division_equations.

Open Scope N_scope.

Lemma ref_Some_inj {A} (x y : A) : Some x = Some y -> x = y.
Proof. congruence. Qed.

(* ---------- the header: the model's TableHeader.as_bytes is the reference header ---------- *)
Definition ha_of (h : hdr) : hdr_args := {| ha_oem := h_oem h; ha_tbl := h_tbl h; ha_orev := h_orev h |}.

Lemma hdr_bytes_ref h len cks :
  hdr_bytes h len cks = ref_header (h_sig h) len (h_rev h) cks (h_oem h) (h_tbl h) (h_orev h).
Proof. reflexivity. Qed.

Lemma ref_header_cks_ext sig len rev c1 c2 oem tb orev : c1 mod 256 = c2 mod 256 ->
  ref_header sig len rev c1 oem tb orev = ref_header sig len rev c2 oem tb orev.
Proof. unfold ref_header. intros ->. reflexivity. Qed.

Lemma sumN_ref_header sig len rev cks oem tb orev :
  sumN (ref_header sig len rev cks oem tb orev) = sumN (ref_header sig len rev 0 oem tb orev) + cks mod 256.
Proof.
  unfold ref_header. rewrite !sumN_app. cbn [sumN]. change (0 mod 256) with 0.
  generalize (sumN sig) (sumN (le 4 len)) (sumN oem) (sumN tb) (sumN (le 4 orev)) (sumN CREATOR) (rev mod 256) (cks mod 256).
  intros. lia.
Qed.

(* an image made of the reference header fields, a body, the right Length and a zero byte sum IS the reference table:
   the checksum byte is determined by the other bytes *)
Lemma ref_table_unique sig rev ha len cks rest :
  len = 36 + N.of_nat (length rest) ->
  sum8 (ref_header sig len rev cks (ha_oem ha) (ha_tbl ha) (ha_orev ha) ++ rest) = 0 ->
  ref_header sig len rev cks (ha_oem ha) (ha_tbl ha) (ha_orev ha) ++ rest = ref_table sig rev ha rest.
Proof.
  intros -> Hs. unfold ref_table. f_equal. apply ref_header_cks_ext.
  unfold sum8 in Hs. rewrite sumN_app, sumN_ref_header in Hs.
  remember (sumN (ref_header sig (36 + N.of_nat (length rest)) rev 0 (ha_oem ha) (ha_tbl ha) (ha_orev ha))) as A.
  remember (sumN rest) as B.
  assert (Hc : cks mod 256 < 256) by (apply N.mod_lt; lia).
  remember (cks mod 256) as c. clear - Hs Hc. lia.
Qed.

(* the image of any state satisfying the invariant is the reference table over its fixed part and body *)
Lemma inv_image_ref s : Inv s ->
  tbl_image s = ref_table (h_sig (t_hdr s)) (h_rev (t_hdr s)) (ha_of (t_hdr s))
                          (mid (t_kind s) (t_pre s) (t_cnt s) ++ t_body s).
Proof.
  intros I. pose proof (inv_sum8_zero s I) as Hz. pose proof (inv_len s I) as Hl.
  rewrite (length_image s (inv_hdr s I)) in Hl.
  unfold tbl_image in *.
  apply (ref_table_unique (h_sig (t_hdr s)) (h_rev (t_hdr s)) (ha_of (t_hdr s)) (t_len s) (t_hck s)
           (mid (t_kind s) (t_pre s) (t_cnt s) ++ t_body s)); [|exact Hz].
  rewrite app_length, (length_mid _ _ (t_cnt s)), Hl. lia.
Qed.

(* the two decoders of the constructor's header arguments agree *)
Lemma sx_hdr_of_args sig rev o t r ha : sx_hdr_args o t r = Some ha ->
  sx_hdr sig rev o t r =
  Some {| h_sig := sig; h_rev := rev; h_oem := ha_oem ha; h_tbl := ha_tbl ha; h_orev := ha_orev ha |}.
Proof.
  unfold sx_hdr_args, sx_hdr, sx_arr.
  destruct (sx_bytes o) as [a|]; [|discriminate]. destruct (sx_bytes t) as [b|]; [|discriminate].
  destruct (sx_num r) as [c|]; [|discriminate].
  destruct (Nat.eqb (length a) 6); [|discriminate]. destruct (Nat.eqb (length b) 8); [|discriminate].
  cbn [andb option_bind]. intros H. inversion H; subst. reflexivity.
Qed.

Lemma sx_hdr_args_lengths o t r ha : sx_hdr_args o t r = Some ha ->
  length (ha_oem ha) = 6%nat /\ length (ha_tbl ha) = 8%nat.
Proof.
  unfold sx_hdr_args.
  destruct (sx_bytes o) as [a|]; [|discriminate]. destruct (sx_bytes t) as [b|]; [|discriminate].
  destruct (sx_num r) as [c|]; [|discriminate].
  destruct (Nat.eqb_spec (length a) 6); [|discriminate]. destruct (Nat.eqb_spec (length b) 8); [|discriminate].
  cbn [andb]. intros H. inversion H; subst. split; assumption.
Qed.

Lemma length_ref_table sig rev ha rest : length sig = 4%nat -> length (ha_oem ha) = 6%nat -> length (ha_tbl ha) = 8%nat ->
  length (ref_table sig rev ha rest) = (36 + length rest)%nat.
Proof.
  intros H1 H2 H3. unfold ref_table, ref_header. rewrite !app_length, !length_le, H1, H2, H3. reflexivity.
Qed.

(* ---------- progress: an accepted entry that fits is added ---------- *)
Lemma tbl_add_ok md s st claimed bytes :
  Inv s -> claimed = N.of_nat (length bytes) ->
  N.of_nat (length (tbl_image s)) + claimed < 2 ^ 32 ->
  (t_kind s = KRhct -> t_cnt s + 1 < 2 ^ 32) ->
  (t_kind s = KViot -> N.of_nat (length (tbl_image s)) + claimed < 2 ^ 16) ->
  exists r, tbl_add md s st claimed bytes = Some r.
Proof.
  intros I Hcl Hfit Hrh Hvi. unfold tbl_add.
  assert (Hcast : cast U32 claimed = claimed) by (unfold cast, U32; apply N.mod_small; lia).
  rewrite Hcast.
  assert (Hnl : add_c U32 claimed (t_len s) = Some (claimed + t_len s)).
  { unfold add_m, add_c, U32. rewrite (inv_len s I).
    destruct (N.ltb_spec (claimed + N.of_nat (length (tbl_image s))) (2 ^ 32)); [reflexivity|lia]. }
  rewrite Hnl. cbn [option_bind].
  assert (Ecnt : exists c, (match t_kind s with
            | KViot => Some ((t_cnt s + 1) mod U16)
            | KRhct => add_m md U32 (t_cnt s) 1
            | _ => Some (t_cnt s + 1) end) = Some c).
  { destruct (t_kind s); try (eexists; reflexivity).
    unfold add_m, add_c, U32. specialize (Hrh eq_refl). destruct (N.ltb_spec (t_cnt s + 1) (2 ^ 32)); [eexists; reflexivity|lia]. }
  destruct Ecnt as [c ->]. cbn [option_bind].
  assert (Ehoff : exists c, (match t_kind s with
            | KViot => add_c U16 (t_hoff s) (cast U16 claimed)
            | KPptt | KRhct => add_m md U32 (t_hoff s) claimed
            | _ => Some (t_hoff s + claimed) end) = Some c).
  { rewrite (inv_hoff s I). destruct (t_kind s); try (eexists; reflexivity).
    - unfold add_m, add_c, U32. destruct (N.ltb_spec (N.of_nat (length (tbl_image s)) + claimed) (2 ^ 32)); [eexists; reflexivity|lia].
    - unfold add_m, add_c, U32. destruct (N.ltb_spec (N.of_nat (length (tbl_image s)) + claimed) (2 ^ 32)); [eexists; reflexivity|lia].
    - specialize (Hvi eq_refl). unfold add_c, cast, U16. rewrite (N.mod_small claimed) by lia.
      destruct (N.ltb_spec (N.of_nat (length (tbl_image s)) + claimed) (2 ^ 16)); [eexists; reflexivity|lia]. }
  destruct Ehoff as [c' ->]. cbn [option_bind]. eexists; reflexivity.
Qed.

Section Progress.
  Variable K : tkind.
  Variable entry : tbl -> sx -> option addition.
  Hypothesis entry_sound : forall s o e, t_kind s = K -> entry s o = Some e ->
    a_claimed e = N.of_nat (length (a_bytes e)) /\
    (needs_pos (t_kind s) = true -> (1 <= length (a_bytes e))%nat /\ a_claimed e < 2 ^ 16).

  Lemma add_step_ok md s o e :
    Inv2 K s -> entry s o = Some e ->
    N.of_nat (length (tbl_image s) + length (a_bytes e)) < 2 ^ 32 ->
    (K = KViot -> N.of_nat (length (tbl_image s) + length (a_bytes e)) < 2 ^ 16) ->
    exists s', add_step entry md s o = Some (s', [EvNum (if a_returns e then N.of_nat (length (tbl_image s)) else 0)]) /\
      Inv2 K s' /\ t_ents s' = t_ents s ++ [a_bytes e] /\
      t_handles s' = t_handles s ++ [N.of_nat (length (tbl_image s))] /\
      t_kind s' = t_kind s /\ t_hdr s' = t_hdr s /\ t_pre s' = t_pre s /\
      length (tbl_image s') = (length (tbl_image s) + length (a_bytes e))%nat.
  Proof.
    intros I2 He Hfit Hvi. pose proof I2 as (I & HK & Hne).
    destruct (entry_sound s o e HK He) as (Hcl & Hps).
    destruct (tbl_add_ok md s (a_style e) (a_claimed e) (a_bytes e) I Hcl) as [[s1 h] E].
    - rewrite Hcl. lia.
    - intros Hk. rewrite (inv_cnt s I).
      assert (Hnp : needs_pos (t_kind s) = true) by (rewrite Hk; reflexivity).
      destruct (Hps Hnp) as [Hpos _].
      assert (Hc : (length (t_ents s) <= length (tbl_image s))%nat).
      { rewrite length_image by (exact (inv_hdr s I)). pose proof (concat_len_ge (t_ents s) (Hne Hnp)) as Hc. unfold t_body. lia. }
      lia.
    - intros Hk. rewrite Hcl. rewrite <- Nat2N.inj_add. apply Hvi. congruence.
    - assert (Hstep : add_step entry md s o = Some (set_flag s1 (a_flag e), [EvNum (if a_returns e then h else 0)])).
      { unfold add_step. rewrite He. cbn [option_bind]. rewrite E. reflexivity. }
      assert (Hlen1 : length (tbl_image (set_flag s1 (a_flag e))) = (length (tbl_image s) + length (a_bytes e))%nat).
      { change (length (tbl_image (set_flag s1 (a_flag e)))) with (length (tbl_image s1)).
        unfold tbl_add in E.
        destruct (add_c U32 (cast U32 (a_claimed e)) (t_len s)); [|discriminate]. cbn [option_bind] in E.
        destruct (match t_kind s with KViot => _ | KRhct => _ | _ => _ end); [|discriminate]. cbn [option_bind] in E.
        destruct (match t_kind s with KViot => _ | KPptt | KRhct => _ | _ => _ end); [|discriminate]. cbn [option_bind] in E.
        inversion E; subst; clear E.
        rewrite !length_image by (exact (inv_hdr s I)). cbn [t_kind t_pre]. unfold t_body, t_ents; rewrite ?frev_rev. cbn [t_rents rev].
        rewrite concat_app, app_length. cbn [concat]. rewrite app_nil_r. lia. }
      destruct (add_step_inv K entry entry_sound md s o _ _ I2 Hstep) as (I1 & (e' & Ee' & Hents & Hhs & Hev) & Hk1 & Hh1 & Hp1).
      { rewrite Hlen1. exact Hfit. }
      rewrite He in Ee'. inversion Ee'; subst e'; clear Ee'.
      exists (set_flag s1 (a_flag e)).
      assert (Hh : h = N.of_nat (length (tbl_image s))).
      { clear Hev Hstep. unfold tbl_add in E.
        destruct (add_c U32 (cast U32 (a_claimed e)) (t_len s)); [|discriminate]. cbn [option_bind] in E.
        destruct (match t_kind s with KViot => _ | KRhct => _ | _ => _ end); [|discriminate]. cbn [option_bind] in E.
        destruct (match t_kind s with KViot => _ | KPptt | KRhct => _ | _ => _ end); [|discriminate]. cbn [option_bind] in E.
        inversion E; subst. exact (inv_hoff s I). }
      rewrite Hstep, Hh. split; [reflexivity|]. split; [exact I1|]. repeat split; assumption.
  Qed.
End Progress.

(* ---------- handle references ---------- *)
Lemma nth_error_rev_lt {A} (l : list A) k : (k < length l)%nat -> nth_error (rev l) k = nth_error l (length l - 1 - k).
Proof.
  induction l as [|x l IH]; intros H; cbn [length] in H; [lia|].
  cbn [rev length]. destruct (Nat.eq_dec k (length l)) as [->|Hne].
  - rewrite nth_error_app2 by (rewrite rev_length; lia). rewrite rev_length, Nat.sub_diag.
    replace (S (length l) - 1 - length l)%nat with 0%nat by lia. reflexivity.
  - rewrite nth_error_app1 by (rewrite rev_length; lia). rewrite IH by lia.
    replace (S (length l) - 1 - k)%nat with (S (length l - 1 - k)) by lia. reflexivity.
Qed.

Lemma rev_inj {A} (a b : list A) : rev a = rev b -> a = b.
Proof. intros H. rewrite <- (rev_involutive a), <- (rev_involutive b). now f_equal. Qed.

(* ---------- from the fold over the operations to the events of a case ---------- *)
Section Events.
  Variable entry : tbl -> sx -> option addition.

  Definition all_calls (ops : list sx) : Prop := Forall (fun o => match o with SL _ => True | SA _ => False end) ops.

  Lemma run_ops_acc_adds md ops : forall s s' acc, all_calls ops -> run_adds entry md s ops = Some s' ->
    exists evs, Forall (fun e => match e with EvNum _ => True | _ => False end) evs /\ length evs = length ops /\
      run_ops_acc (fun s => Some (tbl_image s)) (add_step entry md) s (ops ++ [SA 1]) acc =
      frev acc ++ evs ++ [EvBytes (tbl_image s')].
  Proof.
    induction ops as [|o ops IH]; intros s s' acc Hall H; cbn [run_adds] in H.
    - inversion H; subst. exists []. split; [constructor|]. split; [reflexivity|].
      cbn [app run_ops_acc]. rewrite !frev_rev. reflexivity.
    - inversion Hall as [|? ? Ho Hall']; subst. destruct o as [n|l]; [contradiction|].
      destruct (add_step entry md s (SL l)) as [[s1 evs1]|] eqn:E; [|discriminate].
      cbn [app run_ops_acc]. rewrite E.
      destruct (IH s1 s' (rev_append evs1 acc) Hall' H) as (evs & Hf & Hlen & Hrun).
      assert (Hev : exists n, evs1 = [EvNum n]).
      { unfold add_step in E. destruct (entry s (SL l)); [|discriminate]. cbn [option_bind] in E.
        destruct (tbl_add md s _ _ _); [|discriminate]. cbn [option_bind] in E. inversion E; subst. eexists; reflexivity. }
      destruct Hev as [n ->].
      exists (EvNum n :: evs). split; [constructor; [exact Logic.I|exact Hf]|]. split; [cbn [length]; now rewrite Hlen|].
      rewrite Hrun. cbn [rev_append]. rewrite !frev_rev. cbn [rev]. rewrite <- !app_assoc. reflexivity.
  Qed.

  (* the case "ctor, the calls, one observation": one number per call, then the image of the final state *)
  Lemma run_history_adds md (new : sx -> option tbl) ctor ops s0 s : all_calls ops ->
    new ctor = Some s0 -> run_adds entry md s0 ops = Some s ->
    exists evs, Forall (fun e => match e with EvNum _ => True | _ => False end) evs /\ length evs = length ops /\
      run_history (fun s => Some (tbl_image s)) (add_step entry md) new (SL (ctor :: ops ++ [SA 1])) =
      evs ++ [EvBytes (tbl_image s)].
  Proof.
    intros Hall Hn Hr. unfold run_history, run_ops. rewrite Hn.
    destruct (run_ops_acc_adds md ops s0 s [] Hall Hr) as (evs & Hf & Hl & Hrun).
    exists evs. split; [exact Hf|]. split; [exact Hl|]. rewrite Hrun. reflexivity.
  Qed.
End Events.
