(* SRAT, property C03 as a theorem.
   (1) `srat_reference_tiles`: for every constructor argument and every history inside the specification's domain, the Spec
       walker started at offset 48 of the REFERENCE image finds exactly the affinity structures that were added (type code and
       length of each, in order) and lands exactly on the end of the table: `c03_judge srat_spec ctor r ops = true`.
       No size bound and no well-formedness hypothesis is needed.
   (2) `srat_model_tiles`: the same judgement holds of the image the Impl model produces (through `srat_refines`, hence with
       its hypotheses: well-formed case, image below 2^32 bytes).
   The SRAT returns no handles (`ts_returns = false`) and maintains no count field (`ts_counts = []`). *)
From Coq Require Import NArith ZArith List Lia Bool Arith.
From ACPI Require Import Lib.Bytes Lib.Sx Lib.Machine Impl.Table Impl.Run Impl.Srat
  Spec.Layout Spec.MadtS Spec.SratS Proofs.TableP Proofs.WalkP Proofs.RefCommonP Proofs.SratRefP Proofs.WalkRefCommonP.
Import ListNotations.
Open Scope N_scope.

(* every reference affinity structure describes itself: byte 0 is its type code, byte 1 its own length *)
Lemma srat_entry_self o b : srat_entry_ref o = Some b -> self_describing H_u8_u8 b (nth 0 b 0).
Proof.
  intros H. unfold srat_entry_ref in H. repeat dvar H.
  all: try (destruct (srat_handle_ref _) as [[ty hb]|]; [|discriminate H]).
  all: try (destruct (sx_bytes _) as [ub|]; [|discriminate H]; destruct (Nat.eqb _ _); [|discriminate H]).
  all: cbn [app] in H; eapply lay_u8_u8_self; [exact H|reflexivity|apply Nat.leb_le; reflexivity].
Qed.

Theorem srat_reference_tiles : forall ctor ops r,
  ts_image srat_spec ctor ops = Some r -> c03_judge srat_spec ctor r ops = true.
Proof.
  intros ctor ops r Himg. cbn [ts_image srat_spec] in Himg. unfold srat_image in Himg.
  destruct ctor as [n|[|o [|t [|rv [|x l]]]]]; try discriminate Himg.
  destruct (sx_hdr_args o t rv) as [ha|] eqn:Eha; [|discriminate Himg].
  destruct (srat_entries_ref ops) as [es|] eqn:Ees; [|discriminate Himg].
  apply wr_Some_inj in Himg.
  destruct (sx_hdr_args_lengths _ _ _ _ Eha) as [Ho Ht].
  apply (c03_judge_ref H_u8_u8 srat_entry_ref (fun e => nth 0 e 0) srat_entry_self srat_spec _ ops r 48%nat
           [83; 82; 65; 84] 1 ha (le 4 1 ++ le 8 0) es).
  - reflexivity.
  - cbn [ts_entries srat_spec]. rewrite Ees. reflexivity.
  - reflexivity.
  - exact Ees.
  - rewrite <- Himg, <- app_assoc. reflexivity.
  - reflexivity.
  - exact Ho.
  - exact Ht.
  - rewrite app_length, !length_le. reflexivity.
Qed.

Corollary srat_model_tiles : forall md ctor ops r,
  ts_image srat_spec ctor ops = Some r -> srat_ops_wf ops -> N.of_nat (length r) < 2 ^ 32 ->
  exists s0 s, srat_new ctor = Some s0 /\ run_adds srat_addition md s0 ops = Some s /\
    c03_judge srat_spec ctor (tbl_image s) ops = true.
Proof.
  intros md ctor ops r Himg Hwf Hfit.
  destruct (srat_refines md ctor ops r Himg Hwf Hfit) as (s0 & s & Hn & Hr & Hi).
  exists s0, s. split; [exact Hn|]. split; [exact Hr|]. rewrite Hi. exact (srat_reference_tiles ctor ops r Himg).
Qed.

Print Assumptions srat_reference_tiles.
Print Assumptions srat_model_tiles.
