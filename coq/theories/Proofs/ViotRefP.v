(* VIOT: the Impl model refines the Spec (C04 as a theorem).  For every constructor argument and every history of
   operations in the domain of Spec/ViotS.v (which includes: every offset of the table is below 2^16), in both build
   modes, the model of viot.rs accepts the history and the table it serialises is byte for byte the reference image. *)
From Coq Require Import NArith ZArith List Lia Bool Arith.
From ACPI Require Import Lib.Bytes Lib.Sx Lib.Machine Impl.Checksum Impl.Table Impl.Fields Impl.Run Impl.Madt Impl.Viot
  Spec.Layout Spec.RimtS Spec.ViotS
  Proofs.ChecksumP Proofs.TableP Proofs.MadtP Proofs.Tables Proofs.RimtP Proofs.ViotP Proofs.RefTableCommonP Proofs.SpRefP.
Import ListNotations.

Ltac Zify.zify_post_hook ::= Z.to_euclidean_division_equations.

Open Scope N_scope.

(* ---------- per-entry lemmas: model node bytes = reference node bytes, for all arguments ---------- *)

Lemma viot_pci_is_reference x d : viot_pci_ref x = Some d -> viot_pci x = Some d.
Proof.
  unfold viot_pci_ref, viot_pci. intros H.
  destruct x as [|l]; [discriminate H|].
  destruct l as [|[seg|] [|[bus|] [|[dev|] [|[fn|] [|]]]]]; try discriminate H.
  destruct (sp_bdf bus dev fn) as [b|] eqn:Eb; [|discriminate H]. inversion H; subst.
  destruct (sp_bdf_pci _ _ _ _ Eb) as [-> ->]. reflexivity.
Qed.

Lemma pci_range_is_reference f l out :
  lay 24 [L 0 1 1; L 1 1 0; L 2 2 24; L 4 4 (snd f); L 8 2 (fst f); L 10 2 (fst l); L 12 2 (snd f); L 14 2 (snd l);
          L 16 2 out; L 18 6 0] = Some (pci_range_bytes f l out).
Proof. unfold pci_range_bytes. rewrite d4_cast32. reflexivity. Qed.

Lemma mmio_endpoint_is_reference ep base out :
  lay 24 [L 0 1 2; L 1 1 0; L 2 2 24; L 4 4 ep; L 8 8 base; L 16 2 out; L 18 6 0] = Some (mmio_endpoint_bytes ep base out).
Proof. reflexivity. Qed.

Lemma virtio_pci_is_reference d :
  lay 16 [L 0 1 3; L 1 1 0; L 2 2 16; L 4 2 (fst d); L 6 2 (snd d); L 8 8 0] = Some (virtio_pci_bytes d).
Proof. reflexivity. Qed.

Lemma virtio_mmio_is_reference base :
  lay 16 [L 0 1 4; L 1 1 0; L 2 2 16; L 4 4 0; L 8 8 base] = Some (virtio_mmio_bytes base).
Proof. reflexivity. Qed.

Lemma viot_out_handle s n rs href out :
  t_handles s = rev (map fst rs) -> n = length rs -> viot_out_ref n rs href = Some out -> handle_ref s href = Some out.
Proof.
  intros Hh Hn H. unfold viot_out_ref in H.
  destruct (sp_lookup n rs href) as [[off ty]|] eqn:El; [|discriminate H].
  assert (Hx : out = off).
  { repeat (destruct ty as [|ty]; try discriminate H); repeat (destruct ty as [ty|ty|]; try discriminate H); now inversion H. }
  subst out. exact (sp_lookup_handle s n rs href off ty Hh Hn El).
Qed.

(* every node type is the reference encoding of the caller's values *)
Theorem viot_entries_are_reference s n rs o e :
  t_handles s = rev (map fst rs) -> n = length rs -> viot_entry_ref n rs o = Some e ->
  exists a, viot_addition s o = Some a /\ a_bytes a = e.
Proof.
  intros Hh Hn H. unfold viot_entry_ref in H.
  destruct o as [|l]; [discriminate H|]. destruct l as [|[op|] l]; try discriminate H.
  destruct op as [|op]; try discriminate H.
  repeat (destruct op as [op|op|]; try discriminate H).
  - (* 3: virtio-pci IOMMU *)
    destruct l as [|dev [|]]; try discriminate H.
    destruct (viot_pci_ref dev) as [d|] eqn:Ed; [|discriminate H].
    rewrite virtio_pci_is_reference in H. apply ref_Some_inj in H; subst e.
    cbn [viot_addition]. rewrite (viot_pci_is_reference _ _ Ed). cbn [option_bind]. eexists. split; reflexivity.
  - (* 4: virtio-mmio IOMMU *)
    destruct l as [|[base|] [|]]; try discriminate H.
    rewrite virtio_mmio_is_reference in H. apply ref_Some_inj in H; subst e. eexists. split; reflexivity.
  - (* 2: MMIO endpoint *)
    destruct l as [|[ep|] [|[base|] [|href [|]]]]; try discriminate H.
    destruct (viot_out_ref n rs href) as [out|] eqn:Eo; [|discriminate H].
    rewrite mmio_endpoint_is_reference in H. apply ref_Some_inj in H; subst e.
    cbn [viot_addition]. rewrite (viot_out_handle _ _ _ _ _ Hh Hn Eo). cbn [option_bind]. eexists. split; reflexivity.
  - (* 1: PCI range *)
    destruct l as [|first [|last [|href [|]]]]; try discriminate H.
    destruct (viot_pci_ref first) as [f|] eqn:Ef; [|discriminate H].
    destruct (viot_pci_ref last) as [la|] eqn:El; [|discriminate H].
    destruct (viot_out_ref n rs href) as [out|] eqn:Eo; [|discriminate H].
    rewrite pci_range_is_reference in H. apply ref_Some_inj in H; subst e.
    cbn [viot_addition]. rewrite (viot_pci_is_reference _ _ Ef), (viot_pci_is_reference _ _ El), (viot_out_handle _ _ _ _ _ Hh Hn Eo).
    cbn [option_bind]. eexists. split; reflexivity.
Qed.

Lemma viot_entry_ref_call n rs v : viot_entry_ref n rs (SA v) = None.
Proof. reflexivity. Qed.

(* ---------- the refinement theorem ---------- *)
Theorem viot_refines :
  forall md ctor ops r,
    ts_image viot_spec ctor ops = Some r ->
    exists s0 s, viot_new ctor = Some s0 /\
                 run_adds viot_addition md s0 ops = Some s /\
                 tbl_image s = r.
Proof.
  intros md ctor ops r H. cbn [ts_image viot_spec] in H. unfold viot_image in H.
  destruct ctor as [|l]; [discriminate H|].
  destruct l as [|o [|t [|rr [|]]]]; try discriminate H.
  destruct (sx_hdr_args o t rr) as [ha|] eqn:Eha; [|discriminate H].
  destruct (viot_entries_ref ops) as [es|] eqn:Ees; [|discriminate H].
  apply ref_Some_inj in H. subst r.
  unfold viot_entries_ref in Ees.
  destruct (sp_entries viot_entry_ref ops 48 0 [] []) as [es'|] eqn:Ees'; [|discriminate Ees].
  destruct (N.ltb_spec (48 + N.of_nat (length (concat es'))) (2 ^ 16)) as [Hsmall|]; [|discriminate Ees].
  apply ref_Some_inj in Ees. subst es'.
  set (h := {| h_sig := [86; 73; 79; 84]; h_rev := 1; h_oem := ha_oem ha; h_tbl := ha_tbl ha; h_orev := ha_orev ha |}).
  assert (Hnew : viot_new (SL [o; t; rr]) = Some (tbl_new KViot h [])).
  { unfold viot_new. rewrite (sx_hdr_of_args _ _ _ _ _ _ Eha). reflexivity. }
  pose proof (viot_new_inv _ _ Hnew) as I0.
  pose proof (sp_sim_new KViot 48 h [] I0 eq_refl) as S0.
  change (2 ^ 16) with 65536 in Hsmall.
  destruct (sp_sim KViot viot_addition viot_addition_sound viot_entry_ref 48 viot_entries_are_reference viot_entry_ref_call
                   md ops _ _ _ _ _ es S0 Ees') as (s & Hrun & (I & HK & _) & Hents & Hh & Hp & _).
  { change (2 ^ 32) with 4294967296. lia. }
  { intros _. change (2 ^ 16) with 65536. lia. }
  exists (tbl_new KViot h []), s. split; [exact Hnew|]. split; [exact Hrun|].
  rewrite (inv_image_ref s I). rewrite HK, Hh, Hp. cbn [tbl_new t_hdr t_pre h h_sig h_rev mid].
  unfold t_body. rewrite Hents, (inv_cnt s I), Hents. unfold ha_of. cbn [h_oem h_tbl h_orev].
  destruct ha; reflexivity.
Qed.

(* the same in terms of what a case reports: the constructor, the calls, then one observation *)
Corollary viot_case_refines md ctor ops r :
  ts_image viot_spec ctor ops = Some r ->
  exists evs, Forall (fun e => match e with EvNum _ => True | _ => False end) evs /\ length evs = length ops /\
    viot_case md (SL (ctor :: ops ++ [SA 1])) = evs ++ [EvBytes r].
Proof.
  intros H.
  assert (Hall : all_calls ops).
  { cbn [ts_image viot_spec] in H. unfold viot_image in H.
    destruct ctor as [|l]; [discriminate H|].
    destruct l as [|o [|t [|rr [|]]]]; try discriminate H.
    destruct (sx_hdr_args o t rr) as [ha|] eqn:Eha; [|discriminate H].
    destruct (viot_entries_ref ops) as [es|] eqn:Ees; [|discriminate H].
    unfold viot_entries_ref in Ees.
    destruct (sp_entries viot_entry_ref ops 48 0 [] []) as [es'|] eqn:Ees'; [|discriminate Ees].
    clear - Ees'. revert Ees'. generalize 48 0%nat ([] : sp_starts) ([] : list (list N)).
    induction ops as [|o ops IH]; intros off n rs racc H; [constructor|]. cbn [sp_entries] in H.
    destruct (viot_entry_ref n rs o) eqn:He; [|discriminate H].
    constructor; [destruct o; [discriminate He|exact Logic.I]|]. eapply IH; exact H. }
  destruct (viot_refines md ctor ops r H) as (s0 & s & Hn & Hr & Hi).
  destruct (run_history_adds viot_addition md viot_new ctor ops s0 s Hall Hn Hr) as (evs & Hf & Hl & Hrun).
  exists evs. split; [exact Hf|]. split; [exact Hl|]. unfold viot_case, viot_step. rewrite Hrun, Hi. reflexivity.
Qed.

Print Assumptions viot_refines.
Print Assumptions viot_case_refines.
