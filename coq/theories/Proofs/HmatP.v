(* HMAT: the table-specific obligations of the generic history invariant, and the cell property of the
   System Locality matrix (C12): row-major with stride = number of targets, last writer wins, default 0xFFFF. *)
From Coq Require Import NArith ZArith List Lia Bool Arith.
From ACPI Require Import Lib.Bytes Lib.Sx Lib.Machine Impl.Checksum Impl.Table Impl.Fields Impl.Run Impl.Madt Impl.Hmat
  Spec.Layout Proofs.ChecksumP Proofs.TableP Proofs.MadtP Proofs.Tables.
Import ListNotations.

Ltac Zify.zify_post_hook ::= Z.to_euclidean_division_equations.

Open Scope N_scope.

Ltac break_sx H :=
  repeat match type of H with
         | context [match ?x with _ => _ end] => is_var x; destruct x; try discriminate H
         end.

Lemma hm_Some_inj {A} (x y : A) : Some x = Some y -> x = y.
Proof. congruence. Qed.

Lemma hmat_new_inv c s0 : hmat_new c = Some s0 -> Inv2 KHmat s0.
Proof.
  unfold hmat_new. intros H. break_sx H.
  destruct (sx_hdr [72; 77; 65; 84] 1 _ _ _) as [h|] eqn:Eh; [|discriminate].
  cbn [option_bind] in H. apply hm_Some_inj in H. subst s0.
  apply tbl_new_inv2; [eapply sx_hdr_ok; [|exact Eh]; reflexivity | reflexivity].
Qed.

(* ---------- claimed lengths ---------- *)
Lemma hm_ser_flds_length f : length (ser_flds f) = flds_len f.
Proof.
  unfold ser_flds. induction f as [|[w v] f IH]; cbn [map concat flds_len length fst snd]; [reflexivity|].
  rewrite app_length, length_le, IH. reflexivity.
Qed.

Lemma length_hm_words l : length (hm_words l) = (2 * length l)%nat.
Proof. unfold hm_words. induction l as [|x l IH]; cbn [map concat length]; [reflexivity|]. unfold w2 at 1. rewrite app_length, length_le, IH. lia. Qed.

Lemma length_hm_dwords l : length (hm_dwords l) = (4 * length l)%nat.
Proof. unfold hm_dwords. induction l as [|x l IH]; cbn [map concat length]; [reflexivity|]. unfold d4 at 1. rewrite app_length, length_le, IH. lia. Qed.

(* SystemLocality: len() is what to_aml_bytes writes, whatever the vectors hold *)
Lemma sysloc_bytes_length sl : sysloc_len sl = N.of_nat (length (sysloc_bytes sl)).
Proof.
  unfold sysloc_len, sysloc_bytes, hm_len, w2, d4, b1, q8.
  rewrite !app_length, !length_le, !length_hm_dwords, length_hm_words. lia.
Qed.

(* MemorySideCache: len() = 32 + 2 * handles *)
Lemma msc_bytes_length pd size attrs hs b : msc_bytes pd size attrs hs = Some b -> msc_len hs = N.of_nat (length b).
Proof.
  unfold msc_bytes. destruct (hm_len hs <=? 65535); [|discriminate].
  cbn [assert option_bind]. intros H. apply hm_Some_inj in H. subst b.
  unfold msc_len, hm_len, w2, d4, q8. rewrite !app_length, !length_le, length_hm_words. lia.
Qed.

Lemma hmat_addition_sound md s o e : t_kind s = KHmat -> hmat_addition md s o = Some e ->
  a_claimed e = N.of_nat (length (a_bytes e)) /\
  (needs_pos (t_kind s) = true -> (1 <= length (a_bytes e))%nat /\ a_claimed e < 2 ^ 16).
Proof.
  intros Hk H. split; [|rewrite Hk; discriminate].
  unfold hmat_addition in H. break_sx H;
    repeat match type of H with
           | option_bind ?x _ = Some _ => let E := fresh "E" in destruct x eqn:E; [|discriminate H]; cbn [option_bind] in H
           end;
    apply hm_Some_inj in H; subst e; cbn [hmat_add a_claimed a_bytes].
  all: first [ rewrite hm_ser_flds_length; reflexivity | eapply msc_bytes_length; eassumption | apply sysloc_bytes_length ].
Qed.

(* the registry entry (one per build profile: the profile only matters for the usize product of SystemLocality::new) *)
Definition hmat_table (md : mode) : addtable :=
  {| at_name := [72; 77; 65; 84]; at_kind := KHmat; at_new := hmat_new; at_entry := hmat_addition md;
     at_new_inv := hmat_new_inv; at_sound := hmat_addition_sound md |}.

(* ---------- the matrix of a SystemLocality ---------- *)

(* the last value assigned to (i, j) by a sequence of set_entry_value(i', j', v) calls; d if never assigned *)
Fixpoint last_assigned (i j : N) (ops : list (N * N * N)) (d : N) : N :=
  match ops with
  | [] => d
  | (i', j', v) :: r => last_assigned i j r (if (i' =? i) && (j' =? j) then v else d)
  end.

Fixpoint set_entries (s : sysloc) (ops : list (N * N * N)) : option sysloc :=
  match ops with
  | [] => Some s
  | (i, j, v) :: r => match sysloc_set_entry s i j v with Some s' => set_entries s' r | None => None end
  end.

Definition nI (s : sysloc) : N := hm_len (sl_inits s).
Definition nT (s : sysloc) : N := hm_len (sl_targets s).
Definition cell (s : sysloc) (i j : N) : N := nth (N.to_nat (i * nT s + j)) (sl_entries s) 0.
Definition shape_ok (s : sysloc) : Prop := hm_len (sl_entries s) = nI s * nT s.
Definition in_range (s : sysloc) (o : N * N * N) : Prop := fst (fst o) < nI s /\ snd (fst o) < nT s.

(* row-major indexing with stride T is injective on in-range pairs (Euclidean uniqueness) *)
Lemma index_inj T i j i' j' : j < T -> j' < T -> i * T + j = i' * T + j' -> i = i' /\ j = j'.
Proof. intros H1 H2 H. apply (N.div_mod_unique T i i' j j' H1 H2). lia. Qed.

Lemma index_lt I T i j : i < I -> j < T -> i * T + j < I * T.
Proof. intros H1 H2. nia. Qed.

(* one in-range assignment is accepted, writes its own cell and no other *)
Lemma set_entry_spec s i j v : shape_ok s -> i < nI s -> j < nT s ->
  exists s', sysloc_set_entry s i j v = Some s' /\ shape_ok s' /\ nI s' = nI s /\ nT s' = nT s /\
    sl_flags s' = sl_flags s /\ sl_inits s' = sl_inits s /\ sl_targets s' = sl_targets s /\
    forall i' j', i' < nI s -> j' < nT s -> cell s' i' j' = if (i =? i') && (j =? j') then v else cell s i' j'.
Proof.
  intros Hs Hi Hj. unfold sysloc_set_entry, nI, nT in *.
  apply N.ltb_lt in Hi as Hi'. apply N.ltb_lt in Hj as Hj'. rewrite Hi', Hj'. cbn [andb assert option_bind].
  pose proof (index_lt _ _ _ _ Hi Hj) as Hidx.
  unfold hm_vec_set. unfold shape_ok, nI, nT in Hs. rewrite Hs.
  apply N.ltb_lt in Hidx as Hidx'. rewrite Hidx'. cbn [option_bind].
  eexists. split; [reflexivity|].
  unfold shape_ok, nI, nT, cell. cbn [sl_with_entries sl_inits sl_targets sl_entries sl_flags].
  assert (Hlen : (N.to_nat (i * hm_len (sl_targets s) + j) < length (sl_entries s))%nat).
  { unfold hm_len in *. lia. }
  repeat split.
  - unfold hm_len in *. rewrite length_upd. exact Hs.
  - intros i' j' Hi2 Hj2.
    destruct (N.eqb_spec i i') as [->|Hne]; [destruct (N.eqb_spec j j') as [->|Hne]|]; cbn [andb].
    + apply nth_upd_same. exact Hlen.
    + apply nth_upd_other. intros Heq. apply N2Nat.inj in Heq.
      destruct (index_inj _ _ _ _ _ Hj Hj2 Heq). congruence.
    + apply nth_upd_other. intros Heq. apply N2Nat.inj in Heq.
      destruct (index_inj _ _ _ _ _ Hj Hj2 Heq). congruence.
Qed.

(* C12 for the HMAT: after any sequence of in-range assignments -- every one of which is accepted -- the cell
   (i, j), at row-major index i * T + j, holds the last value assigned to (i, j), else what it held before *)
Theorem sysloc_cells ops : forall s, shape_ok s -> Forall (in_range s) ops ->
  exists s', set_entries s ops = Some s' /\ shape_ok s' /\ nI s' = nI s /\ nT s' = nT s /\
    sl_flags s' = sl_flags s /\ sl_inits s' = sl_inits s /\ sl_targets s' = sl_targets s /\
    forall i j, i < nI s -> j < nT s -> cell s' i j = last_assigned i j ops (cell s i j).
Proof.
  induction ops as [|[[i0 j0] v0] r IH]; intros s Hs Hr.
  - exists s. cbn [set_entries last_assigned]. repeat split; auto.
  - inversion Hr as [|x l [Hi Hj] Hr']; subst. cbn [fst snd] in Hi, Hj.
    destruct (set_entry_spec s i0 j0 v0 Hs Hi Hj) as (s1 & E1 & Hs1 & HI1 & HT1 & Hf1 & Hin1 & Htg1 & Hc1).
    assert (Hr1 : Forall (in_range s1) r).
    { eapply Forall_impl; [|exact Hr']. intros o [H1 H2]. unfold in_range. rewrite HI1, HT1. split; assumption. }
    destruct (IH s1 Hs1 Hr1) as (s' & E' & Hs' & HI' & HT' & Hf' & Hin' & Htg' & Hc').
    exists s'. cbn [set_entries]. rewrite E1. split; [exact E'|].
    split; [exact Hs'|]. split; [congruence|]. split; [congruence|]. split; [congruence|]. split; [congruence|].
    split; [congruence|].
    intros i j Hi2 Hj2. cbn [last_assigned]. rewrite Hc' by (rewrite ?HI1, ?HT1; assumption).
    rewrite Hc1 by assumption. reflexivity.
Qed.

(* a fresh SystemLocality: shape established by the constructor, every cell 0xFFFF *)
Lemma nth_repeatN {A} (x d : A) n k : (k < n)%nat -> nth k (repeatN x n) d = x.
Proof. revert k; induction n as [|n IH]; intros [|k] H; cbn [repeatN nth]; try lia; auto. apply IH. lia. Qed.

Lemma sysloc_new_spec md lt dt mts unit ni nt s : sysloc_new md lt dt mts unit ni nt = Some s -> ni * nt < U64 ->
  shape_ok s /\ nI s = ni /\ nT s = nt /\ forall i j, i < ni -> j < nt -> cell s i j = 0xFFFF.
Proof.
  unfold sysloc_new, mul_m. intros H Hfit. apply N.ltb_lt in Hfit as Hf. rewrite Hf in H. cbn [option_bind] in H.
  apply hm_Some_inj in H. subst s.
  unfold shape_ok, cell, nI, nT, hm_len. cbn [sl_entries sl_inits sl_targets].
  rewrite !length_repeatN, !N2Nat.id. repeat split.
  intros i j Hi Hj. apply nth_repeatN. pose proof (index_lt _ _ _ _ Hi Hj). lia.
Qed.

Corollary sysloc_fresh_cells md lt dt mts unit ni nt s ops : sysloc_new md lt dt mts unit ni nt = Some s -> ni * nt < U64 ->
  Forall (fun o => fst (fst o) < ni /\ snd (fst o) < nt) ops ->
  exists s', set_entries s ops = Some s' /\
    forall i j, i < ni -> j < nt -> cell s' i j = last_assigned i j ops 0xFFFF.
Proof.
  intros Hn Hfit Hr. destruct (sysloc_new_spec _ _ _ _ _ _ _ _ Hn Hfit) as (Hs & HI & HT & Hd).
  destruct (sysloc_cells ops s Hs) as (s' & E & _ & _ & _ & _ & _ & _ & Hc).
  { eapply Forall_impl; [|exact Hr]. intros o H. unfold in_range. rewrite HI, HT. exact H. }
  exists s'. split; [exact E|]. intros i j Hi Hj. rewrite Hc by (rewrite ?HI, ?HT; assumption).
  rewrite Hd by assumption. reflexivity.
Qed.

(* ---------- the same cell, read from the serialised structure by the Spec layer's field decoder ---------- *)
Lemma words_at l : forall k, (k < length l)%nat -> firstn 2 (skipn (2 * k) (hm_words l)) = w2 (nth k l 0).
Proof.
  unfold hm_words. induction l as [|x l IH]; intros k Hk; cbn [length] in Hk; [lia|].
  destruct k as [|k].
  - cbn [Nat.mul skipn map concat nth]. unfold w2 at 1. apply (firstn_le_app 2).
  - replace (2 * S k)%nat with (2 + 2 * k)%nat by lia. cbn [map concat nth].
    change (2 + 2 * k)%nat with (S (S (2 * k))). unfold w2 at 1. cbn [le app skipn]. apply IH. lia.
Qed.

Lemma skipn_app_ge {A} (a b : list A) n : (length a <= n)%nat -> skipn n (a ++ b) = skipn (n - length a) b.
Proof. intros H. rewrite skipn_app. rewrite skipn_all2 by exact H. reflexivity. Qed.

(* the u16 found at matrix index k of the serialised structure is entry k *)
Theorem sysloc_bytes_cell s k : (k < length (sl_entries s))%nat ->
  field_at (sysloc_bytes s) (32 + 4 * length (sl_inits s) + 4 * length (sl_targets s) + 2 * k) 2 = nth k (sl_entries s) 0 mod 2 ^ 16.
Proof.
  intros Hk. unfold field_at, sysloc_bytes.
  repeat rewrite app_assoc.
  match goal with |- context [skipn ?n (?pre ++ hm_words ?e)] =>
    assert (Hpre : length pre = (32 + 4 * length (sl_inits s) + 4 * length (sl_targets s))%nat) end.
  { unfold w2, d4, b1, q8. rewrite !app_length, !length_le, !length_hm_dwords. lia. }
  rewrite skipn_app_ge by lia. rewrite Hpre.
  replace (32 + 4 * length (sl_inits s) + 4 * length (sl_targets s) + 2 * k - (32 + 4 * length (sl_inits s) + 4 * length (sl_targets s)))%nat
    with (2 * k)%nat by lia.
  rewrite words_at by exact Hk. unfold w2. rewrite unle_le. reflexivity.
Qed.

(* the builder loop of the model performs exactly these assignments *)
Lemma sysloc_builders_set_entries ops : forall s,
  sysloc_builders s (map (fun o => SL [SA 5; SA (fst (fst o)); SA (snd (fst o)); SA (snd o)]) ops) = set_entries s ops.
Proof.
  induction ops as [|[[i j] v] r IH]; intros s; cbn [map sysloc_builders set_entries fst snd]; [reflexivity|].
  cbn [sysloc_builder]. destruct (sysloc_set_entry s i j v); [apply IH|reflexivity].
Qed.
