(* RIMT: the Impl model refines the Spec (C04 as a theorem).  For every constructor argument and every history of
   operations in the domain of Spec/RimtS.v, in both build modes, the model of rimt.rs accepts the history and the table
   it serialises is byte for byte the reference image. *)
From Coq Require Import NArith ZArith List Lia Bool Arith.
From ACPI Require Import Lib.Bytes Lib.Sx Lib.Machine Impl.Checksum Impl.Table Impl.Fields Impl.Run Impl.Madt Impl.Rimt
  Spec.Layout Spec.RimtS
  Proofs.ChecksumP Proofs.TableP Proofs.MadtP Proofs.Tables Proofs.RimtP Proofs.RefTableCommonP Proofs.SpRefP.
Import ListNotations.

Ltac Zify.zify_post_hook ::= Z.to_euclidean_division_equations.

Open Scope N_scope.

(* ---------- sub-structures ---------- *)

(* interrupt wire *)
Lemma wire_is_reference w e : rimt_wire_ref w = Some e -> wire_bytes w = Some e.
Proof.
  unfold rimt_wire_ref, wire_bytes. intros H.
  destruct w as [|l]; [discriminate H|].
  destruct l as [|[num|] [|[lvl|] [|[pol|] [|[aplic|] [|]]]]]; try discriminate H.
  rewrite <- H. unfold sp_bit, truthy. destruct (lvl =? 0), (pol =? 0); reflexivity.
Qed.

(* ID mapping: the destination IOMMU offset is the handle the model resolves *)
Lemma idmap_is_reference s n rs m e :
  t_handles s = rev (map fst rs) -> n = length rs -> rimt_map_ref n rs m = Some e -> idmap_bytes s m = Some e.
Proof.
  intros Hh Hn H. unfold rimt_map_ref in H. unfold idmap_bytes.
  destruct m as [|l]; [discriminate H|].
  destruct l as [|[src|] [|[dst|] [|[cnt|] [|href [|[ats|] [|[pri|] [|[rciep|] [|]]]]]]]]; try discriminate H.
  destruct (sp_lookup n rs href) as [[off ty]|] eqn:El; [|discriminate H].
  destruct ty as [|ty]; [|discriminate H].
  rewrite (sp_lookup_handle s n rs href off 0 Hh Hn El). cbn [option_bind]. rewrite d4_cast32.
  rewrite <- H. unfold sp_bit, truthy. destruct (ats =? 0), (pri =? 0), (rciep =? 0); reflexivity.
Qed.

Lemma opt_list_wires x ws : rimt_opt_list rimt_wire_ref x = Some ws -> rimt_wires x = Some ws.
Proof.
  unfold rimt_opt_list, rimt_wires. intros H.
  destruct x as [|l]; [discriminate H|]. destruct l as [|[|ws0] [|]]; try discriminate H; [exact H|].
  destruct (sp_all_list_all rimt_wire_ref wire_bytes wire_is_reference _ _ _ H) as (r' & -> & ->). reflexivity.
Qed.

Lemma opt_list_maps s n rs x ms :
  t_handles s = rev (map fst rs) -> n = length rs -> rimt_opt_list (rimt_map_ref n rs) x = Some ms -> rimt_maps s x = Some ms.
Proof.
  intros Hh Hn. unfold rimt_opt_list, rimt_maps. intros H.
  destruct x as [|l]; [discriminate H|]. destruct l as [|[|ms0] [|]]; try discriminate H; [exact H|].
  destruct (sp_all_list_all (rimt_map_ref n rs) (idmap_bytes s) (fun m e => idmap_is_reference s n rs m e Hh Hn) _ _ _ H)
    as (r' & -> & ->). reflexivity.
Qed.

Lemma rimt_pci_is_reference x p : rimt_pci_ref x = Some p -> rimt_pci x = Some p.
Proof.
  unfold rimt_pci_ref, rimt_pci. intros H.
  destruct x as [|l]; [discriminate H|]. destruct l as [|d l]; [exact H|].
  destruct d as [|d]; [destruct l; discriminate H|].
  destruct d as [|[seg|] [|[bus|] [|[dev|] [|[fn|] [|]]]]]; try (destruct l; discriminate H).
  destruct l; [|discriminate H].
  destruct (sp_bdf bus dev fn) as [b|] eqn:Eb; [|discriminate H].
  destruct (sp_bdf_pci _ _ _ _ Eb) as [-> ->]. exact H.
Qed.

Lemma sp_opt_num x : sp_opt x = opt_num x.
Proof. reflexivity. Qed.

(* ---------- the three device structures ---------- *)

Lemma iommu_is_reference id b p px ws :
  option_map (fun h => h ++ concat ws)
    (lay 32 [L 0 1 0; L 1 1 1; L 2 2 (N.of_nat (32 + 8 * length ws)); L 4 2 id; L 6 2 0; L 8 8 (sp_or0 b);
             L 16 4 (match p with Some _ => 1 | None => 0 end + 2 * sp_some px);
             L 20 2 (match p with Some q => fst q | None => 0 end); L 22 2 (match p with Some q => snd q | None => 0 end);
             L 24 4 (sp_or0 px); L 28 2 (N.of_nat (length ws)); L 30 2 32])
  = Some (iommu_bytes id b p px ws).
Proof.
  unfold iommu_bytes, iommu_len.
  replace (32 + 8 * N.of_nat (length ws)) with (N.of_nat (32 + 8 * length ws)) by lia.
  generalize (N.of_nat (32 + 8 * length ws)) (N.of_nat (length ws)). intros len n.
  destruct b, p, px; reflexivity.
Qed.

Lemma pcierc_is_reference id seg ats pri ms :
  option_map (fun h => h ++ concat ms)
    (lay 16 [L 0 1 1; L 1 1 1; L 2 2 (N.of_nat (16 + 20 * length ms)); L 4 2 id; L 6 2 seg; L 8 4 (sp_bit ats 1 + sp_bit pri 2);
             L 12 2 16; L 14 2 (N.of_nat (length ms))])
  = Some (pcierc_bytes id seg (truthy ats) (truthy pri) ms).
Proof.
  unfold pcierc_bytes, pcierc_len.
  replace (16 + 20 * N.of_nat (length ms)) with (N.of_nat (16 + 20 * length ms)) by lia.
  generalize (N.of_nat (16 + 20 * length ms)) (N.of_nat (length ms)). intros len n.
  unfold sp_bit, truthy. destruct (ats =? 0), (pri =? 0); reflexivity.
Qed.

Lemma concat_map_b1 (l : list N) : concat (map b1 l) = map (fun b => b mod 256) l.
Proof. induction l as [|x l IH]; [reflexivity|]. cbn [map concat]. rewrite IH. reflexivity. Qed.

Lemma platform_is_reference id nm ms :
  option_map (fun h => h ++ map (fun b => b mod 256) nm ++ [0] ++ concat ms)
    (lay 12 [L 0 1 2; L 1 1 1; L 2 2 (N.of_nat (12 + length nm + 1 + 20 * length ms)); L 4 2 id; L 6 2 0;
             L 8 2 (N.of_nat (12 + length nm + 1)); L 10 2 (N.of_nat (length ms))])
  = Some (platform_bytes id nm ms).
Proof.
  unfold platform_bytes, platform_len, platform_moff. rewrite concat_map_b1.
  replace (12 + N.of_nat (length nm) + 1 + 20 * N.of_nat (length ms)) with (N.of_nat (12 + length nm + 1 + 20 * length ms)) by lia.
  replace (12 + N.of_nat (length nm) + 1) with (N.of_nat (12 + length nm + 1)) by lia.
  generalize (N.of_nat (12 + length nm + 1 + 20 * length ms)) (N.of_nat (12 + length nm + 1)) (N.of_nat (length ms)).
  intros len moff n. reflexivity.
Qed.

Lemma rimt_fits_some len img e : rimt_fits len img = Some e -> (N.of_nat len <=? 65535) = true /\ img = Some e.
Proof.
  unfold rimt_fits. destruct (N.ltb_spec 65535 (N.of_nat len)); [discriminate|]. intros ->. split; [|reflexivity].
  apply N.leb_le. assumption.
Qed.

(* every structure type is the reference encoding of the caller's values *)
Theorem rimt_entries_are_reference s n rs o e :
  t_handles s = rev (map fst rs) -> n = length rs -> rimt_entry_ref n rs o = Some e ->
  exists a, rimt_addition s o = Some a /\ a_bytes a = e.
Proof.
  intros Hh Hn H. unfold rimt_entry_ref in H.
  destruct o as [|l]; [discriminate H|]. destruct l as [|[op|] l]; try discriminate H.
  destruct op as [|op]; try discriminate H.
  repeat (destruct op as [op|op|]; try discriminate H).
  - (* 3: platform device *)
    destruct l as [|[id|] [|name [|maps [|]]]]; try discriminate H.
    destruct (sx_bytes name) as [nm|] eqn:En; [|discriminate H].
    destruct (rimt_opt_list (rimt_map_ref n rs) maps) as [ms|] eqn:Em; [|discriminate H].
    cbv zeta in H. apply rimt_fits_some in H. destruct H as [Hfit H].
    rewrite platform_is_reference in H. apply ref_Some_inj in H. subst e.
    cbn [rimt_addition]. rewrite En, (opt_list_maps _ _ _ _ _ Hh Hn Em). cbn [option_bind].
    replace (platform_len nm (N.of_nat (length ms))) with (N.of_nat (12 + length nm + 1 + 20 * length ms))
      by (unfold platform_len, platform_moff; lia).
    rewrite Hfit. cbn [assert option_bind]. eexists. split; reflexivity.
  - (* 2: PCIe root complex *)
    destruct l as [|[id|] [|[seg|] [|[ats|] [|[pri|] [|maps [|]]]]]]; try discriminate H.
    destruct (rimt_opt_list (rimt_map_ref n rs) maps) as [ms|] eqn:Em; [|discriminate H].
    cbv zeta in H. apply rimt_fits_some in H. destruct H as [Hfit H].
    rewrite pcierc_is_reference in H. apply ref_Some_inj in H. subst e.
    cbn [rimt_addition]. rewrite (opt_list_maps _ _ _ _ _ Hh Hn Em). cbn [option_bind].
    replace (pcierc_len (N.of_nat (length ms))) with (N.of_nat (16 + 20 * length ms)) by (unfold pcierc_len; lia).
    rewrite Hfit. cbn [assert option_bind]. eexists. split; reflexivity.
  - (* 1: IOMMU *)
    destruct l as [|[id|] [|base [|pci [|prox [|wires [|]]]]]]; try discriminate H.
    change sp_opt with opt_num in H.
    destruct (opt_num base) as [b|] eqn:Eb; destruct (rimt_pci_ref pci) as [p|] eqn:Ep;
      destruct (opt_num prox) as [px|] eqn:Epx; destruct (rimt_opt_list rimt_wire_ref wires) as [ws|] eqn:Ew;
      try discriminate H.
    cbv zeta in H. apply rimt_fits_some in H. destruct H as [Hfit H].
    rewrite iommu_is_reference in H. apply ref_Some_inj in H. subst e.
    cbn [rimt_addition]. rewrite Eb, (rimt_pci_is_reference _ _ Ep), Epx, (opt_list_wires _ _ Ew). cbn [option_bind].
    replace (iommu_len (N.of_nat (length ws))) with (N.of_nat (32 + 8 * length ws)) by (unfold iommu_len; lia).
    rewrite Hfit. cbn [assert option_bind]. eexists. split; reflexivity.
Qed.

Lemma rimt_entry_ref_call n rs v : rimt_entry_ref n rs (SA v) = None.
Proof. reflexivity. Qed.

(* ---------- the refinement theorem ---------- *)
Theorem rimt_refines :
  forall md ctor ops r,
    ts_image rimt_spec ctor ops = Some r ->
    N.of_nat (length r) < 2 ^ 32 ->
    exists s0 s, rimt_new ctor = Some s0 /\
                 run_adds rimt_addition md s0 ops = Some s /\
                 tbl_image s = r.
Proof.
  intros md ctor ops r H Hfit. cbn [ts_image rimt_spec] in H. unfold rimt_image in H.
  destruct ctor as [|l]; [discriminate H|].
  destruct l as [|o [|t [|rr [|]]]]; try discriminate H.
  destruct (sx_hdr_args o t rr) as [ha|] eqn:Eha; [|discriminate H].
  destruct (rimt_entries_ref ops) as [es|] eqn:Ees; [|discriminate H].
  apply ref_Some_inj in H. subst r.
  unfold rimt_entries_ref in Ees.
  set (h := {| h_sig := [82; 73; 77; 84]; h_rev := 1; h_oem := ha_oem ha; h_tbl := ha_tbl ha; h_orev := ha_orev ha |}).
  assert (Hnew : rimt_new (SL [o; t; rr]) = Some (tbl_new KRimt h [])).
  { unfold rimt_new. rewrite (sx_hdr_of_args _ _ _ _ _ _ Eha). reflexivity. }
  pose proof (rimt_new_inv _ _ Hnew) as I0.
  pose proof (sp_sim_new KRimt 48 h [] I0 eq_refl) as S0.
  assert (Hsz : N.of_nat (48 + length (concat es)) < 2 ^ 32).
  { destruct (sx_hdr_args_lengths _ _ _ _ Eha) as [Ho Ht].
    rewrite (length_ref_table [82; 73; 77; 84] _ _ _ eq_refl Ho Ht) in Hfit. rewrite !app_length, !length_le in Hfit. lia. }
  destruct (sp_sim KRimt rimt_addition rimt_addition_sound rimt_entry_ref 48 rimt_entries_are_reference rimt_entry_ref_call
                   md ops _ _ _ _ _ es S0 Ees Hsz) as (s & Hrun & (I & HK & _) & Hents & Hh & Hp & _).
  { discriminate. }
  exists (tbl_new KRimt h []), s. split; [exact Hnew|]. split; [exact Hrun|].
  rewrite (inv_image_ref s I). rewrite HK, Hh, Hp. cbn [tbl_new t_hdr t_pre h h_sig h_rev mid].
  unfold t_body. rewrite Hents, (inv_cnt s I), Hents. unfold ha_of. cbn [h_oem h_tbl h_orev].
  destruct ha; reflexivity.
Qed.

(* the same in terms of what a case reports: the constructor, the calls, then one observation *)
Corollary rimt_case_refines md ctor ops r :
  ts_image rimt_spec ctor ops = Some r -> N.of_nat (length r) < 2 ^ 32 ->
  exists evs, Forall (fun e => match e with EvNum _ => True | _ => False end) evs /\ length evs = length ops /\
    rimt_case md (SL (ctor :: ops ++ [SA 1])) = evs ++ [EvBytes r].
Proof.
  intros H Hfit.
  assert (Hall : all_calls ops).
  { cbn [ts_image rimt_spec] in H. unfold rimt_image in H.
    destruct ctor as [|l]; [discriminate H|].
    destruct l as [|o [|t [|rr [|]]]]; try discriminate H.
    destruct (sx_hdr_args o t rr) as [ha|] eqn:Eha; [|discriminate H].
    destruct (rimt_entries_ref ops) as [es|] eqn:Ees; [|discriminate H].
    unfold rimt_entries_ref in Ees.
    clear - Ees. revert Ees. generalize 48 0%nat ([] : sp_starts) ([] : list (list N)).
    induction ops as [|o ops IH]; intros off n rs racc H; [constructor|]. cbn [sp_entries] in H.
    destruct (rimt_entry_ref n rs o) eqn:He; [|discriminate H].
    constructor; [destruct o; [discriminate He|exact Logic.I]|]. eapply IH; exact H. }
  destruct (rimt_refines md ctor ops r H Hfit) as (s0 & s & Hn & Hr & Hi).
  destruct (run_history_adds rimt_addition md rimt_new ctor ops s0 s Hall Hn Hr) as (evs & Hf & Hl & Hrun).
  exists evs. split; [exact Hf|]. split; [exact Hl|]. unfold rimt_case, rimt_step. rewrite Hrun, Hi. reflexivity.
Qed.

Print Assumptions rimt_refines.
Print Assumptions rimt_case_refines.
