(* C03, per-entry self-consistency carried from the reference images to the images the Impl model emits, through the
   refinement theorems (model image = reference image for every in-domain history), with their hypotheses. *)
From Coq Require Import NArith List.
From ACPI Require Import Lib.Bytes Lib.Sx Lib.Machine Impl.Table Spec.Layout Judge Proofs.TableP.
From ACPI Require Import Impl.Madt Impl.Srat Impl.Mcfg Impl.Xsdt Impl.Rhct Impl.Viot Impl.Rimt Impl.Cedt Impl.Pptt Impl.Hmat
  Spec.MadtS Spec.SratS Spec.McfgS Spec.XsdtS Spec.RhctS Spec.ViotS Spec.RimtS Spec.CedtS Spec.PpttS Spec.HmatS
  Proofs.MadtRefP Proofs.SratRefP Proofs.McfgRefP Proofs.XsdtRefP Proofs.RhctRefP Proofs.ViotRefP Proofs.RimtRefP
  Proofs.CedtRefP Proofs.PpttRefP Proofs.HmatRefP
  Proofs.MadtSelfP Proofs.SratSelfP Proofs.McfgSelfP Proofs.XsdtSelfP Proofs.RhctSelfP Proofs.ViotSelfP Proofs.RimtSelfP
  Proofs.CedtSelfP Proofs.PpttSelfP Proofs.HmatSelfP.
Import ListNotations.
Open Scope N_scope.

Ltac carry R S :=
  let s0 := fresh "s0" in let s := fresh "s" in let Hn := fresh in let Hr := fresh in let Hi := fresh in
  destruct R as (s0 & s & Hn & Hr & Hi); exists s0, s; split; [exact Hn|]; split; [exact Hr|]; rewrite Hi; exact S.

Theorem madt_model_selfcheck md ctor ops r :
  ts_image madt_spec ctor ops = Some r -> madt_ops_wf ops -> N.of_nat (length r) < 2 ^ 32 ->
  exists s0 s, madt_new ctor = Some s0 /\ run_adds madt_addition md s0 ops = Some s /\ c03_self 12 (tbl_image s) = true.
Proof. intros H Hwf Hfit. carry (madt_refines md ctor ops r H Hwf Hfit) (madt_selfcheck ctor ops r H). Qed.

Theorem srat_model_selfcheck md ctor ops r :
  ts_image srat_spec ctor ops = Some r -> srat_ops_wf ops -> N.of_nat (length r) < 2 ^ 32 ->
  exists s0 s, srat_new ctor = Some s0 /\ run_adds srat_addition md s0 ops = Some s /\ c03_self 13 (tbl_image s) = true.
Proof. intros H Hwf Hfit. carry (srat_refines md ctor ops r H Hwf Hfit) (srat_selfcheck ctor ops r H). Qed.

Theorem mcfg_model_selfcheck md ctor ops r :
  ts_image mcfg_spec ctor ops = Some r -> N.of_nat (length r) < 2 ^ 32 ->
  exists s0 s, mcfg_new ctor = Some s0 /\ run_adds mcfg_addition md s0 ops = Some s /\ c03_self 11 (tbl_image s) = true.
Proof. intros H Hfit. carry (mcfg_refines md ctor ops r H Hfit) (mcfg_selfcheck ctor ops r H). Qed.

Theorem xsdt_model_selfcheck md ctor ops r :
  ts_image xsdt_spec ctor ops = Some r -> N.of_nat (length r) < 2 ^ 32 ->
  exists s0 s, xsdt_new ctor = Some s0 /\ run_adds xsdt_addition md s0 ops = Some s /\ c03_self 10 (tbl_image s) = true.
Proof. intros H Hfit. carry (xsdt_refines md ctor ops r H Hfit) (xsdt_selfcheck ctor ops r H). Qed.

Theorem rhct_model_selfcheck md ctor ops r :
  ts_image rhct_spec ctor ops = Some r -> N.of_nat (length r) < 2 ^ 32 ->
  exists s0 s, rhct_new ctor = Some s0 /\ run_adds rhct_addition md s0 ops = Some s /\ c03_self 17 (tbl_image s) = true.
Proof. intros H Hfit. carry (rhct_refines md ctor ops r H Hfit) (rhct_selfcheck ctor ops r H). Qed.

Theorem viot_model_selfcheck md ctor ops r :
  ts_image viot_spec ctor ops = Some r ->
  exists s0 s, viot_new ctor = Some s0 /\ run_adds viot_addition md s0 ops = Some s /\ c03_self 19 (tbl_image s) = true.
Proof. intros H. carry (viot_refines md ctor ops r H) (viot_selfcheck ctor ops r H). Qed.

Theorem rimt_model_selfcheck md ctor ops r :
  ts_image rimt_spec ctor ops = Some r -> N.of_nat (length r) < 2 ^ 32 ->
  exists s0 s, rimt_new ctor = Some s0 /\ run_adds rimt_addition md s0 ops = Some s /\ c03_self 18 (tbl_image s) = true.
Proof. intros H Hfit. carry (rimt_refines md ctor ops r H Hfit) (rimt_selfcheck ctor ops r H). Qed.

Theorem cedt_model_selfcheck md ctor ops r :
  ts_image cedt_spec ctor ops = Some r -> N.of_nat (length r) < 2 ^ 32 ->
  exists s0 s, cedt_new ctor = Some s0 /\ run_adds cedt_addition md s0 ops = Some s /\ c03_self 20 (tbl_image s) = true.
Proof. intros H Hfit. carry (cedt_refines md ctor ops r H Hfit) (cedt_selfcheck ctor ops r H). Qed.

Theorem pptt_model_selfcheck md ctor ops r :
  ts_image pptt_spec ctor ops = Some r -> N.of_nat (length r) < 2 ^ 32 ->
  exists s0 s, pptt_new ctor = Some s0 /\ run_adds pptt_addition md s0 ops = Some s /\ c03_self 16 (tbl_image s) = true.
Proof. intros H Hfit. carry (pptt_refines md ctor ops r H Hfit) (pptt_selfcheck ctor ops r H). Qed.

Theorem hmat_model_selfcheck md ctor ops r :
  ts_image hmat_spec ctor ops = Some r -> N.of_nat (length r) < 2 ^ 32 ->
  exists s0 s, hmat_new ctor = Some s0 /\ run_adds (hmat_addition md) md s0 ops = Some s /\ c03_self 15 (tbl_image s) = true.
Proof. intros H Hfit. carry (hmat_refines md ctor ops r H Hfit) (hmat_selfcheck ctor ops r H). Qed.
