(* SRAT: the table-specific obligations of the generic history invariant. *)
From Coq Require Import NArith ZArith List Lia Bool Arith.
From ACPI Require Import Lib.Bytes Lib.Sx Lib.Machine Impl.Checksum Impl.Table Impl.Fields Impl.Run Impl.Madt Impl.Srat
  Proofs.ChecksumP Proofs.TableP Proofs.MadtP Proofs.Tables Proofs.FixedP.
Import ListNotations.
Open Scope N_scope.

Lemma srat_new_inv c s0 : srat_new c = Some s0 -> Inv2 KSrat s0.
Proof.
  unfold srat_new. destruct c as [|l]; [discriminate|].
  destruct l as [|o [|t [|r [|x l]]]]; try discriminate.
  destruct (sx_hdr [83; 82; 65; 84] 1 o t r) as [h|] eqn:Eh; [|discriminate].
  cbn [option_bind]. intros H. inversion H; subst.
  apply tbl_new_inv2; [eapply sx_hdr_ok; [|exact Eh]; reflexivity | reflexivity].
Qed.

(* ---- the three serialisers write exactly their hand-written len(), whatever the arguments and builders ---- *)
Lemma memaff_bytes_length m : length (memaff_bytes m) = 40%nat.
Proof. unfold memaff_bytes, b1, w2, d4, q8. rewrite !app_length, !length_le. reflexivity. Qed.

Lemma sx_handle_length x h : sx_handle x = Some h -> length (handle_bytes h) = 16%nat.
Proof.
  unfold sx_handle.
  repeat match goal with |- (match ?x with _ => _ end) = Some _ -> _ => destruct x; try discriminate end.
  - match goal with |- (do h <- sx_arr 8 ?a; _) = _ -> _ => destruct (sx_arr 8 a) as [hb|] eqn:E1; [|discriminate] end.
    cbn [option_bind].
    match goal with |- (do u <- sx_arr 4 ?a; _) = _ -> _ => destruct (sx_arr 4 a) as [ub|] eqn:E2; [|discriminate] end.
    cbn [option_bind]. intros H. inversion H; subst. cbn [handle_bytes].
    unfold d4. rewrite !app_length, length_le, (sx_arr_length _ _ _ E1), (sx_arr_length _ _ _ E2). reflexivity.
  - destruct (pci_ok _ _); [|discriminate]. cbn [option_bind]. intros H. inversion H; subst. cbn [handle_bytes].
    unfold b1, w2, d4, q8. rewrite !app_length, !length_le. reflexivity.
  - intros H. inversion H; subst. cbn [handle_bytes]. unfold b1, w2, d4, q8. rewrite !app_length, !length_le. reflexivity.
Qed.

Lemma geninit_bytes_length g : length (handle_bytes (gi_handle g)) = 16%nat -> length (geninit_bytes g) = 32%nat.
Proof. intros H. unfold geninit_bytes, b1, d4. rewrite !app_length, !length_le, H. reflexivity. Qed.

Lemma apply_builders_inv {A} (b : A -> sx -> option A) (P : A -> Prop) :
  (forall x o x', P x -> b x o = Some x' -> P x') ->
  forall l x x', P x -> apply_builders b x l = Some x' -> P x'.
Proof.
  intros Hb. induction l as [|o l IH]; intros x x' Hp H; cbn [apply_builders] in H.
  - inversion H; subst. exact Hp.
  - destruct (b x o) as [x1|] eqn:E; [|discriminate]. apply (IH x1); [|exact H]. eapply Hb; eauto.
Qed.

Lemma geninit_builder_handle g o g' : geninit_builder g o = Some g' -> gi_handle g' = gi_handle g.
Proof.
  unfold geninit_builder.
  repeat match goal with |- (match ?x with _ => _ end) = Some _ -> _ => destruct x; try discriminate end;
  intros H; inversion H; subst; reflexivity.
Qed.

Lemma rintc_aff_builder_len f o f' : rintc_aff_builder f o = Some f' -> flds_len f' = flds_len f.
Proof.
  unfold rintc_aff_builder.
  repeat match goal with |- (match ?x with _ => _ end) = Some _ -> _ => destruct x; try discriminate end;
  intros H; inversion H; subst; rewrite ?flds_len_f_or, ?flds_len_fset; reflexivity.
Qed.

Lemma rintc_aff_new_len u clock : length u = 4%nat -> flds_len (rintc_aff_new u clock) = 20%nat.
Proof.
  intros H. unfold rintc_aff_new. rewrite !flds_len_app, flds_len_fbytes, H. reflexivity.
Qed.

(* claimed 40 / 32 / 20 = bytes written *)
Lemma srat_addition_sound s o e : t_kind s = KSrat -> srat_addition s o = Some e ->
  a_claimed e = N.of_nat (length (a_bytes e)) /\
  (needs_pos (t_kind s) = true -> (1 <= length (a_bytes e))%nat /\ a_claimed e < 2 ^ 16).
Proof.
  intros Hk H. split; [|rewrite Hk; discriminate].
  revert H. unfold srat_addition.
  repeat match goal with |- (match ?x with _ => _ end) = Some _ -> _ => destruct x; try discriminate end.
  - (* RINTC affinity *)
    match goal with |- (do u <- sx_arr 4 ?X; _) = _ -> _ => destruct (sx_arr 4 X) as [u|] eqn:Eu; [|discriminate] end.
    cbn [option_bind].
    match goal with |- (do f <- ?X; _) = _ -> _ => destruct X as [f|] eqn:Ef; [|discriminate] end.
    cbn [option_bind]. intros H. inversion H; subst; cbn [a_claimed a_bytes].
    rewrite ser_flds_length.
    apply (apply_builders_inv rintc_aff_builder (fun f => flds_len f = 20%nat)) in Ef.
    + rewrite Ef. reflexivity.
    + intros x o x' Hx Hb. rewrite (rintc_aff_builder_len _ _ _ Hb). exact Hx.
    + apply rintc_aff_new_len. eapply sx_arr_length; eauto.
  - (* generic initiator *)
    match goal with |- (do hd <- sx_handle ?X; _) = _ -> _ => destruct (sx_handle X) as [hd|] eqn:Eh; [|discriminate] end.
    cbn [option_bind].
    match goal with |- (do g <- ?X; _) = _ -> _ => destruct X as [g|] eqn:Eg; [|discriminate] end.
    cbn [option_bind]. intros H. inversion H; subst; cbn [a_claimed a_bytes].
    rewrite geninit_bytes_length; [reflexivity|].
    assert (Hg : gi_handle g = hd).
    { apply (apply_builders_inv geninit_builder (fun g => gi_handle g = hd)) in Eg; [exact Eg| |reflexivity].
      intros x o x' Hx Hb. rewrite (geninit_builder_handle _ _ _ Hb). exact Hx. }
    rewrite Hg. eapply sx_handle_length; eauto.
  - (* memory affinity *)
    match goal with |- (do m <- ?X; _) = _ -> _ => destruct X as [m|]; [|discriminate] end.
    cbn [option_bind]. intros H. inversion H; subst; cbn [a_claimed a_bytes]. now rewrite memaff_bytes_length.
Qed.

Definition srat_table : addtable :=
  {| at_name := [83; 82; 65; 84]; at_kind := KSrat; at_new := srat_new; at_entry := srat_addition;
     at_new_inv := srat_new_inv; at_sound := srat_addition_sound |}.

(* consequences for the emitted image after every history (the generic theorems of Proofs/Tables.v instantiated) *)
Theorem srat_sum_len md c ops s0 s :
  srat_new c = Some s0 -> run_adds srat_addition md s0 ops = Some s -> N.of_nat (length (tbl_image s)) < 2 ^ 32 ->
  sum8 (tbl_image s) = 0 /\ Spec.Layout.field_at (tbl_image s) 4 4 = N.of_nat (length (tbl_image s)).
Proof.
  intros Hn Hr Hfit. destruct (addtable_reach srat_table md c ops s0 s Hn Hr Hfit) as [I _].
  split; [apply inv_sum8_zero|apply image_len_field]; assumption.
Qed.
