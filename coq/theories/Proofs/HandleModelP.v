(* C05 about the Impl MODEL image, for the four handle tables (PPTT RHCT RIMT VIOT), both build modes.
   The refinement theorems (Props/C04.v: c04_<t>_refines = <t>_refines) say that for every in-domain history the model accepts
   and emits the reference image; the reference theorems (Proofs/*WalkRefP.v, Proofs/HandleFieldsP.v) say what the reference
   image contains.  Combined here:
     <t>_model_handles   for every in-domain history pre ++ o :: post the model accepts it, the number it reports for o is --
                         when the API returns a handle for o -- the offset at which the walk over the image of the WHOLE
                         history finds the node added by o (entry number |pre|), and 0 when the API returns nothing;
     <t>_model_fields    in that image every reference field of o's node holds the offset of the node it refers to
                         (<t>_refs_hold of Proofs/HandleFieldsP.v, about tbl_image of the final model state). *)
From Coq Require Import NArith ZArith List Lia Bool Arith.
From ACPI Require Import Lib.Bytes Lib.Sx Lib.Machine Impl.Checksum Impl.Table Impl.Fields Impl.Run Impl.Madt
  Impl.Pptt Impl.Rhct Impl.Rimt Impl.Viot
  Spec.Layout Spec.MadtS Spec.HmatS Spec.PpttS Spec.RhctS Spec.RimtS Spec.ViotS
  Proofs.ChecksumP Proofs.TableP Proofs.MadtP Proofs.Tables Proofs.PpttP Proofs.RhctP Proofs.RimtP Proofs.ViotP
  Proofs.WalkP Proofs.WalkRefCommon2P Proofs.RefFieldCommonP
  Proofs.PpttRefP Proofs.RhctRefP Proofs.RimtRefP Proofs.ViotRefP
  Proofs.PpttWalkRefP Proofs.RhctWalkRefP Proofs.RimtWalkRefP Proofs.ViotWalkRefP Proofs.HandleFieldsP.
Import ListNotations.

Ltac Zify.zify_post_hook ::= Z.to_euclidean_division_equations.

Open Scope N_scope.

Lemma run_adds_split entry md : forall pre l post s0 s',
  run_adds entry md s0 (pre ++ SL l :: post) = Some s' ->
  exists s s1 evs, run_adds entry md s0 pre = Some s /\ add_step entry md s (SL l) = Some (s1, evs) /\
                   run_adds entry md s1 post = Some s'.
Proof.
  induction pre as [|o pre IH]; intros l post s0 s' H; cbn [app run_adds] in H |- *.
  - destruct (add_step entry md s0 (SL l)) as [[s1 evs]|] eqn:E; [|discriminate H]. exists s0, s1, evs. auto.
  - destruct o as [n|lo]; [exact (IH _ _ _ _ H)|].
    destruct (add_step entry md s0 (SL lo)) as [[s1 evs]|]; [|discriminate H]. exact (IH _ _ _ _ H).
Qed.

(* ---------- generic: refinement + the reference image cut at one operation + the model's handle theorem ---------- *)
Section ModelHandles.
  Variable T : addtable.
  Variable ts : tspec.
  Variable first : nat.
  Variable eh : ehdr.
  Variable tyf : list N -> N.
  Hypothesis refines : forall md ctor ops r, ts_image ts ctor ops = Some r -> N.of_nat (length r) < 2 ^ 32 ->
    exists s0 s, at_new T ctor = Some s0 /\ run_adds (at_entry T) md s0 ops = Some s /\ tbl_image s = r.
  Hypothesis split_at : forall ctor pre o post r, ts_image ts ctor (pre ++ o :: post) = Some r ->
    exists es1 e tail r1,
      (exists l, o = SL l) /\ length es1 = length pre /\ length tail = length post /\
      skipn first r = concat (es1 ++ e :: tail) /\
      Forall (fun x => self_describing eh x (tyf x)) (es1 ++ e :: tail) /\
      ts_image ts ctor pre = Some r1 /\ length r1 = (first + length (concat es1))%nat /\ (length r1 <= length r)%nat.
  Hypothesis returns_agree : forall s o e, at_entry T s o = Some e -> a_returns e = ts_returns ts o.

  Theorem model_handles_gen md ctor pre o post r :
    ts_image ts ctor (pre ++ o :: post) = Some r -> N.of_nat (length r) < 2 ^ 32 ->
    exists s0 s s1 s' h found,
      at_new T ctor = Some s0 /\ run_adds (at_entry T) md s0 pre = Some s /\
      add_step (at_entry T) md s o = Some (s1, [EvNum h]) /\ run_adds (at_entry T) md s1 post = Some s' /\
      tbl_image s' = r /\
      walk (S (length (tbl_image s'))) eh first (skipn first (tbl_image s')) = Some found /\
      length found = length (pre ++ o :: post) /\
      exists ty off len, nth_error found (length pre) = Some (ty, off, len) /\
        h = if ts_returns ts o then N.of_nat off else 0.
  Proof.
    intros H Hfit.
    destruct (split_at ctor pre o post r H) as (es1 & e & tail & r1 & [l ->] & Hl1 & Htl & Hsk & HF & Hpre & Hlr1 & Hle).
    destruct (refines md ctor _ r H Hfit) as (s0 & s' & Hn & Hr & Hi).
    destruct (run_adds_split _ md pre l post s0 s' Hr) as (s & s1 & evs & Hrp & Hst & Hrpost).
    assert (Hfit1 : N.of_nat (length r1) < 2 ^ 32) by lia.
    destruct (refines md ctor pre r1 Hpre Hfit1) as (s0' & sp & Hn' & Hrp' & Hi').
    rewrite Hn in Hn'. apply wr_Some_inj in Hn'. subst s0'. rewrite Hrp in Hrp'. apply wr_Some_inj in Hrp'. subst sp.
    destruct (handle_offset_from_ctor T md ctor pre s0 s (SL l) s1 evs post s' Hn Hrp Hst Hrpost) as (a & tl & Ha & Hev & _ & _).
    { rewrite Hi. exact Hfit. }
    destruct (walked_nth r first eh tyf es1 e tail Hsk HF) as [Hw Hnth].
    exists s0, s, s1, s', (if a_returns a then N.of_nat (length (tbl_image s)) else 0),
           (walk_result first (es1 ++ e :: tail) (map tyf (es1 ++ e :: tail))).
    split; [exact Hn|]. split; [exact Hrp|]. split; [rewrite <- Hev; exact Hst|]. split; [exact Hrpost|].
    split; [exact Hi|]. rewrite Hi. split; [exact Hw|].
    split; [rewrite walk_result_length by (now rewrite map_length); rewrite !app_length; cbn [length]; lia|].
    exists (tyf e), (first + length (concat es1))%nat, (length e). split; [rewrite <- Hl1; exact Hnth|].
    rewrite (returns_agree _ _ _ Ha), Hi', Hlr1. reflexivity.
  Qed.

  (* a property of the reference image of every in-domain history is a property of the model's image *)
  Lemma model_image_gen (P : list N -> Prop) md ctor ops r :
    ts_image ts ctor ops = Some r -> N.of_nat (length r) < 2 ^ 32 -> P r ->
    exists s0 s', at_new T ctor = Some s0 /\ run_adds (at_entry T) md s0 ops = Some s' /\ P (tbl_image s').
  Proof.
    intros H Hfit HP. destruct (refines md ctor ops r H Hfit) as (s0 & s' & Hn & Hr & Hi).
    exists s0, s'. split; [exact Hn|]. split; [exact Hr|]. rewrite Hi. exact HP.
  Qed.
End ModelHandles.

Ltac peel H :=
  repeat match type of H with option_bind ?x _ = Some _ => destruct x; cbn [option_bind] in H; [|discriminate H] end.

Ltac break_sxm H :=
  repeat match type of H with context [match ?v with _ => _ end] => is_var v; destruct v; try discriminate H end.

(* ================================================= PPTT ================================================= *)
Lemma pptt_returns_agree s o e : pptt_addition s o = Some e -> a_returns e = ts_returns pptt_spec o.
Proof.
  intros H. unfold pptt_addition in H. break_sxm H; peel H; apply wr_Some_inj in H; subst e; reflexivity.
Qed.

Lemma pptt_split_gen ctor pre o post r : ts_image pptt_spec ctor (pre ++ o :: post) = Some r ->
  exists es1 e tail r1,
    (exists l, o = SL l) /\ length es1 = length pre /\ length tail = length post /\
    skipn 36 r = concat (es1 ++ e :: tail) /\
    Forall (fun x => self_describing H_u8_u8 x (pptt_ty x)) (es1 ++ e :: tail) /\
    ts_image pptt_spec ctor pre = Some r1 /\ length r1 = (36 + length (concat es1))%nat /\ (length r1 <= length r)%nat.
Proof.
  intros H. destruct (pptt_split_at ctor pre o post r H) as (p & es1 & e & tail & r1 & _ & _ & He & Hl1 & Htl & Hsk & HF & Hpre & Hlr & Hle).
  exists es1, e, tail, r1. split; [destruct o as [n|l]; [discriminate He|eexists; reflexivity]|].
  repeat (split; [assumption|]). assumption.
Qed.

Theorem pptt_model_handles : forall md ctor pre o post r,
  ts_image pptt_spec ctor (pre ++ o :: post) = Some r -> N.of_nat (length r) < 2 ^ 32 ->
  exists s0 s s1 s' h found,
    pptt_new ctor = Some s0 /\ run_adds pptt_addition md s0 pre = Some s /\
    add_step pptt_addition md s o = Some (s1, [EvNum h]) /\ run_adds pptt_addition md s1 post = Some s' /\
    tbl_image s' = r /\
    walk (S (length (tbl_image s'))) H_u8_u8 36 (skipn 36 (tbl_image s')) = Some found /\
    length found = length (pre ++ o :: post) /\
    exists ty off len, nth_error found (length pre) = Some (ty, off, len) /\
      h = if ts_returns pptt_spec o then N.of_nat off else 0.
Proof.
  exact (model_handles_gen pptt_table pptt_spec 36 H_u8_u8 pptt_ty pptt_refines pptt_split_gen pptt_returns_agree).
Qed.

Theorem pptt_model_fields : forall md ctor pre o post r,
  ts_image pptt_spec ctor (pre ++ o :: post) = Some r -> N.of_nat (length r) < 2 ^ 32 ->
  exists s0 s', pptt_new ctor = Some s0 /\ run_adds pptt_addition md s0 (pre ++ o :: post) = Some s' /\
                pptt_refs_hold (tbl_image s') pre o.
Proof.
  intros md ctor pre o post r H Hfit.
  exact (model_image_gen pptt_table pptt_spec pptt_refines (fun img => pptt_refs_hold img pre o) md ctor _ r H Hfit
           (pptt_reference_fields ctor pre o post r H Hfit)).
Qed.

(* ================================================= RHCT ================================================= *)
Lemma rhct_returns_agree s o e : rhct_addition s o = Some e -> a_returns e = ts_returns rhct_spec o.
Proof.
  intros H. unfold rhct_addition in H. break_sxm H; peel H; apply wr_Some_inj in H; subst e; reflexivity.
Qed.

Lemma rhct_split_gen ctor pre o post r : ts_image rhct_spec ctor (pre ++ o :: post) = Some r ->
  exists es1 e tail r1,
    (exists l, o = SL l) /\ length es1 = length pre /\ length tail = length post /\
    skipn 56 r = concat (es1 ++ e :: tail) /\
    Forall (fun x => self_describing H_u16_u16 x (rhct_ty x)) (es1 ++ e :: tail) /\
    ts_image rhct_spec ctor pre = Some r1 /\ length r1 = (56 + length (concat es1))%nat /\ (length r1 <= length r)%nat.
Proof.
  intros H. destruct (rhct_split_at ctor pre o post r H) as (p & es1 & e & tail & r1 & _ & _ & He & Hl1 & Htl & Hsk & HF & Hpre & Hlr & Hle).
  exists es1, e, tail, r1. split; [destruct o as [n|l]; [discriminate He|eexists; reflexivity]|].
  repeat (split; [assumption|]). assumption.
Qed.

Theorem rhct_model_handles : forall md ctor pre o post r,
  ts_image rhct_spec ctor (pre ++ o :: post) = Some r -> N.of_nat (length r) < 2 ^ 32 ->
  exists s0 s s1 s' h found,
    rhct_new ctor = Some s0 /\ run_adds rhct_addition md s0 pre = Some s /\
    add_step rhct_addition md s o = Some (s1, [EvNum h]) /\ run_adds rhct_addition md s1 post = Some s' /\
    tbl_image s' = r /\
    walk (S (length (tbl_image s'))) H_u16_u16 56 (skipn 56 (tbl_image s')) = Some found /\
    length found = length (pre ++ o :: post) /\
    exists ty off len, nth_error found (length pre) = Some (ty, off, len) /\
      h = if ts_returns rhct_spec o then N.of_nat off else 0.
Proof.
  exact (model_handles_gen rhct_table rhct_spec 56 H_u16_u16 rhct_ty rhct_refines rhct_split_gen rhct_returns_agree).
Qed.

Theorem rhct_model_fields : forall md ctor pre o post r,
  ts_image rhct_spec ctor (pre ++ o :: post) = Some r -> N.of_nat (length r) < 2 ^ 32 ->
  exists s0 s', rhct_new ctor = Some s0 /\ run_adds rhct_addition md s0 (pre ++ o :: post) = Some s' /\
                rhct_refs_hold (tbl_image s') pre o.
Proof.
  intros md ctor pre o post r H Hfit.
  exact (model_image_gen rhct_table rhct_spec rhct_refines (fun img => rhct_refs_hold img pre o) md ctor _ r H Hfit
           (rhct_reference_fields ctor pre o post r H Hfit)).
Qed.

(* ================================================= RIMT ================================================= *)
Lemma rimt_returns_agree s o e : rimt_addition s o = Some e -> a_returns e = ts_returns rimt_spec o.
Proof.
  intros H. unfold rimt_addition in H. break_sxm H; cbv zeta in H; peel H; apply wr_Some_inj in H; subst e; reflexivity.
Qed.

Lemma rimt_split_gen ctor pre o post r : ts_image rimt_spec ctor (pre ++ o :: post) = Some r ->
  exists es1 e tail r1,
    (exists l, o = SL l) /\ length es1 = length pre /\ length tail = length post /\
    skipn 48 r = concat (es1 ++ e :: tail) /\
    Forall (fun x => self_describing H_u8_x_u16 x (sp_ty x)) (es1 ++ e :: tail) /\
    ts_image rimt_spec ctor pre = Some r1 /\ length r1 = (48 + length (concat es1))%nat /\ (length r1 <= length r)%nat.
Proof.
  intros H. destruct (rimt_split_at ctor pre o post r H)
    as (n & rs & es1 & e & tail & r1 & _ & _ & _ & He & Hl1 & Htl & Hsk & HF & Hpre & Hlr & Hle).
  exists es1, e, tail, r1. split; [destruct o as [v|l]; [discriminate He|eexists; reflexivity]|].
  repeat (split; [assumption|]). assumption.
Qed.

Theorem rimt_model_handles : forall md ctor pre o post r,
  ts_image rimt_spec ctor (pre ++ o :: post) = Some r -> N.of_nat (length r) < 2 ^ 32 ->
  exists s0 s s1 s' h found,
    rimt_new ctor = Some s0 /\ run_adds rimt_addition md s0 pre = Some s /\
    add_step rimt_addition md s o = Some (s1, [EvNum h]) /\ run_adds rimt_addition md s1 post = Some s' /\
    tbl_image s' = r /\
    walk (S (length (tbl_image s'))) H_u8_x_u16 48 (skipn 48 (tbl_image s')) = Some found /\
    length found = length (pre ++ o :: post) /\
    exists ty off len, nth_error found (length pre) = Some (ty, off, len) /\
      h = if ts_returns rimt_spec o then N.of_nat off else 0.
Proof.
  exact (model_handles_gen rimt_table rimt_spec 48 H_u8_x_u16 sp_ty rimt_refines rimt_split_gen rimt_returns_agree).
Qed.

Theorem rimt_model_fields : forall md ctor pre o post r,
  ts_image rimt_spec ctor (pre ++ o :: post) = Some r -> N.of_nat (length r) < 2 ^ 32 ->
  exists s0 s', rimt_new ctor = Some s0 /\ run_adds rimt_addition md s0 (pre ++ o :: post) = Some s' /\
                rimt_refs_hold (tbl_image s') pre o.
Proof.
  intros md ctor pre o post r H Hfit.
  exact (model_image_gen rimt_table rimt_spec rimt_refines (fun img => rimt_refs_hold img pre o) md ctor _ r H Hfit
           (rimt_reference_fields ctor pre o post r H Hfit)).
Qed.

(* ================================================= VIOT ================================================= *)
(* the VIOT Spec bounds the table by 2^16 (node offsets are 16 bits wide), so no size hypothesis is needed *)
Lemma viot_returns_agree s o e : viot_addition s o = Some e -> a_returns e = ts_returns viot_spec o.
Proof.
  intros H. unfold viot_addition in H. break_sxm H; peel H; apply wr_Some_inj in H; subst e; reflexivity.
Qed.

Lemma viot_refines32 : forall md ctor ops r, ts_image viot_spec ctor ops = Some r -> N.of_nat (length r) < 2 ^ 32 ->
  exists s0 s, viot_new ctor = Some s0 /\ run_adds viot_addition md s0 ops = Some s /\ tbl_image s = r.
Proof. intros md ctor ops r H _. exact (viot_refines md ctor ops r H). Qed.

Lemma viot_split_gen ctor pre o post r : ts_image viot_spec ctor (pre ++ o :: post) = Some r ->
  exists es1 e tail r1,
    (exists l, o = SL l) /\ length es1 = length pre /\ length tail = length post /\
    skipn 48 r = concat (es1 ++ e :: tail) /\
    Forall (fun x => self_describing H_u8_x_u16 x (sp_ty x)) (es1 ++ e :: tail) /\
    ts_image viot_spec ctor pre = Some r1 /\ length r1 = (48 + length (concat es1))%nat /\ (length r1 <= length r)%nat.
Proof.
  intros H. destruct (viot_split_at ctor pre o post r H)
    as (n & rs & es1 & e & tail & r1 & _ & _ & _ & He & Hl1 & Htl & Hsk & HF & Hpre & Hlr & Hle & _).
  exists es1, e, tail, r1. split; [destruct o as [v|l]; [discriminate He|eexists; reflexivity]|].
  repeat (split; [assumption|]). assumption.
Qed.

Lemma viot_image_small ctor ops r : ts_image viot_spec ctor ops = Some r -> N.of_nat (length r) < 2 ^ 32.
Proof.
  intros H. destruct (viot_image_shape2 ctor ops r H) as (o & t & rr & ha & es & _ & _ & _ & Hsmall & Ho & Ht & ->).
  rewrite (length_ref_table' [86; 73; 79; 84] 1 ha _ eq_refl Ho Ht), !app_length, !length_le.
  change (2 ^ 16) with 65536 in Hsmall. change (2 ^ 32) with 4294967296. lia.
Qed.

Theorem viot_model_handles : forall md ctor pre o post r,
  ts_image viot_spec ctor (pre ++ o :: post) = Some r ->
  exists s0 s s1 s' h found,
    viot_new ctor = Some s0 /\ run_adds viot_addition md s0 pre = Some s /\
    add_step viot_addition md s o = Some (s1, [EvNum h]) /\ run_adds viot_addition md s1 post = Some s' /\
    tbl_image s' = r /\
    walk (S (length (tbl_image s'))) H_u8_x_u16 48 (skipn 48 (tbl_image s')) = Some found /\
    length found = length (pre ++ o :: post) /\
    exists ty off len, nth_error found (length pre) = Some (ty, off, len) /\
      h = if ts_returns viot_spec o then N.of_nat off else 0.
Proof.
  intros md ctor pre o post r H.
  exact (model_handles_gen viot_table viot_spec 48 H_u8_x_u16 sp_ty viot_refines32 viot_split_gen viot_returns_agree
           md ctor pre o post r H (viot_image_small _ _ _ H)).
Qed.

Theorem viot_model_fields : forall md ctor pre o post r,
  ts_image viot_spec ctor (pre ++ o :: post) = Some r ->
  exists s0 s', viot_new ctor = Some s0 /\ run_adds viot_addition md s0 (pre ++ o :: post) = Some s' /\
                viot_refs_hold (tbl_image s') pre o.
Proof.
  intros md ctor pre o post r H.
  exact (model_image_gen viot_table viot_spec viot_refines32 (fun img => viot_refs_hold img pre o) md ctor _ r H
           (viot_image_small _ _ _ H) (viot_reference_fields ctor pre o post r H)).
Qed.

Print Assumptions pptt_model_handles.
Print Assumptions pptt_model_fields.
Print Assumptions rhct_model_handles.
Print Assumptions rhct_model_fields.
Print Assumptions rimt_model_handles.
Print Assumptions rimt_model_fields.
Print Assumptions viot_model_handles.
Print Assumptions viot_model_fields.
