(* RIMT, property C03, per-entry part: the reference image of every in-domain history passes the self-check
   (IOMMU: interrupt wire count and wire array offset; PCIe root complex: ID mapping count and mapping array offset;
   platform device: mapping array offset = 12 + name + NUL, NUL in place, mapping count -- all against the device length). *)
From Coq Require Import NArith ZArith List Lia Bool Arith ZifyBool ZifyNat ZifyN.
From ACPI Require Import Lib.Bytes Lib.Sx Spec.Layout Spec.RimtS Spec.SelfCheck Judge
  Proofs.WalkP Proofs.WalkRefCommon2P Proofs.RimtRefP Proofs.RimtWalkRefP Proofs.SelfCommonP.
Import ListNotations.

Ltac Zify.zify_post_hook ::= Z.to_euclidean_division_equations.

Open Scope N_scope.

Lemma rimt_entry_self_ok n rs o e : rimt_entry_ref n rs o = Some e -> entry_self_ok 18 (rimt_ty e) e = true.
Proof.
  intros H. pose proof (rimt_entry_self n rs o e H) as [Hpos _].
  unfold rimt_ty. rewrite (nth0_field e Hpos). clear Hpos.
  unfold rimt_entry_ref in H. cbn [entry_self_ok].
  destruct o as [|l]; [discriminate H|]. destruct l as [|[op|] l]; try discriminate H.
  destruct op as [|op]; try discriminate H.
  repeat (destruct op as [op|op|]; try discriminate H).
  - (* 3: platform device *)
    destruct l as [|[id|] [|name [|maps [|]]]]; try discriminate H.
    destruct (sx_bytes name) as [nm|]; [|discriminate H].
    destruct (rimt_opt_list (rimt_map_ref n rs) maps) as [ms|] eqn:Ems; [|discriminate H]. cbv zeta in H.
    apply rimt_fits_some in H. destruct H as [Hfit H]. apply N.leb_le in Hfit.
    destruct (option_map_app_decodes _ _ _ _ H) as [Hlen Hf].
    destruct (option_map_app_split _ _ _ _ H) as (fixed & Hfx & He).
    rewrite !app_length, map_length, (rimt_maps_length _ _ _ _ Ems) in Hlen. cbn [length] in Hlen.
    rewrite (Hf 0%nat 1%nat 2) by (cbn [In L]; try tauto; lia).
    change (2 mod 2 ^ (8 * N.of_nat 1)) with 2. cbn [rimt_self].
    rewrite (Hf 8%nat 2%nat (N.of_nat (12 + length nm + 1))) by (cbn [In L]; try tauto; lia).
    rewrite (Hf 10%nat 2%nat (N.of_nat (length ms))) by (cbn [In L]; try tauto; lia).
    rewrite pow8_2, !N.mod_small by lia.
    assert (H1 : (13 <=? N.of_nat (12 + length nm + 1)) = true) by (apply N.leb_le; lia).
    assert (H2 : (lenN e =? N.of_nat (12 + length nm + 1) + 20 * N.of_nat (length ms)) = true).
    { unfold lenN. rewrite Hlen. apply N.eqb_eq. lia. }
    assert (H3 : (byte_at e (N.of_nat (12 + length nm + 1) - 1) =? 0) = true).
    { rewrite He. cbn [app]. rewrite app_assoc. rewrite byte_at_here; [reflexivity| |lia].
      rewrite app_length, map_length, Hfx. lia. }
    rewrite H1, H2, H3. reflexivity.
  - (* 2: PCIe root complex *)
    destruct l as [|[id|] [|[seg|] [|[ats|] [|[pri|] [|maps [|]]]]]]; try discriminate H.
    destruct (rimt_opt_list (rimt_map_ref n rs) maps) as [ms|] eqn:Ems; [|discriminate H]. cbv zeta in H.
    apply rimt_fits_some in H. destruct H as [Hfit H]. apply N.leb_le in Hfit.
    destruct (option_map_app_decodes _ _ _ _ H) as [Hlen Hf].
    rewrite (rimt_maps_length _ _ _ _ Ems) in Hlen.
    rewrite (Hf 0%nat 1%nat 1) by (cbn [In L]; try tauto; lia).
    change (1 mod 2 ^ (8 * N.of_nat 1)) with 1. cbn [rimt_self].
    rewrite (Hf 14%nat 2%nat (N.of_nat (length ms))) by (cbn [In L]; try tauto; lia).
    rewrite (Hf 12%nat 2%nat 16) by (cbn [In L]; try tauto; lia).
    rewrite pow8_2, !N.mod_small by lia.
    assert (H2 : (lenN e =? 16 + 20 * N.of_nat (length ms)) = true).
    { unfold lenN. rewrite Hlen. apply N.eqb_eq. lia. }
    rewrite H2. reflexivity.
  - (* 1: IOMMU *)
    destruct l as [|[id|] [|base [|pci [|prox [|wires [|]]]]]]; try discriminate H.
    destruct (sp_opt base) as [b|]; [|discriminate H].
    destruct (rimt_pci_ref pci) as [pc|]; [|discriminate H].
    destruct (sp_opt prox) as [px|]; [|discriminate H].
    destruct (rimt_opt_list rimt_wire_ref wires) as [ws|] eqn:Ews; [|discriminate H]. cbv zeta in H.
    apply rimt_fits_some in H. destruct H as [Hfit H]. apply N.leb_le in Hfit.
    destruct (option_map_app_decodes _ _ _ _ H) as [Hlen Hf].
    rewrite (rimt_wires_length _ _ Ews) in Hlen.
    rewrite (Hf 0%nat 1%nat 0) by (cbn [In L]; try tauto; lia).
    change (0 mod 2 ^ (8 * N.of_nat 1)) with 0. cbn [rimt_self].
    rewrite (Hf 28%nat 2%nat (N.of_nat (length ws))) by (cbn [In L]; try tauto; lia).
    rewrite (Hf 30%nat 2%nat 32) by (cbn [In L]; try tauto; lia).
    rewrite pow8_2, !N.mod_small by lia.
    assert (H2 : (lenN e =? 32 + 8 * N.of_nat (length ws)) = true).
    { unfold lenN. rewrite Hlen. apply N.eqb_eq. lia. }
    rewrite H2. reflexivity.
Qed.

(* no size hypothesis: the device COUNT of the table (a 32-bit field) is not part of the per-entry check *)
Theorem rimt_selfcheck : forall ctor ops r, ts_image rimt_spec ctor ops = Some r -> c03_self 18 r = true.
Proof.
  intros ctor ops r H.
  destruct (rimt_image_shape ctor ops r H) as (ha & es & Ees & Ho & Ht & ->).
  unfold c03_self. change (ts_walk (spec_of 18)) with (Some (48%nat, H_u8_x_u16)).
  apply (c03_self_at_ref 18 48%nat H_u8_x_u16 rimt_ty); try assumption; try reflexivity.
  - apply (sp_entries_forall rimt_entry_ref _ rimt_entry_self ops _ _ _ _ es Ees). constructor.
  - apply (sp_entries_forall rimt_entry_ref _ rimt_entry_self_ok ops _ _ _ _ es Ees). constructor.
Qed.

Print Assumptions rimt_selfcheck.
