(* C14, the two remaining built-in sinks (Sdt, PackageBuilder) and raw form = serialised form. *)
From Coq Require Import NArith ZArith List Lia Bool Arith.
From ACPI Require Import Lib.Bytes Lib.Sx Lib.Machine Impl.Checksum Impl.Fields Impl.Sink Impl.Sdt Impl.Gas Impl.Sink2
  Spec.Layout Spec.SdtS Proofs.ChecksumP Proofs.SinkP Proofs.SdtP Proofs.BitsP.
Import ListNotations.
Open Scope N_scope.

(* ================= 1. impl AmlSink for Sdt ================= *)

(* the default `vec` of the trait, instantiated at Sdt, is the loop Impl/Sdt.v already carries for its ops 5 and 6 *)
Lemma sdt_sink_bytes_vec md l : forall s, sdt_sink_bytes md s l = sdt_sink_vec md s l.
Proof. induction l as [|b r IH]; intros s; [reflexivity|]. cbn [sdt_sink_bytes sdt_sink_vec]. unfold sdt_sink_byte.
  destruct (sdt_append md s 1 b); cbn [option_bind]; [apply IH|reflexivity]. Qed.

Lemma sdt_sink_bytes_app md a : forall s b,
  sdt_sink_bytes md s (a ++ b) = (do d <- sdt_sink_bytes md s a; sdt_sink_bytes md d b).
Proof.
  induction a as [|x a IH]; intros s b; [reflexivity|]. cbn [app sdt_sink_bytes].
  destruct (sdt_sink_byte md s x); cbn [option_bind]; [apply IH|reflexivity].
Qed.

Lemma sdt_sink_call_flat md s c : sdt_sink_call md s c = sdt_sink_bytes md s (call_bytes c).
Proof.
  destruct c; cbn [sdt_sink_call call_bytes sdt_sink_bytes]; try reflexivity.
  destruct (sdt_sink_byte md s b); reflexivity.
Qed.

(* (a) the Sdt sink observes only the flattened stream, one `append::<u8>` per byte *)
Lemma run_sdt_bytes md t : forall s, run_sdt md s t = sdt_sink_bytes md s (flatten t).
Proof.
  induction t as [|c t IH]; intros s; [reflexivity|]. unfold flatten in *. cbn [run_sdt map concat].
  rewrite sdt_sink_bytes_app, sdt_sink_call_flat.
  destruct (sdt_sink_bytes md s (call_bytes c)); cbn [option_bind]; [apply IH|reflexivity].
Qed.

Lemma fold_append_byte_none md l : fold_left (sdt_append_byte md) l None = None.
Proof. induction l as [|b r IH]; [reflexivity|]. cbn [fold_left]. exact IH. Qed.

Lemma sdt_sink_bytes_fold md l : forall s, sdt_sink_bytes md s l = fold_left (sdt_append_byte md) l (Some s).
Proof.
  induction l as [|b r IH]; intros s; [reflexivity|]. cbn [sdt_sink_bytes fold_left]. unfold sdt_append_byte at 2. cbn [option_bind].
  destruct (sdt_sink_byte md s b); cbn [option_bind]; [apply IH|now rewrite fold_append_byte_none].
Qed.

Lemma run_sdt_flat md t s : run_sdt md s t = fold_left (sdt_append_byte md) (flatten t) (Some s).
Proof. rewrite run_sdt_bytes. apply sdt_sink_bytes_fold. Qed.

Lemma run_sdt_chunking md t1 t2 s : flatten t1 = flatten t2 -> run_sdt md s t1 = run_sdt md s t2.
Proof. intros H. rewrite !run_sdt_bytes, H. reflexivity. Qed.

(* the Sdt sink is an instance of the generic byte-only sink of Impl/Sink.v over the state type `option sdt_state` *)
Lemma run_sdt_default md t s : run_sdt md s t = run_default (sdt_append_byte md) (Some s) t.
Proof. rewrite run_sdt_flat, run_default_flat. reflexivity. Qed.

(* ---- what the image of an append looks like (from the C13 lemmas) ---- *)
Lemma nth_sappend v bs i : (36 <= length v)%nat -> i <> 9%nat -> ~ (4 <= i < 8)%nat ->
  nth i (sappend v bs) 0 = nth i (v ++ bs) 0.
Proof.
  intros Hv H9 H48. unfold sappend.
  set (L := d4 (N.of_nat (length v + length bs))).
  assert (HL : length L = 4%nat) by (unfold L, d4; apply length_le).
  assert (Hfit : (4 + length L <= length (v ++ bs))%nat) by (rewrite app_length, HL; lia).
  destruct (agree9_update_checksum (write_at (v ++ bs) 4 L)) as [_ Hn]; [rewrite length_write_at by exact Hfit; rewrite app_length; lia|].
  rewrite Hn by exact H9. rewrite nth_write_at by exact Hfit. rewrite HL.
  destruct (Nat.leb_spec 4 i); cbn [andb]; [|reflexivity]. destruct (Nat.ltb_spec i (4 + 4)); [lia|reflexivity].
Qed.

Lemma length_field_sappend v bs : (36 <= length v)%nat ->
  field_at (sappend v bs) 4 4 = N.of_nat (length v + length bs) mod 2 ^ 32.
Proof.
  intros Hv. unfold field_at.
  set (L := d4 (N.of_nat (length v + length bs))).
  assert (HL : length L = 4%nat) by (unfold L, d4; apply length_le).
  assert (E : firstn 4 (skipn 4 (sappend v bs)) = L).
  { apply (nth_ext _ _ 0 0).
    - rewrite firstn_length, skipn_length, length_sappend, HL by lia. lia.
    - intros i Hi. rewrite firstn_length, skipn_length, length_sappend in Hi by lia.
      assert (Hi4 : (i < 4)%nat) by lia.
      rewrite nth_firstn' by exact Hi4. rewrite nth_skipn'. unfold sappend. fold L.
      assert (Hfit : (4 + length L <= length (v ++ bs))%nat) by (rewrite app_length, HL; lia).
      destruct (agree9_update_checksum (write_at (v ++ bs) 4 L)) as [_ Hn]; [rewrite length_write_at by exact Hfit; rewrite app_length; lia|].
      rewrite Hn by lia. rewrite nth_write_at by exact Hfit. rewrite HL.
      destruct (Nat.leb_spec 4 (4 + i)); [|lia]. destruct (Nat.ltb_spec (4 + i) (4 + 4)); [|lia]. cbn [andb].
      f_equal. lia. }
  rewrite E. unfold L, d4. rewrite unle_le. reflexivity.
Qed.

Lemma sum8_sappend v bs : (36 <= length v)%nat -> sum8 (sappend v bs) = 0.
Proof.
  intros Hv. unfold sappend. apply update_checksum_sums.
  rewrite length_write_at; rewrite ?app_length; unfold d4; rewrite ?length_le; lia.
Qed.

(* the table one obtains by appending `bs` to `v`: the bytes of v ++ bs outside Length and Checksum, Length = size, sum 0 *)
Definition appended_image (v bs img : list N) : Prop :=
  length img = (length v + length bs)%nat /\
  (forall i, i <> 9%nat -> ~ (4 <= i < 8)%nat -> nth i img 0 = nth i (v ++ bs) 0) /\
  field_at img 4 4 = N.of_nat (length img) /\
  sum8 img = 0.

Lemma sappend_appended_image v bs : (36 <= length v)%nat -> N.of_nat (length v + length bs) < 2 ^ 32 ->
  appended_image v bs (sappend v bs).
Proof.
  intros Hv Hsz. unfold appended_image. rewrite length_sappend by lia. repeat split.
  - intros i H9 H48. now apply nth_sappend.
  - rewrite length_field_sappend by exact Hv. apply N.mod_small. exact Hsz.
  - now apply sum8_sappend.
Qed.

(* a table whose header is already up to date: re-deriving Length and Checksum changes nothing *)
Definition sdt_canon (v : list N) : Prop := sappend v [] = v.

Lemma sappend_canon v a : (36 <= length v)%nat -> sdt_canon (sappend v a).
Proof. intros H. unfold sdt_canon. rewrite sappend_sappend by exact H. now rewrite app_nil_r. Qed.

Lemma lt32_lt64 n : n < 2 ^ 32 -> n < 2 ^ 64.
Proof. change (2 ^ 32) with 4294967296. change (2 ^ 64) with 18446744073709551616. lia. Qed.

(* (b) a whole trace through the Sdt sink = ONE append_slice of its flattened bytes *)
Lemma run_sdt_sappend md v t :
  (36 <= length v)%nat -> bytes_ok (flatten t) = true -> N.of_nat (length v + length (flatten t)) < 2 ^ 64 ->
  flatten t <> [] -> run_sdt md v t = Some (sappend v (flatten t)).
Proof.
  intros Hv Hb Hsz Hne. rewrite run_sdt_bytes, sdt_sink_bytes_vec. now apply sink_vec_refines.
Qed.

Lemma run_sdt_is_append_slice md v t :
  (36 <= length v)%nat -> bytes_ok (flatten t) = true -> N.of_nat (length v + length (flatten t)) < 2 ^ 32 ->
  flatten t <> [] -> run_sdt md v t = sdt_append_slice md v (flatten t).
Proof.
  intros Hv Hb Hsz Hne. apply lt32_lt64 in Hsz.
  rewrite run_sdt_sappend by assumption. symmetry. apply append_slice_refines; [exact Hv|]. lia.
Qed.

(* ... and for a table with an up-to-date header also when the trace delivers no byte at all *)
Lemma run_sdt_is_append_slice_canon md v t :
  (36 <= length v)%nat -> sdt_canon v -> bytes_ok (flatten t) = true -> N.of_nat (length v + length (flatten t)) < 2 ^ 32 ->
  run_sdt md v t = sdt_append_slice md v (flatten t).
Proof.
  intros Hv Hc Hb Hsz. destruct (flatten t) as [|b0 r] eqn:E.
  - rewrite run_sdt_bytes, E. cbn [sdt_sink_bytes]. apply lt32_lt64 in Hsz.
    rewrite append_slice_refines; [now rewrite Hc|exact Hv|cbn [length] in Hsz; lia].
  - rewrite <- E in *. apply run_sdt_is_append_slice; try assumption. rewrite E. discriminate.
Qed.

(* a well-typed trace (bytes are bytes) has a well-typed flattening *)
Definition call_ok (c : scall) : bool :=
  match c with SByte b => is_byte b | SVec l => bytes_ok l | _ => true end.
Definition trace_ok (t : list scall) : bool := forallb call_ok t.

Lemma bytes_ok_app a b : bytes_ok (a ++ b) = (bytes_ok a && bytes_ok b)%bool.
Proof. unfold bytes_ok. apply forallb_app. Qed.

Lemma trace_ok_flat t : trace_ok t = true -> bytes_ok (flatten t) = true.
Proof.
  induction t as [|c t IH]; intros H; [reflexivity|]. unfold flatten in *. cbn [trace_ok forallb map concat] in *.
  apply andb_true_iff in H. destruct H as [Hc Ht]. rewrite bytes_ok_app, (IH Ht), andb_true_r.
  destruct c; cbn [call_ok call_bytes] in *; try apply le_bytes_ok; [|exact Hc].
  unfold bytes_ok. cbn [forallb]. now rewrite Hc.
Qed.

(* ================= 2. impl AmlSink for PackageBuilder ================= *)
Lemma pkgb_call_flat s c : pkgb_call s c = mk_pkgb (pb_data s ++ call_bytes c) (pb_elements s).
Proof. destruct c; reflexivity. Qed.

Lemma run_pkgb_flat t : forall s, run_pkgb s t = mk_pkgb (pb_data s ++ flatten t) (pb_elements s).
Proof.
  induction t as [|c t IH]; intros s; unfold run_pkgb, flatten in *; cbn [fold_left map concat].
  - rewrite app_nil_r. now destruct s.
  - rewrite IH, pkgb_call_flat. cbn [pb_data pb_elements]. now rewrite <- app_assoc.
Qed.

Lemma run_pkgb_data t s : pb_data (run_pkgb s t) = pb_data s ++ flatten t.
Proof. now rewrite run_pkgb_flat. Qed.

Lemma run_pkgb_elements t s : pb_elements (run_pkgb s t) = pb_elements s.
Proof. now rewrite run_pkgb_flat. Qed.

Lemma run_pkgb_chunking t1 t2 s : flatten t1 = flatten t2 -> run_pkgb s t1 = run_pkgb s t2.
Proof. intros H. now rewrite !run_pkgb_flat, H. Qed.

(* the builder's data is what the Vec sink would have collected *)
Lemma run_pkgb_vec t s : pb_data (run_pkgb s t) = run_vec (pb_data s) t.
Proof. now rewrite run_pkgb_data, run_vec_flat. Qed.

(* add_element: the element's bytes are appended, the counter goes up by exactly one *)
Lemma pkgb_add_element_spec s t :
  pkgb_add_element s t = mk_pkgb (pb_data s ++ flatten t) (pb_elements s + 1).
Proof. unfold pkgb_add_element. now rewrite run_pkgb_flat. Qed.

Lemma pkgb_add_elements ts : forall s,
  fold_left pkgb_add_element ts s = mk_pkgb (pb_data s ++ concat (map flatten ts)) (pb_elements s + N.of_nat (length ts)).
Proof.
  induction ts as [|t ts IH]; intros s; cbn [fold_left map concat length].
  - rewrite app_nil_r, N.add_0_r. now destruct s.
  - rewrite IH, pkgb_add_element_spec. cbn [pb_data pb_elements]. rewrite <- app_assoc. f_equal. lia.
Qed.

(* ================= 3. raw form = serialised form ================= *)
(* aml_as_bytes!: the serialiser is one slice call carrying the raw form *)
Lemma as_bytes_ser_flat raw : flatten (as_bytes_ser raw) = raw.
Proof. unfold flatten, as_bytes_ser. cbn [map concat call_bytes]. apply app_nil_r. Qed.

Lemma flds_ser_flat f : flatten (flds_ser f) = ser_flds f.
Proof. apply as_bytes_ser_flat. Qed.

(* GAS: derive and hand-written serialiser agree for every field value (register_bit_width / _offset are u8 fields) *)
Lemma le1 x : le 1 x = [x mod 256].
Proof. reflexivity. Qed.

Lemma gas_raw_is_serialised sp w o a addr : w < 256 -> o < 256 ->
  flatten (gas_ser sp w o a addr) = gas_raw sp w o a addr.
Proof.
  intros Hw Ho. unfold gas_raw, gas_ser, gas_mk, ser_flds, flatten, F.
  cbn [map concat call_bytes fst snd]. rewrite !le1. unfold cast, U8. change (2 ^ 8) with 256.
  rewrite (N.mod_small w 256), (N.mod_small o 256) by assumption. reflexivity.
Qed.

(* without the type hypotheses: the two forms agree once bytes are read as bytes *)
Lemma gas_raw_is_serialised_mod sp w o a addr :
  map (fun b => b mod 256) (flatten (gas_ser sp w o a addr)) = gas_raw sp w o a addr.
Proof.
  unfold gas_raw, gas_ser, gas_mk, ser_flds, flatten, F.
  cbn [map concat call_bytes fst snd app]. rewrite !le1. unfold cast, U8. change (2 ^ 8) with 256.
  rewrite !app_nil_r. cbn [map app]. rewrite !N.mod_mod by lia. repeat f_equal.
  assert (H : bytes_ok (le 8 addr) = true) by apply le_bytes_ok.
  revert H. generalize (le 8 addr). intros l. induction l as [|x l IH]; intros H; [reflexivity|].
  cbn [bytes_ok forallb] in H. apply andb_true_iff in H. destruct H as [Hx Hl]. unfold is_byte in Hx. apply N.ltb_lt in Hx.
  cbn [map]. rewrite N.mod_small by exact Hx. f_equal. now apply IH.
Qed.

Lemma length_gas_raw sp w o a addr : length (gas_raw sp w o a addr) = 12%nat.
Proof. reflexivity. Qed.

(* the byte-sum helper: u8sum(x) = arithmetic sum of the serialised bytes, hence of the raw form *)
Lemma u8sum_of_sum8 t : u8sum_of t = sum8 (flatten t).
Proof. unfold u8sum_of, ck_raw. apply u8sum_is_sum8. Qed.

Lemma u8sum_as_bytes raw : u8sum_of (as_bytes_ser raw) = sum8 raw.
Proof. now rewrite u8sum_of_sum8, as_bytes_ser_flat. Qed.

Lemma u8sum_flds f : u8sum_of (flds_ser f) = sum8 (ser_flds f).
Proof. apply u8sum_as_bytes. Qed.

Lemma u8sum_gas sp w o a addr : w < 256 -> o < 256 ->
  u8sum_of (gas_ser sp w o a addr) = sum8 (gas_raw sp w o a addr).
Proof. intros Hw Ho. now rewrite u8sum_of_sum8, gas_raw_is_serialised. Qed.

(* every sink of the crate receives the raw form when handed the GAS serialiser *)
Lemma gas_into_vec s sp w o a addr : w < 256 -> o < 256 -> run_vec s (gas_ser sp w o a addr) = s ++ gas_raw sp w o a addr.
Proof. intros Hw Ho. now rewrite run_vec_flat, gas_raw_is_serialised. Qed.

Lemma gas_into_pkgb s sp w o a addr : w < 256 -> o < 256 ->
  run_pkgb s (gas_ser sp w o a addr) = mk_pkgb (pb_data s ++ gas_raw sp w o a addr) (pb_elements s).
Proof. intros Hw Ho. now rewrite run_pkgb_flat, gas_raw_is_serialised. Qed.

Lemma gas_into_sdt md v sp w o a addr : w < 256 -> o < 256 -> (36 <= length v)%nat -> N.of_nat (length v + 12) < 2 ^ 32 ->
  run_sdt md v (gas_ser sp w o a addr) = sdt_append_slice md v (gas_raw sp w o a addr).
Proof.
  intros Hw Ho Hv Hsz. rewrite <- (gas_raw_is_serialised sp w o a addr Hw Ho).
  apply run_sdt_is_append_slice; [exact Hv| |rewrite gas_raw_is_serialised by assumption; exact Hsz
                                  |rewrite gas_raw_is_serialised by assumption; discriminate].
  rewrite gas_raw_is_serialised by assumption. unfold gas_raw, gas_mk, ser_flds, F. cbn [map concat fst snd].
  rewrite !bytes_ok_app, !le_bytes_ok. reflexivity.
Qed.

(* the same structure delivered as ONE dword + one qword (header packed with the right shifts) is indistinguishable;
   with a wrong shift it is not -- the equalities above are not vacuous *)
Definition gas_ser_packed (sh : N) (sp w o a addr : N) : list scall :=
  [SDword (N.lor (N.lor (N.lor sp (N.shiftl w 8)) (N.shiftl o 16)) (N.shiftl a sh)); SQword addr].

Example gas_packed_right_shift : flatten (gas_ser_packed 24 0x7F 0x40 0x03 0x04 0x1122334455667788)
                               = gas_raw 0x7F 0x40 0x03 0x04 0x1122334455667788.
Proof. vm_compute. reflexivity. Qed.

Example gas_packed_wrong_shift_refuted : flatten (gas_ser_packed 16 0x7F 0x40 0x03 0x04 0x1122334455667788)
                                      <> gas_raw 0x7F 0x40 0x03 0x04 0x1122334455667788.
Proof. vm_compute. discriminate. Qed.

(* for every field value: packing the four header bytes into one dword with shifts 8 / 16 / 24 delivers the raw form *)
Lemma gas_packed_is_raw sp w o a addr : sp < 256 -> w < 256 -> o < 256 -> a < 256 ->
  flatten (gas_ser_packed 24 sp w o a addr) = gas_raw sp w o a addr.
Proof.
  intros Hs Hw Ho Ha. unfold gas_ser_packed, gas_raw, gas_mk, ser_flds, flatten, F. cbn [map concat call_bytes fst snd].
  rewrite !le1, !N.mod_small by assumption. rewrite app_nil_r. cbn [app]. 
  assert (E : N.lor (N.lor (N.lor sp (N.shiftl w 8)) (N.shiftl o 16)) (N.shiftl a 24) = unle [sp; w; o; a]).
  { rewrite !shiftl_mul. rewrite (lor_disjoint' sp w 8) by exact Hs.
    rewrite (lor_disjoint' (w * 2 ^ 8 + sp) o 16) by (change (2 ^ 8) with 256; change (2 ^ 16) with 65536; lia).
    rewrite (lor_disjoint' _ a 24) by (change (2 ^ 8) with 256; change (2 ^ 16) with 65536; change (2 ^ 24) with 16777216; lia).
    cbn [unle]. change (2 ^ 8) with 256; change (2 ^ 16) with 65536; change (2 ^ 24) with 16777216. lia. }
  rewrite E. change 4%nat with (length [sp; w; o; a]). rewrite le_unle; [reflexivity|].
  unfold bytes_ok, is_byte. cbn [forallb]. 
  apply N.ltb_lt in Hs, Hw, Ho, Ha. now rewrite Hs, Hw, Ho, Ha.
Qed.

(* the Sdt sink modelled here is the one the correspondence harness drives through component 31 (ops 5 and 6 of
   Impl/Sdt.v, compared with the crate on every C13 case): same function *)
Lemma run_sdt_single md v c : run_sdt md v [c] = sdt_sink_vec md v (call_bytes c).
Proof. rewrite run_sdt_bytes, sdt_sink_bytes_vec. unfold flatten. cbn [map concat]. now rewrite app_nil_r. Qed.

Lemma sdt_op6_is_run_sdt md v b bytes : sx_bytes b = Some bytes ->
  sdt_op md v (SL [SA 6; b]) = Some (run_sdt md v [SVec bytes]).
Proof. intros H. cbn [sdt_op]. rewrite H. cbn [option_bind]. now rewrite run_sdt_single. Qed.

Lemma sdt_op5_is_run_sdt md v x :
  sdt_op md v (SL [SA 5; SA 1; SA x]) = Some (run_sdt md v [SByte (x mod 256)]) /\
  sdt_op md v (SL [SA 5; SA 2; SA x]) = Some (run_sdt md v [SWord x]) /\
  sdt_op md v (SL [SA 5; SA 4; SA x]) = Some (run_sdt md v [SDword x]) /\
  sdt_op md v (SL [SA 5; SA 8; SA x]) = Some (run_sdt md v [SQword x]).
Proof. repeat split; cbn [sdt_op width_ok option_bind]; now rewrite run_sdt_single. Qed.
