(* CEDT refinement (property C04 as a theorem): for every constructor argument and every finite history inside the domain of
   Spec/CedtS.v, in both build profiles, the Impl model of cedt.rs accepts the history and serialises exactly the reference image.
   The per-structure lemmas (CHBS, CFMWS, CXIMS, RDPAS: model bytes = reference layout, for all argument values) carry the content;
   the CFMWS lemma includes C11 (the restrictions word is the union of the bits of the builders invoked) through
   Proofs/CedtP.cfmws_restrictions_spec. *)
From Coq Require Import NArith ZArith List Lia Bool Arith.
From ACPI Require Import Lib.Bytes Lib.Sx Lib.Machine Impl.Checksum Impl.Table Impl.Fields Impl.Run Impl.Madt Impl.Cedt
  Spec.Layout Spec.RimtS Spec.CedtS Proofs.ChecksumP Proofs.TableP Proofs.MadtP Proofs.Tables Proofs.RimtP Proofs.CedtP Proofs.BitsP Proofs.RefAddTableP.
Import ListNotations.
Open Scope N_scope.

Lemma chbs_agrees s uid ver base r : cedt_entry_ref (SL [SA 1; SA uid; SA ver; SA base]) = Some r ->
  exists e, cedt_addition s (SL [SA 1; SA uid; SA ver; SA base]) = Some e /\ a_bytes e = r.
Proof.
  cbn [cedt_entry_ref]. intros H.
  destruct ver as [|[p|p|]]; try discriminate H; apply lay_Some in H; subst r;
  (eexists; split; [reflexivity|reflexivity]).
Qed.

Lemma sp_bdf_spec bus dev fn b : sp_bdf bus dev fn = Some b -> pci_ok dev fn = Some tt /\ bdf bus dev fn = b.
Proof.
  unfold sp_bdf, pci_ok, bdf, assert, cast, U16. intros H.
  destruct (N.ltb_spec bus 256); [|discriminate]. destruct (N.ltb_spec dev 32); [|discriminate]. destruct (N.ltb_spec fn 8); [|discriminate].
  cbn [andb] in H. inversion H; subst. cbn [option_bind]. split; [reflexivity|].
  rewrite !N.mod_small by lia. rewrite !shiftl_mul.
  rewrite (lor_disjoint (dev * 2 ^ 3) bus 8) by (change (2 ^ 3) with 8; change (2 ^ 8) with 256; lia).
  replace (bus * 2 ^ 8 + dev * 2 ^ 3) with ((bus * 32 + dev) * 2 ^ 3) by (change (2 ^ 3) with 8; change (2 ^ 8) with 256; lia).
  rewrite (lor_disjoint fn _ 3) by (change (2 ^ 3) with 8; lia).
  change (2 ^ 3) with 8. lia.
Qed.

Lemma rdpas_agrees s seg bus dev fn proto base r :
  let o := SL [SA 4; SA seg; SA bus; SA dev; SA fn; SA proto; SA base] in
  cedt_entry_ref o = Some r -> exists e, cedt_addition s o = Some e /\ a_bytes e = r.
Proof.
  intros o. unfold o. cbn [cedt_entry_ref cedt_addition]. intros H.
  destruct (sp_bdf bus dev fn) as [b|] eqn:Eb; [|discriminate].
  destruct (sp_bdf_spec _ _ _ _ Eb) as [Hp Hb]. apply lay_Some in H. subst r.
  rewrite Hp. cbn [option_bind]. eexists. split; [reflexivity|]. cbn [a_bytes]. rewrite Hb. reflexivity.
Qed.

Lemma cxims_agrees s gran maps r :
  let o := SL [SA 3; SA gran; SL maps] in
  cedt_entry_ref o = Some r -> exists e, cedt_addition s o = Some e /\ a_bytes e = r.
Proof.
  intros o. unfold o. cbn [cedt_entry_ref cedt_addition]. intros H.
  destruct (sx_nums maps) as [ms|]; [|discriminate]. cbn [option_bind].
  destruct (N.of_nat (length ms) <=? 255) eqn:El; [|discriminate]. cbn [assert option_bind].
  destruct (lay 8 _) as [hd|] eqn:Eh; [|discriminate]. cbn [option_map] in H. inversion H; subst r; clear H.
  apply lay_Some in Eh. subst hd.
  eexists. split; [reflexivity|]. cbn [a_bytes]. unfold cxims_bytes, cxims_len.
  replace (8 + 8 * N.of_nat (length ms)) with (N.of_nat (8 + 8 * length ms)) by lia.
  reflexivity.
Qed.

Lemma Forall2_sx_list_all {A} (f : sx -> option A) l es :
  Forall2 (fun o r => f o = Some r) l es -> sx_list_all f l = Some es.
Proof. induction 1 as [|x a l es Hx _ IH]; cbn [sx_list_all]; [reflexivity|]. now rewrite Hx, IH. Qed.

Lemma builders_ok_all builders : cedt_builders_ok builders = true -> exists bits, sx_list_all restr_builder builders = Some bits.
Proof.
  induction builders as [|b bs IH]; intros H; [exists []; reflexivity|].
  cbn [cedt_builders_ok forallb] in H. apply andb_true_iff in H. destruct H as [Hb Hr].
  destruct (IH Hr) as [bits Hbits].
  destruct b as [|[|[k|] [|]]]; try discriminate Hb.
  apply andb_true_iff in Hb. destruct Hb as [H1 H2]. apply N.leb_le in H1. apply N.leb_le in H2.
  assert (Hk : exists v, restr_bit k = Some v).
  { assert (k = 1 \/ k = 2 \/ k = 3 \/ k = 4 \/ k = 5) as [->|[->|[->|[->| ->]]]] by lia; eexists; reflexivity. }
  destruct Hk as [v Hv]. exists (v :: bits). cbn [sx_list_all restr_builder]. now rewrite Hv, Hbits.
Qed.

Lemma cedt_ways_num ways niw : cedt_ways ways = Some niw -> num_ways ways = Some (N.of_nat niw).
Proof.
  unfold cedt_ways, num_ways. intros H.
  repeat match type of H with context [match ?x with _ => _ end] => is_var x; destruct x; try discriminate H end;
  inversion H; subst; reflexivity.
Qed.

Lemma cfmws_agrees s base size arith gran ways qtg builders targets r :
  let o := SL [SA 2; SA base; SA size; SA arith; SA gran; SA ways; SA qtg; SL builders; SL targets] in
  cedt_entry_ref o = Some r -> exists e, cedt_addition s o = Some e /\ a_bytes e = r.
Proof.
  intros o. unfold o. cbn [cedt_entry_ref cedt_addition]. intros H.
  destruct (cedt_ways ways) as [niw|] eqn:Ew; [|discriminate].
  destruct (sp_all cedt_target targets []) as [tg|] eqn:Et; [|discriminate].
  destruct (Nat.eqb (length tg) niw) eqn:El; [|discriminate].
  destruct (cedt_builders_ok builders) eqn:Eb; [|discriminate]. cbn [andb] in H.
  destruct (lay 36 _) as [hd|] eqn:Eh; [|discriminate]. cbn [option_map] in H. inversion H; subst r; clear H.
  apply lay_Some in Eh. apply Nat.eqb_eq in El.
  rewrite (cedt_ways_num _ _ Ew). cbn [option_bind].
  destruct (builders_ok_all _ Eb) as [bits Hbits]. rewrite Hbits. cbn [option_bind].
  destruct (sp_all_Forall2 _ _ _ _ Et) as (tg' & HF & Htg). cbn [rev app] in Htg. subst tg'.
  change cedt_target with (sx_arr 4) in HF.
  rewrite (Forall2_sx_list_all _ _ _ HF). cbn [option_bind].
  rewrite El, N.eqb_refl. cbn [assert option_bind].
  eexists. split; [reflexivity|]. cbn [a_bytes].
  rewrite (cfmws_restrictions_spec _ _ Hbits). subst hd.
  unfold cfmws_bytes, cfmws_len.
  replace (0x24 + 4 * N.of_nat niw) with (N.of_nat (36 + 4 * niw)) by lia.
  reflexivity.
Qed.

(* C11 on the refined image: in the CFMWS the model emits for an in-domain operation, the 16-bit word at offset 32 is the union of
   the bits of the restriction builders invoked (b0 type-2, b1 type-3, b2 volatile, b3 persistent, b4 fixed configuration),
   whatever their order and repetitions *)
Lemma cedt_restrictions_small builders : cedt_restrictions builders < 32.
Proof.
  unfold cedt_restrictions.
  destruct (cedt_invoked 1 builders), (cedt_invoked 2 builders), (cedt_invoked 3 builders), (cedt_invoked 4 builders),
    (cedt_invoked 5 builders); reflexivity.
Qed.

Corollary cfmws_refined_restrictions s base size arith gran ways qtg builders targets r :
  let o := SL [SA 2; SA base; SA size; SA arith; SA gran; SA ways; SA qtg; SL builders; SL targets] in
  cedt_entry_ref o = Some r ->
  exists e, cedt_addition s o = Some e /\ a_bytes e = r /\ field_at (a_bytes e) 32 2 = cedt_restrictions builders.
Proof.
  intros o H. destruct (cfmws_agrees s base size arith gran ways qtg builders targets r H) as (e & He & Hb).
  exists e. split; [exact He|]. split; [exact Hb|]. rewrite Hb. clear He Hb.
  unfold o in H. cbn [cedt_entry_ref] in H.
  destruct (cedt_ways ways) as [niw|]; [|discriminate]. destruct (sp_all cedt_target targets []) as [tg|]; [|discriminate].
  destruct (_ && _); [|discriminate]. destruct (lay 36 _) as [hd|] eqn:Eh; [|discriminate].
  cbn [option_map] in H. apply some_inv in H. subst r. apply lay_Some in Eh. subst hd.
  match goal with |- field_at (assemble ?l ++ ?t) 32 2 = _ =>
    change (field_at (assemble l ++ t) 32 2) with (unle (le 2 (cedt_restrictions builders))) end.
  apply unle_le_small. pose proof (cedt_restrictions_small builders). change (2 ^ (8 * N.of_nat 2)) with 65536. lia.
Qed.

(* the shapes of the operations the specification defines *)
Inductive cedt_shape : sx -> Prop :=
| CS1 uid ver base : cedt_shape (SL [SA 1; SA uid; SA ver; SA base])
| CS2 base size arith gran ways qtg builders targets :
    cedt_shape (SL [SA 2; SA base; SA size; SA arith; SA gran; SA ways; SA qtg; SL builders; SL targets])
| CS3 gran maps : cedt_shape (SL [SA 3; SA gran; SL maps])
| CS4 seg bus dev fn proto base : cedt_shape (SL [SA 4; SA seg; SA bus; SA dev; SA fn; SA proto; SA base]).

Lemma cedt_ref_shape o r : cedt_entry_ref o = Some r -> cedt_shape o.
Proof.
  intros H. unfold cedt_entry_ref in H.
  repeat match type of H with context [match ?x with _ => _ end] => is_var x; destruct x; try discriminate H end;
  constructor.
Qed.

(* every structure type is the reference encoding of the caller's values, for all argument values *)
Theorem cedt_entries_are_reference s o r :
  cedt_entry_ref o = Some r -> exists e, cedt_addition s o = Some e /\ a_bytes e = r.
Proof.
  intros H. destruct (cedt_ref_shape o r H).
  - now apply chbs_agrees.
  - now apply cfmws_agrees.
  - now apply cxims_agrees.
  - now apply rdpas_agrees.
Qed.

Theorem cedt_refines :
  forall md ctor ops r,
    ts_image cedt_spec ctor ops = Some r ->
    N.of_nat (length r) < 2 ^ 32 ->
    exists s0 s, cedt_new ctor = Some s0 /\ run_adds cedt_addition md s0 ops = Some s /\ tbl_image s = r.
Proof.
  intros md ctor ops r H Hfit. cbn [ts_image cedt_spec] in H. unfold cedt_image in H.
  destruct ctor as [|[|o [|t [|r0 [|]]]]]; try discriminate H.
  destruct (sx_hdr_args o t r0) as [ha|] eqn:Ea; [|discriminate H].
  destruct (cedt_entries_ref ops) as [es|] eqn:Ee; [|discriminate H]. inversion H; subst r; clear H.
  destruct (sx_hdr_of_args [67; 69; 68; 84] 1 o t r0 ha Ea) as (Hh & Ho & Ht).
  set (h := {| h_sig := [67; 69; 68; 84]; h_rev := 1; h_oem := ha_oem ha; h_tbl := ha_tbl ha; h_orev := ha_orev ha |}) in *.
  assert (Hnew : cedt_new (SL [o; t; r0]) = Some (tbl_new KCedt h [])).
  { cbn [cedt_new]. rewrite Hh. reflexivity. }
  unfold cedt_entries_ref in Ee. destruct (sp_all_Forall2 _ _ _ _ Ee) as (es' & HF & Hes). cbn [rev app] in Hes. subst es'.
  rewrite length_ref_table in Hfit by (first [reflexivity | assumption]).
  destruct (addtable_refines cedt_table cedt_entry_ref eq_refl (fun _ => eq_refl)
              (fun s o r _ Hr => cedt_entries_are_reference s o r Hr) md (tbl_new KCedt h []) ops es)
    as (s & Hrun & Himg).
  - exact (cedt_new_inv _ _ Hnew).
  - reflexivity.
  - exact HF.
  - cbn [at_kind cedt_table mid length]. lia.
  - exists (tbl_new KCedt h []), s. split; [exact Hnew|]. split; [exact Hrun|].
    rewrite Himg. destruct ha; reflexivity.
Qed.

(* the statement exercised on concrete histories (both sides computed) *)
Definition cedt_both (md : mode) (ctor : sx) (ops : list sx) : option (list N * list N) :=
  match ts_image cedt_spec ctor ops, cedt_new ctor with
  | Some r, Some s0 => match run_adds cedt_addition md s0 ops with Some s => Some (r, tbl_image s) | None => None end
  | _, _ => None
  end.
Definition cedt_demo_ctor : sx := SL [SL (map SA [1; 2; 3; 4; 5; 6]); SL (map SA [1; 2; 3; 4; 5; 6; 7; 8]); SA 77].
Definition cedt_demo_ops : list sx :=
  [SL [SA 1; SA 7; SA 1; SA 0x123456789A];
   SL [SA 2; SA 0x100000000; SA 0x40000000; SA 1; SA 3; SA 1; SA 9; SL [SL [SA 4]; SL [SA 1]; SL [SA 4]];
       SL [SL (map SA [1; 2; 3; 4]); SL (map SA [5; 6; 7; 8])]];
   SL [SA 3; SA 2; SL [SA 0xFFFFFFFFFFFFFFFF; SA 5]];
   SL [SA 4; SA 1; SA 255; SA 31; SA 7; SA 1; SA 0xABCDEF0123]].
Example cedt_refines_demo :
  match cedt_both Checked cedt_demo_ctor cedt_demo_ops, cedt_both Wrapping cedt_demo_ctor [] with
  | Some (a, b), Some (c, d) => list_N_eqb a b && list_N_eqb c d && Nat.eqb (length a) 153
  | _, _ => false
  end = true.
Proof. vm_compute. reflexivity. Qed.

Print Assumptions cedt_refines.
