(* Coherence of the AML oracles with the Impl model (components 40 and 41).

   The property theorems of C06 / C07 / C10 / C15 are about the model ([enc], [norm], [wf]); the executable judgement
   is made by the oracle functions of Spec/AmlTermS.v and Judge.v, which no theorem mentions.  This file closes the gap:
   on a stated domain of case S-expressions the oracle ACCEPTS what the model itself emits,
        oracle prop 40 c (run_case md 40 c) = true   (prop = 6, 7, 10, 15)        oracle 15 41 c (run_case md 41 c) = true,
   so that wherever the correspondence K holds (crate = model on the case) the judgement O cannot raise an alarm.

   Part 1: the two independent readings of a case S-expression -- the model's [term_of_sx] and the Spec's [expect] --
           shape by shape; induction principle for S-expressions.
   Part 2: the leaves where the two readings use different functions (path splitting, EISA ids, UUIDs, field entries,
           descriptors).
   Part 3: [link] -- the Spec's expected tree is the normal form of the term the model encodes.
   Part 4: [EM_all] -- the model does not refuse (decidable check [emitb], size bound [weight]).
   Part 5: [derive] -- [wf] and [emitb] follow from the Spec's own checks, the argument ranges and the arity table.
   Part 6: the oracles accept what the model emits (C06, C07, C10, C15 on components 40 and 41).
   Part 7: the same in terms of [oracle] and [run_case].   Part 8: outside the domain; the size bound is needed. *)
From Coq Require Import NArith ZArith List Lia Bool Arith.
From ACPI Require Import Lib.Bytes Lib.Sx Lib.Machine Impl.AmlCore Impl.AmlTerm Spec.AmlCoreS Spec.AmlTermS
  Proofs.BitsP Proofs.PkgLenP Proofs.IntP Proofs.PathP Proofs.AmlFrameP Proofs.EisaUuidP Proofs.FrameSitesP Proofs.FieldListP
  Spec.DescDecodeS Proofs.DescP Proofs.DescValP Proofs.AmlRoundTrip Judge.
Import ListNotations.
Open Scope N_scope.

(* ------------------------------------------------------------------------------------------------ S-expressions *)
Section SxInd.
  Variable P : sx -> Prop.
  Hypothesis Hatom : forall n, P (SA n).
  Hypothesis Hlist : forall l, Forall P l -> P (SL l).
  Fixpoint sx_ind' (s : sx) : P s :=
    match s with
    | SA n => Hatom n
    | SL l => Hlist l ((fix all (l : list sx) : Forall P l :=
                          match l with [] => Forall_nil P | x :: r => Forall_cons x (sx_ind' x) (all r) end) l)
    end.
End SxInd.

(* the children of a list and the children of its list-valued elements (the vocabulary keeps child lists one level down) *)
Definition deep (P : sx -> Prop) (x : sx) : Prop := match x with SL l => Forall P l | SA _ => True end.

Lemma sx_deep_ind (P : sx -> Prop) :
  (forall n, P (SA n)) -> (forall l, Forall P l -> Forall (deep P) l -> P (SL l)) -> forall s, P s.
Proof.
  intros Ha Hl s.
  assert (H : P s /\ deep P s).
  { induction s as [n|l IH] using sx_ind'; [split; [apply Ha|exact I]|].
    assert (H1 : Forall P l) by (eapply Forall_impl; [|exact IH]; intros a Hq; exact (proj1 Hq)).
    assert (H2 : Forall (deep P) l) by (eapply Forall_impl; [|exact IH]; intros a Hq; exact (proj2 Hq)).
    split; [apply Hl; assumption|exact H1]. }
  exact (proj1 H).
Qed.

(* ------------------------------------------------------------------------------------------------ shapes *)
(* the S-expressions the vocabulary reader accepts, by outermost code *)
Inductive shape : sx -> Prop :=
| sh1 : shape (SL [SA 1]) | sh2 : shape (SL [SA 2]) | sh3 : shape (SL [SA 3])
| sh4 ty n : shape (SL [SA 4; SA ty; SA n])
| sh5 b : shape (SL [SA 5; b]) | sh6 b : shape (SL [SA 6; b]) | sh7 b : shape (SL [SA 7; b]) | sh8 b : shape (SL [SA 8; b])
| sh9 b : shape (SL [SA 9; b]) | sh10 b : shape (SL [SA 10; b]) | sh11 b : shape (SL [SA 11; b])
| sh12 n : shape (SL [SA 12; SA n]) | sh13 n : shape (SL [SA 13; SA n])
| shdesc d : shape (SL (desc_to_sx d))
| sh30 k a : shape (SL [SA 30; SA k; a])
| sh31 k a b : shape (SL [SA 31; SA k; a; b])
| sh32 k t a b : shape (SL [SA 32; SA k; t; a; b])
| sh33 k a b c d : shape (SL [SA 33; SA k; a; b; c; d])
| sh40 p i : shape (SL [SA 40; p; i])
| sh41 p ks : shape (SL [SA 41; p; SL ks]) | sh42 p ks : shape (SL [SA 42; p; SL ks]) | sh43 p ks : shape (SL [SA 43; p; SL ks])
| sh44 p a sr ks : shape (SL [SA 44; p; SA a; SA sr; SL ks])
| sh45 p lv od ks : shape (SL [SA 45; p; SA lv; SA od; SL ks])
| sh46 p sp o ln : shape (SL [SA 46; p; SA sp; o; ln])
| sh47 p sy : shape (SL [SA 47; p; SA sy]) | sh48 p tm : shape (SL [SA 48; p; SA tm]) | sh49 p : shape (SL [SA 49; p])
| sh50 p ks : shape (SL [SA 50; p; SL ks])
| sh51 p ac lk up es : shape (SL [SA 51; p; SA ac; SA lk; SA up; SL es])
| sh60 ks : shape (SL [SA 60; SL ks]) | sh61 ks : shape (SL [SA 61; SL ks]) | sh62 ks : shape (SL [SA 62; SL ks])
| sh63 pr ks : shape (SL [SA 63; pr; SL ks]) | sh64 ks : shape (SL [SA 64; SL ks]) | sh65 pr ks : shape (SL [SA 65; pr; SL ks]).

Ltac crack H :=
  repeat match type of H with
         | context [match ?v with _ => _ end] => is_var v; destruct v; try discriminate H
         end.

Ltac split_pos p n :=
  match n with
  | O => idtac
  | S ?m => destruct p as [p|p|]; [split_pos p m | split_pos p m | idtac]
  end.

(* whatever the reader accepts has one of the shapes *)
Lemma shape_inv c t : term_of_sx c = Some t -> shape c.
Proof.
  intros H. destruct c as [n|l]; [discriminate H|].
  destruct l as [|x r]; [discriminate H|]. destruct x as [k|l']; [|discriminate H].
  destruct k as [|p]; [discriminate H|].
  split_pos p 7%nat; try discriminate H.
  all: simpl in H; crack H.
  all: try (constructor; fail).
  all: first [ exact (shdesc (DMem32 _ _ _)) | exact (shdesc (DAddr _ _ _ _ _ _ None)) | exact (shdesc (DAddr _ _ _ _ _ _ (Some _)))
             | exact (shdesc (DIO _ _ _ _)) | exact (shdesc (DIrq _ _ _ _ _)) | exact (shdesc (DReg _ _ _ _ _)) ].
Qed.

(* ------------------------------------------------------------------------------------------------ child lists by name *)
Lemma terms_fix l :
  (fix terms (l : list sx) : option (list term) :=
     match l with
     | [] => Some []
     | x :: r => match term_of_sx x, terms r with Some a, Some b => Some (a :: b) | _, _ => None end
     end) l = map_opt term_of_sx l.
Proof. induction l as [|x l IH]; [reflexivity|]. cbn [map_opt]. rewrite IH. reflexivity. Qed.

Lemma expects_fix el l :
  (fix expects (el : bool) (l : list sx) : option (list gt) :=
     match l with
     | [] => Some []
     | x :: r => match expect el x, expects el r with Some a, Some b => Some (a :: b) | _, _ => None end
     end) el l = map_opt (expect el) l.
Proof. induction l as [|x l IH]; [reflexivity|]. cbn [map_opt]. rewrite IH. reflexivity. Qed.

Definition tkids (l : list sx) : option (list term) := map_opt term_of_sx l.
Definition ekids (el : bool) (l : list sx) : option (list gt) := map_opt (expect el) l.

Definition name_of (p : sx) : option gt :=
  match sx_bytes p with
  | Some t => match spec_path t with Some (rt, segs) => Some (GName rt segs) | None => None end
  | None => None
  end.

Definition ref_of (d : sx) : option (list N) := match d with SL dl => ref_desc dl | SA _ => None end.

Definition fe_of (e : sx) : option gt :=
  match e with
  | SL [SA 0; nm; SA len] =>
      match sx_bytes nm with Some n => if is_nameseg n && (len <? 2 ^ 28) then Some (GField n len) else None | None => None end
  | SL [SA 1; SA len] => if len <? 2 ^ 28 then Some (GField [] len) else None
  | _ => None
  end.

(* ---- the reader, shape by shape ---- *)
Ltac tos := unfold tkids; rewrite <- ?terms_fix; reflexivity.

Lemma tos30 k a : term_of_sx (SL [SA 30; SA k; a]) = option_map (TOp1 k) (term_of_sx a). Proof. reflexivity. Qed.
Lemma tos31 k a b : term_of_sx (SL [SA 31; SA k; a; b]) =
  match term_of_sx a, term_of_sx b with Some x, Some y => Some (TOp2 k x y) | _, _ => None end. Proof. reflexivity. Qed.
Lemma tos32 k t a b : term_of_sx (SL [SA 32; SA k; t; a; b]) =
  match term_of_sx t, term_of_sx a, term_of_sx b with Some x, Some y, Some z => Some (TOp3 k x y z) | _, _, _ => None end.
Proof. reflexivity. Qed.
Lemma tos33 k a b c d : term_of_sx (SL [SA 33; SA k; a; b; c; d]) =
  match term_of_sx a, term_of_sx b, term_of_sx c, term_of_sx d with
  | Some x, Some y, Some z, Some w => Some (TOp4 k x y z w) | _, _, _, _ => None end.
Proof. reflexivity. Qed.
Lemma tos40 p i : term_of_sx (SL [SA 40; p; i]) =
  match sx_bytes p, term_of_sx i with Some x, Some y => Some (TName x y) | _, _ => None end. Proof. reflexivity. Qed.
Lemma tos41 p ks : term_of_sx (SL [SA 41; p; SL ks]) =
  match sx_bytes p, tkids ks with Some x, Some y => Some (TDevice x y) | _, _ => None end. Proof. tos. Qed.
Lemma tos42 p ks : term_of_sx (SL [SA 42; p; SL ks]) =
  match sx_bytes p, tkids ks with Some x, Some y => Some (TScope x y) | _, _ => None end. Proof. tos. Qed.
Lemma tos43 p ks : term_of_sx (SL [SA 43; p; SL ks]) =
  match sx_bytes p, tkids ks with Some x, Some y => Some (TScopeRaw x y) | _, _ => None end. Proof. tos. Qed.
Lemma tos44 p a sr ks : term_of_sx (SL [SA 44; p; SA a; SA sr; SL ks]) =
  match sx_bytes p, tkids ks with Some x, Some y => Some (TMethod x a sr y) | _, _ => None end. Proof. tos. Qed.
Lemma tos45 p lv od ks : term_of_sx (SL [SA 45; p; SA lv; SA od; SL ks]) =
  match sx_bytes p, tkids ks with Some x, Some y => Some (TPowerRes x lv od y) | _, _ => None end. Proof. tos. Qed.
Lemma tos46 p sp o ln : term_of_sx (SL [SA 46; p; SA sp; o; ln]) =
  match sx_bytes p, term_of_sx o, term_of_sx ln with Some x, Some y, Some z => Some (TOpRegion x sp y z) | _, _, _ => None end.
Proof. reflexivity. Qed.
Lemma tos50 p ks : term_of_sx (SL [SA 50; p; SL ks]) =
  match sx_bytes p, tkids ks with Some x, Some y => Some (TCall x y) | _, _ => None end. Proof. tos. Qed.
Lemma tos51 p ac lk up es : term_of_sx (SL [SA 51; p; SA ac; SA lk; SA up; SL es]) =
  match sx_bytes p, map_opt fentry_of_sx es with Some x, Some y => Some (TField x ac lk up y) | _, _ => None end.
Proof. reflexivity. Qed.
Lemma tos60 ks : term_of_sx (SL [SA 60; SL ks]) = option_map TPackage (tkids ks). Proof. tos. Qed.
Lemma tos61 ks : term_of_sx (SL [SA 61; SL ks]) = option_map TPkgBuilder (tkids ks). Proof. tos. Qed.
Lemma tos62 ks : term_of_sx (SL [SA 62; SL ks]) = option_map TResTemplate (tkids ks). Proof. tos. Qed.
Lemma tos63 pr ks : term_of_sx (SL [SA 63; pr; SL ks]) =
  match term_of_sx pr, tkids ks with Some x, Some y => Some (TIf x y) | _, _ => None end. Proof. tos. Qed.
Lemma tos64 ks : term_of_sx (SL [SA 64; SL ks]) = option_map TElse (tkids ks). Proof. tos. Qed.
Lemma tos65 pr ks : term_of_sx (SL [SA 65; pr; SL ks]) =
  match term_of_sx pr, tkids ks with Some x, Some y => Some (TWhile x y) | _, _ => None end. Proof. tos. Qed.

(* ---- the Spec's expected tree, shape by shape ---- *)
Ltac exs := unfold ekids; rewrite <- ?expects_fix; reflexivity.

Lemma ex_str el k b : k = 5 \/ k = 6 -> expect el (SL [SA k; b]) =
  match sx_bytes b with Some t => if forallb (fun c => (1 <=? c) && (c <=? 0x7F)) t then Some (GStr t) else None | None => None end.
Proof. intros [-> | ->]; reflexivity. Qed.
Lemma ex7 el p : expect el (SL [SA 7; p]) =
  match sx_bytes p with
  | Some t => match spec_path t with
              | Some (rt, segs) => Some (if el then GName rt segs else GCall rt segs [])
              | None => None end
  | None => None end.
Proof. reflexivity. Qed.
Lemma ex8 el b : expect el (SL [SA 8; b]) =
  match sx_bytes b with
  | Some t => if is_nameseg t then Some (if el then GName false [t] else GCall false [t] []) else None
  | None => None end.
Proof. reflexivity. Qed.
Lemma ex30 el k a : expect el (SL [SA 30; SA k; a]) =
  match k with
  | 0 => mkop 0x8E [expect false a] (Some []) | 1 => mkop 0x87 [expect false a] (Some [])
  | 2 => mkop 0xA4 [expect false a] (Some []) | 3 => mkop 0x83 [expect false a] (Some [])
  | 4 => match expect false a with Some sz => Some (GBuffer sz []) | None => None end
  | 5 => mkop 0x13 [expect false a] (Some [])
  | _ => None
  end.
Proof. reflexivity. Qed.
Lemma ex31 el k a b : expect el (SL [SA 31; SA k; a; b]) =
  match k with
  | 0 => mkop 0x93 [expect false a; expect false b] (Some []) | 1 => mkop 0x95 [expect false a; expect false b] (Some [])
  | 2 => mkop 0x94 [expect false a; expect false b] (Some []) | 3 => mkop 0x9293 [expect false a; expect false b] (Some [])
  | 4 => mkop 0x9295 [expect false a; expect false b] (Some []) | 5 => mkop 0x9294 [expect false a; expect false b] (Some [])
  | 6 => mkop 0x70 [expect false b; expect false a] (Some [])
  | 7 => mkop 0x86 [expect false a; expect false b] (Some [])
  | 8 => mkop 0x96 [expect false b; expect false a] (Some [])
  | 9 => mkop 0x99 [expect false b; expect false a] (Some [])
  | _ => None
  end.
Proof. reflexivity. Qed.
Lemma ex32 el k t a b : expect el (SL [SA 32; SA k; t; a; b]) =
  match op3_code k with
  | Some code => mkop code [expect false a; expect false b; expect false t] (Some [])
  | None => None
  end.
Proof. reflexivity. Qed.
Lemma ex33 el k a b c d : expect el (SL [SA 33; SA k; a; b; c; d]) =
  match k with
  | 0 => mkop 0x5B13 [expect false b; expect false c; expect false d; expect false a] (Some [])
  | 1 => mkop 0x9E [expect false a; expect false b; expect false c; expect false d] (Some [])
  | _ => None
  end.
Proof. destruct k as [|[p|p|]]; reflexivity. Qed.
Lemma ex40 el p i : expect el (SL [SA 40; p; i]) = mkop 0x08 [name_of p; expect false i] (Some []). Proof. reflexivity. Qed.
Lemma ex41 el p ks : expect el (SL [SA 41; p; SL ks]) = mkop 0x5B82 [name_of p] (ekids false ks). Proof. exs. Qed.
Lemma ex42 el p ks : expect el (SL [SA 42; p; SL ks]) = mkop 0x10 [name_of p] (ekids false ks). Proof. exs. Qed.
Lemma ex43 el p ks : expect el (SL [SA 43; p; SL ks]) = mkop 0x10 [name_of p] (ekids false ks). Proof. exs. Qed.
Lemma ex44 el p ar sr ks : expect el (SL [SA 44; p; SA ar; SA sr; SL ks]) =
  if (ar <=? 7) && (sr <=? 1) then mkop 0x14 [name_of p; Some (GNum (ar + 8 * sr))] (ekids false ks) else None.
Proof. exs. Qed.
Lemma ex45 el p lv od ks : expect el (SL [SA 45; p; SA lv; SA od; SL ks]) =
  mkop 0x5B84 [name_of p; Some (GNum lv); Some (GNum od)] (ekids false ks).
Proof. exs. Qed.
Lemma ex46 el p sp o ln : expect el (SL [SA 46; p; SA sp; o; ln]) =
  mkop 0x5B80 [name_of p; Some (GNum sp); expect false o; expect false ln] (Some []).
Proof. reflexivity. Qed.
Lemma ex47 el p sy : expect el (SL [SA 47; p; SA sy]) = mkop 0x5B01 [name_of p; Some (GNum sy)] (Some []). Proof. reflexivity. Qed.
Lemma ex48 el p tm : expect el (SL [SA 48; p; SA tm]) = mkop 0x5B23 [name_of p; Some (GNum tm)] (Some []). Proof. reflexivity. Qed.
Lemma ex49 el p : expect el (SL [SA 49; p]) = mkop 0x5B27 [name_of p] (Some []). Proof. reflexivity. Qed.
Lemma ex50 el p ks : expect el (SL [SA 50; p; SL ks]) =
  match sx_bytes p with
  | Some t => match spec_path t, ekids false ks with
              | Some (rt, segs), Some args => if el && negb (Nat.eqb (length args) 0) then None else
                                              Some (if el then GName rt segs else GCall rt segs args)
              | _, _ => None end
  | None => None end.
Proof. exs. Qed.
Lemma ex51 el p ac lk up es : expect el (SL [SA 51; p; SA ac; SA lk; SA up; SL es]) =
  if (ac <=? 5) && (lk <=? 1) && (up <=? 2)
  then mkop 0x5B81 [name_of p; Some (GNum (ac + 16 * lk + 32 * up))] (opt_all (map fe_of es)) else None.
Proof. reflexivity. Qed.
Lemma ex_pkg el k ks : k = 60 \/ k = 61 -> expect el (SL [SA k; SL ks]) =
  if Nat.leb (length ks) 255 then mkop 0x12 [Some (GNum (N.of_nat (length ks)))] (ekids true ks) else None.
Proof. intros [-> | ->]; exs. Qed.
Lemma ex62 el ks : expect el (SL [SA 62; SL ks]) =
  match opt_all (map ref_of ks) with
  | Some ds => let payload := concat ds ++ [0x79; 0x00] in Some (GBuffer (GInt (N.of_nat (length payload))) payload)
  | None => None
  end.
Proof. reflexivity. Qed.
Lemma ex63 el pr ks : expect el (SL [SA 63; pr; SL ks]) = mkop 0xA0 [expect false pr] (ekids false ks). Proof. exs. Qed.
Lemma ex64 el ks : expect el (SL [SA 64; SL ks]) = mkop 0xA1 [] (ekids false ks). Proof. exs. Qed.
Lemma ex65 el pr ks : expect el (SL [SA 65; pr; SL ks]) = mkop 0xA2 [expect false pr] (ekids false ks). Proof. exs. Qed.
Lemma ex_desc el d : expect el (SL (desc_to_sx d)) = None.
Proof. destruct d as [rw base len|w ty ca rw mn mx [t|]|mn mx al len|c e a s n|sp wd off ac ad]; reflexivity. Qed.

(* =====================================================================================================
   Part 2: the leaves -- where the two readings use different functions for the same thing *)

(* ---- path texts: the Spec's splitter is the model's ---- *)
Lemma spec_split_cons c r :
  spec_split (c :: r) = if c =? 0x2E then [] :: spec_split r
                        else match spec_split r with x :: r' => (c :: x) :: r' | [] => [[c]] end.
Proof. reflexivity. Qed.

Lemma spec_split_nonempty s : spec_split s <> [].
Proof.
  destruct s as [|c r]; [discriminate|]. rewrite spec_split_cons.
  destruct (c =? 0x2E); [discriminate|]. destruct (spec_split r); discriminate.
Qed.

Lemma split_dot_spec s : forall cur,
  split_dot cur s = match spec_split s with x :: r => (rev cur ++ x) :: r | [] => [rev cur] end.
Proof.
  induction s as [|c r IH]; intros cur.
  - cbn [split_dot]. change (spec_split []) with [@nil N]. cbv iota. now rewrite app_nil_r.
  - cbn [split_dot]. rewrite spec_split_cons. destruct (c =? 0x2E).
    + cbv iota. rewrite app_nil_r. f_equal. rewrite (IH []). cbn [rev app].
      destruct (spec_split r) as [|x r'] eqn:E; [now apply spec_split_nonempty in E|reflexivity].
    + rewrite (IH (c :: cur)). destruct (spec_split r) as [|x r'] eqn:E; [now apply spec_split_nonempty in E|].
      cbn [rev]. rewrite <- app_assoc. reflexivity.
Qed.

Lemma split_dot_is_spec s : split_dot [] s = spec_split s.
Proof.
  rewrite split_dot_spec. cbn [rev app]. destruct (spec_split s) as [|x r] eqn:E; [now apply spec_split_nonempty in E|reflexivity].
Qed.

Lemma spec_path_new s rt segs :
  spec_path s = Some (rt, segs) ->
  path_new s = Some {| p_root := rt; p_parts := segs |} /\ wf_parts segs /\ (1 <= length segs <= 255)%nat.
Proof.
  unfold spec_path, path_new. rewrite split_dot_is_spec.
  set (root := match s with ch :: _ => ch =? 92 | [] => false end).
  set (parts := spec_split (if root then tl s else s)).
  destruct (forallb is_nameseg parts && Nat.leb (length parts) 255) eqn:E; [|discriminate].
  intros H. inversion H; subst rt segs. clear H.
  apply andb_true_iff in E. destruct E as [E1 E2]. apply Nat.leb_le in E2.
  assert (Hwf : wf_parts parts).
  { unfold wf_parts. apply Forall_forall. intros x Hx. rewrite forallb_forall in E1. now apply E1. }
  assert (H4 : forallb (fun part => Nat.eqb (length part) 4) parts = true).
  { apply forallb_forall. intros x Hx. rewrite forallb_forall in E1.
    destruct (nameseg_shape x (E1 x Hx)) as (a & b & c & d & -> & _). reflexivity. }
  rewrite H4. split; [reflexivity|]. split; [exact Hwf|]. split; [|exact E2].
  destruct parts as [|x r] eqn:Ep; [|cbn [length]; lia]. exfalso. exact (spec_split_nonempty _ Ep).
Qed.

(* a name in a name position: the Spec's reading is the model's *)
Lemma name_of_gt p x gn : sx_bytes p = Some x -> name_of p = Some gn ->
  name_gt x = Some gn /\ wf_name x /\
  exists q, path_new x = Some q /\ gn = GName (p_root q) (p_parts q) /\ wf_parts (p_parts q) /\ (1 <= length (p_parts q) <= 255)%nat.
Proof.
  intros Hx H. unfold name_of in H. rewrite Hx in H. destruct (spec_path x) as [[rt segs]|] eqn:E; [|discriminate].
  inversion H; subst gn. destruct (spec_path_new x rt segs E) as (Hn & Hwf & Hlen).
  unfold name_gt, wf_name. rewrite Hn. cbn [p_root p_parts]. split; [reflexivity|]. split.
  - eexists. split; [reflexivity|exact Hwf].
  - eexists. split; [reflexivity|]. cbn [p_root p_parts]. auto.
Qed.

(* ---- EISA ids ---- *)
Definition shv (c : N) : option N :=
  if (48 <=? c) && (c <=? 57) then Some (c - 48) else if (65 <=? c) && (c <=? 70) then Some (c - 55)
  else if (97 <=? c) && (c <=? 102) then Some (c - 87) else None.

Lemma spec_eisa_unfold c0 c1 c2 h3 h4 h5 h6 :
  spec_eisa_value [c0; c1; c2; h3; h4; h5; h6] =
  match shv h3, shv h4, shv h5, shv h6 with
  | Some d3, Some d4, Some d5, Some d6 =>
      if valid_eisa [c0; c1; c2; 48; 48; 48; 48] then
        Some (unle (frev (le 4 ((c0 - 64) * 2 ^ 26 + (c1 - 64) * 2 ^ 21 + (c2 - 64) * 2 ^ 16 + d3 * 2 ^ 12 + d4 * 2 ^ 8 + d5 * 2 ^ 4 + d6))))
      else None
  | _, _, _, _ => None
  end.
Proof. reflexivity. Qed.

Lemma shv_hex c d : shv c = Some d -> hex_digit c = Some d /\ d < 16.
Proof.
  unfold shv, hex_digit.
  destruct (N.leb_spec 48 c), (N.leb_spec c 57); cbn [andb]; try (intros Hs; inversion Hs; split; [reflexivity|lia]).
  all: destruct (N.leb_spec 65 c), (N.leb_spec c 70); cbn [andb].
  all: destruct (N.leb_spec 97 c), (N.leb_spec c 102); cbn [andb]; intros Hs; inversion Hs; try (split; [reflexivity|lia]); lia.
Qed.

Lemma spec_eisa_model s v : spec_eisa_value s = Some v -> eisa_value s = Some v.
Proof.
  destruct s as [|c0 [|c1 [|c2 [|h3 [|h4 [|h5 [|h6 [|x s]]]]]]]]; try discriminate.
  rewrite spec_eisa_unfold.
  destruct (shv h3) as [d3|] eqn:F3; [|discriminate]. destruct (shv h4) as [d4|] eqn:F4; [|discriminate].
  destruct (shv h5) as [d5|] eqn:F5; [|discriminate]. destruct (shv h6) as [d6|] eqn:F6; [|discriminate].
  destruct (valid_eisa _) eqn:V; [|discriminate]. intros H. rewrite <- H. clear H v.
  cbn [valid_eisa] in V. change (is_hex_upper 48) with true in V. rewrite !andb_true_r in V.
  apply andb_true_iff in V. destruct V as [V G2]. apply andb_true_iff in V. destruct V as [G0 G1].
  destruct (upper_letter c0 G0) as (a0 & E0 & B0 & R0).
  destruct (upper_letter c1 G1) as (a1 & E1 & B1 & R1).
  destruct (upper_letter c2 G2) as (a2 & E2 & B2 & R2).
  destruct (shv_hex _ _ F3) as [H3 L3]. destruct (shv_hex _ _ F4) as [H4 L4].
  destruct (shv_hex _ _ F5) as [H5 L5]. destruct (shv_hex _ _ F6) as [H6 L6].
  unfold eisa_value. rewrite E0, E1, E2, H3, H4, H5, H6. cbn [option_bind].
  rewrite eisa_lors by lia. unfold swap_bytes32, eisa_pack. rewrite frev_rev.
  replace (c0 - 64) with a0 by lia. replace (c1 - 64) with a1 by lia. replace (c2 - 64) with a2 by lia. reflexivity.
Qed.

(* ---- UUIDs ---- *)
Definition uhv (c : N) : N := if (48 <=? c) && (c <=? 57) then c - 48 else if (65 <=? c) && (c <=? 70) then c - 55 else c - 87.

Lemma spec_uuid_unfold s :
  spec_uuid_bytes s =
  if canonical_uuid s
  then Some (map (fun i => 16 * uhv (nth i s 0) + uhv (nth (S i) s 0)) [6; 4; 2; 0; 11; 9; 16; 14; 19; 21; 24; 26; 28; 30; 32; 34]%nat)
  else None.
Proof. reflexivity. Qed.

Lemma hexv_uhv c : is_hex_any c = true -> hexv c = uhv c.
Proof.
  unfold is_hex_any, hexv, hex_digit, uhv.
  destruct (N.leb_spec 48 c), (N.leb_spec c 57); cbn [andb orb]; try reflexivity.
  all: destruct (N.leb_spec 65 c), (N.leb_spec c 70); cbn [andb orb].
  all: destruct (N.leb_spec 97 c), (N.leb_spec c 102); cbn [andb orb]; intros Hs; try reflexivity; try discriminate Hs; lia.
Qed.

Lemma spec_uuid_model s u : spec_uuid_bytes s = Some u -> uuid_bytes s = Some u.
Proof.
  rewrite spec_uuid_unfold. destruct (canonical_uuid s) eqn:C; [|discriminate]. intros H. rewrite <- H. clear H u.
  unfold canonical_uuid in C. apply andb_true_iff in C. destruct C as [Hlen Hall].
  apply Nat.eqb_eq in Hlen. rewrite forallb_forall in Hall.
  assert (Hd : forall i, In i [8; 13; 18; 23]%nat -> nth i s 0 = 45).
  { intros i Hi. assert (Hs : In i (seq 0 36)) by (apply in_seq; cbn in Hi; lia).
    specialize (Hall i Hs).
    assert (E : existsb (Nat.eqb i) [8; 13; 18; 23]%nat = true) by (apply existsb_exists; exists i; split; [exact Hi|apply Nat.eqb_refl]).
    rewrite E in Hall. now apply N.eqb_eq in Hall. }
  assert (Hh : forall i, (i < 36)%nat -> ~ In i [8; 13; 18; 23]%nat -> is_hex_any (nth i s 0) = true).
  { intros i Hi Hn. assert (Hs : In i (seq 0 36)) by (apply in_seq; lia). specialize (Hall i Hs).
    destruct (existsb (Nat.eqb i) [8; 13; 18; 23]%nat) eqn:E; [|exact Hall].
    exfalso. apply Hn. apply existsb_exists in E. destruct E as (j & Hj & Ej). apply Nat.eqb_eq in Ej. now subst. }
  unfold uuid_bytes. rewrite Hlen. cbn [Nat.eqb assert option_bind].
  rewrite (Hd 8%nat), (Hd 13%nat), (Hd 18%nat), (Hd 23%nat) by (cbn; tauto).
  cbn [N.eqb Pos.eqb andb assert option_bind].
  unfold uuid_order. cbn [map].
  repeat match goal with
  | |- context [hex2byte (nth ?i s 0) (nth ?j s 0)] =>
      let E := fresh "E" in
      destruct (hex2byte_ok (nth i s 0) (nth j s 0)) as [E _];
      [apply Hh; [lia|cbn; lia] | apply Hh; [lia|cbn; lia] | rewrite E; clear E;
       rewrite (hexv_uhv (nth i s 0)) by (apply Hh; [lia|cbn; lia]);
       rewrite (hexv_uhv (nth j s 0)) by (apply Hh; [lia|cbn; lia])]
  end.
  reflexivity.
Qed.

(* ---- field list entries ---- *)
Lemma fields_link es : forall fs gs,
  map_opt fentry_of_sx es = Some fs -> opt_all (map fe_of es) = Some gs ->
  gs = map fentry_gt fs /\ Forall wf_fentry fs.
Proof.
  induction es as [|e es IH]; intros fs gs Hf Hg.
  - inversion Hf; inversion Hg; subst. split; [reflexivity|constructor].
  - cbn [map_opt] in Hf. cbn [map opt_all] in Hg.
    destruct (fentry_of_sx e) as [f|] eqn:Ef; [|discriminate]. destruct (map_opt fentry_of_sx es) as [fs'|]; [|discriminate].
    inversion Hf; subst fs. clear Hf.
    destruct (fe_of e) as [g|] eqn:Eg; [|discriminate]. destruct (opt_all (map fe_of es)) as [gs'|]; [|discriminate].
    inversion Hg; subst gs. clear Hg.
    destruct (IH fs' gs' eq_refl eq_refl) as [-> HF].
    assert (Hone : g = fentry_gt f /\ wf_fentry f).
    { destruct e as [n|l]; [discriminate|]. unfold fentry_of_sx in Ef. unfold fe_of in Eg.
      destruct l as [|[k|] l]; try discriminate. destruct k as [|[p|p|]]; try discriminate.
      - destruct l as [|nm [|[len|] [|]]]; try discriminate.
        destruct (sx_bytes nm) as [n|]; [|discriminate]. cbn [option_map] in Ef. inversion Ef; subst f.
        destruct (is_nameseg n && (len <? 2 ^ 28)) eqn:E; [|discriminate]. inversion Eg; subst g.
        apply andb_true_iff in E. destruct E as [E1 E2]. apply N.ltb_lt in E2. split; [reflexivity|split; assumption].
      - destruct l as [|[len|] [|]]; try discriminate. inversion Ef; subst f.
        destruct (len <? 2 ^ 28) eqn:E; [|discriminate]. inversion Eg; subst g. apply N.ltb_lt in E. split; [reflexivity|exact E]. }
    destruct Hone as [-> Hw]. split; [reflexivity|constructor; assumption].
Qed.

(* ---- descriptors inside a template ---- *)
Lemma ref_of_shape x t r : term_of_sx x = Some t -> ref_of x = Some r ->
  exists d, x = SL (desc_to_sx d) /\ t = TDesc d.
Proof.
  intros Ht Hr. destruct (shape_inv x t Ht) as [ | | | ty n| b| b| b| b| b| b| b| n| n| d| k a| k a b| k t0 a b| k a b c d| p i| p ks| p ks| p ks
    | p a sr ks| p lv od ks| p sp o ln| p sy| p tm| p| p ks| p ac lk up es| ks| ks| ks| pr ks| ks| pr ks];
    try (cbn in Hr; discriminate Hr).
  - exists d. split; [reflexivity|]. rewrite term_of_desc_sx in Ht. now inversion Ht.
Qed.

Lemma descs_link ks : forall ts ds,
  tkids ks = Some ts -> opt_all (map ref_of ks) = Some ds ->
  exists dd, ks = map (fun d => SL (desc_to_sx d)) dd /\ ts = map TDesc dd /\
             (Forall desc_in_range dd -> map enc_desc dd = map Some ds).
Proof.
  induction ks as [|x ks IH]; intros ts ds Ht Hd.
  - inversion Ht; inversion Hd; subst. exists []. repeat split.
  - unfold tkids in Ht. cbn [map_opt] in Ht. cbn [map opt_all] in Hd.
    destruct (term_of_sx x) as [t|] eqn:Et; [|discriminate]. destruct (map_opt term_of_sx ks) as [ts'|] eqn:Ets; [|discriminate].
    inversion Ht; subst ts. clear Ht.
    destruct (ref_of x) as [r|] eqn:Er; [|discriminate]. destruct (opt_all (map ref_of ks)) as [ds'|]; [|discriminate].
    inversion Hd; subst ds. clear Hd.
    destruct (IH ts' ds' Ets eq_refl) as (dd & -> & -> & Hrest).
    destruct (ref_of_shape x t r Et Er) as (d & -> & ->).
    exists (d :: dd). split; [reflexivity|]. split; [reflexivity|].
    intros HF. inversion HF as [|? ? Hd Hdd]; subst. cbn [map]. rewrite (Hrest Hdd). f_equal.
    rewrite (desc_is_reference d Hd). exact Er.
Qed.

(* =====================================================================================================
   Part 3: the Spec's expected tree IS the normal form of the term the model encodes *)

(* ---- argument ranges the exchange vocabulary does not enforce (the Rust types do) ---- *)
Definition desc_in_rangeb (d : desc) : bool :=
  match d with
  | DMem32 rw base len => (rw <? 2) && (base <? 2 ^ 32) && (len <? 2 ^ 32)
  | DAddr w ty ca rw min max tr =>
      ((w =? 16) || (w =? 32) || (w =? 64)) && (ty <? 3) && (ca <? 4) && (rw <? 2) && (min <? 2 ^ w) && (max <? 2 ^ w) &&
      match tr with Some t => t <? 2 ^ w | None => true end
  | DIO min max al len => (min <? 2 ^ 16) && (max <? 2 ^ 16) && (al <? 2 ^ 8) && (len <? 2 ^ 8)
  | DIrq c e a s n => (c <? 2) && (e <? 2) && (a <? 2) && (s <? 2) && (n <? 2 ^ 32)
  | DReg sp w o ac ad => (sp <? 2 ^ 8) && (w <? 2 ^ 8) && (o <? 2 ^ 8) && (ac <? 2 ^ 8) && (ad <? 2 ^ 64)
  end.

Lemma desc_in_rangeb_ok d : desc_in_rangeb d = true -> desc_in_range d.
Proof.
  destruct d as [rw base len|w ty ca rw mn mx tr|mn mx al len|c e a s n|sp wd off ac ad]; cbn [desc_in_rangeb desc_in_range];
    intros H; repeat (apply andb_true_iff in H; destruct H as [H ?]);
    repeat match goal with E : (_ <? _) = true |- _ => apply N.ltb_lt in E end.
  - repeat split; assumption.
  - repeat split; try assumption.
    + apply orb_true_iff in H. destruct H as [H|H]; [apply orb_true_iff in H; destruct H as [H|H]|]; apply N.eqb_eq in H; auto.
    + destruct tr; [now apply N.ltb_lt|exact I].
  - repeat split; assumption.
  - repeat split; assumption.
  - repeat split; assumption.
Qed.

(* integers inside their carrier type; u8 / u16 arguments inside their type; descriptors in range *)
Fixpoint argsb (t : term) {struct t} : bool :=
  let all := fix all (l : list term) : bool := match l with [] => true | x :: r => argsb x && all r end in
  match t with
  | TInt ty n => ((ty =? 8) && (n <? 2 ^ 8)) || ((ty =? 16) && (n <? 2 ^ 16)) || ((ty =? 32) && (n <? 2 ^ 32))
                 || (((ty =? 64) || (ty =? 0)) && (n <? 2 ^ 64))
  | TDesc d => desc_in_rangeb d
  | TOp1 _ a => argsb a
  | TOp2 _ a b => argsb a && argsb b
  | TOp3 _ a b c => argsb a && argsb b && argsb c
  | TOp4 _ a b c d => argsb a && argsb b && argsb c && argsb d
  | TName _ i => argsb i
  | TDevice _ ks | TScope _ ks | TScopeRaw _ ks | TMethod _ _ _ ks | TCall _ ks | TPackage ks | TPkgBuilder ks
  | TResTemplate ks | TElse ks => all ks
  | TPowerRes _ lv od ks => (lv <? 256) && (od <? 2 ^ 16) && all ks
  | TOpRegion _ sp o l => (sp <? 256) && argsb o && argsb l
  | TMutex _ sy => sy <? 256
  | TAcquire _ tm => tm <? 2 ^ 16
  | TIf pr ks | TWhile pr ks => argsb pr && all ks
  | _ => true
  end.

Lemma argsb_fix l :
  (fix all (l : list term) : bool := match l with [] => true | x :: r => argsb x && all r end) l = forallb argsb l.
Proof. induction l as [|x l IH]; [reflexivity|]. cbn [forallb]. now rewrite IH. Qed.

(* ---- "defined at least where, with the same value" ---- *)
Definition ole {A} (a a' : option A) : Prop := forall v, a = Some v -> a' = Some v.

Lemma ole_refl {A} (a : option A) : ole a a. Proof. intros v H; exact H. Qed.
Lemma ole_none {A} (a : option A) : ole None a. Proof. intros v H; discriminate H. Qed.

Lemma ole_opt_all {A} (fs fs' : list (option A)) : Forall2 ole fs fs' -> ole (opt_all fs) (opt_all fs').
Proof.
  induction 1 as [|a a' fs fs' Ha _ IH]; [apply ole_refl|]. intros v H. cbn [opt_all] in *.
  destruct a as [x|]; [|discriminate]. rewrite (Ha x eq_refl).
  destruct (opt_all fs) as [r|]; [|discriminate]. rewrite (IH r eq_refl). exact H.
Qed.

Lemma ole_mkop code fs fs' ko ko' : Forall2 ole fs fs' -> ole ko ko' -> ole (mkop code fs ko) (mkop code fs' ko').
Proof.
  intros Hf Hk v H. unfold mkop in *. pose proof (ole_opt_all fs fs' Hf) as Ho.
  destruct (opt_all fs) as [fl|]; [|discriminate]. rewrite (Ho fl eq_refl).
  destruct ko as [kl|]; [|discriminate]. rewrite (Hk kl eq_refl). exact H.
Qed.

Lemma ole_name p x : sx_bytes p = Some x -> ole (name_of p) (name_gt x).
Proof. intros Hx v H. exact (proj1 (name_of_gt p x v Hx H)). Qed.

Lemma map_opt_length {A B} (f : A -> option B) l : forall r, map_opt f l = Some r -> length r = length l.
Proof.
  induction l as [|x l IH]; intros r H; [inversion H; reflexivity|]. cbn [map_opt] in H.
  destruct (f x); [|discriminate]. destruct (map_opt f l) as [r'|]; [|discriminate]. inversion H; subst. cbn [length]. now rewrite (IH r' eq_refl).
Qed.

Definition kids_of (s : sx) : list sx := match s with SL l => l | SA _ => [] end.

(* the statement, for one case S-expression *)
Definition LK (c : sx) : Prop :=
  forall el t, term_of_sx c = Some t -> argsb t = true -> ole (expect el c) (norm el t).

Lemma LK_kids el ks : Forall LK ks -> forall ts, tkids ks = Some ts -> forallb argsb ts = true -> ole (ekids el ks) (norms el ts).
Proof.
  induction ks as [|x ks IH]; intros HF ts Ht Ha.
  - inversion Ht; subst. apply ole_refl.
  - inversion HF as [|? ? Hx Hks]; subst. unfold tkids in Ht. cbn [map_opt] in Ht.
    destruct (term_of_sx x) as [t|] eqn:Et; [|discriminate]. destruct (map_opt term_of_sx ks) as [ts'|] eqn:Ets; [|discriminate].
    inversion Ht; subst ts. cbn [forallb] in Ha. apply andb_true_iff in Ha. destruct Ha as [Ha1 Ha2].
    intros v H. unfold ekids in H. cbn [map_opt] in H. unfold norms. cbn [map_opt].
    destruct (expect el x) as [g|] eqn:Eg; [|discriminate]. rewrite (Hx el t Et Ha1 g Eg).
    destruct (map_opt (expect el) ks) as [gs|] eqn:Egs; [|discriminate].
    pose proof (IH Hks ts' Ets Ha2 gs Egs) as Hn. unfold norms in Hn. rewrite Hn. exact H.
Qed.

(* leaf equations of [expect] *)
Lemma ex9 el b : expect el (SL [SA 9; b]) = match sx_bytes b with Some t => option_map GInt (spec_eisa_value t) | None => None end.
Proof. reflexivity. Qed.
Lemma ex10 el b : expect el (SL [SA 10; b]) =
  match sx_bytes b with Some t => option_map (GBuffer (GInt 16)) (spec_uuid_bytes t) | None => None end.
Proof. reflexivity. Qed.
Lemma ex11 el b : expect el (SL [SA 11; b]) =
  match sx_bytes b with Some t => Some (GBuffer (GInt (N.of_nat (length t))) t) | None => None end.
Proof. reflexivity. Qed.
Lemma ex12 el n : expect el (SL [SA 12; SA n]) = if n <=? 6 then Some (GArg n) else None. Proof. reflexivity. Qed.
Lemma ex13 el n : expect el (SL [SA 13; SA n]) = if n <=? 7 then Some (GLocal n) else None. Proof. reflexivity. Qed.

Ltac tsome Ht :=
  repeat match type of Ht with
         | context [match sx_bytes ?p with _ => _ end] => let E := fresh "Eb" in destruct (sx_bytes p) eqn:E; [|discriminate Ht]
         | context [match term_of_sx ?a with _ => _ end] => let E := fresh "Et" in destruct (term_of_sx a) eqn:E; [|discriminate Ht]
         | context [match tkids ?a with _ => _ end] => let E := fresh "Ek" in destruct (tkids a) eqn:E; [|discriminate Ht]
         | context [option_map _ (sx_bytes ?p)] => let E := fresh "Eb" in destruct (sx_bytes p) eqn:E; [|discriminate Ht]
         | context [option_map _ (term_of_sx ?a)] => let E := fresh "Et" in destruct (term_of_sx a) eqn:E; [|discriminate Ht]
         | context [option_map _ (tkids ?a)] => let E := fresh "Ek" in destruct (tkids a) eqn:E; [|discriminate Ht]
         end;
  cbn [option_map] in Ht; inversion Ht; subst; clear Ht.

Ltac andbs H := repeat (apply andb_true_iff in H; let H' := fresh "Ha" in destruct H as [H H']).

Lemma Forall_nth3 {A} (P : A -> Prop) a b c l : Forall P (a :: b :: c :: l) -> P a /\ P b /\ P c.
Proof. intros H. inversion H as [|? ? H1 H']; subst. inversion H' as [|? ? H2 H'']; subst. inversion H'' as [|? ? H3 _]; subst. auto. Qed.

Theorem link : forall c, LK c.
Proof.
  induction c as [n|l IH ID] using sx_deep_ind; [intros el t Ht; discriminate Ht|].
  intros el t Ht Ha.
  assert (Hall : forall x, In x (kids_of (SL l)) -> LK x) by (apply Forall_forall; exact IH).
  assert (Hdeep : forall ks, In (SL ks) (kids_of (SL l)) -> Forall LK ks).
  { intros ks Hin. rewrite Forall_forall in ID. exact (ID (SL ks) Hin). }
  clear IH ID. revert Hall Hdeep. pose proof (shape_inv (SL l) t Ht) as Hs. revert Ht. generalize dependent (SL l). intros c Hs.
  destruct Hs as [ | | | ty n| b| b| b| b| b| b| b| n| n| d| k a| k a b| k t0 a b| k a b c d| p i| p ks| p ks| p ks
    | p ar sr ks| p lv od ks| p sp o ln| p sy| p tm| p| p ks| p ac lk up es| ks| ks| ks| pr ks| ks| pr ks]; intros Ht Hall Hdeep;
    cbn [kids_of] in Hall, Hdeep.
  - inversion Ht; subst. apply ole_refl.
  - inversion Ht; subst. apply ole_refl.
  - inversion Ht; subst. apply ole_refl.
  - inversion Ht; subst. apply ole_refl.
  - (* &str *) rewrite ex_str by auto. change (term_of_sx (SL [SA 5; b])) with (option_map TStr (sx_bytes b)) in Ht. tsome Ht.
    intros v H. destruct (forallb _ _); [exact H|discriminate].
  - (* String *) rewrite ex_str by auto. change (term_of_sx (SL [SA 6; b])) with (option_map TStr (sx_bytes b)) in Ht. tsome Ht.
    intros v H. destruct (forallb _ _); [exact H|discriminate].
  - (* Path *) rewrite ex7. change (term_of_sx (SL [SA 7; b])) with (option_map TPath (sx_bytes b)) in Ht. tsome Ht.
    intros v H. destruct (spec_path l0) as [[rt segs]|] eqn:E; [|discriminate].
    destruct (spec_path_new _ _ _ E) as (Hn & _). cbn [norm]. rewrite Hn. exact H.
  - (* field name *) rewrite ex8. change (term_of_sx (SL [SA 8; b])) with (option_map TFieldName (sx_bytes b)) in Ht. tsome Ht.
    intros v H. destruct (is_nameseg l0); [exact H|discriminate].
  - (* EISA *) rewrite ex9. change (term_of_sx (SL [SA 9; b])) with (option_map TEisa (sx_bytes b)) in Ht. tsome Ht.
    intros v H. cbn [norm]. destruct (spec_eisa_value l0) as [x|] eqn:E; [|discriminate]. rewrite (spec_eisa_model _ _ E). exact H.
  - (* Uuid *) rewrite ex10. change (term_of_sx (SL [SA 10; b])) with (option_map TUuid (sx_bytes b)) in Ht. tsome Ht.
    intros v H. cbn [norm]. destruct (spec_uuid_bytes l0) as [x|] eqn:E; [|discriminate]. rewrite (spec_uuid_model _ _ E). exact H.
  - (* BufferData *) rewrite ex11. change (term_of_sx (SL [SA 11; b])) with (option_map TBufData (sx_bytes b)) in Ht. tsome Ht.
    apply ole_refl.
  - rewrite ex12. inversion Ht; subst. intros v H. destruct (n <=? 6); [exact H|discriminate].
  - rewrite ex13. inversion Ht; subst. intros v H. destruct (n <=? 7); [exact H|discriminate].
  - rewrite ex_desc. apply ole_none.
  - (* one operand *) rewrite ex30. rewrite tos30 in Ht. tsome Ht. cbn [argsb] in Ha.
    pose proof (Hall a ltac:(cbn; tauto) false _ Et Ha) as Ia.
    destruct k as [|kp]; [|split_pos kp 3%nat]; try apply ole_none; cbn [norm op1_gcode];
      try (apply ole_mkop; [repeat constructor; assumption|apply ole_refl]).
    intros v H. destruct (expect false a) as [sz|]; [|discriminate]. rewrite (Ia sz eq_refl). exact H.
  - (* two operands *) rewrite ex31. rewrite tos31 in Ht. tsome Ht. cbn [argsb] in Ha. andbs Ha.
    pose proof (Hall a ltac:(cbn; tauto) false _ Et Ha) as Ia. pose proof (Hall b ltac:(cbn; tauto) false _ Et0 Ha0) as Ib.
    destruct k as [|kp]; [|split_pos kp 4%nat]; try apply ole_none; cbn [norm cmp_gcode];
      apply ole_mkop; try apply ole_refl; repeat constructor; assumption.
  - (* three operands *) rewrite ex32. rewrite tos32 in Ht. tsome Ht. cbn [argsb] in Ha. andbs Ha.
    pose proof (Hall t0 ltac:(cbn; tauto) false _ Et Ha) as It. pose proof (Hall a ltac:(cbn; tauto) false _ Et0 Ha1) as Ia.
    pose proof (Hall b ltac:(cbn; tauto) false _ Et1 Ha0) as Ib.
    cbn [norm]. destruct (op3_code k); [|apply ole_none]. apply ole_mkop; try apply ole_refl; repeat constructor; assumption.
  - (* four operands *) rewrite ex33. rewrite tos33 in Ht. tsome Ht. cbn [argsb] in Ha. andbs Ha.
    pose proof (Hall a ltac:(cbn; tauto) false _ Et Ha) as Ia. pose proof (Hall b ltac:(cbn; tauto) false _ Et0 Ha2) as Ib.
    pose proof (Hall c ltac:(cbn; tauto) false _ Et1 Ha1) as Ic. pose proof (Hall d ltac:(cbn; tauto) false _ Et2 Ha0) as Id.
    destruct k as [|[kp|kp|]]; try apply ole_none; cbn [norm]; apply ole_mkop; try apply ole_refl; repeat constructor; assumption.
  - (* Name *) rewrite ex40. rewrite tos40 in Ht. tsome Ht. cbn [argsb] in Ha.
    pose proof (Hall i ltac:(cbn; tauto) false _ Et Ha) as Ii. cbn [norm].
    apply ole_mkop; [repeat constructor; [now apply ole_name|assumption]|apply ole_refl].
  - (* Device *) rewrite ex41. rewrite tos41 in Ht. tsome Ht. cbn [argsb] in Ha. rewrite argsb_fix in Ha.
    cbn [norm]. rewrite norms_fix. apply ole_mkop; [repeat constructor; now apply ole_name|].
    apply LK_kids; auto. apply Hdeep. cbn; tauto.
  - (* Scope *) rewrite ex42. rewrite tos42 in Ht. tsome Ht. cbn [argsb] in Ha. rewrite argsb_fix in Ha.
    cbn [norm]. rewrite norms_fix. apply ole_mkop; [repeat constructor; now apply ole_name|].
    apply LK_kids; auto. apply Hdeep. cbn; tauto.
  - (* Scope::raw *) rewrite ex43. rewrite tos43 in Ht. tsome Ht. cbn [argsb] in Ha. rewrite argsb_fix in Ha.
    cbn [norm]. rewrite norms_fix. apply ole_mkop; [repeat constructor; now apply ole_name|].
    apply LK_kids; auto. apply Hdeep. cbn; tauto.
  - (* Method *) rewrite ex44. rewrite tos44 in Ht. tsome Ht. cbn [argsb] in Ha. rewrite argsb_fix in Ha.
    destruct ((ar <=? 7) && (sr <=? 1)); [|apply ole_none].
    cbn [norm]. rewrite norms_fix. apply ole_mkop; [repeat constructor; [now apply ole_name|apply ole_refl]|].
    apply LK_kids; auto. apply Hdeep. cbn; tauto.
  - (* PowerResource *) rewrite ex45. rewrite tos45 in Ht. tsome Ht. cbn [argsb] in Ha. rewrite argsb_fix in Ha. andbs Ha.
    cbn [norm]. rewrite norms_fix. apply ole_mkop; [repeat constructor; [now apply ole_name|apply ole_refl|apply ole_refl]|].
    apply LK_kids; auto. apply Hdeep. cbn; tauto.
  - (* OpRegion *) rewrite ex46. rewrite tos46 in Ht. tsome Ht. cbn [argsb] in Ha. andbs Ha.
    pose proof (Hall o ltac:(cbn; tauto) false _ Et Ha1) as Io. pose proof (Hall ln ltac:(cbn; tauto) false _ Et0 Ha0) as Il.
    cbn [norm]. apply ole_mkop; [repeat constructor; try assumption; [now apply ole_name|apply ole_refl]|apply ole_refl].
  - (* Mutex *) rewrite ex47. change (term_of_sx (SL [SA 47; p; SA sy])) with (option_map (fun x => TMutex x sy) (sx_bytes p)) in Ht.
    tsome Ht. cbn [norm]. apply ole_mkop; [repeat constructor; [now apply ole_name|apply ole_refl]|apply ole_refl].
  - (* Acquire *) rewrite ex48. change (term_of_sx (SL [SA 48; p; SA tm])) with (option_map (fun x => TAcquire x tm) (sx_bytes p)) in Ht.
    tsome Ht. cbn [norm]. apply ole_mkop; [repeat constructor; [now apply ole_name|apply ole_refl]|apply ole_refl].
  - (* Release *) rewrite ex49. change (term_of_sx (SL [SA 49; p])) with (option_map TRelease (sx_bytes p)) in Ht.
    tsome Ht. cbn [norm]. apply ole_mkop; [repeat constructor; now apply ole_name|apply ole_refl].
  - (* MethodCall *) rewrite ex50. rewrite tos50 in Ht. tsome Ht. cbn [argsb] in Ha. rewrite argsb_fix in Ha.
    cbn [norm]. rewrite norms_fix. intros v H.
    destruct (spec_path l0) as [[rt segs]|] eqn:E; [|discriminate]. destruct (ekids false ks) as [args|] eqn:Ek'; [|discriminate].
    destruct (spec_path_new _ _ _ E) as (Hn & _). rewrite Hn. cbn [p_root p_parts].
    assert (Hk : norms false l1 = Some args).
    { apply (LK_kids false ks); auto. apply Hdeep. cbn; tauto. }
    rewrite Hk. destruct el; [|exact H]. cbn [andb] in H. destruct (negb _); [discriminate|exact H].
  - (* Field *) rewrite ex51. rewrite tos51 in Ht.
    destruct (sx_bytes p) as [x|] eqn:Eb; [|discriminate]. destruct (map_opt fentry_of_sx es) as [fs|] eqn:Ef; [|discriminate].
    inversion Ht; subst t. clear Ht. destruct ((ac <=? 5) && (lk <=? 1) && (up <=? 2)); [|apply ole_none].
    cbn [norm]. apply ole_mkop; [repeat constructor; [now apply ole_name|apply ole_refl]|].
    intros v H. destruct (fields_link es fs v Ef H) as [-> _]. reflexivity.
  - (* Package *) rewrite ex_pkg by auto. rewrite tos60 in Ht. tsome Ht. cbn [argsb] in Ha. rewrite argsb_fix in Ha.
    destruct (Nat.leb (length ks) 255); [|apply ole_none]. cbn [norm]. rewrite norms_fix.
    rewrite (map_opt_length _ _ _ Ek). apply ole_mkop; [repeat constructor; apply ole_refl|].
    apply LK_kids; auto. apply Hdeep. cbn; tauto.
  - (* PackageBuilder *) rewrite ex_pkg by auto. rewrite tos61 in Ht. tsome Ht. cbn [argsb] in Ha. rewrite argsb_fix in Ha.
    destruct (Nat.leb (length ks) 255); [|apply ole_none]. cbn [norm]. rewrite norms_fix.
    rewrite (map_opt_length _ _ _ Ek). apply ole_mkop; [repeat constructor; apply ole_refl|].
    apply LK_kids; auto. apply Hdeep. cbn; tauto.
  - (* ResourceTemplate *) rewrite ex62. rewrite tos62 in Ht. tsome Ht. cbn [argsb] in Ha. rewrite argsb_fix in Ha.
    intros v H. destruct (opt_all (map ref_of ks)) as [ds|] eqn:Ed; [|discriminate].
    destruct (descs_link ks _ ds Ek Ed) as (dd & _ & -> & Hm).
    assert (Hr : Forall desc_in_range dd).
    { apply Forall_forall. intros d Hd. apply desc_in_rangeb_ok. rewrite forallb_forall in Ha.
      exact (Ha (TDesc d) (in_map TDesc dd d Hd)). }
    specialize (Hm Hr). cbn [norm]. unfold template_payload.
    assert (Hp : map_opt desc_bytes (map TDesc dd) = Some ds).
    { clear -Hm. revert ds Hm. induction dd as [|d dd IHd]; intros ds Hm; destruct ds as [|b ds]; try discriminate; [reflexivity|].
      cbn [map] in Hm. inversion Hm as [[H1 H2]]. cbn [map map_opt desc_bytes]. rewrite H1, (IHd ds H2). reflexivity. }
    rewrite Hp. exact H.
  - (* If *) rewrite ex63. rewrite tos63 in Ht. tsome Ht. cbn [argsb] in Ha. rewrite argsb_fix in Ha. andbs Ha.
    pose proof (Hall pr ltac:(cbn; tauto) false _ Et Ha) as Ip.
    cbn [norm]. rewrite norms_fix. apply ole_mkop; [repeat constructor; assumption|].
    apply LK_kids; auto. apply Hdeep. cbn; tauto.
  - (* Else *) rewrite ex64. rewrite tos64 in Ht. tsome Ht. cbn [argsb] in Ha. rewrite argsb_fix in Ha.
    cbn [norm]. rewrite norms_fix. apply ole_mkop; [constructor|].
    apply LK_kids; auto. apply Hdeep. cbn; tauto.
  - (* While *) rewrite ex65. rewrite tos65 in Ht. tsome Ht. cbn [argsb] in Ha. rewrite argsb_fix in Ha. andbs Ha.
    pose proof (Hall pr ltac:(cbn; tauto) false _ Et Ha) as Ip.
    cbn [norm]. rewrite norms_fix. apply ole_mkop; [repeat constructor; assumption|].
    apply LK_kids; auto. apply Hdeep. cbn; tauto.
Qed.

(* =====================================================================================================
   Part 4: the model does not refuse -- emission from a decidable check, with a size bound *)
Definition is_some {A} (o : option A) : bool := match o with Some _ => true | None => false end.
Definition olen (o : option (list N)) : nat := match o with Some b => length b | None => O end.

(* Path::new accepts the text and the segment count fits the MultiNamePrefix count byte *)
Definition pathb (s : list N) : bool :=
  match path_new s with Some q => Nat.leb (length (p_parts q)) 255 | None => false end.

Definition fentryb (e : fentry) : bool := match e with FNamed _ len | FReserved len => len <? 2 ^ 28 end.

Fixpoint emitb (t : term) {struct t} : bool :=
  let all := fix all (l : list term) : bool := match l with [] => true | x :: r => emitb x && all r end in
  match t with
  | TZero | TOne | TOnes | TStr _ | TFieldName _ | TBufData _ => true
  | TInt ty n => is_some (enc_int ty n)
  | TPath s => pathb s
  | TEisa s => is_some (eisa_value s)
  | TUuid s => is_some (uuid_bytes s)
  | TArg n => n <=? 6
  | TLocal n => n <=? 7
  | TDesc d => is_some (enc_desc d)
  | TOp1 k a => (k <? 6) && emitb a
  | TOp2 k a b => (k <? 10) && emitb a && emitb b
  | TOp3 k a b c => is_some (op3_code k) && emitb a && emitb b && emitb c
  | TOp4 k a b c d => (k <? 2) && emitb a && emitb b && emitb c && emitb d
  | TName p i => pathb p && emitb i
  | TDevice p ks | TScope p ks | TScopeRaw p ks | TPowerRes p _ _ ks | TCall p ks => pathb p && all ks
  | TMethod p ar _ ks => pathb p && (ar <=? 7) && all ks
  | TOpRegion p _ o l => pathb p && emitb o && emitb l
  | TMutex p _ | TAcquire p _ | TRelease p => pathb p
  | TField p _ _ _ es => pathb p && forallb fentryb es
  | TPackage ks | TPkgBuilder ks => (N.of_nat (length ks) <=? 255) && all ks
  | TResTemplate ks | TElse ks => all ks
  | TIf pr ks | TWhile pr ks => emitb pr && all ks
  end.

Lemma emitb_fix l :
  (fix all (l : list term) : bool := match l with [] => true | x :: r => emitb x && all r end) l = forallb emitb l.
Proof. induction l as [|x l IH]; [reflexivity|]. cbn [forallb]. now rewrite IH. Qed.

(* an upper bound of the encoded size: every PkgLength counted at its maximal four bytes *)
Local Open Scope nat_scope.
Definition fentry_weight (e : fentry) : nat := match e with FNamed name _ => length name + 4 | FReserved _ => 5 end.

Fixpoint weight (t : term) {struct t} : nat :=
  let ws := fix ws (l : list term) : nat := match l with [] => O | x :: r => weight x + ws r end in
  let pw (p : list N) := olen (enc_path_text p) in
  match t with
  | TZero | TOne | TOnes | TArg _ | TLocal _ => 1
  | TInt ty n => olen (enc_int ty n)
  | TStr s => length s + 2
  | TPath s => pw s
  | TFieldName s => length s
  | TEisa s => olen (eisa_enc s)
  | TUuid _ => 20
  | TBufData b => 14 + length b
  | TDesc d => olen (enc_desc d)
  | TOp1 _ a => 5 + weight a
  | TOp2 _ a b => 2 + weight a + weight b
  | TOp3 _ a b c => 1 + weight a + weight b + weight c
  | TOp4 _ a b c d => 2 + weight a + weight b + weight c + weight d
  | TName p i => 1 + pw p + weight i
  | TDevice p ks => 6 + pw p + ws ks
  | TScope p ks | TScopeRaw p ks => 5 + pw p + ws ks
  | TMethod p _ _ ks => 6 + pw p + ws ks
  | TPowerRes p _ _ ks => 9 + pw p + ws ks
  | TOpRegion p _ o l => 3 + pw p + weight o + weight l
  | TMutex p _ => 3 + pw p
  | TAcquire p _ => 4 + pw p
  | TRelease p => 2 + pw p
  | TCall p args => pw p + ws args
  | TField p _ _ _ es => 7 + pw p + fold_right (fun e acc => fentry_weight e + acc) O es
  | TPackage ks | TPkgBuilder ks => 6 + ws ks
  | TResTemplate ks => 16 + ws ks
  | TIf pr ks | TWhile pr ks => 5 + weight pr + ws ks
  | TElse ks => 5 + ws ks
  end.

Definition weights (l : list term) : nat := fold_right (fun x acc => weight x + acc) O l.
Local Close Scope nat_scope.

Lemma weight_fix l :
  (fix ws (l : list term) : nat := match l with [] => O | x :: r => (weight x + ws r)%nat end) l = weights l.
Proof. induction l as [|x l IH]; [reflexivity|]. cbn [weights fold_right]. now rewrite IH. Qed.

(* ---- pieces ---- *)
Lemma pkg_len_length md len incl e : pkg_len md len incl = Some e -> (1 <= length e <= 4)%nat.
Proof.
  rewrite pkg_len_unfold. destruct (add_m md U64 len _) as [tot|]; [|discriminate]. cbn [option_bind].
  destruct (assert _); [|discriminate]. cbn [option_bind]. intros H. inversion H; subst e.
  destruct (pkg_ll_cases len) as [[_ ->]|[[_ ->]|[[_ ->]|[_ ->]]]]; cbn [pkg_bytes length]; lia.
Qed.

Lemma framed_emit md op body :
  N.of_nat (length body) + 4 < 2 ^ 28 ->
  exists pl, framed md op body = Some (op ++ pl ++ body) /\ (1 <= length pl <= 4)%nat.
Proof.
  intros H. destruct (pkg_len_accept md (N.of_nat (length body)) true H) as [pl Hp].
  exists pl. unfold framed. rewrite Hp. split; [reflexivity|exact (pkg_len_length _ _ _ _ Hp)].
Qed.

Lemma pkg_len_excl_emit md len : len < 2 ^ 28 -> exists e, pkg_len md len false = Some e /\ (length e <= 4)%nat.
Proof.
  intros H. rewrite pkg_len_unfold. unfold add_m. rewrite N.add_0_r.
  assert (Hs : len <? U64 = true).
  { apply N.ltb_lt. unfold U64. change (2 ^ 28) with 268435456 in H. change (2 ^ 64) with 18446744073709551616. lia. }
  rewrite Hs. cbn [option_bind]. apply N.ltb_lt in H. rewrite H. cbn [assert option_bind]. eexists. split; [reflexivity|].
  destruct (pkg_ll_cases len) as [[_ ->]|[[_ ->]|[[_ ->]|[_ ->]]]]; cbn [pkg_bytes length]; lia.
Qed.

Lemma enc_u8_len n : (1 <= length (enc_u8 n) <= 2)%nat.
Proof. unfold enc_u8. destruct n as [|[p|p|]]; cbn [length]; lia. Qed.
Lemma enc_u16_len n : (1 <= length (enc_u16 n) <= 3)%nat.
Proof. unfold enc_u16. destruct (n <=? 255); [pose proof (enc_u8_len (cast U8 n)); lia|]. cbn [length]. rewrite length_le. lia. Qed.
Lemma enc_u32_len n : (1 <= length (enc_u32 n) <= 5)%nat.
Proof. unfold enc_u32. destruct (n <=? 65535); [pose proof (enc_u16_len (cast U16 n)); lia|]. cbn [length]. rewrite length_le. lia. Qed.
Lemma enc_u64_len n : (1 <= length (enc_u64 n) <= 9)%nat.
Proof. unfold enc_u64. destruct (n <=? 4294967295); [pose proof (enc_u32_len (cast U32 n)); lia|]. cbn [length]. rewrite length_le. lia. Qed.
Lemma enc_usize_len n : (1 <= length (enc_usize n) <= 9)%nat.
Proof. apply enc_u64_len. Qed.

Lemma pathb_enc s : pathb s = true -> exists e, enc_path_text s = Some e /\ (1 <= length e)%nat.
Proof.
  unfold pathb, enc_path_text. destruct (path_new s) as [q|] eqn:Eq; [|discriminate]. intros H. apply Nat.leb_le in H.
  cbn [option_bind]. destruct (path_new_sound s q Eq) as [_ H4].
  assert (Hne : p_parts q <> []).
  { unfold path_new in Eq. destruct (forallb _ _); [|discriminate]. inversion Eq. cbn [p_parts]. apply split_dot_nonempty. }
  unfold path_enc. destruct (p_parts q) as [|s1 rest] eqn:Ep; [congruence|].
  inversion H4 as [|? ? Hs1 _]; subst.
  assert (Hc : (4 <= length (concat (s1 :: rest)))%nat) by (cbn [concat]; rewrite app_length; lia).
  destruct rest as [|s2 [|s3 rest]].
  - cbn [length option_bind]. eexists. split; [reflexivity|]. rewrite !app_length. lia.
  - cbn [length option_bind]. eexists. split; [reflexivity|]. rewrite !app_length. lia.
  - cbn [length] in *. assert (Hle : N.of_nat (S (S (S (length rest)))) <=? 255 = true) by (apply N.leb_le; lia).
    rewrite Hle. cbn [assert option_bind]. eexists. split; [reflexivity|]. rewrite !app_length. lia.
Qed.

Lemma uuid_bytes_len s u : uuid_bytes s = Some u -> length u = 16%nat.
Proof.
  unfold uuid_bytes. intros Eu. destruct (assert (Nat.eqb (length s) 36)); [|discriminate]. cbn [option_bind] in Eu.
  destruct (assert _); [|discriminate]. cbn [option_bind] in Eu.
  unfold uuid_order in Eu. cbn [map] in Eu.
  repeat match type of Eu with context [hex2byte ?a ?b] => destruct (hex2byte a b); [|discriminate] end.
  cbn [opt_all option_map] in Eu. inversion Eu. reflexivity.
Qed.

Lemma is_some_true {A} (o : option A) : is_some o = true -> exists x, o = Some x.
Proof. destruct o; [eauto|discriminate]. Qed.

(* ---- the statement ---- *)
Definition EM (t : term) : Prop :=
  forall md, emitb t = true -> N.of_nat (weight t) < 2 ^ 28 ->
    exists b, enc md t = Some b /\ (depth t <= length b <= weight t)%nat.

Lemma EM_kids md ks : Forall EM ks -> forallb emitb ks = true -> N.of_nat (weights ks) < 2 ^ 28 ->
  exists eks, encs md ks = Some eks /\ (depths ks <= length eks <= weights ks)%nat.
Proof.
  induction ks as [|x ks IH]; intros HF He Hw.
  - exists []. split; [reflexivity|cbn; lia].
  - inversion HF as [|? ? Hx Hks]; subst. cbn [forallb] in He. apply andb_true_iff in He. destruct He as [He1 He2].
    cbn [weights fold_right] in Hw. fold (weights ks) in Hw.
    destruct (Hx md He1) as (ex & Ex & Hlx); [lia|]. destruct (IH Hks He2) as (er & Er & Hlr); [lia|].
    exists (ex ++ er). rewrite encs_cons, Ex, Er. split; [reflexivity|].
    cbn [depths weights fold_right]. fold (depths ks) (weights ks). rewrite app_length. lia.
Qed.

Ltac emprep He Hw :=
  cbn [emitb] in He; rewrite ?emitb_fix in He; cbn [weight] in Hw; rewrite ?weight_fix in Hw;
  cbn [enc depth weight]; rewrite ?encs_fix, ?depth_list_fix, ?weight_fix; andbs He.

Ltac usepath Hp ep Ep Lp := destruct (pathb_enc _ Hp) as (ep & Ep & Lp); rewrite Ep in *; cbn [olen option_bind] in *.

Ltac usekids HF md He Hw eks Ek Lk := destruct (EM_kids md _ HF He) as (eks & Ek & Lk); [lia|]; rewrite Ek; cbn [option_bind].

Ltac lennorm := unfold w2; repeat progress (rewrite ?app_length, ?length_le; cbn [length]).

Ltac useframe md op body pl Ef Lf :=
  destruct (framed_emit md op body) as (pl & Ef & Lf);
  [lennorm; change (2 ^ 28) with 268435456 in *; lia|]; rewrite Ef.

Ltac lens := lennorm; lia.

Lemma EM_all : forall t, EM t.
Proof.
  induction t using term_ind'; intros md He Hw.
  - eexists; split; [reflexivity|cbn; lia].
  - eexists; split; [reflexivity|cbn; lia].
  - eexists; split; [reflexivity|cbn; lia].
  - cbn [emitb] in He. destruct (is_some_true _ He) as [b Eb]. exists b. cbn [enc depth weight]. rewrite Eb. split; [reflexivity|cbn; lia].
  - eexists; split; [reflexivity|]. cbn [depth weight]. unfold enc_string. cbn [length]. rewrite app_length. cbn [length]. lia.
  - cbn [emitb] in He. destruct (pathb_enc _ He) as (e & Ee & Le). exists e. cbn [enc depth weight]. rewrite Ee. split; [reflexivity|cbn; lia].
  - eexists; split; [reflexivity|cbn; lia].
  - cbn [emitb] in He. destruct (is_some_true _ He) as [v Ev]. cbn [enc depth weight]. unfold eisa_enc. rewrite Ev. cbn [option_map olen].
    eexists; split; [reflexivity|lia].
  - cbn [emitb] in He. destruct (is_some_true _ He) as [u Eu]. cbn [enc depth weight]. unfold uuid_enc. rewrite Eu. cbn [option_bind].
    destruct (buffer16 md u [] (uuid_bytes_len _ _ Eu)) as [Hb _]. rewrite Hb. eexists; split; [reflexivity|].
    rewrite app_length, (uuid_bytes_len _ _ Eu). cbn [length]. lia.
  - cbn [enc depth weight] in *. unfold buffer_data. pose proof (enc_usize_len (N.of_nat (length b))) as Lu.
    useframe md [0x11] (enc_usize (N.of_nat (length b)) ++ b) pl Ef Lf. eexists; split; [reflexivity|]. lens.
  - cbn [emitb] in He. cbn [enc]. rewrite He. cbn [assert option_bind]. eexists; split; [reflexivity|cbn; lia].
  - cbn [emitb] in He. cbn [enc]. rewrite He. cbn [assert option_bind]. eexists; split; [reflexivity|cbn; lia].
  - cbn [emitb] in He. destruct (is_some_true _ He) as [b Eb]. exists b. cbn [enc depth weight]. rewrite Eb. split; [reflexivity|cbn; lia].
  - (* TOp1 *) emprep He Hw. destruct (IHt md Ha) as (ea & Ea & La); [lia|]. rewrite Ea. cbn [option_bind].
    apply N.ltb_lt in He. assert (Hk : k = 0 \/ k = 1 \/ k = 2 \/ k = 3 \/ k = 4 \/ k = 5) by lia.
    destruct Hk as [->|[->|[->|[->|[->| ->]]]]]; cbn [op1_code option_bind];
      try (eexists; split; [reflexivity|lens]).
    + useframe md [0x11] ea pl Ef Lf. eexists; split; [reflexivity|lens].
    + useframe md [0x13] ea pl Ef Lf. eexists; split; [reflexivity|lens].
  - (* TOp2 *) emprep He Hw. destruct (IHt1 md Ha0) as (ea & Ea & La); [lia|]. destruct (IHt2 md Ha) as (eb & Eb & Lb); [lia|].
    rewrite Ea, Eb. cbn [option_bind]. apply N.ltb_lt in He.
    assert (Hk : k = 0 \/ k = 1 \/ k = 2 \/ k = 3 \/ k = 4 \/ k = 5 \/ k = 6 \/ k = 7 \/ k = 8 \/ k = 9) by lia.
    destruct Hk as [->|[->|[->|[->|[->|[->|[->|[->|[->| ->]]]]]]]]]; cbn [cmp_code option_bind]; eexists; (split; [reflexivity|lens]).
  - (* TOp3 *) emprep He Hw. destruct (is_some_true _ He) as [op Eo].
    destruct (IHt1 md Ha1) as (et & Et & Lt); [lia|]. destruct (IHt2 md Ha0) as (ea & Ea & La); [lia|].
    destruct (IHt3 md Ha) as (eb & Eb & Lb); [lia|]. rewrite Et, Ea, Eb, Eo. cbn [option_bind]. eexists; split; [reflexivity|lens].
  - (* TOp4 *) emprep He Hw. destruct (IHt1 md Ha2) as (ea & Ea & La); [lia|]. destruct (IHt2 md Ha1) as (eb & Eb & Lb); [lia|].
    destruct (IHt3 md Ha0) as (ec & Ec & Lc); [lia|]. destruct (IHt4 md Ha) as (ed & Ed & Ld); [lia|].
    rewrite Ea, Eb, Ec, Ed. cbn [option_bind]. apply N.ltb_lt in He. assert (Hk : k = 0 \/ k = 1) by lia.
    destruct Hk as [-> | ->]; eexists; (split; [reflexivity|lens]).
  - (* TName *) emprep He Hw. usepath He ep Ep Lp. destruct (IHt md Ha) as (ei & Ei & Li); [lia|]. rewrite Ei. cbn [option_bind].
    eexists; split; [reflexivity|lens].
  - (* TDevice *) emprep He Hw. usepath He ep Ep Lp. usekids H md Ha Hw eks Ek Lk.
    useframe md [0x5B; 0x82] (ep ++ eks) pl Ef Lf. eexists; split; [reflexivity|lens].
  - (* TScope *) emprep He Hw. usepath He ep Ep Lp. usekids H md Ha Hw eks Ek Lk.
    useframe md [0x10] (ep ++ eks) pl Ef Lf. eexists; split; [reflexivity|lens].
  - (* TScopeRaw *) rewrite scope_raw_eq. emprep He Hw. usepath He ep Ep Lp. usekids H md Ha Hw eks Ek Lk.
    useframe md [0x10] (ep ++ eks) pl Ef Lf. eexists; split; [reflexivity|lens].
  - (* TMethod *) emprep He Hw. usepath He ep Ep Lp. rewrite Ha0. cbn [assert option_bind]. usekids H md Ha Hw eks Ek Lk.
    match goal with |- context [framed md ?op ?body] => useframe md op body pl Ef Lf end. eexists; split; [reflexivity|lens].
  - (* TPowerRes *) emprep He Hw. usepath He ep Ep Lp. usekids H md Ha Hw eks Ek Lk.
    match goal with |- context [framed md ?op ?body] => useframe md op body pl Ef Lf end. eexists; split; [reflexivity|lens].
  - (* TOpRegion *) emprep He Hw. usepath He ep Ep Lp. destruct (IHt1 md Ha0) as (eo & Eo & Lo); [lia|].
    destruct (IHt2 md Ha) as (el & El & Ll); [lia|]. rewrite Eo, El. cbn [option_bind]. eexists; split; [reflexivity|lens].
  - (* TMutex *) emprep He Hw. usepath He ep Ep Lp. eexists; split; [reflexivity|lens].
  - (* TAcquire *) emprep He Hw. usepath He ep Ep Lp. eexists; split; [reflexivity|lens].
  - (* TRelease *) emprep He Hw. usepath He ep Ep Lp. eexists; split; [reflexivity|lens].
  - (* TCall *) emprep He Hw. usepath He ep Ep Lp. usekids H md Ha Hw eks Ek Lk. eexists; split; [reflexivity|lens].
  - (* TField *) emprep He Hw. usepath He ep Ep Lp.
    assert (Hes : exists ees, opt_concat_map (enc_fentry md) es = Some ees /\
                              (length ees <= fold_right (fun e acc => (fentry_weight e + acc)%nat) O es)%nat).
    { clear -Ha. induction es as [|e es IHe]; [exists []; split; [reflexivity|cbn; lia]|].
      cbn [forallb] in Ha. apply andb_true_iff in Ha. destruct Ha as [H1 H2]. destruct (IHe H2) as (er & Er & Lr).
      cbn [opt_concat_map fold_right]. rewrite Er.
      destruct e as [name len|len]; cbn [fentryb] in H1; apply N.ltb_lt in H1;
        destruct (pkg_len_excl_emit md len H1) as (pe & Epe & Lpe); cbn [enc_fentry]; rewrite Epe; cbn [option_bind fentry_weight];
        eexists; (split; [reflexivity|]); rewrite ?app_length; cbn [length]; rewrite ?app_length; lia. }
    destruct Hes as (ees & Ees & Les). rewrite Ees. cbn [option_bind].
    match goal with |- context [framed md ?op ?body] => useframe md op body pl Ef Lf end. eexists; split; [reflexivity|lens].
  - (* TPackage *) emprep He Hw. rewrite He. cbn [assert option_bind]. usekids H md Ha Hw eks Ek Lk.
    match goal with |- context [framed md ?op ?body] => useframe md op body pl Ef Lf end. eexists; split; [reflexivity|lens].
  - (* TPkgBuilder *) rewrite pkg_builder_eq. emprep He Hw. rewrite He. cbn [assert option_bind]. usekids H md Ha Hw eks Ek Lk.
    match goal with |- context [framed md ?op ?body] => useframe md op body pl Ef Lf end. eexists; split; [reflexivity|lens].
  - (* TResTemplate *) rewrite restemplate_framed. cbv zeta. emprep He Hw. usekids H md He Hw eks Ek Lk.
    pose proof (enc_usize_len (N.of_nat (length (eks ++ [0x79; 0])))) as Lu. set (u := enc_usize _) in *.
    match goal with |- context [framed md ?op ?body] => useframe md op body pl Ef Lf end. eexists; split; [reflexivity|lens].
  - (* TIf *) emprep He Hw. destruct (IHt md He) as (ep & Ep & Lp); [lia|]. rewrite Ep. cbn [option_bind]. usekids H md Ha Hw eks Ek Lk.
    match goal with |- context [framed md ?op ?body] => useframe md op body pl Ef Lf end. eexists; split; [reflexivity|lens].
  - (* TElse *) emprep He Hw. usekids H md He Hw eks Ek Lk.
    match goal with |- context [framed md ?op ?body] => useframe md op body pl Ef Lf end. eexists; split; [reflexivity|lens].
  - (* TWhile *) emprep He Hw. destruct (IHt md He) as (ep & Ep & Lp); [lia|]. rewrite Ep. cbn [option_bind]. usekids H md Ha Hw eks Ek Lk.
    match goal with |- context [framed md ?op ?body] => useframe md op body pl Ef Lf end. eexists; split; [reflexivity|lens].
Qed.

(* =====================================================================================================
   Part 5: well-formedness and emission follow from the Spec's own checks ([expect] succeeds), the argument ranges,
   and the arity table of the case *)

(* ---- the arity table ---- *)
Definition env_tbl (tbl : list (name_key * nat)) : arity_env :=
  fun k => match find (fun e => key_eqb (fst e) k) tbl with Some e => snd e | None => O end.

Definition consistent (tbl : list (name_key * nat)) : bool :=
  forallb (fun e => forallb (fun e' => negb (key_eqb (fst e) (fst e')) || Nat.eqb (snd e) (snd e')) tbl) tbl.

Lemma env_of_tbl c : env_of c = env_tbl (calls_of c). Proof. reflexivity. Qed.
Lemma env_consistent_tbl c : env_consistent c = consistent (calls_of c). Proof. reflexivity. Qed.

Lemma list_N_eqb_refl l : list_N_eqb l l = true.
Proof. apply list_N_eqb_eq. reflexivity. Qed.

Lemma key_eqb_refl k : key_eqb k k = true.
Proof. unfold key_eqb. rewrite list_N_eqb_refl, Nat.eqb_refl. destruct (fst k); reflexivity. Qed.

Lemma env_lookup tbl key n : consistent tbl = true -> In (key, n) tbl -> env_tbl tbl key = n.
Proof.
  intros Hc Hin. unfold env_tbl.
  destruct (find (fun e => key_eqb (fst e) key) tbl) as [e|] eqn:Ef.
  - apply find_some in Ef. destruct Ef as [He Hk]. unfold consistent in Hc. rewrite forallb_forall in Hc.
    specialize (Hc e He). rewrite forallb_forall in Hc. specialize (Hc (key, n) Hin). cbn [fst snd] in Hc.
    rewrite Hk in Hc. cbn [negb orb] in Hc. now apply Nat.eqb_eq in Hc.
  - exfalso. pose proof (find_none _ _ Ef (key, n) Hin) as Hn. cbn [fst] in Hn. rewrite key_eqb_refl in Hn. discriminate.
Qed.

Definition own_call (l : list sx) : list (name_key * nat) :=
  match l with
  | [SA 50; p; SL ks] =>
      match sx_bytes p with
      | Some t => match spec_path t with Some key => [(key, length ks)] | None => [] end
      | None => []
      end
  | _ => []
  end.

Lemma sub_fix l :
  (fix sub (l : list sx) : list (name_key * nat) := match l with [] => [] | x :: r => calls_of x ++ sub r end) l
  = flat_map calls_of l.
Proof. induction l as [|x l IH]; [reflexivity|]. cbn [flat_map]. now rewrite IH. Qed.

Lemma calls_of_eq l : calls_of (SL l) = own_call l ++ flat_map calls_of l.
Proof.
  rewrite <- sub_fix.
  destruct l as [|x r]; [reflexivity|]. destruct x as [k|l']; [|reflexivity].
  destruct k as [|kp]; [reflexivity|]. split_pos kp 6%nat; try reflexivity.
  destruct r as [|p [|[n|ks] [|y r]]]; try reflexivity.
  unfold own_call. cbn [calls_of]. destruct (sx_bytes p) as [t|]; [|reflexivity]. destruct (spec_path t); reflexivity.
Qed.

Lemma sub_incl c x : In x (kids_of c) -> incl (calls_of x) (calls_of c).
Proof.
  destruct c as [n|l]; [intros []|]. cbn [kids_of]. intros Hin e He. rewrite calls_of_eq. apply in_or_app. right.
  apply in_flat_map. exists x. split; assumption.
Qed.

Lemma sub_incl2 c ks x : In (SL ks) (kids_of c) -> In x ks -> incl (calls_of x) (calls_of c).
Proof.
  intros H1 H2 e He. apply (sub_incl c (SL ks) H1). apply (sub_incl (SL ks) x H2). exact He.
Qed.

(* ---- bare references in term position must not name an invoked method (the parser would read arguments) ---- *)
Fixpoint refsb (env : arity_env) (el : bool) (t : term) {struct t} : bool :=
  let all := fix all (el' : bool) (l : list term) : bool := match l with [] => true | x :: r => refsb env el' x && all el' r end in
  match t with
  | TPath s => el || match path_new s with Some q => Nat.eqb (env (key_of q)) 0 | None => true end
  | TFieldName s => el || Nat.eqb (env (false, [s])) 0
  | TOp1 _ a => refsb env false a
  | TOp2 _ a b => refsb env false a && refsb env false b
  | TOp3 _ a b c => refsb env false a && refsb env false b && refsb env false c
  | TOp4 _ a b c d => refsb env false a && refsb env false b && refsb env false c && refsb env false d
  | TName _ i => refsb env false i
  | TDevice _ ks | TScope _ ks | TScopeRaw _ ks | TMethod _ _ _ ks | TPowerRes _ _ _ ks | TCall _ ks | TElse ks => all false ks
  | TOpRegion _ _ o l => refsb env false o && refsb env false l
  | TPackage ks | TPkgBuilder ks => all true ks
  | TIf pr ks | TWhile pr ks => refsb env false pr && all false ks
  | _ => true
  end.

Lemma refsb_fix env el l :
  (fix all (el' : bool) (l : list term) : bool := match l with [] => true | x :: r => refsb env el' x && all el' r end) el l
  = forallb (refsb env el) l.
Proof. induction l as [|x l IH]; [reflexivity|]. cbn [forallb]. now rewrite IH. Qed.

(* ---- leaves ---- *)
Lemma name_ok p x gn : sx_bytes p = Some x -> name_of p = Some gn -> wf_name x /\ pathb x = true.
Proof.
  intros Hx H. destruct (name_of_gt p x gn Hx H) as (_ & Hw & q & Hq & _ & _ & Hl). split; [exact Hw|].
  unfold pathb. rewrite Hq. apply Nat.leb_le. lia.
Qed.

Lemma argsb_int env el ty n : argsb (TInt ty n) = true -> wf env el (TInt ty n) /\ emitb (TInt ty n) = true.
Proof.
  cbn [argsb wf emitb]. intros H.
  repeat (apply orb_true_iff in H; destruct H as [H|H]); apply andb_true_iff in H; destruct H as [H1 H2]; apply N.ltb_lt in H2.
  - apply N.eqb_eq in H1. subst ty. split; [auto|reflexivity].
  - apply N.eqb_eq in H1. subst ty. split; [auto|reflexivity].
  - apply N.eqb_eq in H1. subst ty. split; [auto 6|reflexivity].
  - apply orb_true_iff in H1. destruct H1 as [H1|H1]; apply N.eqb_eq in H1; subst ty; (split; [auto 7|reflexivity]).
Qed.

Section Derive.
  Variable tbl : list (name_key * nat).
  Hypothesis Hcons : consistent tbl = true.
  Let env := env_tbl tbl.

  Definition WD (c : sx) : Prop :=
    forall el t g, term_of_sx c = Some t -> expect el c = Some g -> argsb t = true -> refsb env el t = true ->
                   incl (calls_of c) tbl -> wf env el t /\ emitb t = true.

  Lemma WD_kids el ks : Forall WD ks -> forall ts gs, tkids ks = Some ts -> ekids el ks = Some gs ->
    forallb argsb ts = true -> forallb (refsb env el) ts = true -> (forall x, In x ks -> incl (calls_of x) tbl) ->
    wfs env el ts /\ forallb emitb ts = true.
  Proof.
    induction ks as [|x ks IH]; intros HF ts gs Ht Hg Ha Hr Hi.
    - inversion Ht; subst. split; [constructor|reflexivity].
    - inversion HF as [|? ? Hx Hks]; subst. unfold tkids in Ht. cbn [map_opt] in Ht. unfold ekids in Hg. cbn [map_opt] in Hg.
      destruct (term_of_sx x) as [t|] eqn:Et; [|discriminate]. destruct (map_opt term_of_sx ks) as [ts'|] eqn:Ets; [|discriminate].
      inversion Ht; subst ts. clear Ht.
      destruct (expect el x) as [g|] eqn:Eg; [|discriminate]. destruct (map_opt (expect el) ks) as [gs'|] eqn:Egs; [|discriminate].
      cbn [forallb] in Ha, Hr. apply andb_true_iff in Ha, Hr. destruct Ha as [Ha1 Ha2]. destruct Hr as [Hr1 Hr2].
      destruct (Hx el t g Et Eg Ha1 Hr1 (Hi x (or_introl eq_refl))) as [W E].
      destruct (IH Hks ts' gs' Ets Egs Ha2 Hr2 (fun y Hy => Hi y (or_intror Hy))) as [Ws Es].
      split; [constructor; assumption|]. cbn [forallb]. now rewrite E, Es.
  Qed.

  Ltac esome H :=
    repeat match type of H with
           | context [name_of ?p] => let E := fresh "En" in destruct (name_of p) eqn:E
           | context [expect ?el ?a] => let E := fresh "Ee" in destruct (expect el a) eqn:E
           | context [ekids ?el ?a] => let E := fresh "Eks" in destruct (ekids el a) eqn:E
           end;
    cbn [mkop opt_all option_map] in H; try discriminate H.

  Ltac child Hall Hinc a :=
    match goal with
    | Et : term_of_sx a = Some ?x, Ee : expect ?el a = Some ?g |- _ =>
        let W := fresh "W" in
        assert (W : wf env el x /\ emitb x = true)
          by (apply (Hall a ltac:(cbn; tauto) el x g Et Ee); [assumption|assumption|apply Hinc; cbn; tauto]);
        let W1 := fresh "Wf" in let W2 := fresh "Em" in destruct W as [W1 W2]
    end.

  Ltac kidsl Hdeep Hinc2 ks :=
    match goal with
    | Ek : tkids ks = Some ?ts, Ee : ekids ?el ks = Some ?gs |- _ =>
        let W := fresh "W" in
        assert (W : wfs env el ts /\ forallb emitb ts = true)
          by (apply (WD_kids el ks (Hdeep ks ltac:(cbn; tauto)) ts gs Ek Ee); [assumption|assumption|apply Hinc2; cbn; tauto]);
        let W1 := fresh "Wfs" in let W2 := fresh "Ems" in destruct W as [W1 W2]
    end.

  Ltac nameok p :=
    match goal with
    | Eb : sx_bytes p = Some ?x, En : name_of p = Some ?gn |- _ =>
        let W1 := fresh "Wn" in let W2 := fresh "Pb" in destruct (name_ok p x gn Eb En) as [W1 W2]
    end.

  Ltac fin := cbn [wf emitb]; rewrite ?wfs_fix, ?emitb_fix;
              repeat match goal with E : _ = true |- _ => rewrite E end; cbn [andb];
              repeat split; try assumption; try reflexivity; try lia.

  Theorem derive : forall c, WD c.
  Proof.
    induction c as [n|l IH ID] using sx_deep_ind; [intros el t g Ht; discriminate Ht|].
    intros el t g Ht Hg Ha Hr Hincl.
    assert (Hall : forall x, In x (kids_of (SL l)) -> WD x) by (apply Forall_forall; exact IH).
    assert (Hdeep : forall ks, In (SL ks) (kids_of (SL l)) -> Forall WD ks).
    { intros ks Hin. rewrite Forall_forall in ID. exact (ID (SL ks) Hin). }
    assert (Hinc : forall x, In x (kids_of (SL l)) -> incl (calls_of x) tbl).
    { intros x Hx e He. apply Hincl. exact (sub_incl (SL l) x Hx e He). }
    assert (Hinc2 : forall ks, In (SL ks) (kids_of (SL l)) -> forall x, In x ks -> incl (calls_of x) tbl).
    { intros ks Hk x Hx e He. apply Hincl. exact (sub_incl2 (SL l) ks x Hk Hx e He). }
    clear IH ID. revert Hall Hdeep Hinc Hinc2 Hincl Hg. pose proof (shape_inv (SL l) t Ht) as Hs. revert Ht.
    generalize dependent (SL l). intros c Hs.
    destruct Hs as [ | | | ty n| b| b| b| b| b| b| b| n| n| d| k a| k a b| k t0 a b| k a b c d| p i| p ks| p ks| p ks
      | p ar sr ks| p lv od ks| p sp o ln| p sy| p tm| p| p ks| p ac lk up es| ks| ks| ks| pr ks| ks| pr ks];
      intros Ht Hall Hdeep Hinc Hinc2 Hincl Hg; cbn [kids_of] in Hall, Hdeep, Hinc, Hinc2.
    - inversion Ht; subst. split; [exact I|reflexivity].
    - inversion Ht; subst. split; [exact I|reflexivity].
    - inversion Ht; subst. split; [exact I|reflexivity].
    - inversion Ht; subst. now apply argsb_int.
    - (* &str *) rewrite ex_str in Hg by auto. change (term_of_sx (SL [SA 5; b])) with (option_map TStr (sx_bytes b)) in Ht. tsome Ht.
      destruct (forallb _ _) eqn:E; [|discriminate]. split; [|reflexivity]. cbn [wf]. apply Forall_forall. intros x Hx.
      rewrite forallb_forall in E. specialize (E x Hx). apply andb_true_iff in E. destruct E as [E _]. apply N.leb_le in E. lia.
    - (* String *) rewrite ex_str in Hg by auto. change (term_of_sx (SL [SA 6; b])) with (option_map TStr (sx_bytes b)) in Ht. tsome Ht.
      destruct (forallb _ _) eqn:E; [|discriminate]. split; [|reflexivity]. cbn [wf]. apply Forall_forall. intros x Hx.
      rewrite forallb_forall in E. specialize (E x Hx). apply andb_true_iff in E. destruct E as [E _]. apply N.leb_le in E. lia.
    - (* Path *) rewrite ex7 in Hg. change (term_of_sx (SL [SA 7; b])) with (option_map TPath (sx_bytes b)) in Ht. tsome Ht.
      destruct (spec_path l0) as [[rt segs]|] eqn:E; [|discriminate]. destruct (spec_path_new _ _ _ E) as (Hn & Hw & Hl).
      cbn [refsb] in Hr. rewrite Hn in Hr. split.
      + cbn [wf]. eexists. split; [exact Hn|]. split; [exact Hw|]. intros ->. cbn [orb] in Hr. now apply Nat.eqb_eq in Hr.
      + cbn [emitb]. unfold pathb. rewrite Hn. cbn [p_parts]. apply Nat.leb_le. lia.
    - (* field name *) rewrite ex8 in Hg. change (term_of_sx (SL [SA 8; b])) with (option_map TFieldName (sx_bytes b)) in Ht. tsome Ht.
      destruct (is_nameseg l0) eqn:E; [|discriminate]. cbn [refsb] in Hr. split; [|reflexivity]. cbn [wf]. split; [exact E|].
      intros ->. cbn [orb] in Hr. now apply Nat.eqb_eq in Hr.
    - (* EISA *) rewrite ex9 in Hg. change (term_of_sx (SL [SA 9; b])) with (option_map TEisa (sx_bytes b)) in Ht. tsome Ht.
      destruct (spec_eisa_value l0) as [x|] eqn:E; [|discriminate]. split; [exact I|]. cbn [emitb]. now rewrite (spec_eisa_model _ _ E).
    - (* Uuid *) rewrite ex10 in Hg. change (term_of_sx (SL [SA 10; b])) with (option_map TUuid (sx_bytes b)) in Ht. tsome Ht.
      destruct (spec_uuid_bytes l0) as [x|] eqn:E; [|discriminate]. split; [exact I|]. cbn [emitb]. now rewrite (spec_uuid_model _ _ E).
    - (* BufferData *) change (term_of_sx (SL [SA 11; b])) with (option_map TBufData (sx_bytes b)) in Ht. tsome Ht. split; [exact I|reflexivity].
    - rewrite ex12 in Hg. inversion Ht; subst. destruct (n <=? 6) eqn:E; [|discriminate]. split; [exact I|exact E].
    - rewrite ex13 in Hg. inversion Ht; subst. destruct (n <=? 7) eqn:E; [|discriminate]. split; [exact I|exact E].
    - rewrite ex_desc in Hg. discriminate Hg.
    - (* one operand *) rewrite ex30 in Hg. rewrite tos30 in Ht. tsome Ht. cbn [argsb refsb] in Ha, Hr.
      destruct (expect false a) as [ga|] eqn:Ee; [|destruct k as [|kp]; [|split_pos kp 3%nat]; discriminate Hg].
      child Hall Hinc a. destruct k as [|kp]; [|split_pos kp 3%nat]; try discriminate Hg; fin.
    - (* two operands *) rewrite ex31 in Hg. rewrite tos31 in Ht. tsome Ht. cbn [argsb refsb] in Ha, Hr. andbs Ha. andbs Hr.
      destruct (expect false a) as [ga|] eqn:Ee1; [|destruct k as [|kp]; [|split_pos kp 4%nat]; cbn in Hg; try discriminate Hg;
                                                      destruct (expect false b); discriminate Hg].
      destruct (expect false b) as [gb|] eqn:Ee2; [|destruct k as [|kp]; [|split_pos kp 4%nat]; discriminate Hg].
      child Hall Hinc a. child Hall Hinc b. destruct k as [|kp]; [|split_pos kp 4%nat]; try discriminate Hg; fin.
    - (* three operands *) rewrite ex32 in Hg. rewrite tos32 in Ht. tsome Ht. cbn [argsb refsb] in Ha, Hr. andbs Ha. andbs Hr.
      destruct (op3_code k) as [code|] eqn:Eo; [|discriminate]. esome Hg.
      child Hall Hinc t0. child Hall Hinc a. child Hall Hinc b.
      assert (Hk : k < 17).
      { change (op3_code k = Some code) in Eo.
        assert (Hn : nth_error op3_list (N.to_nat k) <> None) by (change (op3_code k <> None); rewrite Eo; discriminate).
        apply nth_error_Some in Hn. cbn [op3_list length] in Hn. lia. }
      change (op3_code k = Some code) in Eo. cbn [wf emitb]. rewrite Eo. cbn [is_some]. fin.
    - (* four operands *) rewrite ex33 in Hg. rewrite tos33 in Ht. tsome Ht. cbn [argsb refsb] in Ha, Hr. andbs Ha. andbs Hr.
      destruct k as [|[kp|kp|]]; try discriminate Hg; esome Hg; child Hall Hinc a; child Hall Hinc b; child Hall Hinc c; child Hall Hinc d; fin.
    - (* Name *) rewrite ex40 in Hg. rewrite tos40 in Ht. tsome Ht. cbn [argsb refsb] in Ha, Hr. esome Hg. nameok p. child Hall Hinc i. fin.
    - (* Device *) rewrite ex41 in Hg. rewrite tos41 in Ht. tsome Ht. cbn [argsb refsb] in Ha, Hr. rewrite ?argsb_fix, ?refsb_fix in *.
      esome Hg. nameok p. kidsl Hdeep Hinc2 ks. fin.
    - (* Scope *) rewrite ex42 in Hg. rewrite tos42 in Ht. tsome Ht. cbn [argsb refsb] in Ha, Hr. rewrite ?argsb_fix, ?refsb_fix in *.
      esome Hg. nameok p. kidsl Hdeep Hinc2 ks. fin.
    - (* Scope::raw *) rewrite ex43 in Hg. rewrite tos43 in Ht. tsome Ht. cbn [argsb refsb] in Ha, Hr. rewrite ?argsb_fix, ?refsb_fix in *.
      esome Hg. nameok p. kidsl Hdeep Hinc2 ks. fin.
    - (* Method *) rewrite ex44 in Hg. rewrite tos44 in Ht. tsome Ht. cbn [argsb refsb] in Ha, Hr. rewrite ?argsb_fix, ?refsb_fix in *.
      destruct ((ar <=? 7) && (sr <=? 1)) eqn:Ec; [|discriminate]. apply andb_true_iff in Ec. destruct Ec as [Ec1 Ec2].
      esome Hg. nameok p. kidsl Hdeep Hinc2 ks. apply N.leb_le in Ec2. fin.
    - (* PowerResource *) rewrite ex45 in Hg. rewrite tos45 in Ht. tsome Ht. cbn [argsb refsb] in Ha, Hr. rewrite ?argsb_fix, ?refsb_fix in *.
      andbs Ha. esome Hg. nameok p. kidsl Hdeep Hinc2 ks. apply N.ltb_lt in Ha, Ha1. fin.
    - (* OpRegion *) rewrite ex46 in Hg. rewrite tos46 in Ht. tsome Ht. cbn [argsb refsb] in Ha, Hr. andbs Ha. andbs Hr.
      esome Hg. nameok p. child Hall Hinc o. child Hall Hinc ln. apply N.ltb_lt in Ha. fin.
    - (* Mutex *) rewrite ex47 in Hg. change (term_of_sx (SL [SA 47; p; SA sy])) with (option_map (fun x => TMutex x sy) (sx_bytes p)) in Ht.
      tsome Ht. cbn [argsb] in Ha. esome Hg. nameok p. apply N.ltb_lt in Ha. fin.
    - (* Acquire *) rewrite ex48 in Hg. change (term_of_sx (SL [SA 48; p; SA tm])) with (option_map (fun x => TAcquire x tm) (sx_bytes p)) in Ht.
      tsome Ht. cbn [argsb] in Ha. esome Hg. nameok p. apply N.ltb_lt in Ha. fin.
    - (* Release *) rewrite ex49 in Hg. change (term_of_sx (SL [SA 49; p])) with (option_map TRelease (sx_bytes p)) in Ht.
      tsome Ht. esome Hg. nameok p. fin.
    - (* MethodCall *) rewrite ex50 in Hg. rewrite tos50 in Ht. tsome Ht. cbn [argsb refsb] in Ha, Hr. rewrite ?argsb_fix, ?refsb_fix in *.
      destruct (spec_path l0) as [[rt segs]|] eqn:E; [|discriminate]. destruct (ekids false ks) as [args|] eqn:Eks; [|discriminate].
      destruct (spec_path_new _ _ _ E) as (Hn & Hw & Hl). kidsl Hdeep Hinc2 ks.
      assert (Hlen : length l1 = length ks) by (apply (map_opt_length _ _ _ Ek)).
      assert (Hlg : length args = length ks) by (apply (map_opt_length _ _ _ Eks)).
      split.
      + cbn [wf]. rewrite wfs_fix. split; [|exact Wfs]. eexists. split; [exact Hn|]. split; [exact Hw|].
        destruct el.
        * cbn [andb] in Hg. destruct ks as [|k0 ks']; [|rewrite Hlg in Hg; discriminate Hg]. destruct l1; [reflexivity|discriminate Hlen].
        * unfold key_of. cbn [p_root p_parts]. rewrite Hlen. apply (env_lookup tbl (rt, segs) (length ks) Hcons). apply Hincl.
          rewrite calls_of_eq. apply in_or_app. left. unfold own_call. rewrite Eb, E. left. reflexivity.
      + cbn [emitb]. rewrite emitb_fix, Ems. unfold pathb. rewrite Hn. cbn [p_parts].
        assert (Hle : Nat.leb (length segs) 255 = true) by (apply Nat.leb_le; lia). rewrite Hle. reflexivity.
    - (* Field *) rewrite ex51 in Hg. rewrite tos51 in Ht.
      destruct (sx_bytes p) as [x|] eqn:Eb; [|discriminate]. destruct (map_opt fentry_of_sx es) as [fs|] eqn:Ef; [|discriminate].
      inversion Ht; subst t. clear Ht. destruct ((ac <=? 5) && (lk <=? 1) && (up <=? 2)) eqn:Ec; [|discriminate].
      apply andb_true_iff in Ec. destruct Ec as [Ec Ec3]. apply andb_true_iff in Ec. destruct Ec as [Ec1 Ec2].
      apply N.leb_le in Ec1, Ec2, Ec3.
      destruct (name_of p) as [gn|] eqn:En; [|discriminate]. destruct (opt_all (map fe_of es)) as [gs|] eqn:Eg; [|cbn in Hg; discriminate].
      nameok p. destruct (fields_link es fs gs Ef Eg) as [_ Hwf].
      split; [cbn [wf]; repeat split; try assumption; lia|]. cbn [emitb]. rewrite Pb. cbn [andb].
      apply forallb_forall. intros e He. rewrite Forall_forall in Hwf. specialize (Hwf e He).
      destruct e as [nm len|len]; cbn [wf_fentry fentryb] in *; apply N.ltb_lt; tauto.
    - (* Package *) rewrite ex_pkg in Hg by auto. rewrite tos60 in Ht. tsome Ht. cbn [argsb refsb] in Ha, Hr. rewrite ?argsb_fix, ?refsb_fix in *.
      destruct (Nat.leb (length ks) 255) eqn:Ec; [|discriminate]. apply Nat.leb_le in Ec. esome Hg. kidsl Hdeep Hinc2 ks.
      cbn [wf emitb]. rewrite wfs_fix, emitb_fix, Ems, (map_opt_length _ _ _ Ek).
      assert (Hle : (N.of_nat (length ks) <=? 255) = true) by (apply N.leb_le; lia). rewrite Hle. split; [exact Wfs|reflexivity].
    - (* PackageBuilder *) rewrite ex_pkg in Hg by auto. rewrite tos61 in Ht. tsome Ht. cbn [argsb refsb] in Ha, Hr. rewrite ?argsb_fix, ?refsb_fix in *.
      destruct (Nat.leb (length ks) 255) eqn:Ec; [|discriminate]. apply Nat.leb_le in Ec. esome Hg. kidsl Hdeep Hinc2 ks.
      cbn [wf emitb]. rewrite wfs_fix, emitb_fix, Ems, (map_opt_length _ _ _ Ek).
      assert (Hle : (N.of_nat (length ks) <=? 255) = true) by (apply N.leb_le; lia). rewrite Hle. split; [exact Wfs|reflexivity].
    - (* ResourceTemplate *) rewrite ex62 in Hg. rewrite tos62 in Ht. tsome Ht. cbn [argsb] in Ha. rewrite argsb_fix in Ha.
      destruct (opt_all (map ref_of ks)) as [ds|] eqn:Ed; [|discriminate].
      destruct (descs_link ks _ ds Ek Ed) as (dd & _ & -> & Hm).
      assert (Hrg : Forall desc_in_range dd).
      { apply Forall_forall. intros d Hd. apply desc_in_rangeb_ok. rewrite forallb_forall in Ha.
        exact (Ha (TDesc d) (in_map TDesc dd d Hd)). }
      specialize (Hm Hrg). split.
      + cbn [wf]. apply Forall_forall. intros x Hx. apply in_map_iff in Hx. destruct Hx as (d & <- & _). exists d. reflexivity.
      + cbn [emitb]. rewrite emitb_fix. apply forallb_forall. intros x Hx. apply in_map_iff in Hx. destruct Hx as (d & <- & Hd).
        cbn [emitb]. clear -Hm Hd. revert ds Hm. induction dd as [|d0 dd IHd]; intros ds Hm; [destruct Hd|].
        destruct ds as [|b0 ds]; [discriminate|]. cbn [map] in Hm. inversion Hm as [[H1 H2]].
        destruct Hd as [->|Hd]; [rewrite H1; reflexivity|exact (IHd Hd ds H2)].
    - (* If *) rewrite ex63 in Hg. rewrite tos63 in Ht. tsome Ht. cbn [argsb refsb] in Ha, Hr. rewrite ?argsb_fix, ?refsb_fix in *.
      andbs Ha. andbs Hr. esome Hg. child Hall Hinc pr. kidsl Hdeep Hinc2 ks. fin.
    - (* Else *) rewrite ex64 in Hg. rewrite tos64 in Ht. tsome Ht. cbn [argsb refsb] in Ha, Hr. rewrite ?argsb_fix, ?refsb_fix in *.
      esome Hg. kidsl Hdeep Hinc2 ks. fin.
    - (* While *) rewrite ex65 in Hg. rewrite tos65 in Ht. tsome Ht. cbn [argsb refsb] in Ha, Hr. rewrite ?argsb_fix, ?refsb_fix in *.
      andbs Ha. andbs Hr. esome Hg. child Hall Hinc pr. kidsl Hdeep Hinc2 ks. fin.
  Qed.
End Derive.

(* =====================================================================================================
   Part 6: the oracles accept what the model emits *)

(* ---- the tree comparison of the oracle is reflexive ---- *)
Section GtInd.
  Variable P : gt -> Prop.
  Hypothesis Hint : forall n, P (GInt n). Hypothesis Hstr : forall s, P (GStr s). Hypothesis Hones : P GOnes.
  Hypothesis Harg : forall n, P (GArg n). Hypothesis Hlocal : forall n, P (GLocal n).
  Hypothesis Hname : forall r s, P (GName r s).
  Hypothesis Hcall : forall r s args, Forall P args -> P (GCall r s args).
  Hypothesis Hbuf : forall sz d, P sz -> P (GBuffer sz d).
  Hypothesis Hnum : forall n, P (GNum n). Hypothesis Hfield : forall nm l, P (GField nm l).
  Hypothesis Hop : forall c f k, Forall P f -> Forall P k -> P (GOp c f k).
  Fixpoint gt_ind' (g : gt) : P g :=
    let all := fix all (l : list gt) : Forall P l :=
                 match l with [] => Forall_nil P | x :: r => Forall_cons x (gt_ind' x) (all r) end in
    match g with
    | GInt n => Hint n | GStr s => Hstr s | GOnes => Hones | GArg n => Harg n | GLocal n => Hlocal n
    | GName r s => Hname r s | GCall r s args => Hcall r s args (all args)
    | GBuffer sz d => Hbuf sz d (gt_ind' sz) | GNum n => Hnum n | GField nm l => Hfield nm l
    | GOp c f k => Hop c f k (all f) (all k)
    end.
End GtInd.

Lemma all2_refl l : Forall (fun g => gt_eqb g g = true) l ->
  (fix all2 (x y : list gt) : bool :=
     match x, y with [], [] => true | p :: x', q :: y' => gt_eqb p q && all2 x' y' | _, _ => false end) l l = true.
Proof. induction 1 as [|g l Hg _ IH]; [reflexivity|]. rewrite Hg, IH. reflexivity. Qed.

Lemma gt_eqb_refl g : gt_eqb g g = true.
Proof.
  induction g using gt_ind'; cbn [gt_eqb]; rewrite ?N.eqb_refl, ?list_N_eqb_refl, ?Nat.eqb_refl, ?eqb_reflx; cbn [andb]; try reflexivity.
  - now apply all2_refl.
  - rewrite IHg. reflexivity.
  - rewrite (all2_refl f), (all2_refl k) by assumption. reflexivity.
Qed.

(* ---- domains ---- *)
(* argument ranges, bare references, size: read off the term the vocabulary reader builds from the case *)
Definition extra (c : sx) : bool :=
  match term_of_sx c with
  | Some t => argsb t && refsb (env_of c) false t && (N.of_nat (weight t) <? 2 ^ 28)
  | None => false
  end.

(* C06 / C07 / C15 on component 40: the case is judged ([expect] succeeds and the invocations agree on arities) and [extra] *)
Definition coh_domain (c : sx) : bool := judged 6 40 c && extra c.

(* everything the theorems need, from the domain *)
Lemma domain_facts c : coh_domain c = true ->
  exists t g, term_of_sx c = Some t /\ expect false c = Some g /\ env_consistent c = true /\
    wf (env_of c) false t /\ norm false t = Some g /\
    forall md, exists b, enc md t = Some b /\ (depth t <= length b)%nat /\ N.of_nat (length b) < 2 ^ 28.
Proof.
  unfold coh_domain, judged, extra. intros H. apply andb_true_iff in H. destruct H as [Hj He].
  destruct (expect false c) as [g|] eqn:Hg; [|discriminate]. destruct (term_of_sx c) as [t|] eqn:Ht; [|discriminate].
  apply andb_true_iff in He. destruct He as [He Hw]. apply andb_true_iff in He. destruct He as [Ha Hr]. apply N.ltb_lt in Hw.
  rewrite env_of_tbl in Hr. rewrite env_consistent_tbl in Hj.
  destruct (derive (calls_of c) Hj c false t g Ht Hg Ha Hr (incl_refl _)) as [Wf Em].
  exists t, g. repeat split; try assumption.
  - exact (link c false t Ht Ha g Hg).
  - intros md. destruct (EM_all t md Em Hw) as (b & E & Hl). exists b. split; [exact E|]. split; [lia|].
    change (2 ^ 28) with 268435456 in *. lia.
Qed.

Lemma small_63 n : n < 2 ^ 28 -> n < 2 ^ 63.
Proof. intros H. eapply N.lt_trans; [exact H|reflexivity]. Qed.

(* ---- C06 ---- *)
Theorem c06_coherent md c : coh_domain c = true -> c06_oracle c (aml_case md c) = true.
Proof.
  intros H. destruct (domain_facts c H) as (t & g & Ht & Hg & Hc & Wf & Hn & Hem).
  destruct (Hem md) as (b & E & Hd & Hs).
  destruct (roundtrip (env_of c) t false md b Wf E (small_63 _ Hs)) as (g' & Hn' & Hrt).
  rewrite Hn in Hn'. inversion Hn'; subst g'.
  unfold c06_oracle, aml_case. rewrite Hg, Hc, Ht, E. cbn [negb ev_opt].
  pose proof (Hrt (S (length b)) ltac:(lia) []) as Hp. rewrite app_nil_r in Hp. rewrite Hp. apply gt_eqb_refl.
Qed.

(* ---- C07 at the call sites ---- *)
Lemma frame_check pl body :
  (forall r, pkg_decode (pl ++ body ++ r) = Some (N.of_nat (length pl + length body), body ++ r)) -> lead_ok pl ->
  (forall w, (1 <= w < length pl)%nat -> pkg_cap w < N.of_nat (length body) + N.of_nat w) ->
  match pkg_decode (pl ++ body) with
  | Some (n, body') =>
      let pre := firstn (length (pl ++ body) - length body') (pl ++ body) in
      (n =? N.of_nat (length (pl ++ body))) && pkg_lead_format_ok pre && pkg_minimal (N.of_nat (length body')) pre
  | None => false
  end = true.
Proof.
  intros Hd Hl Hm. pose proof (Hd []) as H0. rewrite !app_nil_r in H0. rewrite H0. cbv zeta.
  rewrite app_length. replace (length pl + length body - length body)%nat with (length pl) by lia.
  rewrite firstn_app_exact. rewrite N.eqb_refl. cbn [andb].
  assert (Hf : pkg_lead_format_ok pl = true).
  { unfold lead_ok in Hl. unfold pkg_lead_format_ok. destruct pl as [|b0 [|b1 rest]]; [destruct Hl|now apply N.ltb_lt|].
    destruct Hl as (H1 & H2 & H3). rewrite H1, H2, N.eqb_refl. cbn [andb N.eqb]. now apply Nat.leb_le. }
  rewrite Hf. cbn [andb]. unfold pkg_minimal. cbn [forallb]. rewrite andb_true_r.
  assert (Hw : forall w, (1 <= w)%nat -> (if Nat.ltb w (length pl) then pkg_cap w <? N.of_nat (length body) + N.of_nat w else true) = true).
  { intros w Hw1. destruct (Nat.ltb_spec w (length pl)); [|reflexivity]. apply N.ltb_lt. apply Hm. lia. }
  rewrite (Hw 1%nat), (Hw 2%nat), (Hw 3%nat) by lia. reflexivity.
Qed.

Ltac fsite md b E Hs :=
  match type of E with
  | enc md ?t = Some b =>
      let pl := fresh "pl" in let body := fresh "body" in let Hd := fresh "Hd" in let Hl := fresh "Hl" in let Hm := fresh "Hm" in
      destruct (frame_sites md t _ b eq_refl E Hs) as (pl & body & -> & Hd & Hl & Hm); cbn [app]; now apply frame_check
  end.

Lemma c07_frame_ok md c t b :
  term_of_sx c = Some t -> enc md t = Some b -> N.of_nat (length b) < 2 ^ 63 -> c07_frame_oracle c [EvBytes b] = true.
Proof.
  intros Ht E Hs. unfold c07_frame_oracle. destruct (c07_framed_head c) eqn:Hh; [|reflexivity]. cbn [negb].
  pose proof (shape_inv c t Ht) as Hsh.
  destruct Hsh as [ | | | ty n| b0| b0| b0| b0| b0| b0| b0| n| n| d| k a| k a b0| k t0 a b0| k a b0 c d| p i| p ks| p ks| p ks
    | p ar sr ks| p lv od ks| p sp o ln| p sy| p tm| p| p ks| p ac lk up es| ks| ks| ks| pr ks| ks| pr ks];
    try discriminate Hh.
  - (* BufferData *) change (term_of_sx (SL [SA 11; b0])) with (option_map TBufData (sx_bytes b0)) in Ht. tsome Ht.
    fsite md b E Hs.
  - destruct d; discriminate Hh.
  - (* BufferTerm / VarPackageTerm *) rewrite tos30 in Ht. tsome Ht.
    destruct k as [|kp]; [discriminate Hh|]. split_pos kp 3%nat; try discriminate Hh.
    + fsite md b E Hs.
    + fsite md b E Hs.
  - rewrite tos41 in Ht. tsome Ht. fsite md b E Hs.
  - rewrite tos42 in Ht. tsome Ht. fsite md b E Hs.
  - rewrite tos43 in Ht. tsome Ht. fsite md b E Hs.
  - rewrite tos44 in Ht. tsome Ht. fsite md b E Hs.
  - rewrite tos45 in Ht. tsome Ht. fsite md b E Hs.
  - rewrite tos51 in Ht. destruct (sx_bytes p); [|discriminate]. destruct (map_opt fentry_of_sx es); [|discriminate]. inversion Ht; subst t.
    fsite md b E Hs.
  - rewrite tos60 in Ht. tsome Ht. fsite md b E Hs.
  - rewrite tos61 in Ht. tsome Ht. fsite md b E Hs.
  - rewrite tos62 in Ht. tsome Ht. fsite md b E Hs.
  - rewrite tos63 in Ht. tsome Ht. fsite md b E Hs.
  - rewrite tos64 in Ht. tsome Ht. fsite md b E Hs.
  - rewrite tos65 in Ht. tsome Ht. fsite md b E Hs.
Qed.

Theorem c07_coherent md c : coh_domain c = true -> c07_frame_oracle c (aml_case md c) && c06_oracle c (aml_case md c) = true.
Proof.
  intros H. rewrite (c06_coherent md c H), andb_true_r.
  destruct (domain_facts c H) as (t & g & Ht & _ & _ & _ & _ & Hem). destruct (Hem md) as (b & E & _ & Hs).
  unfold aml_case. rewrite Ht, E. cbn [ev_opt]. exact (c07_frame_ok md c t b Ht E (small_63 _ Hs)).
Qed.

(* ---- C10 ---- *)
(* a bare descriptor with in-range arguments *)
Definition desc_domain (c : sx) : bool :=
  match term_of_sx c with Some (TDesc d) => desc_in_rangeb d | _ => false end.

Ltac kill Ht :=
  simpl in Ht;
  repeat match type of Ht with
         | context [match ?x with _ => _ end] => destruct x
         | context [option_map _ ?x] => destruct x; cbn [option_map] in Ht
         end;
  discriminate Ht.

Lemma desc_case c d : term_of_sx c = Some (TDesc d) -> c = SL (desc_to_sx d).
Proof.
  intros Ht. pose proof (shape_inv c _ Ht) as Hsh.
  destruct Hsh as [ | | | ty n| b0| b0| b0| b0| b0| b0| b0| n| n| d'| k a| k a b0| k t0 a b0| k a b0 c d'| p i| p ks| p ks| p ks
    | p ar sr ks| p lv od ks| p sp o ln| p sy| p tm| p| p ks| p ac lk up es| ks| ks| ks| pr ks| ks| pr ks];
    try (kill Ht).
  rewrite term_of_desc_sx in Ht. inversion Ht. reflexivity.
Qed.

Lemma c10_oracle_desc d impl :
  c10_oracle (SL (desc_to_sx d)) impl =
  match ref_desc (desc_to_sx d), impl with
  | Some r, [EvBytes b] => list_N_eqb b r && match rd_walk 2 b with Some [(_, _)] => true | _ => false end
  | Some _, _ => false
  | None, _ => true
  end.
Proof. destruct d as [rw base len|w ty ca rw mn mx [t|]|mn mx al len|c e a s n|sp wd off ac ad]; reflexivity. Qed.

Theorem c10_desc_coherent md c : desc_domain c = true ->
  c10_oracle c (aml_case md c) && c06_oracle c (aml_case md c) = true.
Proof.
  unfold desc_domain. intros H. destruct (term_of_sx c) as [t|] eqn:Ht; [|discriminate]. destruct t; try discriminate.
  pose proof (desc_case c d Ht) as ->. apply desc_in_rangeb_ok in H.
  unfold c06_oracle. rewrite ex_desc, andb_true_r. rewrite c10_oracle_desc. unfold aml_case. rewrite Ht. cbn [enc].
  rewrite (desc_is_reference d H). destruct (ref_desc (desc_to_sx d)) as [r|] eqn:Er; [|reflexivity]. cbn [ev_opt].
  rewrite list_N_eqb_refl. cbn [andb]. rewrite <- (desc_is_reference d H) in Er.
  destruct (desc_framed d r Er) as (payload & _ & Hw). specialize (Hw 1%nat []). rewrite app_nil_r in Hw. rewrite Hw. reflexivity.
Qed.

Lemma map_some_inj {A} (l l' : list A) : map Some l = map Some l' -> l = l'.
Proof. revert l'; induction l as [|x l IH]; intros [|y l'] H; try discriminate; [reflexivity|]. inversion H. f_equal. now apply IH. Qed.

Theorem c10_coherent md c : coh_domain c = true -> c10_oracle c (aml_case md c) && c06_oracle c (aml_case md c) = true.
Proof.
  intros H. rewrite (c06_coherent md c H), andb_true_r.
  destruct (domain_facts c H) as (t & g & Ht & Hg & _ & _ & _ & Hem). destruct (Hem md) as (b & E & _ & Hs).
  unfold coh_domain, extra in H. rewrite Ht in H. apply andb_true_iff in H. destruct H as [_ H]. apply andb_true_iff in H. destruct H as [H _].
  apply andb_true_iff in H. destruct H as [Ha _].
  pose proof (shape_inv c t Ht) as Hsh.
  destruct Hsh as [ | | | ty n| b0| b0| b0| b0| b0| b0| b0| n| n| d| k a| k a b0| k t0 a b0| k a b0 c d| p i| p ks| p ks| p ks
    | p ar sr ks| p lv od ks| p sp o ln| p sy| p tm| p| p ks| p ac lk up es| ks| ks| ks| pr ks| ks| pr ks];
    try reflexivity.
  - rewrite ex_desc in Hg. discriminate Hg.
  - (* ResourceTemplate *) rewrite ex62 in Hg. rewrite tos62 in Ht. tsome Ht. cbn [argsb] in Ha. rewrite argsb_fix in Ha.
    destruct (opt_all (map ref_of ks)) as [ds|] eqn:Ed; [|discriminate].
    destruct (descs_link ks _ ds Ek Ed) as (dd & _ & -> & Hm).
    assert (Hrg : Forall desc_in_range dd).
    { apply Forall_forall. intros d Hd. apply desc_in_rangeb_ok. rewrite forallb_forall in Ha.
      exact (Ha (TDesc d) (in_map TDesc dd d Hd)). }
    specialize (Hm Hrg).
    destruct (res_template_correct md (map TDesc dd) b [] (is_desc_map dd) E (small_63 _ Hs)) as (bs & payload & items0 & Hbs & Hp & Hbuf & _).
    rewrite descs_of_map in Hbs. rewrite Hm in Hbs. apply map_some_inj in Hbs. subst bs. rewrite app_nil_r in Hbuf.
    destruct (template_decodes_gen md dd b Hrg E (small_63 _ Hs)) as (payload' & items & Hbuf' & Hw & Hv & Hlen).
    rewrite Hbuf in Hbuf'. inversion Hbuf' as [[H1 H2]]. subst payload'. clear Hbuf'.
    unfold aml_case. rewrite tos62, Ek. cbn [option_map]. rewrite E. cbn [ev_opt]. unfold c10_oracle.
    change (opt_all (map (fun d : sx => match d with SL dl => ref_desc dl | SA _ => None end) ks)) with (opt_all (map ref_of ks)).
    rewrite Ed, Hbuf. rewrite N.eqb_refl. cbn [andb]. rewrite (Hw (S (length payload)) ltac:(lia)).
    assert (Hl1 : length items = length dd) by (rewrite <- (map_length decode_item items), Hv, map_length; reflexivity).
    assert (Hl2 : length ds = length dd) by (rewrite <- (map_length Some ds), <- Hm, map_length; reflexivity).
    rewrite app_length. cbn [length]. rewrite Hl1, Hl2, Nat.add_1_r, Nat.eqb_refl. cbn [andb].
    rewrite Hp, list_N_eqb_refl. cbn [andb]. rewrite last_last. reflexivity.
Qed.

(* ---- C15 on component 41: alternative constructions of the same object ---- *)
Inductive alt : sx -> sx -> Prop :=
| alt_same x : alt x x
| alt_scope p ks : alt (SL [SA 42; p; SL ks]) (SL [SA 43; p; SL ks])            (* Scope::new / Scope::raw *)
| alt_pkg ks : alt (SL [SA 60; SL ks]) (SL [SA 61; SL ks])                     (* Package / PackageBuilder *)
| alt_str b : alt (SL [SA 5; b]) (SL [SA 6; b])                               (* &str / String *)
| alt_int n : n < 2 ^ 64 -> alt (SL [SA 4; SA 0; SA n]) (SL [SA 4; SA 64; SA n]). (* usize / u64 *)

Lemma alt_terms x y : alt x y ->
  (term_of_sx x = None /\ term_of_sx y = None) \/
  (exists a b, term_of_sx x = Some a /\ term_of_sx y = Some b /\ forall md, enc md a = enc md b).
Proof.
  intros [x0|p ks|ks|b|n Hn].
  - destruct (term_of_sx x0) as [a|]; [right; exists a, a; auto|left; auto].
  - rewrite tos42, tos43. destruct (sx_bytes p) as [x0|]; [|left; auto]. destruct (tkids ks) as [ts|]; [|left; auto].
    right. exists (TScope x0 ts), (TScopeRaw x0 ts). repeat split. intros md. symmetry. apply scope_raw_eq.
  - rewrite tos60, tos61. destruct (tkids ks) as [ts|]; [|left; auto]. cbn [option_map].
    right. exists (TPackage ts), (TPkgBuilder ts). repeat split. intros md. symmetry. apply pkg_builder_eq.
  - rewrite <- str_string_same. destruct (term_of_sx (SL [SA 5; b])) as [a|]; [right; exists a, a; auto|left; auto].
  - right. exists (TInt 0 n), (TInt 64 n). repeat split. intros md. now apply usize_u64_eq.
Qed.

(* the pair is an alternative construction, and when the first construction is judged it is in the C06 domain *)
Definition pair_domain (x y : sx) : Prop :=
  alt x y /\ (judged 15 41 (SL [x; y]) = true -> coh_domain x = true).

Theorem c15_pair_coherent md x y : pair_domain x y -> c15_oracle (SL [x; y]) (aml_pair_case md (SL [x; y])) = true.
Proof.
  intros [Halt Hdom]. unfold judged in Hdom.
  assert (Hemit : forall g, expect false x = Some g -> exists t b, term_of_sx x = Some t /\ enc md t = Some b).
  { intros g Hg. rewrite Hg in Hdom. destruct (domain_facts x (Hdom eq_refl)) as (t & _ & Ht & _ & _ & _ & _ & Hem).
    destruct (Hem md) as (b & E & _). exists t, b. auto. }
  unfold aml_pair_case, c15_oracle.
  destruct (alt_terms x y Halt) as [[Hx Hy]|(a & b & Hx & Hy & Heq)].
  - rewrite Hx. destruct (expect false x) as [g|] eqn:Hg; [|reflexivity].
    destruct (Hemit g eq_refl) as (t & b & Ht & _). congruence.
  - rewrite Hx, Hy, <- (Heq md). destruct (enc md a) as [ba|] eqn:Ea; [apply list_N_eqb_refl|].
    destruct (expect false x) as [g|] eqn:Hg; [|reflexivity].
    destruct (Hemit g eq_refl) as (t & b' & Ht & E). congruence.
Qed.

(* =====================================================================================================
   Part 7: the statements in terms of the driver's entry points [oracle] and [run_case] (Judge.v) *)
Theorem coherence_c06 md c : coh_domain c = true -> oracle 6 40 c (run_case md 40 c) = true.
Proof. exact (c06_coherent md c). Qed.

Theorem coherence_c07 md c : coh_domain c = true -> oracle 7 40 c (run_case md 40 c) = true.
Proof. exact (c07_coherent md c). Qed.

Theorem coherence_c10 md c : coh_domain c = true -> oracle 10 40 c (run_case md 40 c) = true.
Proof. exact (c10_coherent md c). Qed.

Theorem coherence_c10_desc md c : desc_domain c = true -> oracle 10 40 c (run_case md 40 c) = true.
Proof. exact (c10_desc_coherent md c). Qed.

Theorem coherence_c15 md c : coh_domain c = true -> oracle 15 40 c (run_case md 40 c) = true.
Proof. exact (c06_coherent md c). Qed.

Theorem coherence_c15_pair md x y : pair_domain x y -> oracle 15 41 (SL [x; y]) (run_case md 41 (SL [x; y])) = true.
Proof. exact (c15_pair_coherent md x y). Qed.

(* =====================================================================================================
   Part 8: outside the domain.  An unjudged case is accepted whatever is observed (C06 says nothing about it), so the
   only cases on which the C06 oracle can reject the model's own output are the judged ones that fail [extra]; the frame
   check of C07 accepts the model's output on every case whatsoever (below 2^63 bytes). *)
Theorem c06_unjudged c impl : judged 6 40 c = false -> c06_oracle c impl = true.
Proof.
  unfold judged, c06_oracle. destruct (expect false c) as [g|]; [|reflexivity]. intros Hc. rewrite Hc. reflexivity.
Qed.

Theorem c06_total md c : (judged 6 40 c = true -> extra c = true) -> oracle 6 40 c (run_case md 40 c) = true.
Proof.
  intros H. destruct (judged 6 40 c) eqn:Hj.
  - apply coherence_c06. unfold coh_domain. rewrite Hj, (H eq_refl). reflexivity.
  - exact (c06_unjudged c _ Hj).
Qed.

Theorem c07_frame_all md c :
  (forall b, aml_case md c = [EvBytes b] -> N.of_nat (length b) < 2 ^ 63) -> c07_frame_oracle c (aml_case md c) = true.
Proof.
  intros Hs. unfold aml_case in *. destruct (term_of_sx c) as [t|] eqn:Ht.
  - destruct (enc md t) as [b|] eqn:E; cbn [ev_opt] in *.
    + exact (c07_frame_ok md c t b Ht E (Hs b eq_refl)).
    + unfold c07_frame_oracle. destruct (negb _); reflexivity.
  - unfold c07_frame_oracle. destruct (negb _); reflexivity.
Qed.

Theorem c07_total md c :
  (judged 6 40 c = true -> extra c = true) ->
  (forall b, run_case md 40 c = [EvBytes b] -> N.of_nat (length b) < 2 ^ 63) ->
  oracle 7 40 c (run_case md 40 c) = true.
Proof.
  intros H Hs. change (c07_frame_oracle c (aml_case md c) && oracle 6 40 c (run_case md 40 c) = true).
  rewrite (c06_total md c H), andb_true_r. exact (c07_frame_all md c Hs).
Qed.

(* The size condition of [extra] is needed: a BufferData of 2^28 bytes or more is judged ([expect] does not look at sizes), the
   model refuses it in both profiles (as the crate does: C18), and the C06 oracle counts the refusal as a violation. *)
Definition big_buffer (n : nat) : sx := SL [SA 11; SL (repeat (SA 0) n)].

Lemma sx_nums_repeat n : sx_nums (repeat (SA 0) n) = Some (repeat 0 n).
Proof. induction n as [|n IH]; [reflexivity|]. cbn [repeat sx_nums]. rewrite IH. reflexivity. Qed.

Lemma calls_repeat n : calls_of (SL (repeat (SA 0) n)) = [].
Proof.
  rewrite calls_of_eq. assert (H1 : own_call (repeat (SA 0) n) = []) by (destruct n; reflexivity). rewrite H1. cbn [app]. clear H1.
  induction n as [|n IH]; [reflexivity|]. cbn [repeat flat_map]. rewrite IH. reflexivity.
Qed.

Theorem oversize_refusal_is_rejected md n : 2 ^ 28 <= N.of_nat n < 2 ^ 62 ->
  judged 6 40 (big_buffer n) = true /\ aml_case md (big_buffer n) = [EvPanic] /\
  c06_oracle (big_buffer n) (aml_case md (big_buffer n)) = false.
Proof.
  intros Hn. unfold big_buffer.
  assert (Hb : sx_bytes (SL (repeat (SA 0) n)) = Some (repeat 0 n)) by (cbn [sx_bytes]; apply sx_nums_repeat).
  assert (Hg : expect false (SL [SA 11; SL (repeat (SA 0) n)]) = Some (GBuffer (GInt (N.of_nat (length (repeat 0 n)))) (repeat 0 n))).
  { rewrite ex11, Hb. reflexivity. }
  assert (Hc : env_consistent (SL [SA 11; SL (repeat (SA 0) n)]) = true).
  { rewrite env_consistent_tbl, calls_of_eq. cbn [own_call flat_map app]. rewrite calls_repeat. reflexivity. }
  assert (Hp : aml_case md (SL [SA 11; SL (repeat (SA 0) n)]) = [EvPanic]).
  { unfold aml_case. change (term_of_sx (SL [SA 11; SL (repeat (SA 0) n)])) with (option_map TBufData (sx_bytes (SL (repeat (SA 0) n)))).
    rewrite Hb. cbn [option_map enc]. unfold buffer_data, framed.
    pose proof (enc_usize_len (N.of_nat (length (repeat 0 n)))) as Lu. set (u := enc_usize _) in *.
    rewrite pkg_len_refuse; [reflexivity| |].
    - rewrite app_length, repeat_length. change (2 ^ 62) with 4611686018427387904 in Hn. change (2 ^ 63) with 9223372036854775808. lia.
    - rewrite app_length, repeat_length. change (2 ^ 28) with 268435456 in *. lia. }
  split; [unfold judged; rewrite Hg; exact Hc|]. split; [exact Hp|].
  rewrite Hp. unfold c06_oracle. rewrite Hg, Hc. reflexivity.
Qed.
